/-
C16 — the points format for shapes of any dimension, with missing coordinates.

  ptsN_roundtrip          a shape with ≥ 2 axes: as many points come back, each with exactly two coordinates; a missing
                          coordinate of the first two axes comes back missing, a present one within 0.0005
  ptsN_drops_higher_axes  OUTSIDE the format's reach, modelled as it is: the third and further axes are not written —
                          two shapes that agree on the first two axes produce the same file (a 3-D shape comes back
                          2-D); a shape with fewer than two axes cannot be exported
  ptsN_extends_2d         on complete 2-D shapes this is `ptsRoundTrip` of `pts_roundtrip_3dp`
-/
import MenpoModel.Core.C16PtsN
import MenpoModel.Lemmas.C16Num

namespace MenpoModel.C16

/-- a coordinate that may be missing comes back missing / within half a unit of the third decimal -/
def Near (a b : Option ℚ) : Prop :=
  match a, b with
  | none, none => True
  | some x, some y => |x - y| ≤ 1 / 2000
  | _, _ => False

theorem near_fmt3O (v : Option ℚ) : Near ((fmt3O v).map (· - 1)) v := by
  cases v with
  | none => trivial
  | some q =>
    show |fmt3 (q + 1) - 1 - q| ≤ 1 / 2000
    have := fmt3_err (q + 1)
    have e : fmt3 (q + 1) - 1 - q = fmt3 (q + 1) - (q + 1) := by ring
    rw [e]; exact this

theorem ptsRoundTripRow_spec (r : List (Option ℚ)) (h : 2 ≤ r.length) :
    ∃ y x, ptsRoundTripRow r = some [y, x] ∧ Near y (r.getD 0 none) ∧ Near x (r.getD 1 none) := by
  match r, h with
  | a :: b :: t, _ =>
    refine ⟨(fmt3O a).map (· - 1), (fmt3O b).map (· - 1), rfl, ?_, ?_⟩
    · simpa using near_fmt3O a
    · simpa using near_fmt3O b

theorem allSome_map_spec {α β} (f : α → Option β) (P : α → β → Prop) (l : List α)
    (h : ∀ a ∈ l, ∃ b, f a = some b ∧ P a b) :
    ∃ r, allSome (l.map f) = some r ∧ r.length = l.length ∧
      ∀ i (h1 : i < l.length) (h2 : i < r.length), P (l[i]'h1) (r[i]'h2) := by
  induction l with
  | nil => exact ⟨[], rfl, rfl, by intro i h1; simp at h1⟩
  | cons a t ih =>
    obtain ⟨b, hb, hp⟩ := h a (by simp)
    obtain ⟨r, hr, hl, hall⟩ := ih (fun x hx => h x (by simp [hx]))
    refine ⟨b :: r, by simp [allSome, hb, hr], by simp [hl], ?_⟩
    intro i h1 h2
    cases i with
    | zero => simpa using hp
    | succ j => simpa using hall j (by simpa using h1) (by simpa using h2)

/-- PROPERTY (PTS, any dimension ≥ 2, NaN allowed).  Export then import returns as many points, each with exactly two
coordinates in menpo's axis order; a NaN comes back NaN and a number within half a unit of the third decimal. -/
theorem ptsN_roundtrip (pts : List (List (Option ℚ))) (h : ∀ r ∈ pts, 2 ≤ r.length) :
    ∃ back, ptsRoundTripN pts = some back ∧ back.length = pts.length ∧
      ∀ i (h1 : i < pts.length) (h2 : i < back.length),
        ∃ y x, back[i]'h2 = [y, x] ∧ Near y ((pts[i]'h1).getD 0 none) ∧ Near x ((pts[i]'h1).getD 1 none) := by
  unfold ptsRoundTripN
  exact allSome_map_spec ptsRoundTripRow
    (fun r b => ∃ y x, b = [y, x] ∧ Near y (r.getD 0 none) ∧ Near x (r.getD 1 none)) pts
    (fun r hr => by
      obtain ⟨y, x, h1, h2, h3⟩ := ptsRoundTripRow_spec r (h r hr)
      exact ⟨[y, x], h1, y, x, rfl, h2, h3⟩)

/-- outside the format's reach: only the first two axes are written (so a 3-D shape comes back 2-D), and a shape with
fewer than two axes cannot be exported at all -/
theorem ptsN_drops_higher_axes (y x : Option ℚ) (t t' : List (Option ℚ)) :
    ptsExportRow (y :: x :: t) = ptsExportRow (y :: x :: t') ∧
    ptsRoundTripRow (y :: x :: t) = ptsRoundTripRow [y, x] ∧
    ptsExportRow [y] = none ∧ ptsExportRow [] = none := ⟨rfl, rfl, rfl, rfl⟩

/-- on complete 2-D shapes: the model of `pts_roundtrip_3dp` -/
theorem ptsN_extends_2d (pts : List (ℚ × ℚ)) :
    ptsRoundTripN (pts.map fun p => [some p.1, some p.2]) =
      some ((ptsRoundTrip pts).map fun p => [some p.1, some p.2]) := by
  unfold ptsRoundTripN ptsRoundTrip
  induction pts with
  | nil => rfl
  | cons p t ih =>
    simp only [List.map_cons] at ih ⊢
    simp only [ptsRoundTripRow, ptsExportRow, Option.map_some, allSome, ptsImportRow, fmt3O, ptsImport, ptsExport]
    rw [ih]
    rfl

/-! ### non-vacuity -/

example : ptsRoundTripN [[some (1/16), none, some 7], [none, some (3/16), some 8]] =
    some [[some (62/1000), none], [none, some (188/1000)]] := by decide +kernel

example : ptsRoundTripN [[some 1]] = none := by decide +kernel

end MenpoModel.C16
