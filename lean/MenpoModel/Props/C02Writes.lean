/-
C02 — which instance attributes the in-place pass rebinds.  The model's answer is a function of the
method-resolution table (`inplaceWrites`); `GenProps/C02.lean` compares it, on every run, with the attributes
whose binding changed on the private copy of live objects of all 8 shape classes (and their managers, group
dicts and groups at depth 1 and 2) under every transform class, and checks that no array buffer was written in
place.  Core Lean only.
-/
import MenpoModel.Props.C02Deep

namespace MenpoModel.C02

theorem inplaceWrites_shape (c : SCls) : inplaceWrites expectedDispatch (.shape c) = ["points"] := by
  simp only [inplaceWrites, supInplace_shape, supSelf_shape]

/-- FRAME with the table: every cell that existed before the in-place pass on a laid-out tree and differs after it
is an object of a class `c` one of whose attributes LISTED IN THE TABLE has been rebound; everything else about it
— and every other cell — is as before -/
theorem inplace_writes_in_table (f : Arr → Arr) (k : Nat) (base : Nat) (s : Shape) (h h' : Heap) (lo hi : Nat)
    (v : Val) (hb : base ≤ lo) (r : RepInD base h s lo hi v) (hrun : inplace expectedDispatch f k h v = .ok h') :
    ∀ a, a < h.length → h'[a]? = h[a]? ∨
      ∃ c fs x w, x ∈ inplaceWrites expectedDispatch c ∧ h[a]? = some (.obj c fs) ∧
        h'[a]? = some (.obj c (setSlot fs x w)) := by
  intro a ha
  obtain ⟨fr, _⟩ := inplace_specD f k base s h lo hi v h' hb r hrun
  rcases fr.same a ha with e | ⟨_, _, c, fs, w, e1, e2⟩
  · exact .inl e
  · exact .inr ⟨.shape c, fs, "points", w, by rw [inplaceWrites_shape]; exact List.mem_singleton.mpr rfl, e1, e2⟩

/-- the whole call: cells that existed before `apply` are not written at all; the objects of the RESULT differ
from the private copy only in table attributes (this is `apply_refines_deep` + the frame above) -/
theorem apply_writes_nothing_old (f : Arr → Arr) (k : Nat) (s : Shape) (h h' : Heap) (v v' : Val)
    (r : RepD h.length h s v) (hrun : applyH expectedDispatch f k h v = .ok (h', v')) :
    ∀ a, a < h.length → h'[a]? = h[a]? :=
  fun _ ha => (apply_refines_deep f k s h h' v v' r hrun).1.get_lt ha

example : writesAgree expectedDispatch
    [(.shape .PointCloud, ["points"]), (.LandmarkManager, []), (.shape .PointTree, ["points"])] = true := by decide
-- with `_transform_self_inplace` resolving to `Shape`'s `pass` the table says: nothing is rebound
example : inplaceWrites passSelfDispatch (.shape .PointTree) = [] := by decide

end MenpoModel.C02
