/-
C02 — theorems about the methods as the SOURCE states them (Core/C02Src.lean: `coreMethods`, resolved through the
method-resolution table by `vApply` …).  GenProps/C02SrcV.lean proves on every run that the methods translated from the
source text of the working tree ARE `coreMethods`, and restates the theorems below over the translated methods and
the regenerated table.  Core Lean only.

  `vInplaceS_expected`      the in-place pass (Shape._transform_inplace → LandmarkManager._transform_inplace → every
                            group, recursively → PointCloud._transform_self_inplace) with a closure that may raise is
                            `mapShapeE`: groups first, in order, then the points; the first failure ends it
  `vApply_shape` / `vApply_array`   `Transform.apply` on a shape / on a bare array
  `vApply_agrees`           … is, for closures that do not raise and `batch_size` `None` or positive, exactly the model
                            `applyT` the value-level theorems of Props/C02Base.lean / C02Batch.lean are about
  `applyBatchedE_*`         `_apply_batched` for every `batch_size`: `None`, positive (= `applyBatched`), and ≤ 0
                            (ValueError unless the array has no points)
  `apply_nonpos_batch`      `apply(shape, batch_size ≤ 0)` raises ValueError exactly when some array of the tree has
                            points, and otherwise equals `apply(shape)`
  `chainFnE_ok`, `withDimsE_list_ok`, `withDimsE_index_error`, `withDimsE_single`, `hom_plumbing`, `affine_plumbing`
-/
import MenpoModel.Lemmas.C02Src
import MenpoModel.Props.C02Batch

namespace MenpoModel.C02

/-! ### the traversal with a closure that may raise -/

mutual
theorem mapShapeE_ok (f : Arr → Arr) : ∀ s, mapShapeE (okFn f) s = .ok (mapShape f s)
  | .mk c p l e => by simp only [mapShapeE, mapGroupsE_ok f l, okFn, mapShape]
theorem mapGroupsE_ok (f : Arr → Arr) : ∀ g, mapGroupsE (okFn f) g = .ok (mapGroups f g)
  | .nil => by simp only [mapGroupsE, mapGroups]
  | .cons n g r => by simp only [mapGroupsE, mapShapeE_ok f g, mapGroupsE_ok f r, mapGroups]
end

/-! the fields of `coreMethods`, one by one (so that proofs never have to unfold the record where it is an argument) -/
theorem cm_shapeInplace : coreMethods.shapeInplace = coreShapeInplace := rfl
theorem cm_pcSelf : coreMethods.pcSelf = fun s t => (t s.points).map fun p => (s.setPoints p, .shape (s.setPoints p)) := rfl
theorem cm_lmInplace : coreMethods.lmInplace = coreLmInplace := rfl
theorem cm_transform : coreMethods.transform =
    fun callCopy callI x t => (callCopy x).bind fun c => (callI c t).map Prod.fst := rfl
theorem cm_apply : coreMethods.apply = fun callT ap x b =>
    tryExcept (callT x fun a => applyBatchedE ap b a) (· == .attr) (BatchArg.run (fun a k => applyBatchedE ap k a) x b) := rfl

theorem vCopy_shape (s : Shape) : vCopy expectedDispatch (.shape s) = .ok (.shape s) := by
  obtain ⟨c, p, l, e⟩ := s
  cases c <;> rfl

theorem vSelf_expected (s : Shape) (t : Fn) :
    vSelf coreMethods expectedDispatch s t = (t s.points).map fun p => (s.setPoints p, .shape (s.setPoints p)) := by
  simp only [vSelf, supSelf_shape, cm_pcSelf]

mutual
/-- the in-place pass of the source, resolved through the table, is `mapShapeE` (fuel: nesting depth) -/
theorem vInplaceS_expected (t : Fn) : ∀ (s : Shape) (fuel : Nat), s.depth ≤ fuel →
    vInplaceS coreMethods expectedDispatch fuel s t = (mapShapeE t s).map fun s' => (s', PV.shape s')
  | .mk c p l e, 0, h => by simp [Shape.depth] at h
  | .mk c p l e, n + 1, h => by
    have hl : l.depth ≤ n := by simp only [Shape.depth] at h; omega
    have hg := vGroups_expected t l n hl
    simp only [vInplaceS, supInplace_shape, cm_shapeInplace, coreShapeInplace, vInplaceM, supInplace_lm, cm_lmInplace,
      coreLmInplace, Shape.lms, Shape.cls, mapShapeE, vSelf_expected]
    cases l with
    | nil =>
      simp only [Groups.isNil, if_true, mapGroupsE, Shape.points, Shape.setPoints]
      cases t p <;> rfl
    | cons gn g r =>
      simp only [Groups.isNil, Bool.false_eq_true, if_false]
      rw [hg]
      cases hm : mapGroupsE t (.cons gn g r) with
      | error er => rfl
      | ok l' =>
        simp only [Except.map, Shape.withLandmarks, Groups.ofList_toList, Shape.points, Shape.setPoints]
        cases t p <;> rfl
theorem vGroups_expected (t : Fn) : ∀ (g : Groups) (fuel : Nat), g.depth ≤ fuel →
    mapME (fun kv => (vInplaceS coreMethods expectedDispatch fuel kv.2 t).map fun r => (kv.1, r.1)) g.toList =
      (mapGroupsE t g).map Groups.toList
  | .nil, _, _ => by simp only [Groups.toList, mapME, mapGroupsE, Except.map]
  | .cons n g r, fuel, h => by
    have h1 : g.depth ≤ fuel := by simp only [Groups.depth] at h; omega
    have h2 : r.depth ≤ fuel := by simp only [Groups.depth] at h; omega
    simp only [Groups.toList, mapME, vInplaceS_expected t g fuel h1, vGroups_expected t r fuel h2, mapGroupsE]
    cases mapShapeE t g with
    | error er => rfl
    | ok g' =>
      simp only [Except.map]
      cases mapGroupsE t r <;> rfl
end

/-- `x._transform(t)` on a shape: copy, in-place pass on the copy, the copy is returned -/
theorem vTransform_shape (t : Fn) (s : Shape) (fuel : Nat) (h : s.depth ≤ fuel) :
    vTransform coreMethods expectedDispatch fuel (.shape s) t = (mapShapeE t s).map PV.shape := by
  simp only [vTransform, PV.cls, supTransform_shape, cm_transform, vCopy_shape, Except.bind, vInplace,
    vInplaceS_expected t s fuel h]
  cases mapShapeE t s <;> rfl

theorem vTransform_array (t : Fn) (a : Arr) (fuel : Nat) :
    vTransform coreMethods expectedDispatch fuel (.array a) t = .error .attr := rfl

/-- `transform.apply(shape, batch_size)`: the closure is `_apply_batched`; an AttributeError from inside falls into the
`except` arm, where `_apply_batched` meets an object that is not an array -/
theorem vApply_shape (ap : Fn) (b : Option Int) (s : Shape) (fuel : Nat) (h : s.depth ≤ fuel) :
    vApply coreMethods expectedDispatch fuel ap (.shape s) b =
      tryExcept ((mapShapeE (fun a => applyBatchedE ap b a) s).map PV.shape) (· == .attr) (.error .unknown) := by
  simp only [vApply, cm_apply, vTransform_shape _ s fuel h]
  rfl

/-- `transform.apply(array, batch_size)`: `x._transform` does not exist, the `except` arm batches the array itself -/
theorem vApply_array (ap : Fn) (b : Option Int) (a : Arr) (fuel : Nat) :
    vApply coreMethods expectedDispatch fuel ap (.array a) b = (applyBatchedE ap b a).map PV.array := by
  simp only [vApply, cm_apply, vTransform_array]
  rfl

/-! ### `_apply_batched` for every batch size -/

theorem mapME_ok {α β : Type} (f : α → β) : ∀ xs : List α, mapME (fun x => (.ok (f x) : Except Err β)) xs = .ok (xs.map f)
  | [] => rfl
  | x :: xs => by simp only [mapME, mapME_ok f xs, List.map_cons]

theorem mapME_okFn (f : Arr → Arr) (xs : List Arr) : mapME (okFn f) xs = .ok (xs.map f) := mapME_ok f xs

/-- the exception an outcome is, if any (examples) -/
def errOf {α : Type} : Except Err α → Option Err
  | .error e => some e
  | .ok _ => none

theorem applyBatchedE_none (f : Fn) (x : Arr) : applyBatchedE f none x = f x := rfl

theorem applyBatchedE_empty (f : Fn) (k : Int) : applyBatchedE f (some k) [] = f [] := rfl

/-- `batch_size ≤ 0` on an array that has points: ValueError, whatever the transform -/
theorem applyBatchedE_nonpos (f : Fn) (k : Int) (hk : k ≤ 0) (x : Arr) (hx : x ≠ []) :
    applyBatchedE f (some k) x = .error .value := by
  have : x.isEmpty = false := by cases x with | nil => exact absurd rfl hx | cons _ _ => rfl
  simp only [applyBatchedE, this, Bool.false_eq_true, if_false, hk, if_true]

/-- a positive `batch_size` and a closure that does not raise: the model `applyBatched` -/
theorem applyBatchedE_pos (f : Arr → Arr) (k : Nat) (hk : 0 < k) (x : Arr) :
    applyBatchedE (okFn f) (some (k : Int)) x = .ok (applyBatched f (some k) x) := by
  simp only [applyBatchedE, applyBatched]
  cases hx : x.isEmpty with
  | true => simp [okFn]
  | false =>
    have : ¬ ((k : Int) ≤ 0) := by omega
    simp only [Bool.false_eq_true, if_false, this, Int.toNat_natCast, mapME_okFn, Except.map]

/-- `batch_size` as the model's `Option Nat` -/
def batchInt (b : Option Nat) : Option Int := b.map fun k => (k : Int)

theorem applyBatchedE_ok (f : Arr → Arr) (b : Option Nat) (hb : ∀ k, b = some k → 0 < k) :
    (fun a => applyBatchedE (okFn f) (batchInt b) a) = okFn (applyBatched f b) := by
  funext a
  cases b with
  | none => rfl
  | some k => exact applyBatchedE_pos f k (hb k rfl) a

def argPV : Arg → PV
  | .shape s => .shape s
  | .array a => .array a

def Arg.depth : Arg → Nat
  | .shape s => s.depth
  | .array _ => 0

/-- THE TIE of the value-level theorems to the source: for a transform whose `_apply` does not raise and `batch_size`
`None` or positive, `Transform.apply` as the source states it — resolved through the method-resolution table, on a
shape of any class with landmark groups nested to any depth, or on a bare array — is the model `applyT` that
`apply_batched_expected`, `apply_class_preserved`, `apply_points`, `apply_landmarks`, `apply_extra_unchanged`,
`apply_array_agrees`, `apply_batch_invariant`, `apply_chain` … are about -/
theorem vApply_agrees (f : Arr → Arr) (b : Option Nat) (hb : ∀ k, b = some k → 0 < k) (a : Arg) (fuel : Nat)
    (h : a.depth ≤ fuel) :
    vApply coreMethods expectedDispatch fuel (okFn f) (argPV a) (batchInt b) =
      (applyT expectedDispatch f b a).map argPV := by
  cases a with
  | shape s =>
    rw [argPV, vApply_shape _ _ _ _ h, applyBatchedE_ok f b hb, mapShapeE_ok, apply_batched_expected f b hb]
    rfl
  | array x =>
    rw [argPV, vApply_array]
    have := congrFun (applyBatchedE_ok f b hb) x
    rw [this]
    rfl

/-- PROPERTY over the source: points, landmark groups at every depth, class and all other attributes -/
theorem vApply_expected (f : Arr → Arr) (b : Option Nat) (hb : ∀ k, b = some k → 0 < k) (s : Shape) (fuel : Nat)
    (h : s.depth ≤ fuel) :
    vApply coreMethods expectedDispatch fuel (okFn f) (.shape s) (batchInt b) =
      .ok (.shape (mapShape (applyBatched f b) s)) := by
  have := vApply_agrees f b hb (.shape s) fuel h
  rw [argPV, apply_batched_expected f b hb] at this
  exact this

/-! ### `batch_size ≤ 0` -/

mutual
/-- no array of the tree has points -/
def Shape.allEmpty : Shape → Bool
  | .mk _ p l _ => p.isEmpty && l.allEmpty
def Groups.allEmpty : Groups → Bool
  | .nil => true
  | .cons _ g r => g.allEmpty && r.allEmpty
end

theorem batched_nonpos_val (f : Arr → Arr) (k : Int) (hk : k ≤ 0) (p : Arr) :
    applyBatchedE (okFn f) (some k) p = if p.isEmpty then .ok (f p) else .error .value := by
  cases p with
  | nil => rfl
  | cons r rs => simp [applyBatchedE, hk]

mutual
theorem mapShapeE_nonpos (f : Arr → Arr) (k : Int) (hk : k ≤ 0) : ∀ s,
    mapShapeE (fun a => applyBatchedE (okFn f) (some k) a) s =
      if s.allEmpty then .ok (mapShape f s) else .error .value
  | .mk c p l e => by
    simp only [mapShapeE, mapGroupsE_nonpos f k hk l]
    simp only [Shape.allEmpty, mapShape, batched_nonpos_val f k hk]
    by_cases hl : l.allEmpty = true <;> by_cases hp : p.isEmpty = true <;> simp [hl, hp]
theorem mapGroupsE_nonpos (f : Arr → Arr) (k : Int) (hk : k ≤ 0) : ∀ g,
    mapGroupsE (fun a => applyBatchedE (okFn f) (some k) a) g =
      if g.allEmpty then .ok (mapGroups f g) else .error .value
  | .nil => by simp only [mapGroupsE, Groups.allEmpty, if_true, mapGroups]
  | .cons n g r => by
    simp only [mapGroupsE, mapShapeE_nonpos f k hk g, mapGroupsE_nonpos f k hk r]
    simp only [Groups.allEmpty, mapGroups]
    by_cases hg : g.allEmpty = true <;> by_cases hr : r.allEmpty = true <;> simp [hg, hr]
end

/-- ERROR BRANCH (formerly outside the model): `transform.apply(shape, batch_size=k)` with `k ≤ 0` raises ValueError
exactly when some array of the tree — the shape's points or a landmark group's at any depth — has points; a tree
without any point is returned as by `apply(shape)`.  No partial result exists: it is the error or the whole tree. -/
theorem apply_nonpos_batch (f : Arr → Arr) (k : Int) (hk : k ≤ 0) (s : Shape) (fuel : Nat) (h : s.depth ≤ fuel) :
    vApply coreMethods expectedDispatch fuel (okFn f) (.shape s) (some k) =
      if s.allEmpty then .ok (.shape (mapShape f s)) else .error .value := by
  rw [vApply_shape _ _ _ _ h, mapShapeE_nonpos f k hk]
  cases s.allEmpty <;> rfl

/-- … and on a bare array -/
theorem apply_nonpos_batch_array (f : Arr → Arr) (k : Int) (hk : k ≤ 0) (x : Arr) (fuel : Nat) :
    vApply coreMethods expectedDispatch fuel (okFn f) (.array x) (some k) =
      if x.isEmpty then .ok (.array (f x)) else .error .value := by
  rw [vApply_array]
  cases x with
  | nil => rfl
  | cons r rs => simp [applyBatchedE, hk, Except.map]

-- the hypotheses are satisfiable, and both outcomes occur
example : errOf (vApply coreMethods expectedDispatch 3 (okFn List.reverse)
    (.shape (.mk .PointCloud [[1], [2]] (.cons "g" (.mk .TriMesh [[7]] .nil []) .nil) [])) (some 0)) = some .value := by
  decide
example : (vApply coreMethods expectedDispatch 3 (okFn List.reverse)
    (.shape (.mk .PointCloud [] (.cons "g" (.mk .TriMesh [] .nil []) .nil) [])) (some (-2))).toOption.isSome = true := by
  decide
example : (vApply coreMethods expectedDispatch 3 (okFn List.reverse)
    (.shape (.mk .PointCloud [[1], [2], [3]] (.cons "g" (.mk .TriMesh [[7], [8], [9]] .nil []) .nil) [])) (some 2)).toOption.map
      (fun v => match v with | .shape s => (s.points, (s.at ["g"]).map Shape.points) | _ => ([], none)) =
    some ([[2], [1], [3]], some [[8], [7], [9]]) := by decide

/-! ### chains, WithDims, the homogeneous family -/

theorem chainFnE_ok : ∀ (fs : List (Arr → Arr)) (x : Arr), chainFnE (fs.map okFn) x = .ok (chainFn fs x)
  | [], x => rfl
  | g :: fs, x => by
    have := chainFnE_ok fs (g x)
    simp only [chainFnE] at this ⊢
    simp only [List.map_cons, forLoopE, okFn, chainFn, List.foldl_cons] at this ⊢
    exact this

theorem mapME_colIdx (w : Nat) : ∀ (js : List Nat), (∀ j, j ∈ js → j < w) →
    mapME (colIdx w) (js.map Int.ofNat) = .ok js
  | [], _ => rfl
  | j :: js, h => by
    have hj : j < w := h j (List.mem_cons_self ..)
    have : colIdx w (Int.ofNat j) = .ok j := by
      have h1 : (0 : Int) ≤ Int.ofNat j ∧ Int.ofNat j < (w : Int) := ⟨by simp, by simp; omega⟩
      rw [colIdx, if_pos h1]; rfl
    simp only [List.map_cons, mapME, this, mapME_colIdx w js (fun i hi => h i (List.mem_cons_of_mem _ hi))]

/-- in-range, non-negative column indices on an array whose rows all have the same width: the model `withDims` -/
theorem withDimsE_list_ok (dims : List Nat) (x : Arr) (w : Nat) (hw : ∀ row, row ∈ x → row.length = w)
    (hd : ∀ j, j ∈ dims → j < w) :
    withDimsE (.list (dims.map Int.ofNat)) x = .ok (withDims dims x) := by
  cases x with
  | nil => rfl
  | cons r0 rs =>
    have h0 : r0.length = w := hw r0 (List.mem_cons_self ..)
    simp only [withDimsE, colIndex, dimsCols, h0, mapME_colIdx w dims hd, NdArr.ndim, NdArr.asArr, withDims]
    rfl

/-- ERROR BRANCH (formerly outside the model): an index outside `[-n_dims, n_dims)` makes `WithDims._apply` raise
IndexError on every array that has points -/
theorem withDimsE_index_error (js : List Int) (x : Arr) (r0 : List Rat) (rs : Arr) (hx : x = r0 :: rs) (j : Int)
    (hj : j ∈ js) (hout : j < -(r0.length : Int) ∨ (r0.length : Int) ≤ j) :
    withDimsE (.list js) x = .error .index := by
  subst hx
  have hbad : colIdx r0.length j = .error .index := by
    simp only [colIdx]
    have h1 : ¬ ((0 : Int) ≤ j ∧ j < (r0.length : Int)) := by omega
    have h2 : ¬ (j < 0 ∧ -(r0.length : Int) ≤ j) := by omega
    simp [h1, h2]
  have hall : ∀ (l : List Int), j ∈ l → mapME (colIdx r0.length) l = .error .index := by
    intro l
    induction l with
    | nil => intro h; cases h
    | cons a t ih =>
      intro h
      simp only [mapME]
      cases ha : colIdx r0.length a with
      | error e =>
        simp only [colIdx] at ha
        split at ha
        · cases ha
        · split at ha
          · cases ha
          · simp only [Except.error.injEq] at ha; subst ha; rfl
      | ok i =>
        have hne : a ≠ j := fun h0 => by rw [h0, hbad] at ha; cases ha
        have : j ∈ t := by
          cases h with
          | head => exact absurd rfl hne
          | tail _ h' => exact h'
        simp only [ih this]
  simp only [withDimsE, colIndex, dimsCols, hall js hj]

/-- a mask of the wrong length: IndexError -/
theorem withDimsE_mask_error (bs : List Bool) (r0 : List Rat) (rs : Arr) (h : bs.length ≠ r0.length) :
    withDimsE (.mask bs) (r0 :: rs) = .error .index := by
  simp only [withDimsE, colIndex, dimsCols, h, if_false]

/-- a single in-range integer: numpy drops the axis, `_apply` restores it — one column per point -/
theorem withDimsE_single (j : Nat) (x : Arr) (w : Nat) (hw : ∀ row, row ∈ x → row.length = w) (hj : j < w) :
    withDimsE (.single (j : Int)) x = .ok (withDims [j] x) := by
  cases x with
  | nil => rfl
  | cons r0 rs =>
    have h0 : r0.length = w := hw r0 (List.mem_cons_self ..)
    have : colIdx w (j : Int) = .ok j := by
      simp only [colIdx]
      have : (0 : Int) ≤ (j : Int) ∧ (j : Int) < (w : Int) := ⟨by omega, by omega⟩
      simp [this]
    simp [withDimsE, colIndex, dimsCols, h0, this, NdArr.ndim, NdArr.newAxis, NdArr.asArr, withDims, Except.map]

example : (withDimsE (.list [1, -3]) [[1, 2, 3], [4, 5, 6]]).toOption = some [[2, 1], [5, 4]] := by decide +kernel
example : errOf (withDimsE (.list [0, 3]) [[1, 2, 3]]) = some .index := by decide +kernel
example : errOf (withDimsE (.list [-4]) [[1, 2, 3]]) = some .index := by decide +kernel
example : (withDimsE (.mask [true, false, true]) [[1, 2, 3], [4, 5, 6]]).toOption = some [[1, 3], [4, 6]] := by
  decide +kernel
example : (withDimsE (.single 2) [[1, 2, 3], [4, 5, 6]]).toOption = some [[3], [6]] := by decide +kernel

/-- the three numpy expressions of `Homogeneous._apply`, in the order the source composes them, are `homApply` -/
theorem hom_plumbing (H x : Arr) : normLast (dotT (hstackOnes x) H) = homApply H x := by
  simp only [normLast, dotT, hstackOnes, homApply, List.map_map]
  rfl

theorem zipWith_map_map {α β γ δ : Type} (f : β → γ → δ) (g : α → β) (h : α → γ) :
    ∀ l : List α, List.zipWith f (l.map g) (l.map h) = l.map fun a => f (g a) (h a)
  | [] => rfl
  | a :: t => by simp only [List.map_cons, List.zipWith_cons_cons, zipWith_map_map f g h t]

/-- `np.dot(x, linear_component.T) + translation_component` with the two slices of `h_matrix` is `affineApply` -/
theorem affine_plumbing (H x : Arr) : addRow (dotT x (sliceLinear H)) (sliceTranslation H) = affineApply H x := by
  simp only [addRow, dotT, sliceLinear, sliceTranslation, affineApply, List.map_map]
  apply List.map_congr_left
  intro r _
  simp only [Function.comp]
  exact zipWith_map_map (· + ·) (fun mr => dotRow mr.dropLast r) (fun mr => mr.getLastD 0) H.dropLast

end MenpoModel.C02
