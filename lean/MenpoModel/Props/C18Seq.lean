/-
C18 — Part E: feature of feature.  Invariants of arbitrary sequences of decorated features, by induction over the
sequence: same values as the same sequence on the raw array, same kind, same landmark groups, annotations untouched
while the size is kept, and no buffer that existed before the sequence is ever written.
-/
import MenpoModel.Props.C18Base
import MenpoModel.Core.C18Table

namespace MenpoModel.C18

section seq
variable {P : Type} (sh : P → List Nat)

theorem ndfeature_img_returns_img (f : P → Except Err P) (im : Img P) (r : Arg P)
    (h : ndfeature sh f (.img im) = .ok r) : ∃ r', r = .img r' := by
  simp only [ndfeature] at h
  cases hf : f im.pixels with
  | error e => simp [hf] at h
  | ok fp =>
    simp only [hf] at h
    cases hr : rebuild sh im fp with
    | error e => simp [hr, Except.map] at h
    | ok r' => simp only [hr, Except.map] at h; injection h with h; exact ⟨r', h.symm⟩

/-- PROPERTY (the values do not depend on the annotations): two images with the same pixel array — whatever their
masks and landmarks, masked or not — get the same feature pixels; in particular the pixels under masked-out positions
are computed like all others -/
theorem ndfeature_ignores_annotations (f : P → Except Err P) (im1 im2 : Img P) (r1 r2 : Arg P)
    (hp : im1.pixels = im2.pixels) (h1 : ndfeature sh f (.img im1) = .ok r1) (h2 : ndfeature sh f (.img im2) = .ok r2) :
    r1.pixels = r2.pixels := by
  have a1 := ndfeature_agrees sh f im1 r1 h1
  have a2 := ndfeature_agrees sh f im2 r2 h2
  rw [hp, a2] at a1
  injection a1 with a1
  injection a1 with a1
  exact a1.symm

/-- PROPERTY (compositions, same values): whenever a sequence of decorated features returns on an image, the same
sequence on the image's raw pixel array returns exactly the pixels of that result -/
theorem feature_seq_agrees (fs : List (P → Except Err P)) (im r : Img P) (h : runFeatures sh fs im = .ok r) :
    runArrays fs im.pixels = .ok r.pixels := by
  induction fs generalizing im with
  | nil => simp only [runFeatures] at h; injection h with h; subst h; rfl
  | cons f fs ih =>
    simp only [runFeatures] at h
    cases hn : ndfeature sh f (.img im) with
    | error e => simp [hn] at h
    | ok a =>
      obtain ⟨r1, rfl⟩ := ndfeature_img_returns_img sh f im a hn
      simp only [hn] at h
      have hag := ndfeature_agrees sh f im _ hn
      simp only [ndfeature, Arg.pixels] at hag
      cases hf : f im.pixels with
      | error e => simp [hf, Except.map] at hag
      | ok q =>
        simp only [hf, Except.map] at hag
        injection hag with hag; injection hag with hag
        simp only [runArrays, hf]
        rw [hag]
        exact ih r1 h

theorem rebuild_keys (im : Img P) (fp : P) (r : Img P) (h : rebuild sh im fp = .ok r) :
    r.lms.map (·.1) = im.lms.map (·.1) ∧ r.lms.map (·.2.length) = im.lms.map (·.2.length) := by
  by_cases hs : sh fp = sh im.pixels
  · rw [feature_same_size_keeps_annotations sh im fp hs] at h
    injection h with h; subst h; exact ⟨rfl, rfl⟩
  · obtain ⟨hl, _, _⟩ := feature_new_size_rescales sh im fp r hs h
    rw [hl]; exact ⟨scaleLms_keys _ _, scaleLms_sizes _ _⟩

/-- PROPERTY (compositions keep the kind and the landmark groups): after any sequence of decorated features the
result is masked iff the input was, and carries the same landmark group keys with the same number of points -/
theorem feature_seq_kind_and_groups (fs : List (P → Except Err P)) (im r : Img P) (h : runFeatures sh fs im = .ok r) :
    r.mask.isSome = im.mask.isSome ∧ r.lms.map (·.1) = im.lms.map (·.1) ∧
    r.lms.map (·.2.length) = im.lms.map (·.2.length) := by
  induction fs generalizing im with
  | nil => simp only [runFeatures] at h; injection h with h; subst h; exact ⟨rfl, rfl, rfl⟩
  | cons f fs ih =>
    simp only [runFeatures] at h
    cases hn : ndfeature sh f (.img im) with
    | error e => simp [hn] at h
    | ok a =>
      obtain ⟨r1, rfl⟩ := ndfeature_img_returns_img sh f im a hn
      simp only [hn] at h
      obtain ⟨k1, k2, k3⟩ := ih r1 h
      simp only [ndfeature] at hn
      cases hf : f im.pixels with
      | error e => simp [hf] at hn
      | ok fp =>
        simp only [hf] at hn
        cases hr : rebuild sh im fp with
        | error e => simp [hr, Except.map] at hn
        | ok r' =>
          simp only [hr, Except.map] at hn
          injection hn with hn; injection hn with hn
          subst hn
          have hk := feature_keeps_kind sh im fp r' hr
          have hg := rebuild_keys sh im fp r' hr
          exact ⟨by rw [k1, hk], by rw [k2, hg.1], by rw [k3, hg.2]⟩

/-- PROPERTY (compositions of size-keeping features return mask and landmarks unchanged) -/
theorem feature_seq_same_size (fs : List (P → Except Err P)) (hkeep : ∀ f ∈ fs, ∀ p q, f p = .ok q → sh q = sh p)
    (im r : Img P) (h : runFeatures sh fs im = .ok r) : r.mask = im.mask ∧ r.lms = im.lms := by
  induction fs generalizing im with
  | nil => simp only [runFeatures] at h; injection h with h; subst h; exact ⟨rfl, rfl⟩
  | cons f fs ih =>
    simp only [runFeatures] at h
    cases hn : ndfeature sh f (.img im) with
    | error e => simp [hn] at h
    | ok a =>
      obtain ⟨r1, rfl⟩ := ndfeature_img_returns_img sh f im a hn
      simp only [hn] at h
      obtain ⟨k1, k2⟩ := ih (fun g hg => hkeep g (by simp [hg])) r1 h
      simp only [ndfeature] at hn
      cases hf : f im.pixels with
      | error e => simp [hf] at hn
      | ok fp =>
        simp only [hf] at hn
        rw [feature_same_size_keeps_annotations sh im fp (hkeep f (by simp) _ _ hf)] at hn
        simp only [Except.map] at hn
        injection hn with hn; injection hn with hn
        subst hn
        exact ⟨k1, k2⟩

end seq

/-- PROPERTY (never modifies its input, compositions): if every array-level feature of a sequence only allocates
(`Frame`: the measured fact of the regenerated table `Generated.C18.featureRows`, row by row), then after the whole
sequence every buffer that existed before it — the input image's pixel buffer in particular — holds what it held;
intermediate results are not written either. -/
theorem feature_seq_input_untouched (sh : Chans → List Nat) (fs : List SFeat) (hf : ∀ f ∈ fs, Frame f)
    (s s' : Store) (im r : SImg) (h : runFeaturesS sh fs s im = .ok (s', r)) :
    ∃ extra, s'.bufs = s.bufs ++ extra := by
  induction fs generalizing s im with
  | nil => simp only [runFeaturesS] at h; injection h with h; injection h with h1 _; exact ⟨[], by simp [h1]⟩
  | cons f fs ih =>
    simp only [runFeaturesS] at h
    cases hn : ndfeatureS sh f s im with
    | error e => simp [hn] at h
    | ok sr =>
      obtain ⟨s1, r1⟩ := sr
      simp only [hn] at h
      obtain ⟨e1, h1⟩ := (wrapper_input_untouched sh f (hf f (by simp)) s s1 im r1 hn).1
      obtain ⟨e2, h2⟩ := ih (fun g hg => hf g (by simp [hg])) s1 r1 h
      exact ⟨e1 ++ e2, by rw [h2, h1, List.append_assoc]⟩

/-- reading any old buffer after the sequence gives its old contents -/
theorem feature_seq_reads (sh : Chans → List Nat) (fs : List SFeat) (hf : ∀ f ∈ fs, Frame f)
    (s s' : Store) (im r : SImg) (h : runFeaturesS sh fs s im = .ok (s', r)) (i : Nat) (hi : i < s.bufs.length) :
    s'.read i = s.read i := by
  obtain ⟨extra, he⟩ := feature_seq_input_untouched sh fs hf s s' im r h
  simp [Store.read, he, List.getD, List.getElem?_append_left hi]

/-- non-vacuity: no_op then the buffer-level normaliser on a one-buffer store -/
example : (runFeaturesS (fun c => [(c.headD []).length])
      [(fun s i => .ok (s.alloc (s.read i)) : SFeat), fun s i => match normalizeS var .all true false s i with | .ok r => .ok r | .error _ => .error (.feature 0)]
      ⟨[[[1, 3]]]⟩ ⟨0, none, []⟩).map (fun r => (r.1.read 0, r.1.read r.2.pix))
    = .ok ([[1, 3]], [[-1, 1]]) := by decide +kernel

end MenpoModel.C18
