/-
C03 — `WithDims` in every spelling numpy accepts for the column selection `x[:, dims]`:
an index list (`Plain.withDims`), a Boolean mask (`Plain.withMask`), integers of either sign and
a single integer (`Plain.withIdx`), a Python slice (`Plain.withSlice`).  All of them are index
lists in disguise; these theorems say which, and when the selection raises.  The laws of
composition (`step_compose_law`, `prog_denotation`, `apply_dim_sound`, `apply_total_affine` …)
are stated over arbitrary leaves and hold for all four spellings.
-/
import MenpoModel.Props.C03Base

namespace MenpoModel.C03
open MenpoModel.PyData

/-- PROPERTY (`WithDims` with integers of either sign): on a point of dimension `n` the selection
`x[:, ds]` is the selection by the non-negative positions `i` resp. `n + i` — it is defined exactly
when every index lies in `[-n, n)` (numpy raises `IndexError` otherwise), and then returns one
coordinate per index. -/
theorem withIdx_eq_withDims (env : Nat → Pt → Option Pt) (ds : List Int) (x : Pt) :
    (∀ js, normAll x.length ds = some js →
      applyLeaf E env (.plain (.withIdx ds)) x = applyLeaf E env (.plain (.withDims js)) x ∧
      ∃ y, applyLeaf E env (.plain (.withIdx ds)) x = some y ∧ y.length = ds.length) ∧
    (normAll x.length ds = none → applyLeaf E env (.plain (.withIdx ds)) x = none) := by
  refine ⟨fun js hj => ⟨by simp [applyLeaf, hj], ?_⟩, fun hn => by simp [applyLeaf, hn]⟩
  obtain ⟨hl, hb⟩ := normAll_spec hj
  obtain ⟨y, hy, hyl⟩ := pick_of_lt (is := js) (x := x) hb
  exact ⟨y, by simp [applyLeaf, hj, hy], by omega⟩

/-- an index is resolved as Python resolves it: `i` itself when `0 ≤ i < n`, `n + i` when
`-n ≤ i < 0`, an error otherwise -/
theorem normIndex_spec (n : Nat) (i : Int) :
    (0 ≤ i → i < n → normIndex n i = some i.toNat) ∧
    (i < 0 → -(n : Int) ≤ i → normIndex n i = some (i + n).toNat) ∧
    ((i < -(n : Int) ∨ (n : Int) ≤ i) → normIndex n i = none) := by
  refine ⟨fun h0 h1 => ?_, fun h0 h1 => ?_, fun h => ?_⟩
  · have : ¬ i < 0 := by omega
    simp [normIndex, this, h0, h1]
  · have h2 : 0 ≤ i + (n : Int) ∧ i + (n : Int) < n := by omega
    simp [normIndex, h0, h2]
  · unfold normIndex
    by_cases hi : i < 0
    · have : i + (n : Int) < 0 := by omega
      simp [hi]; omega
    · have : ¬ (0 ≤ i ∧ i < (n : Int)) := by omega
      simp [hi, this]

/-- PROPERTY (`WithDims` with a slice): `x[:, slice(a, b, c)]` is the selection by the index list
`range(*slice(a, b, c).indices(n))`; it never raises `IndexError` — bounds beyond the dimension are
clipped — so a slice with a non-zero step maps *every* point, to a point with one coordinate per
selected index; a zero step is refused (`ValueError`) on every point. -/
theorem withSlice_eq_withDims (env : Nat → Pt → Option Pt) (a b c : Option Int) (x : Pt) :
    (c.getD 1 ≠ 0 → ∃ is, sliceIndices a b c x.length = some is ∧ (∀ i ∈ is, i < x.length) ∧
      applyLeaf E env (.plain (.withSlice a b c)) x = applyLeaf E env (.plain (.withDims is)) x ∧
      ∃ y, applyLeaf E env (.plain (.withSlice a b c)) x = some y ∧ y.length = is.length) ∧
    (c.getD 1 = 0 → applyLeaf E env (.plain (.withSlice a b c)) x = none) := by
  constructor
  · intro hc
    have : ∃ is, sliceIndices a b c x.length = some is := by
      unfold sliceIndices; simp [hc]
    obtain ⟨is, his⟩ := this
    have hb := sliceIndices_in_range a b c x.length is his
    obtain ⟨y, hy, hyl⟩ := pick_of_lt (is := is) (x := x) hb
    exact ⟨is, his, hb, by simp [applyLeaf, his], y, by simp [applyLeaf, his, hy], hyl⟩
  · intro hc
    have : sliceIndices a b c x.length = none := by unfold sliceIndices; simp [hc]
    simp [applyLeaf, this]

/-- a slice is typed by the number of indices it selects; an integer index list by its length -/
theorem withSlice_dim (envDim : Nat → Nat → Option Nat) (a b c : Option Int) (n : Nat) :
    leafDim envDim (.plain (.withSlice a b c)) n = (sliceIndices a b c n).map List.length ∧
    ∀ ds, leafDim envDim (.plain (.withIdx ds)) n = (normAll n ds).map List.length :=
  ⟨rfl, fun _ => rfl⟩

/-! ### non-vacuity: the spellings on a 3-D point -/

example :
    let env : Nat → Pt → Option Pt := fun _ _ => none
    let x : Pt := [5, 6, 7]
    -- negative indices count from the end; a single integer selects one column
    applyLeaf E env (.plain (.withIdx [-1, 0])) x = some [7, 5] ∧
    applyLeaf E env (.plain (.withIdx [-3])) x = some [5] ∧
    applyLeaf E env (.plain (.withIdx [3])) x = none ∧
    applyLeaf E env (.plain (.withIdx [-4])) x = none ∧
    -- slices: the first two axes, every axis reversed, every other axis, clipped bounds, step 0
    applyLeaf E env (.plain (.withSlice none (some 2) none)) x = some [5, 6] ∧
    applyLeaf E env (.plain (.withSlice none none (some (-1)))) x = some [7, 6, 5] ∧
    applyLeaf E env (.plain (.withSlice none none (some 2))) x = some [5, 7] ∧
    applyLeaf E env (.plain (.withSlice (some (-2)) (some 10) none)) x = some [6, 7] ∧
    applyLeaf E env (.plain (.withSlice (some 2) (some 1) none)) x = some [] ∧
    applyLeaf E env (.plain (.withSlice none none (some 0))) x = none := by
  decide +kernel

/-- a 3-D affine map composed before `WithDims(slice(None, None, -1))` and a 3-D translation: a
chain typed 3 → 3 that reverses the axes in between -/
example :
    let st : Store := [.fam 3 exAff3, .leaf (.withSlice none none (some (-1))),
      .fam 3 ⟨.Translation, mkAffine (Mat.one 3) (Vec.ofList 3 [1, 2, 3])⟩]
    let st' := runStmts E st [.compose .before 0 1, .compose .before 3 2]
    (st'[4]?.map fun c => match c with | .chain ms => ms | _ => []) = some [0, 1, 2] ∧
    ((flat st' 3 4).bind fun ls => applyLeaves E (fun _ _ => none) ls [1, 2, 3]) = some [10, 4, 8] ∧
    ((flat st' 3 4).bind fun ls => leavesDim (fun _ _ => none) ls 3) = some 3 := by
  decide +kernel

end MenpoModel.C03
