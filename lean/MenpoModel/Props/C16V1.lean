/-
C16 — LJSON version 1: what `_parse_ljson_v1` returns for a well-formed document, in closed form.

  ljson_v1_import     a version-1 document with groups (label_k, points_k, edges_k) — distinct labels, all points of one
                      dimension, at least one point, edges inside their group — imports to ONE labelled graph `LJSON`:
                      the points of all groups concatenated in file order, the groups' edges shifted by the number of
                      points before the group (symmetrised), and label k = exactly the k-th group's slice
  ljson_v1_upgrade    exporting that import (version 3) and importing it again returns the same group: upgrading a
                      version-1 file by import + export loses nothing
-/
import MenpoModel.Props.C16

namespace MenpoModel.C16

/-- one group of a version-1 document -/
structure V1Group where
  label : String
  rows : List (List (Option Rat))
  conn : Option (List (Nat × Nat))

def encodeV1Group (g : V1Group) : Json :=
  let lms : Json := .arr (g.rows.map fun r => .obj [(.point, .arr (r.map jOpt))])
  match g.conn with
  | none => .obj [(.label, .str g.label), (.landmarks, lms)]
  | some c => .obj [(.connectivity, .arr (c.map jPair)), (.label, .str g.label), (.landmarks, lms)]

/-- the version-1 document (what menpo < 0.7 wrote; the present exporter cannot write it) -/
def encodeV1 (gs : List V1Group) : Json :=
  .obj [(.groups, .arr (gs.map encodeV1Group)), (.version, jNat 1)]

/-- the accumulator of `_parse_ljson_v1` after the groups `gs`, started from `acc` -/
def v1After (acc : V1Acc) : List V1Group → V1Acc
  | [] => acc
  | g :: t => v1After
      { offset := acc.offset + g.rows.length, rows := acc.rows ++ g.rows,
        slices := acc.slices ++ [(g.label, acc.offset, acc.offset + g.rows.length)],
        conn := acc.conn ++ (g.conn.getD []).map fun e => (e.1 + acc.offset, e.2 + acc.offset) } t

theorem getv1_label2 (a b : Json) : (Json.obj [(.label, a), (.landmarks, b)]).get .label = some a := rfl
theorem getv1_lms2 (a b : Json) : (Json.obj [(.label, a), (.landmarks, b)]).get .landmarks = some b := rfl
theorem getv1_conn2 (a b : Json) : (Json.obj [(.label, a), (.landmarks, b)]).get .connectivity = none := rfl
theorem getv1_label3 (c a b : Json) :
    (Json.obj [(.connectivity, c), (.label, a), (.landmarks, b)]).get .label = some a := rfl
theorem getv1_lms3 (c a b : Json) :
    (Json.obj [(.connectivity, c), (.label, a), (.landmarks, b)]).get .landmarks = some b := rfl
theorem getv1_conn3 (c a b : Json) :
    (Json.obj [(.connectivity, c), (.label, a), (.landmarks, b)]).get .connectivity = some c := rfl
theorem getv1_point (a : Json) : (Json.obj [(.point, a)]).get .point = some a := rfl
theorem getv1_groups (a b : Json) : (Json.obj [(.groups, a), (.version, b)]).get .groups = some a := rfl

theorem decV1Points_encode (rows : List (List (Option Rat))) :
    mapE decV1Point (rows.map fun r => Json.obj [(.point, .arr (r.map jOpt))]) = .ok rows := by
  have := mapE_map_ok decV1Point (fun r => Json.obj [(.point, .arr (r.map jOpt))]) id rows
    (fun r _ => by simp only [decV1Point, getv1_point, decRow_encode, id])
  simpa using this

theorem v1Group_encode (acc : V1Acc) (g : V1Group) :
    v1Group acc (encodeV1Group g) = .ok (v1After acc [g]) := by
  cases hc : g.conn with
  | none =>
    simp [v1Group, encodeV1Group, hc, getv1_label2, getv1_lms2, getv1_conn2, decConn, decV1Points_encode, v1After]
  | some c =>
    simp [v1Group, encodeV1Group, hc, getv1_label3, getv1_lms3, getv1_conn3, decConn_encode, decV1Points_encode,
      v1After]

theorem v1Groups_encode : ∀ (gs : List V1Group) (acc : V1Acc),
    v1Groups acc (gs.map encodeV1Group) = .ok (v1After acc gs) := by
  intro gs
  induction gs with
  | nil => intro acc; rfl
  | cons g t ih =>
    intro acc
    simp only [List.map_cons, v1Groups, v1Group_encode, v1After]
    exact ih _

/-! closed form of the accumulator -/

/-- offsets: number of points before each group, starting from `o` -/
def v1Slices (o : Nat) : List V1Group → List (String × Nat × Nat)
  | [] => []
  | g :: t => (g.label, o, o + g.rows.length) :: v1Slices (o + g.rows.length) t

def v1Conn (o : Nat) : List V1Group → List (Nat × Nat)
  | [] => []
  | g :: t => ((g.conn.getD []).map fun e => (e.1 + o, e.2 + o)) ++ v1Conn (o + g.rows.length) t

def v1Rows (gs : List V1Group) : List (List (Option Rat)) := (gs.map (·.rows)).flatten

theorem v1After_closed : ∀ (gs : List V1Group) (acc : V1Acc),
    v1After acc gs = { offset := acc.offset + (v1Rows gs).length, rows := acc.rows ++ v1Rows gs,
                       slices := acc.slices ++ v1Slices acc.offset gs, conn := acc.conn ++ v1Conn acc.offset gs } := by
  intro gs
  induction gs with
  | nil => intro acc; simp [v1After, v1Rows, v1Slices, v1Conn]
  | cons g t ih =>
    intro acc
    simp only [v1After]
    rw [ih]
    simp only [v1Rows, List.map_cons, List.flatten_cons, List.length_append, v1Slices, v1Conn, List.append_assoc,
      List.cons_append, List.nil_append, Nat.add_assoc]

theorem reshapeRows_rect_id (rows : List (List (Option Rat))) (hne : rows ≠ []) (d : Nat) (hd : 0 < d)
    (hrows : ∀ r ∈ rows, r.length = d) : reshapeRows rows = .ok rows := by
  cases rows with
  | nil => exact absurd rfl hne
  | cons r0 rs =>
    have hr0 : r0.length = d := hrows r0 (by simp)
    have hlen := length_flatten_uniform d (r0 :: rs) hrows
    have hmod : (r0 :: rs).flatten.length % d = 0 := by rw [hlen]; exact Nat.mul_mod_right d _
    have hcond : ¬ (r0.length = 0 ∨ (r0 :: rs).flatten.length % r0.length ≠ 0) := by
      rw [hr0]; intro h; rcases h with h | h
      · omega
      · exact h hmod
    simp only [reshapeRows, hcond, if_false]
    rw [hr0]
    congr 1
    apply chunksOf_flatten d hd (r0 :: rs) hrows
    rw [hlen]
    have : (r0 :: rs).length ≤ d * (r0 :: rs).length := Nat.le_mul_of_pos_left _ hd
    omega

/-- the slices of consecutive groups cover every point from the first offset to the last -/
theorem v1Slices_cover : ∀ (gs : List V1Group) (o n i : Nat), o ≤ i → i < o + (v1Rows gs).length →
    ∃ s ∈ v1Slices o gs, (sliceMask n s.2.1 s.2.2).getD i false = (decide (i < n)) := by
  intro gs
  induction gs with
  | nil => intro o n i h1 h2; simp [v1Rows] at h2; omega
  | cons g t ih =>
    intro o n i h1 h2
    simp only [v1Rows, List.map_cons, List.flatten_cons, List.length_append] at h2
    by_cases hi : i < o + g.rows.length
    · refine ⟨(g.label, o, o + g.rows.length), by simp [v1Slices], ?_⟩
      by_cases hn : i < n
      · simp [sliceMask, List.getD_eq_getElem?_getD, hn, h1, hi]
      · simp [sliceMask, List.getD_eq_getElem?_getD, hn]
    · obtain ⟨s, hs, hm⟩ := ih (o + g.rows.length) n i (by omega) (by simp only [v1Rows]; omega)
      exact ⟨s, by simp [v1Slices, hs], hm⟩

theorem v1Slices_labels : ∀ (gs : List V1Group) (o : Nat), (v1Slices o gs).map (·.1) = gs.map (·.label) := by
  intro gs
  induction gs with
  | nil => intro o; rfl
  | cons g t ih => intro o; simp [v1Slices, ih]

/-- what the property requires of the import of a version-1 document -/
def expectedV1 (gs : List V1Group) : Imported :=
  let n := (v1Rows gs).length
  { cls := .lpug, points := v1Rows gs, edges := symEdges n (v1Conn 0 gs),
    labels := (v1Slices 0 gs).map fun s => (s.1, sliceMask n s.2.1 s.2.2) }

/-- PROPERTY (LJSON version 1).  A version-1 document with distinct group labels, points of one dimension d ≥ 1 (at
least one point in all), and edges inside their own group imports to ONE labelled graph called `LJSON`: all points
concatenated in file order, every group's edges shifted by the number of points before it, one label per group
covering exactly that group's slice. -/
theorem ljson_v1_import (gs : List V1Group) (d : Nat) (hd : 0 < d) (hne : v1Rows gs ≠ [])
    (hrows : ∀ r ∈ v1Rows gs, r.length = d) (hlab : (gs.map (·.label)).Nodup)
    (hconn : ∀ e ∈ v1Conn 0 gs, e.1 < (v1Rows gs).length ∧ e.2 < (v1Rows gs).length) :
    decodeDoc (encodeV1 gs) = .ok [("LJSON", expectedV1 gs)] := by
  have hver : (encodeV1 gs).get .version = some (.num 1) := by simp [encodeV1, get_version, jNat]
  rw [(ljson_version_dispatch_legacy (encodeV1 gs)).1 hver]
  have hacc := v1Groups_encode gs ⟨0, [], [], []⟩
  rw [v1After_closed] at hacc
  simp only [Nat.zero_add, List.nil_append] at hacc
  have hre := reshapeRows_rect_id (v1Rows gs) hne d hd hrows
  -- the label dictionary
  have hkeys : ((v1Slices 0 gs).map fun s => (s.1, sliceMask (v1Rows gs).length s.2.1 s.2.2)).map Prod.fst =
      gs.map (·.label) := by
    rw [List.map_map]
    have := v1Slices_labels gs 0
    simpa [Function.comp_def] using this
  have hod := odFromList_nodup ((v1Slices 0 gs).map fun s => (s.1, sliceMask (v1Rows gs).length s.2.1 s.2.2))
    (by rw [hkeys]; exact hlab)
  -- mkLpug succeeds
  have hcall : ((v1Conn 0 gs).all fun e => decide (e.1 < (v1Rows gs).length) && decide (e.2 < (v1Rows gs).length))
      = true := by
    simp only [List.all_eq_true, Bool.and_eq_true, decide_eq_true_eq]
    exact hconn
  have hgs : gs ≠ [] := by
    intro h; rw [h] at hne; exact hne rfl
  have hlabne : ((v1Slices 0 gs).map fun s => (s.1, sliceMask (v1Rows gs).length s.2.1 s.2.2)) ≠ [] := by
    intro h
    have := congrArg List.length h
    rw [List.length_map] at this
    have h2 := congrArg List.length (v1Slices_labels gs 0)
    simp only [List.length_map] at h2
    rw [h2] at this
    exact hgs (List.length_eq_zero_iff.1 (by simpa using this))
  have hcover : allLabelled (v1Rows gs).length
      ((v1Slices 0 gs).map fun s => (s.1, sliceMask (v1Rows gs).length s.2.1 s.2.2)) = true := by
    rw [allLabelled_iff]
    intro k hk
    obtain ⟨s, hs, hm⟩ := v1Slices_cover gs 0 (v1Rows gs).length k (Nat.zero_le _) (by omega)
    exact ⟨(s.1, sliceMask (v1Rows gs).length s.2.1 s.2.2), List.mem_map.2 ⟨s, hs, rfl⟩, by simpa [hk] using hm⟩
  have hisEmpty : (((v1Slices 0 gs).map fun s => (s.1, sliceMask (v1Rows gs).length s.2.1 s.2.2)).isEmpty) = false := by
    cases hh : ((v1Slices 0 gs).map fun s => (s.1, sliceMask (v1Rows gs).length s.2.1 s.2.2)) with
    | nil => exact absurd hh hlabne
    | cons _ _ => rfl
  simp only [decodeV1, encodeV1, getv1_groups, hacc, hre, hod, mkLpug, hcall, hisEmpty, hcover, expectedV1]
  simp

/-- PROPERTY (upgrade path, version 1).  Exporting what was imported from a version-1 file (the exporter writes
version 3) and importing it again returns the same group, for any number of further cycles. -/
theorem ljson_v1_upgrade (gs : List V1Group) (d : Nat) (hd : d = 2 ∨ d = 3) (hne : v1Rows gs ≠ [])
    (hrows : ∀ r ∈ v1Rows gs, r.length = d) :
    decodeDoc (encodeDoc [("LJSON", reexport (expectedV1 gs))]) = .ok [("LJSON", expectedV1 gs)] := by
  have hwf : (reexport (expectedV1 gs)).WF := by
    refine ⟨hne, ⟨d, hd, hrows⟩, ?_, ?_⟩
    · intro e he
      have := (mem_symEdges _ _ e.1 e.2).1 (by simpa [reexport, expectedV1] using he)
      exact ⟨this.1, this.2.1⟩
    · intro l hl
      simp only [reexport, expectedV1, List.mem_map] at hl
      obtain ⟨s, _, rfl⟩ := hl
      exact sliceMask_length _ _ _
  have hrt := ljson_roundtrip [("LJSON", reexport (expectedV1 gs))] (by intro g hg; simp at hg; subst hg; exact hwf)
  rw [hrt]
  have hsort : sortGroups [("LJSON", reexport (expectedV1 gs))] = [("LJSON", reexport (expectedV1 gs))] := by
    simp [sortGroups]
  rw [hsort]
  simp only [List.map_cons, List.map_nil]
  congr 3
  -- expectedImport (reexport i) = i for this i
  have hlabels : (expectedV1 gs).labels.isEmpty = false := by
    cases hg : gs with
    | nil => rw [hg] at hne; exact absurd rfl hne
    | cons g t => simp [expectedV1, v1Slices]
  simp [expectedImport, reexport, expectedV1, ljson_edges_stable] at hlabels ⊢
  cases hg : gs with
  | nil => rw [hg] at hne; exact absurd rfl hne
  | cons g t => simp [v1Slices]

/-! ### non-vacuity -/

def exV1Groups : List V1Group :=
  [⟨"a", [[some 1, some 2], [some 3, none]], some [(0, 1)]⟩, ⟨"b", [], none⟩,
   ⟨"c", [[some 5, some 6], [some 7, some 8]], some [(1, 0), (0, 1)]⟩]

example : expectedV1 exV1Groups =
    { cls := .lpug, points := [[some 1, some 2], [some 3, none], [some 5, some 6], [some 7, some 8]],
      edges := [(0, 1), (2, 3)],
      labels := [("a", [true, true, false, false]), ("b", [false, false, false, false]),
                 ("c", [false, false, true, true])] } := by decide +kernel

example : v1Rows exV1Groups ≠ [] ∧ (∀ r ∈ v1Rows exV1Groups, r.length = 2) ∧
    (exV1Groups.map (·.label)).Nodup ∧
    (∀ e ∈ v1Conn 0 exV1Groups, e.1 < (v1Rows exV1Groups).length ∧ e.2 < (v1Rows exV1Groups).length) := by
  refine ⟨by decide, by decide, by decide, by decide⟩

end MenpoModel.C16
