/-
C04 — the triangulation certificate is sound (`Core/C04Mesh.lean`), so the hypotheses of the piecewise-affine round-trip
theorems (`NonDegenerate`, `TargetConsistent`) are DECIDED by an executable check the driver runs on every generated mesh.

  piece_affine            each piece is an affine map of the whole plane
  sepOK_agree             a separating line whose contact vertices are shared with equal images ⇒ the two pieces agree on
                          every point the two triangles have in common
  certified_sound         `certified m = true` ⇒ every source triangle is non-degenerate and the pieces of any two triangles
                          agree wherever both contain the point
  pwa_roundtrip_certified   PROPERTY   a mesh certified in both directions: `pseudoinverse()` undoes `apply` on the WHOLE
                          source domain and `apply` undoes it on the whole target domain — interior points, points on shared
                          edges and vertices, whichever containing triangle the last-containing rule picks
  indexAB_lookup          `index_alpha_beta` reports the triangle `apply` uses, with that triangle's coordinates
-/
import MenpoModel.Props.C04Base
import MenpoModel.Core.C04Mesh

set_option linter.unusedSimpArgs false

namespace MenpoModel.C04

theorem area2_eq_cross (s : Tri) : s.area2 = s.cross := rfl

/-- the three barycentric weights of the coded coordinates -/
theorem combo_coords (s : Tri) (α β : ℚ) :
    (s.combo α β).x = (1 - α - β) * s.a.x + α * s.b.x + β * s.c.x ∧
    (s.combo α β).y = (1 - α - β) * s.a.y + α * s.b.y + β * s.c.y := by
  constructor <;> simp [Tri.combo] <;> ring

theorem ev_combo (l : Line) (s : Tri) (α β : ℚ) :
    l.ev (s.combo α β) = (1 - α - β) * l.ev s.a + α * l.ev s.b + β * l.ev s.c := by
  obtain ⟨hx, hy⟩ := combo_coords s α β
  simp only [Line.ev, hx, hy]; ring

/-- the coded coordinates are affine functions of the point -/
theorem ab_combo_affine (s X : Tri) (α β : ℚ) :
    (s.ab (X.combo α β)).1 = (1 - α - β) * (s.ab X.a).1 + α * (s.ab X.b).1 + β * (s.ab X.c).1 ∧
    (s.ab (X.combo α β)).2 = (1 - α - β) * (s.ab X.a).2 + α * (s.ab X.b).2 + β * (s.ab X.c).2 := by
  constructor <;>
    simp only [Tri.ab, Tri.combo, P2.dot, P2.sub_x, P2.sub_y, P2.add_x, P2.add_y, P2.smul_x, P2.smul_y] <;> ring

/-- each piece is an affine map of the plane: it commutes with barycentric combinations of ANY triangle -/
theorem piece_affine (s t X : Tri) (α β : ℚ) :
    (piece s t (X.combo α β)).x =
        (1 - α - β) * (piece s t X.a).x + α * (piece s t X.b).x + β * (piece s t X.c).x ∧
    (piece s t (X.combo α β)).y =
        (1 - α - β) * (piece s t X.a).y + α * (piece s t X.b).y + β * (piece s t X.c).y := by
  obtain ⟨h1, h2⟩ := ab_combo_affine s X α β
  constructor <;>
    simp only [piece, h1, h2, P2.add_x, P2.add_y, P2.smul_x, P2.smul_y, P2.sub_x, P2.sub_y] <;> ring

theorem contains_iff (s : Tri) (p : P2) :
    s.contains p = true ↔ 0 ≤ (s.ab p).1 ∧ 0 ≤ (s.ab p).2 ∧ (s.ab p).1 + (s.ab p).2 ≤ 1 := by
  simp [Tri.contains, and_assoc]

theorem matched_spec {r : Tri × Tri} {X Y : P2} (h : matched r X Y = true) (hr : r.1.cross ≠ 0) :
    piece r.1 r.2 X = Y := by
  simp only [matched, Bool.or_eq_true, Bool.and_eq_true, beq_iff_eq] at h
  rcases h with (⟨h1, h2⟩ | ⟨h1, h2⟩) | ⟨h1, h2⟩
  · rw [← h1, ← h2]; exact piece_vertex_a _ _ hr
  · rw [← h1, ← h2]; exact piece_vertex_b _ _ hr
  · rw [← h1, ← h2]; exact piece_vertex_c _ _ hr

/-- what `vertOK` gives for a vertex with weight `c ≥ 0` when the line vanishes on the point: the weighted images agree -/
theorem vert_term {r : Tri × Tri} {l : Line} {X Y : P2} {c : ℚ} (h : vertOK r l X Y = true) (hr : r.1.cross ≠ 0)
    (hz : c * l.ev X = 0) :
    c * (piece r.1 r.2 X).x = c * Y.x ∧ c * (piece r.1 r.2 X).y = c * Y.y := by
  simp only [vertOK, Bool.and_eq_true, Bool.or_eq_true, decide_eq_true_eq] at h
  rcases h.2 with hlt | hm
  · have : c = 0 := by
      rcases mul_eq_zero.mp hz with h0 | h0
      · exact h0
      · exact absurd h0 (ne_of_lt hlt)
    simp [this]
  · rw [matched_spec hm hr]; exact ⟨rfl, rfl⟩

/-- the certificate of one pair: wherever both domain triangles contain the point, the two pieces agree -/
theorem sepOK_agree {q r : Tri × Tri} {l : Line} (h : sepOK q r l = true) (hq : q.1.cross ≠ 0) (hr : r.1.cross ≠ 0)
    {y : P2} (hy : q.1.contains y = true) (hy' : r.1.contains y = true) :
    piece q.1 q.2 y = piece r.1 r.2 y := by
  simp only [sepOK, Bool.and_eq_true, decide_eq_true_eq] at h
  obtain ⟨⟨⟨⟨⟨va, vb⟩, vc⟩, ra⟩, rb⟩, rc⟩ := h
  obtain ⟨a0, b0, ab1⟩ := (contains_iff _ _).mp hy
  obtain ⟨a0', b0', ab1'⟩ := (contains_iff _ _).mp hy'
  set α := (q.1.ab y).1 with hα
  set β := (q.1.ab y).2 with hβ
  set α' := (r.1.ab y).1
  set β' := (r.1.ab y).2
  have ey : q.1.combo α β = y := combo_ab q.1 hq y
  have ey' : r.1.combo α' β' = y := combo_ab r.1 hr y
  -- the line is ≤ 0 at y seen from q and ≥ 0 seen from r
  have la : l.ev q.1.a ≤ 0 := by simp only [vertOK, Bool.and_eq_true, decide_eq_true_eq] at va; exact va.1
  have lb : l.ev q.1.b ≤ 0 := by simp only [vertOK, Bool.and_eq_true, decide_eq_true_eq] at vb; exact vb.1
  have lc : l.ev q.1.c ≤ 0 := by simp only [vertOK, Bool.and_eq_true, decide_eq_true_eq] at vc; exact vc.1
  have e1 := ev_combo l q.1 α β
  have e2 := ev_combo l r.1 α' β'
  rw [ey] at e1
  rw [ey'] at e2
  have c0 : 0 ≤ 1 - α - β := by linarith
  have c0' : 0 ≤ 1 - α' - β' := by linarith
  have t1 : (1 - α - β) * l.ev q.1.a ≤ 0 := mul_nonpos_of_nonneg_of_nonpos c0 la
  have t2 : α * l.ev q.1.b ≤ 0 := mul_nonpos_of_nonneg_of_nonpos a0 lb
  have t3 : β * l.ev q.1.c ≤ 0 := mul_nonpos_of_nonneg_of_nonpos b0 lc
  have s1 : 0 ≤ (1 - α' - β') * l.ev r.1.a := mul_nonneg c0' ra
  have s2 : 0 ≤ α' * l.ev r.1.b := mul_nonneg a0' rb
  have s3 : 0 ≤ β' * l.ev r.1.c := mul_nonneg b0' rc
  have z1 : (1 - α - β) * l.ev q.1.a = 0 := by linarith
  have z2 : α * l.ev q.1.b = 0 := by linarith
  have z3 : β * l.ev q.1.c = 0 := by linarith
  obtain ⟨x1, y1⟩ := vert_term va hr z1
  obtain ⟨x2, y2⟩ := vert_term vb hr z2
  obtain ⟨x3, y3⟩ := vert_term vc hr z3
  obtain ⟨px, py⟩ := piece_affine r.1 r.2 q.1 α β
  rw [ey] at px py
  have qx : (piece q.1 q.2 y).x = (1 - α - β) * q.2.a.x + α * q.2.b.x + β * q.2.c.x := by
    rw [piece_eq]; exact (combo_coords q.2 α β).1
  have qy : (piece q.1 q.2 y).y = (1 - α - β) * q.2.a.y + α * q.2.b.y + β * q.2.c.y := by
    rw [piece_eq]; exact (combo_coords q.2 α β).2
  apply P2.ext'
  · rw [qx, px, x1, x2, x3]
  · rw [qy, py, y1, y2, y3]

theorem pairAuto_agree {q r : Tri × Tri} (h : pairAuto q r = true) (hq : q.1.cross ≠ 0) (hr : r.1.cross ≠ 0)
    {y : P2} (hy : q.1.contains y = true) (hy' : r.1.contains y = true) :
    piece q.1 q.2 y = piece r.1 r.2 y := by
  simp only [pairAuto, List.any_eq_true] at h
  obtain ⟨k, _, hk⟩ := h
  unfold pairOK at hk
  split at hk
  · exact sepOK_agree hk hq hr hy hy'
  · split at hk
    · exact (sepOK_agree hk hr hq hy' hy).symm
    · exact sepOK_agree hk hq hr hy hy'

/-- the pieces of the warp agree wherever two source triangles both contain a point -/
def SourceConsistent (m : PWA) : Prop :=
  ∀ q ∈ m, ∀ r ∈ m, ∀ y, q.1.contains y = true → r.1.contains y = true → piece q.1 q.2 y = piece r.1 r.2 y

theorem sourceConsistent_pinv (m : PWA) : SourceConsistent m.pinv ↔ TargetConsistent m := by
  constructor
  · intro h q hq r hr y h1 h2
    exact h (q.2, q.1) (mem_pinv.mpr (by simpa using hq)) (r.2, r.1) (mem_pinv.mpr (by simpa using hr)) y h1 h2
  · intro h q hq r hr y h1 h2
    exact h (q.2, q.1) (mem_pinv.mp hq) (r.2, r.1) (mem_pinv.mp hr) y h1 h2

/-- soundness of the executable certificate -/
theorem certified_sound (m : PWA) (h : certified m = true) :
    (∀ q ∈ m, q.1.cross ≠ 0) ∧ SourceConsistent m := by
  induction m with
  | nil => exact ⟨by simp, by intro q hq; simp at hq⟩
  | cons q rest ih =>
    simp only [certified, Bool.and_eq_true, decide_eq_true_eq, List.all_eq_true] at h
    obtain ⟨⟨hq, hall⟩, hrest⟩ := h
    obtain ⟨nd, sc⟩ := ih hrest
    have hq' : q.1.cross ≠ 0 := hq
    refine ⟨?_, ?_⟩
    · intro r hr
      rcases List.mem_cons.mp hr with rfl | hr
      · exact hq'
      · exact nd r hr
    · intro a ha b hb y h1 h2
      rcases List.mem_cons.mp ha with ea | ha <;> rcases List.mem_cons.mp hb with eb | hb
      · rw [ea, eb]
      · rw [ea] at h1 ⊢; exact pairAuto_agree (hall b hb) hq' (nd b hb) h1 h2
      · rw [eb] at h2 ⊢; exact (pairAuto_agree (hall a ha) hq' (nd a ha) h2 h1).symm
      · exact sc a ha b hb y h1 h2

/-- PROPERTY (piecewise affine, hypotheses decided by the certificate): for a mesh certified in both directions the
pseudoinverse — the warp on (target points, source trilist) → source points — undoes `apply` on every point of the
source domain and is undone by `apply` on every point of the target domain, including the points that lie in several
triangles; every target landmark of a triangle returns to its source landmark. -/
theorem pwa_roundtrip_certified (m : PWAMesh) (h : m.certified = true) :
    NonDegenerate m.toPWA ∧ TargetConsistent m.toPWA ∧ SourceConsistent m.toPWA ∧
    (∀ x y, m.toPWA.apply x = some y → m.pinv.toPWA.apply y = some x) ∧
    (∀ x y, m.pinv.toPWA.apply y = some x → m.toPWA.apply x = some y) ∧
    (∀ q ∈ m.toPWA, piece q.2 q.1 q.2.a = q.1.a ∧ piece q.2 q.1 q.2.b = q.1.b ∧ piece q.2 q.1 q.2.c = q.1.c) := by
  simp only [PWAMesh.certified, Bool.and_eq_true] at h
  obtain ⟨h1, h2⟩ := h
  obtain ⟨nd1, sc1⟩ := certified_sound _ h1
  obtain ⟨nd2, sc2⟩ := certified_sound _ h2
  have hnd : NonDegenerate m.toPWA := by
    intro q hq
    exact ⟨nd1 q hq, nd2 (q.2, q.1) (mem_pinv.mpr (by simpa using hq))⟩
  have htc : TargetConsistent m.toPWA := (sourceConsistent_pinv _).mp sc2
  have htc' : TargetConsistent m.toPWA.pinv := by
    rw [← sourceConsistent_pinv, pinv_pinv]; exact sc1
  refine ⟨hnd, htc, sc1, ?_, ?_, fun q hq => pwa_pinv_landmarks hnd q hq⟩
  · intro x y hxy
    rw [mesh_pinv]; exact pwa_pinv_left hnd htc hxy
  · intro x y hxy
    rw [mesh_pinv] at hxy; exact pwa_pinv_right hnd htc' hxy

/-! ### `index_alpha_beta` -/

theorem lastHolder_spec (p : P2) (m : List (Tri × Tri)) (i : ℕ) (acc : Option (ℕ × (Tri × Tri))) :
    (lastHolder p m i acc).map Prod.snd =
      ((m.filter fun q => q.1.contains p).getLast?).or (acc.map Prod.snd) := by
  induction m generalizing i acc with
  | nil => simp [lastHolder]
  | cons q rest ih =>
    simp only [lastHolder]
    rw [ih]
    by_cases hc : q.1.contains p = true
    · simp only [hc, if_true, List.filter_cons_of_pos, Option.map_some]
      cases hr : (List.filter (fun q => q.1.contains p) rest).getLast? with
      | none =>
        have : List.filter (fun q => q.1.contains p) rest = [] := List.getLast?_eq_none_iff.mp hr
        simp [this]
      | some z =>
        have hne : List.filter (fun q => q.1.contains p) rest ≠ [] := by
          intro h0; rw [h0] at hr; simp at hr
        rw [List.getLast?_cons_of_ne_nil hne, hr]; simp
    · have hc' : q.1.contains p = false := by simpa using hc
      simp [hc']

/-- `index_alpha_beta` reports a triangle exactly when `apply` is defined, the pair is the one `apply` uses, and
`alpha, beta` are that triangle's coded coordinates of the point -/
theorem indexAB_lookup (m : PWA) (p : P2) :
    (lastHolder p m 0 none).map Prod.snd = m.lookup p ∧
    ((m.indexAB p).isSome ↔ (m.apply p).isSome) ∧
    ∀ i a b, m.indexAB p = some (i, a, b) → ∃ q, m.lookup p = some q ∧ q.1.ab p = (a, b) ∧
      m.apply p = some (q.2.combo a b) := by
  have h := lastHolder_spec p m 0 none
  simp only [Option.map_none, Option.or_none] at h
  have hl : (lastHolder p m 0 none).map Prod.snd = m.lookup p := h
  refine ⟨hl, ?_, ?_⟩
  · unfold PWA.indexAB PWA.apply
    rw [← hl]
    cases lastHolder p m 0 none <;> simp
  · intro i a b hi
    unfold PWA.indexAB at hi
    cases hh : lastHolder p m 0 none with
    | none => rw [hh] at hi; cases hi
    | some z =>
      obtain ⟨j, q⟩ := z
      rw [hh] at hi hl
      simp only [Option.map_some, Option.some.injEq, Prod.mk.injEq] at hi hl
      refine ⟨q, hl.symm, ?_, ?_⟩
      · rw [← hi.2.1, ← hi.2.2]
      · unfold PWA.apply
        rw [← hl]
        simp only [Option.map_some, Option.some.injEq]
        rw [piece_eq, hi.2.1, hi.2.2]

/-! ### non-vacuity: the example mesh of `Props/C04Base.lean` is certified, a folded mesh is not -/

example : exMesh.certified = true := by decide +kernel

/-- the same square with its target folded over (vertex 2 pulled over vertex 3): not certified -/
example : (⟨[⟨0, 0⟩, ⟨1, 0⟩, ⟨1, 1⟩, ⟨0, 1⟩], [⟨0, 0⟩, ⟨2, 0⟩, ⟨-1, 2⟩, ⟨0, 1⟩], [(0, 1, 2), (0, 2, 3)]⟩ : PWAMesh).certified
    = false := by decide +kernel

/-- a 2 × 2 grid of cells, every cell cut in two: 8 triangles, all 28 pairs certified in both directions -/
def exGrid : PWAMesh :=
  ⟨[⟨0, 0⟩, ⟨1, 0⟩, ⟨2, 0⟩, ⟨0, 1⟩, ⟨1, 1⟩, ⟨2, 1⟩, ⟨0, 2⟩, ⟨1, 2⟩, ⟨2, 2⟩],
   [⟨0, 0⟩, ⟨1, 0⟩, ⟨2, 0⟩, ⟨1, 1⟩, ⟨2, 1⟩, ⟨3, 1⟩, ⟨0, 2⟩, ⟨1, 2⟩, ⟨2, 2⟩],
   [(0, 1, 4), (0, 4, 3), (1, 2, 5), (1, 5, 4), (3, 4, 7), (3, 7, 6), (4, 5, 8), (4, 8, 7)]⟩

example : exGrid.certified = true := by decide +kernel

/-- a point on the shared diagonal of the first cell and the common vertex 4 go round whichever triangle is picked -/
example : exGrid.toPWA.apply ⟨1/2, 1/2⟩ = some ⟨1, 1/2⟩ ∧ exGrid.pinv.toPWA.apply ⟨1, 1/2⟩ = some ⟨1/2, 1/2⟩ ∧
    exGrid.toPWA.apply ⟨1, 1⟩ = some ⟨2, 1⟩ ∧ exGrid.toPWA.indexAB ⟨1, 1⟩ = some (7, 0, 0) := by decide +kernel

end MenpoModel.C04
