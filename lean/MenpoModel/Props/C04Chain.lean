/-
C04 — chains: the pseudoinverse of a composition of family members is the composition of the members' pseudoinverses in
REVERSED order, for chains of any length (menpo's `TransformChain` defines no `pseudoinverse`; `tcoords.py` and the
`compose_*` methods build such products, and this is what an inverse of a chain has to be).

  chainApply        `TransformChain._apply`: the members applied in list order
  chainPinv         the members' `pseudoinverse()`s, last member first
  chain_pinv_sound  PROPERTY  for good members: it exists, has the classes of the members in reversed order, its matrix
                    product is the inverse of the chain's, and it undoes the chain from both sides on every point
-/
import MenpoModel.Props.C04Ops

namespace MenpoModel.C04
open Matrix

variable {d : ℕ} {α : Type}

def chainApply : List (HT d α) → Vec d → Option (Vec d)
  | [], x => some x
  | t :: ts, x => (t.apply x).bind (chainApply ts)

def chainPinv : List (HT d α) → Option (List (HT d α))
  | [] => some []
  | t :: ts => (chainPinv ts).bind fun us => (pinv t).map fun u => us ++ [u]

/-- the matrix of the whole chain: the first member acts first -/
def chainMat : List (HT d α) → Mat (d + 1)
  | [] => Mat.one
  | t :: ts => (chainMat ts).mul t.h

theorem chainApply_append (as bs : List (HT d α)) (x : Vec d) :
    chainApply (as ++ bs) x = (chainApply as x).bind (chainApply bs) := by
  induction as generalizing x with
  | nil => rfl
  | cons a as ih =>
    simp only [List.cons_append, chainApply]
    cases a.apply x with
    | none => rfl
    | some z => simp [ih]

theorem chainMat_append (as bs : List (HT d α)) :
    toM (chainMat (as ++ bs)) = toM (chainMat bs) * toM (chainMat as) := by
  induction as with
  | nil => simp [chainMat, one_eq]
  | cons a as ih => simp only [List.cons_append, chainMat, mul_eq, ih, Matrix.mul_assoc]

/-- PROPERTY (chains of any length): for honest non-singular members the reversed chain of pseudoinverses exists, has the
members' classes in reversed order, carries the inverse of the chain's matrix and undoes the chain from both sides -/
theorem chain_pinv_sound (hd : 0 < d) (ts : List (HT d α)) (h : ∀ t ∈ ts, Good t) :
    ∃ us, chainPinv ts = some us ∧ us.map (·.cls) = (ts.map (·.cls)).reverse ∧
      (∀ u ∈ us, Good u) ∧
      toM (chainMat us) = (toM (chainMat ts))⁻¹ ∧
      (∀ x y, chainApply ts x = some y → chainApply us y = some x) ∧
      (∀ x y, chainApply us y = some x → chainApply ts x = some y) := by
  induction ts with
  | nil =>
    refine ⟨[], rfl, rfl, by simp, ?_, ?_, ?_⟩
    · simp [chainMat, one_eq]
    · intro x y hxy; simpa [chainApply] using hxy.symm
    · intro x y hxy; simpa [chainApply] using hxy.symm
  | cons t ts ih =>
    obtain ⟨us, h1, h2, h3, h4, h5, h6⟩ := ih fun s hs => h s (List.mem_cons_of_mem _ hs)
    have ht : Good t := h t (by simp)
    obtain ⟨u, k1, k2, k3, k4, _, k6, k7⟩ := pinv_sound hd t ht.1 ht.2
    have hu : IsUnit (toM t.h).det := isUnit_iff_ne_zero.mpr ht.2
    have hdu : (toM u.h).det ≠ 0 := by
      rw [k3, Matrix.det_nonsing_inv, Ring.inverse_eq_inv']; exact inv_ne_zero ht.2
    refine ⟨us ++ [u], by simp [chainPinv, h1, k1], by simp [h2, k2], ?_, ?_, ?_, ?_⟩
    · intro v hv
      rcases List.mem_append.mp hv with hv | hv
      · exact h3 v hv
      · simp only [List.mem_singleton] at hv; subst hv; exact ⟨k4, hdu⟩
    · rw [chainMat_append, h4]
      simp only [chainMat, mul_eq, one_eq, Matrix.one_mul, k3]
      rw [Matrix.mul_inv_rev]
    · intro x y hxy
      simp only [chainApply] at hxy
      cases hz : t.apply x with
      | none => rw [hz] at hxy; cases hxy
      | some z =>
        rw [hz] at hxy
        simp only [Option.bind_some] at hxy
        rw [chainApply_append, h5 z y hxy]
        simp [chainApply, k6 x z hz]
    · intro x y hxy
      rw [chainApply_append] at hxy
      cases hz : chainApply us y with
      | none => rw [hz] at hxy; cases hxy
      | some z =>
        rw [hz] at hxy
        simp only [Option.bind_some, chainApply] at hxy
        cases hx : u.apply z with
        | none => rw [hx] at hxy; cases hxy
        | some x' =>
          rw [hx] at hxy
          simp only [Option.bind_some, Option.some.injEq] at hxy
          subst hxy
          simp only [chainApply]
          rw [k7 x' z hx]
          simp [h6 z y hz]

/-- non-vacuity, executed: translate by (2, 3), then scale by (2, 4), then rotate by 90°: the reversed chain of
pseudoinverses takes the image of (1, 1) back -/
example :
    let ts : List (HT 2 Unit) :=
      [⟨.translation, m3 1 0 2 0 1 3 0 0 1, none⟩, ⟨.nonUniformScale, m3 2 0 0 0 4 0 0 0 1, none⟩,
       ⟨.rotation, m3 0 (-1) 0 1 0 0 0 0 1, none⟩]
    ((chainApply ts (fun i => if i.val = 0 then 1 else 1)).map fun v => (v 0, v 1)) = some (-16, 6) ∧
    ((chainPinv ts).map fun us => us.map (·.cls)) = some [.rotation, .nonUniformScale, .translation] ∧
    ((chainPinv ts).bind fun us => (chainApply us (fun i => if i.val = 0 then -16 else 6)).map fun v => (v 0, v 1))
      = some (1, 1) := by decide +kernel

end MenpoModel.C04
