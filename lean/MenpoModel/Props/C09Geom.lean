/-
C09 — what `alpha_beta` computes: for a non-degenerate triangle, `(alpha, beta)` are *the* barycentric
coordinates of the point (so the containment test is membership of the closed triangle, and the image of a
point is the barycentric combination of the target vertices).  Algebra over ℚ (Mathlib tactics).
-/
import MenpoModel.Props.C09Pwa
import Mathlib.Tactic.Ring
import Mathlib.Tactic.LinearCombination
import Mathlib.Tactic.Linarith
import Mathlib.Tactic.FieldSimp
import Mathlib.Algebra.Order.Field.Rat

namespace MenpoModel.C09

/-- the 2-D cross product of the edge vectors: twice the signed area -/
def Tri.cross (t : Tri) : Rat := t.ij.1 * t.ik.2 - t.ij.2 * t.ik.1

/-- the denominator of `alpha_beta` is the squared cross product: it vanishes exactly for degenerate triangles -/
theorem gram_eq_cross_sq (t : Tri) : t.gram = t.cross * t.cross := by
  unfold Tri.gram Tri.cross dot; ring

theorem gram_ne_zero_iff (t : Tri) : t.gram ≠ 0 ↔ t.cross ≠ 0 := by
  rw [gram_eq_cross_sq]; exact mul_self_ne_zero

theorem gram_expanded_ne_zero (t : Tri) (h : t.gram ≠ 0) :
    (t.ij.1 * t.ij.1 + t.ij.2 * t.ij.2) * (t.ik.1 * t.ik.1 + t.ik.2 * t.ik.2) -
      (t.ij.1 * t.ik.1 + t.ij.2 * t.ik.2) * (t.ij.1 * t.ik.1 + t.ij.2 * t.ik.2) ≠ 0 := h

/-- `(alpha, beta)` reconstruct the point: `p = i + alpha·ij + beta·ik` -/
theorem alphaBeta_reconstruct (t : Tri) (p : Pt) (h : t.gram ≠ 0) :
    bary t (alphaBeta t p).1 (alphaBeta t p).2 = p := by
  have hG := gram_expanded_ne_zero t h
  obtain ⟨p1, p2⟩ := p
  obtain ⟨⟨i1, i2⟩, ⟨x1, y1⟩, ⟨x2, y2⟩⟩ := t
  simp only [bary, alphaBeta, dot] at hG ⊢
  generalize hGdef : (x1 * x1 + y1 * y1) * (x2 * x2 + y2 * y2) - (x1 * x2 + y1 * y2) * (x1 * x2 + y1 * y2) = G at hG ⊢
  ext
  · simp only; field_simp; rw [← hGdef]; ring
  · simp only; field_simp; rw [← hGdef]; ring

/-- … and they are the only such pair -/
theorem alphaBeta_unique (t : Tri) (a b : Rat) (h : t.gram ≠ 0) : alphaBeta t (bary t a b) = (a, b) := by
  have hG := gram_expanded_ne_zero t h
  obtain ⟨⟨i1, i2⟩, ⟨x1, y1⟩, ⟨x2, y2⟩⟩ := t
  simp only [bary, alphaBeta, dot] at hG ⊢
  generalize hGdef : (x1 * x1 + y1 * y1) * (x2 * x2 + y2 * y2) - (x1 * x2 + y1 * y2) * (x1 * x2 + y1 * y2) = G at hG ⊢
  ext
  · simp only; field_simp; rw [← hGdef]; ring
  · simp only; field_simp; rw [← hGdef]; ring

/-- PROPERTY (containment test): for a non-degenerate triangle the test `alpha ≥ 0 ∧ beta ≥ 0 ∧ alpha + beta ≤ 1`
holds exactly for the points of the closed triangle -/
theorem contains_iff_closed_triangle (t : Tri) (p : Pt) (h : t.gram ≠ 0) :
    contains t p = true ↔ ∃ a b : Rat, 0 ≤ a ∧ 0 ≤ b ∧ a + b ≤ 1 ∧ p = bary t a b := by
  unfold contains inTriangle
  simp only [Bool.and_eq_true, decide_eq_true_eq]
  constructor
  · rintro ⟨⟨ha, hb⟩, hab⟩
    exact ⟨_, _, ha, hb, hab, (alphaBeta_reconstruct t p h).symm⟩
  · rintro ⟨a, b, ha, hb, hab, rfl⟩
    rw [alphaBeta_unique t a b h]
    exact ⟨⟨ha, hb⟩, hab⟩

/-- a triangle given by its three vertices, the combination written with the three weights `1-a-b, a, b` -/
theorem bary_ofVerts (A B C : Pt) (a b : Rat) :
    bary (Tri.ofVerts A B C) a b =
      ((1 - a - b) * A.1 + a * B.1 + b * C.1, (1 - a - b) * A.2 + a * B.2 + b * C.2) := by
  unfold bary Tri.ofVerts; ext <;> simp only <;> ring

/-- PROPERTY (inside the domain the image is the barycentric combination): if the chosen source triangle has
vertices `A B C` (non-degenerate) and the target triangle of the same number has vertices `A' B' C'`, then a point
`p = (1-a-b)·A + a·B + b·C` is sent to `(1-a-b)·A' + a·B' + b·C'` -/
theorem pointMap_barycentric (src tgt : List Tri) (A B C A' B' C' : Pt) (a b : Rat)
    (hs : src[locate src (bary (Tri.ofVerts A B C) a b)]? = some (Tri.ofVerts A B C))
    (ht : tgt[locate src (bary (Tri.ofVerts A B C) a b)]? = some (Tri.ofVerts A' B' C'))
    (hnd : (Tri.ofVerts A B C).gram ≠ 0) :
    pointMap src tgt (bary (Tri.ofVerts A B C) a b) =
      ((1 - a - b) * A'.1 + a * B'.1 + b * C'.1, (1 - a - b) * A'.2 + a * B'.2 + b * C'.2) := by
  rw [pointMap_spec src tgt _ _ hs, alphaBeta_unique _ a b hnd, List.getD_eq_getElem?_getD, ht]
  exact bary_ofVerts A' B' C' a b

/-- the identity piecewise affine transform (source = target, as `pwa_point_in_pointcloud` builds it) fixes
every point of its domain -/
theorem pointMap_identity (ts : List Tri) (p : Pt) (hnd : ∀ t ∈ ts, t.gram ≠ 0)
    (hin : (ts.any fun t => contains t p) = true) : pointMap ts ts p = p := by
  obtain ⟨⟨s, hs, _⟩, _⟩ := locate_spec ts p hin
  rw [pointMap_spec ts ts p s hs, List.getD_eq_getElem?_getD, hs]
  exact alphaBeta_reconstruct s p (hnd s (List.mem_of_getElem? hs))

/-- a point strictly inside one triangle and strictly outside the others is located in that triangle
(the case the correspondence samples) -/
theorem locate_of_unique (ts : List Tri) (p : Pt) (j : Nat) (s : Tri) (hj : ts[j]? = some s)
    (hin : contains s p = true) (hout : ∀ j' t, ts[j']? = some t → j' ≠ j → contains t p = false) :
    locate ts p = j := by
  have hany : (ts.any fun t => contains t p) = true :=
    List.any_eq_true.mpr ⟨s, List.mem_of_getElem? hj, hin⟩
  obtain ⟨⟨t, ht, hc⟩, hmax⟩ := locate_spec ts p hany
  by_contra hne
  have := hout _ t ht hne
  rw [this] at hc; exact absurd hc (by simp)

/-! ### points shared by several triangles: on a consistent mesh the choice of the triangle is immaterial -/

/-- the image of `p` computed through one (source, target) triangle pair -/
def triImage (s g : Tri) (p : Pt) : Pt := bary g (alphaBeta s p).1 (alphaBeta s p).2

theorem pointMap_eq_triImage (src tgt : List Tri) (p : Pt) (s g : Tri) (hs : src[locate src p]? = some s)
    (hg : tgt[locate src p]? = some g) : pointMap src tgt p = triImage s g p := by
  rw [pointMap_spec src tgt p s hs, List.getD_eq_getElem?_getD, hg]; rfl

theorem cross_rotate (A B C : Pt) : (Tri.ofVerts B C A).cross = (Tri.ofVerts A B C).cross := by
  unfold Tri.cross Tri.ofVerts; simp only; ring

theorem cross_swap (A B C : Pt) : (Tri.ofVerts B A C).cross = -(Tri.ofVerts A B C).cross := by
  unfold Tri.cross Tri.ofVerts; simp only; ring

theorem gram_rotate (A B C : Pt) (h : (Tri.ofVerts A B C).gram ≠ 0) : (Tri.ofVerts B C A).gram ≠ 0 := by
  rw [gram_ne_zero_iff] at h ⊢; rwa [cross_rotate]

theorem gram_swap (A B C : Pt) (h : (Tri.ofVerts A B C).gram ≠ 0) : (Tri.ofVerts B A C).gram ≠ 0 := by
  rw [gram_ne_zero_iff] at h ⊢; rw [cross_swap]; exact neg_ne_zero.mpr h

/-- the image through a triangle pair does not depend on the order in which the trilist names the vertices:
cyclic rotation … -/
theorem triImage_rotate (A B C A' B' C' p : Pt) (h : (Tri.ofVerts A B C).gram ≠ 0) :
    triImage (Tri.ofVerts B C A) (Tri.ofVerts B' C' A') p = triImage (Tri.ofVerts A B C) (Tri.ofVerts A' B' C') p := by
  have hp := alphaBeta_reconstruct (Tri.ofVerts A B C) p h
  generalize (alphaBeta (Tri.ofVerts A B C) p).1 = a at hp
  generalize hb : (alphaBeta (Tri.ofVerts A B C) p).2 = b at hp
  have hp' : p = bary (Tri.ofVerts B C A) b (1 - a - b) := by
    rw [← hp, bary_ofVerts, bary_ofVerts]; ext <;> simp only <;> ring
  unfold triImage
  have e1 : alphaBeta (Tri.ofVerts B C A) p = (b, 1 - a - b) := by
    rw [hp']; exact alphaBeta_unique _ _ _ (gram_rotate A B C h)
  have e2 : alphaBeta (Tri.ofVerts A B C) p = (a, b) := by
    rw [← hp]; exact alphaBeta_unique _ _ _ h
  rw [e1, e2, bary_ofVerts, bary_ofVerts]; ext <;> simp only <;> ring

/-- … and transposition (orientation reversed) -/
theorem triImage_swap (A B C A' B' C' p : Pt) (h : (Tri.ofVerts A B C).gram ≠ 0) :
    triImage (Tri.ofVerts B A C) (Tri.ofVerts B' A' C') p = triImage (Tri.ofVerts A B C) (Tri.ofVerts A' B' C') p := by
  have hp := alphaBeta_reconstruct (Tri.ofVerts A B C) p h
  generalize (alphaBeta (Tri.ofVerts A B C) p).1 = a at hp
  generalize hb : (alphaBeta (Tri.ofVerts A B C) p).2 = b at hp
  have hp' : p = bary (Tri.ofVerts B A C) (1 - a - b) b := by
    rw [← hp, bary_ofVerts, bary_ofVerts]; ext <;> simp only <;> ring
  unfold triImage
  have e1 : alphaBeta (Tri.ofVerts B A C) p = (1 - a - b, b) := by
    rw [hp']; exact alphaBeta_unique _ _ _ (gram_swap A B C h)
  have e2 : alphaBeta (Tri.ofVerts A B C) p = (a, b) := by
    rw [← hp]; exact alphaBeta_unique _ _ _ h
  rw [e1, e2, bary_ofVerts, bary_ofVerts]; ext <;> simp only <;> ring

/-- PROPERTY (points shared by two triangles): a point of the common edge `AB` of two triangles `ABC`, `ABD` whose
target triangles share `A'B'` has the same image through either — `(1-a)·A' + a·B'` — so which of the containing
triangles the point location keeps does not show in the result.  (Together with `triImage_rotate` /
`triImage_swap` this covers every way the trilist can name the two triangles.) -/
theorem triImage_shared_edge (A B C D A' B' C' D' : Pt) (a : Rat)
    (h1 : (Tri.ofVerts A B C).gram ≠ 0) (h2 : (Tri.ofVerts A B D).gram ≠ 0) :
    triImage (Tri.ofVerts A B C) (Tri.ofVerts A' B' C') ((1 - a) * A.1 + a * B.1, (1 - a) * A.2 + a * B.2) =
      ((1 - a) * A'.1 + a * B'.1, (1 - a) * A'.2 + a * B'.2) ∧
    triImage (Tri.ofVerts A B D) (Tri.ofVerts A' B' D') ((1 - a) * A.1 + a * B.1, (1 - a) * A.2 + a * B.2) =
      ((1 - a) * A'.1 + a * B'.1, (1 - a) * A'.2 + a * B'.2) := by
  have key : ∀ (C C' : Pt), (Tri.ofVerts A B C).gram ≠ 0 →
      triImage (Tri.ofVerts A B C) (Tri.ofVerts A' B' C') ((1 - a) * A.1 + a * B.1, (1 - a) * A.2 + a * B.2) =
        ((1 - a) * A'.1 + a * B'.1, (1 - a) * A'.2 + a * B'.2) := by
    intro C C' h
    have hp : ((1 - a) * A.1 + a * B.1, (1 - a) * A.2 + a * B.2) = bary (Tri.ofVerts A B C) a 0 := by
      rw [bary_ofVerts]; ext <;> simp only <;> ring
    unfold triImage
    rw [hp, alphaBeta_unique _ _ _ h, bary_ofVerts]; ext <;> simp only <;> ring
  exact ⟨key C C' h1, key D D' h2⟩

/-! ### non-vacuity -/
example : (Tri.ofVerts (0, 0) (4, 0) (0, 4)).gram ≠ 0 := by decide +kernel
example : contains (Tri.ofVerts (0, 0) (4, 0) (0, 4)) (1, 1) = true := by decide +kernel
example : alphaBeta (Tri.ofVerts (0, 0) (4, 0) (0, 4)) (1, 2) = (1/4, 1/2) := by decide +kernel
example : ∀ t ∈ exSrc, t.gram ≠ 0 := by decide +kernel
example : locate exSrc (1, 1) = 0 ∧ locate exSrc (3, 3) = 1 ∧ locate exSrc (2, 2) = 1 := by decide +kernel

example : triImage (Tri.ofVerts (0, 0) (4, 0) (0, 4)) (Tri.ofVerts (1, 0) (9, 0) (1, 12)) (2, 2) = (5, 6) ∧
    triImage (Tri.ofVerts (4, 0) (4, 4) (0, 4)) (Tri.ofVerts (9, 0) (9, 12) (1, 12)) (2, 2) = (5, 6) := by decide +kernel

end MenpoModel.C09
