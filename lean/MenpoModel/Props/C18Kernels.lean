/-
C18 — the numerical kernels inside the model: property theorems.

Part D: `gradient` (np.gradient per channel), `no_op`, IGO / ES as functions of the gradient under the square-root
        contract, `gaussian_filter` under the kernel contract — what each computes, in which channel order, that each
        keeps the image size (hence, by Part A, mask and landmarks stay as they are and the values are the same for
        both calling conventions), and the algebraic facts the features are used for.
-/
import MenpoModel.Props.C18Base
import MenpoModel.Lemmas.C18Kernels
import MenpoModel.Lemmas.C18Gauss

namespace MenpoModel.C18

/-! ## D.1 gradient -/

theorem gradient2_ok (p : Px) (h : 2 ≤ nRows (p.headD []) ∧ 2 ≤ nCols (p.headD [])) :
    gradient2 false p = .ok (p.map gradY ++ p.map gradX) := by
  unfold gradient2
  have : ¬ (nRows (p.headD []) < 2 ∨ nCols (p.headD []) < 2) := by omega
  simp only [Bool.false_eq_true, if_false]
  rw [if_neg this]

theorem gradient2_inv (u8 : Bool) (p g : Px) (h : gradient2 u8 p = .ok g) :
    u8 = false ∧ 2 ≤ nRows (p.headD []) ∧ 2 ≤ nCols (p.headD []) ∧ g = p.map gradY ++ p.map gradX := by
  unfold gradient2 at h
  cases u8 with
  | true => simp at h
  | false =>
    simp only [Bool.false_eq_true, if_false] at h
    split at h
    · cases h
    · rename_i hh
      injection h with h
      exact ⟨rfl, by omega, by omega, h.symm⟩

/-- PROPERTY (error branches, identical for both calling conventions by `ndfeature_error_agrees`): uint8 pixels are
refused (TypeError), an image with fewer than two samples along an axis is refused by np.gradient (ValueError) -/
theorem gradient_errors (p : Px) :
    gradient2 true p = .error (.feature codeTypeError) ∧
    ((nRows (p.headD []) < 2 ∨ nCols (p.headD []) < 2) → gradient2 false p = .error (.feature codeTooSmall)) := by
  constructor
  · simp [gradient2]
  · intro h
    unfold gradient2
    simp only [Bool.false_eq_true, if_false]
    rw [if_pos h]

/-- PROPERTY (channel layout `n_channels · n_dims`) -/
theorem gradient_channel_count (u8 : Bool) (p g : Px) (h : gradient2 u8 p = .ok g) : g.length = 2 * p.length := by
  obtain ⟨_, _, _, rfl⟩ := gradient2_inv u8 p g h
  simp; omega

/-- PROPERTY (output channel order): first the axis-0 gradient of every channel, then the axis-1 gradient of every
channel -/
theorem gradient_channel_order (u8 : Bool) (p g : Px) (h : gradient2 u8 p = .ok g) (c : Nat) (hc : c < p.length) :
    g[c]? = (p[c]?).map gradY ∧ g[p.length + c]? = (p[c]?).map gradX := by
  obtain ⟨_, _, _, rfl⟩ := gradient2_inv u8 p g h
  constructor
  · rw [List.getElem?_append_left (by simpa using hc)]; simp
  · rw [List.getElem?_append_right (by simp)]; simp

theorem gradY_dims (M : Chan2) (h : 0 < nRows M) : nRows (gradY M) = nRows M ∧ nCols (gradY M) = nCols M := by
  unfold gradY; exact ⟨nRows_tab _ _ _, nCols_tab _ _ _ h⟩

theorem gradX_dims (M : Chan2) (h : 0 < nRows M) : nRows (gradX M) = nRows M ∧ nCols (gradX M) = nCols M := by
  unfold gradX; exact ⟨nRows_tab _ _ _, nCols_tab _ _ _ h⟩

/-- the gradient keeps the image size -/
theorem gradient_shape (u8 : Bool) (p g : Px) (h : gradient2 u8 p = .ok g) : sh2 g = sh2 p := by
  obtain ⟨_, h1, _, rfl⟩ := gradient2_inv u8 p g h
  cases p with
  | nil => simp [nRows] at h1
  | cons M t =>
    simp only [List.headD_cons] at h1
    have := gradY_dims M (by omega)
    simp [sh2, this.1, this.2]

/-- PROPERTY (array / Image / MaskedImage agree; annotations stay): the image call returns exactly the array result
as pixels, with the mask and the landmarks of the input unchanged and the same kind.  The values are a function of
the pixel array alone: pixels outside the mask take part in the differences like all others, and the gradient under
masked-out pixels is computed, not blanked. -/
theorem gradient_on_image (im : Img Px) (g : Px) (h : gradient2 false im.pixels = .ok g) :
    ndfeature sh2 (gradient2 false) (.img im) = .ok (.img ⟨g, im.mask, im.lms⟩) ∧
    ndfeature sh2 (gradient2 false) (.arr im.pixels) = .ok (.arr g) := by
  constructor
  · simp only [ndfeature, h]
    rw [feature_same_size_keeps_annotations sh2 im g (gradient_shape false _ _ h)]
    rfl
  · simp [ndfeature, h, Except.map]

theorem gradY_tab (H W : Nat) (f : Nat → Nat → Rat) (hH : 2 ≤ H) :
    gradY (tab H W f) = tab H W fun i j => gradAt (fun k => f k j) H i := by
  unfold gradY
  rw [nRows_tab, nCols_tab _ _ _ (by omega)]
  apply tab_congr
  intro i j hi hj
  exact gradAt_congr _ _ H i hH hi fun k hk => elem_tab H W f k j hk hj

theorem gradX_tab (H W : Nat) (f : Nat → Nat → Rat) (hH : 0 < H) (hW : 2 ≤ W) :
    gradX (tab H W f) = tab H W fun i j => gradAt (fun k => f i k) W j := by
  unfold gradX
  rw [nRows_tab, nCols_tab _ _ _ hH]
  apply tab_congr
  intro i j hi hj
  exact gradAt_congr _ _ W j hW hj fun k hk => elem_tab H W f i k hi hk

/-- PROPERTY (the gradient of an affine ramp is its constant slope, at the border pixels too) -/
theorem gradient_ramp (a b : Rat) (H W : Nat) (hH : 2 ≤ H) (hW : 2 ≤ W) (offs : List Rat) (hne : offs ≠ []) :
    gradient2 false (offs.map fun c => tab H W fun i j => a * (i : Rat) + b * (j : Rat) + c)
      = .ok (offs.map (fun _ => tab H W fun _ _ => a) ++ offs.map (fun _ => tab H W fun _ _ => b)) := by
  have hy : ∀ c : Rat, gradY (tab H W fun i j => a * (i : Rat) + b * (j : Rat) + c) = tab H W fun _ _ => a := by
    intro c
    rw [gradY_tab H W _ hH]
    apply tab_congr
    intro i j hi _
    have : (fun k : Nat => a * (k : Rat) + b * (j : Rat) + c) = fun k : Nat => (b * (j : Rat) + c) + a * (k : Rat) := by
      funext k; ring
    rw [this]; exact gradAt_affine _ a H i hH hi
  have hx : ∀ c : Rat, gradX (tab H W fun i j => a * (i : Rat) + b * (j : Rat) + c) = tab H W fun _ _ => b := by
    intro c
    rw [gradX_tab H W _ (by omega) hW]
    apply tab_congr
    intro i j _ hj
    have : (fun k : Nat => a * (i : Rat) + b * (k : Rat) + c) = fun k : Nat => (a * (i : Rat) + c) + b * (k : Rat) := by
      funext k; ring
    rw [this]; exact gradAt_affine _ b W j hW hj
  rw [gradient2_ok]
  · simp only [List.map_map, Function.comp_def, hy, hx]
  · cases offs with
    | nil => exact absurd rfl hne
    | cons c t =>
      simp only [List.map_cons, List.headD_cons]
      rw [nRows_tab, nCols_tab _ _ _ (by omega)]
      exact ⟨hH, hW⟩

/-- PROPERTY (linearity): the gradient of `α·f + β·g` is `α·∇f + β·∇g`, per axis -/
theorem gradient_linear (α β : Rat) (H W : Nat) (f g : Nat → Nat → Rat) (hH : 2 ≤ H) (hW : 2 ≤ W) :
    gradY (tab H W fun i j => α * f i j + β * g i j)
      = tab H W (fun i j => α * elem (gradY (tab H W f)) i j + β * elem (gradY (tab H W g)) i j) ∧
    gradX (tab H W fun i j => α * f i j + β * g i j)
      = tab H W (fun i j => α * elem (gradX (tab H W f)) i j + β * elem (gradX (tab H W g)) i j) := by
  constructor
  · rw [gradY_tab _ _ _ hH, gradY_tab _ _ _ hH, gradY_tab _ _ _ hH]
    apply tab_congr
    intro i j hi hj
    rw [elem_tab _ _ _ i j hi hj, elem_tab _ _ _ i j hi hj]
    exact gradAt_linear α β (fun k => f k j) (fun k => g k j) H i
  · rw [gradX_tab _ _ _ (by omega) hW, gradX_tab _ _ _ (by omega) hW, gradX_tab _ _ _ (by omega) hW]
    apply tab_congr
    intro i j hi hj
    rw [elem_tab _ _ _ i j hi hj, elem_tab _ _ _ i j hi hj]
    exact gradAt_linear α β (fun k => f i k) (fun k => g i k) W j

/-- the stencil itself: central differences inside, one-sided differences at the two borders (axis 0; axis 1 alike) -/
theorem gradient_stencil (H W : Nat) (f : Nat → Nat → Rat) (hH : 2 ≤ H) (j : Nat) (hj : j < W) :
    elem (gradY (tab H W f)) 0 j = f 1 j - f 0 j ∧
    elem (gradY (tab H W f)) (H - 1) j = f (H - 1) j - f (H - 2) j ∧
    ∀ i, 0 < i → i + 1 < H → elem (gradY (tab H W f)) i j = (f (i + 1) j - f (i - 1) j) / 2 := by
  rw [gradY_tab _ _ _ hH]
  refine ⟨?_, ?_, ?_⟩
  · rw [elem_tab _ _ _ 0 j (by omega) hj, gradAt_first]
  · rw [elem_tab _ _ _ (H - 1) j (by omega) hj, gradAt_last _ _ hH]
  · intro i h0 h1
    rw [elem_tab _ _ _ i j (by omega) hj, gradAt_interior _ _ _ h0 h1]

example : gradient2 false [[[1, 2, 4], [2, 4, 8]], [[0, 0, 1], [5, 5, 5]]]
    = .ok [[[1, 2, 4], [1, 2, 4]], [[5, 5, 4], [5, 5, 4]], [[1, 3 / 2, 2], [2, 3, 4]], [[0, 1 / 2, 1], [0, 0, 0]]] := by
  decide +kernel
/-- the N-D variant on flat data (used for 3-D images) is the same function on a 2-D image -/
example : gradientFlat [2, 3] [[1, 2, 4, 2, 4, 8], [0, 0, 1, 5, 5, 5]]
    = .ok [[1, 2, 4, 1, 2, 4], [5, 5, 4, 5, 5, 4], [1, 3 / 2, 2, 2, 3, 4], [0, 1 / 2, 1, 0, 0, 0]] := by decide +kernel

/-! ## D.2 no_op -/

/-- PROPERTY: `no_op` returns the image as it is (same kind, pixels, mask, landmarks) … -/
theorem no_op_on_image {P : Type} (sh : P → List Nat) (im : Img P) :
    ndfeature sh noOp (.img im) = .ok (.img im) ∧ ndfeature sh noOp (.arr im.pixels) = .ok (.arr im.pixels) := by
  constructor
  · simp only [ndfeature, noOp]
    rw [feature_same_size_keeps_annotations sh im im.pixels rfl]
    rfl
  · simp [ndfeature, noOp, Except.map]

/-- … in a buffer of its own (a copy), writing nothing -/
theorem no_op_copies (s : Store) (i : Nat) :
    ∃ s' j, noOpS s i = .ok (s', j) ∧ s'.bufs = s.bufs ++ [s.read i] ∧ j = s.bufs.length ∧ s'.read j = s.read i := by
  refine ⟨_, _, rfl, rfl, rfl, ?_⟩
  simp [Store.read]

theorem noOpS_frame : Frame noOpS := by
  intro s i s' j h
  simp only [noOpS, Store.alloc] at h
  injection h with h
  injection h with h1 _
  exact ⟨[s.read i], by rw [← h1]⟩

/-! ## D.3 IGO -/

/-- the square-root contract AT ONE PIXEL: `mag g_y g_x = |g_y + i·g_x|` for this gradient `(a, b)`.
(A `mag : ℚ → ℚ → ℚ` satisfying it for ALL `(a, b)` does not exist — `(1, 1)` would need a rational `√2` — so the
theorems below take the contract for the pixel they speak about only; over ℚ it is satisfiable exactly where
`a² + b²` is a rational square, e.g. the 3-4-5 gradient of `magEx`.  `Props/C18Real.lean` states the same facts over
any linearly ordered field and exhibits `Real.sqrt` as a witness for EVERY gradient.) -/
def MagAt (mag : Rat → Rat → Rat) (a b : Rat) : Prop := 0 ≤ mag a b ∧ mag a b * mag a b = a * a + b * b

theorem mag_ne_zero (mag : Rat → Rat → Rat) (a b : Rat) (hc : MagAt mag a b) (h : ¬ (a = 0 ∧ b = 0)) :
    mag a b ≠ 0 := by
  intro h0
  have h2 := hc.2
  rw [h0] at h2
  have hz : a * a + b * b = 0 := by linarith
  have ha : a = 0 := by nlinarith [mul_self_nonneg a, mul_self_nonneg b]
  have hb : b = 0 := by nlinarith [mul_self_nonneg a, mul_self_nonneg b]
  exact h ⟨ha, hb⟩

/-- PROPERTY (`cos² + sin² = 1` at every pixel — also where the gradient vanishes: `angle(0) = 0`) -/
theorem unitDir_unit (mag : Rat → Rat → Rat) (gy gx : Rat) (hc : MagAt mag gy gx) :
    (unitDir mag gy gx).1 * (unitDir mag gy gx).1 + (unitDir mag gy gx).2 * (unitDir mag gy gx).2 = 1 := by
  unfold unitDir
  split
  · simp
  · rename_i h
    have hm := mag_ne_zero mag gy gx hc h
    have h2 := hc.2
    simp only []
    field_simp
    linarith

/-- … and for the double-angle channels -/
theorem unitDir_double_unit (mag : Rat → Rat → Rat) (gy gx : Rat) (hc : MagAt mag gy gx) :
    (2 * (unitDir mag gy gx).1 * (unitDir mag gy gx).2) * (2 * (unitDir mag gy gx).1 * (unitDir mag gy gx).2) +
    ((unitDir mag gy gx).2 * (unitDir mag gy gx).2 - (unitDir mag gy gx).1 * (unitDir mag gy gx).1) *
    ((unitDir mag gy gx).2 * (unitDir mag gy gx).2 - (unitDir mag gy gx).1 * (unitDir mag gy gx).1) = 1 := by
  have h := unitDir_unit mag gy gx hc
  set s := (unitDir mag gy gx).1
  set c := (unitDir mag gy gx).2
  have : (2 * s * c) * (2 * s * c) + (c * c - s * s) * (c * c - s * s) = (s * s + c * c) * (s * s + c * c) := by ring
  rw [this, h]; ring

theorem zipWith_map_map_self {α β γ δ} (f : β → γ → δ) (g : α → β) (h : α → γ) (l : List α) :
    List.zipWith f (l.map g) (l.map h) = l.map fun a => f (g a) (h a) := by
  induction l with
  | nil => rfl
  | cons a t ih => simp [ih]

theorem take_map_append {α β} (l : List α) (g h : α → β) : (l.map g ++ l.map h).take l.length = l.map g := by
  have : l.length = (l.map g).length := by simp
  rw [this, List.take_left']
  rfl

theorem drop_map_append {α β} (l : List α) (g h : α → β) : (l.map g ++ l.map h).drop l.length = l.map h := by
  have : l.length = (l.map g).length := by simp
  rw [this, List.drop_left']
  rfl

/-- PROPERTY (IGO output layout): `[sin φ of every channel, cos φ of every channel]`, with double angles
`[sin φ, sin 2φ, cos φ, cos 2φ]`, each block one channel per input channel, computed from that channel's gradient -/
theorem igo_layout (mag : Rat → Rat → Rat) (dbl : Bool) (p : Px)
    (h : 2 ≤ nRows (p.headD []) ∧ 2 ≤ nCols (p.headD [])) :
    igo2 mag dbl p = .ok (
      if dbl then
        p.map (fun M => sinC mag (gradY M) (gradX M)) ++ p.map (fun M => sin2C mag (gradY M) (gradX M)) ++
        p.map (fun M => cosC mag (gradY M) (gradX M)) ++ p.map (fun M => cos2C mag (gradY M) (gradX M))
      else p.map (fun M => sinC mag (gradY M) (gradX M)) ++ p.map (fun M => cosC mag (gradY M) (gradX M))) := by
  unfold igo2
  rw [gradient2_ok p h]
  simp only [take_map_append, drop_map_append, zipWith_map_map_self]
  cases dbl <;> simp

/-- IGO refuses what the gradient refuses (too small an image) -/
theorem igo_error (mag : Rat → Rat → Rat) (dbl : Bool) (p : Px) (e : Err) (h : gradient2 false p = .error e) :
    igo2 mag dbl p = .error e := by
  unfold igo2; rw [h]

/-- PROPERTY (IGO channel count: 2 resp. 4 per input channel) -/
theorem igo_channel_count (mag : Rat → Rat → Rat) (dbl : Bool) (p r : Px) (h : igo2 mag dbl p = .ok r) :
    r.length = (if dbl then 4 else 2) * p.length := by
  cases hg : gradient2 false p with
  | error e => rw [igo_error mag dbl p e hg] at h; cases h
  | ok g =>
    obtain ⟨_, h1, h2, rfl⟩ := gradient2_inv false p g hg
    rw [igo_layout mag dbl p ⟨h1, h2⟩] at h
    injection h with h
    subst h
    cases dbl <;> simp <;> omega

theorem map2_tab (f : Rat → Rat → Rat) (H W : Nat) (u v : Nat → Nat → Rat) :
    map2 f (tab H W u) (tab H W v) = tab H W fun i j => f (u i j) (v i j) := by
  unfold map2 tab
  rw [zipWith_map_map_self]
  apply List.map_congr_left
  intro i _
  rw [zipWith_map_map_self]

/-- PROPERTY (IGO per pixel): at every pixel of every channel the sine and cosine channels satisfy
`sin² + cos² = 1`, and so do the double-angle channels -/
theorem igo_pixel_unit (mag : Rat → Rat → Rat) (M : Chan2) (i j : Nat)
    (hi : i < nRows M) (hj : j < nCols M)
    (hc : MagAt mag (gradAt (fun k => elem M k j) (nRows M) i) (gradAt (fun k => elem M i k) (nCols M) j)) :
    elem (sinC mag (gradY M) (gradX M)) i j * elem (sinC mag (gradY M) (gradX M)) i j +
      elem (cosC mag (gradY M) (gradX M)) i j * elem (cosC mag (gradY M) (gradX M)) i j = 1 ∧
    elem (sin2C mag (gradY M) (gradX M)) i j * elem (sin2C mag (gradY M) (gradX M)) i j +
      elem (cos2C mag (gradY M) (gradX M)) i j * elem (cos2C mag (gradY M) (gradX M)) i j = 1 := by
  unfold sinC cosC sin2C cos2C gradY gradX
  simp only [map2_tab]
  rw [elem_tab _ _ _ i j hi hj, elem_tab _ _ _ i j hi hj, elem_tab _ _ _ i j hi hj, elem_tab _ _ _ i j hi hj]
  exact ⟨unitDir_unit mag _ _ hc, unitDir_double_unit mag _ _ hc⟩

theorem map2_dims (f : Rat → Rat → Rat) (A B : Chan2) (h1 : nRows A = nRows B) (h2 : nCols A = nCols B) :
    nRows (map2 f A B) = nRows A ∧ nCols (map2 f A B) = nCols A := by
  unfold map2 nRows nCols at *
  constructor
  · simp [h1]
  · cases A with
    | nil => simp
    | cons ra ta =>
      cases B with
      | nil => simp at h1
      | cons rb tb =>
        simp only [List.headD_cons] at h2
        simp [h2]

/-- IGO keeps the image size (so, by Part A, mask and landmarks are returned unchanged) -/
theorem igo_shape (mag : Rat → Rat → Rat) (dbl : Bool) (p r : Px) (h : igo2 mag dbl p = .ok r) : sh2 r = sh2 p := by
  cases hg : gradient2 false p with
  | error e => rw [igo_error mag dbl p e hg] at h; cases h
  | ok g =>
    obtain ⟨_, h1, h2, rfl⟩ := gradient2_inv false p g hg
    rw [igo_layout mag dbl p ⟨h1, h2⟩] at h
    injection h with h
    subst h
    cases p with
    | nil => simp [nRows] at h1
    | cons M t =>
      simp only [List.headD_cons] at h1 h2
      have hy := gradY_dims M (by omega)
      have hx := gradX_dims M (by omega)
      have hd := map2_dims (fun a b => (unitDir mag a b).1) (gradY M) (gradX M) (by rw [hy.1, hx.1]) (by rw [hy.2, hx.2])
      cases dbl <;> simp [sh2, sinC, hd.1, hd.2, hy.1, hy.2]

theorem igo_on_image (mag : Rat → Rat → Rat) (dbl : Bool) (im : Img Px) (r : Px) (h : igo2 mag dbl im.pixels = .ok r) :
    ndfeature sh2 (igo2 mag dbl) (.img im) = .ok (.img ⟨r, im.mask, im.lms⟩) ∧
    ndfeature sh2 (igo2 mag dbl) (.arr im.pixels) = .ok (.arr r) := by
  constructor
  · simp only [ndfeature, h]
    rw [feature_same_size_keeps_annotations sh2 im r (igo_shape mag dbl _ _ h)]
    rfl
  · simp [ndfeature, h, Except.map]

/-- IGO and ES refuse images that are not 2-D, before looking at the pixels (both calling conventions alike, by
`ndfeature_error_agrees`) -/
theorem igo_es_refuse_non2d (mag : Rat → Rat → Rat) (dbl : Bool) (nDims : Nat) (p : Px) (h : nDims ≠ 2) :
    igoChecked mag dbl nDims p = .error (.feature codeNot2D) ∧ esChecked mag nDims p = .error (.feature codeNot2D) ∧
    igoChecked mag dbl 2 p = igo2 mag dbl p ∧ esChecked mag 2 p = es2 mag p := by
  simp [igoChecked, esChecked, h]

/-- non-vacuity: a magnitude function that is a square root where it is used (3-4-5 gradient) -/
def magEx (a b : Rat) : Rat := if a = 3 ∧ b = 4 then 5 else if a = 0 ∧ b = 0 then 0 else 1
example : igo2 magEx false [[[0, 4], [3, 7]]] = .ok [[[4 / 5, 4 / 5], [4 / 5, 4 / 5]], [[3 / 5, 3 / 5], [3 / 5, 3 / 5]]] := by
  decide +kernel
example : (unitDir magEx 0 0) = (0, 1) := by decide +kernel
/-- the pointwise contract is satisfiable: `magEx` satisfies it at the 3-4-5 gradient and at the vanishing gradient -/
example : MagAt magEx 3 4 ∧ MagAt magEx 0 0 := by unfold MagAt; decide +kernel
example : (unitDir magEx 3 4).1 * (unitDir magEx 3 4).1 + (unitDir magEx 3 4).2 * (unitDir magEx 3 4).2 = 1 :=
  unitDir_unit magEx 3 4 (by unfold MagAt; decide +kernel)

/-! ## D.4 ES -/

theorem mem_insertSorted (a x : Rat) (l : List Rat) : x ∈ insertSorted a l ↔ x = a ∨ x ∈ l := by
  induction l with
  | nil => simp [insertSorted]
  | cons b t ih =>
    unfold insertSorted
    split
    · simp
    · simp only [List.mem_cons, ih]
      constructor
      · rintro (h | h | h)
        · exact Or.inr (Or.inl h)
        · exact Or.inl h
        · exact Or.inr (Or.inr h)
      · rintro (h | h | h)
        · exact Or.inr (Or.inl h)
        · exact Or.inl h
        · exact Or.inr (Or.inr h)

theorem mem_isort (x : Rat) (l : List Rat) : x ∈ isort l ↔ x ∈ l := by
  induction l with
  | nil => simp [isort]
  | cons a t ih => simp [isort, mem_insertSorted, ih]

theorem median_nonneg (l : List Rat) (h : ∀ x ∈ l, 0 ≤ x) : 0 ≤ median l := by
  have hs : ∀ x ∈ isort l, 0 ≤ x := fun x hx => h x ((mem_isort x l).mp hx)
  have hget : ∀ k, 0 ≤ (isort l).getD k 0 := by
    intro k
    rw [List.getD_eq_getElem?_getD]
    cases hk : (isort l)[k]? with
    | none => simp
    | some v => simp only [Option.getD_some]; exact hs v (List.mem_of_getElem? hk)
  unfold median
  simp only []
  split
  · exact hget _
  · have a := hget ((isort l).length / 2 - 1)
    have b := hget ((isort l).length / 2)
    linarith

/-- PROPERTY (ES per pixel): a value is produced exactly where the denominator `|g| + median` is not zero, and then
the two ES channels lie in the unit disc: `e_y² + e_x² = (|g| / (|g| + med))² ≤ 1` -/
theorem es_pixel_bounded (mag : Rat → Rat → Rat) (med gy gx : Rat) (hc : MagAt mag gy gx) (hmed : 0 ≤ med)
    (hden : mag gy gx + med ≠ 0) :
    ∃ ey ex, esPix (mag gy gx + med) gy = some ey ∧ esPix (mag gy gx + med) gx = some ex ∧ ey * ey + ex * ex ≤ 1 := by
  refine ⟨gy / (mag gy gx + med), gx / (mag gy gx + med), by simp [esPix, hden], by simp [esPix, hden], ?_⟩
  obtain ⟨h0, h2⟩ := hc
  have hpos : 0 < mag gy gx + med := lt_of_le_of_ne (by linarith) (Ne.symm hden)
  have e : gy / (mag gy gx + med) * (gy / (mag gy gx + med)) + gx / (mag gy gx + med) * (gx / (mag gy gx + med))
      = (mag gy gx * mag gy gx) / ((mag gy gx + med) * (mag gy gx + med)) := by
    rw [h2]; field_simp
  rw [e, div_le_one (by positivity)]
  nlinarith

/-- the only non-finite ES values: `0/0` where both the gradient and the median magnitude vanish -/
theorem es_nan_iff (mag : Rat → Rat → Rat) (med gy gx : Rat) (hc : MagAt mag gy gx) (hmed : 0 ≤ med) :
    esPix (mag gy gx + med) gy = none ↔ (gy = 0 ∧ gx = 0 ∧ med = 0) := by
  obtain ⟨h0, h2⟩ := id hc
  unfold esPix
  constructor
  · intro h
    split at h
    · rename_i hz
      have hm : mag gy gx = 0 := by linarith
      have hmed0 : med = 0 := by linarith
      by_cases hg : gy = 0 ∧ gx = 0
      · exact ⟨hg.1, hg.2, hmed0⟩
      · exact absurd hm (mag_ne_zero mag gy gx hc hg)
    · cases h
  · rintro ⟨rfl, rfl, rfl⟩
    have : mag 0 0 = 0 := by
      have := hc.2
      have h3 : mag 0 0 * mag 0 0 = 0 := by simpa using this
      exact mul_self_eq_zero.mp h3
    simp [this]

/-- PROPERTY (ES output layout and channel count `2·C`): `[g_y/(|g|+med) per channel, g_x/(|g|+med) per channel]` -/
theorem es_layout (mag : Rat → Rat → Rat) (p : Px) (h : 2 ≤ nRows (p.headD []) ∧ 2 ≤ nCols (p.headD [])) :
    ∃ med, med = median ((p.map fun M => map2 mag (gradY M) (gradX M)).flatten.flatten) ∧
    es2 mag p = .ok (
      p.map (fun M => omap2 (fun a b => esPix (mag a b + med) a) (gradY M) (gradX M)) ++
      p.map (fun M => omap2 (fun a b => esPix (mag a b + med) b) (gradY M) (gradX M))) := by
  refine ⟨_, rfl, ?_⟩
  unfold es2
  rw [gradient2_ok p h]
  simp only [take_map_append, drop_map_append, zipWith_map_map_self]

theorem es_channel_count (mag : Rat → Rat → Rat) (p : Px) (r : List OChan2) (h : es2 mag p = .ok r) :
    r.length = 2 * p.length := by
  cases hg : gradient2 false p with
  | error e =>
    have : es2 mag p = .error e := by unfold es2; rw [hg]
    rw [this] at h; cases h
  | ok g =>
    obtain ⟨_, h1, h2, rfl⟩ := gradient2_inv false p g hg
    obtain ⟨med, _, hes⟩ := es_layout mag p ⟨h1, h2⟩
    rw [hes] at h
    injection h with h
    subst h
    simp; omega

example : es2 magEx [[[0, 4], [3, 7]]] = .ok [[[some (3 / 10), some (3 / 10)], [some (3 / 10), some (3 / 10)]],
    [[some (2 / 5), some (2 / 5)], [some (2 / 5), some (2 / 5)]]] := by decide +kernel
/-- a constant image: `0/0` everywhere (numpy: NaN) -/
example : es2 magEx [[[2, 2], [2, 2]]] = .ok [[[none, none], [none, none]], [[none, none], [none, none]]] := by decide +kernel

/-! ## D.5 gaussian_filter -/

theorem filtY_tab (k : Kern) (H W : Nat) (f : Nat → Nat → Rat) (hH : 0 < H) :
    filtY k (tab H W f) = tab H W fun i j => corr1 k (fun r => f r j) H i := by
  unfold filtY
  rw [nRows_tab, nCols_tab _ _ _ hH]
  apply tab_congr
  intro i j hi hj
  exact corr1_congr k _ _ H i hi fun t ht => elem_tab H W f t j ht hj

theorem filtX_tab (k : Kern) (H W : Nat) (f : Nat → Nat → Rat) (hH : 0 < H) :
    filtX k (tab H W f) = tab H W fun i j => corr1 k (fun c => f i c) W j := by
  unfold filtX
  rw [nRows_tab, nCols_tab _ _ _ hH]
  apply tab_congr
  intro i j hi hj
  exact corr1_congr k _ _ W j hj fun t ht => elem_tab H W f i t hi ht

/-- PROPERTY (constants are preserved, borders included, whatever the two kernels, as long as each sums to one) -/
theorem gauss_const (ky kx : Kern) (hy : ky.total = 1) (hx : kx.total = 1) (H W : Nat) (hH : 0 < H) (vals : List Rat) :
    gauss2 (some ky) (some kx) (vals.map fun c => tab H W fun _ _ => c) = .ok (vals.map fun c => tab H W fun _ _ => c) := by
  unfold gauss2
  simp only [List.map_map, Function.comp_def]
  congr 1
  apply List.map_congr_left
  intro c _
  have h1 : filtY ky (tab H W fun _ _ => c) = tab H W fun _ _ => c := by
    rw [filtY_tab _ _ _ _ hH]
    apply tab_congr
    intro i j hi _
    exact corr1_const ky _ H i c hi (fun _ _ => rfl) hy
  rw [h1, filtX_tab _ _ _ _ hH]
  apply tab_congr
  intro i j _ hj
  exact corr1_const kx _ W j c hj (fun _ _ => rfl) hx

/-- PROPERTY (affine ramps are preserved at every pixel further from the border than the kernel radius) -/
theorem gauss_ramp_interior (ky kx : Kern) (hy : ky.total = 1) (hx : kx.total = 1) (a b c : Rat) (H W : Nat)
    (i j : Nat) (hi0 : ky.ws.length ≤ i) (hi1 : i + ky.ws.length < H) (hj0 : kx.ws.length ≤ j) (hj1 : j + kx.ws.length < W) :
    ∃ R, gauss2 (some ky) (some kx) [tab H W fun i j => a * (i : Rat) + b * (j : Rat) + c] = .ok [R] ∧
      elem R i j = a * (i : Rat) + b * (j : Rat) + c := by
  have hH : 0 < H := by omega
  refine ⟨_, rfl, ?_⟩
  show elem (filtX kx (filtY ky (tab H W fun i j => a * (i : Rat) + b * (j : Rat) + c))) i j = _
  rw [filtY_tab _ _ _ _ hH, filtX_tab _ _ _ _ hH, elem_tab _ _ _ i j (by omega) (by omega)]
  -- row i of the axis-0 pass is the ramp itself (every column is affine in the row index)
  have hrow : (fun t : Nat => corr1 ky (fun r : Nat => a * (r : Rat) + b * (t : Rat) + c) H i)
      = fun t : Nat => (a * (i : Rat) + c) + b * (t : Rat) := by
    funext t
    have : (fun r : Nat => a * (r : Rat) + b * (t : Rat) + c) = fun r : Nat => (b * (t : Rat) + c) + a * (r : Rat) := by
      funext r; ring
    rw [this, corr1_affine_interior ky _ a H i hi0 hi1 hy]; ring
  rw [hrow, corr1_affine_interior kx _ b W j hj0 hj1 hx]; ring

theorem filt_dims (k : Kern) (M : Chan2) :
    nRows (filtY k M) = nRows M ∧ nCols (filtY k M) = nCols M ∧ nRows (filtX k M) = nRows M ∧ nCols (filtX k M) = nCols M := by
  unfold filtY filtX
  by_cases h : 0 < nRows M
  · exact ⟨nRows_tab _ _ _, nCols_tab _ _ _ h, nRows_tab _ _ _, nCols_tab _ _ _ h⟩
  · have h0 : nRows M = 0 := by omega
    have hM : M = [] := by simpa [nRows] using h0
    subst hM
    simp [nRows, nCols, tab]

/-- the filter keeps the image size … -/
theorem gauss_shape (ky kx : Option Kern) (p r : Px) (h : gauss2 ky kx p = .ok r) : sh2 r = sh2 p := by
  unfold gauss2 at h
  injection h with h
  subst h
  cases p with
  | nil => rfl
  | cons M t =>
    simp only [sh2, List.map_cons, List.headD_cons]
    cases ky with
    | none =>
      cases kx with
      | none => rfl
      | some kx => rw [(filt_dims kx M).2.2.1, (filt_dims kx M).2.2.2]
    | some ky =>
      cases kx with
      | none => simp only []; rw [(filt_dims ky M).1, (filt_dims ky M).2.1]
      | some kx =>
        simp only []
        rw [(filt_dims kx _).2.2.1, (filt_dims kx _).2.2.2, (filt_dims ky M).1, (filt_dims ky M).2.1]

/-- … so the image call returns the filtered array with mask and landmarks unchanged -/
theorem gauss_on_image (ky kx : Option Kern) (im : Img Px) (r : Px) (h : gauss2 ky kx im.pixels = .ok r) :
    ndfeature sh2 (gauss2 ky kx) (.img im) = .ok (.img ⟨r, im.mask, im.lms⟩) ∧
    ndfeature sh2 (gauss2 ky kx) (.arr im.pixels) = .ok (.arr r) := by
  constructor
  · simp only [ndfeature, h]
    rw [feature_same_size_keeps_annotations sh2 im r (gauss_shape ky kx _ _ h)]
    rfl
  · simp [ndfeature, h, Except.map]

/-- non-vacuity: the kernel (1/4, 1/2, 1/4) on a ramp: the interior is kept, the border column is not -/
example : gauss2 (some ⟨1 / 2, [1 / 4]⟩) (some ⟨1 / 2, [1 / 4]⟩) [[[0, 1, 2, 3], [2, 3, 4, 5], [4, 5, 6, 7]]]
    = .ok [[[3 / 4, 3 / 2, 5 / 2, 13 / 4], [9 / 4, 3, 4, 19 / 4], [15 / 4, 9 / 2, 11 / 2, 25 / 4]]] := by decide +kernel
example : (⟨1 / 2, [1 / 4]⟩ : Kern).total = 1 := by decide +kernel
/-- the N-D variant on flat data (used for 3-D images) is the same function on a 2-D image -/
example : gaussFlat [some ⟨1 / 2, [1 / 4]⟩, some ⟨1 / 2, [1 / 4]⟩] [3, 4] [[0, 1, 2, 3, 2, 3, 4, 5, 4, 5, 6, 7]]
    = [[3 / 4, 3 / 2, 5 / 2, 13 / 4, 9 / 4, 3, 4, 19 / 4, 15 / 4, 9 / 2, 11 / 2, 25 / 4]] := by decide +kernel

/-! ## D.6 DAISY: the size law -/

/-- the extent of the DAISY grid along an axis of extent `H`: `k = ⌈(H − 2r)/step⌉`, i.e. `step·(k−1) < H − 2r ≤ step·k`;
at least one whenever the image is larger than the descriptor diameter, never more than the input extent -/
theorem daisy_extent (H radius step : Nat) (hs : 0 < step) (hH : 2 * radius < H) :
    1 ≤ ceilDiv (H - 2 * radius) step ∧ ceilDiv (H - 2 * radius) step ≤ H - 2 * radius ∧
    step * (ceilDiv (H - 2 * radius) step - 1) < H - 2 * radius ∧
    H - 2 * radius ≤ step * ceilDiv (H - 2 * radius) step := by
  unfold ceilDiv
  set a := H - 2 * radius with ha
  have ha0 : 0 < a := by omega
  have h1 := Nat.div_add_mod (a + step - 1) step
  have h2 := Nat.mod_lt (a + step - 1) hs
  set q := (a + step - 1) / step with hq
  have hq1 : 1 ≤ q := by
    rcases Nat.eq_zero_or_pos q with h0 | h0
    · rw [h0] at h1; omega
    · exact h0
  refine ⟨hq1, ?_, ?_, ?_⟩
  · -- q ≤ a : step*q ≤ a + step − 1
    have : step * q ≤ a + step - 1 := by omega
    have h3 : q ≤ step * q := Nat.le_mul_of_pos_left q hs
    by_contra hc
    have hc' : a + 1 ≤ q := by omega
    have : step * (a + 1) ≤ step * q := Nat.mul_le_mul_left _ hc'
    have : step * (a + 1) = step * a + step := by ring
    have : a ≤ step * a := Nat.le_mul_of_pos_left a hs
    omega
  · have : step * (q - 1) + step = step * q := by
      have : q - 1 + 1 = q := by omega
      rw [← this, Nat.mul_add, Nat.mul_one]; simp
    omega
  · omega

/-- PROPERTY (DAISY on an image: landmarks and mask follow the new size) — for whatever the descriptor values are:
any array-level feature whose output has the DAISY grid shape returns an image whose landmarks are the input's
scaled by `grid extent / image extent` per axis and whose mask is the input mask resized to the grid -/
theorem daisy_annotations {P : Type} (sh : P → List Nat) (im : Img P) (fp : P) (r : Img P) (H W radius step : Nat)
    (hin : sh im.pixels = [H, W]) (hout : sh fp = daisyShape H W radius step)
    (hne : daisyShape H W radius step ≠ [H, W]) (h : rebuild sh im fp = .ok r) :
    r.pixels = fp ∧ r.mask.isSome = im.mask.isSome ∧
    r.lms = scaleLms (ratio (daisyShape H W radius step) [H, W]) im.lms ∧
    (∀ m, im.mask = some m → ∃ m', r.mask = some m' ∧ resizeMask m (daisyShape H W radius step) = .ok m') := by
  have hs : sh fp ≠ sh im.pixels := by rw [hin, hout]; exact hne
  obtain ⟨h1, h2, _⟩ := feature_new_size_rescales sh im fp r hs h
  refine ⟨rebuild_pixels sh im fp r h, feature_keeps_kind sh im fp r h, by rw [h1, hin, hout], ?_⟩
  intro m hm
  obtain ⟨m', a, b, _, _⟩ := h2 m hm
  exact ⟨m', a, by rw [← hout]; exact b⟩

example : daisyShape 35 12 3 1 = [29, 6] ∧ daisyShape 9 8 2 2 = [3, 2] ∧ daisyChannels 1 2 3 = 9 := by decide

end MenpoModel.C18
