/-
C20 — property theorems about the definitions the TRANSLATED SOURCE is proved equal to (`GenProps/C20Src.lean`):
what the `degrees` flag reads, the class ladder of the about-centre helpers, the chain fall-back as a map on points, the
matrix `K` of `_as_vector` as the source writes it and the sign canonicalisation of the quaternion, the decision and
the computation of `_axis_and_angle_of_rotation_3d` (mirror `axisAngle3Src`).
-/
import MenpoModel.Core.C20Src
import MenpoModel.Props.C20Base
import MenpoModel.Props.C20Ext
import MenpoModel.Props.C20Real

open Matrix Real
namespace MenpoModel.C20

/-! ### the `degrees` flag -/

/-- which level of the argument the constructors read: the argument itself for radians, exactly one `deg2rad` for degrees -/
theorem denoted_levels (a : Ang) :
    (a.denoted false).cos = a.tr.cos a.lvl ∧ (a.denoted false).sin = a.tr.sin a.lvl ∧ (a.denoted false).tan = a.tr.tan a.lvl ∧
    (a.denoted true).cos = a.tr.cos (a.lvl + 1) ∧ (a.denoted true).sin = a.tr.sin (a.lvl + 1) ∧
    (a.denoted true).tan = a.tr.tan (a.lvl + 1) := ⟨rfl, rfl, rfl, rfl, rfl, rfl⟩

/-- the matrices the translated constructors build (`genInitFrom2dCcwAngle_eq`, `genInitFrom3dCcwAngleAround*_eq`) are,
when the numbers read at the denoted level are the real cosine and sine of `angleArg θ degrees`, the REAL rotation
matrices `initFrom2dCcwAngle θ degrees`, `initFrom3dCcwAngleAroundX/Y/Z θ degrees` — for both values of the flag -/
theorem translated_ctor_is_real_rotation (a : Ang) (θ : ℝ) (degrees : Bool)
    (hc : (((a.denoted degrees).cos : Rat) : ℝ) = cos (angleArg θ degrees))
    (hs : (((a.denoted degrees).sin : Rat) : ℝ) = sin (angleArg θ degrees)) :
    (rot2 (a.denoted degrees).cos (a.denoted degrees).sin).linR = initFrom2dCcwAngle θ degrees ∧
    (rot2 (a.denoted degrees).cos (a.denoted degrees).sin).trR = 0 ∧
    (rot3x (a.denoted degrees).cos (a.denoted degrees).sin).toR = initFrom3dCcwAngleAroundX θ degrees ∧
    (rot3y (a.denoted degrees).cos (a.denoted degrees).sin).toR = initFrom3dCcwAngleAroundY θ degrees ∧
    (rot3z (a.denoted degrees).cos (a.denoted degrees).sin).toR = initFrom3dCcwAngleAroundZ θ degrees := by
  obtain ⟨h2, h2t⟩ := rot2_model_is_real _ _ _ hc hs
  obtain ⟨hx, hy, hz⟩ := rot3_model_is_real _ _ _ hc hs
  exact ⟨h2, h2t, hx, hy, hz⟩

/-- non-vacuity: the argument `90` read as degrees (level 1 holds `cos π/2 = 0`, `sin π/2 = 1`) -/
example : ∃ a : Ang, (((a.denoted true).cos : Rat) : ℝ) = cos (angleArg 90 true) ∧
    (((a.denoted true).sin : Rat) : ℝ) = sin (angleArg 90 true) := by
  refine ⟨⟨⟨fun _ => 0, fun _ => 1, fun _ => 0⟩, 0⟩, ?_, ?_⟩
  · have : angleArg 90 true = π / 2 := by simp only [angleArg, deg2rad, if_true]; ring
    simp [this, Ang.denoted, Ang.deg2rad, Ang.cos]
  · have : angleArg 90 true = π / 2 := by simp only [angleArg, deg2rad, if_true]; ring
    simp [this, Ang.denoted, Ang.deg2rad, Ang.sin]

/-! ### the class of an about-centre transform -/

/-- the model's table `aboutCentreCls` is the composition ladder applied twice (`Translation ∘ T ∘ Translation`): a
translation stays a translation, the other similarities give a `Similarity`, affine maps an `Affine` -/
theorem about_centre_class (c : Cls) (hc : c.isHomog = true) :
    aboutCentreCls c = composeCls (composeCls .translation c) .translation := by
  cases c <;> first | decide | exact absurd hc (by decide)

/-- the ladder is the first common ancestor: it is commutative, idempotent and never leaves the family -/
theorem compose_cls_laws (a b : Cls) (ha : a.isHomog = true) (hb : b.isHomog = true) :
    composeCls a b = composeCls b a ∧ composeCls a a = a ∧ (composeCls a b).isHomog = true ∧
    a.isSub (composeCls a b) = true ∧ b.isSub (composeCls a b) = true := by
  cases a <;> cases b <;> first | decide | exact absurd ha (by decide) | exact absurd hb (by decide)

/-! ### the chain fall-back of `transform_about_centre` as a map on points -/

/-- a member of a chain acting on a 2-D point (`env i` = the map of the non-homogeneous member `i`) -/
def Leaf.apply2 (env : Nat → V2 → V2) : Leaf → V2 → V2
  | .homog _ (.a2 m), p => m.apply p
  | .homog _ (.a3 _), p => p
  | .other i, p => env i p

/-- a chain applies its members in order -/
def applyLeaves2 (env : Nat → V2 → V2) (ls : List Leaf) (p : V2) : V2 := ls.foldl (fun q l => l.apply2 env q) p

/-- the chain `[Translation(−c), transform, Translation(c)]` the translated fall-back builds
(`genTransformAboutCentre_chain`) maps `p` to `f(p − c) + c`: the model's `aboutCentreFn2` -/
theorem chain_fallback_is_about_centre (o : Obj2) (i : Nat) (env : Nat → V2 → V2) (p : V2) :
    applyLeaves2 env ((Tr.translation (-(Obj.centreD (.d2 o)))).leaves ++ (Tr.other i).leaves ++
        (Tr.translation (Obj.centreD (.d2 o))).leaves) p = aboutCentreFn2 o.centre (env i) p := by
  have e1 : ∀ t q : V2, (transl2 t).apply q = q.add t := by
    intro t q; ext <;> simp [transl2, Aff2.apply, V2.add]
  simp [applyLeaves2, Tr.translation, Obj.centreD, Tr.leaves, Leaf.apply2, aboutCentreFn2, e1, Neg.neg, VD.neg]

/-! ### quaternions: the matrix `K` as the source writes it, the sign of the answer -/

/-- the lower triangle the source fills, divided by three and symmetrised (what `np.linalg.eigh` diagonalises), acts on
`(x, y, z, w)` as the model's `quatK` — so `quat_K_eigen`, `quat_K_formula`, `quat_K_spectrum` are statements about the
matrix of the translated `_as_vector` -/
theorem quatK_is_source_matrix (m : Lin3) (x y z w : Rat) :
    matVec (symmFromLower ((quatKLower m).divScalar 3)) [x, y, z, w] =
      [(quatK m x y z w).1, (quatK m x y z w).2.1, (quatK m x y z w).2.2.1, (quatK m x y z w).2.2.2] := by
  simp [symmFromLower, quatKLower, Rows.divScalar, Rows.get, List.range, List.range.loop, matVec, dotL, quatK]
  refine ⟨?_, ?_, ?_, ?_⟩ <;> ring

/-- quaternion round trip through the translated `_as_vector`: when the eigen-solver returns `±q` (columns in the order
`x, y, z, w`; that the top eigenspace of `K` is spanned by `q` is `quat_K_spectrum`) for the matrix of the unit
quaternion `q = (w, x, y, z)` with `w > 0`, the reported parameters are `q` itself, whichever sign the solver chose -/
theorem as_vector_roundtrip (eigh : Rows → List Rat × Rows) (w x y z : Rat) (hw : 0 < w)
    (hsolver :
      pickCol (eigh ((quatKLower (quatToLin w x y z)).divScalar 3)).2 [3, 0, 1, 2]
          (argmaxL (eigh ((quatKLower (quatToLin w x y z)).divScalar 3)).1) = [w, x, y, z] ∨
      pickCol (eigh ((quatKLower (quatToLin w x y z)).divScalar 3)).2 [3, 0, 1, 2]
          (argmaxL (eigh ((quatKLower (quatToLin w x y z)).divScalar 3)).1) = [-w, -x, -y, -z]) :
    asVectorSrc eigh (quatToLin w x y z) = [w, x, y, z] := by
  unfold asVectorSrc
  rcases hsolver with h | h
  · have : ¬ w < 0 := not_lt.mpr hw.le
    simp [h, this]
  · have : -w < 0 := by linarith
    simp [h, this, vecNeg]

/-- non-vacuity: a solver that returns `q` for the identity quaternion -/
example : ∃ eigh : Rows → List Rat × Rows,
    pickCol (eigh ((quatKLower (quatToLin 1 0 0 0)).divScalar 3)).2 [3, 0, 1, 2]
      (argmaxL (eigh ((quatKLower (quatToLin 1 0 0 0)).divScalar 3)).1) = [1, 0, 0, 0] :=
  ⟨fun _ => ([1], [[0], [0], [0], [1]]), by decide⟩

/-! ### 3-D axis and angle: the decision on the eigenvalues -/

theorem maskSel_nil_left {α : Type} (m : List Bool) : maskSel ([] : List α) m = [] := by
  simp [maskSel]

theorem maskSel_cons {α : Type} (x : α) (xs : List α) (b : Bool) (bs : List Bool) :
    maskSel (x :: xs) (b :: bs) = if b then x :: maskSel xs bs else maskSel xs bs := by
  cases b <;> simp [maskSel]

/-- the two successive masks of the code select exactly the eigenvectors of the eigenvalues that are real and of
modulus one within the tolerance -/
theorem candidates_count {α : Type} (evals : List EVal) (evecs : List α) (h : evals.length = evecs.length) :
    (maskSel (maskSel evecs (evals.map EVal.isReal))
      (List.zipWith (· && ·)
        (((maskSel evals (evals.map EVal.isReal)).map EVal.re).map fun v => decide (rabs v < 1 + unitTol))
        (((maskSel evals (evals.map EVal.isReal)).map EVal.re).map fun v => decide (1 - unitTol < rabs v)))).length =
      (evals.filter EVal.unitReal).length := by
  induction evals generalizing evecs with
  | nil => simp [maskSel]
  | cons e es ih =>
    cases evecs with
    | nil => simp at h
    | cons v vs =>
      have h' : es.length = vs.length := by simpa using h
      have := ih vs h'
      cases hr : e.isReal
      · simpa [maskSel_cons, hr, EVal.unitReal] using this
      · by_cases h1 : rabs e.re < 1 + unitTol <;> by_cases h2 : 1 - unitTol < rabs e.re <;>
          simpa [maskSel_cons, hr, EVal.unitReal, h1, h2] using this

/-- THE DECISION of the translated `_axis_and_angle_of_rotation_3d`: `(None, None)` exactly when the number of real
eigenvalues of modulus one that `np.linalg.eig` reports is not one (the solver returns as many vectors as values) -/
theorem axis_angle3_src_decision (eig : Rows → List EVal × List (List Rat)) (sqrt : Rat → Rat) (rand : List Rat) (t : Tr)
    (hlen : (eig t.linRows).1.length = (eig t.linRows).2.length) :
    axisAngle3Src eig sqrt rand t = none ↔ ((eig t.linRows).1.filter EVal.unitReal).length ≠ 1 := by
  have hc : (axisCandidates eig t).length = ((eig t.linRows).1.filter EVal.unitReal).length := by
    unfold axisCandidates; exact candidates_count _ _ hlen
  unfold axisAngle3Src
  rw [hc]
  by_cases h1 : ((eig t.linRows).1.filter EVal.unitReal).length = 1 <;> simp [h1]

/-- for the spectrum `1, c ± i s` of a rotation the count is the model's `nRealUnitEigenvalues`: one away from the
identity and the half-turns, three there -/
theorem rotation_spectrum_count (c s : Rat) (h : c * c + s * s = 1) :
    ((rotationSpectrum c s).filter EVal.unitReal).length = nRealUnitEigenvalues c s := by
  have one : EVal.unitReal ⟨true, 1⟩ = true := by
    simp only [EVal.unitReal, rabs, unitTol]; norm_num
  unfold rotationSpectrum nRealUnitEigenvalues
  by_cases hs : s = 0
  · subst hs
    have hc : (c - 1) * (c + 1) = 0 := by linear_combination h
    have hcu : EVal.unitReal ⟨true, c⟩ = true := by
      rcases mul_eq_zero.mp hc with h1 | h1
      · have : c = 1 := by linarith
        subst this; exact one
      · have : c = -1 := by linarith
        subst this; simp only [EVal.unitReal, rabs, unitTol]; norm_num
    simp [List.filter, one, hcu]
  · have hf : EVal.unitReal ⟨false, c⟩ = false := by simp [EVal.unitReal]
    have hb : (s == 0) = false := by simpa using hs
    simp [List.filter, one, hb, hf]

/-- so, when the solver reports that spectrum IN ANY ORDER (numpy returns `[c+is, c−is, 1]` for a rotation about `x`;
the harness checks the multiset on every case), the translated recovery answers exactly away from the identity and the
half-turns — `axis_angle_3d_defined_iff` for the decision the SOURCE takes -/
theorem axis_angle3_src_defined_iff (eig : Rows → List EVal × List (List Rat)) (sqrt : Rat → Rat) (rand : List Rat) (t : Tr)
    (c s : Rat) (h : c * c + s * s = 1) (hspec : ((eig t.linRows).1).Perm (rotationSpectrum c s))
    (hlen : (eig t.linRows).2.length = 3) :
    axisAngle3Src eig sqrt rand t = none ↔ (s = 0 ∧ (c = 1 ∨ c = -1)) := by
  have hl : (eig t.linRows).1.length = (eig t.linRows).2.length := by rw [hspec.length_eq, hlen]; rfl
  rw [axis_angle3_src_decision eig sqrt rand t hl, (hspec.filter _).length_eq, rotation_spectrum_count c s h,
    ← axis_angle_3d_defined_iff c s h]
  unfold axisAngle3Defined
  cases hn : (nRealUnitEigenvalues c s == 1) <;> simp_all

/-- non-vacuity: numpy's order for a rotation about `x` (the conjugate pair first) satisfies the hypothesis -/
example : ([⟨false, 3/5⟩, ⟨false, 3/5⟩, ⟨true, 1⟩] : List EVal).Perm (rotationSpectrum (3/5) (4/5)) := by
  decide +kernel

/-! ### 3-D axis and angle: the computation after the decision -/

def V3.toL (v : V3) : List Rat := [v.x, v.y, v.z]

theorem dotL_toL (u v : V3) : dotL u.toL v.toL = u.dot v := by
  simp [dotL, V3.toL, V3.dot]; ring
theorem crossL_toL (u v : V3) : crossL u.toL v.toL = (u.cross v).toL := rfl
theorem vecSub_toL (u v : V3) : vecSub u.toL v.toL = (u.add v.neg).toL := by
  simp [vecSub, V3.toL, V3.add, V3.neg, sub_eq_add_neg]
theorem matVec_toL (cls : Cls) (m : Aff3) (v : V3) :
    matVec (Tr.homog cls (.a3 m)).linRows v.toL = (m.l.apply v).toL := by
  simp [matVec, Tr.linRows, V3.toL, Lin3.apply, dotL, V3.dot]
  refine ⟨?_, ?_, ?_⟩ <;> ring

/-- `v / np.sqrt((v ** 2).sum())` is the unit vector `v/|v|` for a square-root oracle that is exact on `v·v` -/
theorem normalize_spec (sqrt : Rat → Rat) (v : V3) (n : Rat) (h : sqrt (v.dot v) = n) (hn2 : n * n = v.dot v) (hn0 : n ≠ 0) :
    normalizeL sqrt v.toL = (V3.smul (1 / n) v).toL ∧ (V3.smul (1 / n) v).dot (V3.smul (1 / n) v) = 1 := by
  constructor
  · simp only [normalizeL, dotL_toL, h]
    simp only [V3.toL, List.map, V3.smul, List.cons.injEq, and_true]
    refine ⟨?_, ?_, ?_⟩ <;> field_simp
  · simp only [V3.dot, V3.smul] at hn2 ⊢
    field_simp
    linear_combination hn2.symm

/-- THE COMPUTATION of the translated recovery after the decision, for the rotation matrix `m`, the eigenvector `a0`
the solver returned and the random vector `r`: with `a` the normalised eigenvector and `p` the normalised
`a × (a − r)` (`normalize_spec`: unit vectors; `perpOf_spec`: `p ⊥ a`), the reported axis is `a` and the reported angle
is `arccos` of the cosine of the model's `axisAngle3 R a p`, negated exactly when the model's signed sine
`a · (p × R p)` is negative.  With `axis_angle_reconstructs_3d` (`R = rodrigues a c s`: cosine `c`, sine `s`) the
reported axis and angle reconstruct the rotation, sign included. -/
theorem axis_angle3_src_computation (sqrt : Rat → Rat) (cls : Cls) (m : Aff3) (a0 r a p : V3)
    (hA : normalizeL sqrt a0.toL = a.toL) (hP : normalizeL sqrt (perpOf a r).toL = p.toL) :
    axisAngle3After sqrt r.toL (.homog cls (.a3 m)) a0.toL =
      (a.toL, ⟨(axisAngle3 m.l.apply a p).1, decide ((axisAngle3 m.l.apply a p).2 < 0)⟩) := by
  have hperp : crossL a.toL (vecSub a.toL r.toL) = (perpOf a r).toL := by rw [vecSub_toL, crossL_toL]; rfl
  have hc : dotL (m.l.apply p).toL p.toL = (axisAngle3 m.l.apply a p).1 := by
    rw [dotL_toL]; simp only [axisAngle3, V3.dot]; ring
  have hs : dotL a.toL (crossL p.toL (m.l.apply p).toL) = (axisAngle3 m.l.apply a p).2 := by
    rw [crossL_toL, dotL_toL]; rfl
  simp only [axisAngle3After, hA, hperp, hP, matVec_toL, hc, hs]
  by_cases h : (axisAngle3 m.l.apply a p).2 < 0 <;> simp [h, ArcAngle.negate]

/-- the whole chain for the rotation by `(c, s)` about the unit axis `a` when the solver's eigenvector normalises to
`a`: the translated recovery reports the axis `a` and the angle whose cosine is `c`, negated exactly when `s < 0` -/
theorem axis_angle3_src_reconstructs (sqrt : Rat → Rat) (cls : Cls) (m : Aff3) (a0 r a p : V3) (c s : Rat)
    (hA : normalizeL sqrt a0.toL = a.toL) (hP : normalizeL sqrt (perpOf a r).toL = p.toL)
    (ha : a.dot a = 1) (hp : p.dot p = 1) (hap : a.dot p = 0) (hR : ∀ v, m.l.apply v = rodrigues a c s v) :
    axisAngle3After sqrt r.toL (.homog cls (.a3 m)) a0.toL = (a.toL, ⟨c, decide (s < 0)⟩) := by
  have hfun : m.l.apply = rodrigues a c s := funext hR
  rw [axis_angle3_src_computation sqrt cls m a0 r a p hA hP, hfun, (axis_angle_reconstructs_3d a p c s ha hp hap).1]

/-- the real number an `ArcAngle` stands for: `arccos` of its cosine, negated when the code multiplied by `-1.0` -/
noncomputable def ArcAngle.toReal (a : ArcAngle) : ℝ := if a.negated then -arccos (a.cos : ℝ) else arccos (a.cos : ℝ)

/-- the angle `⟨c, s < 0⟩` that `axis_angle3_src_reconstructs` shows the translated recovery reports IS the signed
angle: for `c = cos θ`, `s = sin θ` with `−π < θ < π` it denotes `θ` (at rational `c`, `s`: the model is over ℚ) -/
theorem arc_angle_denotes_signed_angle (c s : Rat) (θ : ℝ) (hc : (c : ℝ) = cos θ) (hs : (s : ℝ) = sin θ)
    (h1 : -π < θ) (h2 : θ < π) : (ArcAngle.mk c (decide (s < 0))).toReal = θ := by
  unfold ArcAngle.toReal
  by_cases hneg : s < 0
  · have hsR : sin θ < 0 := by rw [← hs]; exact_mod_cast hneg
    have hθ : θ < 0 := by
      by_contra hge
      have : 0 ≤ sin θ := sin_nonneg_of_nonneg_of_le_pi (not_lt.mp hge) h2.le
      linarith
    simp only [hneg, decide_true, if_true, hc]
    rw [← cos_neg, arccos_cos (by linarith) (by linarith)]; ring
  · have hsR : 0 ≤ sin θ := by rw [← hs]; exact_mod_cast (not_lt.mp hneg)
    have hθ : 0 ≤ θ := by
      by_contra hlt
      have : sin θ < 0 := sin_neg_of_neg_of_neg_pi_lt (not_le.mp hlt) h1
      linarith
    simp only [hneg, decide_false, Bool.false_eq_true, if_false, hc]
    exact arccos_cos hθ h2.le

/-- NO HISTORY: what the translated recovery reports depends on the rotation matrix the object holds NOW and on nothing
else — two objects with the same linear part (whatever their class, translation or previous life: built by a
constructor, brought there by `set_rotation_matrix`, `_from_vector_inplace` or an in-place composition) report the same
axis and angle (the translation itself shows that the source reads `self.rotation_matrix` only) -/
theorem axis_angle3_src_depends_on_matrix_only (eig : Rows → List EVal × List (List Rat)) (sqrt : Rat → Rat)
    (rand : List Rat) (t t' : Tr) (h : t.linRows = t'.linRows) :
    axisAngle3Src eig sqrt rand t = axisAngle3Src eig sqrt rand t' := by
  unfold axisAngle3Src axisCandidates axisAngle3After
  rw [h]

/-- the same for an object with a previous life: after `set_rotation_matrix(rows)` the report is that of a fresh
`Rotation(rows)` -/
theorem axis_angle3_after_set_rotation_matrix (eig : Rows → List EVal × List (List Rat)) (sqrt : Rat → Rat)
    (rand : List Rat) (c : Cls) (old : Aff3) (rows : Rows) (t fresh : Tr)
    (h1 : Tr.setRotationSkip (.homog c (.a3 old)) rows = .ok t) (h2 : Tr.rotationOfRows rows = .ok fresh) :
    axisAngle3Src eig sqrt rand t = axisAngle3Src eig sqrt rand fresh := by
  apply axis_angle3_src_depends_on_matrix_only
  unfold Tr.setRotationSkip at h1
  unfold Tr.rotationOfRows at h2
  cases hl : linOfRows rows with
  | none => simp [hl] at h2
  | some a =>
    cases a with
    | a2 r => simp [hl] at h1
    | a3 r =>
      simp only [hl, Except.ok.injEq] at h1 h2
      subst h1; subst h2
      rfl

/-- non-vacuity of the hypotheses: the quarter turn about `e₂`, the solver's vector `2 e₂`, the random vector `e₀` and
a square-root oracle that is exact on the two squared lengths (4 and 1) -/
example : ∃ (sqrt : Rat → Rat) (a0 r a p : V3),
    normalizeL sqrt a0.toL = a.toL ∧ normalizeL sqrt (perpOf a r).toL = p.toL ∧ a.dot a = 1 ∧ p.dot p = 1 ∧ a.dot p = 0 :=
  ⟨fun x => if x == 4 then 2 else 1, ⟨0, 0, 2⟩, ⟨1, 0, 0⟩, ⟨0, 0, 1⟩, ⟨0, -1, 0⟩, by decide +kernel⟩

end MenpoModel.C20
