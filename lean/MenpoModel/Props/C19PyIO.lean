/-
C19 — lemmas about the vocabulary of the translated `menpo/io/input/base.py` functions (Core/C19PyIO.lean): the loop
shapes the translator produces (`for … if …: yield` = filter; `while found is None and xs: found = g(xs.pop(0))` =
findSome?) and CPython's `l[:m]`.  Core Lean only.
-/
import MenpoModel.Core.C19PyIO
import MenpoModel.Props.C19Py

namespace MenpoModel.LazyList
open MenpoModel.PyData MenpoModel.Py

/-- a loop that appends the items passing a test is `filter` -/
theorem foldl_append_filter {α} (p : α → Bool) (body : List α → α → List α)
    (h : ∀ acc x, body acc x = if p x then acc ++ [x] else acc) (l init : List α) :
    l.foldl body init = init ++ l.filter p := by
  induction l generalizing init with
  | nil => simp
  | cons a t ih =>
    rw [List.foldl_cons, ih, h]
    by_cases hp : p a <;> simp [hp]

/-- the `while found is None and xs: found = g(xs.pop(0))` loop is `findSome?` -/
theorem whileG_findSome {α β} (g : α → Option β) (d : α) (cond : Option β × List α → Bool)
    (body : Option β × List α → Option β × List α)
    (hc : ∀ s, cond s = (s.1.isNone && !s.2.isEmpty)) (hb : ∀ s, body s = (g (s.2.headD d), s.2.tail))
    (l : List α) (k : Nat) :
    ∃ rest, whileG (l.length + 1 + k) (none, l) cond body = some (l.findSome? g, rest) := by
  induction l with
  | nil => exact ⟨[], by rw [show ([] : List α).length + 1 + k = k + 1 by simp; omega, whileG_succ]; simp [hc]⟩
  | cons a t ih =>
    rw [show (a :: t).length + 1 + k = (t.length + 1 + k) + 1 by simp; omega, whileG_succ]
    simp only [hc, hb, Option.isNone_none, List.isEmpty_cons, Bool.not_false, Bool.and_self, if_true,
      List.headD_cons, List.tail_cons, List.findSome?_cons]
    cases hg : g a with
    | none => simpa using ih
    | some b =>
      refine ⟨t, ?_⟩
      rw [show t.length + 1 + k = (t.length + k) + 1 by omega, whileG_succ]
      simp [hc]

theorem findSome?_dictGet (known : List Nat) (l : List Nat) :
    l.findSome? (Py.dictGet known) = l.find? (known.contains ·) := by
  induction l with
  | nil => rfl
  | cons a t ih =>
    simp only [List.findSome?_cons, List.find?_cons, Py.dictGet]
    by_cases h : a ∈ known
    · simp [h]
    · simp only [List.contains_eq_mem, h, decide_false]; simpa using ih

theorem gather_range {α} (l : List α) (k : Nat) : gather l (List.range k) = l.take k := by
  induction k with
  | zero => simp [gather]
  | succ n ih =>
    simp only [gather] at ih ⊢
    rw [List.range_succ, List.filterMap_append, ih, List.take_add_one]
    cases h : l[n]? <;> simp [h]

theorem arith_one_toNat (s : Nat) (n : Nat) : (arith (s : Int) 1 n).map Int.toNat = List.range' s n := by
  induction n generalizing s with
  | zero => rfl
  | succ m ih =>
    simp only [arith, List.map_cons, List.range'_succ]
    have := ih (s + 1)
    push_cast at this
    rw [this]; simp

/-- `l[:m]` for a positive `m` is the first `m` items -/
theorem sliceTo_pos {α} (l : List α) (m : Int) (hm : 0 < m) : Py.sliceTo l (some m) = l.take m.toNat := by
  unfold Py.sliceTo sliceIndices
  simp only [Option.getD_none, sliceStart, sliceStop, adjBound, sliceCount]
  have h1 : ¬ (m < 0) := by omega
  have h10 : ¬ ((1:Int) = 0) := by omega
  have h11 : ¬ ((1:Int) < 0) := by omega
  simp only [h1, h10, h11, if_false, decide_false, Bool.false_eq_true, Int.ediv_one]
  have key : ∀ k : Nat, gather l (List.map Int.toNat (arith 0 1 k)) = l.take k := by
    intro k
    have := arith_one_toNat 0 k
    simp only [Int.ofNat_zero] at this
    rw [this, List.range'_eq_map_range]
    simp [gather_range]
  by_cases hge : m ≥ (l.length : Int)
  · have hle : l.length ≤ m.toNat := by omega
    simp only [hge, if_true]
    rw [List.take_of_length_le hle]
    by_cases hl : (0 : Int) < l.length
    · have e : ((l.length : Int) - 0 - 1).toNat + 1 = l.length := by omega
      simp only [hl, if_true, e, key]; simp
    · have : l = [] := by cases l <;> simp_all
      subst this; simp [arith, gather]
  · simp only [hge, if_false, hm, if_true]
    have e : (m - 0 - 1).toNat + 1 = m.toNat := by omega
    rw [e, key]

theorem sliceTo_none {α} (l : List α) : Py.sliceTo l none = l := by
  have h := sliceTo_pos l (l.length + 1) (by omega)
  have e : Py.sliceTo l none = Py.sliceTo l (some ((l.length : Int) + 1)) := by
    unfold Py.sliceTo sliceIndices
    simp only [Option.getD_none, sliceStart, sliceStop, adjBound]
    have h1 : ¬ ((l.length : Int) + 1 < 0) := by omega
    have h2 : (l.length : Int) + 1 ≥ l.length := by omega
    simp [h1, h2]
  rw [e, h, List.take_of_length_le (by omega)]

end MenpoModel.LazyList

namespace MenpoModel.LazyList
open MenpoModel.PyData MenpoModel.Py

/-- … with the exact final state, as a rewrite rule (side goals: the two step equations) -/
theorem whileG_findSome_eq {α β} (g : α → Option β) (d : α) (cond : Option β × List α → Bool)
    (body : Option β × List α → Option β × List α)
    (hc : ∀ s, cond s = (s.1.isNone && !s.2.isEmpty)) (hb : ∀ s, body s = (g (s.2.headD d), s.2.tail))
    (l : List α) :
    whileG (l.length + 1) (none, l) cond body
      = some (l.findSome? g, (l.dropWhile fun a => (g a).isNone).tail) := by
  induction l with
  | nil => rw [show ([] : List α).length + 1 = 0 + 1 by simp, whileG_succ]; simp [hc]
  | cons a t ih =>
    rw [show (a :: t).length + 1 = (t.length + 1) + 1 by simp, whileG_succ]
    simp only [hc, hb, Option.isNone_none, List.isEmpty_cons, Bool.not_false, Bool.and_self, if_true,
      List.headD_cons, List.tail_cons, List.findSome?_cons, List.dropWhile_cons]
    cases hg : g a with
    | none => simpa using ih
    | some b => rw [whileG_succ]; simp [hc]

/-- `for k, x in enumerate(l): l[k] = g(x)` is `map g` (with the early-exit component the translator adds) -/
theorem foldl_enumerate_set_aux {α ε} (g : α → α) (body : Option ε × List α → Int × α → Option ε × List α)
    (hb : ∀ (l : List α) (k : Int) (x : α), body (none, l) (k, x) = (none, Py.listSet l k (g x)))
    (suf pre : List α) :
    ((suf.zipIdx pre.length).map fun p => ((p.2 : Int), p.1)).foldl body (none, pre.map g ++ suf)
      = (none, (pre ++ suf).map g) := by
  induction suf generalizing pre with
  | nil => simp
  | cons x t ih =>
    simp only [List.zipIdx_cons, List.map_cons, List.foldl_cons, hb, Py.listSet, Int.toNat_natCast]
    have hset : (List.map g pre ++ x :: t).set pre.length (g x) = List.map g (pre ++ [x]) ++ t := by
      rw [List.set_append_right _ _ (by simp)]
      simp
    rw [hset]
    have := ih (pre ++ [x])
    simp only [List.length_append, List.length_singleton, List.append_assoc, List.singleton_append] at this
    exact this

theorem foldl_enumerate_set {α ε} (g : α → α) (body : Option ε × List α → Int × α → Option ε × List α)
    (hb : ∀ (l : List α) (k : Int) (x : α), body (none, l) (k, x) = (none, Py.listSet l k (g x))) (l : List α) :
    (Py.enumerate l).foldl body (none, l) = (none, l.map g) := by
  have := foldl_enumerate_set_aux g body hb l []
  simpa [Py.enumerate] using this

end MenpoModel.LazyList
