/-
C19 — theorems about the vocabulary of the source translation (Core/C19Py.lean): the CPython primitives the
LazyList methods are built from, and the link between the translated methods' Core definitions
(`getitemFull`, `mapFull`, `repeatFull`, `addFull`, `initIterFull`, `initIndexFull`) and the program model
(`Prog.lazy`, `readAt`, the dispatch tables).  Core Lean only.
-/
import MenpoModel.Core.C19Py
import MenpoModel.Props.C19Base

namespace MenpoModel.LazyList
open MenpoModel.PyData

theorem flatten_replicate_singleton {α} (k : Nat) (a : α) : (List.replicate k [a]).flatten = List.replicate k a := by
  induction k with
  | zero => rfl
  | succ n ih => simp [List.replicate_succ, ih]

theorem minLen_replicate {α} (k : Nat) (cs : List α) : Py.minLen (List.replicate (k + 1) cs) = cs.length := by
  induction k with
  | zero => rfl
  | succ n ih =>
    rw [List.replicate_succ]
    cases hr : List.replicate (n + 1) cs with
    | nil => simp [List.replicate_succ] at hr
    | cons a t => simp only [Py.minLen]; rw [← hr, ih]; simp

theorem filterMap_getElem?_replicate {α} (k : Nat) (cs : List α) (i : Nat) :
    (List.replicate k cs).filterMap (·[i]?) = (match cs[i]? with | none => [] | some a => List.replicate k a) := by
  induction k with
  | zero => cases cs[i]? <;> rfl
  | succ n ih =>
    rw [List.replicate_succ, List.filterMap_cons]
    cases h : cs[i]? with
    | none => simp [h] at ih ⊢
    | some a => simp [h] at ih ⊢; simp [List.replicate_succ]

theorem map_range_getElem? {α β} (F : Option α → β) (l : List α) :
    (List.range l.length).map (fun i => F l[i]?) = l.map (fun a => F (some a)) := by
  apply List.ext_getElem
  · simp
  · intro i h1 h2
    simp at h1 h2 ⊢
    simp [List.getElem?_eq_getElem h2]

/-- `zip(*[cs] * k)` is, row by row, `k` copies of each element of `cs` -/
theorem zipStar_replicate {α} (k : Nat) (cs : List α) :
    Py.zipStar (List.replicate k cs) = if k = 0 then [] else cs.map (List.replicate k) := by
  cases k with
  | zero => simp [Py.zipStar, Py.minLen]
  | succ n =>
    simp only [Py.zipStar, minLen_replicate, filterMap_getElem?_replicate]
    have := map_range_getElem? (fun o => match o with | none => [] | some a => List.replicate (n + 1) a) cs
    simp only at this
    rw [this]
    simp

/-- PROPERTY (repeat, from the primitives): `list(chain(*zip(*[cs] * n)))` is every element `n` times, in order -/
theorem chain_zip_mul {α} (cs : List α) (n : Int) :
    Py.list (Py.chainStar (Py.zipStar (Py.listMul [cs] n))) = cs.flatMap (List.replicate n.toNat) := by
  simp only [Py.list, Py.chainStar, Py.listMul, flatten_replicate_singleton, zipStar_replicate]
  by_cases h : n.toNat = 0
  · simp [h]
  · simp [h, List.flatMap_def]

/-! ### the translated `__getitem__` and the program / read / dispatch models -/

theorem normIndex_lt (len : Nat) (i : Int) (j : Nat) (h : normIndex len i = some j) : j < len := by
  unfold normIndex at h
  by_cases hi : i < 0 <;> simp [hi] at h <;> omega

theorem listGetInt_eq (cs : List LThunk) (i : Int) :
    listGetInt cs i = match normIndex cs.length i with
      | none => .error .index
      | some j => match cs[j]? with | some t => .ok t | none => .error .index := rfl

/-- a comprehension of integer-like picks is `gather` of the resolved indices (first bad index: IndexError) -/
theorem seqE_listGetInt (cs : List LThunk) (l : List Int) :
    seqE (l.map (listGetInt cs)) = match optAll (l.map (normIndex cs.length)) with
      | some r => .ok (gather cs r)
      | none => .error .index := by
  induction l with
  | nil => rfl
  | cons i t ih =>
    simp only [List.map_cons]
    cases h : normIndex cs.length i with
    | none => simp [seqE, listGetInt, h, optAll]
    | some j =>
      have hj := normIndex_lt _ _ _ h
      have hget : cs[j]? = some cs[j] := List.getElem?_eq_getElem hj
      simp only [listGetInt, h, hget, seqE, ih, optAll]
      cases optAll (t.map (normIndex cs.length)) with
      | none => simp [mapE]
      | some r => simp [mapE, gather, hget]

/-- PROPERTY (fancy indexing, from the translated `__getitem__`): any iterable of integer-likes gives the new list of
exactly the picked callables — `Sel.ints` of the program model -/
theorem getitemFull_ints (s : LL) (arr : Bool) (l : List Int) :
    getitemFull s (GArg.ofInts arr l)
      = mapE (fun ts => GetRes.list ⟨ts⟩) (mapE (gather s.callables) ((Sel.ints l).resolve s.callables.length)) := by
  simp only [getitemFull, GArg.ofInts, Bool.not_false, Bool.and_self, if_true, List.map_map, Sel.resolve]
  have : (listGetIdx s.callables ∘ PyIdx.idx) = listGetInt s.callables := rfl
  rw [this, seqE_listGetInt]
  cases optAll (l.map (normIndex s.callables.length)) <;> rfl

/-- PROPERTY (slicing): a slice gives the new list of the callables CPython's slice arithmetic picks -/
theorem getitemFull_slice (s : LL) (a b c : Option Int) :
    getitemFull s (GArg.ofSlice a b c)
      = mapE (fun ts => GetRes.list ⟨ts⟩) (mapE (gather s.callables) ((Sel.slice a b c).resolve s.callables.length)) := by
  simp only [getitemFull, GArg.ofSlice, listGet, Sel.resolve]
  cases sliceIndices a b c s.callables.length <;> rfl

theorem getitemFull_sel (s : LL) (sel : Sel) :
    getitemFull s (GArg.ofSel sel)
      = mapE (fun ts => GetRes.list ⟨ts⟩) (mapE (gather s.callables) (sel.resolve s.callables.length)) := by
  cases sel with
  | ints l => exact getitemFull_ints s false l
  | slice a b c => exact getitemFull_slice s a b c

/-- PROPERTY (integer index): an int (negative allowed) evaluates exactly the callable CPython's list picks -/
theorem getitemFull_int (s : LL) (i : Int) :
    getitemFull s (GArg.ofInt i) = mapE GetRes.value (listGetInt s.callables i) := by
  simp only [getitemFull, GArg.ofInt, listGet]
  cases listGetInt s.callables i <;> rfl

/-- a numpy integer scalar and a 0-dimensional integer array (iterable by registration) index like the int -/
theorem getitemFull_npInt (s : LL) (zeroD : Bool) (i : Int) :
    getitemFull s (GArg.ofNpInt zeroD i) = getitemFull s (GArg.ofInt i) := by
  cases zeroD <;> simp [getitemFull, GArg.ofNpInt, GArg.ofInt]

/-- what `ll[i]` evaluates is `readAt` of the read model -/
theorem getitemFull_readAt (e : Env) (s : LL) (i : Int) :
    readAt e s.callables i = match getitemFull s (GArg.ofInt i) with
      | .ok (.value t) => (.ok (t.evalLog e).1, (t.evalLog e).2)
      | .ok (.list _) => (.error .type, [])
      | .error x => (.error x, []) := by
  rw [getitemFull_int, listGetInt_eq]
  unfold readAt
  cases normIndex s.callables.length i with
  | none => rfl
  | some j => cases h : s.callables[j]? <;> simp [h, mapE]

/-- the wrap branch of `__getitem__` never sees a single callable: nothing without `__index__` is an index -/
theorem getitem_wrap_never_elem (s : LL) (x : GArg) (hx : x.wf) (h : (x.isInt || x.hasIndex) = false) (t : LThunk) :
    listGet s.callables x.key ≠ .ok (.elem t) := by
  intro hk
  cases hkey : x.key with
  | idx i => have := hx.1 i hkey; simp [this] at h
  | slice a b c =>
    rw [hkey] at hk; simp only [listGet] at hk
    cases hs : sliceIndices a b c s.callables.length <;> simp [hs] at hk
  | other => rw [hkey] at hk; simp [listGet] at hk

/-- a new list or an error never evaluates: only `.value t` names a callable to run, and exactly one -/
def GetRes.evaluated : Except Err GetRes → Nat
  | .ok (.value _) => 1
  | _ => 0

theorem getitemFull_lazy (s : LL) (x : GArg) (h : (x.iterable && !x.zeroDim) = true ∨ (x.isInt || x.hasIndex) = false) :
    GetRes.evaluated (getitemFull s x) = 0 := by
  unfold getitemFull
  rcases h with h | h
  · simp only [h, if_true]
    cases seqE (x.items.map (listGetIdx s.callables)) <;> rfl
  · by_cases h1 : (x.iterable && !x.zeroDim) = true
    · simp only [h1, if_true]
      cases seqE (x.items.map (listGetIdx s.callables)) <;> rfl
    · simp only [h1, h, Bool.false_eq_true, if_false]
      cases listGet s.callables x.key with
      | error e => rfl
      | ok v => cases v <;> rfl

def classifyList : Except Err Item → ListAcc
  | .ok (.elem _) => .index
  | .ok (.sub _) => .slice
  | .error .type => .typeErr
  | .error .value => .valueErr
  | .error .index => .indexErr

def outcomeOfRes : Except Err GetRes → Outcome
  | .ok (.value _) => .element
  | .ok (.list _) => .newList
  | .error .type => .typeError
  | .error .value => .valueError
  | .error .index => .indexError

def isOk {α} : Except Err α → Bool
  | .ok _ => true
  | .error _ => false

def isIndexErr {α} : Except Err α → Bool
  | .error .index => true
  | _ => false

/-- the features of the dispatch tables (`Generated/C19Tables.lean`), computed from the argument and the list -/
def featOf (s : LL) (x : GArg) : GetFeat :=
  { iterable := x.iterable, isInt := x.isInt, hasIndex := x.hasIndex, zeroDim := x.zeroDim, iterRaises := false,
    itemsOk := isOk (seqE (x.items.map (listGetIdx s.callables))),
    itemsIndexErr := isIndexErr (seqE (x.items.map (listGetIdx s.callables))),
    listAcc := classifyList (listGet s.callables x.key) }

theorem seqE_listGetIdx_err (cs : List LThunk) (l : List PyIdx) (e : Err) (h : seqE (l.map (listGetIdx cs)) = .error e) :
    e = .index ∨ e = .type := by
  induction l with
  | nil => simp [seqE] at h
  | cons a t ih =>
    simp only [List.map_cons] at h
    cases ha : listGetIdx cs a with
    | error x =>
      rw [ha] at h; simp only [seqE, Except.error.injEq] at h; subst h
      cases a with
      | idx i =>
        simp only [listGetIdx, listGetInt] at ha
        cases hn : normIndex cs.length i with
        | none => simp [hn] at ha; exact Or.inl ha.symm
        | some j => cases hg : cs[j]? <;> simp [hn, hg] at ha; exact Or.inl ha.symm
      | other => simp [listGetIdx] at ha; exact Or.inr ha.symm
    | ok v =>
      rw [ha] at h; simp only [seqE] at h
      cases ht : seqE (t.map (listGetIdx cs)) with
      | error x => rw [ht] at h; simp [mapE] at h; subst h; exact ih ht
      | ok r => rw [ht] at h; simp [mapE] at h

/-- PROPERTY (dispatch): the translated `__getitem__` realises, for every list and every well-formed argument, the
outcome the regenerated decision table assigns to the argument's features (repaired tree) -/
theorem getitemFull_outcome (s : LL) (x : GArg) (hx : x.wf) :
    outcomeOfRes (getitemFull s x) = getitemRepaired (featOf s x) := by
  unfold getitemFull getitemRepaired featOf
  simp only []
  by_cases h1 : (x.iterable && !x.zeroDim) = true
  · simp only [h1, if_true, Bool.false_eq_true, if_false]
    cases hs : seqE (x.items.map (listGetIdx s.callables)) with
    | ok r => simp [isOk, mapE, outcomeOfRes]
    | error e =>
      rcases seqE_listGetIdx_err _ _ _ hs with rfl | rfl <;> simp [isOk, isIndexErr, mapE, outcomeOfRes]
  · simp only [h1, Bool.false_eq_true, if_false]
    by_cases h2 : (x.isInt || x.hasIndex) = true
    · simp only [h2, if_true]
      cases hk : listGet s.callables x.key with
      | error e => cases e <;> simp [Py.call, outcomeOfRes, classifyList, outcomeOfList]
      | ok v =>
        cases v with
        | elem t => simp [Py.call, outcomeOfRes, classifyList, outcomeOfList]
        | sub l =>
          exfalso
          cases hkey : x.key with
          | idx i => rw [hkey] at hk; simp only [listGet] at hk; cases hg : listGetInt s.callables i <;> simp [mapE, hg] at hk
          | slice a b c => have := hx.2 a b c hkey; simp [this] at h2
          | other => rw [hkey] at hk; simp [listGet] at hk
    · have h2' : (x.isInt || x.hasIndex) = false := by simpa using h2
      simp only [h2', Bool.false_eq_true, if_false]
      cases hk : listGet s.callables x.key with
      | error e => cases e <;> simp [outcomeOfRes, classifyList, outcomeOfList]
      | ok v =>
        cases v with
        | elem t => exact absurd hk (getitem_wrap_never_elem s x hx h2' t)
        | sub l => simp [outcomeOfRes, classifyList, outcomeOfList]

/-- the arguments the property quantifies over are well-formed -/
theorem GArg.ofInt_wf (i : Int) : (GArg.ofInt i).wf := ⟨fun _ _ => rfl, fun _ _ _ h => by simp [GArg.ofInt] at h⟩
theorem GArg.ofInts_wf (arr : Bool) (l : List Int) : (GArg.ofInts arr l).wf :=
  ⟨fun _ h => by simp [GArg.ofInts] at h, fun _ _ _ h => by simp [GArg.ofInts] at h⟩
theorem GArg.ofSlice_wf (a b c : Option Int) : (GArg.ofSlice a b c).wf :=
  ⟨fun _ h => by simp [GArg.ofSlice] at h, fun _ _ _ _ => ⟨rfl, rfl⟩⟩
theorem GArg.ofNpInt_wf (z : Bool) (i : Int) : (GArg.ofNpInt z i).wf :=
  ⟨fun _ _ => rfl, fun _ _ _ h => by simp [GArg.ofNpInt] at h⟩

/-! ### `map`, `+` -/

theorem mapFull_single (s : LL) (f : Nat) : mapFull s (MArg.single f) = .ok ⟨s.callables.map (.app f)⟩ := rfl

theorem mapFull_list (s : LL) (fs : List Nat) :
    mapFull s (MArg.ofList fs)
      = if fs.length = s.callables.length then .ok ⟨List.zipWith LThunk.app fs s.callables⟩ else .error .value := rfl

def mapFeat (s : LL) (f : MArg) : MapFeat :=
  { iterable := f.iterable, callable := f.callable, hasLen := f.len.isSome,
    lenMatches := decide (f.len = some s.callables.length) }

/-- PROPERTY (dispatch of `map`): the translated `map` does what the regenerated decision table says -/
theorem mapFull_dispatch (s : LL) (f : MArg) :
    mapFull s f = match mapCoded (mapFeat s f) with
      | .each => .ok ⟨List.zipWith LThunk.app f.fns s.callables⟩
      | .single => .ok ⟨s.callables.map (.app f.fn)⟩
      | .valueError => .error .value
      | .typeError => .error .type := by
  unfold mapFull mapCoded mapFeat
  cases f.iterable <;> cases f.callable <;> simp
  cases hl : f.len with
  | none => simp
  | some n => by_cases hn : n = s.callables.length <;> simp [hn]

/-- PROPERTY (dispatch of `+`) -/
theorem addFull_dispatch (s : LL) (o : AArg) :
    addFull s o = match addCoded ⟨o.isLazy, o.iterable⟩ with
      | .concat => .ok ⟨s.callables ++ o.callables⟩
      | .wrap => .ok ⟨s.callables ++ o.items.map .const⟩
      | .valueError => .error .value := by
  unfold addFull addCoded
  cases o.isLazy <;> cases o.iterable <;> rfl

/-- (not a property theorem: `rfl` — the content is the TYPE of the operations) no operation evaluates anything: the translated constructors and operations return thunk TERMS and take no
`Env`; only `GetRes.value t` (an integer-like index) hands a callable to the caller to run, `genDelayed` being what
running an `app` means -/
theorem ops_construct_only (s : LL) (f : MArg) (n : Int) (o : AArg) (e₁ e₂ : Env) :
    (fun (_ : Env) => (mapFull s f, repeatFull s n, addFull s o, copyFull s)) e₁
      = (fun (_ : Env) => (mapFull s f, repeatFull s n, addFull s o, copyFull s)) e₂ := rfl

example : getitemFull ⟨[.base 0 0, .base 0 1, .base 0 2]⟩ (GArg.ofInts true [-1, 0]) = .ok (.list ⟨[.base 0 2, .base 0 0]⟩) := by rfl
example : getitemFull ⟨[.base 0 0, .base 0 1, .base 0 2]⟩ (GArg.ofNpInt true 1) = .ok (.value (.base 0 1)) := by rfl
example : getitemFull ⟨[.base 0 0, .base 0 1, .base 0 2]⟩ (GArg.ofSlice none none (some (-2))) = .ok (.list ⟨[.base 0 2, .base 0 0]⟩) := by rfl
example : getitemFull ⟨[.base 0 0]⟩ (GArg.ofInts false [1]) = .error .index := by rfl
example : mapFull ⟨[.base 0 0, .base 0 1]⟩ (MArg.ofList [3]) = .error .value := by rfl

end MenpoModel.LazyList
