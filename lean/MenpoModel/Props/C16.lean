/-
C16 — export then import returns the same data; files are never clobbered unasked.  Property theorems.

Clauses of the property and the theorems that cover them
  LJSON (coordinates incl. missing, undirected edges, labels in order, group names)
        ljson_roundtrip, ljson_group_content, ljson_group_names, ljson_edges_stable, ljson_cycle_fixed_point,
        ljson_version_dispatch; the guards of the quantifier are shown necessary by
        ljson_empty_points_error, ljson_other_dims_dropped
  points format within three decimals      pts_roundtrip_3dp, pts_roundtrip_exact; any dimension / NaN (Props/C16PtsN.lean):
                                           ptsN_roundtrip, ptsN_drops_higher_axes, ptsN_extends_2d
  eight-bit data unchanged                 u8_roundtrip_round (repaired code), u8_trunc_failures /
                                           u8_trunc_off_by_one / u8_trunc_refuted (code as it stands: REFUTED)
  sixteen-bit data, any bit depth ≤ 16     (Props/C16Soft.lean) range_roundtrip_of_rounding, range_roundtrip_round,
                                           u16_roundtrip_round, u8_roundtrip_round_arith, u16_trunc_refuted, rn53_err
  float data < one quantisation level      float_export_error_lt_one_level, channel_layout_roundtrip
  overwrite guard, every exporter/spelling export_guard_refuses, export_guard_history, export_guard_frame,
                                           export_guard_spelling, normpath_redundant_spellings,
                                           normpath_fixed, extension_parse_longest_known
  LJSON versions 1 and 2 (import only)     (Props/C16Legacy.lean) ljson_import_wellformed, ljson_legacy_wellformed,
                                           ljson_v2_reads_v3_group, ljson_v2_edges_need_labels,
                                           ljson_version_dispatch_legacy
  multi-dot names, format + compression    (Props/C16Ext.lean) export_import_agree, decisions_agree_of_tables,
                                           export_reader_matches, pickle_compressed_iff_name_ends_gz,
                                           pickle_extension_cases, tables_ok, exporterTable_keys
  guard as a file-system invariant, ~ / $VAR spellings     (Props/C16Paths.lean) export_history_final,
                                           export_history_never_clobbers, export_accepted_changes_only_target,
                                           export_refused_changes_nothing, expand_noop, expandUser_home,
                                           coded_eq_repaired, runHistoryCoded_eq; the code until fix adfd5d8 REFUTED for
                                           one spelling: video_str_tilde_clobbers, coded_guard_refuted
  pickle                                   (Props/C16Pickle.lean) what menpo does around the serialiser: pickle_roundtrip_object,
                                           pickle_state_equal, purify_idem, purify_noop, pickle_roundtrip_dict,
                                           pickle_roundtrip_list, pickle_singleton_list_unwrapped, hook_restored; which
                                           opener / importer: export_import_agree.  pickle.dump/load and gzip themselves
                                           are a contract (the tree written is the tree read), decided by the
                                           state-equality oracle on real files — PARTIAL in that sense
-/
import MenpoModel.Lemmas.C16Ljson
import MenpoModel.Lemmas.C16Guard
import MenpoModel.Lemmas.C16Float
import MenpoModel.Lemmas.C16Num
import MenpoModel.Props.C16Ext
import MenpoModel.Props.C16Legacy
import MenpoModel.Props.C16Soft
import MenpoModel.Props.C16Paths
import MenpoModel.Props.C16PtsN
import MenpoModel.Props.C16Pickle

namespace MenpoModel.C16

/-! ## LJSON -/

/-- PROPERTY (LJSON).  For every dictionary of landmark groups (each with n ≥ 1 points in 2-D or 3-D, NaN
coordinates allowed, any edge list and any ordered label dictionary inside the point set), importing the
exported document succeeds and returns, in the file's (sorted) key order, every group with identical
coordinates (missing values included), the symmetrised edge set, and the same labels in the same order. -/
theorem ljson_roundtrip (gs : List (String × Shape)) (h : ∀ g ∈ gs, g.2.WF) :
    decodeDoc (encodeDoc gs) = .ok ((sortGroups gs).map fun g => (g.1, expectedImport g.2)) := by
  have hs : ∀ g ∈ sortGroups gs, g.2.WF := fun g hg => h g ((sortGroups_perm gs).mem_iff.1 hg)
  have := decodeGroups_encode (sortGroups gs) hs
  simp only [decodeDoc, encodeDoc, get_version, get_groups, jNat]
  simpa using this

/-- the same group names come back (as a set with multiplicity: a permutation) -/
theorem ljson_group_names (gs : List (String × Shape)) (h : ∀ g ∈ gs, g.2.WF) :
    ∃ r, decodeDoc (encodeDoc gs) = .ok r ∧ (r.map Prod.fst).Perm (gs.map Prod.fst) := by
  refine ⟨_, ljson_roundtrip gs h, ?_⟩
  simp only [List.map_map]
  exact (sortGroups_perm gs).map _

/-- every exported group is found again under its name with identical coordinates, identical ordered
labels, the class chosen by the presence of labels, and exactly the undirected edges of the source -/
theorem ljson_group_content (gs : List (String × Shape)) (h : ∀ g ∈ gs, g.2.WF) (name : String) (s : Shape)
    (hm : (name, s) ∈ gs) :
    ∃ r i, decodeDoc (encodeDoc gs) = .ok r ∧ (name, i) ∈ r ∧ i.points = s.points ∧ i.labels = s.labels ∧
      (i.cls = .lpug ↔ s.labels ≠ []) ∧
      ∀ a b, (a, b) ∈ i.edges ↔ a ≤ b ∧ ((a, b) ∈ s.conn.getD [] ∨ (b, a) ∈ s.conn.getD []) := by
  refine ⟨_, expectedImport s, ljson_roundtrip gs h, ?_, rfl, rfl, ?_, ?_⟩
  · simp only [List.mem_map]
    exact ⟨(name, s), (sortGroups_perm gs).mem_iff.2 hm, rfl⟩
  · cases hl : s.labels <;> simp [expectedImport, hl]
  · intro a b
    have hc := (h (name, s) hm).2.2.1
    simp only [expectedImport, mem_symEdges]
    constructor
    · rintro ⟨_, _, hab, he⟩; exact ⟨hab, he⟩
    · rintro ⟨hab, he⟩
      rcases he with he | he
      · exact ⟨(hc _ he).1, (hc _ he).2, hab, Or.inl he⟩
      · exact ⟨(hc _ he).2, (hc _ he).1, hab, Or.inr he⟩

theorem symEdges_congr (n : Nat) (c c' : List (Nat × Nat))
    (h : ∀ i j, i < n → j < n → i ≤ j → adjSym c i j = adjSym c' i j) : symEdges n c = symEdges n c' := by
  unfold symEdges
  rw [List.flatMap_def, List.flatMap_def]
  congr 1
  apply List.map_congr_left
  intro i hi
  congr 1
  apply List.filter_congr
  intro j hj
  by_cases hij : i ≤ j
  · simp [hij, h i j (List.mem_range.1 hi) (List.mem_range.1 hj) hij]
  · simp [hij]

/-- an undirected shape (its edge list is already `symEdges` of something) re-imports with exactly its
edge list: importing is idempotent on edges -/
theorem ljson_edges_stable (n : Nat) (c : List (Nat × Nat)) : symEdges n (symEdges n c) = symEdges n c := by
  apply symEdges_congr
  intro i j hi hj hij
  rw [Bool.eq_iff_iff, adjSym_iff, adjSym_iff]
  constructor
  · rintro (h | h)
    · exact ((mem_symEdges n c i j).1 h).2.2.2
    · exact ((mem_symEdges n c j i).1 h).2.2.2.symm
  · intro h
    exact Or.inl ((mem_symEdges n c i j).2 ⟨hi, hj, hij, h⟩)

/-- version dispatch: anything but 1, 2, 3 is refused -/
theorem ljson_version_dispatch (v : Rat) (g : Json) (h : v ≠ 1 ∧ v ≠ 2 ∧ v ≠ 3) :
    decodeDoc (.obj [(.groups, g), (.version, .num v)]) = .error .unknownVersion := by
  simp [decodeDoc, h.1, h.2.1, h.2.2]

/-- outside the quantifier, modelled as the error it is: a group without points is written as `[]` and the
importer raises (IndexError on `points_list[0]`) -/
theorem ljson_empty_points_error (name : String) (c : Option (List (Nat × Nat))) :
    decodeDoc (encodeDoc [(name, ⟨[], c, []⟩)]) = .error .emptyPoints := by
  cases c <;>
    simp [decodeDoc, encodeDoc, sortGroups, jNat, decodeGroups, decodeGroup, encodeGroup, exportPoints, decPoints,
      mapE]

/-- outside the quantifier: the exporter silently drops the coordinates of a group that is neither 2-D nor
3-D (here one 4-D point), so such a file cannot be imported -/
theorem ljson_other_dims_dropped (name : String) (a b c d : Rat) :
    decodeDoc (encodeDoc [(name, ⟨[[some a, some b, some c, some d]], none, []⟩)]) = .error .emptyPoints := by
  simp [decodeDoc, encodeDoc, sortGroups, jNat, decodeGroups, decodeGroup, encodeGroup, exportPoints, decPoints,
    mapE]

/-! ### repeated cycles: the first import is a fixed point -/

/-- what `tojson` of an imported group sees when that group is exported again (`connectivity` = its `.edges`) -/
def reexport (i : Imported) : Shape := { points := i.points, conn := some i.edges, labels := i.labels }

theorem reexport_wf (s : Shape) (h : s.WF) : (reexport (expectedImport s)).WF := by
  obtain ⟨hne, hd, _, hl⟩ := h
  refine ⟨hne, hd, ?_, hl⟩
  intro e he
  have := (mem_symEdges s.points.length (s.conn.getD []) e.1 e.2).1 (by simpa [reexport, expectedImport] using he)
  exact ⟨this.1, this.2.1⟩

theorem expectedImport_reexport (s : Shape) : expectedImport (reexport (expectedImport s)) = expectedImport s := by
  simp [expectedImport, reexport, ljson_edges_stable]

/-- the first import of a document, and the dictionary handed to the exporter when it is exported again -/
def importOf (gs : List (String × Shape)) : List (String × Imported) :=
  (sortGroups gs).map fun g => (g.1, expectedImport g.2)
def reexportAll (r : List (String × Imported)) : List (String × Shape) := r.map fun g => (g.1, reexport g.2)

theorem sortGroups_sorted {α} (gs : List (String × α)) :
    (sortGroups gs).Pairwise fun a b => decide (a.1 ≤ b.1) = true := by
  apply List.pairwise_mergeSort
  · intro a b c h1 h2
    simp only [decide_eq_true_eq] at h1 h2 ⊢
    exact String.le_trans h1 h2
  · intro a b
    simp only [Bool.or_eq_true, decide_eq_true_eq]
    exact String.le_total a.1 b.1

theorem sortGroups_idem_map {α β} (gs : List (String × α)) (f : α → β) :
    sortGroups ((sortGroups gs).map fun g => (g.1, f g.2)) = (sortGroups gs).map fun g => (g.1, f g.2) := by
  unfold sortGroups
  apply List.mergeSort_of_pairwise
  rw [List.pairwise_map]
  exact sortGroups_sorted gs

/-- PROPERTY (LJSON, any number of cycles).  After the first export → import, every further export → import returns
exactly what the first import returned: same group order, coordinates, edge lists, ordered labels, classes. -/
theorem ljson_cycle_fixed_point (gs : List (String × Shape)) (h : ∀ g ∈ gs, g.2.WF) :
    decodeDoc (encodeDoc gs) = .ok (importOf gs) ∧
    decodeDoc (encodeDoc (reexportAll (importOf gs))) = .ok (importOf gs) ∧
    ∀ n, Nat.iterate (fun r => importOf (reexportAll r)) n (importOf gs) = importOf gs := by
  have hstep : importOf (reexportAll (importOf gs)) = importOf gs := by
    unfold importOf reexportAll
    rw [List.map_map]
    have := sortGroups_idem_map gs (fun s => reexport (expectedImport s))
    simp only [Function.comp_def] at this ⊢
    rw [this, List.map_map]
    apply List.map_congr_left
    intro g _
    simp only [Function.comp_def, expectedImport_reexport]
  have hwf : ∀ g ∈ reexportAll (importOf gs), g.2.WF := by
    intro g hg
    simp only [reexportAll, importOf, List.map_map, List.mem_map] at hg
    obtain ⟨x, hx, rfl⟩ := hg
    exact reexport_wf x.2 (h x ((sortGroups_perm gs).mem_iff.1 hx))
  refine ⟨ljson_roundtrip gs h, ?_, ?_⟩
  · have := ljson_roundtrip (reexportAll (importOf gs)) hwf
    rw [this]
    congr 1
  · intro n
    induction n with
    | zero => rfl
    | succ n ih => rw [Nat.iterate, hstep, ih]

/-! ## points format -/

/-- PROPERTY (PTS).  Export then import returns as many points, in menpo's axis order, each coordinate
within half a unit of the third decimal. -/
theorem pts_roundtrip_3dp (pts : List (Rat × Rat)) :
    (ptsRoundTrip pts).length = pts.length ∧
    ∀ i (h : i < pts.length), ∀ h' : i < (ptsRoundTrip pts).length,
      |((ptsRoundTrip pts)[i]'h').1 - (pts[i]'h).1| ≤ 1 / 2000 ∧
      |((ptsRoundTrip pts)[i]'h').2 - (pts[i]'h).2| ≤ 1 / 2000 := by
  refine ⟨by simp [ptsRoundTrip], ?_⟩
  intro i h h'
  simp only [ptsRoundTrip, List.getElem_map, ptsImport, ptsExport]
  have e1 := fmt3_err ((pts[i]'h).1 + 1)
  have e2 := fmt3_err ((pts[i]'h).2 + 1)
  constructor
  · have : fmt3 ((pts[i]'h).1 + 1) - 1 - (pts[i]'h).1 = fmt3 ((pts[i]'h).1 + 1) - ((pts[i]'h).1 + 1) := by ring
    rw [this]; exact e1
  · have : fmt3 ((pts[i]'h).2 + 1) - 1 - (pts[i]'h).2 = fmt3 ((pts[i]'h).2 + 1) - ((pts[i]'h).2 + 1) := by ring
    rw [this]; exact e2

/-- coordinates that have at most three decimals come back exactly -/
theorem pts_roundtrip_exact (y x : ℤ) :
    ptsImport (ptsExport ((y : ℚ) / 1000, (x : ℚ) / 1000)) = ((y : ℚ) / 1000, (x : ℚ) / 1000) := by
  have hy : (y : ℚ) / 1000 + 1 = ((y + 1000 : ℤ) : ℚ) / 1000 := by push_cast; ring
  have hx : (x : ℚ) / 1000 + 1 = ((x + 1000 : ℤ) : ℚ) / 1000 := by push_cast; ring
  simp only [ptsImport, ptsExport, hy, hx, fmt3_exact]
  apply Prod.ext <;> (push_cast; ring)

/-! ## image data -/

/-- PROPERTY (float images).  A pixel `x ∈ [0, 1]` is stored as a level in `0..255` and re-imported within
less than one quantisation level of `x` — for the conversion as coded (truncation) and as repaired (rounding,
then even within half a level). -/
theorem float_export_error_lt_one_level (x : ℚ) (h0 : 0 ≤ x) (h1 : x ≤ 1) :
    (0 ≤ quantTrunc x ∧ quantTrunc x ≤ 255 ∧ |renorm (quantTrunc x) - x| < 1 / 255) ∧
    (0 ≤ quantRound x ∧ quantRound x ≤ 255 ∧ |renorm (quantRound x) - x| ≤ 1 / 510) := by
  refine ⟨⟨(quantTrunc_range x h0 h1).1, (quantTrunc_range x h0 h1).2, ?_⟩,
          ⟨(quantRound_range x h0 h1).1, (quantRound_range x h0 h1).2, quantRound_err x⟩⟩
  have := quantTrunc_err x
  rw [abs_lt]; constructor <;> linarith [this.1, this.2]

/-- exported channel layout and imported channel layout are inverse index maps; greyscale and RGB are the
only exportable channel counts -/
theorem channel_layout_roundtrip {α} (img : Nat → Nat → Nat → α) :
    toFront (toBack img) = img ∧ pilMode 1 2 = some .L ∧ pilMode 3 2 = some .RGB ∧
    (∀ c, c ≠ 1 → c ≠ 3 → pilMode c 2 = none) := by
  refine ⟨rfl, rfl, rfl, ?_⟩
  intro c h1 h3
  simp [pilMode, h1, h3]

/-! ## overwrite guard -/

/-- PROPERTY (guard, one export).  An export is refused with `OverwriteError` exactly when the normalised path
exists and overwriting was not requested — whatever the exporter kind, the extension, the spelling — and a
refused (or otherwise failed) export leaves the whole file system as it was. -/
theorem export_guard_refuses (env : Env) (cwd : Path) (fs : FS) (op : Op) :
    ((export1 env cwd fs op).1 = .overwriteError ↔
        ((fs (normPath env cwd op.spelling)).isSome = true ∧ op.overwrite = false)) ∧
    ((export1 env cwd fs op).1 ≠ .written → (export1 env cwd fs op).2 = fs) :=
  ⟨exportAt_overwriteError_iff _ _ _ _ _ _, exportAt_fs_of_not_written _ _ _ _ _ _⟩

/-- PROPERTY (guard, every history).  Take any sequence of exports of any kinds and spellings.  A file that
exists and is never targeted with `overwrite=True` still holds its original bytes at the end, and every
export that targeted it was answered with `OverwriteError`. -/
theorem export_guard_history (env : Env) (cwd p : Path) (v : Nat) :
    ∀ (ops : List Op) (fs : FS), fs p = some v →
      (∀ op ∈ ops, normPath env cwd op.spelling = p → op.overwrite = false) →
      (runHistory env cwd fs ops).2 p = some v ∧
      ∀ x ∈ ops.zip (runHistory env cwd fs ops).1, normPath env cwd x.1.spelling = p → x.2 = .overwriteError := by
  intro ops
  induction ops with
  | nil => intro fs hv _; exact ⟨hv, by simp [runHistory]⟩
  | cons op t ih =>
    intro fs hv hno
    have hkeep : (export1 env cwd fs op).2 p = some v :=
      exportAt_keeps fs _ p op.kind op.userExt op.overwrite op.content v hv
        (fun hp => hno op (by simp) hp.symm)
    obtain ⟨ih1, ih2⟩ := ih (export1 env cwd fs op).2 hkeep (fun o ho => hno o (by simp [ho]))
    refine ⟨ih1, ?_⟩
    intro x hx hp
    simp only [runHistory, List.zip_cons_cons, List.mem_cons] at hx
    rcases hx with hx | hx
    · subst hx
      have how : op.overwrite = false := hno op (by simp) hp
      show (exportAt fs (normPath env cwd op.spelling) op.kind op.userExt op.overwrite op.content).1 = _
      rw [how, hp, exportAt_refused fs p op.kind op.userExt op.content (by simp [hv])]
    · exact ih2 x hx hp

/-- a path no export of the history targets is not touched -/
theorem export_guard_frame (env : Env) (cwd q : Path) :
    ∀ (ops : List Op) (fs : FS), (∀ op ∈ ops, normPath env cwd op.spelling ≠ q) →
      (runHistory env cwd fs ops).2 q = fs q := by
  intro ops
  induction ops with
  | nil => intro fs _; rfl
  | cons op t ih =>
    intro fs h
    have h1 : (export1 env cwd fs op).2 q = fs q :=
      exportAt_frame fs _ q op.kind op.userExt op.overwrite op.content (fun e => h op (by simp) e.symm)
    simp only [runHistory]
    rw [ih _ (fun o ho => h o (by simp [ho])), h1]

/-- two spellings that normalise to the same path are the same export -/
theorem export_guard_spelling (env : Env) (cwd : Path) (fs : FS) (op : Op) (s' : List Char)
    (h : normPath env cwd s' = normPath env cwd op.spelling) :
    export1 env cwd fs { op with spelling := s' } = export1 env cwd fs op := by
  simp only [export1, h]

/-- redundant spellings: empty components (`a//b`, trailing `/`), `.` components and `x/..` detours do not
change the normalised path -/
theorem normpath_redundant_spellings (a b : List Comp) (x : Comp) (hx : Proper x) :
    normAbs (a ++ [] :: b) = normAbs (a ++ b) ∧ normAbs (a ++ ['.'] :: b) = normAbs (a ++ b) ∧
    normAbs (a ++ x :: ['.', '.'] :: b) = normAbs (a ++ b) := by
  simp only [normAbs_append, List.foldl_cons, normStep_empty, normStep_dot, normStep_dotdot,
    normStep_proper _ x hx, List.tail_cons, and_self]

/-- a normalised absolute path is its own normal form (so `str`/`Path`, relative/absolute spellings of one
file meet in one key of the file system) -/
theorem normpath_fixed (p : List Comp) (h : ∀ c ∈ p, Proper c) : normAbs p = p := normAbs_fixed p h

/-- PROPERTY (extension parsing, multi-dot names).  The extension chosen is known to the exporter map, is one of
the suffix joins of the file name, and is the longest such; no known join ⇒ refused. -/
theorem extension_parse_longest_known (known : List (List Char)) (name : List Char) :
    (∀ e, parseExt known name = some e →
        e ∈ known ∧ e ∈ candidates (suffixes name) ∧
        ∀ c ∈ candidates (suffixes name), c ∈ known → c.length ≤ e.length) ∧
    (parseExt known name = none ↔ ∀ c ∈ candidates (suffixes name), c ∉ known) := by
  constructor
  · intro e he
    unfold parseExt at he
    obtain ⟨hk, pre, suf, hsplit, hpre⟩ := List.find?_eq_some_iff_append.1 he
    have hdec := candidates_decreasing (suffixes name) (suffixes_nonempty name)
    refine ⟨by simpa using hk, by simp [hsplit], ?_⟩
    intro c hc hck
    rw [hsplit] at hc hdec
    simp only [List.mem_append, List.mem_cons] at hc
    rcases hc with hc | hc | hc
    · have := hpre c hc; simp [hck] at this
    · subst hc; exact Nat.le_refl _
    · have := (List.pairwise_append.1 hdec).2.1
      exact Nat.le_of_lt ((List.pairwise_cons.1 this).1 c hc)
  · simp [parseExt, List.find?_eq_none]

/-! ## non-vacuity: the hypotheses are satisfiable on concrete, non-trivial values -/

/-- a 2-D labelled graph with a missing coordinate, a directed-looking edge list and two ordered labels -/
def exShape : Shape :=
  { points := [[some (1/2), none], [some 3, some (-7/4)], [some 0, some 5]],
    conn := some [(2, 0), (0, 1), (1, 0)],
    labels := [("zeta", [true, true, false]), ("alpha", [false, false, true])] }

/-- a 3-D plain point cloud -/
def exCloud : Shape := { points := [[some 1, some 2, none], [some 4, some 5, some 6]], conn := none, labels := [] }

example : exShape.WF := by
  refine ⟨by decide, ⟨2, Or.inl rfl, by decide⟩, by decide, by decide⟩

example : exCloud.WF := by
  refine ⟨by decide, ⟨3, Or.inr rfl, by decide⟩, by decide, by decide⟩

example : (expectedImport exShape).edges = [(0, 1), (0, 2)] := by decide
example : (expectedImport exShape).cls = .lpug ∧ (expectedImport exCloud).cls = .pug := by decide

example : fmt3 (1/16) = 62/1000 ∧ fmt3 (3/16) = 188/1000 := by
  constructor <;> decide +kernel

example : (denormTrunc (norm8 33)).toNat = 32 ∧ (denormRound (norm8 33)).toNat = 33 := by decide +kernel

example : quantTrunc (1/2) = 127 ∧ quantRound (1/2) = 128 := by
  constructor <;> decide +kernel

/-- `a.b.pkl.gz` is a gzipped pickle, `a.b.pkl` a plain one, `notes.txt` is refused -/
example : parseExt (knownExts .pickle) "a.b.pkl.gz".toList = some ".pkl.gz".toList ∧
    parseExt (knownExts .pickle) "a.b.PKL".toList = some ".pkl".toList ∧
    parseExt (knownExts .pickle) "notes.txt".toList = none := by decide +kernel

/-- an environment: `HOME` (with a trailing slash, which `expanduser` strips) and one more variable -/
def exEnv : Env := ⟨[("HOME".toList, "/h/me/".toList), ("OUT".toList, "tmp/d".toList)]⟩

/-- `str`/`Path`, relative and absolute, with detours, through `~` and through a variable: one file -/
example : normPath exEnv ["tmp".toList, "d".toList] "x/../a.b.ljson".toList = ["tmp".toList, "d".toList, "a.b.ljson".toList] ∧
    normPath exEnv ["tmp".toList, "d".toList] "/tmp//d/./a.b.ljson".toList = ["tmp".toList, "d".toList, "a.b.ljson".toList] ∧
    normPath exEnv ["tmp".toList, "d".toList] "/$OUT/a.b.ljson".toList = ["tmp".toList, "d".toList, "a.b.ljson".toList] ∧
    normPath exEnv ["tmp".toList, "d".toList] "/${OUT}/x/../a.b.ljson".toList = ["tmp".toList, "d".toList, "a.b.ljson".toList] ∧
    normPath exEnv ["tmp".toList, "d".toList] "~/../../tmp/d/a.b.ljson".toList = ["tmp".toList, "d".toList, "a.b.ljson".toList] ∧
    normPath exEnv ["tmp".toList, "d".toList] "~/a.pkl".toList = ["h".toList, "me".toList, "a.pkl".toList] ∧
    normPath exEnv ["tmp".toList, "d".toList] "~nobody/$UNSET/a.pkl".toList =
      ["tmp".toList, "d".toList, "~nobody".toList, "$UNSET".toList, "a.pkl".toList] := by
  decide +kernel

/-- a history: write, refused rewrite through another spelling, overwrite, unknown extension -/
example :
    (runHistory exEnv ["d".toList] (fun _ => none)
      [⟨.pickle, "m.pkl".toList, none, false, 1, true⟩, ⟨.pickle, "/d/./m.pkl".toList, none, false, 2, false⟩,
       ⟨.pickle, "x/../m.pkl".toList, none, true, 3, true⟩, ⟨.image, "m.pkl".toList, none, false, 4, true⟩,
       ⟨.image, "n.pkl".toList, none, false, 5, false⟩]).1
      = [.written, .overwriteError, .written, .overwriteError, .valueError] := by decide +kernel

end MenpoModel.C16
