/-
C15 — labellers, continued: the labelled result reproduces the labeller's table on *every* input of the expected
size — label masks, the points under each label, the connectivity mapped through the index list — and selection
applied to a labeller's output still only returns input points.  Consumed with the regenerated tables by
`GenProps/C15.lean` (`live_labellers_masks`).  Core Lean only.
-/
import MenpoModel.Props.C15Sel

namespace MenpoModel.C15

theorem labeller_apply_ok {α} {t : Labeller} {xs : List α} {g : LGraph α} (h : t.apply xs = .ok g) :
    xs.length = t.nExpected ∧ g.pts = gather xs t.ind ∧ g.edges = t.edges ∧
    g.labels = t.labels.map fun p => (p.1, indexMask t.ind.length p.2) := by
  unfold Labeller.apply at h
  split at h
  · cases h
  · rename_i hlen
    simp only [bne_iff_ne, ne_eq, Decidable.not_not] at hlen
    injection h with h
    subst h
    exact ⟨hlen, rfl, rfl, rfl⟩

/-- **the label masks of the result are the table's**: the labels come out in the order of the table, and the mask
of label `l` is true exactly at the output positions the table lists for `l` — on every input -/
theorem labeller_masks {α} (t : Labeller) (hwf : labellerWF t = true) (xs : List α) (g : LGraph α)
    (h : t.apply xs = .ok g) :
    g.names = t.labels.map Prod.fst ∧
    ∀ l ix, (l, ix) ∈ t.labels →
      lookup g.labels l = some (indexMask t.ind.length ix) ∧
      ∀ j, (indexMask t.ind.length ix)[j]? = some true ↔ j < g.pts.length ∧ j ∈ ix := by
  obtain ⟨_, _, hnm⟩ := labeller_all_labelled t hwf xs g h
  have hlen := (labeller_reindexes t hwf xs g h).1
  obtain ⟨_, _, _, hl⟩ := labeller_apply_ok h
  refine ⟨by simp [LGraph.names, hl, Function.comp_def], ?_⟩
  intro l ix hmem
  refine ⟨?_, fun j => by rw [hlen]; exact indexMask_get _ _ _⟩
  apply lookup_of_mem_nodup hnm
  rw [hl]
  exact List.mem_map.mpr ⟨(l, ix), hmem, rfl⟩

/-- **the points under each label are the input points the table names**: for a label with index list `ix`,
output position `j ∈ ix` holds input point `ind[j]`, it is found at position `rank j` among the points under the
label, and the points under the label are nothing else -/
theorem labeller_label_points {α} (t : Labeller) (hwf : labellerWF t = true) (xs : List α) (g : LGraph α)
    (h : t.apply xs = .ok g) (l : String) (ix : List Nat) (hmem : (l, ix) ∈ t.labels) :
    (∀ j ∈ ix, j < t.ind.length ∧
      (maskFilter g.pts (indexMask t.ind.length ix))[rank (indexMask t.ind.length ix) j]? = xs[t.ind[j]!]?) ∧
    (∀ k, k < (maskFilter g.pts (indexMask t.ind.length ix)).length →
      ∃ j ∈ ix, rank (indexMask t.ind.length ix) j = k) := by
  obtain ⟨hlen, hpt, _⟩ := labeller_reindexes t hwf xs g h
  have hml : g.pts.length = (indexMask t.ind.length ix).length := by rw [indexMask_length, hlen]
  have hin : ∀ j ∈ ix, j < t.ind.length := by
    simp only [labellerWF, Bool.and_eq_true] at hwf
    obtain ⟨⟨⟨⟨_, _⟩, hr⟩, _⟩, _⟩ := hwf
    intro j hj
    have := List.all_eq_true.mp (List.all_eq_true.mp hr (l, ix) hmem) j hj
    simpa using this
  refine ⟨fun j hj => ⟨hin j hj, ?_⟩, ?_⟩
  · have hm : (indexMask t.ind.length ix)[j]? = some true := (indexMask_get _ _ _).mpr ⟨hin j hj, hj⟩
    rw [maskFilter_rank g.pts _ j hml hm]
    exact (hpt j (hin j hj)).2
  · intro k hk
    obtain ⟨v, hv, hr⟩ := maskFilter_surj g.pts _ hml k hk
    exact ⟨v, ((indexMask_get _ _ _).mp hv).2, hr⟩

/-- **the connectivity is the table's, mapped through the index list**: the result's edge list is the table's on
every input, and (for a table with in-range connectivity) an edge `(a, b)` joins the input points `ind[a]` and
`ind[b]` -/
theorem labeller_edges {α} (t : Labeller) (hwf : labellerWF t = true) (he : labellerEdgesWF t = true)
    (xs : List α) (g : LGraph α) (h : t.apply xs = .ok g) :
    g.edges = t.edges ∧
    ∀ e ∈ g.edges, e.1 < g.pts.length ∧ e.2 < g.pts.length ∧
      g.pts[e.1]? = xs[t.ind[e.1]!]? ∧ g.pts[e.2]? = xs[t.ind[e.2]!]? ∧
      t.ind[e.1]! < xs.length ∧ t.ind[e.2]! < xs.length := by
  obtain ⟨hlen, hpt, _⟩ := labeller_reindexes t hwf xs g h
  obtain ⟨_, _, hed, _⟩ := labeller_apply_ok h
  refine ⟨hed, fun e hee => ?_⟩
  rw [hed] at hee
  have := List.all_eq_true.mp he e hee
  simp only [Bool.and_eq_true, decide_eq_true_eq] at this
  rw [hlen]
  exact ⟨this.1, this.2, (hpt _ this.1).2, (hpt _ this.2).2, (hpt _ this.1).1, (hpt _ this.2).1⟩

/-- **selecting from a labeller's output still only re-indexes**: whatever labels are then selected, every point
of the selection is an input point of the labeller (`ind[v]` for a kept output position `v`), distinct kept
positions stay distinct, and the selection is again well formed and covered -/
theorem labeller_select_reindexes {α} (t : Labeller) (hwf : labellerWF t = true) (he : labellerEdgesWF t = true)
    (xs : List α) (g g' : LGraph α) (h : t.apply xs = .ok g) (req : List String) (hs : select g req = .ok g') :
    (∀ k, k < g'.pts.length → ∃ v, v < t.ind.length ∧ (selMask g req)[v]? = some true ∧
      rank (selMask g req) v = k ∧ t.ind[v]! < xs.length ∧ g'.pts[k]? = xs[t.ind[v]!]?) ∧
    WF g' ∧ Covered g' := by
  obtain ⟨hgwf, _⟩ := labeller_output_wf t hwf he xs g h
  obtain ⟨hlen, hpt, _⟩ := labeller_reindexes t hwf xs g h
  obtain ⟨hp1, hp2, _⟩ := select_points_exact hgwf hs
  refine ⟨?_, select_wf_covered hgwf hs⟩
  intro k hk
  obtain ⟨v, hv, hr⟩ := hp2 k hk
  have hvlt : v < t.ind.length := by
    have := ((selMask_spec g req v).mp hv).1
    omega
  refine ⟨v, hvlt, hv, hr, (hpt v hvlt).1, ?_⟩
  rw [← hr, hp1 v hv]
  exact (hpt v hvlt).2

/-! ### the gather form: masking by a sorted index list is gathering -/

theorem filterMap_congr' {α β} (ys : List α) (f g : α → Option β) (h : ∀ a ∈ ys, f a = g a) :
    ys.filterMap f = ys.filterMap g := by
  induction ys with
  | nil => rfl
  | cons a as ih =>
    simp only [List.filterMap_cons, h a List.mem_cons_self]
    rw [ih (fun b hb => h b (List.mem_cons_of_mem _ hb))]

theorem filter_ge_sorted (ix : List Nat) (hs : ix.Pairwise (· < ·)) (s : Nat) :
    ix.filter (fun j => decide (s ≤ j)) =
      if s ∈ ix then s :: ix.filter (fun j => decide (s + 1 ≤ j)) else ix.filter (fun j => decide (s + 1 ≤ j)) := by
  induction ix with
  | nil => simp
  | cons a as ih =>
    have hs' := (List.pairwise_cons.mp hs)
    have iha := ih hs'.2
    by_cases hlt : a < s
    · have h1 : ¬ s ≤ a := by omega
      have h2 : ¬ s + 1 ≤ a := by omega
      have h3 : s ≠ a := by omega
      simp only [List.filter_cons, h1, h2, decide_false, Bool.false_eq_true, if_false, List.mem_cons, h3, false_or]
      exact iha
    · by_cases heq : a = s
      · subst heq
        have hall : ∀ b ∈ as, a + 1 ≤ b := fun b hb => hs'.1 b hb
        have hf1 : as.filter (fun j => decide (a ≤ j)) = as := by
          apply List.filter_eq_self.mpr
          intro b hb; have := hall b hb; simp; omega
        have hf2 : as.filter (fun j => decide (a + 1 ≤ j)) = as := by
          apply List.filter_eq_self.mpr
          intro b hb; have := hall b hb; simp; omega
        simp [hf1, hf2]
      · have hgt : s < a := by omega
        have hnot : s ∉ a :: as := by
          intro hc
          rcases List.mem_cons.mp hc with h | h
          · omega
          · have := hs'.1 s h; omega
        have h1 : s ≤ a := by omega
        have h2 : s + 1 ≤ a := by omega
        have hall : ∀ b ∈ as, s + 1 ≤ b := fun b hb => by have := hs'.1 b hb; omega
        have hf1 : as.filter (fun j => decide (s ≤ j)) = as := by
          apply List.filter_eq_self.mpr
          intro b hb; have := hall b hb; simp; omega
        have hf2 : as.filter (fun j => decide (s + 1 ≤ j)) = as := by
          apply List.filter_eq_self.mpr
          intro b hb; have := hall b hb; simp; omega
        simp [h1, h2, hnot, hf1, hf2]

/-- masking by the characteristic vector of a strictly increasing index list is gathering by that list -/
theorem maskFilter_contains_sorted {α} (l : List α) (ix : List Nat) (hs : ix.Pairwise (· < ·)) (s : Nat)
    (hr : ∀ j ∈ ix, j < s + l.length) :
    maskFilter l ((List.range' s l.length).map fun i => ix.contains i) =
      (ix.filter fun j => decide (s ≤ j)).filterMap fun j => l[j - s]? := by
  induction l generalizing s with
  | nil =>
    show maskFilter ([] : List α) _ = _
    simp only [maskFilter]
    symm
    apply List.filterMap_eq_nil_iff.mpr
    intro a _
    simp
  | cons x xs ih =>
    have ih' := ih (s + 1) (fun j hj => by have := hr j hj; simp at this; omega)
    simp only [List.length_cons, List.range'_succ, List.map_cons, maskFilter]
    rw [filter_ge_sorted ix hs s]
    have hshift : ∀ (ys : List Nat), (∀ j ∈ ys, s + 1 ≤ j) →
        ys.filterMap (fun j => (x :: xs)[j - s]?) = ys.filterMap (fun j => xs[j - (s + 1)]?) := by
      intro ys hys
      apply filterMap_congr'
      intro j hj
      have := hys j hj
      have : j - s = (j - (s + 1)) + 1 := by omega
      rw [this, List.getElem?_cons_succ]
    have hge : ∀ j ∈ ix.filter (fun j => decide (s + 1 ≤ j)), s + 1 ≤ j := by
      intro j hj
      simpa using (List.mem_filter.mp hj).2
    by_cases hmem : s ∈ ix
    · simp only [List.contains_eq_mem, hmem, decide_true, if_true, List.filterMap_cons, Nat.sub_self,
        List.getElem?_cons_zero]
      rw [hshift _ hge, ← ih']
      simp [List.contains_eq_mem]
    · simp only [List.contains_eq_mem, hmem, decide_false, Bool.false_eq_true, if_false]
      rw [hshift _ hge, ← ih']
      simp [List.contains_eq_mem]

theorem maskFilter_indexMask_sorted {α} (l : List α) (ix : List Nat) (hs : ix.Pairwise (· < ·))
    (hr : ∀ j ∈ ix, j < l.length) : maskFilter l (indexMask l.length ix) = gather l ix := by
  have := maskFilter_contains_sorted l ix hs 0 (by simpa using hr)
  have hf : ix.filter (fun j => decide (0 ≤ j)) = ix := List.filter_eq_self.mpr (by simp)
  rw [hf] at this
  simp only [Nat.sub_zero] at this
  unfold indexMask gather
  rw [List.range_eq_range']
  exact this

/-- the decidable obligation: every label's index list is strictly increasing (they are read off masks) -/
def labelsSortedB (t : Labeller) : Bool := t.labels.all fun p => decide (p.2.Pairwise (· < ·))

theorem gather_gather {α} (xs : List α) (ind ix : List Nat) (hi : ∀ i ∈ ind, i < xs.length)
    (hx : ∀ j ∈ ix, j < ind.length) : gather (gather xs ind) ix = gather xs (ix.map (ind[·]!)) := by
  obtain ⟨_, h2⟩ := gather_in_range xs ind hi
  unfold gather at h2 ⊢
  rw [List.filterMap_map]
  apply filterMap_congr'
  intro j hj
  exact h2 j (hx j hj)

/-- **the gather theorem per label**: for a table whose label index lists are strictly increasing, the points under
label `l` of the labelled result are — as a list, on every input — the input points gathered through the composed
index list `ix.map ind`; and `get_label l` on the result returns exactly them with the table's connectivity
restricted to them -/
theorem labeller_get_label_gather {α} (t : Labeller) (hwf : labellerWF t = true) (hs : labelsSortedB t = true)
    (xs : List α) (g : LGraph α) (h : t.apply xs = .ok g) (l : String) (ix : List Nat) (hmem : (l, ix) ∈ t.labels) :
    maskFilter g.pts (indexMask t.ind.length ix) = gather xs (ix.map (t.ind[·]!)) ∧
    (ix ≠ [] → labellerEdgesWF t = true →
      getLabel g l = .ok (gather xs (ix.map (t.ind[·]!)), inducedEdges (indexMask t.ind.length ix) t.edges)) := by
  obtain ⟨hlen, hpt, _⟩ := labeller_reindexes t hwf xs g h
  obtain ⟨_, hpts, hed, _⟩ := labeller_apply_ok h
  have hin : ∀ j ∈ ix, j < t.ind.length := fun j hj => ((labeller_label_points t hwf xs g h l ix hmem).1 j hj).1
  have hind : ∀ i ∈ t.ind, i < xs.length := by
    intro i hi
    obtain ⟨k, hk, rfl⟩ := List.getElem_of_mem hi
    have := (hpt k hk).1
    simpa [hk] using this
  have hsorted : ix.Pairwise (· < ·) := by
    have := List.all_eq_true.mp hs (l, ix) hmem
    simpa using this
  have hmain : maskFilter g.pts (indexMask t.ind.length ix) = gather xs (ix.map (t.ind[·]!)) := by
    rw [← hlen, maskFilter_indexMask_sorted g.pts ix hsorted (by rw [hlen]; exact hin), hpts]
    exact gather_gather xs t.ind ix hind hin
  refine ⟨hmain, fun hne he => ?_⟩
  obtain ⟨hgwf, _⟩ := labeller_output_wf t hwf he xs g h
  have hlk := ((labeller_masks t hwf xs g h).2 l ix hmem).1
  unfold getLabel
  rw [hlk]
  have hany : (indexMask t.ind.length ix).any id = true := by
    cases ix with
    | nil => exact absurd rfl hne
    | cons j js =>
      apply (any_id_iff _).mpr
      exact ⟨j, (indexMask_get _ _ _).mpr ⟨hin j List.mem_cons_self, List.mem_cons_self⟩⟩
  simp only [hany, Bool.not_true, Bool.false_eq_true, if_false]
  rw [fromMask_eq _ _ _ (by rw [indexMask_length, hlen]) hgwf.edgesIn, hmain, hed]

example : labelsSortedB demoLabeller = true := by decide
example : ((demoLabeller.apply [10, 11, 12, 13, 14]).bind fun g => getLabel g "y") = .ok ([10, 12], [(0, 1)]) := by
  decide

example : (demoLabeller.apply [10, 11, 12, 13, 14]).map (fun g => (g.pts, g.edges, g.labels)) =
    .ok ([14, 10, 12], [(0, 1), (1, 2)], [("x", [true, true, false]), ("y", [false, true, true])]) := by decide
example : ((demoLabeller.apply [10, 11, 12, 13, 14]).bind fun g => withLabels g ["y"]).map LGraph.pts =
    .ok [10, 12] := by decide

end MenpoModel.C15
