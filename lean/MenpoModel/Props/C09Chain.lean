/-
C09 — chains and other wrappers: batching commutes with `TransformChain._apply` and `WithDims._apply`; a chain
with a piecewise-affine member is again a piecewise transform (so the failure mask theorems apply to it), and
the generic batching loop — which such a chain inherited before the repair — reports only the first failing batch.
Core Lean only.
-/
import MenpoModel.Core.C09Chain
import MenpoModel.Props.C09Base

namespace MenpoModel.C09

/-- `_apply` commutes with concatenation of point lists (every point-wise `_apply` does) -/
def IsHom {α β} (f : List α → List β) : Prop := f [] = [] ∧ ∀ a b, f (a ++ b) = f a ++ f b

theorem isHom_map {α β} (g : α → β) : IsHom (List.map g) := ⟨rfl, fun _ _ => List.map_append⟩

theorem chainApply_cons {α} (f : List α → List α) (fs : List (List α → List α)) (x : List α) :
    chainApply (f :: fs) x = chainApply fs (f x) := rfl

theorem chainApply_append {α} (fs gs : List (List α → List α)) (x : List α) :
    chainApply (fs ++ gs) x = chainApply gs (chainApply fs x) := by
  simp [chainApply, List.foldl_append]

/-- a chain whose members commute with concatenation commutes with concatenation -/
theorem chain_isHom {α} (fs : List (List α → List α)) (h : ∀ f ∈ fs, IsHom f) : IsHom (chainApply fs) := by
  induction fs with
  | nil => exact ⟨rfl, fun _ _ => rfl⟩
  | cons f fs ih =>
    have hf := h f (List.mem_cons_self)
    have hfs := ih (fun g hg => h g (List.mem_cons_of_mem _ hg))
    constructor
    · rw [chainApply_cons, hf.1, hfs.1]
    · intro a b; rw [chainApply_cons, hf.2, hfs.2]; rfl

/-- PROPERTY (chains): `TransformChain.apply(x, batch_size=k)` = `TransformChain.apply(x)` for every `k ≥ 1`,
for every chain of members whose `_apply` acts point by point (or merely commutes with concatenation) -/
theorem chain_batched_eq_unbatched {α} (fs : List (List α → List α)) (h : ∀ f ∈ fs, IsHom f)
    (k : Nat) (hk : 0 < k) (xs : List α) : applyBatched (chainApply fs) k xs = chainApply fs xs :=
  batched_eq_unbatched_hom _ (chain_isHom fs h).1 (chain_isHom fs h).2 k hk xs

/-- a chain of point-wise members is the point-wise map of the composed point functions -/
theorem chain_pointwise {α} (gs : List (α → α)) (xs : List α) :
    chainApply (gs.map fun g => List.map g) xs = xs.map fun x => gs.foldl (fun xi g => g xi) x := by
  induction gs generalizing xs with
  | nil => simp [chainApply]
  | cons g gs ih => rw [List.map_cons, chainApply_cons, ih, List.map_map]; rfl

theorem chain_pointwise_batched {α} (gs : List (α → α)) (k : Nat) (hk : 0 < k) (xs : List α) :
    applyBatched (chainApply (gs.map fun g => List.map g)) k xs = xs.map fun x => gs.foldl (fun xi g => g xi) x := by
  rw [chain_batched_eq_unbatched _ _ k hk, chain_pointwise]
  intro f hf
  obtain ⟨g, _, rfl⟩ := List.mem_map.mp hf
  exact isHom_map g

/-- a chain nested in a chain (what `compose_before` / `compose_after` build) is the flat chain -/
theorem chain_nested {α} (fs gs hs : List (List α → List α)) (x : List α) :
    chainApply (fs ++ [chainApply gs] ++ hs) x = chainApply (fs ++ gs ++ hs) x := by
  simp only [chainApply_append]; rfl

/-- PROPERTY (`WithDims`): selecting columns is point-wise, so every batch size gives the unbatched result -/
theorem withDims_batched (dims : List Nat) (k : Nat) (hk : 0 < k) (xs : List PtN) :
    applyBatched (List.map (withDims dims)) k xs = xs.map (withDims dims) :=
  batched_eq_unbatched (withDims dims) k hk xs

/-! ### a chain with a piecewise-affine member -/

/-- point-wise members before and after a piecewise-affine member: the chain is the wrapped piecewise
transform — it fails iff some point's image under the members before lies outside the domain, with one mask
entry per *input* point -/
theorem chainE_wrap {α} (g h : α → α) (d : Pwa α α) (xs : List α) :
    chainApplyE [liftOk (List.map g), d.apply, liftOk (List.map h)] xs = (d.wrap g h).apply xs := by
  simp only [chainApplyE, List.foldl_cons, List.foldl_nil, liftOk, Pwa.apply, Pwa.wrap, List.all_map, Function.comp_def]
  by_cases hall : (xs.all fun x => d.inDom (g x)) = true <;> simp [hall, Function.comp_def]

/-- generic batching loop over a raising `_apply` = the first failing batch decides -/
theorem mapBatchesE_pwa {α β} (d : Pwa α β) (cs : List (List α)) :
    mapBatchesE d.apply cs =
      match cs.find? (fun c => !c.all d.inDom) with
      | some c => .error (c.map fun x => !d.inDom x)
      | none => .ok (cs.flatten.map d.f) := by
  induction cs with
  | nil => rfl
  | cons c cs ih =>
    simp only [mapBatchesE, List.find?_cons]
    by_cases hc : c.all d.inDom = true
    · simp only [Pwa.apply, hc, if_true, Bool.not_true, ih]
      cases cs.find? fun c => !c.all d.inDom <;> simp
    · simp only [Bool.not_eq_true] at hc
      simp [Pwa.apply, hc]

/-- generic batching is right whenever it succeeds … -/
theorem applyBatchedE_ok {α β} (d : Pwa α β) (k : Nat) (hk : 0 < k) (xs : List α) (h : xs.all d.inDom = true) :
    applyBatchedE d.apply k xs = d.apply xs := by
  unfold applyBatchedE
  rw [mapBatchesE_pwa]
  have hnone : (batches k xs).find? (fun c => !c.all d.inDom) = none := by
    rw [List.find?_eq_none]
    intro c hc
    have : ∀ x ∈ c, d.inDom x = true := by
      intro x hx
      have hx' : x ∈ (batches k xs).flatten := List.mem_flatten.mpr ⟨c, hc, hx⟩
      rw [batches_flatten k hk] at hx'
      exact List.all_eq_true.mp h x hx'
    simp [List.all_eq_true.mpr this]
  rw [hnone, batches_flatten k hk]
  simp [Pwa.apply, h]

/-- … and when it fails its mask is that of one batch only: at most `k` entries, whatever the number of points -/
theorem applyBatchedE_error_one_batch {α β} (d : Pwa α β) (k : Nat) (xs : List α) (m : List Bool)
    (h : applyBatchedE d.apply k xs = .error m) : ∃ c ∈ batches k xs, m = c.map fun x => !d.inDom x := by
  unfold applyBatchedE at h
  rw [mapBatchesE_pwa] at h
  cases hf : (batches k xs).find? (fun c => !c.all d.inDom) with
  | none => rw [hf] at h; simp at h
  | some c =>
    rw [hf] at h
    simp only [Except.error.injEq] at h
    exact ⟨c, List.mem_of_find?_eq_some hf, h.symm⟩

/-- the behaviour a chain with a piecewise-affine member inherited from the generic loop is refuted: 5 points,
batch size 2, points 1 and 4 outside — the error has 2 entries, not 5 (probed on the real code) -/
theorem chain_generic_batched_refuted :
    applyBatchedE (dEven.wrap (fun x => x % 3) id).apply 2 [1, 3, 2, 4, 6] = .error [false, true] ∧
    (dEven.wrap (fun x => x % 3) id).apply [1, 3, 2, 4, 6] = .error [false, true, false, false, true] := by
  constructor <;> rfl

/-- PROPERTY (repaired `TransformChain._apply_batched`, the loop of `AbstractPWA`): for every batch size the
chain's result and failure mask are those of the unbatched application — one entry per input point, flagging
exactly the points whose image under the members before the piecewise-affine one leaves its domain -/
theorem chain_pwa_batched_fixed_eq {α} (g h : α → α) (d : Pwa α α) (k : Nat) (hk : 0 < k) (xs : List α) :
    batchedFixed (d.wrap g h) k xs = chainApplyE [liftOk (List.map g), d.apply, liftOk (List.map h)] xs := by
  rw [pwa_batched_fixed_eq _ k hk, chainE_wrap]

/-! ### non-vacuity -/
example : chainApply [List.map (· + 1), List.map (· * 2)] [1, 2, 3] = [4, 6, 8] := by rfl
example : applyBatched (chainApply [List.map (· + 1), List.map (· * 2)]) 2 [1, 2, 3] = [4, 6, 8] := by rfl
example : withDims [0, 2] [5, 6, 7] = [5, 7] := by decide +kernel
example : applyBatched (List.map (withDims [2, 0])) 2 [[1, 2, 3], [4, 5, 6], [7, 8, 9]] = [[3, 1], [6, 4], [9, 7]] := by
  decide +kernel
example : batchedFixed (dEven.wrap (fun x => x % 3) id) 2 [1, 3, 2, 4, 6] = .error [false, true, false, false, true] := by rfl
example : applyBatchedE (dEven.wrap (fun x => x % 3) id).apply 2 [1, 2, 4] = .ok [1, 2, 1] := by rfl

end MenpoModel.C09
