/-
C02 — transforming a shape moves points and landmarks as one and mutates nothing.  Property theorems.
Core Lean only.

The property text, clause by clause:
  (a) "returns a new object of the same class whose points are the transformed points"
        value level `apply_class_preserved`, `apply_points`;  heap level `apply_refines` (fresh root object)
  (b) "every attached landmark group has been moved by the same map"
        `apply_landmarks` (every group at every depth), heap level `apply_refines`
  (c) "connectivity, triangle lists, labels, colours, textures, texture coordinates carried over unchanged"
        `apply_extra_unchanged`, `apply_group_names`; heap level `apply_refines` (array / immutable attributes)
  (d) "neither the input shape, nor its landmarks, nor the transform is modified"
        `apply_no_write` (the heap after the call is the heap before plus new cells), `apply_input_intact`
  (e) "applying the transform to the bare coordinate array gives the same numbers"
        `apply_array_agrees`
All are stated over `expectedDispatch`; `GenProps/C02.lean` proves that the method-resolution table read
from the live classes *is* `expectedDispatch`.
-/
import MenpoModel.Lemmas.C02Inplace
import MenpoModel.Lemmas.C02CopySpec
import MenpoModel.Lemmas.C02Check

namespace MenpoModel.C02

/-! ### value level -/

theorem rowOf_shape (c : SCls) :
    rowOf expectedDispatch (.shape c) =
      some (shapeRow c (if c = .LabelledPointUndirectedGraph then .LabelledPointUndirectedGraph else .Copyable)) := by
  cases c <;> rfl

mutual
theorem inplaceV_expected (f : Arr → Arr) : ∀ s, inplaceV expectedDispatch f s = .ok (mapShape f s)
  | .mk c p l e => by
    have hg := groupsInplaceV_expected f l
    simp only [inplaceV, rowOf_shape, shapeRow, supInplace_lm, hg, mapShape]
    cases l <;> simp [Groups.isNil, mapGroups]
theorem groupsInplaceV_expected (f : Arr → Arr) : ∀ g, groupsInplaceV expectedDispatch f g = .ok (mapGroups f g)
  | .nil => by simp only [groupsInplaceV, mapGroups]
  | .cons n g r => by
    simp only [groupsInplaceV, inplaceV_expected f g, groupsInplaceV_expected f r, mapGroups]
end

/-- PROPERTY (all of it, value level): with the methods the classes resolve today, `transform.apply(shape)`
succeeds for each of the 8 shape classes and is the same tree with the transform's array function applied
to the points of the shape and of every landmark group at every depth, everything else verbatim. -/
theorem applyV_expected (f : Arr → Arr) (s : Shape) : applyV expectedDispatch f s = .ok (mapShape f s) := by
  unfold applyV
  rw [supTransform_shape]
  by_cases hc : s.cls = .LabelledPointUndirectedGraph
  · rw [hc, supCopy_lab]; exact inplaceV_expected f s
  · rw [supCopy_nonlab hc]; exact inplaceV_expected f s

theorem mapShape_cls (f : Arr → Arr) (s : Shape) : (mapShape f s).cls = s.cls := by
  cases s; simp [mapShape, Shape.cls]
theorem mapShape_points (f : Arr → Arr) (s : Shape) : (mapShape f s).points = f s.points := by
  cases s; simp [mapShape, Shape.points]
theorem mapShape_extra (f : Arr → Arr) (s : Shape) : (mapShape f s).extra = s.extra := by
  cases s; simp [mapShape, Shape.extra]
theorem mapShape_lms (f : Arr → Arr) (s : Shape) : (mapShape f s).lms = mapGroups f s.lms := by
  cases s; simp [mapShape, Shape.lms]

theorem mapGroups_names (f : Arr → Arr) : ∀ g : Groups, (mapGroups f g).names = g.names
  | .nil => by simp [mapGroups, Groups.names]
  | .cons n g r => by simp [mapGroups, Groups.names, mapGroups_names f r]

theorem mapGroups_lookup (f : Arr → Arr) (x : String) :
    ∀ g : Groups, (mapGroups f g).lookup x = (g.lookup x).map (mapShape f)
  | .nil => by simp [mapGroups, Groups.lookup]
  | .cons n g r => by
    simp only [mapGroups, Groups.lookup]
    split
    · rfl
    · exact mapGroups_lookup f x r

theorem mapShape_at (f : Arr → Arr) : ∀ (path : List String) (s : Shape),
    (mapShape f s).at path = (s.at path).map (mapShape f)
  | [], s => by simp [Shape.at]
  | n :: path, .mk c p l e => by
    simp only [mapShape, Shape.at, mapGroups_lookup]
    cases l.lookup n with
    | none => rfl
    | some g => exact mapShape_at f path g

/-- (a) the result has the class of the input -/
theorem apply_class_preserved (f : Arr → Arr) (s s' : Shape) (h : applyV expectedDispatch f s = .ok s') :
    s'.cls = s.cls := by
  rw [applyV_expected] at h; injection h with h; subst h; exact mapShape_cls f s

/-- (a) its points are the transformed points -/
theorem apply_points (f : Arr → Arr) (s s' : Shape) (h : applyV expectedDispatch f s = .ok s') :
    s'.points = f s.points := by
  rw [applyV_expected] at h; injection h with h; subst h; exact mapShape_points f s

/-- (e) `transform.apply(shape).points` is `transform.apply(shape.points)` -/
theorem apply_array_agrees (f : Arr → Arr) (s s' : Shape) (a' : Arr)
    (h : applyAny expectedDispatch f (.shape s) = .ok (.shape s'))
    (ha : applyAny expectedDispatch f (.array s.points) = .ok (.array a')) : s'.points = a' := by
  simp only [applyAny, applyV_expected, Except.map, Except.ok.injEq, Arg.shape.injEq, Arg.array.injEq] at h ha
  subst h; subst ha; exact mapShape_points f s

/-- (c) every extra attribute of the shape is carried over verbatim -/
theorem apply_extra_unchanged (f : Arr → Arr) (s s' : Shape) (h : applyV expectedDispatch f s = .ok s') :
    s'.extra = s.extra := by
  rw [applyV_expected] at h; injection h with h; subst h; exact mapShape_extra f s

/-- (b, c) the landmark manager keeps its group names in order: no group is lost, added or renamed -/
theorem apply_group_names (f : Arr → Arr) (s s' : Shape) (h : applyV expectedDispatch f s = .ok s') :
    s'.lms.names = s.lms.names := by
  rw [applyV_expected] at h; injection h with h; subst h
  rw [mapShape_lms]; exact mapGroups_names f _

/-- (b, c) every landmark group at every depth — `s.landmarks[n₁].landmarks[n₂]…` — exists in the result
exactly when it exists in the input, has the same class, the same extras, the same sub-group names, and
its points are moved by the *same* array function `f` -/
theorem apply_landmarks (f : Arr → Arr) (s s' : Shape) (h : applyV expectedDispatch f s = .ok s')
    (path : List String) :
    (∀ g, s.at path = some g → ∃ g', s'.at path = some g' ∧ g'.cls = g.cls ∧ g'.points = f g.points ∧
        g'.extra = g.extra ∧ g'.lms.names = g.lms.names) ∧
    (s.at path = none → s'.at path = none) := by
  rw [applyV_expected] at h; injection h with h; subst h
  rw [mapShape_at]
  constructor
  · intro g hg
    rw [hg]
    exact ⟨mapShape f g, rfl, mapShape_cls f g, mapShape_points f g, mapShape_extra f g, by
      rw [mapShape_lms]; exact mapGroups_names f _⟩
  · intro hn; rw [hn]; rfl

/- functoriality: the identity transform changes nothing … -/
mutual
theorem mapShape_id : ∀ s, mapShape id s = s
  | .mk c p l e => by simp only [mapShape, id, mapGroups_id l]
theorem mapGroups_id : ∀ g, mapGroups id g = g
  | .nil => by simp only [mapGroups]
  | .cons n g r => by simp only [mapGroups, mapShape_id g, mapGroups_id r]
end

/- … and applying `f` then `g` is applying `g ∘ f` (what a `TransformChain` does to a shape is what its
members do one after the other) -/
mutual
theorem mapShape_comp (f g : Arr → Arr) : ∀ s, mapShape g (mapShape f s) = mapShape (g ∘ f) s
  | .mk c p l e => by simp only [mapShape, Function.comp, mapGroups_comp f g l]
theorem mapGroups_comp (f g : Arr → Arr) : ∀ l, mapGroups g (mapGroups f l) = mapGroups (g ∘ f) l
  | .nil => by simp only [mapGroups]
  | .cons n s r => by simp only [mapGroups, mapShape_comp f g s, mapGroups_comp f g r]
end

theorem apply_id (s : Shape) : applyV expectedDispatch id s = .ok s := by
  rw [applyV_expected, mapShape_id]

theorem apply_comp (f g : Arr → Arr) (s s1 s2 : Shape) (h1 : applyV expectedDispatch f s = .ok s1)
    (h2 : applyV expectedDispatch g s1 = .ok s2) : applyV expectedDispatch (g ∘ f) s = .ok s2 := by
  rw [applyV_expected] at h1 h2 ⊢
  injection h1 with h1; injection h2 with h2
  rw [← h2, ← h1, mapShape_comp]

/-! ### heap level -/

theorem ext_of_prefix {h h' : Heap} (hl : h.length ≤ h'.length) (hs : ∀ a, a < h.length → h'[a]? = h[a]?) :
    Ext h h' := by
  refine ⟨h'.drop h.length, ?_⟩
  have : h'.take h.length = h := by
    apply List.ext_getElem?
    intro i
    by_cases hi : i < h.length
    · rw [List.getElem?_take_of_lt hi]; exact hs i hi
    · rw [List.getElem?_eq_none (by simp; omega), List.getElem?_eq_none (by omega)]
  conv => lhs; rw [← List.take_append_drop h.length h']
  rw [this]

/-- PROPERTY (a, b, c, d on the heap).  Let `v` hold a shape `s` on heap `h` — any of the 8 classes, any
landmark groups to any depth, laid out and shared in any way — and let `transform.apply` return `v'` on
heap `h'`.  Then
  * `h'` is `h` plus newly allocated cells: **no cell that existed before the call was written**;
  * `v'` holds `mapShape f s`: class kept, points and every group's points mapped by `f`, array and
    immutable attributes with the same contents;
  * every shape object of the result (root and groups) is a new cell (address ≥ `h.length`). -/
theorem apply_refines (f : Arr → Arr) (k : Nat) (s : Shape) (h h' : Heap) (v v' : Val)
    (r : Rep h s v) (hrun : applyH expectedDispatch f k h v = .ok (h', v')) :
    Ext h h' ∧ RepIn h' (mapShape f s) h.length h'.length v' := by
  cases s with
  | mk c x gs ex =>
    have r0 := r
    unfold Rep at r0
    obtain ⟨a, fs, p, rfl, ha, _⟩ := r0
    simp only [applyH, ha, supTransform_shape] at hrun
    have hc := copy_spec k _ h (.ref a) r
    cases hcp : copy expectedDispatch k h (.ref a) with
    | error e => rw [hcp] at hrun; cases hrun
    | ok pr =>
      obtain ⟨h1, v1⟩ := pr
      rw [hcp] at hc hrun
      simp only at hrun
      obtain ⟨e1, r1⟩ := hc
      cases hin : inplace expectedDispatch f k h1 v1 with
      | error e => rw [hin] at hrun; cases hrun
      | ok h2 =>
        rw [hin] at hrun
        simp only [Except.ok.injEq, Prod.mk.injEq] at hrun
        obtain ⟨rfl, rfl⟩ := hrun
        obtain ⟨fr, r2⟩ := inplace_spec f k _ h1 _ _ v1 h2 r1 hin
        have hpre : ∀ b, b < h.length → h2[b]? = h[b]? := fun b hb => by
          rcases fr.same b (Nat.lt_of_lt_of_le hb e1.len) with e | ⟨l1, _, _⟩
          · rw [e]; exact e1.get_lt hb
          · omega
        exact ⟨ext_of_prefix (Nat.le_trans e1.len fr.len) hpre,
          RepIn.widen _ v1 (Nat.le_refl _) fr.len r2⟩

/-- (d) "mutates nothing": every cell that existed before the call — the input shape, its landmark
manager, its groups, their arrays, the transform, anything else — is identical after it -/
theorem apply_no_write (f : Arr → Arr) (k : Nat) (s : Shape) (h h' : Heap) (v v' : Val)
    (r : Rep h s v) (hrun : applyH expectedDispatch f k h v = .ok (h', v')) :
    h.length ≤ h'.length ∧ ∀ a, a < h.length → h'[a]? = h[a]? := by
  obtain ⟨e, _⟩ := apply_refines f k s h h' v v' r hrun
  exact ⟨e.len, fun a ha => e.get_lt ha⟩

/-- (d) the input still holds the shape it held -/
theorem apply_input_intact (f : Arr → Arr) (k : Nat) (s : Shape) (h h' : Heap) (v v' : Val)
    (r : Rep h s v) (hrun : applyH expectedDispatch f k h v = .ok (h', v')) : Rep h' s v :=
  Rep.ext (apply_refines f k s h h' v v' r hrun).1 s v r

/-- (a) the result is a new object, and it holds the mapped shape (so `apply` can be applied again) -/
theorem apply_result (f : Arr → Arr) (k : Nat) (s : Shape) (h h' : Heap) (v v' : Val)
    (r : Rep h s v) (hrun : applyH expectedDispatch f k h v = .ok (h', v')) :
    (∃ a', v' = .ref a' ∧ h.length ≤ a') ∧ Rep h' (mapShape f s) v' := by
  obtain ⟨_, r2⟩ := apply_refines f k s h h' v v' r hrun
  refine ⟨?_, RepIn.rep _ _ _ _ r2⟩
  cases s with
  | mk c x gs ex =>
    rw [mapShape_mk, repIn_iff] at r2
    obtain ⟨a, _, _, m0, m, hv, q1, q2, q3, _⟩ := r2
    exact ⟨a, hv, by omega⟩

/-- the same with the executable test of the hypothesis (what the driver evaluates on every case) -/
theorem apply_refines_checked (f : Arr → Arr) (k : Nat) (s : Shape) (h h' : Heap) (v v' : Val)
    (r : repB h s v = true) (hrun : applyH expectedDispatch f k h v = .ok (h', v')) :
    Ext h h' ∧ RepIn h' (mapShape f s) h.length h'.length v' :=
  apply_refines f k s h h' v v' (repB_sound s v r) hrun

/-! ### the hypotheses are satisfiable, the conclusions are not trivial -/

/-- a labelled graph with a mask dict and an adjacency array -/
def exLab : Shape := .mk .LabelledPointUndirectedGraph [[1, 2], [3, 4]] .nil
  [("_labels_to_masks", .dict [("eye", [[1], [0]])]), ("adjacency_matrix", .arr [[0, 1, 1]])]
/-- a mesh with two landmark groups, the second of which has a landmark group of its own -/
def exMesh : Shape := .mk .TriMesh [[0, 0], [1, 0], [0, 1]]
  (.cons "a" exLab (.cons "b" (.mk .PointCloud [[5, 5]] (.cons "n" exLab .nil) []) .nil))
  [("trilist", .arr [[0, 1, 2]])]
/-- a transform that is not the identity on these arrays -/
def exF : Arr → Arr := List.reverse
def exHeap : Heap := (build [] exMesh).1
def exVal : Val := (build [] exMesh).2

-- the hypothesis of the heap theorems holds of a 19-cell heap with nested groups …
example : Rep exHeap exMesh exVal := repB_sound _ _ (by decide)
-- … the call succeeds on it …
example : (applyH expectedDispatch exF 8 exHeap exVal).toOption.isSome = true := by decide
-- … writes nothing below the old heap top, and the result reads back as the mapped shape: root points
-- reversed, the nested group's points reversed, its adjacency array and mask dict untouched
example : (applyH expectedDispatch exF 8 exHeap exVal).toOption.map
    (fun r => changedBelow exHeap.length exHeap r.1) = some [] := by decide
example : (applyH expectedDispatch exF 8 exHeap exVal).toOption.bind
    (fun r => (readShape 8 r.1 r.2).map fun s =>
      (s.points, (s.at ["b", "n"]).map fun g => (g.points, g.extra == exLab.extra))) =
    some ([[0, 1], [1, 0], [0, 0]], some ([[3, 4], [1, 2]], true)) := by decide
example : applyV expectedDispatch exF exMesh = .ok (mapShape exF exMesh) := applyV_expected _ _
example : (mapShape exF exMesh).points ≠ exMesh.points := by decide

/-- the method-resolution table with `LandmarkManager.copy` *not* overriding `Copyable.copy` -/
def shallowManagerDispatch : Dispatch :=
  expectedDispatch.map fun r => if r.cls = .LandmarkManager then { r with copy := .Copyable } else r

/-- WITNESS that the table matters: were `LandmarkManager.copy` the generic `Copyable.copy` (the group dict
copied shallowly), the very same call would succeed and rebind `points` of the *caller's* landmark groups:
cells 4, 13 and 9 (groups "a", "b" and the group "n" of "b" of the input) are written.  This is why `GenProps/C02.lean` re-proves the
table of the live classes on every run. -/
theorem shallow_manager_copy_mutates_input :
    (applyH shallowManagerDispatch exF 8 exHeap exVal).toOption.map
      (fun r => changedBelow exHeap.length exHeap r.1) = some [4, 9, 13] := by decide

/-- the table with `_transform_self_inplace` resolving to `Shape`'s `pass` for `PointTree` -/
def passSelfDispatch : Dispatch :=
  expectedDispatch.map fun r => if r.cls = .shape .PointTree then { r with tSelf := .Shape } else r

/-- WITNESS: a shape class that does not inherit `PointCloud._transform_self_inplace` keeps its points (its
landmarks still move) — `apply_points` is a statement about the table, not a tautology -/
theorem pass_self_leaves_points :
    (applyV passSelfDispatch exF (.mk .PointTree [[1, 1], [2, 2]] (.cons "g" exLab .nil) [])).toOption.map
      (fun s => (s.points, (s.at ["g"]).map Shape.points)) =
    some ([[1, 1], [2, 2]], some [[3, 4], [1, 2]]) := by decide

end MenpoModel.C02
