/-
C17 — the geometry statements over the REAL numbers: `np.sqrt` is Mathlib's `Real.sqrt`, no contract
parameter.  The rational model of `Core/C17Mesh.lean` (what the driver executes) is cast to ℝ; areas,
edge lengths, `_normalize`, `compute_face_normals` and `compute_vertex_normals` are the real-valued
functions the code computes up to rounding.

* `tri_areas` / `edge_lengths` (3-D): `‖·‖ = √(v·v)`; non-negative, unchanged by `AᵀA = 1` + translation,
  multiplied by `s²` / `|s|` by uniform scaling — for the returned values, not only their squares;
* `_normalize`: a non-zero row becomes a unit vector, the zero row stays zero; normalising is invariant
  under positive scaling of the row and commutes with orthogonal maps;
* `compute_face_normals`: unit, perpendicular to the triangle, rotated with the mesh, independent of the
  uniform scale of the mesh — at every scale `s ≠ 0`;
* `compute_vertex_normals`: entry by entry `_normalize` of the sum of the unit normals of the incident
  faces: unit when that sum is not zero, the zero row at a vertex without a face, independent of the
  triangle order, rotated with the mesh, independent of the scale;
* the contract form used by the executable model is an instance: a rational `r` with `IsRoot r q` IS
  `√q`, so `normalize1 r v` cast to ℝ is the real `_normalize` of `v`.
-/
import MenpoModel.Props.C17
import Mathlib.Analysis.Real.Sqrt
import Mathlib.Data.Rat.Cast.Order

set_option linter.unusedSimpArgs false
namespace MenpoModel.C17
noncomputable section

/-- a row of a real `(n, 3)` array -/
@[ext] structure R3 where
  x : ℝ
  y : ℝ
  z : ℝ

namespace R3
def add (a b : R3) : R3 := ⟨a.x + b.x, a.y + b.y, a.z + b.z⟩
def sub (a b : R3) : R3 := ⟨a.x - b.x, a.y - b.y, a.z - b.z⟩
def smul (k : ℝ) (a : R3) : R3 := ⟨k * a.x, k * a.y, k * a.z⟩
def zero : R3 := ⟨0, 0, 0⟩
def dot (a b : R3) : ℝ := a.x * b.x + a.y * b.y + a.z * b.z
def normSq (a : R3) : ℝ := dot a a
/-- `np.sqrt((v**2).sum())` / `np.linalg.norm(v)` -/
def norm (a : R3) : ℝ := Real.sqrt (normSq a)
/-- one row of `_normalize`: `nan_to_num(v / sqrt(v·v))` -/
def normalize (a : R3) : R3 := if norm a = 0 then zero else smul (1 / norm a) a
end R3

/-- the exact rational vector as a real one -/
def castV (v : V3) : R3 := ⟨(v.x : ℝ), (v.y : ℝ), (v.z : ℝ)⟩

def M3.mulVecR (A : M3) (v : R3) : R3 :=
  ⟨A.a11 * v.x + A.a12 * v.y + A.a13 * v.z,
   A.a21 * v.x + A.a22 * v.y + A.a23 * v.z,
   A.a31 * v.x + A.a32 * v.y + A.a33 * v.z⟩

/-! ### casts -/

theorem castV_add (a b : V3) : castV (V3.add a b) = R3.add (castV a) (castV b) := by
  ext <;> simp [castV, V3.add, R3.add]
theorem castV_smul (k : Rat) (a : V3) : castV (V3.smul k a) = R3.smul (k : ℝ) (castV a) := by
  ext <;> simp [castV, V3.smul, R3.smul]
theorem castV_zero : castV V3.zero = R3.zero := by ext <;> simp [castV, V3.zero, R3.zero]
theorem castV_mulVec (A : M3) (v : V3) : castV (A.mulVec v) = A.mulVecR (castV v) := by
  ext <;> simp [castV, M3.mulVec, M3.mulVecR]
theorem normSq_castV (v : V3) : R3.normSq (castV v) = ((V3.normSq v : Rat) : ℝ) := by
  simp [R3.normSq, R3.dot, castV, V3.normSq, V3.dot]
theorem dot_castV (u v : V3) : R3.dot (castV u) (castV v) = ((V3.dot u v : Rat) : ℝ) := by
  simp [R3.dot, castV, V3.dot]
theorem castV_injective (u v : V3) (h : castV u = castV v) : u = v := by
  have hx := congrArg R3.x h; have hy := congrArg R3.y h; have hz := congrArg R3.z h
  simp only [castV] at hx hy hz
  ext
  · exact_mod_cast hx
  · exact_mod_cast hy
  · exact_mod_cast hz

/-! ### norm and `_normalize` -/

theorem R3.normSq_nonneg (a : R3) : 0 ≤ R3.normSq a := by
  simp only [R3.normSq, R3.dot]; nlinarith [mul_self_nonneg a.x, mul_self_nonneg a.y, mul_self_nonneg a.z]

theorem R3.norm_nonneg (a : R3) : 0 ≤ R3.norm a := Real.sqrt_nonneg _

theorem R3.norm_mul_self (a : R3) : R3.norm a * R3.norm a = R3.normSq a :=
  Real.mul_self_sqrt (R3.normSq_nonneg a)

theorem R3.normSq_eq_zero_iff (a : R3) : R3.normSq a = 0 ↔ a = R3.zero := by
  constructor
  · intro h
    simp only [R3.normSq, R3.dot] at h
    have hx : a.x = 0 := by nlinarith [mul_self_nonneg a.x, mul_self_nonneg a.y, mul_self_nonneg a.z]
    have hy : a.y = 0 := by nlinarith [mul_self_nonneg a.x, mul_self_nonneg a.y, mul_self_nonneg a.z]
    have hz : a.z = 0 := by nlinarith [mul_self_nonneg a.x, mul_self_nonneg a.y, mul_self_nonneg a.z]
    ext <;> simp [R3.zero, hx, hy, hz]
  · rintro rfl; simp [R3.normSq, R3.dot, R3.zero]

theorem R3.norm_eq_zero_iff (a : R3) : R3.norm a = 0 ↔ a = R3.zero := by
  rw [R3.norm, Real.sqrt_eq_zero (R3.normSq_nonneg a), R3.normSq_eq_zero_iff]

theorem R3.normSq_smul (k : ℝ) (a : R3) : R3.normSq (R3.smul k a) = k * k * R3.normSq a := by
  simp only [R3.normSq, R3.dot, R3.smul]; ring

theorem R3.norm_smul (k : ℝ) (a : R3) : R3.norm (R3.smul k a) = |k| * R3.norm a := by
  rw [R3.norm, R3.normSq_smul, Real.sqrt_mul (mul_self_nonneg k), Real.sqrt_mul_self_eq_abs]; rfl

theorem R3.smul_smul (j k : ℝ) (a : R3) : R3.smul j (R3.smul k a) = R3.smul (j * k) a := by
  ext <;> simp [R3.smul] <;> ring
theorem R3.one_smul (a : R3) : R3.smul 1 a = a := by ext <;> simp [R3.smul]
theorem R3.smul_zero (k : ℝ) : R3.smul k R3.zero = R3.zero := by ext <;> simp [R3.smul, R3.zero]

/-- PROPERTY ("normals are unit vectors", ℝ): `_normalize` of a non-zero row has length exactly one -/
theorem R3.normalize_unit (a : R3) (h : a ≠ R3.zero) : R3.normSq (R3.normalize a) = 1 ∧ R3.norm (R3.normalize a) = 1 := by
  have h0 : R3.norm a ≠ 0 := fun e => h ((R3.norm_eq_zero_iff a).1 e)
  have hsq : R3.normSq (R3.normalize a) = 1 := by
    simp only [R3.normalize, h0, if_false, R3.normSq_smul]
    rw [← R3.norm_mul_self]; field_simp
  exact ⟨hsq, by rw [R3.norm, hsq, Real.sqrt_one]⟩

theorem R3.normalize_zero : R3.normalize R3.zero = R3.zero := by
  simp [R3.normalize, (R3.norm_eq_zero_iff R3.zero).2 rfl]

/-- `_normalize` does not see a positive factor: whatever the size of the row, the result is the
same unit vector (this is what fails when the denominator is clamped from below) -/
theorem R3.normalize_smul_pos (k : ℝ) (hk : 0 < k) (a : R3) : R3.normalize (R3.smul k a) = R3.normalize a := by
  unfold R3.normalize
  rw [R3.norm_smul, abs_of_pos hk]
  by_cases h0 : R3.norm a = 0
  · simp [h0, (R3.norm_eq_zero_iff a).1 h0, R3.smul_zero]
  · have hk0 : k * R3.norm a ≠ 0 := mul_ne_zero (ne_of_gt hk) h0
    simp only [h0, hk0, if_false, R3.smul_smul]
    congr 1
    field_simp

theorem M3.normSq_mulVecR (A : M3) (hA : A.IsOrtho) (v : R3) : R3.normSq (A.mulVecR v) = R3.normSq v := by
  obtain ⟨h11, h22, h33, h12, h13, h23⟩ := hA
  have c11 : (A.a11 : ℝ) * A.a11 + A.a21 * A.a21 + A.a31 * A.a31 = 1 := by exact_mod_cast h11
  have c22 : (A.a12 : ℝ) * A.a12 + A.a22 * A.a22 + A.a32 * A.a32 = 1 := by exact_mod_cast h22
  have c33 : (A.a13 : ℝ) * A.a13 + A.a23 * A.a23 + A.a33 * A.a33 = 1 := by exact_mod_cast h33
  have c12 : (A.a11 : ℝ) * A.a12 + A.a21 * A.a22 + A.a31 * A.a32 = 0 := by exact_mod_cast h12
  have c13 : (A.a11 : ℝ) * A.a13 + A.a21 * A.a23 + A.a31 * A.a33 = 0 := by exact_mod_cast h13
  have c23 : (A.a12 : ℝ) * A.a13 + A.a22 * A.a23 + A.a32 * A.a33 = 0 := by exact_mod_cast h23
  simp only [R3.normSq, R3.dot, M3.mulVecR]
  linear_combination (v.x * v.x) * c11 + (v.y * v.y) * c22 + (v.z * v.z) * c33
    + (2 * v.x * v.y) * c12 + (2 * v.x * v.z) * c13 + (2 * v.y * v.z) * c23

theorem M3.mulVecR_smul (A : M3) (k : ℝ) (v : R3) : A.mulVecR (R3.smul k v) = R3.smul k (A.mulVecR v) := by
  ext <;> simp [M3.mulVecR, R3.smul] <;> ring
theorem M3.mulVecR_add (A : M3) (u v : R3) : A.mulVecR (R3.add u v) = R3.add (A.mulVecR u) (A.mulVecR v) := by
  ext <;> simp [M3.mulVecR, R3.add] <;> ring
theorem M3.mulVecR_zero (A : M3) : A.mulVecR R3.zero = R3.zero := by
  ext <;> simp [M3.mulVecR, R3.zero]

/-- `_normalize` commutes with orthogonal maps -/
theorem R3.normalize_mulVecR (A : M3) (hA : A.IsOrtho) (v : R3) :
    R3.normalize (A.mulVecR v) = A.mulVecR (R3.normalize v) := by
  unfold R3.normalize
  have hn : R3.norm (A.mulVecR v) = R3.norm v := by rw [R3.norm, R3.norm, M3.normSq_mulVecR A hA]
  rw [hn]
  split
  · exact (M3.mulVecR_zero A).symm
  · exact (M3.mulVecR_smul A _ v).symm

/-- the contract form is an instance: a rational root IS the real square root, and the rational
`normalize1` the executable model computes with it IS the real `_normalize` -/
theorem IsRoot.eq_sqrt {r q : Rat} (h : IsRoot r q) : (r : ℝ) = Real.sqrt (q : ℝ) := by
  have h1 : (0 : ℝ) ≤ r := by exact_mod_cast h.1
  have h2 : (r : ℝ) * r = q := by exact_mod_cast h.2
  rw [← h2, Real.sqrt_mul_self h1]

theorem normalize1_cast (r : Rat) (v : V3) (h : IsRoot r (V3.normSq v)) :
    castV (normalize1 r v) = R3.normalize (castV v) := by
  have hr : (r : ℝ) = R3.norm (castV v) := by rw [R3.norm, normSq_castV]; exact h.eq_sqrt
  unfold normalize1 R3.normalize
  rw [← hr]
  by_cases h0 : r = 0
  · simp [h0, castV_zero]
  · have h0' : (r : ℝ) ≠ 0 := by exact_mod_cast h0
    simp only [h0, h0', if_false, castV_smul]
    congr 1
    push_cast; rfl

/-! ### areas and edge lengths: the returned values -/

/-- `tri_areas()`, 3-D branch: `np.linalg.norm(np.cross(ij, ik)) * 0.5` -/
def area3R (a b c : V3) : ℝ := R3.norm (castV (areaVec3 a b c)) * (1 / 2)
/-- one entry of `edge_lengths()`: `np.linalg.norm` of an edge vector -/
def lenR (v : V3) : ℝ := R3.norm (castV v)

theorem area3R_eq_sqrt (a b c : V3) : area3R a b c = Real.sqrt ((areaSq3 a b c : Rat) : ℝ) := by
  rw [area3R, R3.norm, normSq_castV, areaSq3]
  push_cast
  rw [Real.sqrt_mul' _ (by norm_num : (0 : ℝ) ≤ 1 / 4)]
  congr 1
  rw [show (1 / 4 : ℝ) = (1 / 2) * (1 / 2) by norm_num, Real.sqrt_mul_self (by norm_num)]

/-- PROPERTY (areas, returned values): non-negative, rigid-invariant, × s² under uniform scaling -/
theorem area3R_props (a b c : V3) :
    0 ≤ area3R a b c ∧
    (∀ (A : M3) (t : V3), A.IsOrtho → area3R (aff3 A t a) (aff3 A t b) (aff3 A t c) = area3R a b c) ∧
    (∀ (s : Rat) (t : V3), area3R (aff3 (M3.scalar s) t a) (aff3 (M3.scalar s) t b) (aff3 (M3.scalar s) t c)
      = (s : ℝ) ^ 2 * area3R a b c) := by
  refine ⟨mul_nonneg (R3.norm_nonneg _) (by norm_num), ?_, ?_⟩
  · intro A t hA
    rw [area3R_eq_sqrt, area3R_eq_sqrt, areaSq3_rigid_invariant A hA]
  · intro s t
    rw [area3R_eq_sqrt, area3R_eq_sqrt, areaSq3_scales]
    push_cast
    rw [Real.sqrt_mul (by positivity), show ((s : ℝ) ^ 4) = ((s : ℝ) ^ 2) ^ 2 by ring, Real.sqrt_sq (by positivity)]

/-- PROPERTY (edge lengths, returned values): non-negative, symmetric in the end points,
rigid-invariant, × |s| under uniform scaling -/
theorem lenR_props (a b : V3) :
    0 ≤ lenR (V3.sub b a) ∧ lenR (V3.sub b a) = lenR (V3.sub a b) ∧
    (∀ (A : M3) (t : V3), A.IsOrtho → lenR (V3.sub (aff3 A t b) (aff3 A t a)) = lenR (V3.sub b a)) ∧
    (∀ (s : Rat) (t : V3), lenR (V3.sub (aff3 (M3.scalar s) t b) (aff3 (M3.scalar s) t a))
      = |(s : ℝ)| * lenR (V3.sub b a)) := by
  refine ⟨R3.norm_nonneg _, ?_, ?_, ?_⟩
  · simp only [lenR, R3.norm, normSq_castV, (edge_length_symmetric a b ⟨0, 0⟩ ⟨0, 0⟩).1]
  · intro A t hA
    simp only [lenR, R3.norm, normSq_castV, V3.sub_aff, V3.normSq_mulVec_ortho A hA]
  · intro s t
    simp only [lenR, R3.norm, normSq_castV, V3.sub_aff, V3.normSq_scalar]
    push_cast
    rw [Real.sqrt_mul (by positivity), Real.sqrt_sq_eq_abs]

/-! ### `compute_face_normals` over ℝ -/

/-- one row of `compute_face_normals`: `_normalize(np.cross(b - a, c - a))` -/
def faceNormalR (a b c : V3) : R3 := R3.normalize (castV (faceNormalRaw a b c))

/-- `compute_face_normals(points, trilist)` -/
def faceNormalsR (pts : List V3) (ts : List Tri) : List R3 :=
  (meshFaceNormalsRaw pts ts).map (fun n => R3.normalize (castV n))

/-- PROPERTY (triangle normals, ℝ, every triangle of non-zero area, EVERY scale): unit; perpendicular
to the three sides; rotated with the mesh by every rotation; unchanged by every uniform scaling
`p ↦ s p + t`, `s ≠ 0`. -/
theorem faceNormalR_props (a b c : V3) (hnd : faceNormalRaw a b c ≠ V3.zero) :
    R3.norm (faceNormalR a b c) = 1 ∧
    (R3.dot (faceNormalR a b c) (castV (V3.sub b a)) = 0 ∧ R3.dot (faceNormalR a b c) (castV (V3.sub c a)) = 0 ∧
      R3.dot (faceNormalR a b c) (castV (V3.sub c b)) = 0) ∧
    (∀ (A : M3) (t : V3), A.IsOrtho → A.det = 1 →
      faceNormalR (aff3 A t a) (aff3 A t b) (aff3 A t c) = A.mulVecR (faceNormalR a b c)) ∧
    (∀ (s : Rat) (t : V3), s ≠ 0 →
      faceNormalR (aff3 (M3.scalar s) t a) (aff3 (M3.scalar s) t b) (aff3 (M3.scalar s) t c) = faceNormalR a b c) := by
  have hne : castV (faceNormalRaw a b c) ≠ R3.zero := by
    intro h; rw [← castV_zero] at h; exact hnd (castV_injective _ _ h)
  have hn0 : R3.norm (castV (faceNormalRaw a b c)) ≠ 0 := fun e => hne ((R3.norm_eq_zero_iff _).1 e)
  have hdot : ∀ e : V3, V3.dot (faceNormalRaw a b c) e = 0 → R3.dot (faceNormalR a b c) (castV e) = 0 := by
    intro e he
    simp only [faceNormalR, R3.normalize, hn0, if_false]
    have : R3.dot (R3.smul (1 / R3.norm (castV (faceNormalRaw a b c))) (castV (faceNormalRaw a b c))) (castV e)
        = (1 / R3.norm (castV (faceNormalRaw a b c))) * R3.dot (castV (faceNormalRaw a b c)) (castV e) := by
      simp only [R3.dot, R3.smul]; ring
    rw [this, dot_castV, he]; simp
  obtain ⟨p1, p2, p3⟩ := normal_perpendicular a b c
  refine ⟨(R3.normalize_unit _ hne).2, ⟨hdot _ p1, hdot _ p2, hdot _ p3⟩, ?_, ?_⟩
  · intro A t hA hdet
    have h1 := (normal_follows_rotation A hA t a b c).1
    rw [hdet, V3.one_smul'] at h1
    rw [faceNormalR, h1, castV_mulVec, R3.normalize_mulVecR A hA]; rfl
  · intro s t hs
    have h1 : faceNormalRaw (aff3 (M3.scalar s) t a) (aff3 (M3.scalar s) t b) (aff3 (M3.scalar s) t c)
        = V3.smul (s ^ 2) (faceNormalRaw a b c) := by
      simp only [faceNormalRaw, V3.sub_aff, V3.cross_scalar]
    have hpos : (0 : ℝ) < ((s ^ 2 : Rat) : ℝ) := by
      have : (0 : Rat) < s ^ 2 := by positivity
      exact_mod_cast this
    rw [faceNormalR, h1, castV_smul, R3.normalize_smul_pos _ hpos]; rfl

/-- whole mesh: the face normals of the scaled mesh are the face normals of the mesh -/
theorem faceNormalsR_scale (s : Rat) (hs : s ≠ 0) (t : V3) (pts : List V3) (ts : List Tri) :
    faceNormalsR (pts.map (aff3 (M3.scalar s) t)) ts = faceNormalsR pts ts := by
  have hpos : (0 : ℝ) < ((s ^ 2 : Rat) : ℝ) := by
    have : (0 : Rat) < s ^ 2 := by positivity
    exact_mod_cast this
  simp only [faceNormalsR, meshFaceNormalsRaw_scale, List.map_map]
  apply List.map_congr_left
  intro n _
  simp only [Function.comp, castV_smul, R3.normalize_smul_pos _ hpos]

theorem faceNormalsR_rotation (A : M3) (hA : A.IsOrtho) (hdet : A.det = 1) (t : V3) (pts : List V3) (ts : List Tri) :
    faceNormalsR (pts.map (aff3 A t)) ts = (faceNormalsR pts ts).map A.mulVecR := by
  simp only [faceNormalsR, meshFaceNormalsRaw_rigid A hA, List.map_map]
  apply List.map_congr_left
  intro n _
  simp only [Function.comp, hdet, V3.one_smul', castV_mulVec, R3.normalize_mulVecR A hA]

/-- the rational model with any roots satisfying the contract, cast to ℝ, is `faceNormalsR` -/
theorem faceNormals_cast (rs : List Rat) (pts : List V3) (ts : List Tri)
    (hr : RootsOf rs (meshFaceNormalsRaw pts ts)) :
    (faceNormals rs pts ts).map castV = faceNormalsR pts ts := by
  simp only [faceNormals, faceNormalsR]
  generalize meshFaceNormalsRaw pts ts = vs at hr
  induction rs generalizing vs with
  | nil => cases vs <;> simp_all [RootsOf, normalizeRows]
  | cons r rs ih =>
    cases vs with
    | nil => simp [RootsOf] at hr
    | cons v vs =>
      simp only [RootsOf] at hr
      simp only [normalizeRows, List.zipWith_cons_cons, List.map_cons] at ih ⊢
      rw [ih vs hr.2, normalize1_cast r v hr.1]

/-! ### `compute_vertex_normals` over ℝ -/

def rsum (l : List R3) : R3 := l.foldr R3.add R3.zero

/-- the accumulated row of vertex `v`: the sum of the normals of the incident faces (the three
`np.add.at` passes — `vertex_sums_coded_eq_spec` proves the coded loop computes exactly this sum) -/
def incidentSumR (ts : List Tri) (fn : List R3) (v : Nat) : R3 :=
  rsum ((ts.zip fn).map (fun p => R3.smul ((p.1.verts.count v : Nat) : ℝ) p.2))

/-- `compute_vertex_normals(points, trilist)` -/
def vertexNormalsR (pts : List V3) (ts : List Tri) : List R3 :=
  (List.range pts.length).map (fun v => R3.normalize (incidentSumR ts (faceNormalsR pts ts) v))

theorem R3.add_comm' (a b : R3) : R3.add a b = R3.add b a := by ext <;> simp [R3.add] <;> ring
theorem R3.add_assoc' (a b c : R3) : R3.add (R3.add a b) c = R3.add a (R3.add b c) := by
  ext <;> simp [R3.add] <;> ring

theorem rsum_perm {l l' : List R3} (h : l.Perm l') : rsum l = rsum l' := by
  induction h with
  | nil => rfl
  | cons x _ ih => simp only [rsum, List.foldr_cons] at ih ⊢; rw [ih]
  | swap x y l =>
    simp only [rsum, List.foldr_cons]
    rw [← R3.add_assoc', ← R3.add_assoc', R3.add_comm' y x]
  | trans _ _ ih1 ih2 => exact ih1.trans ih2

theorem rsum_map_mulVecR (A : M3) (l : List R3) : rsum (l.map A.mulVecR) = A.mulVecR (rsum l) := by
  induction l with
  | nil => simp [rsum, M3.mulVecR_zero]
  | cons x l ih => simp only [rsum, List.map_cons, List.foldr_cons] at ih ⊢; rw [ih, M3.mulVecR_add]

theorem rsum_cast (l : List V3) : rsum (l.map castV) = castV (vsum l) := by
  induction l with
  | nil => simp [rsum, vsum, castV_zero]
  | cons x l ih => simp only [rsum, vsum, List.map_cons, List.foldr_cons] at ih ⊢; rw [ih, castV_add]

/-- the real accumulated rows are the casts of the rows the (coded) rational scatter-add leaves -/
theorem incidentSumR_cast (ts : List Tri) (fn : List V3) (v : Nat) :
    incidentSumR ts (fn.map castV) v = castV (incidentSum ts fn v) := by
  simp only [incidentSumR, incidentSum, List.zip_map_right, List.map_map]
  rw [← rsum_cast, List.map_map]
  congr 1
  apply List.map_congr_left
  intro p _
  simp [Function.comp, castV_smul]

theorem incidentSumR_mulVecR (A : M3) (ts : List Tri) (fn : List R3) (v : Nat) :
    incidentSumR ts (fn.map A.mulVecR) v = A.mulVecR (incidentSumR ts fn v) := by
  simp only [incidentSumR, List.zip_map_right, List.map_map]
  rw [← rsum_map_mulVecR, List.map_map]
  congr 1
  apply List.map_congr_left
  intro p _
  simp [Function.comp, M3.mulVecR_smul]

theorem incidentSumR_no_face (ts : List Tri) (fn : List R3) (v : Nat) (hno : ∀ t ∈ ts, v ∉ t.verts) :
    incidentSumR ts fn v = R3.zero := by
  simp only [incidentSumR]
  induction ts generalizing fn with
  | nil => simp [rsum]
  | cons t ts ih =>
    cases fn with
    | nil => simp [rsum]
    | cons f fn =>
      have h0 : t.verts.count v = 0 := List.count_eq_zero_of_not_mem (hno t List.mem_cons_self)
      have := ih fn (fun t' ht' => hno t' (List.mem_cons_of_mem _ ht'))
      simp only [List.zip_cons_cons, List.map_cons, rsum, List.foldr_cons, h0] at this ⊢
      rw [this]
      ext <;> simp [R3.add, R3.smul, R3.zero]

/-- PROPERTY (vertex normals, ℝ): entry by entry `_normalize` of the sum of the unit normals of the
incident faces — a unit vector when that sum is not zero, the zero row at a vertex without a face. -/
theorem vertexNormalsR_entry (pts : List V3) (ts : List Tri) (v : Nat) (hv : v < pts.length) :
    (vertexNormalsR pts ts)[v]? = some (R3.normalize (incidentSumR ts (faceNormalsR pts ts) v)) ∧
    (incidentSumR ts (faceNormalsR pts ts) v ≠ R3.zero →
      R3.norm (R3.normalize (incidentSumR ts (faceNormalsR pts ts) v)) = 1) ∧
    ((∀ t ∈ ts, v ∉ t.verts) → (vertexNormalsR pts ts)[v]? = some R3.zero) := by
  have hget : (vertexNormalsR pts ts)[v]? = some (R3.normalize (incidentSumR ts (faceNormalsR pts ts) v)) := by
    simp [vertexNormalsR, List.getElem?_map, List.getElem?_range hv]
  refine ⟨hget, fun h => (R3.normalize_unit _ h).2, ?_⟩
  intro hno
  rw [hget]
  have hz := incidentSumR_no_face ts (faceNormalsR pts ts) v hno
  rw [hz, R3.normalize_zero]

/-- PROPERTY (vertex normals, ℝ): independent of the uniform scale of the mesh, rotated with the
mesh, independent of the order in which the triangles are listed. -/
theorem vertexNormalsR_scale (s : Rat) (hs : s ≠ 0) (t : V3) (pts : List V3) (ts : List Tri) :
    vertexNormalsR (pts.map (aff3 (M3.scalar s) t)) ts = vertexNormalsR pts ts := by
  simp only [vertexNormalsR, faceNormalsR_scale s hs, List.length_map]

theorem vertexNormalsR_rotation (A : M3) (hA : A.IsOrtho) (hdet : A.det = 1) (t : V3) (pts : List V3)
    (ts : List Tri) : vertexNormalsR (pts.map (aff3 A t)) ts = (vertexNormalsR pts ts).map A.mulVecR := by
  simp only [vertexNormalsR, faceNormalsR_rotation A hA hdet, List.length_map, List.map_map]
  apply List.map_congr_left
  intro v _
  simp only [Function.comp, incidentSumR_mulVecR, R3.normalize_mulVecR A hA]

theorem incidentSumR_order_independent (ts ts' : List Tri) (g : Tri → R3) (h : ts.Perm ts') (v : Nat) :
    incidentSumR ts (ts.map g) v = incidentSumR ts' (ts'.map g) v := by
  have hz : ∀ l : List Tri, l.zip (l.map g) = l.map (fun t => (t, g t)) := by
    intro l; induction l with
    | nil => rfl
    | cons t l ih => simp [ih]
  simp only [incidentSumR, hz]
  exact rsum_perm ((h.map _).map _)

/-- the rational model (coded scatter-add, any roots satisfying the contract) cast to ℝ is
`vertexNormalsR`: the executable model and the real statement are the same function -/
theorem vertexNormals_cast (rs rs' : List Rat) (pts : List V3) (ts : List Tri)
    (hr : RootsOf rs (meshFaceNormalsRaw pts ts))
    (hr' : RootsOf rs' (vertexNormalSumsCoded pts.length ts (faceNormals rs pts ts))) :
    (vertexNormals rs rs' pts ts).map castV = vertexNormalsR pts ts := by
  apply List.ext_getElem?
  intro v
  by_cases hv : v < pts.length
  · obtain ⟨r, _, hroot, hget, _⟩ := vertex_normal_is_normalised_incident_sum rs rs' pts ts hr' v hv
    rw [List.getElem?_map, hget, (vertexNormalsR_entry pts ts v hv).1, ← faceNormals_cast rs pts ts hr,
      incidentSumR_cast, Option.map_some, normalize1_cast r _ hroot]
  · have hl := hr'.length_eq
    rw [vertexNormalSumsCoded_length] at hl
    rw [List.getElem?_eq_none (by simp [vertexNormals, normalizeRows, vertexNormalSumsCoded_length]; omega),
      List.getElem?_eq_none (by simp [vertexNormalsR]; omega)]


/-! ### the three `np.add.at` passes over ANY commutative monoid of rows (so also over ℝ³)

`Core/C17Mesh.lean` codes the scatter-add on rational rows (what the driver runs); here the same
loop is written over an arbitrary row type with an addition satisfying the commutative-monoid laws
and proved to leave the sum of the incident rows at every vertex.  Instantiated at ℝ³ it shows that
`vertexNormalsR` (defined from the incident sums) IS the coded `compute_vertex_normals` over ℝ. -/

structure AddLaws {α : Type} (add : α → α → α) (zero : α) : Prop where
  assoc : ∀ a b c, add (add a b) c = add a (add b c)
  comm : ∀ a b, add a b = add b a
  add_zero : ∀ a, add a zero = a

namespace Generic
variable {α : Type} (add : α → α → α) (zero : α)

def addAt (acc : List α) (i : Nat) (x : α) : List α := acc.modify i (fun a => add a x)
def scatter (acc : List α) (l : List (Nat × α)) : List α := l.foldl (fun a p => addAt add a p.1 p.2) acc
/-- `vertex_normals = zeros; add.at(.., trilist[:, 0], fn); add.at(.., trilist[:, 1], fn); add.at(.., trilist[:, 2], fn)` -/
def vertexSumsCoded (n : Nat) (ts : List Tri) (fn : List α) : List α :=
  scatter add (scatter add (scatter add (List.replicate n zero) ((ts.map (fun t => t.1)).zip fn))
    ((ts.map (fun t => t.2.1)).zip fn)) ((ts.map (fun t => t.2.2)).zip fn)
def sum (l : List α) : α := l.foldr add zero
def nsmul : Nat → α → α
  | 0, _ => zero
  | k + 1, x => add x (nsmul k x)
def incidentSum (ts : List Tri) (fn : List α) (v : Nat) : α :=
  sum add zero ((ts.zip fn).map (fun p => nsmul add zero (p.1.verts.count v) p.2))

variable {add zero}

theorem zero_add (h : AddLaws add zero) (a : α) : add zero a = a := by rw [h.comm, h.add_zero]

theorem scatter_get (h : AddLaws add zero) (acc : List α) (l : List (Nat × α)) (v : Nat) :
    (scatter add acc l)[v]? =
      acc[v]?.map (fun a => add a (sum add zero ((l.filter (fun p => p.1 == v)).map (fun p => p.2)))) := by
  induction l generalizing acc with
  | nil => cases hh : acc[v]? <;> simp [scatter, hh, sum, h.add_zero]
  | cons p l ih =>
    have := ih (addAt add acc p.1 p.2)
    simp only [scatter, List.foldl_cons] at this ⊢
    rw [this, addAt, List.getElem?_modify]
    cases hh : acc[v]? with
    | none => simp
    | some a =>
      by_cases hp : p.1 = v
      · simp [hp, sum, h.assoc]
      · have hp' : (p.1 == v) = false := by simpa using hp
        simp [hp, hp']

theorem sum_map_add (h : AddLaws add zero) {β} (L : List β) (f g : β → α) :
    sum add zero (L.map (fun p => add (f p) (g p))) = add (sum add zero (L.map f)) (sum add zero (L.map g)) := by
  induction L with
  | nil => simp [sum, h.add_zero]
  | cons p L ih =>
    simp only [sum, List.map_cons, List.foldr_cons] at ih ⊢
    rw [ih, h.assoc, h.assoc]
    congr 1
    rw [← h.assoc, ← h.assoc, h.comm (g p)]

theorem sum_filter_ite (h : AddLaws add zero) {β} (L : List β) (P : β → Bool) (f : β → α) :
    sum add zero ((L.filter P).map f) = sum add zero (L.map (fun p => if P p then f p else zero)) := by
  induction L with
  | nil => rfl
  | cons p L ih =>
    simp only [sum] at ih
    by_cases hp : P p = true
    · simp [hp, sum, ih]
    · simp [hp, sum, ih, zero_add h]

theorem count_verts (h : AddLaws add zero) (t : Tri) (v : Nat) (x : α) :
    nsmul add zero (t.verts.count v) x =
      add (add (if (t.1 == v) = true then x else zero) (if (t.2.1 == v) = true then x else zero))
        (if (t.2.2 == v) = true then x else zero) := by
  obtain ⟨a, b, c⟩ := t
  simp only [Tri.verts, List.count_cons, List.count_nil]
  by_cases h1 : a = v <;> by_cases h2 : b = v <;> by_cases h3 : c = v <;>
    simp [h1, h2, h3, nsmul, h.add_zero, zero_add h, h.assoc]

/-- the coded three-pass scatter-add leaves at every vertex the sum of its incident rows -/
theorem vertexSumsCoded_get (h : AddLaws add zero) (n : Nat) (ts : List Tri) (fn : List α) (v : Nat) (hv : v < n) :
    (vertexSumsCoded add zero n ts fn)[v]? = some (incidentSum add zero ts fn v) := by
  have hz : ∀ g : Tri → Nat, (ts.map g).zip fn = (ts.zip fn).map (fun p => (g p.1, p.2)) := by
    intro g; rw [List.zip_map_left]; rfl
  have hcol : ∀ g : Tri → Nat,
      sum add zero ((((ts.zip fn).map (fun p => (g p.1, p.2))).filter (fun p => p.1 == v)).map (fun p => p.2))
        = sum add zero ((ts.zip fn).map (fun p => if (g p.1 == v) = true then p.2 else zero)) := by
    intro g
    rw [← sum_filter_ite h (ts.zip fn) (fun p => g p.1 == v) (fun p => p.2)]
    simp only [List.filter_map, List.map_map]; rfl
  simp only [vertexSumsCoded]
  rw [scatter_get h, scatter_get h, scatter_get h, hz (fun t => t.1), hz (fun t => t.2.1), hz (fun t => t.2.2),
    hcol (fun t => t.1), hcol (fun t => t.2.1), hcol (fun t => t.2.2)]
  have hrep : (List.replicate n zero)[v]? = some zero := by simp [hv]
  simp only [hrep, Option.map_some, incidentSum]
  rw [zero_add h, ← sum_map_add h, ← sum_map_add h]
  congr 2
  apply List.map_congr_left
  intro p _
  exact (count_verts h p.1 v p.2).symm

end Generic

theorem R3.addLaws : AddLaws R3.add R3.zero :=
  ⟨R3.add_assoc', R3.add_comm', fun a => by ext <;> simp [R3.add, R3.zero]⟩

theorem V3.addLaws : AddLaws V3.add V3.zero := ⟨V3.add_assoc', V3.add_comm', V3.add_zero'⟩

/-- the rational scatter-add of `Core/C17Mesh.lean` is the generic loop at `V3` -/
theorem vertexNormalSumsCoded_generic (n : Nat) (ts : List Tri) (fn : List V3) :
    vertexNormalSumsCoded n ts fn = Generic.vertexSumsCoded V3.add V3.zero n ts fn := rfl

theorem R3.nsmul_eq (k : Nat) (x : R3) : Generic.nsmul R3.add R3.zero k x = R3.smul (k : ℝ) x := by
  induction k with
  | zero => ext <;> simp [Generic.nsmul, R3.smul, R3.zero]
  | succ k ih => rw [Generic.nsmul, ih]; ext <;> simp [R3.add, R3.smul] <;> ring

/-- `compute_vertex_normals` over ℝ as coded — zeros, three `np.add.at`, `_normalize` — is
`vertexNormalsR`: every theorem about `vertexNormalsR` is a theorem about the coded loop. -/
theorem vertexNormalsR_coded (pts : List V3) (ts : List Tri) :
    (Generic.vertexSumsCoded R3.add R3.zero pts.length ts (faceNormalsR pts ts)).map R3.normalize
      = vertexNormalsR pts ts := by
  apply List.ext_getElem?
  intro v
  by_cases hv : v < pts.length
  · rw [List.getElem?_map, Generic.vertexSumsCoded_get R3.addLaws _ _ _ v hv, (vertexNormalsR_entry pts ts v hv).1]
    simp only [Option.map_some, Generic.incidentSum, incidentSumR, R3.nsmul_eq]; rfl
  · have hlen : (Generic.vertexSumsCoded R3.add R3.zero pts.length ts (faceNormalsR pts ts)).length = pts.length := by
      have hs : ∀ (acc : List R3) (l : List (Nat × R3)), (Generic.scatter R3.add acc l).length = acc.length := by
        intro acc l
        induction l generalizing acc with
        | nil => rfl
        | cons p l ih => simp only [Generic.scatter, List.foldl_cons] at ih ⊢; rw [ih]; simp [Generic.addAt]
      simp [Generic.vertexSumsCoded, hs]
    rw [List.getElem?_eq_none (by rw [List.length_map, hlen]; omega),
      List.getElem?_eq_none (by simp [vertexNormalsR]; omega)]

/-! non-vacuity: a triangle with an irrational normal length (√2), its unit normal over ℝ -/
example : faceNormalRaw ⟨0, 0, 0⟩ ⟨1, 0, 0⟩ ⟨0, 1, 1⟩ = ⟨0, -1, 1⟩ ∧ faceNormalRaw ⟨0, 0, 0⟩ ⟨1, 0, 0⟩ ⟨0, 1, 1⟩ ≠ V3.zero := by
  decide +kernel
example : R3.norm (castV ⟨0, -1, 1⟩) = Real.sqrt 2 := by
  rw [R3.norm, normSq_castV]; norm_num [V3.normSq, V3.dot]

end
end MenpoModel.C17
