/-
C17 — mesh masking keeps whole triangles and attributes; mesh geometry is sound.

Property theorems over the executable model `Core/C17Mesh.lean` (marked PROPERTY), each followed by
`example`s showing that its hypotheses are satisfiable on a concrete non-trivial value.
Helper lemmas: Lemmas/C17Mask.lean, Lemmas/C17Boundary.lean (core Lean), Lemmas/C17Geom.lean (Mathlib
tactics).

External contracts (trusted, spot-checked numerically by the harness on every case):
  * `sqrt`: the value returned for `‖v‖` is the non-negative `r` with `r*r = v·v`
    (3-D areas, edge lengths, `_normalize`).  The theorems below speak about the squared quantities
    computed by the model and lift to the roots through `root_unique` / `V3.normalize_unit`.
-/
import MenpoModel.Lemmas.C17Mask
import MenpoModel.Lemmas.C17Boundary
import MenpoModel.Lemmas.C17Geom

namespace MenpoModel.C17

variable {P C T : Type}

/-! ## 1. masking by vertices -/

/-- the same three rows of a per-vertex array are joined before and after -/
def cornersEq {α} (new old : List α) (t' t : Tri) : Prop :=
  new[t'.1]? = old[t.1]? ∧ new[t'.2.1]? = old[t.2.1]? ∧ new[t'.2.2]? = old[t.2.2]?

theorem mem_filter_whole_iso (m : List Bool) (ts : List Tri) (hwf : WF m.length ts) (t : Tri)
    (ht : t ∈ ts.filter (wholeTri m)) (v : Nat) (hv : v ∈ t.verts) :
    (isolatedMask m ts)[v]? = some true := by
  rw [iso_true_iff]
  have ht' : t ∈ maskAdj m ts := by rw [maskAdj_eq_filter_whole m ts hwf]; exact ht
  refine ⟨?_, (present_iff _ _).2 ⟨t, ht', hv⟩⟩
  have hw := (List.mem_filter.1 ht).2
  simp only [wholeTri, List.all_eq_true] at hw
  simpa using hw v hv

/-- PROPERTY (clause "keeps exactly the triangles all of whose vertices survive"): on every
well-formed mesh and every mask of the right length that is not all-true and keeps a triangle,
`from_mask` succeeds and its triangle list is, in order, the list of the triangles whose three
vertices are all kept by the mask (each renumbered by one map `ρ`). -/
theorem mask_keeps_whole_triangles (M : Mesh P C T) (m : List Bool)
    (hlen : m.length = M.pts.length) (hall : m.all id = false)
    (hwf : WF M.pts.length M.tris) (hne : M.tris.filter (wholeTri m) ≠ []) :
    ∃ R ρ, fromMask M m = .ok R ∧ R.tris = (M.tris.filter (wholeTri m)).map (Tri.map ρ) := by
  have hwf' : WF m.length M.tris := by rw [hlen]; exact hwf
  have hne' : maskAdj m M.tris ≠ [] := by rw [maskAdj_eq_filter_whole m M.tris hwf']; exact hne
  exact ⟨_, rank (isolatedMask m M.tris), fromMask_normal M m hlen hall hwf hne', rfl⟩

/-- PROPERTY (clauses "renumbers the triangle list consistently so that every kept triangle still
joins the same three coordinates" and "carries per-vertex colours and texture coordinates along with
their vertices"): the k-th kept triangle of the result joins, through the NEW arrays, exactly the
rows the k-th whole triangle joined through the OLD arrays — for the points and for every
per-vertex array that has one row per vertex (colours, tcoords). -/
theorem renumber_consistent (M : Mesh P C T) (m : List Bool)
    (hlen : m.length = M.pts.length) (hall : m.all id = false)
    (hwf : WF M.pts.length M.tris) (hne : M.tris.filter (wholeTri m) ≠ []) :
    ∃ R, fromMask M m = .ok R ∧ R.tris.length = (M.tris.filter (wholeTri m)).length ∧
      ∀ (k : Nat) (t : Tri), (M.tris.filter (wholeTri m))[k]? = some t →
        ∃ t', R.tris[k]? = some t' ∧ cornersEq R.pts M.pts t' t ∧
          (M.cols.length = M.pts.length → cornersEq R.cols M.cols t' t) ∧
          (M.tcs.length = M.pts.length → cornersEq R.tcs M.tcs t' t) := by
  have hwf' : WF m.length M.tris := by rw [hlen]; exact hwf
  have hne' : maskAdj m M.tris ≠ [] := by rw [maskAdj_eq_filter_whole m M.tris hwf']; exact hne
  refine ⟨_, fromMask_normal M m hlen hall hwf hne', by simp, ?_⟩
  intro k t hk
  have ht : t ∈ M.tris.filter (wholeTri m) := List.mem_of_getElem? hk
  have hiso := mem_filter_whole_iso m M.tris hwf' t ht
  have hil := iso_length m M.tris
  refine ⟨Tri.map (rank (isolatedMask m M.tris)) t, by simp [List.getElem?_map, hk], ?_, ?_, ?_⟩
  · exact ⟨maskFilter_rank _ _ _ (by omega) (hiso t.1 (by simp [Tri.verts])),
      maskFilter_rank _ _ _ (by omega) (hiso t.2.1 (by simp [Tri.verts])),
      maskFilter_rank _ _ _ (by omega) (hiso t.2.2 (by simp [Tri.verts]))⟩
  · intro hc
    exact ⟨maskFilter_rank _ _ _ (by omega) (hiso t.1 (by simp [Tri.verts])),
      maskFilter_rank _ _ _ (by omega) (hiso t.2.1 (by simp [Tri.verts])),
      maskFilter_rank _ _ _ (by omega) (hiso t.2.2 (by simp [Tri.verts]))⟩
  · intro hc
    exact ⟨maskFilter_rank _ _ _ (by omega) (hiso t.1 (by simp [Tri.verts])),
      maskFilter_rank _ _ _ (by omega) (hiso t.2.1 (by simp [Tri.verts])),
      maskFilter_rank _ _ _ (by omega) (hiso t.2.2 (by simp [Tri.verts]))⟩

/-- PROPERTY (clause "drops vertices left without a triangle"): the vertices of the result are the
rows selected by ONE boolean vector `keep` (the same for points, colours and tcoords), and `keep v`
holds exactly when the mask keeps `v` AND `v` belongs to a triangle that survives whole. -/
theorem mask_drops_orphans (M : Mesh P C T) (m : List Bool)
    (hlen : m.length = M.pts.length) (hall : m.all id = false)
    (hwf : WF M.pts.length M.tris) (hne : M.tris.filter (wholeTri m) ≠ []) :
    ∃ R keep, fromMask M m = .ok R ∧ keep.length = m.length ∧
      R.pts = maskFilter M.pts keep ∧ R.cols = maskFilter M.cols keep ∧ R.tcs = maskFilter M.tcs keep ∧
      ∀ v, keep[v]? = some true ↔
        (m[v]? = some true ∧ ∃ t ∈ M.tris, wholeTri m t = true ∧ v ∈ t.verts) := by
  have hwf' : WF m.length M.tris := by rw [hlen]; exact hwf
  have hne' : maskAdj m M.tris ≠ [] := by rw [maskAdj_eq_filter_whole m M.tris hwf']; exact hne
  refine ⟨_, isolatedMask m M.tris, fromMask_normal M m hlen hall hwf hne', iso_length _ _,
    rfl, rfl, rfl, ?_⟩
  intro v
  rw [iso_true_iff, present_iff, maskAdj_eq_filter_whole m M.tris hwf']
  simp only [List.mem_filter]
  constructor
  · rintro ⟨h1, t, ⟨ht, hw⟩, hv⟩; exact ⟨h1, t, ht, hw, hv⟩
  · rintro ⟨h1, t, ht, hw, hv⟩; exact ⟨h1, t, ⟨ht, hw⟩, hv⟩

/-- PROPERTY (same clause, seen from the result): no vertex of the result is left without a
triangle, every index of the new triangle list is valid, and the per-vertex arrays keep one row per
vertex. -/
theorem mask_result_wellformed (M : Mesh P C T) (m : List Bool)
    (hlen : m.length = M.pts.length) (hall : m.all id = false)
    (hwf : WF M.pts.length M.tris) (hne : M.tris.filter (wholeTri m) ≠ []) :
    ∃ R, fromMask M m = .ok R ∧ (∀ j, j < R.pts.length → present R.tris j = true) ∧
      WF R.pts.length R.tris ∧
      (M.cols.length = M.pts.length → R.cols.length = R.pts.length) ∧
      (M.tcs.length = M.pts.length → R.tcs.length = R.pts.length) := by
  have hwf' : WF m.length M.tris := by rw [hlen]; exact hwf
  have hne' : maskAdj m M.tris ≠ [] := by rw [maskAdj_eq_filter_whole m M.tris hwf']; exact hne
  have hil := iso_length m M.tris
  refine ⟨_, fromMask_normal M m hlen hall hwf hne', ?_, ?_, ?_, ?_⟩
  · intro j hj
    obtain ⟨v, hv, hr⟩ := rank_surj M.pts (isolatedMask m M.tris) (by omega) j hj
    obtain ⟨_, hp⟩ := (iso_true_iff m M.tris v).1 hv
    obtain ⟨t, ht, hvt⟩ := (present_iff _ _).1 hp
    rw [maskAdj_eq_filter_whole m M.tris hwf'] at ht
    refine (present_iff _ _).2 ⟨Tri.map (rank (isolatedMask m M.tris)) t, List.mem_map.2 ⟨t, ht, rfl⟩, ?_⟩
    exact (mem_verts_map _ _ _).2 ⟨v, hvt, hr⟩
  · intro t' ht' w hw
    obtain ⟨t, ht, rfl⟩ := List.mem_map.1 ht'
    obtain ⟨v, hv, rfl⟩ := (mem_verts_map _ _ _).1 hw
    exact rank_lt M.pts _ v (by omega) (mem_filter_whole_iso m M.tris hwf' t ht v hv)
  · intro hc; exact maskFilter_length_eq _ _ _ hc
  · intro hc; exact maskFilter_length_eq _ _ _ hc

/-- PROPERTY (all-true masks): nothing is removed and nothing is renumbered. -/
theorem mask_all_true_identity (M : Mesh P C T) (m : List Bool)
    (hlen : m.length = M.pts.length) (hall : m.all id = true) : fromMask M m = .ok M := by
  simp [fromMask, hlen, hall]

/-- the exact guards of the two error branches (the property's quantifier excludes both) -/
theorem mask_wrong_length_raises (M : Mesh P C T) (m : List Bool) (hlen : m.length ≠ M.pts.length) :
    fromMask M m = .error .shape := by
  simp [fromMask, hlen]

theorem mask_no_triangle_raises (M : Mesh P C T) (m : List Bool)
    (hlen : m.length = M.pts.length) (hall : m.all id = false) (hnone : maskAdj m M.tris = []) :
    fromMask M m = .error .empty := by
  simp [fromMask, hlen, hall, maskAdj_iso, hnone, reindex]

/-! ## 2. masking by triangles -/

theorem mem_of_mem_maskFilter {α} (l : List α) (m : List Bool) (x : α) (h : x ∈ maskFilter l m) : x ∈ l := by
  induction l generalizing m with
  | nil => cases m <;> simp [maskFilter] at h
  | cons y ys ih =>
    cases m with
    | nil => simp [maskFilter] at h
    | cons b bs =>
      cases b
      · simp only [maskFilter] at h; exact List.mem_cons_of_mem _ (ih bs h)
      · simp only [maskFilter, if_true, List.mem_cons] at h
        rcases h with h | h
        · subst h; exact List.mem_cons_self
        · exact List.mem_cons_of_mem _ (ih bs h)

/-- PROPERTY (masking "by triangles"): `from_tri_mask` is `from_mask` with the vertex mask that keeps
exactly the vertices of the selected triangles … -/
theorem tri_mask_eq_vertex_mask (M : Mesh P C T) (tm : List Bool) (h : tm.length = M.tris.length) :
    fromTriMask M tm = fromMask M (triPointMask M.pts.length M.tris tm) ∧
    (triPointMask M.pts.length M.tris tm).length = M.pts.length ∧
    ∀ v, (triPointMask M.pts.length M.tris tm)[v]? = some true ↔
      (v < M.pts.length ∧ ∃ t ∈ maskFilter M.tris tm, v ∈ t.verts) := by
  refine ⟨by simp [fromTriMask, h], by simp [triPointMask], ?_⟩
  intro v
  simp only [triPointMask, List.getElem?_map]
  by_cases hv : v < M.pts.length
  · simp [hv, present_iff]
  · simp [hv]

/-- … so every selected triangle survives whole (and so do the unselected triangles all of whose
vertices belong to selected ones — "keeps exactly the triangles all of whose vertices survive"). -/
theorem tri_mask_keeps_selected (M : Mesh P C T) (tm : List Bool)
    (hwf : WF M.pts.length M.tris) (t : Tri) (ht : t ∈ maskFilter M.tris tm) :
    t ∈ M.tris.filter (wholeTri (triPointMask M.pts.length M.tris tm)) := by
  have htm := mem_of_mem_maskFilter _ _ _ ht
  refine List.mem_filter.2 ⟨htm, ?_⟩
  simp only [wholeTri, List.all_eq_true, beq_iff_eq]
  intro v hv
  have hlt := hwf t htm v hv
  simp only [triPointMask, List.getElem?_map, List.getElem?_range hlt, Option.map_some, Option.some.injEq]
  exact (present_iff _ _).2 ⟨t, ht, hv⟩

/-! ### non-vacuity: a 6-vertex mesh with an isolated triangle, a mask leaving an orphan -/

def exMesh : Mesh Nat Nat Nat :=
  { pts := [10, 11, 12, 13, 14, 15, 16], cols := [20, 21, 22, 23, 24, 25, 26], tcs := [30, 31, 32, 33, 34, 35, 36],
    tris := [(0, 1, 2), (1, 3, 2), (4, 5, 6)] }
/-- vertex 1 is removed: both triangles of the strip die, 0 2 3 become orphans, the isolated triangle stays -/
def exMask : List Bool := [true, false, true, true, true, true, true]
/-- vertex 0 removed: (1,3,2) and (4,5,6) stay, renumbered -/
def exMask2 : List Bool := [false, true, true, true, true, true, true]

instance (n : Nat) (ts : List Tri) : Decidable (WF n ts) := by unfold WF; exact inferInstance

example : exMask.length = exMesh.pts.length ∧ exMask.all id = false ∧ WF exMesh.pts.length exMesh.tris ∧
    exMesh.tris.filter (wholeTri exMask) ≠ [] ∧ exMesh.cols.length = exMesh.pts.length ∧
    exMesh.tcs.length = exMesh.pts.length := by decide
example : (fromMask exMesh exMask).toOption.map (·.pts) = some [14, 15, 16] ∧
    (fromMask exMesh exMask).toOption.map (·.cols) = some [24, 25, 26] ∧
    (fromMask exMesh exMask).toOption.map (·.tcs) = some [34, 35, 36] ∧
    (fromMask exMesh exMask).toOption.map (·.tris) = some [(0, 1, 2)] := by decide
example : (fromMask exMesh exMask2).toOption.map (·.pts) = some [11, 12, 13, 14, 15, 16] ∧
    (fromMask exMesh exMask2).toOption.map (·.tris) = some [(0, 2, 1), (3, 4, 5)] := by decide
example : (fromTriMask exMesh [false, true, false]).toOption.map (·.pts) = some [11, 12, 13] ∧
    (fromTriMask exMesh [false, true, false]).toOption.map (·.tris) = some [(0, 2, 1)] := by decide
example : (fromMask exMesh [false, false, true, true, false, true, true]).toOption.map (·.pts) = none ∧
    maskAdj [false, false, true, true, false, true, true] exMesh.tris = [] := by decide

/-! ## 3. areas and edge lengths -/

/-- PROPERTY (2-D areas, exact): non-negative … -/
theorem area2_nonneg (a b c : V2) : 0 ≤ area2 a b c := absQ_nonneg _

/-- … unchanged by every rigid motion `p ↦ A p + t`, `AᵀA = 1` (rotations and reflections) … -/
theorem area2_rigid_invariant (A : M2) (hA : A.IsOrtho) (t a b c : V2) :
    area2 (aff2 A t a) (aff2 A t b) (aff2 A t c) = area2 a b c := by
  rw [area2_aff, absQ_of_sq_one _ (M2.det_sq_of_ortho A hA), one_mul]

/-- … and multiplied by `s²` by the uniform scaling `p ↦ s p (+ t)`. -/
theorem area2_scales (s : Rat) (t a b c : V2) :
    area2 (aff2 (M2.scalar s) t a) (aff2 (M2.scalar s) t b) (aff2 (M2.scalar s) t c) = s ^ 2 * area2 a b c := by
  rw [area2_aff]
  have : (M2.scalar s).det = s * s := by simp [M2.det, M2.scalar]
  rw [this, absQ_mul_self]; ring

/-- PROPERTY (3-D areas; the model computes the square, `area = sqrt areaSq3` is the contract) -/
theorem areaSq3_nonneg (a b c : V3) : 0 ≤ areaSq3 a b c := by
  unfold areaSq3; have := V3.normSq_nonneg (areaVec3 a b c); linarith

theorem areaSq3_rigid_invariant (A : M3) (hA : A.IsOrtho) (t a b c : V3) :
    areaSq3 (aff3 A t a) (aff3 A t b) (aff3 A t c) = areaSq3 a b c := by
  simp only [areaSq3, areaVec3, V3.sub_aff, V3.normSq_cross, V3.dot_mulVec_ortho A hA,
    V3.normSq_mulVec_ortho A hA]

theorem areaSq3_scales (s : Rat) (t a b c : V3) :
    areaSq3 (aff3 (M3.scalar s) t a) (aff3 (M3.scalar s) t b) (aff3 (M3.scalar s) t c)
      = s ^ 4 * areaSq3 a b c := by
  simp only [areaSq3, areaVec3, V3.sub_aff, V3.cross_scalar]
  simp only [V3.normSq, V3.dot, V3.smul]; ring

/-- lifting through the `sqrt` contract: the non-negative roots are equal / scale by `s²` -/
theorem area3_rigid_invariant_root (A : M3) (hA : A.IsOrtho) (t a b c : V3) (r r' : Rat)
    (hr : 0 ≤ r) (hr' : 0 ≤ r') (h : r * r = areaSq3 a b c)
    (h' : r' * r' = areaSq3 (aff3 A t a) (aff3 A t b) (aff3 A t c)) : r' = r := by
  rw [areaSq3_rigid_invariant A hA] at h'
  exact root_unique r' r hr' hr (by rw [h, h'])

theorem area3_scales_root (s : Rat) (t a b c : V3) (r r' : Rat)
    (hr : 0 ≤ r) (hr' : 0 ≤ r') (h : r * r = areaSq3 a b c)
    (h' : r' * r' = areaSq3 (aff3 (M3.scalar s) t a) (aff3 (M3.scalar s) t b) (aff3 (M3.scalar s) t c)) :
    r' = s ^ 2 * r := by
  rw [areaSq3_scales] at h'
  refine root_unique r' (s ^ 2 * r) hr' (mul_nonneg (sq_nonneg s) hr) ?_
  rw [h', ← h]; ring

/-- PROPERTY (edge lengths; squares computed by the model): non-negative, rigid-invariant, scale by
`s²` on the square, hence by `|s|` on the length. -/
theorem edgeSq2_nonneg (a b c : V2) : ∀ q ∈ edgeSq2 a b c, 0 ≤ q := by
  intro q hq
  simp only [edgeSq2, edgeVecs2, List.map_cons, List.map_nil, List.mem_cons, List.not_mem_nil, or_false] at hq
  rcases hq with h | h | h <;> subst h <;> exact V2.normSq_nonneg _

theorem edgeSq3_nonneg (a b c : V3) : ∀ q ∈ edgeSq3 a b c, 0 ≤ q := by
  intro q hq
  simp only [edgeSq3, edgeVecs3, List.map_cons, List.map_nil, List.mem_cons, List.not_mem_nil, or_false] at hq
  rcases hq with h | h | h <;> subst h <;> exact V3.normSq_nonneg _

theorem edgeSq2_rigid_invariant (A : M2) (hA : A.IsOrtho) (t a b c : V2) :
    edgeSq2 (aff2 A t a) (aff2 A t b) (aff2 A t c) = edgeSq2 a b c := by
  simp [edgeSq2, edgeVecs2, V2.sub_aff, V2.normSq_mulVec_ortho A hA]

theorem edgeSq3_rigid_invariant (A : M3) (hA : A.IsOrtho) (t a b c : V3) :
    edgeSq3 (aff3 A t a) (aff3 A t b) (aff3 A t c) = edgeSq3 a b c := by
  simp [edgeSq3, edgeVecs3, V3.sub_aff, V3.normSq_mulVec_ortho A hA]

theorem edgeSq2_scales (s : Rat) (t a b c : V2) :
    edgeSq2 (aff2 (M2.scalar s) t a) (aff2 (M2.scalar s) t b) (aff2 (M2.scalar s) t c)
      = (edgeSq2 a b c).map (fun q => s ^ 2 * q) := by
  simp [edgeSq2, edgeVecs2, V2.sub_aff, V2.normSq_scalar]

theorem edgeSq3_scales (s : Rat) (t a b c : V3) :
    edgeSq3 (aff3 (M3.scalar s) t a) (aff3 (M3.scalar s) t b) (aff3 (M3.scalar s) t c)
      = (edgeSq3 a b c).map (fun q => s ^ 2 * q) := by
  simp [edgeSq3, edgeVecs3, V3.sub_aff, V3.normSq_scalar]

/-- the length itself (non-negative root, `sqrt` contract) scales by `|s|` -/
theorem edge_length_scales_root (s q r r' : Rat) (hr : 0 ≤ r) (hr' : 0 ≤ r') (h : r * r = q)
    (h' : r' * r' = s ^ 2 * q) : r' = |s| * r := by
  refine root_unique r' (|s| * r) hr' (mul_nonneg (abs_nonneg s) hr) ?_
  rw [h', ← h]
  have : |s| * |s| = s * s := abs_mul_abs_self s
  calc s ^ 2 * (r * r) = (s * s) * (r * r) := by ring
    _ = (|s| * |s|) * (r * r) := by rw [this]
    _ = |s| * r * (|s| * r) := by ring

/-! non-vacuity: a rational rotation (3-4-5), a 3-D rotation from a quaternion, a scale -/
def exR2 : M2 := ⟨3/5, -4/5, 4/5, 3/5⟩
def exR3 : M3 := ⟨1/3, -2/3, 2/3, 2/3, 2/3, 1/3, -2/3, 1/3, 2/3⟩
example : exR2.IsOrtho ∧ exR2.det = 1 := by decide +kernel
example : exR3.IsOrtho ∧ exR3.det = 1 := by decide +kernel
example : area2 ⟨0, 0⟩ ⟨4, 0⟩ ⟨1, 3⟩ = 6 ∧
    area2 (aff2 exR2 ⟨7, -2⟩ ⟨0, 0⟩) (aff2 exR2 ⟨7, -2⟩ ⟨4, 0⟩) (aff2 exR2 ⟨7, -2⟩ ⟨1, 3⟩) = 6 := by decide +kernel
example : areaSq3 ⟨0, 0, 0⟩ ⟨4, 0, 0⟩ ⟨1, 3, 5⟩ = 136 ∧
    areaSq3 (aff3 exR3 ⟨1, 2, 3⟩ ⟨0, 0, 0⟩) (aff3 exR3 ⟨1, 2, 3⟩ ⟨4, 0, 0⟩) (aff3 exR3 ⟨1, 2, 3⟩ ⟨1, 3, 5⟩) = 136 := by
  decide +kernel
example : (0 : Rat) ≤ 6 ∧ (0 : Rat) ≤ 24 ∧ (6 : Rat) * 6 = 36 ∧ (24 : Rat) * 24 = 2 ^ 4 * 36 := by decide +kernel

/-! ## 4. normals -/

/-- PROPERTY ("triangle normals are perpendicular to their triangle"): the vector that
`compute_face_normals` normalises is orthogonal to the three edge vectors; a positive multiple
(the normalisation) keeps that. -/
theorem normal_perpendicular (a b c : V3) :
    V3.dot (faceNormalRaw a b c) (V3.sub b a) = 0 ∧ V3.dot (faceNormalRaw a b c) (V3.sub c a) = 0 ∧
    V3.dot (faceNormalRaw a b c) (V3.sub c b) = 0 := by
  refine ⟨V3.cross_dot_left _ _, V3.cross_dot_right _ _, ?_⟩
  simp only [faceNormalRaw, V3.dot, V3.cross, V3.sub]; ring

theorem smul_perpendicular (k : Rat) (n e : V3) (h : V3.dot n e = 0) : V3.dot (V3.smul k n) e = 0 := by
  have : V3.dot (V3.smul k n) e = k * V3.dot n e := by simp only [V3.dot, V3.smul]; ring
  rw [this, h, mul_zero]

/-- PROPERTY ("follow rotations"): `n(Ap + t) = det A • A n(p)` for `AᵀA = 1`; for a rotation
(`det A = 1`) the un-normalised normal is rotated with the mesh and keeps its norm, … -/
theorem normal_follows_rotation (A : M3) (hA : A.IsOrtho) (t a b c : V3) :
    faceNormalRaw (aff3 A t a) (aff3 A t b) (aff3 A t c)
      = V3.smul A.det (A.mulVec (faceNormalRaw a b c)) ∧
    V3.normSq (faceNormalRaw (aff3 A t a) (aff3 A t b) (aff3 A t c)) = V3.normSq (faceNormalRaw a b c) := by
  constructor
  · simp only [faceNormalRaw, V3.sub_aff, V3.cross_mulVec_ortho A hA]
  · simp only [faceNormalRaw, V3.sub_aff, V3.normSq_cross, V3.dot_mulVec_ortho A hA,
      V3.normSq_mulVec_ortho A hA]

/-- … so the unit normals (normalised through the `sqrt` contract) satisfy `n̂' = A n̂`. -/
theorem unit_normal_follows_rotation (A : M3) (hA : A.IsOrtho) (hdet : A.det = 1) (t a b c : V3)
    (r r' : Rat) (hr : 0 < r) (hr' : 0 < r') (h : r * r = V3.normSq (faceNormalRaw a b c))
    (h' : r' * r' = V3.normSq (faceNormalRaw (aff3 A t a) (aff3 A t b) (aff3 A t c))) :
    V3.smul (1 / r') (faceNormalRaw (aff3 A t a) (aff3 A t b) (aff3 A t c))
      = A.mulVec (V3.smul (1 / r) (faceNormalRaw a b c)) := by
  obtain ⟨h1, h2⟩ := normal_follows_rotation A hA t a b c
  have hrr : r' = r := root_unique r' r (le_of_lt hr') (le_of_lt hr) (by rw [h', h2, h])
  rw [h1, hdet, hrr]
  ext <;> simp [V3.smul, M3.mulVec] <;> ring

/-- PROPERTY ("triangle and vertex normals are unit vectors"): `_normalize` divides by a root of the
squared norm; whenever that norm is not zero the result has squared norm 1.  Applies to the face
normal (`n = faceNormalRaw a b c`) and to the vertex normal (`n` = an entry of `vertexNormalSums`). -/
theorem normal_unit (n : V3) (r : Rat) (hr : r * r = V3.normSq n) (h0 : r ≠ 0) :
    V3.normSq (V3.smul (1 / r) n) = 1 := V3.normalize_unit n r hr h0

theorem vertex_normal_unit (nv : Nat) (ts : List Tri) (fn : List V3) (v : Nat) (s : V3)
    (_hs : (vertexNormalSums nv ts fn)[v]? = some s) (r : Rat) (hr : r * r = V3.normSq s) (h0 : r ≠ 0) :
    V3.normSq (V3.smul (1 / r) s) = 1 := V3.normalize_unit s r hr h0

/-! non-vacuity: a triangle whose normal has rational length 3·… , rotated by `exR3` -/
example : faceNormalRaw ⟨0, 0, 0⟩ ⟨1, 2, 2⟩ ⟨2, 1, -2⟩ = ⟨-6, 6, -3⟩ ∧
    (9 : Rat) * 9 = V3.normSq ⟨-6, 6, -3⟩ ∧ (9 : Rat) ≠ 0 := by decide +kernel
example : (vertexNormalSums 4 [(0, 1, 2), (0, 2, 3)] [⟨0, 0, 1⟩, ⟨0, 3/5, 4/5⟩])[2]? = some ⟨0, 3/5, 9/5⟩ := by
  decide +kernel

/-! ## 5. boundary detection and unique edges -/

/-- an undirected edge is *unshared* when exactly one (triangle, side) slot carries it -/
def unshared (ts : List Tri) (e : Edge) : Prop := mult ts e = 1

/-- PROPERTY (specification of `boundary_tri_index`, stated outright): the k-th flag is set exactly
when the k-th triangle owns an unshared edge. -/
theorem boundary_flags_exactly (ts : List Tri) (k : Nat) :
    (boundarySpec ts).length = ts.length ∧
    ((boundarySpec ts)[k]? = some true ↔ ∃ t, ts[k]? = some t ∧ ∃ e ∈ t.edges, unshared ts e) := by
  refine ⟨by simp [boundarySpec], ?_⟩
  simp only [boundarySpec, List.getElem?_map, unshared]
  cases h : ts[k]? with
  | none => simp
  | some t => simp [List.any_eq_true]

/-- PROPERTY for the REPAIRED code (notes/fixes/C17-boundary-count.diff): on every well-formed mesh —
closed, with isolated triangles, with edges shared by three or more triangles — the computed index
is the specification. -/
theorem boundary_fixed_eq_spec (n : Nat) (ts : List Tri) (hwf : WF n ts) :
    boundaryCount n ts = boundarySpec ts := boundaryCount_eq_spec n ts hwf

/-- The ORIGINAL code agrees with the specification when every edge is shared by at most two
triangles and the mesh has a boundary … -/
theorem boundary_spec_manifold (ts : List Tri) (h2 : ∀ e, mult ts e ≤ 2)
    (h1 : ∃ e ∈ edgeIndices ts, mult ts e = 1) : boundaryCoded ts = .ok (boundarySpec ts) :=
  boundaryCoded_manifold ts h2 h1

/-- … it RAISES on every mesh without an odd-multiplicity edge — in particular on every closed
manifold mesh (all multiplicities 2), where the specification is the all-false index … -/
theorem boundary_coded_raises_iff (ts : List Tri) :
    boundaryCoded ts = .error .index ↔ ∀ e, mult ts e % 2 = 0 := boundaryCoded_error_iff ts

/-- … and it is REFUTED on non-manifold meshes.  Witnesses: a closed tetrahedron (raises), and a
tetrahedron with a second apex glued on one face (three edges of multiplicity 3, no unshared edge:
the original code flags the three extra triangles). -/
def tetra : List Tri := [(0, 2, 1), (0, 1, 3), (0, 3, 2), (1, 2, 3)]
def twoApex : List Tri := tetra ++ [(0, 1, 4), (1, 2, 4), (2, 0, 4)]

theorem boundary_coded_refuted_closed :
    boundaryCoded tetra = .error .index ∧ boundarySpec tetra = [false, false, false, false] ∧
    boundaryCount 4 tetra = [false, false, false, false] := by decide

theorem boundary_coded_refuted_nonmanifold :
    boundaryCoded twoApex = .ok [false, false, false, false, true, true, true] ∧
    boundarySpec twoApex = [false, false, false, false, false, false, false] ∧
    boundaryCount 5 twoApex = boundarySpec twoApex := by decide

/-! non-vacuity of `boundary_spec_manifold`: the mesh of menpo's own test -/
def testMesh : List Tri := [(0, 2, 3), (2, 0, 1), (4, 0, 3), (0, 5, 1), (4, 5, 0), (5, 4, 6)]
example : boundaryCoded testMesh = .ok [true, true, true, true, false, true] ∧
    boundarySpec testMesh = [true, true, true, true, false, true] ∧
    (∃ e ∈ edgeIndices testMesh, mult testMesh e = 1) ∧ WF 7 testMesh := by decide
example : ∀ e ∈ sortedEdges testMesh, mult testMesh e ≤ 2 := by decide

/-- PROPERTY ("unique edges list each undirected edge once"): no repetition, every listed pair is
ordered `lo ≤ hi`, and a pair is listed iff it is (the sorted form of) a side of some triangle. -/
theorem unique_edges_once (ts : List Tri) :
    (uniqueEdges ts).Nodup ∧ (∀ e ∈ uniqueEdges ts, e.1 ≤ e.2) ∧
    (∀ e, e ∈ uniqueEdges ts ↔ ∃ t ∈ ts, ∃ e' ∈ t.edges, sortEdge e' = e) ∧
    (∀ a b, (a, b) ∈ uniqueEdges ts → a ≠ b → (b, a) ∉ uniqueEdges ts) := by
  have hmem : ∀ e, e ∈ uniqueEdges ts ↔ ∃ t ∈ ts, ∃ e' ∈ t.edges, sortEdge e' = e := by
    intro e
    simp only [uniqueEdges, mem_dedup, sortedEdges, edgeIndices, List.mem_map, List.mem_flatMap]
    constructor
    · rintro ⟨e', ⟨t, ht, he'⟩, rfl⟩; exact ⟨t, ht, e', he', rfl⟩
    · rintro ⟨t, ht, e', he', rfl⟩; exact ⟨e', ⟨t, ht, he'⟩, rfl⟩
  have hle : ∀ e ∈ uniqueEdges ts, e.1 ≤ e.2 := by
    intro e he
    obtain ⟨t, _, e', _, rfl⟩ := (hmem e).1 he
    exact sortEdge_le e'
  refine ⟨nodup_dedup _, hle, hmem, ?_⟩
  intro a b hab hne hba
  have h1 := hle _ hab
  have h2 := hle _ hba
  simp only at h1 h2
  omega

example : edgeIndices [(0, 1, 2), (2, 1, 3)] = [(0, 1), (1, 2), (2, 0), (2, 1), (1, 3), (3, 2)] ∧
    uniqueEdges [(0, 1, 2), (2, 1, 3)] = [(0, 1), (0, 2), (1, 2), (1, 3), (2, 3)] := by decide

end MenpoModel.C17
