/-
C17 — mesh masking keeps whole triangles and attributes; mesh geometry is sound.

Property theorems over the executable model `Core/C17Mesh.lean` (marked PROPERTY), each followed by
`example`s showing that its hypotheses are satisfiable on a concrete non-trivial value.
Helper lemmas: Lemmas/C17Mask.lean, Lemmas/C17Boundary.lean (core Lean), Lemmas/C17Geom.lean (Mathlib
tactics).

External contracts (trusted, spot-checked numerically by the harness on every case):
  * `sqrt`: the value returned for `‖v‖` is the non-negative `r` with `r*r = v·v`
    (3-D areas, edge lengths, `_normalize`).  The theorems below speak about the squared quantities
    computed by the model and lift to the roots through `root_unique` / `V3.normalize_unit`.
-/
import MenpoModel.Lemmas.C17Mask
import MenpoModel.Lemmas.C17Boundary
import MenpoModel.Lemmas.C17Geom
import MenpoModel.Lemmas.C17Vertex
import MenpoModel.Lemmas.C17Edges
import MenpoModel.Lemmas.C17Grid

namespace MenpoModel.C17

variable {P C T : Type}

/-! ## 1. masking by vertices -/

/-- the same three rows of a per-vertex array are joined before and after -/
def cornersEq {α} (new old : List α) (t' t : Tri) : Prop :=
  new[t'.1]? = old[t.1]? ∧ new[t'.2.1]? = old[t.2.1]? ∧ new[t'.2.2]? = old[t.2.2]?

theorem mem_filter_whole_iso (m : List Bool) (ts : List Tri) (hwf : WF m.length ts) (t : Tri)
    (ht : t ∈ ts.filter (wholeTri m)) (v : Nat) (hv : v ∈ t.verts) :
    (isolatedMask m ts)[v]? = some true := by
  rw [iso_true_iff]
  have ht' : t ∈ maskAdj m ts := by rw [maskAdj_eq_filter_whole m ts hwf]; exact ht
  refine ⟨?_, (present_iff _ _).2 ⟨t, ht', hv⟩⟩
  have hw := (List.mem_filter.1 ht).2
  simp only [wholeTri, List.all_eq_true] at hw
  simpa using hw v hv

/-- PROPERTY (clause "keeps exactly the triangles all of whose vertices survive"): on every
well-formed mesh and every mask of the right length that is not all-true and keeps a triangle,
`from_mask` succeeds and its triangle list is, in order, the list of the triangles whose three
vertices are all kept by the mask, each renumbered by one map `ρ` that is monotone and identifies no two vertices of
the kept triangles (so the renumbering is a relabelling, not a collapse). -/
theorem mask_keeps_whole_triangles (M : Mesh P C T) (m : List Bool)
    (hlen : m.length = M.pts.length) (hall : m.all id = false)
    (hwf : WF M.pts.length M.tris) (hne : M.tris.filter (wholeTri m) ≠ []) :
    ∃ R ρ, fromMask M m = .ok R ∧ R.tris = (M.tris.filter (wholeTri m)).map (Tri.map ρ) ∧
      (∀ a b, a ≤ b → ρ a ≤ ρ b) ∧
      (∀ t ∈ M.tris.filter (wholeTri m), ∀ t' ∈ M.tris.filter (wholeTri m), ∀ v ∈ t.verts, ∀ w ∈ t'.verts,
        ρ v = ρ w → v = w) := by
  have hwf' : WF m.length M.tris := by rw [hlen]; exact hwf
  have hne' : maskAdj m M.tris ≠ [] := by rw [maskAdj_eq_filter_whole m M.tris hwf']; exact hne
  refine ⟨_, rank (isolatedMask m M.tris), fromMask_normal M m hlen hall hwf hne', rfl, rank_mono _, ?_⟩
  intro t ht t' ht' v hv w hw h
  exact rank_inj _ v w (mem_filter_whole_iso m M.tris hwf' t ht v hv)
    (mem_filter_whole_iso m M.tris hwf' t' ht' w hw) h

/-- PROPERTY (clauses "renumbers the triangle list consistently so that every kept triangle still
joins the same three coordinates" and "carries per-vertex colours and texture coordinates along with
their vertices"): the k-th kept triangle of the result joins, through the NEW arrays, exactly the
rows the k-th whole triangle joined through the OLD arrays — for the points and for every
per-vertex array that has one row per vertex (colours, tcoords). -/
theorem renumber_consistent (M : Mesh P C T) (m : List Bool)
    (hlen : m.length = M.pts.length) (hall : m.all id = false)
    (hwf : WF M.pts.length M.tris) (hne : M.tris.filter (wholeTri m) ≠ []) :
    ∃ R, fromMask M m = .ok R ∧ R.tris.length = (M.tris.filter (wholeTri m)).length ∧
      ∀ (k : Nat) (t : Tri), (M.tris.filter (wholeTri m))[k]? = some t →
        ∃ t', R.tris[k]? = some t' ∧ cornersEq R.pts M.pts t' t ∧
          (M.cols.length = M.pts.length → cornersEq R.cols M.cols t' t) ∧
          (M.tcs.length = M.pts.length → cornersEq R.tcs M.tcs t' t) := by
  have hwf' : WF m.length M.tris := by rw [hlen]; exact hwf
  have hne' : maskAdj m M.tris ≠ [] := by rw [maskAdj_eq_filter_whole m M.tris hwf']; exact hne
  refine ⟨_, fromMask_normal M m hlen hall hwf hne', by simp, ?_⟩
  intro k t hk
  have ht : t ∈ M.tris.filter (wholeTri m) := List.mem_of_getElem? hk
  have hiso := mem_filter_whole_iso m M.tris hwf' t ht
  have hil := iso_length m M.tris
  refine ⟨Tri.map (rank (isolatedMask m M.tris)) t, by simp [List.getElem?_map, hk], ?_, ?_, ?_⟩
  · exact ⟨maskFilter_rank _ _ _ (by omega) (hiso t.1 (by simp [Tri.verts])),
      maskFilter_rank _ _ _ (by omega) (hiso t.2.1 (by simp [Tri.verts])),
      maskFilter_rank _ _ _ (by omega) (hiso t.2.2 (by simp [Tri.verts]))⟩
  · intro hc
    exact ⟨maskFilter_rank _ _ _ (by omega) (hiso t.1 (by simp [Tri.verts])),
      maskFilter_rank _ _ _ (by omega) (hiso t.2.1 (by simp [Tri.verts])),
      maskFilter_rank _ _ _ (by omega) (hiso t.2.2 (by simp [Tri.verts]))⟩
  · intro hc
    exact ⟨maskFilter_rank _ _ _ (by omega) (hiso t.1 (by simp [Tri.verts])),
      maskFilter_rank _ _ _ (by omega) (hiso t.2.1 (by simp [Tri.verts])),
      maskFilter_rank _ _ _ (by omega) (hiso t.2.2 (by simp [Tri.verts]))⟩

/-- PROPERTY (clause "drops vertices left without a triangle"): the vertices of the result are the
rows selected by ONE boolean vector `keep` (the same for points, colours and tcoords), and `keep v`
holds exactly when the mask keeps `v` AND `v` belongs to a triangle that survives whole. -/
theorem mask_drops_orphans (M : Mesh P C T) (m : List Bool)
    (hlen : m.length = M.pts.length) (hall : m.all id = false)
    (hwf : WF M.pts.length M.tris) (hne : M.tris.filter (wholeTri m) ≠ []) :
    ∃ R keep, fromMask M m = .ok R ∧ keep.length = m.length ∧
      R.pts = maskFilter M.pts keep ∧ R.cols = maskFilter M.cols keep ∧ R.tcs = maskFilter M.tcs keep ∧
      ∀ v, keep[v]? = some true ↔
        (m[v]? = some true ∧ ∃ t ∈ M.tris, wholeTri m t = true ∧ v ∈ t.verts) := by
  have hwf' : WF m.length M.tris := by rw [hlen]; exact hwf
  have hne' : maskAdj m M.tris ≠ [] := by rw [maskAdj_eq_filter_whole m M.tris hwf']; exact hne
  refine ⟨_, isolatedMask m M.tris, fromMask_normal M m hlen hall hwf hne', iso_length _ _,
    rfl, rfl, rfl, ?_⟩
  intro v
  rw [iso_true_iff, present_iff, maskAdj_eq_filter_whole m M.tris hwf']
  simp only [List.mem_filter]
  constructor
  · rintro ⟨h1, t, ⟨ht, hw⟩, hv⟩; exact ⟨h1, t, ht, hw, hv⟩
  · rintro ⟨h1, t, ht, hw, hv⟩; exact ⟨h1, t, ⟨ht, hw⟩, hv⟩

/-- PROPERTY (same clause, seen from the result): no vertex of the result is left without a
triangle, every index of the new triangle list is valid, and the per-vertex arrays keep one row per
vertex. -/
theorem mask_result_wellformed (M : Mesh P C T) (m : List Bool)
    (hlen : m.length = M.pts.length) (hall : m.all id = false)
    (hwf : WF M.pts.length M.tris) (hne : M.tris.filter (wholeTri m) ≠ []) :
    ∃ R, fromMask M m = .ok R ∧ (∀ j, j < R.pts.length → present R.tris j = true) ∧
      WF R.pts.length R.tris ∧
      (M.cols.length = M.pts.length → R.cols.length = R.pts.length) ∧
      (M.tcs.length = M.pts.length → R.tcs.length = R.pts.length) := by
  have hwf' : WF m.length M.tris := by rw [hlen]; exact hwf
  have hne' : maskAdj m M.tris ≠ [] := by rw [maskAdj_eq_filter_whole m M.tris hwf']; exact hne
  have hil := iso_length m M.tris
  refine ⟨_, fromMask_normal M m hlen hall hwf hne', ?_, ?_, ?_, ?_⟩
  · intro j hj
    obtain ⟨v, hv, hr⟩ := rank_surj M.pts (isolatedMask m M.tris) (by omega) j hj
    obtain ⟨_, hp⟩ := (iso_true_iff m M.tris v).1 hv
    obtain ⟨t, ht, hvt⟩ := (present_iff _ _).1 hp
    rw [maskAdj_eq_filter_whole m M.tris hwf'] at ht
    refine (present_iff _ _).2 ⟨Tri.map (rank (isolatedMask m M.tris)) t, List.mem_map.2 ⟨t, ht, rfl⟩, ?_⟩
    exact (mem_verts_map _ _ _).2 ⟨v, hvt, hr⟩
  · intro t' ht' w hw
    obtain ⟨t, ht, rfl⟩ := List.mem_map.1 ht'
    obtain ⟨v, hv, rfl⟩ := (mem_verts_map _ _ _).1 hw
    exact rank_lt M.pts _ v (by omega) (mem_filter_whole_iso m M.tris hwf' t ht v hv)
  · intro hc; exact maskFilter_length_eq _ _ _ hc
  · intro hc; exact maskFilter_length_eq _ _ _ hc

/-- PROPERTY (all-true masks): nothing is removed and nothing is renumbered. -/
theorem mask_all_true_identity (M : Mesh P C T) (m : List Bool)
    (hlen : m.length = M.pts.length) (hall : m.all id = true) : fromMask M m = .ok M := by
  simp [fromMask, hlen, hall]

/-- the exact guards of the two error branches (the property's quantifier excludes both) -/
theorem mask_wrong_length_raises (M : Mesh P C T) (m : List Bool) (hlen : m.length ≠ M.pts.length) :
    fromMask M m = .error .shape := by
  simp [fromMask, hlen]

theorem mask_no_triangle_raises (M : Mesh P C T) (m : List Bool)
    (hlen : m.length = M.pts.length) (hall : m.all id = false) (hnone : maskAdj m M.tris = []) :
    fromMask M m = .error .empty := by
  simp [fromMask, hlen, hall, maskAdj_iso, hnone, reindex]

/-! ## 2. masking by triangles -/

theorem mem_of_mem_maskFilter {α} (l : List α) (m : List Bool) (x : α) (h : x ∈ maskFilter l m) : x ∈ l := by
  induction l generalizing m with
  | nil => cases m <;> simp [maskFilter] at h
  | cons y ys ih =>
    cases m with
    | nil => simp [maskFilter] at h
    | cons b bs =>
      cases b
      · simp only [maskFilter] at h; exact List.mem_cons_of_mem _ (ih bs h)
      · simp only [maskFilter, if_true, List.mem_cons] at h
        rcases h with h | h
        · subst h; exact List.mem_cons_self
        · exact List.mem_cons_of_mem _ (ih bs h)

/-- PROPERTY (masking "by triangles"): `from_tri_mask` is `from_mask` with the vertex mask that keeps
exactly the vertices of the selected triangles … -/
theorem tri_mask_eq_vertex_mask (M : Mesh P C T) (tm : List Bool) (h : tm.length = M.tris.length) :
    fromTriMask M tm = fromMask M (triPointMask M.pts.length M.tris tm) ∧
    (triPointMask M.pts.length M.tris tm).length = M.pts.length ∧
    ∀ v, (triPointMask M.pts.length M.tris tm)[v]? = some true ↔
      (v < M.pts.length ∧ ∃ t ∈ maskFilter M.tris tm, v ∈ t.verts) := by
  refine ⟨by simp [fromTriMask, h], by simp [triPointMask], ?_⟩
  intro v
  simp only [triPointMask, List.getElem?_map]
  by_cases hv : v < M.pts.length
  · simp [hv, present_iff]
  · simp [hv]

/-- … so every selected triangle survives whole (and so do the unselected triangles all of whose
vertices belong to selected ones — "keeps exactly the triangles all of whose vertices survive"). -/
theorem tri_mask_keeps_selected (M : Mesh P C T) (tm : List Bool)
    (hwf : WF M.pts.length M.tris) (t : Tri) (ht : t ∈ maskFilter M.tris tm) :
    t ∈ M.tris.filter (wholeTri (triPointMask M.pts.length M.tris tm)) := by
  have htm := mem_of_mem_maskFilter _ _ _ ht
  refine List.mem_filter.2 ⟨htm, ?_⟩
  simp only [wholeTri, List.all_eq_true, beq_iff_eq]
  intro v hv
  have hlt := hwf t htm v hv
  simp only [triPointMask, List.getElem?_map, List.getElem?_range hlt, Option.map_some, Option.some.injEq]
  exact (present_iff _ _).2 ⟨t, ht, hv⟩

/-! ### non-vacuity: a 6-vertex mesh with an isolated triangle, a mask leaving an orphan -/

def exMesh : Mesh Nat Nat Nat :=
  { pts := [10, 11, 12, 13, 14, 15, 16], cols := [20, 21, 22, 23, 24, 25, 26], tcs := [30, 31, 32, 33, 34, 35, 36],
    tris := [(0, 1, 2), (1, 3, 2), (4, 5, 6)] }
/-- vertex 1 is removed: both triangles of the strip die, 0 2 3 become orphans, the isolated triangle stays -/
def exMask : List Bool := [true, false, true, true, true, true, true]
/-- vertex 0 removed: (1,3,2) and (4,5,6) stay, renumbered -/
def exMask2 : List Bool := [false, true, true, true, true, true, true]

instance (n : Nat) (ts : List Tri) : Decidable (WF n ts) := by unfold WF; exact inferInstance

example : exMask.length = exMesh.pts.length ∧ exMask.all id = false ∧ WF exMesh.pts.length exMesh.tris ∧
    exMesh.tris.filter (wholeTri exMask) ≠ [] ∧ exMesh.cols.length = exMesh.pts.length ∧
    exMesh.tcs.length = exMesh.pts.length := by decide
example : (fromMask exMesh exMask).toOption.map (·.pts) = some [14, 15, 16] ∧
    (fromMask exMesh exMask).toOption.map (·.cols) = some [24, 25, 26] ∧
    (fromMask exMesh exMask).toOption.map (·.tcs) = some [34, 35, 36] ∧
    (fromMask exMesh exMask).toOption.map (·.tris) = some [(0, 1, 2)] := by decide
example : (fromMask exMesh exMask2).toOption.map (·.pts) = some [11, 12, 13, 14, 15, 16] ∧
    (fromMask exMesh exMask2).toOption.map (·.tris) = some [(0, 2, 1), (3, 4, 5)] := by decide
example : (fromTriMask exMesh [false, true, false]).toOption.map (·.pts) = some [11, 12, 13] ∧
    (fromTriMask exMesh [false, true, false]).toOption.map (·.tris) = some [(0, 2, 1)] := by decide
example : (fromMask exMesh [false, false, true, true, false, true, true]).toOption.map (·.pts) = none ∧
    maskAdj [false, false, true, true, false, true, true] exMesh.tris = [] := by decide

/-! ## 3. areas and edge lengths -/

/-- PROPERTY (2-D areas, exact): non-negative … -/
theorem area2_nonneg (a b c : V2) : 0 ≤ area2 a b c := absQ_nonneg _

/-- … unchanged by every rigid motion `p ↦ A p + t`, `AᵀA = 1` (rotations and reflections) … -/
theorem area2_rigid_invariant (A : M2) (hA : A.IsOrtho) (t a b c : V2) :
    area2 (aff2 A t a) (aff2 A t b) (aff2 A t c) = area2 a b c := by
  rw [area2_aff, absQ_of_sq_one _ (M2.det_sq_of_ortho A hA), one_mul]

/-- … and multiplied by `s²` by the uniform scaling `p ↦ s p (+ t)`. -/
theorem area2_scales (s : Rat) (t a b c : V2) :
    area2 (aff2 (M2.scalar s) t a) (aff2 (M2.scalar s) t b) (aff2 (M2.scalar s) t c) = s ^ 2 * area2 a b c := by
  rw [area2_aff]
  have : (M2.scalar s).det = s * s := by simp [M2.det, M2.scalar]
  rw [this, absQ_mul_self]; ring

/-- PROPERTY (3-D areas; the model computes the square, `area = sqrt areaSq3` is the contract) -/
theorem areaSq3_nonneg (a b c : V3) : 0 ≤ areaSq3 a b c := by
  unfold areaSq3; have := V3.normSq_nonneg (areaVec3 a b c); linarith

theorem areaSq3_rigid_invariant (A : M3) (hA : A.IsOrtho) (t a b c : V3) :
    areaSq3 (aff3 A t a) (aff3 A t b) (aff3 A t c) = areaSq3 a b c := by
  simp only [areaSq3, areaVec3, V3.sub_aff, V3.normSq_cross, V3.dot_mulVec_ortho A hA,
    V3.normSq_mulVec_ortho A hA]

theorem areaSq3_scales (s : Rat) (t a b c : V3) :
    areaSq3 (aff3 (M3.scalar s) t a) (aff3 (M3.scalar s) t b) (aff3 (M3.scalar s) t c)
      = s ^ 4 * areaSq3 a b c := by
  simp only [areaSq3, areaVec3, V3.sub_aff, V3.cross_scalar]
  simp only [V3.normSq, V3.dot, V3.smul]; ring

/-- lifting through the `sqrt` contract: the non-negative roots are equal / scale by `s²` -/
theorem area3_rigid_invariant_root (A : M3) (hA : A.IsOrtho) (t a b c : V3) (r r' : Rat)
    (hr : 0 ≤ r) (hr' : 0 ≤ r') (h : r * r = areaSq3 a b c)
    (h' : r' * r' = areaSq3 (aff3 A t a) (aff3 A t b) (aff3 A t c)) : r' = r := by
  rw [areaSq3_rigid_invariant A hA] at h'
  exact root_unique r' r hr' hr (by rw [h, h'])

theorem area3_scales_root (s : Rat) (t a b c : V3) (r r' : Rat)
    (hr : 0 ≤ r) (hr' : 0 ≤ r') (h : r * r = areaSq3 a b c)
    (h' : r' * r' = areaSq3 (aff3 (M3.scalar s) t a) (aff3 (M3.scalar s) t b) (aff3 (M3.scalar s) t c)) :
    r' = s ^ 2 * r := by
  rw [areaSq3_scales] at h'
  refine root_unique r' (s ^ 2 * r) hr' (mul_nonneg (sq_nonneg s) hr) ?_
  rw [h', ← h]; ring

/-- PROPERTY (edge lengths; squares computed by the model): non-negative, rigid-invariant, scale by
`s²` on the square, hence by `|s|` on the length. -/
theorem edgeSq2_nonneg (a b c : V2) : ∀ q ∈ edgeSq2 a b c, 0 ≤ q := by
  intro q hq
  simp only [edgeSq2, edgeVecs2, List.map_cons, List.map_nil, List.mem_cons, List.not_mem_nil, or_false] at hq
  rcases hq with h | h | h <;> subst h <;> exact V2.normSq_nonneg _

theorem edgeSq3_nonneg (a b c : V3) : ∀ q ∈ edgeSq3 a b c, 0 ≤ q := by
  intro q hq
  simp only [edgeSq3, edgeVecs3, List.map_cons, List.map_nil, List.mem_cons, List.not_mem_nil, or_false] at hq
  rcases hq with h | h | h <;> subst h <;> exact V3.normSq_nonneg _

theorem edgeSq2_rigid_invariant (A : M2) (hA : A.IsOrtho) (t a b c : V2) :
    edgeSq2 (aff2 A t a) (aff2 A t b) (aff2 A t c) = edgeSq2 a b c := by
  simp [edgeSq2, edgeVecs2, V2.sub_aff, V2.normSq_mulVec_ortho A hA]

theorem edgeSq3_rigid_invariant (A : M3) (hA : A.IsOrtho) (t a b c : V3) :
    edgeSq3 (aff3 A t a) (aff3 A t b) (aff3 A t c) = edgeSq3 a b c := by
  simp [edgeSq3, edgeVecs3, V3.sub_aff, V3.normSq_mulVec_ortho A hA]

theorem edgeSq2_scales (s : Rat) (t a b c : V2) :
    edgeSq2 (aff2 (M2.scalar s) t a) (aff2 (M2.scalar s) t b) (aff2 (M2.scalar s) t c)
      = (edgeSq2 a b c).map (fun q => s ^ 2 * q) := by
  simp [edgeSq2, edgeVecs2, V2.sub_aff, V2.normSq_scalar]

theorem edgeSq3_scales (s : Rat) (t a b c : V3) :
    edgeSq3 (aff3 (M3.scalar s) t a) (aff3 (M3.scalar s) t b) (aff3 (M3.scalar s) t c)
      = (edgeSq3 a b c).map (fun q => s ^ 2 * q) := by
  simp [edgeSq3, edgeVecs3, V3.sub_aff, V3.normSq_scalar]

/-- the length itself (non-negative root, `sqrt` contract) scales by `|s|` -/
theorem edge_length_scales_root (s q r r' : Rat) (hr : 0 ≤ r) (hr' : 0 ≤ r') (h : r * r = q)
    (h' : r' * r' = s ^ 2 * q) : r' = |s| * r := by
  refine root_unique r' (|s| * r) hr' (mul_nonneg (abs_nonneg s) hr) ?_
  rw [h', ← h]
  have : |s| * |s| = s * s := abs_mul_abs_self s
  calc s ^ 2 * (r * r) = (s * s) * (r * r) := by ring
    _ = (|s| * |s|) * (r * r) := by rw [this]
    _ = |s| * r * (|s| * r) := by ring

/-! non-vacuity: a rational rotation (3-4-5), a 3-D rotation from a quaternion, a scale -/
def exR2 : M2 := ⟨3/5, -4/5, 4/5, 3/5⟩
def exR3 : M3 := ⟨1/3, -2/3, 2/3, 2/3, 2/3, 1/3, -2/3, 1/3, 2/3⟩
example : exR2.IsOrtho ∧ exR2.det = 1 := by decide +kernel
example : exR3.IsOrtho ∧ exR3.det = 1 := by decide +kernel
example : area2 ⟨0, 0⟩ ⟨4, 0⟩ ⟨1, 3⟩ = 6 ∧
    area2 (aff2 exR2 ⟨7, -2⟩ ⟨0, 0⟩) (aff2 exR2 ⟨7, -2⟩ ⟨4, 0⟩) (aff2 exR2 ⟨7, -2⟩ ⟨1, 3⟩) = 6 := by decide +kernel
example : areaSq3 ⟨0, 0, 0⟩ ⟨4, 0, 0⟩ ⟨1, 3, 5⟩ = 136 ∧
    areaSq3 (aff3 exR3 ⟨1, 2, 3⟩ ⟨0, 0, 0⟩) (aff3 exR3 ⟨1, 2, 3⟩ ⟨4, 0, 0⟩) (aff3 exR3 ⟨1, 2, 3⟩ ⟨1, 3, 5⟩) = 136 := by
  decide +kernel
example : (0 : Rat) ≤ 6 ∧ (0 : Rat) ≤ 24 ∧ (6 : Rat) * 6 = 36 ∧ (24 : Rat) * 24 = 2 ^ 4 * 36 := by decide +kernel

/-! ## 4. normals -/

/-- PROPERTY ("triangle normals are perpendicular to their triangle"): the vector that
`compute_face_normals` normalises is orthogonal to the three edge vectors; a positive multiple
(the normalisation) keeps that. -/
theorem normal_perpendicular (a b c : V3) :
    V3.dot (faceNormalRaw a b c) (V3.sub b a) = 0 ∧ V3.dot (faceNormalRaw a b c) (V3.sub c a) = 0 ∧
    V3.dot (faceNormalRaw a b c) (V3.sub c b) = 0 := by
  refine ⟨V3.cross_dot_left _ _, V3.cross_dot_right _ _, ?_⟩
  simp only [faceNormalRaw, V3.dot, V3.cross, V3.sub]; ring

theorem smul_perpendicular (k : Rat) (n e : V3) (h : V3.dot n e = 0) : V3.dot (V3.smul k n) e = 0 := by
  have : V3.dot (V3.smul k n) e = k * V3.dot n e := by simp only [V3.dot, V3.smul]; ring
  rw [this, h, mul_zero]

/-- PROPERTY ("follow rotations"): `n(Ap + t) = det A • A n(p)` for `AᵀA = 1`; for a rotation
(`det A = 1`) the un-normalised normal is rotated with the mesh and keeps its norm, … -/
theorem normal_follows_rotation (A : M3) (hA : A.IsOrtho) (t a b c : V3) :
    faceNormalRaw (aff3 A t a) (aff3 A t b) (aff3 A t c)
      = V3.smul A.det (A.mulVec (faceNormalRaw a b c)) ∧
    V3.normSq (faceNormalRaw (aff3 A t a) (aff3 A t b) (aff3 A t c)) = V3.normSq (faceNormalRaw a b c) := by
  constructor
  · simp only [faceNormalRaw, V3.sub_aff, V3.cross_mulVec_ortho A hA]
  · simp only [faceNormalRaw, V3.sub_aff, V3.normSq_cross, V3.dot_mulVec_ortho A hA,
      V3.normSq_mulVec_ortho A hA]

/-- … so the unit normals (normalised through the `sqrt` contract) satisfy `n̂' = A n̂`. -/
theorem unit_normal_follows_rotation (A : M3) (hA : A.IsOrtho) (hdet : A.det = 1) (t a b c : V3)
    (r r' : Rat) (hr : 0 < r) (hr' : 0 < r') (h : r * r = V3.normSq (faceNormalRaw a b c))
    (h' : r' * r' = V3.normSq (faceNormalRaw (aff3 A t a) (aff3 A t b) (aff3 A t c))) :
    V3.smul (1 / r') (faceNormalRaw (aff3 A t a) (aff3 A t b) (aff3 A t c))
      = A.mulVec (V3.smul (1 / r) (faceNormalRaw a b c)) := by
  obtain ⟨h1, h2⟩ := normal_follows_rotation A hA t a b c
  have hrr : r' = r := root_unique r' r (le_of_lt hr') (le_of_lt hr) (by rw [h', h2, h])
  rw [h1, hdet, hrr]
  ext <;> simp [V3.smul, M3.mulVec] <;> ring

/-- PROPERTY ("triangle and vertex normals are unit vectors"): `_normalize` divides by a root of the
squared norm; whenever that norm is not zero the result has squared norm 1.  Applies to the face
normal (`n = faceNormalRaw a b c`) and to the vertex normal (`n` = an entry of `vertexNormalSums`). -/
theorem normal_unit (n : V3) (r : Rat) (hr : r * r = V3.normSq n) (h0 : r ≠ 0) :
    V3.normSq (V3.smul (1 / r) n) = 1 := V3.normalize_unit n r hr h0

theorem vertex_normal_unit (nv : Nat) (ts : List Tri) (fn : List V3) (v : Nat) (s : V3)
    (_hs : (vertexNormalSums nv ts fn)[v]? = some s) (r : Rat) (hr : r * r = V3.normSq s) (h0 : r ≠ 0) :
    V3.normSq (V3.smul (1 / r) s) = 1 := V3.normalize_unit s r hr h0

/-! non-vacuity: a triangle whose normal has rational length 3·… , rotated by `exR3` -/
example : faceNormalRaw ⟨0, 0, 0⟩ ⟨1, 2, 2⟩ ⟨2, 1, -2⟩ = ⟨-6, 6, -3⟩ ∧
    (9 : Rat) * 9 = V3.normSq ⟨-6, 6, -3⟩ ∧ (9 : Rat) ≠ 0 := by decide +kernel
example : (vertexNormalSums 4 [(0, 1, 2), (0, 2, 3)] [⟨0, 0, 1⟩, ⟨0, 3/5, 4/5⟩])[2]? = some ⟨0, 3/5, 9/5⟩ := by
  decide +kernel

/-! ## 5. boundary detection and unique edges -/

/-- an undirected edge is *unshared* when exactly one (triangle, side) slot carries it -/
def unshared (ts : List Tri) (e : Edge) : Prop := mult ts e = 1

/-- PROPERTY (specification of `boundary_tri_index`, stated outright): the k-th flag is set exactly
when the k-th triangle owns an unshared edge. -/
theorem boundary_flags_exactly (ts : List Tri) (k : Nat) :
    (boundarySpec ts).length = ts.length ∧
    ((boundarySpec ts)[k]? = some true ↔ ∃ t, ts[k]? = some t ∧ ∃ e ∈ t.edges, unshared ts e) := by
  refine ⟨by simp [boundarySpec], ?_⟩
  simp only [boundarySpec, List.getElem?_map, unshared]
  cases h : ts[k]? with
  | none => simp
  | some t => simp [List.any_eq_true]

/-- PROPERTY for the REPAIRED code (notes/fixes/C17-boundary-count.diff): on every well-formed mesh —
closed, with isolated triangles, with edges shared by three or more triangles — the computed index
is the specification. -/
theorem boundary_fixed_eq_spec (n : Nat) (ts : List Tri) (hwf : WF n ts) :
    boundaryCount n ts = boundarySpec ts := boundaryCount_eq_spec n ts hwf

/-- The ORIGINAL code agrees with the specification when every edge is shared by at most two
triangles and the mesh has a boundary … -/
theorem boundary_spec_manifold (ts : List Tri) (h2 : ∀ e, mult ts e ≤ 2)
    (h1 : ∃ e ∈ edgeIndices ts, mult ts e = 1) : boundaryCoded ts = .ok (boundarySpec ts) :=
  boundaryCoded_manifold ts h2 h1

/-- … it RAISES on every mesh without an odd-multiplicity edge — in particular on every closed
manifold mesh (all multiplicities 2), where the specification is the all-false index … -/
theorem boundary_coded_raises_iff (ts : List Tri) :
    boundaryCoded ts = .error .index ↔ ∀ e, mult ts e % 2 = 0 := boundaryCoded_error_iff ts

/-- … and it is REFUTED on non-manifold meshes.  Witnesses: a closed tetrahedron (raises), and a
tetrahedron with a second apex glued on one face (three edges of multiplicity 3, no unshared edge:
the original code flags the three extra triangles). -/
def tetra : List Tri := [(0, 2, 1), (0, 1, 3), (0, 3, 2), (1, 2, 3)]
def twoApex : List Tri := tetra ++ [(0, 1, 4), (1, 2, 4), (2, 0, 4)]

theorem boundary_coded_refuted_closed :
    boundaryCoded tetra = .error .index ∧ boundarySpec tetra = [false, false, false, false] ∧
    boundaryCount 4 tetra = [false, false, false, false] := by decide

theorem boundary_coded_refuted_nonmanifold :
    boundaryCoded twoApex = .ok [false, false, false, false, true, true, true] ∧
    boundarySpec twoApex = [false, false, false, false, false, false, false] ∧
    boundaryCount 5 twoApex = boundarySpec twoApex := by decide

/-! non-vacuity of `boundary_spec_manifold`: the mesh of menpo's own test -/
def testMesh : List Tri := [(0, 2, 3), (2, 0, 1), (4, 0, 3), (0, 5, 1), (4, 5, 0), (5, 4, 6)]
example : boundaryCoded testMesh = .ok [true, true, true, true, false, true] ∧
    boundarySpec testMesh = [true, true, true, true, false, true] ∧
    (∃ e ∈ edgeIndices testMesh, mult testMesh e = 1) ∧ WF 7 testMesh := by decide
example : ∀ e ∈ sortedEdges testMesh, mult testMesh e ≤ 2 := by decide

/-- PROPERTY ("unique edges list each undirected edge once"): no repetition, every listed pair is
ordered `lo ≤ hi`, and a pair is listed iff it is (the sorted form of) a side of some triangle. -/
theorem unique_edges_once (ts : List Tri) :
    (uniqueEdges ts).Nodup ∧ (∀ e ∈ uniqueEdges ts, e.1 ≤ e.2) ∧
    (∀ e, e ∈ uniqueEdges ts ↔ ∃ t ∈ ts, ∃ e' ∈ t.edges, sortEdge e' = e) ∧
    (∀ a b, (a, b) ∈ uniqueEdges ts → a ≠ b → (b, a) ∉ uniqueEdges ts) := by
  have hmem : ∀ e, e ∈ uniqueEdges ts ↔ ∃ t ∈ ts, ∃ e' ∈ t.edges, sortEdge e' = e := by
    intro e
    simp only [uniqueEdges, mem_dedup, sortedEdges, edgeIndices, List.mem_map, List.mem_flatMap]
    constructor
    · rintro ⟨e', ⟨t, ht, he'⟩, rfl⟩; exact ⟨t, ht, e', he', rfl⟩
    · rintro ⟨t, ht, e', he', rfl⟩; exact ⟨e', ⟨t, ht, he'⟩, rfl⟩
  have hle : ∀ e ∈ uniqueEdges ts, e.1 ≤ e.2 := by
    intro e he
    obtain ⟨t, _, e', _, rfl⟩ := (hmem e).1 he
    exact sortEdge_le e'
  refine ⟨nodup_dedup _, hle, hmem, ?_⟩
  intro a b hab hne hba
  have h1 := hle _ hab
  have h2 := hle _ hba
  simp only at h1 h2
  omega

example : edgeIndices [(0, 1, 2), (2, 1, 3)] = [(0, 1), (1, 2), (2, 0), (2, 1), (1, 3), (3, 2)] ∧
    uniqueEdges [(0, 1, 2), (2, 1, 3)] = [(0, 1), (0, 2), (1, 2), (1, 3), (2, 3)] := by decide

/-! ## 6. uniform scaling of whole meshes: normals do not see the scale, areas × s², lengths × s

The statements are about the whole-mesh queries (`tri_areas`, `edge_lengths`, `tri_normals`,
`vertex_normals`) of the mesh whose vertex array is `points.map (p ↦ s p + t)`; `s` is any non-zero
rational (`2^-30 … 2^20` in the correspondence), no smallness or largeness assumption anywhere: the
code's `_normalize` must divide by the norm itself, however small it is. -/

/-- PROPERTY ("areas scale by s-squared"), whole mesh, 2-D (exact) and 3-D (on the square) -/
theorem mesh_areas2_scale (s : Rat) (t : V2) (pts : List V2) (ts : List Tri) :
    meshAreas2 (pts.map (aff2 (M2.scalar s) t)) ts = (meshAreas2 pts ts).map (fun a => s ^ 2 * a) := by
  simp only [meshAreas2, triCorners_map, List.map_map]
  apply List.map_congr_left
  intro q _
  simp only [Function.comp, area2_scales]

theorem mesh_areasSq3_scale (s : Rat) (t : V3) (pts : List V3) (ts : List Tri) :
    meshAreasSq3 (pts.map (aff3 (M3.scalar s) t)) ts = (meshAreasSq3 pts ts).map (fun a => s ^ 4 * a) := by
  simp only [meshAreasSq3, triCorners_map, List.map_map]
  apply List.map_congr_left
  intro q _
  simp only [Function.comp, areaSq3_scales]

/-- PROPERTY ("edge lengths scale by s"), whole mesh, on the squares -/
theorem mesh_edgeSq2_scale (s : Rat) (t : V2) (pts : List V2) (ts : List Tri) :
    meshEdgeSq2 (pts.map (aff2 (M2.scalar s) t)) ts = (meshEdgeSq2 pts ts).map (fun q => s ^ 2 * q) := by
  simp only [meshEdgeSq2, triCorners_map, List.flatMap_map, List.map_flatMap]
  apply List.flatMap_congr
  intro q _
  simp only [edgeSq2_scales]

theorem mesh_edgeSq3_scale (s : Rat) (t : V3) (pts : List V3) (ts : List Tri) :
    meshEdgeSq3 (pts.map (aff3 (M3.scalar s) t)) ts = (meshEdgeSq3 pts ts).map (fun q => s ^ 2 * q) := by
  simp only [meshEdgeSq3, triCorners_map, List.flatMap_map, List.map_flatMap]
  apply List.flatMap_congr
  intro q _
  simp only [edgeSq3_scales]

/-- whole mesh, rigid motions: areas and edge lengths do not change -/
theorem mesh_areasSq3_rigid (A : M3) (hA : A.IsOrtho) (t : V3) (pts : List V3) (ts : List Tri) :
    meshAreasSq3 (pts.map (aff3 A t)) ts = meshAreasSq3 pts ts ∧
    meshEdgeSq3 (pts.map (aff3 A t)) ts = meshEdgeSq3 pts ts := by
  constructor
  · simp only [meshAreasSq3, triCorners_map, List.map_map]
    apply List.map_congr_left
    intro q _
    simp only [Function.comp, areaSq3_rigid_invariant A hA]
  · simp only [meshEdgeSq3, triCorners_map, List.flatMap_map]
    apply List.flatMap_congr
    intro q _
    simp only [edgeSq3_rigid_invariant A hA]

theorem mesh_areas2_rigid (A : M2) (hA : A.IsOrtho) (t : V2) (pts : List V2) (ts : List Tri) :
    meshAreas2 (pts.map (aff2 A t)) ts = meshAreas2 pts ts ∧
    meshEdgeSq2 (pts.map (aff2 A t)) ts = meshEdgeSq2 pts ts := by
  constructor
  · simp only [meshAreas2, triCorners_map, List.map_map]
    apply List.map_congr_left
    intro q _
    simp only [Function.comp, area2_rigid_invariant A hA]
  · simp only [meshEdgeSq2, triCorners_map, List.flatMap_map]
    apply List.flatMap_congr
    intro q _
    simp only [edgeSq2_rigid_invariant A hA]

/-- PROPERTY ("triangle normals are unit vectors", every scale): `compute_face_normals` returns a
unit vector for every triangle of non-zero area, under nothing but the `sqrt` contract. -/
theorem face_normals_unit (rs : List Rat) (pts : List V3) (ts : List Tri)
    (hr : RootsOf rs (meshFaceNormalsRaw pts ts)) (j : Nat) (raw : V3)
    (hj : (meshFaceNormalsRaw pts ts)[j]? = some raw) (hnd : raw ≠ V3.zero) :
    ∃ n, (faceNormals rs pts ts)[j]? = some n ∧ V3.normSq n = 1 := by
  have hlen := hr.length_eq
  have hjl : j < (meshFaceNormalsRaw pts ts).length := by
    by_contra h; rw [List.getElem?_eq_none (by omega)] at hj; cases hj
  have hjr : j < rs.length := by omega
  refine ⟨normalize1 rs[j] raw, ?_, ?_⟩
  · simp only [faceNormals, normalizeRows, List.getElem?_zipWith, List.getElem?_eq_getElem hjr, hj]
  · exact normalize1_unit _ _ (hr.get j _ _ (List.getElem?_eq_getElem hjr) hj) hnd

/-- PROPERTY (normals under uniform scaling, `s ≠ 0`): the un-normalised face normals are multiplied
by `s²`, the roots `_normalize` takes are therefore `s² rs` (and no others — `RootsOf.unique`), and
the unit face normals of the scaled mesh ARE the unit face normals of the mesh: no dependence on the
size of the mesh is left. -/
theorem face_normals_scale_invariant (s : Rat) (hs : s ≠ 0) (t : V3) (rs : List Rat) (pts : List V3)
    (ts : List Tri) (hr : RootsOf rs (meshFaceNormalsRaw pts ts)) :
    RootsOf (rs.map (fun r => s ^ 2 * r)) (meshFaceNormalsRaw (pts.map (aff3 (M3.scalar s) t)) ts) ∧
    faceNormals (rs.map (fun r => s ^ 2 * r)) (pts.map (aff3 (M3.scalar s) t)) ts = faceNormals rs pts ts := by
  rw [faceNormals, meshFaceNormalsRaw_scale]
  exact ⟨hr.map_scale (s ^ 2) (sq_nonneg s), normalizeRows_scale (s ^ 2) (pow_ne_zero 2 hs) rs _⟩

/-- … and so are the vertex normals. -/
theorem vertex_normals_scale_invariant (s : Rat) (hs : s ≠ 0) (t : V3) (rs rs' : List Rat) (pts : List V3)
    (ts : List Tri) (hr : RootsOf rs (meshFaceNormalsRaw pts ts)) :
    vertexNormals (rs.map (fun r => s ^ 2 * r)) rs' (pts.map (aff3 (M3.scalar s) t)) ts
      = vertexNormals rs rs' pts ts := by
  simp only [vertexNormals, (face_normals_scale_invariant s hs t rs pts ts hr).2, List.length_map]

/-- a triangle of non-zero area keeps a non-zero area under scaling (the hypothesis of
`face_normals_unit` is stable): `‖n'‖² = s⁴ ‖n‖²`. -/
theorem nondegenerate_scale (s : Rat) (hs : s ≠ 0) (t a b c : V3) (h : faceNormalRaw a b c ≠ V3.zero) :
    faceNormalRaw (aff3 (M3.scalar s) t a) (aff3 (M3.scalar s) t b) (aff3 (M3.scalar s) t c) ≠ V3.zero := by
  simp only [faceNormalRaw, V3.sub_aff, V3.cross_scalar]
  intro h0
  apply h
  have := congrArg (V3.smul (1 / s ^ 2)) h0
  rw [V3.smul_smul', V3.smul_zero'] at this
  have hs2 : (1 / s ^ 2) * s ^ 2 = 1 := by field_simp
  rw [hs2, V3.one_smul'] at this
  exact this

/-! non-vacuity: a tetrahedron-like patch at scale 2^-30, roots rational -/
def exPts3 : List V3 := [⟨0, 0, 0⟩, ⟨1, 2, 2⟩, ⟨2, 1, -2⟩, ⟨0, 0, 3⟩]
def exTs3 : List Tri := [(0, 1, 2), (0, 3, 1)]
example : meshFaceNormalsRaw exPts3 exTs3 = [⟨-6, 6, -3⟩, ⟨-6, 3, 0⟩] := by decide +kernel
example : RootsOf [9] (meshFaceNormalsRaw exPts3 [(0, 1, 2)]) := by
  have h : meshFaceNormalsRaw exPts3 [(0, 1, 2)] = [⟨-6, 6, -3⟩] := by decide +kernel
  rw [h]; exact ⟨⟨by decide +kernel, by decide +kernel⟩, trivial⟩
example : faceNormals [9] exPts3 [(0, 1, 2)] = [⟨-2/3, 2/3, -1/3⟩] ∧
    faceNormals [(1 / 2 ^ 30) ^ 2 * 9] (exPts3.map (aff3 (M3.scalar (1 / 2 ^ 30)) ⟨0, 0, 0⟩)) [(0, 1, 2)]
      = [⟨-2/3, 2/3, -1/3⟩] := by decide +kernel

/-! ## 7. vertex normals: the scatter-add, exactly -/

/-- PROPERTY (mechanism "scatter-add vertex normals"): the three `np.add.at` passes of
`compute_vertex_normals` leave, at every vertex, the sum of the normals of the triangles incident to
it (a triangle counts once per corner it has at the vertex) — as whole arrays, the coded loop IS the
specification. -/
theorem vertex_sums_coded_eq_spec (n : Nat) (ts : List Tri) (fn : List V3) :
    vertexNormalSumsCoded n ts fn = vertexNormalSums n ts fn ∧
    (vertexNormalSumsCoded n ts fn).length = n ∧
    ∀ v, v < n → (vertexNormalSumsCoded n ts fn)[v]? = some (incidentSum ts fn v) :=
  ⟨vertexNormalSumsCoded_eq n ts fn, vertexNormalSumsCoded_length n ts fn,
    fun v hv => vertexNormalSumsCoded_get n ts fn v hv⟩

/-- for triangles with three distinct corners the incident sum is the plain sum over the triangles
that contain the vertex -/
theorem incident_sum_distinct (ts : List Tri) (fn : List V3) (v : Nat)
    (hd : ∀ t ∈ ts, t.verts.Nodup) :
    incidentSum ts fn v = vsum (((ts.zip fn).filter (fun p => p.1.verts.contains v)).map (fun p => p.2)) := by
  rw [vsum_filter_ite, incidentSum]
  congr 1
  apply List.map_congr_left
  intro p hp
  have hnd := hd p.1 (List.of_mem_zip hp).1
  by_cases hv : v ∈ p.1.verts
  · have : p.1.verts.count v = 1 := by rw [hnd.count, if_pos hv]
    simp [this, hv, V3.one_smul']
  · have : p.1.verts.count v = 0 := by rw [hnd.count, if_neg hv]
    simp [this, hv, V3.zero_smul']

/-- PROPERTY: a vertex normal is the NORMALISED sum of the (unit) normals of its incident triangles,
and it is a unit vector whenever that sum is not zero. -/
theorem vertex_normal_is_normalised_incident_sum (rs rs' : List Rat) (pts : List V3) (ts : List Tri)
    (hr' : RootsOf rs' (vertexNormalSumsCoded pts.length ts (faceNormals rs pts ts)))
    (v : Nat) (hv : v < pts.length) :
    ∃ r, rs'[v]? = some r ∧ IsRoot r (V3.normSq (incidentSum ts (faceNormals rs pts ts) v)) ∧
      (vertexNormals rs rs' pts ts)[v]? = some (normalize1 r (incidentSum ts (faceNormals rs pts ts) v)) ∧
      (incidentSum ts (faceNormals rs pts ts) v ≠ V3.zero →
        V3.normSq (normalize1 r (incidentSum ts (faceNormals rs pts ts) v)) = 1) := by
  have hlen := hr'.length_eq
  rw [vertexNormalSumsCoded_length] at hlen
  have hvr : v < rs'.length := by omega
  have hget := vertexNormalSumsCoded_get pts.length ts (faceNormals rs pts ts) v hv
  have hroot := hr'.get v _ _ (List.getElem?_eq_getElem hvr) hget
  refine ⟨rs'[v], List.getElem?_eq_getElem hvr, hroot, ?_, fun h0 => normalize1_unit _ _ hroot h0⟩
  simp only [vertexNormals, normalizeRows, List.getElem?_zipWith, List.getElem?_eq_getElem hvr, hget]

/-- PROPERTY (independence of the triangle order): permuting the rows of the triangle list (each
row keeping its face normal) does not change any accumulated vertex normal. -/
theorem vertex_sums_order_independent (n : Nat) (ts ts' : List Tri) (g : Tri → V3) (h : ts.Perm ts') :
    vertexNormalSumsCoded n ts (ts.map g) = vertexNormalSumsCoded n ts' (ts'.map g) := by
  have hz : ∀ l : List Tri, l.zip (l.map g) = l.map (fun t => (t, g t)) := by
    intro l; induction l with
    | nil => rfl
    | cons t l ih => simp [ih]
  apply List.ext_getElem?
  intro v
  by_cases hv : v < n
  · rw [vertexNormalSumsCoded_get _ _ _ v hv, vertexNormalSumsCoded_get _ _ _ v hv]
    congr 1
    apply incidentSum_perm
    rw [hz, hz]
    exact h.map _
  · rw [List.getElem?_eq_none (by rw [vertexNormalSumsCoded_length]; omega),
      List.getElem?_eq_none (by rw [vertexNormalSumsCoded_length]; omega)]

/-- PROPERTY ("follow rotations", vertex normals): for a rotation `A` (`AᵀA = 1`, `det A = 1`) and
any translation, the roots `_normalize` takes are the same for the moved mesh, the face normals are
rotated, and every vertex normal of the moved mesh is the rotated vertex normal. -/
theorem vertex_normals_follow_rotation (A : M3) (hA : A.IsOrtho) (hdet : A.det = 1) (t : V3)
    (rs rs' : List Rat) (pts : List V3) (ts : List Tri)
    (hr : RootsOf rs (meshFaceNormalsRaw pts ts))
    (hr' : RootsOf rs' (vertexNormalSumsCoded pts.length ts (faceNormals rs pts ts))) :
    RootsOf rs (meshFaceNormalsRaw (pts.map (aff3 A t)) ts) ∧
    faceNormals rs (pts.map (aff3 A t)) ts = (faceNormals rs pts ts).map A.mulVec ∧
    RootsOf rs' (vertexNormalSumsCoded (pts.map (aff3 A t)).length ts (faceNormals rs (pts.map (aff3 A t)) ts)) ∧
    vertexNormals rs rs' (pts.map (aff3 A t)) ts = (vertexNormals rs rs' pts ts).map A.mulVec := by
  have hraw : meshFaceNormalsRaw (pts.map (aff3 A t)) ts = (meshFaceNormalsRaw pts ts).map A.mulVec := by
    rw [meshFaceNormalsRaw_rigid A hA]
    apply List.map_congr_left
    intro n _
    rw [hdet, V3.one_smul']
  have hfn : faceNormals rs (pts.map (aff3 A t)) ts = (faceNormals rs pts ts).map A.mulVec := by
    rw [faceNormals, hraw, normalizeRows_map_mulVec]; rfl
  refine ⟨by rw [hraw]; exact hr.map_ortho A hA, hfn, ?_, ?_⟩
  · rw [hfn, List.length_map, vertexNormalSumsCoded_mulVec]; exact hr'.map_ortho A hA
  · rw [vertexNormals, hfn, List.length_map, vertexNormalSumsCoded_mulVec, normalizeRows_map_mulVec]; rfl

/-- PROPERTY (flat meshes): if all triangles lie in planes orthogonal to the unit vector `N` and are
oriented consistently with it, every triangle normal is `N` and every vertex that belongs to a
triangle gets the vertex normal `N`. -/
theorem flat_mesh_normals (N : V3) (hN : V3.normSq N = 1) (rs rs' : List Rat) (pts : List V3) (ts : List Tri)
    (hwf : WF pts.length ts)
    (hflat : ∀ q ∈ triCorners pts ts, V3.dot N (V3.sub q.2.1 q.1) = 0 ∧ V3.dot N (V3.sub q.2.2 q.1) = 0 ∧
      0 < V3.dot (faceNormalRaw q.1 q.2.1 q.2.2) N)
    (hr : RootsOf rs (meshFaceNormalsRaw pts ts))
    (hr' : RootsOf rs' (vertexNormalSumsCoded pts.length ts (faceNormals rs pts ts))) :
    faceNormals rs pts ts = List.replicate ts.length N ∧
    ∀ v, v < pts.length → 0 < valence ts v → (vertexNormals rs rs' pts ts)[v]? = some N := by
  have hfn : faceNormals rs pts ts = List.replicate ts.length N := by
    apply List.ext_getElem?
    intro j
    have hlen := hr.length_eq
    have hcl := triCorners_length pts ts hwf
    have hrawlen : (meshFaceNormalsRaw pts ts).length = ts.length := by simp [meshFaceNormalsRaw, hcl]
    by_cases hj : j < ts.length
    · have hjc : j < (triCorners pts ts).length := by omega
      have hjr : j < rs.length := by omega
      have hq := hflat _ (List.getElem_mem hjc)
      generalize hqdef : (triCorners pts ts)[j] = q at hq
      have hrawj : (meshFaceNormalsRaw pts ts)[j]? = some (faceNormalRaw q.1 q.2.1 q.2.2) := by
        simp [meshFaceNormalsRaw, List.getElem?_map, List.getElem?_eq_getElem hjc, hqdef]
      have hpar : faceNormalRaw q.1 q.2.1 q.2.2
          = V3.smul (V3.dot (faceNormalRaw q.1 q.2.1 q.2.2) N) N := V3.cross_parallel N _ _ hN hq.1 hq.2.1
      have hroot := hr.get j _ _ (List.getElem?_eq_getElem hjr) hrawj
      have hpos := hq.2.2
      generalize faceNormalRaw q.1 q.2.1 q.2.2 = w at hrawj hpar hroot hpos
      generalize hd : V3.dot w N = d at hpar hpos
      have hroot' : IsRoot d (V3.normSq w) := by
        refine ⟨le_of_lt hpos, ?_⟩
        rw [hpar, V3.normSq_smul, hN]; ring
      have hrd : rs[j] = d := hroot.unique hroot'
      have hd0 : d ≠ 0 := ne_of_gt hpos
      simp only [faceNormals, normalizeRows, List.getElem?_zipWith, List.getElem?_eq_getElem hjr, hrawj,
        List.getElem?_replicate, hj, if_true]
      simp only [Option.some.injEq]
      rw [hrd, normalize1, if_neg hd0]
      conv_lhs => rw [hpar]
      rw [V3.smul_smul']
      have : 1 / d * d = 1 := by field_simp
      rw [this, V3.one_smul']
    · rw [List.getElem?_eq_none (by simp [faceNormals, normalizeRows, hrawlen]; omega),
        List.getElem?_eq_none (by simp; omega)]
  refine ⟨hfn, ?_⟩
  intro v hv hval
  obtain ⟨r, hrv, hroot, hget, _⟩ := vertex_normal_is_normalised_incident_sum rs rs' pts ts hr' v hv
  rw [hget, hfn, incidentSum_const]
  rw [hfn, incidentSum_const] at hroot
  have hk : ((valence ts v : Nat) : Rat) ≠ 0 := by exact_mod_cast (Nat.pos_iff_ne_zero.1 hval)
  have hroot' : IsRoot ((valence ts v : Nat) : Rat) (V3.normSq (V3.smul ((valence ts v : Nat) : Rat) N)) :=
    ⟨by exact_mod_cast Nat.zero_le _, by rw [V3.normSq_smul, hN]; ring⟩
  rw [hroot.unique hroot', normalize1, if_neg hk, V3.smul_smul']
  have : 1 / ((valence ts v : Nat) : Rat) * ((valence ts v : Nat) : Rat) = 1 := by field_simp
  rw [this, V3.one_smul']

/-! non-vacuity: a flat 2×2 grid in the plane x + 2y + 2z = const (unit normal (1/3, 2/3, 2/3)) -/
def flatN : V3 := ⟨1/3, 2/3, 2/3⟩
def flatPts : List V3 := [⟨0, 0, 0⟩, ⟨2, -1, 0⟩, ⟨2, 0, -1⟩, ⟨4, -1, -1⟩]
def flatTs : List Tri := [(0, 1, 2), (1, 3, 2)]
example : V3.normSq flatN = 1 ∧ WF flatPts.length flatTs ∧
    meshFaceNormalsRaw flatPts flatTs = [⟨1, 2, 2⟩, ⟨1, 2, 2⟩] ∧
    (∀ q ∈ triCorners flatPts flatTs, V3.dot flatN (V3.sub q.2.1 q.1) = 0 ∧ V3.dot flatN (V3.sub q.2.2 q.1) = 0 ∧
      0 < V3.dot (faceNormalRaw q.1 q.2.1 q.2.2) flatN) := by decide +kernel
example : vertexNormals [3, 3] [1, 2, 2, 1] flatPts flatTs = [flatN, flatN, flatN, flatN] := by decide +kernel
example : vertexNormalSumsCoded 4 [(0, 1, 2), (0, 2, 3)] [⟨0, 0, 1⟩, ⟨0, 3/5, 4/5⟩]
    = [⟨0, 3/5, 9/5⟩, ⟨0, 0, 1⟩, ⟨0, 3/5, 9/5⟩, ⟨0, 3/5, 4/5⟩] := by decide +kernel
example : [(0, 1, 2), (0, 2, 3)].Perm [(0, 2, 3), ((0, 1, 2) : Tri)] := List.Perm.swap _ _ _

/-! ## 8. edges with multiplicity: `edge_lengths` against `unique_edge_lengths`, means, closed meshes -/

/-- the length of a side does not depend on its direction: it is a function of the undirected edge -/
theorem edge_length_symmetric (a b : V3) (a' b' : V2) :
    V3.normSq (V3.sub a b) = V3.normSq (V3.sub b a) ∧ V2.normSq (V2.sub a' b') = V2.normSq (V2.sub b' a') := by
  constructor
  · simp only [V3.normSq, V3.dot, V3.sub]; ring
  · simp only [V2.normSq, V2.dot, V2.sub]; ring

theorem cast_sum_nat (l : List Nat) : ((l.sum : Nat) : Rat) = (l.map (fun (n : Nat) => (n : Rat))).sum := by
  induction l with
  | nil => simp
  | cons x xs ih => simp [ih]

/-- PROPERTY ("unique edges list each undirected edge once", quantitative form, ALL meshes): the
`3·n_tris` (triangle, side) slots of `edge_indices` are the unique edges counted with their
multiplicity; any per-edge quantity `f` (a length, a squared length) summed over `edge_lengths`-order
slots equals the multiplicity-weighted sum over `unique_edge_indices`. -/
theorem edge_sum_by_multiplicity (ts : List Tri) (f : Edge → Rat) :
    ((sortedEdges ts).map f).sum = ((uniqueEdges ts).map (fun e => (mult ts e : Rat) * f e)).sum ∧
    (sortedEdges ts).length = 3 * ts.length ∧
    ((uniqueEdges ts).map (mult ts)).sum = 3 * ts.length := by
  refine ⟨slots_sum_eq ts f, sortedEdges_length ts, ?_⟩
  have h := slots_sum_eq ts (fun _ => 1)
  have hl : ((sortedEdges ts).map (fun _ => (1 : Rat))).sum = ((sortedEdges ts).length : Rat) := by
    generalize sortedEdges ts = l
    induction l with
    | nil => simp
    | cons x xs ih => simp only [List.map_cons, List.sum_cons, ih, List.length_cons]; push_cast; ring
  rw [hl, sortedEdges_length] at h
  have : (((uniqueEdges ts).map (mult ts)).sum : Rat) = ((3 * ts.length : Nat) : Rat) := by
    rw [cast_sum_nat, List.map_map, h]
    congr 1
    apply List.map_congr_left
    intro e _; simp
  exact_mod_cast this

/-- PROPERTY (`mean_edge_length(unique=True)` vs `unique=False`): on a mesh all of whose edges have
the same multiplicity `m` (closed manifold meshes: `m = 2`; a single triangle: `m = 1`) the two
means coincide, for whatever per-edge length `f`. -/
theorem mean_edge_uniform_multiplicity (ts : List Tri) (f : Edge → Rat) (m : Nat) (hm : 0 < m)
    (h : ∀ e ∈ uniqueEdges ts, mult ts e = m) :
    meanQ ((sortedEdges ts).map f) = meanQ ((uniqueEdges ts).map f) := by
  obtain ⟨h1, h2, h3⟩ := edge_sum_by_multiplicity ts f
  have hs : ((uniqueEdges ts).map (fun e => (mult ts e : Rat) * f e)).sum
      = (m : Rat) * ((uniqueEdges ts).map f).sum := by
    rw [← sum_map_const_mul]
    congr 1
    apply List.map_congr_left
    intro e he; rw [h e he]
  have hc : ((uniqueEdges ts).map (mult ts)).sum = m * (uniqueEdges ts).length := by
    have : (uniqueEdges ts).map (mult ts) = (uniqueEdges ts).map (fun _ => m) :=
      List.map_congr_left (fun e he => h e he)
    rw [this]
    generalize uniqueEdges ts = l
    induction l with
    | nil => simp
    | cons x xs ih => simp only [List.map_cons, List.sum_cons, ih, List.length_cons]; ring
  have hm' : (m : Rat) ≠ 0 := by exact_mod_cast (Nat.pos_iff_ne_zero.1 hm)
  rw [meanQ_eq, meanQ_eq, List.length_map, List.length_map, h1, hs, h2, ← h3, hc]
  push_cast
  rw [mul_div_mul_left _ _ hm']

/-- PROPERTY (means under scaling): `np.mean` is linear, so `mean_edge_length` scales by `s` and
`mean_tri_area` by `s²` with the lengths / areas. -/
theorem mean_scales (s : Rat) (l : List Rat) : meanQ (l.map (fun x => s * x)) = s * meanQ l := by
  rw [meanQ_eq, meanQ_eq, List.length_map, sum_map_mul_left]; ring

/-- PROPERTY (boundary detection on closed meshes, ALL meshes): no triangle is flagged exactly when
no side of any triangle is an unshared edge; in particular a closed manifold mesh (every edge shared
by exactly two triangles) has the all-false index — by the specification and by the repaired code. -/
theorem boundary_none_iff (ts : List Tri) :
    boundarySpec ts = List.replicate ts.length false ↔ ∀ t ∈ ts, ∀ e ∈ t.edges, mult ts e ≠ 1 := by
  constructor
  · intro h t ht e he h1
    obtain ⟨k, hk, hkt⟩ := List.getElem_of_mem ht
    have h2 := (boundary_flags_exactly ts k).2.2 ⟨t, by rw [List.getElem?_eq_getElem hk, hkt], e, he, h1⟩
    rw [h] at h2
    simp [List.getElem?_replicate] at h2
  · intro h
    apply List.ext_getElem?
    intro k
    by_cases hk : k < ts.length
    · have hf : (boundarySpec ts)[k]? = some false := by
        simp only [boundarySpec, List.getElem?_map, List.getElem?_eq_getElem hk, Option.map_some,
          Option.some.injEq, List.any_eq_false, beq_iff_eq]
        intro e he; exact h _ (List.getElem_mem hk) e he
      rw [hf]; simp [hk]
    · rw [List.getElem?_eq_none (by simp [boundarySpec]; omega), List.getElem?_eq_none (by simp; omega)]

theorem boundary_closed_all_false (n : Nat) (ts : List Tri) (hwf : WF n ts)
    (h2 : ∀ t ∈ ts, ∀ e ∈ t.edges, mult ts e = 2) :
    boundarySpec ts = List.replicate ts.length false ∧ boundaryCount n ts = List.replicate ts.length false := by
  have := (boundary_none_iff ts).2 (fun t ht e he => by rw [h2 t ht e he]; decide)
  exact ⟨this, by rw [boundaryCount_eq_spec n ts hwf, this]⟩

/-! non-vacuity: the closed tetrahedron (all multiplicities 2), the octahedron count -/
example : (∀ t ∈ tetra, ∀ e ∈ t.edges, mult tetra e = 2) ∧ WF 4 tetra ∧
    (∀ e ∈ uniqueEdges tetra, mult tetra e = 2) ∧ (uniqueEdges tetra).length = 6 ∧
    (sortedEdges tetra).length = 12 := by decide
example : meanQ [3, 4, 5, 3, 4, 5] = meanQ [3, 4, 5] ∧ meanQ ([3, 4, 5].map (fun x => 2 * x)) = 8 := by
  decide +kernel

/-! ### the arrays `edge_lengths()` / `unique_edge_lengths()` return, slot by slot -/

theorem edgeSqAt3_swap (pts : List V3) (a b : Nat) : edgeSqAt3 pts (a, b) = edgeSqAt3 pts (b, a) := by
  simp only [edgeSqAt3]
  cases pts[a]? <;> cases pts[b]? <;> simp [(edge_length_symmetric _ _ ⟨0, 0⟩ ⟨0, 0⟩).1]

theorem edgeSqAt3_sort (pts : List V3) (e : Edge) : edgeSqAt3 pts (sortEdge e) = edgeSqAt3 pts e := by
  unfold sortEdge; split
  · rfl
  · exact edgeSqAt3_swap pts e.2 e.1

theorem getTri_eq {α} (pts : List α) (t : Tri) (q : α × α × α) (h : getTri pts t = some q) :
    pts[t.1]? = some q.1 ∧ pts[t.2.1]? = some q.2.1 ∧ pts[t.2.2]? = some q.2.2 := by
  unfold getTri at h
  cases h1 : pts[t.1]? <;> cases h2 : pts[t.2.1]? <;> cases h3 : pts[t.2.2]? <;> simp_all
  obtain ⟨rfl⟩ := h; exact ⟨rfl, rfl, rfl⟩

/-- `edge_lengths()²` slot by slot: the squared length of the (undirected) edge of that slot -/
theorem meshEdgeSq3_eq_slots (pts : List V3) (ts : List Tri) (hwf : WF pts.length ts) :
    meshEdgeSq3 pts ts = (sortedEdges ts).map (edgeSqAt3 pts) := by
  induction ts with
  | nil => rfl
  | cons t ts ih =>
    obtain ⟨q, hq⟩ := getTri_some_of_wf pts t (hwf t List.mem_cons_self)
    have ih' := ih (fun t' ht' => hwf t' (List.mem_cons_of_mem _ ht'))
    obtain ⟨h1, h2, h3⟩ := getTri_eq pts t q hq
    simp only [meshEdgeSq3, triCorners, List.filterMap_cons, hq, List.flatMap_cons] at ih' ⊢
    simp only [sortedEdges, edgeIndices, List.flatMap_cons, List.map_append] at ih' ⊢
    rw [ih']
    congr 1
    simp only [Tri.edges, List.map_cons, List.map_nil, edgeSqAt3_sort, edgeSq3, edgeVecs3]
    simp only [edgeSqAt3, h1, h2, h3]
    simp [(edge_length_symmetric q.1 q.2.2 ⟨0, 0⟩ ⟨0, 0⟩).1]

theorem uniqueEdgeSq3_eq (pts : List V3) (ts : List Tri) (hwf : WF pts.length ts) :
    uniqueEdgeSq3 pts ts = (uniqueEdges ts).map (edgeSqAt3 pts) := by
  unfold uniqueEdgeSq3
  rw [← List.filterMap_eq_map]
  apply List.filterMap_congr
  intro e he
  have hmem : e ∈ sortedEdges ts := (mem_dedup _ _).1 he
  obtain ⟨h1, h2⟩ := sortedEdges_lt pts.length ts hwf e hmem
  simp [edgeSqAt3, List.getElem?_eq_getElem h1, List.getElem?_eq_getElem h2]

/-- PROPERTY (`edge_lengths` against `unique_edge_lengths`, ALL well-formed meshes): the squared
lengths `edge_lengths()` returns, summed over the `3·n_tris` slots, are the squared lengths
`unique_edge_lengths()` returns weighted by the multiplicity of their edge; with the same
multiplicity everywhere their means coincide. -/
theorem mesh_edge_lengths_by_multiplicity (pts : List V3) (ts : List Tri) (hwf : WF pts.length ts) :
    (meshEdgeSq3 pts ts).length = 3 * ts.length ∧
    (uniqueEdgeSq3 pts ts).length = (uniqueEdges ts).length ∧
    (meshEdgeSq3 pts ts).sum = ((uniqueEdges ts).map (fun e => (mult ts e : Rat) * edgeSqAt3 pts e)).sum ∧
    (∀ m : Nat, 0 < m → (∀ e ∈ uniqueEdges ts, mult ts e = m) →
      meanQ (meshEdgeSq3 pts ts) = meanQ (uniqueEdgeSq3 pts ts)) := by
  rw [meshEdgeSq3_eq_slots pts ts hwf, uniqueEdgeSq3_eq pts ts hwf]
  refine ⟨by rw [List.length_map, sortedEdges_length], by rw [List.length_map],
    (edge_sum_by_multiplicity ts (edgeSqAt3 pts)).1, ?_⟩
  intro m hm h
  exact mean_edge_uniform_multiplicity ts (edgeSqAt3 pts) m hm h

example : meshEdgeSq3 exPts3 exTs3 = [9, 18, 9, 9, 6, 9] := by decide +kernel
example : uniqueEdgeSq3 exPts3 exTs3 = [18, 9, 9, 6, 9] := by decide +kernel
example : WF exPts3.length exTs3 := by decide


/-! ## 9. masking and edges: the edge structure of the masked mesh is that of the kept triangles -/

/-- PROPERTY (edge-derived queries after masking: `edge_indices`, `unique_edge_indices`,
`as_pointgraph().edges`, `boundary_tri_index`): the renumbering `ρ` of `from_mask` is monotone and
identifies no two vertices of the kept triangles, so the edge slots of the result are the renumbered
edge slots of the kept triangles, the sorted (undirected) edges likewise, every edge keeps its
multiplicity, and the boundary flags of the masked mesh are those of the kept triangles on their
own (an edge shared with a removed triangle becomes a boundary edge). -/
theorem mask_edges_renumbered (M : Mesh P C T) (m : List Bool)
    (hlen : m.length = M.pts.length) (hall : m.all id = false)
    (hwf : WF M.pts.length M.tris) (hne : M.tris.filter (wholeTri m) ≠ []) :
    ∃ R ρ, fromMask M m = .ok R ∧ (∀ a b, a ≤ b → ρ a ≤ ρ b) ∧
      InjOnVerts ρ (M.tris.filter (wholeTri m)) ∧
      edgeIndices R.tris = (edgeIndices (M.tris.filter (wholeTri m))).map (fun e => (ρ e.1, ρ e.2)) ∧
      sortedEdges R.tris = (sortedEdges (M.tris.filter (wholeTri m))).map (fun e => (ρ e.1, ρ e.2)) ∧
      (∀ e, e ∈ graphEdges R.tris ↔ ∃ e' ∈ graphEdges (M.tris.filter (wholeTri m)), e = (ρ e'.1, ρ e'.2)) ∧
      boundarySpec R.tris = boundarySpec (M.tris.filter (wholeTri m)) := by
  have hwf' : WF m.length M.tris := by rw [hlen]; exact hwf
  have hne' : maskAdj m M.tris ≠ [] := by rw [maskAdj_eq_filter_whole m M.tris hwf']; exact hne
  have hmono : ∀ a b, a ≤ b → rank (isolatedMask m M.tris) a ≤ rank (isolatedMask m M.tris) b :=
    rank_mono _
  have hinj : InjOnVerts (rank (isolatedMask m M.tris)) (M.tris.filter (wholeTri m)) := by
    intro t ht t' ht' v hv w hw h
    exact rank_inj _ v w (mem_filter_whole_iso m M.tris hwf' t ht v hv)
      (mem_filter_whole_iso m M.tris hwf' t' ht' w hw) h
  refine ⟨_, rank (isolatedMask m M.tris), fromMask_normal M m hlen hall hwf hne', hmono, hinj,
    edgeIndices_map _ _, sortedEdges_map_mono _ hmono _, ?_, boundarySpec_map _ hmono _ hinj⟩
  intro e
  simp only [graphEdges, uniqueEdges, mem_dedup, sortedEdges_map_mono _ hmono, List.mem_map]
  constructor
  · rintro ⟨e', he', rfl⟩; exact ⟨e', he', rfl⟩
  · rintro ⟨e', he', rfl⟩; exact ⟨e', he', rfl⟩

example : (fromMask exMesh exMask2).toOption.map (fun R => boundarySpec R.tris) = some [true, true] ∧
    boundarySpec (exMesh.tris.filter (wholeTri exMask2)) = [true, true] ∧
    boundarySpec exMesh.tris = [true, true, true] := by decide

/-! ## 10. queries are pure: no public query writes instance state

`GenProps/C17.lean` proves, on every run, that the table of instance attributes written by each
public query — measured on live TriMesh / ColouredTriMesh / TexturedTriMesh objects — is empty
(`queryWrites_ok`).  That is the frame condition `hframe` below for the real classes; a memo kept on
the instance by any query breaks the obligation before any answer changes. -/

/-- PROPERTY (history independence): if no query changes the state, every answer in any sequence of
queries is the answer a fresh object gives, and the state handed to a later `from_mask` is the
original one — masking after any history of queries equals masking the fresh mesh. -/
theorem queries_pure {S Q R} (mc : Machine S Q R) (hframe : ∀ s q, (mc.step s q).1 = s)
    (s : S) (qs : List Q) :
    (mc.run s qs).1 = s ∧ (mc.run s qs).2 = qs.map (fun q => (mc.step s q).2) := by
  induction qs generalizing s with
  | nil => exact ⟨rfl, rfl⟩
  | cons q qs ih =>
    have h1 := hframe s q
    obtain ⟨ih1, ih2⟩ := ih s
    simp only [Machine.run, List.map_cons]
    rw [show mc.step s q = ((mc.step s q).1, (mc.step s q).2) from rfl]
    simp only [h1, ih1, ih2]
    exact ⟨trivial, trivial⟩

theorem mask_after_queries {S Q R X} (mc : Machine S Q R) (hframe : ∀ s q, (mc.step s q).1 = s)
    (mask : S → X) (s : S) (qs : List Q) : mask (mc.run s qs).1 = mask s := by
  rw [(queries_pure mc hframe s qs).1]

/-- what a memoising query would do: the frame condition fails and so does history independence -/
example : (⟨fun (s : Nat) (_ : Unit) => (s + 1, s)⟩ : Machine Nat Unit Nat).run 0 [(), ()] = (2, [0, 1]) := by rfl
example : (⟨fun (s : Nat) (q : Nat) => (s, s + q)⟩ : Machine Nat Nat Nat).run 10 [1, 2, 1] = (10, [11, 12, 11]) := by rfl

/-! ## 11. the grid meshes of `init_2d_grid` / `init_from_depth_image` -/

/-- PROPERTY (quantifier "grids"): the triangle list `subsampled_grid_triangulation` builds for an
`r × c` grid satisfies the premises of every masking / boundary theorem above — all indices valid,
three distinct corners per triangle — and has two triangles per cell. -/
theorem grid_triangulation_wellformed (r c : Nat) :
    WF (r * c) (gridTriangulation r c) ∧ (∀ t ∈ gridTriangulation r c, t.verts.Nodup) ∧
    (gridTriangulation r c).length = 2 * ((r - 1) * (c - 1)) :=
  ⟨grid_wf r c, grid_distinct r c, grid_length r c⟩

example : gridTriangulation 2 3 = [(0, 3, 4), (1, 4, 5), (0, 4, 1), (1, 5, 2)] := by decide
example : boundarySpec (gridTriangulation 3 3) = [true, false, true, true, true, true, false, true] ∧
    (uniqueEdges (gridTriangulation 3 3)).length = 16 := by decide

/-! ## 12. histories of queries, masks and copies over mesh objects

`stepH false` is the code in /repo (no query leaves anything on the instance — the regenerated
obligation `queryWrites_ok`); `stepH true` is the same code with an edge cache on the instance that
`self.copy()` inside `from_mask` carries to the masked mesh. -/

theorem chunks3_edges (n : Nat) (ts : List Tri) :
    chunks3 ((edgeIndices ts).map (edgeKey n)) = ts.map (fun t => t.edges.map (edgeKey n)) := by
  induction ts with
  | nil => rfl
  | cons t ts ih =>
    have h : edgeIndices (t :: ts) = t.edges ++ edgeIndices ts := by simp [edgeIndices]
    rw [h, List.map_append, List.map_cons, ← ih]
    rfl

/-- the coded `boundary_tri_index` applied to the edges of the mesh itself is `boundaryCount` -/
theorem boundFromEdges_eq (n : Nat) (ts : List Tri) :
    boundFromEdges n (edgeIndices ts) = boundaryCount n ts := by
  simp only [boundFromEdges, boundaryCount, chunks3_edges, List.map_map]
  apply List.map_congr_left
  intro t _
  simp only [Function.comp, List.any_map]
  rfl

theorem set_self {α} (l : List α) (i : Nat) (a : α) (h : l[i]? = some a) : l.set i a = l := by
  apply List.ext_getElem?
  intro j
  rw [List.getElem?_set]
  by_cases hij : i = j
  · subst hij
    have : i < l.length := by
      rcases Nat.lt_or_ge i l.length with h' | h'
      · exact h'
      · rw [List.getElem?_eq_none h'] at h; cases h
    rw [List.getElem?_eq_getElem this] at h
    simp [this, Option.some.inj h]
  · simp [hij]

/-- one call of the code in /repo on freshly built objects is one call of the specification -/
theorem stepH_pure (ms : List (Mesh P C T)) (op : HOp) :
    stepH false (ms.map Obj.fresh) op = ((stepSpec ms op).1.map Obj.fresh, (stepSpec ms op).2) := by
  cases op with
  | edges i =>
    simp only [stepH, stepSpec, List.getElem?_map]
    cases h : ms[i]? with
    | none => simp
    | some M =>
      simp only [Option.map_some, edgesOf, Bool.false_eq_true, if_false, Obj.fresh]
      rw [set_self _ i _ (by simp [List.getElem?_map, h, Obj.fresh])]
  | bound i =>
    simp only [stepH, stepSpec, List.getElem?_map]
    cases h : ms[i]? with
    | none => simp
    | some M =>
      simp only [Option.map_some, boundOf, edgesOf, Bool.false_eq_true, if_false, Obj.fresh, boundFromEdges_eq]
      rw [set_self _ i _ (by simp [List.getElem?_map, h, Obj.fresh])]
  | mask i m =>
    simp only [stepH, stepSpec, List.getElem?_map]
    cases h : ms[i]? with
    | none => simp
    | some M =>
      simp only [Option.map_some, Obj.fresh]
      cases fromMask M m with
      | error e => simp
      | ok R => simp [Obj.fresh]
  | trimask i m =>
    simp only [stepH, stepSpec, List.getElem?_map]
    cases h : ms[i]? with
    | none => simp
    | some M =>
      simp only [Option.map_some, Obj.fresh]
      cases fromTriMask M m with
      | error e => simp
      | ok R => simp [Obj.fresh]
  | copy i =>
    simp only [stepH, stepSpec, List.getElem?_map]
    cases h : ms[i]? with
    | none => simp
    | some M => simp [Obj.fresh]

/-- PROPERTY (histories): every history of geometry queries, masks, triangle masks and copies over
objects of the code in /repo is the specified history — each query is answered from the arrays of the
object asked, whatever was queried, masked or copied before (induction over the call sequence). -/
theorem history_pure (ms : List (Mesh P C T)) (ops : List HOp) :
    runH false (ms.map Obj.fresh) ops = ((runSpec ms ops).1.map Obj.fresh, (runSpec ms ops).2) := by
  induction ops generalizing ms with
  | nil => rfl
  | cons op ops ih =>
    simp only [runH, runSpec, stepH_pure, ih]

theorem stepSpec_prefix (ms : List (Mesh P C T)) (op : HOp) (i : Nat) (hi : i < ms.length) :
    (stepSpec ms op).1[i]? = ms[i]? := by
  cases op <;> simp only [stepSpec] <;> (repeat' split) <;>
    first | rfl | simp [List.getElem?_append_left hi]

theorem stepSpec_length_le (ms : List (Mesh P C T)) (op : HOp) : ms.length ≤ (stepSpec ms op).1.length := by
  cases op <;> simp only [stepSpec] <;> (repeat' split) <;> simp

/-- PROPERTY ("masking never mutates its receiver", over whole histories): no call changes an
object that exists — masks and copies only ever add objects. -/
theorem history_objects_never_change (ms : List (Mesh P C T)) (ops : List HOp) (i : Nat) (hi : i < ms.length) :
    (runSpec ms ops).1[i]? = ms[i]? ∧ (runH false (ms.map Obj.fresh) ops).1[i]? = (ms.map Obj.fresh)[i]? := by
  have key : ∀ (ops : List HOp) (ms : List (Mesh P C T)), i < ms.length → (runSpec ms ops).1[i]? = ms[i]? := by
    intro ops
    induction ops with
    | nil => intro ms _; rfl
    | cons op ops ih =>
      intro ms hi
      simp only [runSpec]
      rw [ih _ (Nat.lt_of_lt_of_le hi (stepSpec_length_le ms op)), stepSpec_prefix ms op i hi]
  refine ⟨key ops ms hi, ?_⟩
  rw [history_pure, List.getElem?_map, List.getElem?_map, key ops ms hi]

/-- REFUTATION of the memoising variant (a cache left on the instance by `edge_indices`, carried to
the masked mesh by `self.copy()` and never invalidated): query, mask, query — the masked mesh
answers with the edges, and the boundary flags, of the mesh it was masked from. -/
theorem history_memo_refuted :
    (runH true [Obj.fresh exMesh] [.edges 0, .mask 0 exMask2, .edges 1, .bound 1]).2
      ≠ (runSpec [exMesh] [.edges 0, .mask 0 exMask2, .edges 1, .bound 1]).2 ∧
    (runH true [Obj.fresh exMesh] [.mask 0 exMask2, .edges 1, .bound 1]).2
      = (runSpec [exMesh] [.mask 0 exMask2, .edges 1, .bound 1]).2 := by
  decide

example : (runSpec [exMesh] [.edges 0, .mask 0 exMask2, .edges 1, .bound 1, .copy 1, .trimask 2 [true, false]]).2 =
    [.edges [(0, 1), (1, 2), (2, 0), (1, 3), (3, 2), (2, 1), (4, 5), (5, 6), (6, 4)],
     .made { pts := [11, 12, 13, 14, 15, 16], cols := [21, 22, 23, 24, 25, 26], tcs := [31, 32, 33, 34, 35, 36],
             tris := [(0, 2, 1), (3, 4, 5)] },
     .edges [(0, 2), (2, 1), (1, 0), (3, 4), (4, 5), (5, 3)], .bits [true, true],
     .made { pts := [11, 12, 13, 14, 15, 16], cols := [21, 22, 23, 24, 25, 26], tcs := [31, 32, 33, 34, 35, 36],
             tris := [(0, 2, 1), (3, 4, 5)] },
     .made { pts := [11, 12, 13], cols := [21, 22, 23], tcs := [31, 32, 33], tris := [(0, 2, 1)] }] := by decide


end MenpoModel.C17
