/-
C11 — the bridge from `Src.ipca` (Core/C11Src.lean: what the translated `menpo.math.decomposition.ipca` is proved equal to
in GenProps/C11Src.lean) to the matrix-level theorems of Props/C11.lean.  Arrays are read as Mathlib matrices of the
shapes they have (`toMat`); `vstack` / `hstack` are `fromRows` / `fromCols` up to `finSumFinEquiv`; the `R` matrix the
translated code builds IS `ipcaR`; hence `ipca_scatter_exact` and `ipca_rows_orthonormal` apply to the arrays the code
computes, and the discard `l[l > τ]; U[:len(l)]` keeps a prefix on which they survive.
-/
import MenpoModel.Props.C11Src
import MenpoModel.Lemmas.C11Rank
import Mathlib.Logic.Equiv.Fin.Basic
import Mathlib.Algebra.BigOperators.Fin
import Mathlib.Tactic.FieldSimp

set_option linter.unusedSectionVars false
set_option linter.unusedSimpArgs false

namespace MenpoModel.C11
open NP Matrix

/-- an array read as a matrix of the declared shape -/
def toMat (A : M) (r c : Nat) : Matrix (Fin r) (Fin c) ℚ := fun i j => A.f i j

theorem rsum_eq_sum (n : Nat) (g : Nat → Rat) : rsum n g = ∑ i : Fin n, g i := by
  induction n with
  | zero => simp [rsum]
  | succ n ih =>
    rw [Fin.sum_univ_castSucc]
    simp only [Fin.val_castSucc, Fin.val_last]
    rw [← ih]
    simp [rsum, List.range_succ]

theorem toMat_dot (A B : M) (r n c : Nat) (h : A.c = n) : toMat (dot A B) r c = toMat A r n * toMat B n c := by
  ext i j
  simp only [toMat, dot, Matrix.mul_apply, h]
  exact rsum_eq_sum n _

theorem toMat_T (A : M) (r c : Nat) : toMat (T A) r c = (toMat A c r)ᵀ := rfl
theorem toMat_sub (A B : M) (r c : Nat) : toMat (A - B) r c = toMat A r c - toMat B r c := rfl
theorem toMat_smul (s : Rat) (A : M) (r c : Nat) : toMat (s * A) r c = s • toMat A r c := rfl
theorem toMat_diag (v : V) (n : Nat) : toMat (NP.diag v) n n = diagonal (fun i : Fin n => v.f i) := by
  ext i j
  simp only [toMat, NP.diag, diagonal_apply, Fin.ext_iff]

theorem toMat_vstack (A B : M) (a b c : Nat) (h : A.r = a) :
    toMat (vstack A B) (a + b) c = (fromRows (toMat A a c) (toMat B b c)).submatrix finSumFinEquiv.symm id := by
  ext i j
  refine Fin.addCases (fun i => ?_) (fun i => ?_) i
  · simp [toMat, vstack, h, finSumFinEquiv_symm_apply_castAdd]
  · simp [toMat, vstack, h, finSumFinEquiv_symm_apply_natAdd]

theorem toMat_hstack (A B : M) (r a b : Nat) (h : A.c = a) :
    toMat (hstack A B) r (a + b) = (fromCols (toMat A r a) (toMat B r b)).submatrix id finSumFinEquiv.symm := by
  ext i j
  refine Fin.addCases (fun j => ?_) (fun j => ?_) j
  · simp [toMat, hstack, h, finSumFinEquiv_symm_apply_castAdd]
  · simp [toMat, hstack, h, finSumFinEquiv_symm_apply_natAdd]

theorem toMat_zeros (a b r c : Nat) : toMat (zeros a b) r c = 0 := rfl


/-! ### the intermediate arrays of `ipca`'s tail, named -/

/-- `PB = B - B.dot(U_a.T).dot(U_a)` -/
def tailPB (B Ua : M) : M := B - dot (dot B (T Ua)) Ua
/-- `B_tilde = np.linalg.qr(PB.T)[0].T` -/
def tailBt (lib : Lib) (B Ua : M) : M := T (lib.qrQ (T (tailPB B Ua)))
/-- the `R` matrix -/
def tailR (lib : Lib) (B Ua : M) (sa : V) (f : Rat) : M :=
  hstack (vstack (f * NP.diag sa) (dot B (T Ua)))
    (vstack (zeros (NP.diag sa).r (tailBt lib B Ua).r) (dot (tailPB B Ua) (T (tailBt lib B Ua))))

theorem toMat_tailPB (B Ua : M) (k m d : Nat) (hUr : Ua.r = k) (hBc : B.c = d) :
    toMat (tailPB B Ua) m d = projOut (toMat Ua k d) (toMat B m d) := by
  unfold tailPB projOut
  rw [toMat_sub, toMat_dot _ _ m k d (by simp [dot, T, hUr]), toMat_dot _ _ m d k hBc, toMat_T]

theorem toMat_tailR (lib : Lib) (B Ua : M) (sa : V) (f : Rat) (k m q d : Nat) (hUr : Ua.r = k) (hUc : Ua.c = d)
    (hBc : B.c = d) (hsa : sa.n = k) :
    toMat (tailR lib B Ua sa f) (k + m) (k + q)
      = (ipcaR (toMat Ua k d) (fun i : Fin k => f * sa.f i) (toMat B m d) (toMat (tailBt lib B Ua) q d)).submatrix
          finSumFinEquiv.symm finSumFinEquiv.symm := by
  have hPBc : (tailPB B Ua).c = d := by simp [tailPB, dot, hBc, hUc]
  unfold tailR ipcaR
  rw [toMat_hstack _ _ (k + m) k q (by simp [vstack, NP.diag, hsa]),
    toMat_vstack _ _ k m k (by simp [NP.diag, hsa]), toMat_vstack _ _ k m q (by simp [zeros, NP.diag, hsa]),
    toMat_smul, toMat_diag, toMat_zeros, toMat_dot _ _ m d k hBc, toMat_dot _ _ m d q hPBc, toMat_T, toMat_T,
    toMat_tailPB B Ua k m d hUr hBc]
  ext i j
  refine Fin.addCases (fun i => ?_) (fun i => ?_) i <;> refine Fin.addCases (fun j => ?_) (fun j => ?_) j <;>
    simp [finSumFinEquiv_symm_apply_castAdd, finSumFinEquiv_symm_apply_natAdd, Matrix.diagonal_apply, Matrix.smul_apply,
      mul_ite]


/-- squared singular values, zero padded to the number of columns of `R` -/
def sigmaOf (st : V) (c : Nat) : Fin c → ℚ := fun i => if (i : Nat) < st.n then st.f i * st.f i else 0

/-- the full (undiscarded) decomposition: `Wᵀ diag(σ) W = f² U_aᵀ diag(s_a²) U_a + BᵀB` for `W = Vt·[U_a; B̃]`, as
matrices of the shapes the arrays have -/
theorem tail_full_represents (lib : Lib) (B Ua : M) (sa : V) (f : Rat) (k m q d : Nat) (hUr : Ua.r = k) (hUc : Ua.c = d)
    (hBc : B.c = d) (hsa : sa.n = k) (Vt : M) (st : V) (hVc : Vt.c = k + q)
    (hqr : toMat (tailPB B Ua) m d * (toMat (tailBt lib B Ua) q d)ᵀ * toMat (tailBt lib B Ua) q d = toMat (tailPB B Ua) m d)
    (hsvd : (toMat (tailR lib B Ua sa f) (k + m) (k + q))ᵀ * toMat (tailR lib B Ua sa f) (k + m) (k + q)
      = (toMat Vt (k + q) (k + q))ᵀ * diagonal (sigmaOf st (k + q)) * toMat Vt (k + q) (k + q)) :
    (toMat (dot Vt (vstack Ua (tailBt lib B Ua))) (k + q) d)ᵀ * diagonal (sigmaOf st (k + q))
        * toMat (dot Vt (vstack Ua (tailBt lib B Ua))) (k + q) d
      = (f * f) • ((toMat Ua k d)ᵀ * diagonal (fun i : Fin k => sa.f i * sa.f i) * toMat Ua k d)
        + (toMat B m d)ᵀ * toMat B m d := by
  set e := (finSumFinEquiv : Fin k ⊕ Fin q ≃ Fin (k + q)) with he
  set Ua' := toMat Ua k d
  set B' := toMat B m d
  set Bt' := toMat (tailBt lib B Ua) q d
  set Vt' := (toMat Vt (k + q) (k + q)).submatrix e e with hVt'
  have hqr' : projOut Ua' B' * Bt'ᵀ * Bt' = projOut Ua' B' := by
    rw [← toMat_tailPB B Ua k m d hUr hBc]; exact hqr
  have hsvd' : (ipcaR Ua' (fun i : Fin k => f * sa.f i) B' Bt')ᵀ * ipcaR Ua' (fun i : Fin k => f * sa.f i) B' Bt'
      = Vt'ᵀ * diagonal (fun i => sigmaOf st (k + q) (e i)) * Vt' := by
    have h0 := congrArg (fun X => X.submatrix e e) hsvd
    simp only [toMat_tailR lib B Ua sa f k m q d hUr hUc hBc hsa] at h0
    have r1 : Vt'ᵀ * diagonal (fun i => sigmaOf st (k + q) (e i)) * Vt'
        = ((toMat Vt (k + q) (k + q))ᵀ * diagonal (sigmaOf st (k + q)) * toMat Vt (k + q) (k + q)).submatrix e e := by
      rw [hVt', Matrix.transpose_submatrix]
      have : diagonal (fun i => sigmaOf st (k + q) (e i)) = (diagonal (sigmaOf st (k + q))).submatrix e e := by
        rw [Matrix.submatrix_diagonal_equiv]; rfl
      rw [this, Matrix.submatrix_mul_equiv, Matrix.submatrix_mul_equiv]
    rw [r1, ← h0, Matrix.transpose_submatrix, Matrix.submatrix_mul_equiv, Matrix.submatrix_submatrix]
    simp [he]
    rfl
  have key := ipca_scatter_exact Ua' (fun i : Fin k => f * sa.f i) B' Bt' Vt' _ hqr' hsvd'
  have hW : toMat (dot Vt (vstack Ua (tailBt lib B Ua))) (k + q) d = (Vt' * fromRows Ua' Bt').submatrix e.symm id := by
    rw [toMat_dot _ _ (k + q) (k + q) d hVc, toMat_vstack _ _ k q d hUr, hVt']
    rw [← Matrix.submatrix_mul_equiv _ _ _ e.symm, Matrix.submatrix_submatrix]
    simp
    rfl
  rw [hW, Matrix.transpose_submatrix]
  have hD : diagonal (sigmaOf st (k + q)) = (diagonal (fun i => sigmaOf st (k + q) (e i))).submatrix e.symm e.symm := by
    rw [Matrix.submatrix_diagonal_equiv]; congr 1; funext i; simp
  rw [hD, Matrix.submatrix_mul_equiv, Matrix.submatrix_mul_equiv, key]
  simp only [Matrix.submatrix_id_id]
  congr 1
  have : diagonal (fun i : Fin k => f * sa.f i * (f * sa.f i)) = (f * f) • diagonal (fun i : Fin k => sa.f i * sa.f i) := by
    ext i j; by_cases h : i = j
    · subst h; simp; ring
    · simp [h]
  rw [this, Matrix.mul_smul, Matrix.smul_mul]


/-- rows of `W = Vt·[U_a; B̃]` with a non-zero singular value are orthonormal (any rank of the residual) -/
theorem tail_rows_orthonormal (lib : Lib) (B Ua : M) (sa : V) (f : Rat) (k m q d : Nat) (hUr : Ua.r = k) (hUc : Ua.c = d)
    (hBc : B.c = d) (hsa : sa.n = k) (Vt : M) (st : V) (hVc : Vt.c = k + q)
    (hUa : toMat Ua k d * (toMat Ua k d)ᵀ = 1)
    (hqr : toMat (tailPB B Ua) m d * (toMat (tailBt lib B Ua) q d)ᵀ * toMat (tailBt lib B Ua) q d = toMat (tailPB B Ua) m d)
    (hsvd : (toMat (tailR lib B Ua sa f) (k + m) (k + q))ᵀ * toMat (tailR lib B Ua sa f) (k + m) (k + q)
      = (toMat Vt (k + q) (k + q))ᵀ * diagonal (sigmaOf st (k + q)) * toMat Vt (k + q) (k + q))
    (hV : toMat Vt (k + q) (k + q) * (toMat Vt (k + q) (k + q))ᵀ = 1)
    (i j : Fin (k + q)) (hi : sigmaOf st (k + q) i ≠ 0) (hj : sigmaOf st (k + q) j ≠ 0) :
    (toMat (dot Vt (vstack Ua (tailBt lib B Ua))) (k + q) d * (toMat (dot Vt (vstack Ua (tailBt lib B Ua))) (k + q) d)ᵀ) i j
      = if i = j then 1 else 0 := by
  set e := (finSumFinEquiv : Fin k ⊕ Fin q ≃ Fin (k + q)) with he
  set Ua' := toMat Ua k d
  set B' := toMat B m d
  set Bt' := toMat (tailBt lib B Ua) q d
  set Vt' := (toMat Vt (k + q) (k + q)).submatrix e e with hVt'
  have hqr' : projOut Ua' B' * Bt'ᵀ * Bt' = projOut Ua' B' := by
    rw [← toMat_tailPB B Ua k m d hUr hBc]; exact hqr
  have hsvd' : (ipcaR Ua' (fun i : Fin k => f * sa.f i) B' Bt')ᵀ * ipcaR Ua' (fun i : Fin k => f * sa.f i) B' Bt'
      = Vt'ᵀ * diagonal (fun i => sigmaOf st (k + q) (e i)) * Vt' := by
    have h0 := congrArg (fun X => X.submatrix e e) hsvd
    simp only [toMat_tailR lib B Ua sa f k m q d hUr hUc hBc hsa] at h0
    have r1 : Vt'ᵀ * diagonal (fun i => sigmaOf st (k + q) (e i)) * Vt'
        = ((toMat Vt (k + q) (k + q))ᵀ * diagonal (sigmaOf st (k + q)) * toMat Vt (k + q) (k + q)).submatrix e e := by
      rw [hVt', Matrix.transpose_submatrix]
      have : diagonal (fun i => sigmaOf st (k + q) (e i)) = (diagonal (sigmaOf st (k + q))).submatrix e e := by
        rw [Matrix.submatrix_diagonal_equiv]; rfl
      rw [this, Matrix.submatrix_mul_equiv, Matrix.submatrix_mul_equiv]
    rw [r1, ← h0, Matrix.transpose_submatrix, Matrix.submatrix_mul_equiv, Matrix.submatrix_submatrix]
    simp [he]
    rfl
  have hV' : Vt' * Vt'ᵀ = 1 := by
    rw [hVt', Matrix.transpose_submatrix, Matrix.submatrix_mul_equiv, hV, Matrix.submatrix_one_equiv]
  have hW : toMat (dot Vt (vstack Ua (tailBt lib B Ua))) (k + q) d = (Vt' * fromRows Ua' Bt').submatrix e.symm id := by
    rw [toMat_dot _ _ (k + q) (k + q) d hVc, toMat_vstack _ _ k q d hUr, hVt']
    rw [← Matrix.submatrix_mul_equiv _ _ _ e.symm, Matrix.submatrix_submatrix]
    simp
    rfl
  have key := ipca_rows_orthonormal Ua' (fun i : Fin k => f * sa.f i) B' Bt' Vt' _ hUa hqr' hsvd' hV' (e.symm i) (e.symm j)
    (by simpa using hi) (by simpa using hj)
  rw [hW, Matrix.transpose_submatrix]
  have : ((Vt' * fromRows Ua' Bt').submatrix e.symm id * ((Vt' * fromRows Ua' Bt')ᵀ).submatrix id e.symm) i j
      = ((Vt' * fromRows Ua' Bt') * (Vt' * fromRows Ua' Bt')ᵀ) (e.symm i) (e.symm j) := by
    simp [Matrix.mul_apply]
  rw [this, key]
  simp [EmbeddingLike.apply_eq_iff_eq]

theorem filter_range_prefix (p : Nat → Bool) (n : Nat) (hp : ∀ i j, i ≤ j → j < n → p j = true → p i = true) :
    (List.range n).filter p = List.range ((List.range n).filter p).length := by
  induction n with
  | zero => rfl
  | succ n ih =>
    rw [List.range_succ, List.filter_append]
    by_cases hn : p n = true
    · have hall : (List.range n).filter p = List.range n := by
        rw [List.filter_eq_self]
        intro i hi
        exact hp i n (Nat.le_of_lt (List.mem_range.mp hi)) (Nat.lt_succ_self n) hn
      simp [hall, hn, List.range_succ]
    · have ih' := ih (fun i j hij hj => hp i j hij (Nat.lt_succ_of_lt hj))
      simp only [List.filter_cons, hn, List.filter_nil, List.append_nil, Bool.false_eq_true, if_false]
      exact ih'


/-- `l[l > τ]` on eigenvalues in descending order keeps a prefix: its length `L`, the kept values, and who is kept -/
theorem filterGt_prefix (l0 : V) (τ : Rat) (hdesc : ∀ i j, i ≤ j → j < l0.n → l0.f j ≤ l0.f i) :
    (filterGt l0 τ).n ≤ l0.n ∧ (∀ j, j < (filterGt l0 τ).n → (filterGt l0 τ).f j = l0.f j ∧ τ < l0.f j) ∧
      (∀ i, (filterGt l0 τ).n ≤ i → i < l0.n → ¬ τ < l0.f i) := by
  have hpre := filter_range_prefix (fun i => decide (τ < l0.f i)) l0.n (by
    intro i j hij hj hpj
    simp only [decide_eq_true_eq] at hpj ⊢
    exact lt_of_lt_of_le hpj (hdesc i j hij hj))
  set kept := (List.range l0.n).filter (fun i => decide (τ < l0.f i)) with hk
  have hn : (filterGt l0 τ).n = kept.length := rfl
  have hmem : ∀ i, i ∈ kept ↔ i < l0.n ∧ τ < l0.f i := by
    intro i; simp [hk]
  refine ⟨?_, ?_, ?_⟩
  · rw [hn]; simpa using List.length_filter_le _ (List.range l0.n)
  · intro j hj
    rw [hn] at hj
    have hget : kept.getD j 0 = j := by
      rw [hpre]; simp [List.getD_eq_getElem?_getD, hj]
    have hjm : j ∈ kept := by rw [hpre]; exact List.mem_range.mpr hj
    refine ⟨?_, ((hmem j).mp hjm).2⟩
    show l0.f (kept.getD j 0) = l0.f j
    rw [hget]
  · intro i hi hil hlt
    have : i ∈ kept := (hmem i).mpr ⟨hil, hlt⟩
    rw [hpre, List.mem_range, ← hn] at this
    omega


theorem sum_fin_trunc (L N : Nat) (hLN : L ≤ N) (g : Nat → ℚ) (h0 : ∀ i, L ≤ i → i < N → g i = 0) :
    ∑ i : Fin N, g i = ∑ i : Fin L, g i := by
  rw [Fin.sum_univ_eq_sum_range g N, Fin.sum_univ_eq_sum_range g L]
  symm
  apply Finset.sum_subset (Finset.range_subset_range.mpr hLN)
  intro i hi hni
  exact h0 i (by simpa using hni) (by simpa using hi)

/-- the threshold the translated tail discards with -/
def tailThr (lib : Lib) (B Ua : M) (sa : V) (f eps n : Rat) : Rat :=
  max eps ((maxShape (tailR lib B Ua sa f) : Rat) * lib.precision * vmax (sq (lib.svd (tailR lib B Ua sa f)).2.1 / (n - 1)))

theorem ipcaTail_eq (lib : Lib) (B Ua : M) (sa : V) (f eps n : Rat) (mv : V) :
    Src.ipcaTail lib B Ua sa f eps n mv =
      (sl (dot (lib.svd (tailR lib B Ua sa f)).2.2 (vstack Ua (tailBt lib B Ua))) 0
          (filterGt (sq (lib.svd (tailR lib B Ua sa f)).2.1 / (n - 1)) (tailThr lib B Ua sa f eps n)).n 0
          (dot (lib.svd (tailR lib B Ua sa f)).2.2 (vstack Ua (tailBt lib B Ua))).c,
        filterGt (sq (lib.svd (tailR lib B Ua sa f)).2.1 / (n - 1)) (tailThr lib B Ua sa f eps n), mv) := rfl

/-- PROPERTY (`ipca_scatter_exact` / `ipca_rows_orthonormal` about the TRANSLATED tail of `ipca`, any forgetting factor,
any rank of the residual): whatever `np.linalg.qr` and `np.linalg.svd` returned within their contracts — `PB B̃ᵀ B̃ = PB`,
`RᵀR = Vtᵀ diag(s̃², 0…) Vt`, `Vt Vtᵀ = 1`, singular values in descending order — and provided no eigenvalue lies in
`(0, τ]` for the threshold `τ = max(eps, max(R.shape)·precision·max l)` the code discards with, the returned `(U, l)`
satisfy `Uᵀ diag((n − 1) l) U = f² U_aᵀ diag(s_a²) U_a + BᵀB`, every kept eigenvalue is positive, and (when the stored
components are orthonormal) the rows of `U` are orthonormal.  `B` is whatever matrix the tail was handed: by
`src_ipca_plumbing` the new rows as they are, or centred with the pseudo-sample stacked last. -/
theorem src_ipcaTail_represents (lib : Lib) (B Ua : M) (sa : V) (f eps n : Rat) (mv : V) (k q d : Nat)
    (hUr : Ua.r = k) (hUc : Ua.c = d) (hBc : B.c = d) (hsa : sa.n = k)
    (hVc : (lib.svd (tailR lib B Ua sa f)).2.2.c = k + q) (hst : (lib.svd (tailR lib B Ua sa f)).2.1.n ≤ k + q)
    (hqr : toMat (tailPB B Ua) B.r d * (toMat (tailBt lib B Ua) q d)ᵀ * toMat (tailBt lib B Ua) q d = toMat (tailPB B Ua) B.r d)
    (hsvd : (toMat (tailR lib B Ua sa f) (k + B.r) (k + q))ᵀ * toMat (tailR lib B Ua sa f) (k + B.r) (k + q)
      = (toMat (lib.svd (tailR lib B Ua sa f)).2.2 (k + q) (k + q))ᵀ
          * diagonal (sigmaOf (lib.svd (tailR lib B Ua sa f)).2.1 (k + q))
          * toMat (lib.svd (tailR lib B Ua sa f)).2.2 (k + q) (k + q))
    (hV : toMat (lib.svd (tailR lib B Ua sa f)).2.2 (k + q) (k + q)
          * (toMat (lib.svd (tailR lib B Ua sa f)).2.2 (k + q) (k + q))ᵀ = 1)
    (hn : 0 < n - 1) (heps : 0 ≤ eps)
    (hdesc : ∀ i j, i ≤ j → j < (lib.svd (tailR lib B Ua sa f)).2.1.n →
      (lib.svd (tailR lib B Ua sa f)).2.1.f j * (lib.svd (tailR lib B Ua sa f)).2.1.f j
        ≤ (lib.svd (tailR lib B Ua sa f)).2.1.f i * (lib.svd (tailR lib B Ua sa f)).2.1.f i)
    (hgap : ∀ i, i < (lib.svd (tailR lib B Ua sa f)).2.1.n →
      (lib.svd (tailR lib B Ua sa f)).2.1.f i * (lib.svd (tailR lib B Ua sa f)).2.1.f i = 0 ∨
      tailThr lib B Ua sa f eps n
        < (lib.svd (tailR lib B Ua sa f)).2.1.f i * (lib.svd (tailR lib B Ua sa f)).2.1.f i / (n - 1)) :
    (Src.ipcaTail lib B Ua sa f eps n mv).2.2 = mv ∧
    (toMat (Src.ipcaTail lib B Ua sa f eps n mv).1 (Src.ipcaTail lib B Ua sa f eps n mv).2.1.n d)ᵀ
        * diagonal (fun i : Fin (Src.ipcaTail lib B Ua sa f eps n mv).2.1.n =>
            (Src.ipcaTail lib B Ua sa f eps n mv).2.1.f i * (n - 1))
        * toMat (Src.ipcaTail lib B Ua sa f eps n mv).1 (Src.ipcaTail lib B Ua sa f eps n mv).2.1.n d
      = (f * f) • ((toMat Ua k d)ᵀ * diagonal (fun i : Fin k => sa.f i * sa.f i) * toMat Ua k d)
        + (toMat B B.r d)ᵀ * toMat B B.r d ∧
    (∀ i, i < (Src.ipcaTail lib B Ua sa f eps n mv).2.1.n → 0 < (Src.ipcaTail lib B Ua sa f eps n mv).2.1.f i) ∧
    (toMat Ua k d * (toMat Ua k d)ᵀ = 1 →
      toMat (Src.ipcaTail lib B Ua sa f eps n mv).1 (Src.ipcaTail lib B Ua sa f eps n mv).2.1.n d
        * (toMat (Src.ipcaTail lib B Ua sa f eps n mv).1 (Src.ipcaTail lib B Ua sa f eps n mv).2.1.n d)ᵀ = 1) := by
  rw [ipcaTail_eq]
  set R := tailR lib B Ua sa f
  set st := (lib.svd R).2.1
  set Vt := (lib.svd R).2.2
  set τ := tailThr lib B Ua sa f eps n
  set l0 : V := sq st / (n - 1)
  set W := dot Vt (vstack Ua (tailBt lib B Ua))
  have hne : n - 1 ≠ 0 := ne_of_gt hn
  have hτ : 0 ≤ τ := le_trans heps (le_max_left _ _)
  have hl0 : ∀ i, l0.f i = st.f i * st.f i / (n - 1) := fun i => rfl
  have hl0n : l0.n = st.n := rfl
  obtain ⟨hL, hkeep, hdrop⟩ := filterGt_prefix l0 τ (by
    intro i j hij hj
    rw [hl0, hl0]
    exact div_le_div_of_nonneg_right (hdesc i j hij hj) (le_of_lt hn))
  set L := (filterGt l0 τ).n
  have hLN : L ≤ k + q := le_trans hL hst
  -- σ vanishes on the discarded rows
  have hσ0 : ∀ i, L ≤ i → i < k + q → (if i < st.n then st.f i * st.f i else 0 : ℚ) = 0 := by
    intro i hi _
    by_cases h : i < st.n
    · simp only [h, if_true]
      rcases hgap i h with h0 | h1
      · exact h0
      · exact absurd (by rw [hl0]; exact h1) (hdrop i hi h)
    · simp [h]
  have hσL : ∀ i, i < L → (filterGt l0 τ).f i * (n - 1) = st.f i * st.f i ∧ i < st.n := by
    intro i hi
    have hi2 : i < st.n := lt_of_lt_of_le hi hL
    rw [(hkeep i hi).1, hl0]
    exact ⟨by field_simp, hi2⟩
  have hfull := tail_full_represents lib B Ua sa f k B.r q d hUr hUc hBc hsa Vt st hVc hqr hsvd
  refine ⟨rfl, ?_, ?_, ?_⟩
  · rw [← hfull]
    ext a b
    rw [representation_entry, representation_entry]
    have hU : ∀ (i : Fin L) (c : Fin d), toMat (sl W 0 L 0 W.c) L d i c = W.f i c := by
      intro i c; simp [toMat, sl]
    simp only [hU]
    have hR : (∑ i : Fin (k + q), sigmaOf st (k + q) i * toMat W (k + q) d i a * toMat W (k + q) d i b)
        = ∑ i : Fin (k + q), (fun i : Nat => (if i < st.n then st.f i * st.f i else 0) * W.f i a * W.f i b) i := rfl
    rw [hR, sum_fin_trunc L (k + q) hLN (fun i => (if i < st.n then st.f i * st.f i else 0) * W.f i a * W.f i b)
      (fun i hi hiN => by rw [hσ0 i hi hiN]; ring)]
    apply Finset.sum_congr rfl
    intro i _
    have := hσL i i.isLt
    simp only [this.2, if_true, this.1]
  · intro i hi
    have h1 := (hkeep i hi).2
    rw [(hkeep i hi).1]
    exact lt_of_le_of_lt hτ h1
  · intro hUa
    ext i j
    have hi := hσL i i.isLt
    have hj := hσL j j.isLt
    have hpos : ∀ (t : Fin L), sigmaOf st (k + q) ⟨t, lt_of_lt_of_le t.isLt hLN⟩ ≠ 0 := by
      intro t
      have ht := hσL t t.isLt
      have hk := hkeep t t.isLt
      simp only [sigmaOf, ht.2, if_true]
      have : 0 < st.f t * st.f t / (n - 1) := by rw [← hl0]; exact lt_of_le_of_lt hτ hk.2
      intro h0; rw [h0, zero_div] at this; exact lt_irrefl _ this
    have key := tail_rows_orthonormal lib B Ua sa f k B.r q d hUr hUc hBc hsa Vt st hVc hUa hqr hsvd hV
      ⟨i, lt_of_lt_of_le i.isLt hLN⟩ ⟨j, lt_of_lt_of_le j.isLt hLN⟩ (hpos i) (hpos j)
    simp only [Matrix.mul_apply, Matrix.transpose_apply, toMat, sl, Nat.zero_add, Matrix.one_apply] at key ⊢
    rw [key]
    simp [Fin.ext_iff]


/-! ### the plumbing of `ipca` in front of the tail -/

/-- the matrix `ipca` hands to its `R` construction, for any running mean `ma` and any value `r` of the square root:
the new rows as they are, or centred on their own mean with the pseudo-sample `r (m_b − m_a)` stacked below -/
def augDataGen (centred : Bool) (ma : Vec) (Bd : Data) (r : ℚ) : Data :=
  if centred then centre Bd (mean Bd) ++ [fun c => r * (mean Bd c - ma c)] else Bd

theorem augData_eq_gen (centred : Bool) (X Bd : Data) (r : ℚ) : augData centred X Bd r = augDataGen centred (mean X) Bd r := rfl

theorem mean0_f {Bm : M} {Bd : Data} (h : DataRepr Bm Bd) : (mean0 Bm).f = mean Bd := by
  funext j
  simp only [mean0, mean]
  rw [rsum_sumC h, h.1]

theorem getD_append_singleton (l : Data) (x : Vec) (i : Nat) :
    (l ++ [x]).getD i zeroVec = if i < l.length then l.getD i zeroVec else if i = l.length then x else zeroVec := by
  by_cases h : i < l.length
  · simp [h, List.getD_eq_getElem?_getD, List.getElem?_append_left h]
  · by_cases h2 : i = l.length
    · subst h2; simp [List.getD_eq_getElem?_getD]
    · have : l.length < i := by omega
      simp [h, h2, List.getD_eq_getElem?_getD]
      rw [List.getElem?_eq_none (by simp; omega)]; rfl

/-- PROPERTY (the plumbing of the translated `ipca`, `centre` given): whatever the forgetting factor, the translated
function runs its tail (projection, QR, `R`, SVD, discard, final product) on the matrix that holds the new rows as they
are (uncentred) or centred on their own mean with the pseudo-sample `√(n_a n_b / n)(m_b − m_a)` stacked LAST, with
`n_a` already multiplied by `f`, singular values `√((n_a − 1) l_a)` from the count BEFORE it was multiplied, total count
`n = f n_a + n_b`; and it returns the mean `(f n_a / n) m_a + (n_b / n) m_b` (centred) or zeros -/
theorem src_ipca_plumbing (lib : Lib) (Bm Ua : M) (la : V) (na : Nat) (ma : V) (f eps : Rat) (centred : Bool)
    (Bd : Data) (hB : DataRepr Bm Bd) :
    ∃ Baug m, Src.ipca lib Bm Ua la na (some ma) f eps (some centred)
        = Src.ipcaTail (lib.withPrec (Src.operandPrec lib Bm Ua la)) Baug Ua (sqrt lib.sqrt (((na : Rat) - 1) * la)) f eps ((na : Rat) * f + (Bd.length : Rat)) m ∧
      DataRepr Baug (augDataGen centred ma.f Bd
        (lib.sqrt ((na : Rat) * f * (Bd.length : Rat) / ((na : Rat) * f + (Bd.length : Rat))))) ∧
      m.f = (fun i => if centred then (na : Rat) * f / ((na : Rat) * f + (Bd.length : Rat)) * ma.f i
                + (Bd.length : Rat) / ((na : Rat) * f + (Bd.length : Rat)) * mean Bd i else 0) := by
  cases centred
  · refine ⟨Bm, zerosV Bm.c, ?_, ?_, ?_⟩
    · simp [Src.ipca, hB.1]
    · simpa [augDataGen] using hB
    · funext i; simp [zerosV]
  · refine ⟨vstack (Bm - mean0 Bm) ((sqrt lib.sqrt ((na : Rat) * f * (Bm.r : Rat) / ((na : Rat) * f + (Bm.r : Rat))) : Rat)
        * (mean0 Bm - ma)), (((na : Rat) * f) / ((na : Rat) * f + (Bm.r : Rat))) * ma
          + ((Bm.r : Rat) / ((na : Rat) * f + (Bm.r : Rat))) * mean0 Bm, ?_, ?_, ?_⟩
    · simp only [Src.ipca, if_true, hB.1]
    · refine ⟨by simp [augDataGen, centre, vstack, hB.1], ?_⟩
      intro i hi j
      simp only [augDataGen, if_true, List.length_append, centre, List.length_map, List.length_singleton] at hi ⊢
      rw [getD_append_singleton]
      simp only [List.length_map]
      by_cases h1 : i < Bd.length
      · simp only [h1, if_true, vstack, M.subV_r, hB.1, M.subV_f, mean0_f hB, hB.2 i h1 j]
        simp [List.getD_eq_getElem?_getD, List.getElem?_map, List.getElem?_eq_getElem h1]
      · have h2 : i = Bd.length := by omega
        simp only [h1, h2, if_false, if_true, vstack, M.subV_r, hB.1, Nat.lt_irrefl, V.smul_f, V.sub_f, mean0_f hB]
        rfl
    · funext i; simp [mean0_f hB, hB.1]



/-! ### one translated `ipca` call end to end -/

/-- the matrix the translated `ipca` hands to its tail (`centre` given) -/
def srcAug (lib : Lib) (Bm : M) (na : Rat) (ma : V) (f : Rat) (centred : Bool) : M :=
  if centred then
    vstack (Bm - mean0 Bm) ((sqrt lib.sqrt (na * f * (Bm.r : Rat) / (na * f + (Bm.r : Rat))) : Rat) * (mean0 Bm - ma))
  else Bm

/-- the mean the translated `ipca` returns (`centre` given) -/
def srcMean (Bm : M) (na : Rat) (ma : V) (f : Rat) (centred : Bool) : V :=
  if centred then (na * f / (na * f + (Bm.r : Rat))) * ma + ((Bm.r : Rat) / (na * f + (Bm.r : Rat))) * mean0 Bm
  else zerosV Bm.c

theorem src_ipca_eq_tail (lib : Lib) (Bm Ua : M) (la : V) (na : Rat) (ma : V) (f eps : Rat) (centred : Bool) :
    Src.ipca lib Bm Ua la na (some ma) f eps (some centred)
      = Src.ipcaTail (lib.withPrec (Src.operandPrec lib Bm Ua la)) (srcAug lib Bm na ma f centred) Ua (sqrt lib.sqrt ((na - 1) * la)) f eps (na * f + (Bm.r : Rat))
          (srcMean Bm na ma f centred) := by
  cases centred <;> simp [Src.ipca, srcAug, srcMean]

theorem srcAug_repr (lib : Lib) {Bm : M} {Bd : Data} (hB : DataRepr Bm Bd) (na : Rat) (ma : V) (f : Rat) (centred : Bool) :
    DataRepr (srcAug lib Bm na ma f centred) (augDataGen centred ma.f Bd
      (lib.sqrt (na * f * (Bd.length : Rat) / (na * f + (Bd.length : Rat))))) := by
  cases centred
  · simpa [srcAug, augDataGen] using hB
  · refine ⟨by simp [srcAug, augDataGen, centre, vstack, hB.1], ?_⟩
    intro i hi j
    simp only [augDataGen, if_true, List.length_append, centre, List.length_map, List.length_singleton] at hi ⊢
    rw [getD_append_singleton]
    simp only [List.length_map, srcAug, if_true]
    by_cases h1 : i < Bd.length
    · simp only [h1, if_true, vstack, M.subV_r, hB.1, M.subV_f, mean0_f hB, hB.2 i h1 j]
      simp [List.getD_eq_getElem?_getD, List.getElem?_map, List.getElem?_eq_getElem h1]
    · have h2 : i = Bd.length := by omega
      simp only [h1, h2, if_false, if_true, vstack, M.subV_r, hB.1, Nat.lt_irrefl, V.smul_f, V.sub_f, mean0_f hB]
      rfl

theorem srcAug_c (lib : Lib) (Bm : M) (na : Rat) (ma : V) (f : Rat) (centred : Bool) (d : Nat) (hc : Bm.c = d) :
    (srcAug lib Bm na ma f centred).c = d := by
  cases centred <;> simp [srcAug, vstack, mean0, hc]

theorem toMat_gram {A : M} {D : Data} (h : DataRepr A D) (d : Nat) :
    (toMat A A.r d)ᵀ * toMat A A.r d = (matOfData d D)ᵀ * matOfData d D := by
  ext a b
  rw [matOfData_gram]
  simp only [Matrix.mul_apply, Matrix.transpose_apply, toMat, gram]
  rw [← rsum_eq_sum A.r (fun t => A.f t a * A.f t b), rsum_sumCC h]


/-- PROPERTY (one translated `ipca` call end to end, no forgetting — the translated counterpart of `IpcaReach.step`):
the stored `(U_a, l_a)` represent the scatter of the data `X` seen so far (`U_aᵀ diag((n_a − 1) l_a) U_a = scatter X`,
mean `m_a` of `X` for a centred model); the new samples `Bd` arrive as the data matrix `Bm`; `np.sqrt`, `np.linalg.qr`,
`np.linalg.svd` return anything within their contracts (on the arrays the translated code hands them); no eigenvalue lies
in `(0, τ]`.  Then what the translated `ipca` returns represents the scatter of ALL the data:
`Uᵀ diag((n − 1) l) U = scatter (X ++ Bd)`, all kept eigenvalues are positive, the mean is the batch mean (zeros when
uncentred), and the rows of `U` are orthonormal when those of `U_a` were -/
theorem src_ipca_step_represents (lib : Lib) (centred : Bool) (X Bd : Data) (hX : X ≠ []) (hBd : Bd ≠ [])
    (Bm Ua : M) (la : V) (eps : Rat) (k q d : Nat) (hB : DataRepr Bm Bd) (hBc : Bm.c = d)
    (hUr : Ua.r = k) (hUc : Ua.c = d) (hla : la.n = k)
    (hold : (toMat Ua k d)ᵀ * diagonal (fun i : Fin k => ((X.length : ℚ) - 1) * la.f i) * toMat Ua k d
      = scatterM d centred X)
    (hsq : ∀ i, i < k → lib.sqrt (((X.length : ℚ) - 1) * la.f i) * lib.sqrt (((X.length : ℚ) - 1) * la.f i)
      = ((X.length : ℚ) - 1) * la.f i)
    (hsqr : centred = true →
      lib.sqrt ((X.length : ℚ) * 1 * (Bd.length : ℚ) / ((X.length : ℚ) * 1 + (Bd.length : ℚ)))
        * lib.sqrt ((X.length : ℚ) * 1 * (Bd.length : ℚ) / ((X.length : ℚ) * 1 + (Bd.length : ℚ)))
        = (X.length : ℚ) * (Bd.length : ℚ) / ((X.length : ℚ) + (Bd.length : ℚ)))
    (A : M) (hA : A = srcAug lib Bm (X.length : ℚ) ⟨d, if centred then mean X else zeroVec⟩ 1 centred)
    (sa : V) (hsa : sa = sqrt lib.sqrt (((X.length : ℚ) - 1) * la))
    (hVc : (lib.svd (tailR lib A Ua sa 1)).2.2.c = k + q) (hst : (lib.svd (tailR lib A Ua sa 1)).2.1.n ≤ k + q)
    (hqr : toMat (tailPB A Ua) A.r d * (toMat (tailBt lib A Ua) q d)ᵀ * toMat (tailBt lib A Ua) q d = toMat (tailPB A Ua) A.r d)
    (hsvd : (toMat (tailR lib A Ua sa 1) (k + A.r) (k + q))ᵀ * toMat (tailR lib A Ua sa 1) (k + A.r) (k + q)
      = (toMat (lib.svd (tailR lib A Ua sa 1)).2.2 (k + q) (k + q))ᵀ
          * diagonal (sigmaOf (lib.svd (tailR lib A Ua sa 1)).2.1 (k + q))
          * toMat (lib.svd (tailR lib A Ua sa 1)).2.2 (k + q) (k + q))
    (hV : toMat (lib.svd (tailR lib A Ua sa 1)).2.2 (k + q) (k + q)
          * (toMat (lib.svd (tailR lib A Ua sa 1)).2.2 (k + q) (k + q))ᵀ = 1)
    (hn : 2 ≤ X.length) (heps : 0 ≤ eps)
    (hdesc : ∀ i j, i ≤ j → j < (lib.svd (tailR lib A Ua sa 1)).2.1.n →
      (lib.svd (tailR lib A Ua sa 1)).2.1.f j * (lib.svd (tailR lib A Ua sa 1)).2.1.f j
        ≤ (lib.svd (tailR lib A Ua sa 1)).2.1.f i * (lib.svd (tailR lib A Ua sa 1)).2.1.f i)
    (hgap : ∀ i, i < (lib.svd (tailR lib A Ua sa 1)).2.1.n →
      (lib.svd (tailR lib A Ua sa 1)).2.1.f i * (lib.svd (tailR lib A Ua sa 1)).2.1.f i = 0 ∨
      tailThr (lib.withPrec (Src.operandPrec lib Bm Ua la)) A Ua sa 1 eps ((X.length : ℚ) * 1 + (Bm.r : ℚ))
        < (lib.svd (tailR lib A Ua sa 1)).2.1.f i * (lib.svd (tailR lib A Ua sa 1)).2.1.f i
            / ((X.length : ℚ) * 1 + (Bm.r : ℚ) - 1)) :
    let r := Src.ipca lib Bm Ua la (X.length : ℚ) (some ⟨d, if centred then mean X else zeroVec⟩) 1 eps (some centred)
    (toMat r.1 r.2.1.n d)ᵀ * diagonal (fun i : Fin r.2.1.n => r.2.1.f i * (((X ++ Bd).length : ℚ) - 1)) * toMat r.1 r.2.1.n d
        = scatterM d centred (X ++ Bd) ∧
      (∀ i, i < r.2.1.n → 0 < r.2.1.f i) ∧
      r.2.2.f = (if centred then mean (X ++ Bd) else zeroVec) ∧
      (toMat Ua k d * (toMat Ua k d)ᵀ = 1 → toMat r.1 r.2.1.n d * (toMat r.1 r.2.1.n d)ᵀ = 1) := by
  intro r
  have hr : r = Src.ipcaTail (lib.withPrec (Src.operandPrec lib Bm Ua la)) A Ua sa 1 eps ((X.length : ℚ) * 1 + (Bm.r : ℚ))
      (srcMean Bm (X.length : ℚ) ⟨d, if centred then mean X else zeroVec⟩ 1 centred) := by
    rw [hA, hsa]; exact src_ipca_eq_tail lib Bm Ua la _ _ 1 eps centred
  have hAc : A.c = d := by rw [hA]; exact srcAug_c lib Bm _ _ 1 centred d hBc
  have hsan : sa.n = k := by rw [hsa]; simpa [sqrt, Sqrt.sqrt] using hla
  have hlen : (((X ++ Bd).length : ℚ) - 1) = (X.length : ℚ) * 1 + (Bm.r : ℚ) - 1 := by
    rw [hB.1]; simp
  have hnpos : 0 < (X.length : ℚ) * 1 + (Bm.r : ℚ) - 1 := by
    have : (2 : ℚ) ≤ X.length := by exact_mod_cast hn
    have : (0 : ℚ) ≤ Bm.r := by positivity
    linarith
  obtain ⟨hm, hrep, hpos, horth⟩ := src_ipcaTail_represents (lib.withPrec (Src.operandPrec lib Bm Ua la)) A Ua sa 1 eps
    ((X.length : ℚ) * 1 + (Bm.r : ℚ))
    (srcMean Bm (X.length : ℚ) ⟨d, if centred then mean X else zeroVec⟩ 1 centred) k q d hUr hUc hAc hsan hVc hst hqr hsvd hV
    hnpos heps hdesc hgap
  rw [← hr] at hm hrep hpos horth
  refine ⟨?_, hpos, ?_, horth⟩
  · rw [hlen, hrep]
    have hAr := srcAug_repr lib hB (X.length : ℚ) ⟨d, if centred then mean X else zeroVec⟩ 1 centred
    rw [← hA] at hAr
    rw [toMat_gram hAr d]
    have hsa2 : (fun i : Fin k => sa.f i * sa.f i) = fun i : Fin k => ((X.length : ℚ) - 1) * la.f i := by
      funext i; rw [hsa]; exact hsq i i.isLt
    rw [hsa2, hold]
    have := scatter_step d centred X Bd hX hBd
      (lib.sqrt ((X.length : ℚ) * 1 * (Bd.length : ℚ) / ((X.length : ℚ) * 1 + (Bd.length : ℚ)))) hsqr
    rw [← this]
    cases centred <;> rfl
  · rw [hm]
    cases centred
    · simp [srcMean, zerosV]; rfl
    · simp only [srcMean, if_true]
      funext i
      simp only [V.add_f, V.smul_f, mean0_f hB, hB.1]
      have := ipca_mean_exact X Bd hX hBd i
      rw [← this]; ring


/-! non-vacuity of the contracts of `src_ipca_step_represents`: an uncentred model of `(2,0), (0,0)` (component `e₀`,
eigenvalue 4), one new row `(0,3)`; `qr` returns `e₁`, `R = diag(2, 3)`, `svd` returns the singular values `3, 2` in
descending order with `Vt` the swap; the translated `ipca` returns eigenvalues `9/2, 2` and the scatter `diag(4, 9)` -/
section Example
def exLib : Lib where
  sqrt := fun x => if x = 4 then 2 else 0
  qrQ := fun _ => ⟨2, 1, fun i _ => if i = 1 then 1 else 0⟩
  svd := fun _ => (⟨2, 2, fun _ _ => 0⟩, ⟨2, fun i => if i = 0 then 3 else 2⟩,
    ⟨2, 2, fun i j => if i + j = 1 then 1 else 0⟩)
  precision := 0
  dtypeM := fun _ => 0
  dtypeV := fun _ => 0
  float64 := 0
  inexact := fun _ => true
  eps := fun _ => 1 / 4503599627370496

def exXs : Data := [ex1 [2, 0], ex1 [0, 0]]
def exBs : Data := [ex1 [0, 3]]
def exUaS : M := ⟨1, 2, fun _ j => if j = 0 then 1 else 0⟩
def exLaS : V := ⟨1, fun _ => 4⟩

example :
    let r := Src.ipca exLib (ofData 2 exBs) exUaS exLaS 2 (some ⟨2, zeroVec⟩) 1 defaultEps (some false)
    (toMat r.1 r.2.1.n 2)ᵀ * diagonal (fun i : Fin r.2.1.n => r.2.1.f i * (((exXs ++ exBs).length : ℚ) - 1)) * toMat r.1 r.2.1.n 2
        = scatterM 2 false (exXs ++ exBs) :=
  (src_ipca_step_represents exLib false exXs exBs (by decide) (by decide) (ofData 2 exBs) exUaS exLaS defaultEps 1 1 2
    (dataRepr_ofData 2 exBs) rfl rfl rfl rfl (by decide +kernel) (by decide +kernel) (by intro h; cases h)
    _ rfl _ rfl (by decide +kernel) (by decide +kernel) (by decide +kernel) (by decide +kernel) (by decide +kernel)
    (by decide) (by decide +kernel)
    (by intro i j hij hj
        have h : ∀ j, j < 2 → ∀ i, i ≤ j →
            (if j = 0 then (3 : ℚ) else 2) * (if j = 0 then 3 else 2) ≤ (if i = 0 then (3 : ℚ) else 2) * (if i = 0 then 3 else 2) := by
          decide +kernel
        exact h j hj i hij)
    (by intro i hi
        have h : ∀ i, i < 2 → (if i = 0 then (3 : ℚ) else 2) * (if i = 0 then 3 else 2) = 0 ∨
            tailThr (exLib.withPrec (Src.operandPrec exLib (ofData 2 exBs) exUaS exLaS)) (ofData 2 exBs) exUaS (sqrt exLib.sqrt (((2 : ℚ) - 1) * exLaS)) 1 defaultEps ((2 : ℚ) * 1 + 1)
              < (if i = 0 then (3 : ℚ) else 2) * (if i = 0 then 3 else 2) / ((2 : ℚ) * 1 + 1 - 1) := by
          decide +kernel
        exact h i hi)).1
end Example


/-! ### `PCAVectorModel.increment` / `PCAModel.increment`: what is done with `ipca`'s result -/

/-- PROPERTY (argument plumbing of the translated `PCAVectorModel.increment`): `ipca` is called on the data matrix with
the stored components, eigenvalues and count, `m_a = self._mean`, `f = forgetting_factor`, the default `eps`,
`centre = self.centred`; its results replace mean / components / eigenvalues; the count grows by the number of new
rows; the number of active components follows the new total iff it equalled the old total; `centred` is kept -/
theorem src_pcaIncrement_spec (lib : Lib) (eps : Rat) (st : PcaState) (X : M) (ff : Rat) :
    let r := Src.ipca lib X st.components st.eigs st.n (some st.mean) ff eps (some st.centred)
    Src.pcaIncrement lib eps st (.arr X) none ff
      = ⟨r.2.2, r.1, r.2.1, st.n + X.r, if st.nactive == st.components.r then r.1.r else st.nactive, st.centred⟩ := by
  simp [Src.pcaIncrement, Src.dataToMatrix, isArray, arrayOf, len]

/-- the object-level increment is the vector-level one on the stacked `as_vector()`s, with `n_samples` spelled out -/
theorem src_pcaIncrementObj_eq (lib : Lib) (eps : Rat) (st : PcaState) (samples : List V) (ff : Rat) :
    Src.pcaIncrementObj lib eps st samples none ff = Src.pcaIncrement lib eps st (.arr (NP.asMatrix samples none)) none ff := by
  simp [Src.pcaIncrementObj, Src.pcaIncrement, Src.dataToMatrix, isArray, arrayOf, len]


/-! ### chains of translated `PCAVectorModel.increment` calls -/

/-- the translated PCA model state `st` holds a decomposition of the scatter of the data `X` seen so far: count, the
`centred` flag, the mean (zeros when uncentred), `k = len(eigenvalues)` orthonormal components of dimension `d` with
`Uᵀ diag((n − 1) l) U = scatter X` -/
structure PcaRel (d : Nat) (centred : Bool) (X : Data) (st : PcaState) : Prop where
  n : st.n = X.length
  flag : st.centred = centred
  mean : st.mean = ⟨d, if centred then mean X else zeroVec⟩
  ur : st.components.r = st.eigs.n
  uc : st.components.c = d
  rep : (toMat st.components st.eigs.n d)ᵀ * diagonal (fun i : Fin st.eigs.n => ((X.length : ℚ) - 1) * st.eigs.f i)
      * toMat st.components st.eigs.n d = scatterM d centred X
  orth : toMat st.components st.eigs.n d * (toMat st.components st.eigs.n d)ᵀ = 1
  pos : ∀ i, i < st.eigs.n → 0 < st.eigs.f i

/-- the contracts of `np.sqrt`, `np.linalg.qr`, `np.linalg.svd` on the arrays one translated `ipca` call hands them, and
the gap hypothesis of its discard (`q` = number of rows of `B̃`) -/
structure IpcaContracts (lib : Lib) (eps : Rat) (d : Nat) (centred : Bool) (X Bd : Data) (st : PcaState) (Bm : M)
    (q : Nat) : Prop where
  sq : ∀ i, i < st.eigs.n → lib.sqrt (((X.length : ℚ) - 1) * st.eigs.f i) * lib.sqrt (((X.length : ℚ) - 1) * st.eigs.f i)
      = ((X.length : ℚ) - 1) * st.eigs.f i
  sqr : centred = true →
      lib.sqrt ((X.length : ℚ) * 1 * (Bd.length : ℚ) / ((X.length : ℚ) * 1 + (Bd.length : ℚ)))
        * lib.sqrt ((X.length : ℚ) * 1 * (Bd.length : ℚ) / ((X.length : ℚ) * 1 + (Bd.length : ℚ)))
        = (X.length : ℚ) * (Bd.length : ℚ) / ((X.length : ℚ) + (Bd.length : ℚ))
  vc : (lib.svd (tailR lib (srcAug lib Bm (X.length : ℚ) ⟨d, if centred then mean X else zeroVec⟩ 1 centred) st.components
        (sqrt lib.sqrt (((X.length : ℚ) - 1) * st.eigs)) 1)).2.2.c = st.eigs.n + q
  sn : (lib.svd (tailR lib (srcAug lib Bm (X.length : ℚ) ⟨d, if centred then mean X else zeroVec⟩ 1 centred) st.components
        (sqrt lib.sqrt (((X.length : ℚ) - 1) * st.eigs)) 1)).2.1.n ≤ st.eigs.n + q
  qr : let A := srcAug lib Bm (X.length : ℚ) ⟨d, if centred then mean X else zeroVec⟩ 1 centred
      toMat (tailPB A st.components) A.r d * (toMat (tailBt lib A st.components) q d)ᵀ * toMat (tailBt lib A st.components) q d
        = toMat (tailPB A st.components) A.r d
  svd : let A := srcAug lib Bm (X.length : ℚ) ⟨d, if centred then mean X else zeroVec⟩ 1 centred
      let sa := sqrt lib.sqrt (((X.length : ℚ) - 1) * st.eigs)
      (toMat (tailR lib A st.components sa 1) (st.eigs.n + A.r) (st.eigs.n + q))ᵀ
          * toMat (tailR lib A st.components sa 1) (st.eigs.n + A.r) (st.eigs.n + q)
        = (toMat (lib.svd (tailR lib A st.components sa 1)).2.2 (st.eigs.n + q) (st.eigs.n + q))ᵀ
            * diagonal (sigmaOf (lib.svd (tailR lib A st.components sa 1)).2.1 (st.eigs.n + q))
            * toMat (lib.svd (tailR lib A st.components sa 1)).2.2 (st.eigs.n + q) (st.eigs.n + q)
  vorth : let A := srcAug lib Bm (X.length : ℚ) ⟨d, if centred then mean X else zeroVec⟩ 1 centred
      let sa := sqrt lib.sqrt (((X.length : ℚ) - 1) * st.eigs)
      toMat (lib.svd (tailR lib A st.components sa 1)).2.2 (st.eigs.n + q) (st.eigs.n + q)
        * (toMat (lib.svd (tailR lib A st.components sa 1)).2.2 (st.eigs.n + q) (st.eigs.n + q))ᵀ = 1
  desc : let A := srcAug lib Bm (X.length : ℚ) ⟨d, if centred then mean X else zeroVec⟩ 1 centred
      let sa := sqrt lib.sqrt (((X.length : ℚ) - 1) * st.eigs)
      ∀ i j, i ≤ j → j < (lib.svd (tailR lib A st.components sa 1)).2.1.n →
        (lib.svd (tailR lib A st.components sa 1)).2.1.f j * (lib.svd (tailR lib A st.components sa 1)).2.1.f j
          ≤ (lib.svd (tailR lib A st.components sa 1)).2.1.f i * (lib.svd (tailR lib A st.components sa 1)).2.1.f i
  gap : let A := srcAug lib Bm (X.length : ℚ) ⟨d, if centred then mean X else zeroVec⟩ 1 centred
      let sa := sqrt lib.sqrt (((X.length : ℚ) - 1) * st.eigs)
      ∀ i, i < (lib.svd (tailR lib A st.components sa 1)).2.1.n →
        (lib.svd (tailR lib A st.components sa 1)).2.1.f i * (lib.svd (tailR lib A st.components sa 1)).2.1.f i = 0 ∨
        tailThr (lib.withPrec (Src.operandPrec lib Bm st.components st.eigs)) A st.components sa 1 eps ((X.length : ℚ) * 1 + (Bm.r : ℚ))
          < (lib.svd (tailR lib A st.components sa 1)).2.1.f i * (lib.svd (tailR lib A st.components sa 1)).2.1.f i
              / ((X.length : ℚ) * 1 + (Bm.r : ℚ) - 1)

theorem srcMean_n (Bm : M) (na : Rat) (mf : Vec) (d : Nat) (f : Rat) (centred : Bool) (hc : Bm.c = d) :
    (srcMean Bm na ⟨d, mf⟩ f centred).n = d := by
  cases centred <;> simp [srcMean, zerosV, mean0, hc]

/-- PROPERTY (the translated `PCAVectorModel.increment` keeps the invariant): a model state holding a decomposition of
the scatter of `X`, incremented (no forgetting) with a data matrix holding the samples `Bd`, holds a decomposition of
the scatter of `X ++ Bd` — count, flag, mean, shapes, representation, orthonormal components -/
theorem src_pcaIncrement_preserves (lib : Lib) (eps : Rat) (heps : 0 ≤ eps) (d : Nat) (centred : Bool) (X Bd : Data)
    (st : PcaState) (Bm : M) (q : Nat) (hX : 2 ≤ X.length) (hBd : Bd ≠ []) (hB : DataRepr Bm Bd) (hBc : Bm.c = d)
    (hrel : PcaRel d centred X st) (hc : IpcaContracts lib eps d centred X Bd st Bm q) :
    PcaRel d centred (X ++ Bd) (Src.pcaIncrement lib eps st (.arr Bm) none 1) := by
  have hXne : X ≠ [] := by intro h; subst h; simp at hX
  have hspec := src_pcaIncrement_spec lib eps st Bm 1
  simp only at hspec
  rw [hspec, hrel.n, hrel.flag, hrel.mean]
  obtain ⟨h1, h2, h3, h4⟩ := src_ipca_step_represents lib centred X Bd hXne hBd Bm st.components st.eigs eps st.eigs.n q d
    hB hBc hrel.ur hrel.uc rfl hrel.rep hc.sq hc.sqr _ rfl _ rfl hc.vc hc.sn hc.qr hc.svd hc.vorth hX heps hc.desc hc.gap
  have hr := src_ipca_eq_tail lib Bm st.components st.eigs (X.length : ℚ) ⟨d, if centred then mean X else zeroVec⟩ 1 eps centred
  refine ⟨by simp [hB.1], rfl, ?_, ?_, ?_, by simpa only [mul_comm] using h1, h4 hrel.orth, h2⟩
  · apply V.ext'
    · rw [hr]; exact srcMean_n Bm _ _ d 1 centred hBc
    · exact h3
  · rw [hr]; simp [Src.ipcaTail, sl, len, Len.len]
  · rw [hr]; simp [Src.ipcaTail, sl, dot, vstack, hrel.uc]


/-- everything the translated `PCAVectorModel` can hold after a batch build and any number of translated `increment`
calls (no forgetting), for any results of sqrt / qr / svd within their contracts -/
inductive SrcPcaReach (lib : Lib) (eps : Rat) (d : Nat) (centred : Bool) : Data → PcaState → Prop
  | batch (X : Data) (st : PcaState) (hX : 2 ≤ X.length) (h : PcaRel d centred X st) : SrcPcaReach lib eps d centred X st
  | step (X Bd : Data) (st : PcaState) (prev : SrcPcaReach lib eps d centred X st) (Bm : M) (q : Nat) (hBd : Bd ≠ [])
      (hB : DataRepr Bm Bd) (hBc : Bm.c = d) (hc : IpcaContracts lib eps d centred X Bd st Bm q) :
      SrcPcaReach lib eps d centred (X ++ Bd) (Src.pcaIncrement lib eps st (.arr Bm) none 1)

/-- PROPERTY (invariant over every chain of TRANSLATED increments — the counterpart of `ipca_reach_represents` for the
source text): whatever the cut into increments and whatever qr / svd / sqrt return within their contracts, the
translated model state holds the batch count and mean and an orthonormal eigen-decomposition of the batch scatter of
all the data -/
theorem src_pca_reach_represents (lib : Lib) (eps : Rat) (heps : 0 ≤ eps) (d : Nat) (centred : Bool) (X : Data)
    (st : PcaState) (h : SrcPcaReach lib eps d centred X st) : 2 ≤ X.length ∧ PcaRel d centred X st := by
  induction h with
  | batch X st hX h => exact ⟨hX, h⟩
  | step X Bd st prev Bm q hBd hB hBc hc ih =>
    obtain ⟨hX, hrel⟩ := ih
    exact ⟨by simp; omega, src_pcaIncrement_preserves lib eps heps d centred X Bd st Bm q hX hBd hB hBc hrel hc⟩

/-- PROPERTY (chunking independence for the translated PCA model): two reachable states of the same data hold the same
count and mean and span the same principal subspace (the multiset of eigenvalues is stated for the Mathlib-level chain
only: `ipca_reach_eigenvalues_unique`).  CAVEAT (as for every theorem built on `IpcaContracts` / `PcaRel`): the
contracts are exact equalities over ℚ, satisfiable only when the spectral data are rational -/
theorem src_pca_reach_unique (lib : Lib) (eps : Rat) (heps : 0 ≤ eps) (d : Nat) (centred : Bool) (X : Data)
    (s₁ s₂ : PcaState) (h₁ : SrcPcaReach lib eps d centred X s₁) (h₂ : SrcPcaReach lib eps d centred X s₂) :
    s₁.n = s₂.n ∧ s₁.mean = s₂.mean ∧
      (toMat s₁.components s₁.eigs.n d)ᵀ * toMat s₁.components s₁.eigs.n d
        = (toMat s₂.components s₂.eigs.n d)ᵀ * toMat s₂.components s₂.eigs.n d := by
  obtain ⟨hX, r₁⟩ := src_pca_reach_represents lib eps heps d centred X s₁ h₁
  obtain ⟨_, r₂⟩ := src_pca_reach_represents lib eps heps d centred X s₂ h₂
  refine ⟨by rw [r₁.n, r₂.n], by rw [r₁.mean, r₂.mean], ?_⟩
  have hn : (0 : ℚ) < (X.length : ℚ) - 1 := by
    have : (2 : ℚ) ≤ X.length := by exact_mod_cast hX
    linarith
  exact principal_subspace_unique _ _ _ _ r₁.orth r₂.orth
    (fun i => ne_of_gt (mul_pos hn (r₁.pos i i.isLt))) (fun i => ne_of_gt (mul_pos hn (r₂.pos i i.isLt)))
    (r₁.rep.trans r₂.rep.symm)


/-! non-vacuity: the kernel-evaluated instance of `src_ipca_step_represents` as a reachable state -/
section Example
def exSt0 : PcaState := ⟨⟨2, zeroVec⟩, exUaS, exLaS, 2, 1, false⟩

example : ∃ st, SrcPcaReach exLib defaultEps 2 false (exXs ++ exBs) st :=
  ⟨_, SrcPcaReach.step exXs exBs exSt0
    (SrcPcaReach.batch exXs exSt0 (by decide)
      ⟨rfl, rfl, rfl, rfl, rfl, by decide +kernel, by decide +kernel,
       (by intro i hi
           have h : ∀ i, i < 1 → (0 : ℚ) < exSt0.eigs.f i := by decide +kernel
           exact h i hi)⟩)
    (ofData 2 exBs) 1 (by decide) (dataRepr_ofData 2 exBs) rfl
    { sq := (by decide +kernel)
      sqr := (by intro h; cases h)
      vc := (by decide +kernel)
      sn := (by decide +kernel)
      qr := (by decide +kernel)
      svd := (by decide +kernel)
      vorth := (by decide +kernel)
      desc := (by
        intro A sa i j hij hj
        have h : ∀ j, j < 2 → ∀ i, i ≤ j →
            (if j = 0 then (3 : ℚ) else 2) * (if j = 0 then 3 else 2) ≤ (if i = 0 then (3 : ℚ) else 2) * (if i = 0 then 3 else 2) := by
          decide +kernel
        exact h j hj i hij)
      gap := (by
        intro A sa i hi
        have h : ∀ i, i < 2 → (if i = 0 then (3 : ℚ) else 2) * (if i = 0 then 3 else 2) = 0 ∨
            tailThr (exLib.withPrec (Src.operandPrec exLib (ofData 2 exBs) exUaS exLaS)) (ofData 2 exBs) exUaS (sqrt exLib.sqrt (((2 : ℚ) - 1) * exLaS)) 1 defaultEps ((2 : ℚ) * 1 + 1)
              < (if i = 0 then (3 : ℚ) else 2) * (if i = 0 then 3 else 2) / ((2 : ℚ) * 1 + 1 - 1) := by
          decide +kernel
        exact h i hi) }⟩
end Example


end MenpoModel.C11
