/-
C13 — crops and patches are pixel-exact and honour their boundary contract.

The property theorems live in four files over the executable models Core/C13Crop.lean and
Core/C13Api.lean (all core Lean, no Mathlib); this module collects them (it is the build target and
the import of the axiom audit, harness/c13.py THEOREMS):

  Lemmas/C13Base.lean     crop (pixel exactness in any dimension, landmarks, boundary contract and the
                          refutation of the coded `or`), slicing path, sampling path layout (and the
                          refutation of the literal channel count), path equivalence at integers, fill
  Lemmas/C13Set.lean      set_patches vs extraction: for which centres the round trip holds
                          (`int()` vs `np.round`), the shifted write-back otherwise, the repaired placement
  Lemmas/C13Sampler.lean  order-1 = bilinear, reproduces samples; 'constant' fills; 'nearest' = clamp
  Lemmas/C13Seq.lean      a history of crops: exactness and landmark registration by induction over the sequence
  Lemmas/C13Src.lean      the mirrors of the TRANSLATED source (Core/C13Src.lean) equal the Core definitions above:
                          crop, the crop_to_* wrappers, _centered_patch, both extraction paths (the nested loops
                          of the slicing path by a loop invariant), set_patches
  Lemmas/C13Api.lean      crop_to_pointcloud / landmarks / proportion / true_mask (the last row / column),
                          extract_patches dispatch and shape for every order and mode, list format,
                          round trip through the public defaults
-/
import MenpoModel.Lemmas.C13Base
import MenpoModel.Lemmas.C13Set
import MenpoModel.Lemmas.C13Sampler
import MenpoModel.Lemmas.C13Api
import MenpoModel.Lemmas.C13Seq
import MenpoModel.Lemmas.C13Src
import MenpoModel.Core.C13Entry
