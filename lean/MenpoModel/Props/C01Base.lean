/-
C01 — image geometry operations keep landmarks and mask registered to pixel content.  Property theorems, part 1
(part 2, which imports this file: `Props/C01.lean`).

Reading of the property in the model (Core/C01Warp.lean):
  * "sampling the returned image at a returned landmark gives the value the original image had at the
    original landmark"  =  `warp_registration_*`: exact for content that is affine around the landmark
    (bilinear interpolation reproduces it; this is the identity-coordinate image of the oracle) and, for
    *arbitrary* content and both orders, whenever the returned landmark is a grid point;
  * "on masked images the mask is carried by the same mapping"  =  `mask_same_mapping`, `mask_carried`,
    `mask_registration_grid`;
  * "the returned transform maps result coordinates to source coordinates consistently with both the pixels
    and the landmarks"  =  `returned_transform_consistent*` together with `plan*_T_invertible` (every public
    operation hands an invertible map to the funnel on its documented domain) and `funnel_pixel`.
The statements about `warpF2` hold for *any* transform function (piecewise affine, thin plate spline): the
hypotheses then ask that the transform agrees with one affine map on the landmark's cell (one triangle of a
piecewise affine warp) or that the landmark lands on a grid point (control points of a spline).
-/
import MenpoModel.Lemmas.C01Interp

namespace MenpoModel.C01

/-! ### PROPERTY: multilinear interpolation reproduces affine content -/

/-- 2-D: bilinear sampling of content `a + b·i + c·j` returns `a + b·x + c·y` at every point of the image -/
theorem bilin_reproduces_affine {im : Img2} {a b c : Rat}
    (hcontent : ∀ i j : Int, 0 ≤ i → i ≤ (im.h : Int) - 1 → 0 ≤ j → j ≤ (im.w : Int) - 1 →
      im.px i j = a + b * (i : Rat) + c * (j : Rat))
    {p : V2} (hp : im.inside p) : im.core .linear p = a + b * p.x + c * p.y :=
  core2_linear_local hp (fun i j hi0 hi1 hj0 hj1 _ _ _ _ => hcontent i j hi0 hi1 hj0 hj1)

/-- 3-D: trilinear sampling reproduces affine content -/
theorem trilin_reproduces_affine {im : Img3} {a b c d : Rat}
    (hcontent : ∀ i j k : Int, 0 ≤ i → i ≤ (im.n0 : Int) - 1 → 0 ≤ j → j ≤ (im.n1 : Int) - 1 →
      0 ≤ k → k ≤ (im.n2 : Int) - 1 → im.px i j k = a + b * (i : Rat) + c * (j : Rat) + d * (k : Rat))
    {p : V3} (hp : im.inside p) : im.core .linear p = a + b * p.x + c * p.y + d * p.z :=
  core3_linear_local hp (fun i j k hi0 hi1 hj0 hj1 hk0 hk1 _ _ _ _ _ _ => hcontent i j k hi0 hi1 hj0 hj1 hk0 hk1)

/-! ### PROPERTY: the funnel — pixels and landmarks move by one and the same map -/

/-- pixel `p` of the warped image is the source sampled at `T p` (any transform) -/
theorem funnel_pixel (o : Interp) (m : Mode) (im : Img2) (h w : Nat) (T : V2 → V2) (i j : Int) :
    (warpF2 o m im h w T).px i j = im.sample o m (T (gridPt2 i j)) := rfl

/-- **registration, affine content, any transform that is affine on the landmark's cell.**
`l'` is the returned landmark, `l` the original one; `A` is the affine map the transform agrees with on the
grid points closer than one pixel to `l'` (the whole transform for the operations of `Image`; the piece of the
triangle for a piecewise affine warp), and those grid points are sampled inside the source.  Then sampling the
warped image at `l'` gives the value of the original content at `l`. -/
theorem warpF_registration_affine2 (m₁ m₂ : Mode) (im : Img2) (h w : Nat) (T : V2 → V2) (A : Aff2)
    (a b c : Rat) (l l' : V2)
    (hcontent : ∀ i j : Int, 0 ≤ i → i ≤ (im.h : Int) - 1 → 0 ≤ j → j ≤ (im.w : Int) - 1 →
      im.px i j = a + b * (i : Rat) + c * (j : Rat))
    (hl' : inR h l'.x ∧ inR w l'.y)
    (hAl : A.apply l' = l)
    (hcell : ∀ i j : Int, 0 ≤ i → i ≤ (h : Int) - 1 → 0 ≤ j → j ≤ (w : Int) - 1 →
      l'.x - 1 < (i : Rat) → (i : Rat) < l'.x + 1 → l'.y - 1 < (j : Rat) → (j : Rat) < l'.y + 1 →
      T (gridPt2 i j) = A.apply (gridPt2 i j) ∧ im.inside (T (gridPt2 i j))) :
    (warpF2 .linear m₁ im h w T).sample .linear m₂ l' = a + b * l.x + c * l.y := by
  have hin : (warpF2 .linear m₁ im h w T).inside l' := hl'
  rw [sample2_of_inside _ _ _ hin]
  have key : (warpF2 .linear m₁ im h w T).core .linear l'
      = (a + b * A.tx + c * A.ty) + (b * A.a + c * A.c) * l'.x + (b * A.b + c * A.d) * l'.y := by
    apply core2_linear_local hin
    intro i j hi0 hi1 hj0 hj1 hx0 hx1 hy0 hy1
    obtain ⟨hT, hsrc⟩ := hcell i j hi0 hi1 hj0 hj1 hx0 hx1 hy0 hy1
    show im.sample .linear m₁ (T (gridPt2 i j)) = _
    rw [sample2_of_inside _ _ _ hsrc, bilin_reproduces_affine hcontent hsrc, hT]
    simp only [Aff2.apply, gridPt2]; ring
  rw [key, ← hAl]; simp only [Aff2.apply]; ring

/-- **registration for the operations of `Image`** (`T` affine and invertible, landmarks moved by
`T.pseudoinverse()`): `sample₁ (warp I T) (T⁻¹ l) = I(l)` for affine content -/
theorem warp_registration_affine2 (m₁ m₂ : Mode) (im : Img2) (h w : Nat) (T : Aff2) (a b c : Rat) (l : V2)
    (hdet : T.det ≠ 0)
    (hcontent : ∀ i j : Int, 0 ≤ i → i ≤ (im.h : Int) - 1 → 0 ≤ j → j ≤ (im.w : Int) - 1 →
      im.px i j = a + b * (i : Rat) + c * (j : Rat))
    (hl' : inR h (T.inv.apply l).x ∧ inR w (T.inv.apply l).y)
    (hcell : ∀ i j : Int, 0 ≤ i → i ≤ (h : Int) - 1 → 0 ≤ j → j ≤ (w : Int) - 1 →
      (T.inv.apply l).x - 1 < (i : Rat) → (i : Rat) < (T.inv.apply l).x + 1 →
      (T.inv.apply l).y - 1 < (j : Rat) → (j : Rat) < (T.inv.apply l).y + 1 →
      im.inside (T.apply (gridPt2 i j))) :
    (warp2 .linear m₁ im h w T).sample .linear m₂ (T.inv.apply l) = a + b * l.x + c * l.y :=
  warpF_registration_affine2 m₁ m₂ im h w T.apply T a b c l (T.inv.apply l) hcontent hl'
    (Aff2.apply_inv_apply hdet l)
    (fun i j hi0 hi1 hj0 hj1 hx0 hx1 hy0 hy1 => ⟨rfl, hcell i j hi0 hi1 hj0 hj1 hx0 hx1 hy0 hy1⟩)

/-- **registration, arbitrary content, both orders, any transform**: when the returned landmark is the grid
point `(i, j)` of the result and the transform sends it to the original landmark `l`, the result sampled there
(any order, any mode) is exactly the source sampled at `l` -/
theorem warpF_registration_grid2 (o o₂ : Interp) (m₁ m₂ : Mode) (im : Img2) (h w : Nat) (T : V2 → V2) (l : V2)
    (i j : Int) (hi0 : 0 ≤ i) (hi1 : i ≤ (h : Int) - 1) (hj0 : 0 ≤ j) (hj1 : j ≤ (w : Int) - 1)
    (hT : T (gridPt2 i j) = l) :
    (warpF2 o m₁ im h w T).sample o₂ m₂ (gridPt2 i j) = im.sample o m₁ l := by
  have := sample2_grid o₂ m₂ (warpF2 o m₁ im h w T) (i := i) (j := j) hi0 hi1 hj0 hj1
  rw [this, funnel_pixel, hT]

theorem warp_registration_grid2 (o o₂ : Interp) (m₁ m₂ : Mode) (im : Img2) (h w : Nat) (T : Aff2) (l : V2)
    (hdet : T.det ≠ 0) (i j : Int) (hi0 : 0 ≤ i) (hi1 : i ≤ (h : Int) - 1) (hj0 : 0 ≤ j) (hj1 : j ≤ (w : Int) - 1)
    (hgrid : T.inv.apply l = gridPt2 i j) :
    (warp2 o m₁ im h w T).sample o₂ m₂ (T.inv.apply l) = im.sample o m₁ l := by
  rw [hgrid]
  exact warpF_registration_grid2 o o₂ m₁ m₂ im h w T.apply l i j hi0 hi1 hj0 hj1
    (by rw [← hgrid]; exact Aff2.apply_inv_apply hdet l)

/-- 3-D registration for affine content (the n-D operations: crop, rescale, resize, zoom, mirror,
warp_to_shape) -/
theorem warp_registration_affine3 (m₁ m₂ : Mode) (im : Img3) (n0 n1 n2 : Nat) (T : Aff3) (a b c d : Rat) (l : V3)
    (hdet : T.det ≠ 0)
    (hcontent : ∀ i j k : Int, 0 ≤ i → i ≤ (im.n0 : Int) - 1 → 0 ≤ j → j ≤ (im.n1 : Int) - 1 →
      0 ≤ k → k ≤ (im.n2 : Int) - 1 → im.px i j k = a + b * (i : Rat) + c * (j : Rat) + d * (k : Rat))
    (hl' : inR n0 (T.inv.apply l).x ∧ inR n1 (T.inv.apply l).y ∧ inR n2 (T.inv.apply l).z)
    (hcell : ∀ i j k : Int, 0 ≤ i → i ≤ (n0 : Int) - 1 → 0 ≤ j → j ≤ (n1 : Int) - 1 → 0 ≤ k → k ≤ (n2 : Int) - 1 →
      (T.inv.apply l).x - 1 < (i : Rat) → (i : Rat) < (T.inv.apply l).x + 1 →
      (T.inv.apply l).y - 1 < (j : Rat) → (j : Rat) < (T.inv.apply l).y + 1 →
      (T.inv.apply l).z - 1 < (k : Rat) → (k : Rat) < (T.inv.apply l).z + 1 →
      im.inside (T.apply (gridPt3 i j k))) :
    (warp3 .linear m₁ im n0 n1 n2 T).sample .linear m₂ (T.inv.apply l) = a + b * l.x + c * l.y + d * l.z := by
  have hin : (warp3 .linear m₁ im n0 n1 n2 T).inside (T.inv.apply l) := hl'
  rw [sample3_of_inside _ _ _ hin]
  have key : (warp3 .linear m₁ im n0 n1 n2 T).core .linear (T.inv.apply l)
      = (a + b * T.t0 + c * T.t1 + d * T.t2) + (b * T.a00 + c * T.a10 + d * T.a20) * (T.inv.apply l).x
        + (b * T.a01 + c * T.a11 + d * T.a21) * (T.inv.apply l).y
        + (b * T.a02 + c * T.a12 + d * T.a22) * (T.inv.apply l).z := by
    apply core3_linear_local hin
    intro i j k hi0 hi1 hj0 hj1 hk0 hk1 hx0 hx1 hy0 hy1 hz0 hz1
    have hsrc := hcell i j k hi0 hi1 hj0 hj1 hk0 hk1 hx0 hx1 hy0 hy1 hz0 hz1
    show im.sample .linear m₁ (T.apply (gridPt3 i j k)) = _
    rw [sample3_of_inside _ _ _ hsrc, trilin_reproduces_affine hcontent hsrc]
    simp only [Aff3.apply, gridPt3]; ring
  rw [key]
  have hback := Aff3.apply_inv_apply hdet l
  have hx : l.x = (T.apply (T.inv.apply l)).x := by rw [hback]
  have hy : l.y = (T.apply (T.inv.apply l)).y := by rw [hback]
  have hz : l.z = (T.apply (T.inv.apply l)).z := by rw [hback]
  rw [hx, hy, hz]; simp only [Aff3.apply]; ring

theorem warp_registration_grid3 (o o₂ : Interp) (m₁ m₂ : Mode) (im : Img3) (n0 n1 n2 : Nat) (T : Aff3) (l : V3)
    (hdet : T.det ≠ 0) (i j k : Int) (hi0 : 0 ≤ i) (hi1 : i ≤ (n0 : Int) - 1) (hj0 : 0 ≤ j) (hj1 : j ≤ (n1 : Int) - 1)
    (hk0 : 0 ≤ k) (hk1 : k ≤ (n2 : Int) - 1) (hgrid : T.inv.apply l = gridPt3 i j k) :
    (warp3 o m₁ im n0 n1 n2 T).sample o₂ m₂ (T.inv.apply l) = im.sample o m₁ l := by
  rw [hgrid]
  have := sample3_grid o₂ m₂ (warp3 o m₁ im n0 n1 n2 T) (i := i) (j := j) (k := k) hi0 hi1 hj0 hj1 hk0 hk1
  rw [this]
  show im.sample o m₁ (T.apply (gridPt3 i j k)) = _
  rw [← hgrid, Aff3.apply_inv_apply hdet l]

/-! ### PROPERTY: the returned transform is the map used for the pixels, and it maps the returned
landmarks back onto the original ones -/

theorem returned_transform_consistent2 (p : Plan2) (hdet : p.T.det ≠ 0) (o : Interp) (im : Img2) (l : V2) (i j : Int) :
    p.T.apply (p.landmark l) = l ∧
    (p.run o im).px i j = im.sample (p.order.getD o) p.mode (p.T.apply (gridPt2 i j)) :=
  ⟨Aff2.apply_inv_apply hdet l, rfl⟩

theorem returned_transform_consistent3 (p : Plan3) (hdet : p.T.det ≠ 0) (o : Interp) (im : Img3) (l : V3) (i j k : Int) :
    p.T.apply (p.landmark l) = l ∧
    (p.run o im).px i j k = im.sample (p.order.getD o) p.mode (p.T.apply (gridPt3 i j k)) :=
  ⟨Aff3.apply_inv_apply hdet l, rfl⟩

/-- registration of any plan whose interpolation is bilinear: the form in which the oracle evaluates it -/
theorem plan_registration_affine2 (p : Plan2) (o : Interp) (ho : p.order.getD o = .linear) (m₂ : Mode)
    (im : Img2) (a b c : Rat) (l : V2) (hdet : p.T.det ≠ 0)
    (hcontent : ∀ i j : Int, 0 ≤ i → i ≤ (im.h : Int) - 1 → 0 ≤ j → j ≤ (im.w : Int) - 1 →
      im.px i j = a + b * (i : Rat) + c * (j : Rat))
    (hl' : inR p.h (p.landmark l).x ∧ inR p.w (p.landmark l).y)
    (hcell : ∀ i j : Int, 0 ≤ i → i ≤ (p.h : Int) - 1 → 0 ≤ j → j ≤ (p.w : Int) - 1 →
      (p.landmark l).x - 1 < (i : Rat) → (i : Rat) < (p.landmark l).x + 1 →
      (p.landmark l).y - 1 < (j : Rat) → (j : Rat) < (p.landmark l).y + 1 →
      im.inside (p.T.apply (gridPt2 i j))) :
    (p.run o im).sample .linear m₂ (p.landmark l) = a + b * l.x + c * l.y := by
  unfold Plan2.run; rw [ho]
  exact warp_registration_affine2 p.mode m₂ im p.h p.w p.T a b c l hdet hcontent hl' hcell

/-! ### PROPERTY: on masked images the mask is carried by the same mapping -/

/-- pixels and mask of a warped `MaskedImage` are sampled through one and the same `T`
(the mask with order 0) -/
theorem mask_same_mapping (p : Plan2) (o : Interp) (im mk : Img2) (i j : Int) :
    (p.run o im).px i j = im.sample (p.order.getD o) p.mode (p.T.apply (gridPt2 i j)) ∧
    (p.runMask mk).px i j = mk.sample .nearest (maskMode p.mode) (p.T.apply (gridPt2 i j)) := ⟨rfl, rfl⟩

/-- where the sampling point falls inside the source, the new mask value is the old mask value at the source
pixel nearest to `T p` (half up) -/
theorem mask_carried (p : Plan2) (mk : Img2) (i j : Int) (hin : mk.inside (p.T.apply (gridPt2 i j))) :
    (p.runMask mk).px i j
      = mk.px ((p.T.apply (gridPt2 i j)).x + 1 / 2).floor ((p.T.apply (gridPt2 i j)).y + 1 / 2).floor := by
  show mk.sample .nearest (maskMode p.mode) (p.T.apply (gridPt2 i j)) = _
  rw [sample2_of_inside _ _ _ hin, core2_nearest_inside mk hin]

/-- the mask sampled at a returned landmark (on the grid of the result) is the original mask sampled at the
original landmark -/
theorem mask_registration_grid (p : Plan2) (hdet : p.T.det ≠ 0) (mk : Img2) (m₂ : Mode) (l : V2) (i j : Int)
    (hi0 : 0 ≤ i) (hi1 : i ≤ (p.h : Int) - 1) (hj0 : 0 ≤ j) (hj1 : j ≤ (p.w : Int) - 1)
    (hgrid : p.landmark l = gridPt2 i j) :
    (p.runMask mk).sample .nearest m₂ (p.landmark l) = mk.sample .nearest (maskMode p.mode) l :=
  warp_registration_grid2 .nearest .nearest (maskMode p.mode) m₂ mk p.h p.w p.T l hdet i j hi0 hi1 hj0 hj1 hgrid

/-- `warp_to_mask`: the `True` pixels of the template carry exactly the pixels `warp_to_shape` would give,
the others the blank fill -/
theorem warp_to_mask_pixels (o : Interp) (m : Mode) (im tmpl : Img2) (T : V2 → V2) (i j : Int) :
    (tmpl.px i j ≠ 0 → (warpToMaskF2 o m im tmpl T).px i j = (warpF2 o m im tmpl.h tmpl.w T).px i j) ∧
    (tmpl.px i j = 0 → (warpToMaskF2 o m im tmpl T).px i j = 0) := by
  constructor
  · intro h; show (if tmpl.px i j = 0 then 0 else _) = _; rw [if_neg h]; rfl
  · intro h; show (if tmpl.px i j = 0 then (0 : Rat) else _) = _; rw [if_pos h]

/-! ### PROPERTY: every operation hands an invertible map to the funnel on its documented domain -/

theorem Except.ok_inj' {ε α : Type} {a b : α} (h : (Except.ok a : Except ε α) = .ok b) : a = b := by
  cases h; rfl

theorem scale2_det (kx ky : Rat) : (scale2 kx ky).det = kx * ky := by simp only [scale2, Aff2.det]; ring
theorem transl2_det (t : V2) : (transl2 t).det = 1 := by simp only [transl2, Aff2.det]; ring
theorem aboutCentre2_det (ctr : V2) (A : Aff2) : (aboutCentre2 ctr A).det = A.det := by
  simp only [aboutCentre2, Aff2.det_comp, transl2_det]; ring

theorem rescale_plan_invertible {h w : Nat} {sx sy : Rat} {r : Rounding} {p : Plan2}
    (hp : rescalePlan2 h w sx sy r = .ok p) : p.T.det ≠ 0 := by
  unfold rescalePlan2 at hp
  simp only at hp
  split at hp
  · cases hp
  · split at hp
    · cases hp
    · rename_i hdeg
      have := Except.ok_inj' hp
      subst this
      simp only [scale2_det]
      have hfx : scaleFactor h sx ≠ 0 := fun e => hdeg (Or.inr (Or.inr (Or.inl e)))
      have hfy : scaleFactor w sy ≠ 0 := fun e => hdeg (Or.inr (Or.inr (Or.inr e)))
      exact mul_ne_zero (one_div_ne_zero hfx) (one_div_ne_zero hfy)

/-- the documented domain of `rescale`: any positive scales (extents of at least two pixels that are not
collapsed onto a single pixel) -/
theorem rescale_plan_defined {h w : Nat} {sx sy : Rat} (r : Rounding) (hh : 2 ≤ h) (hw : 2 ≤ w)
    (hsx : 0 < sx) (hsy : 0 < sy) (hcx : sx * h ≠ 1) (hcy : sy * w ≠ 1) :
    ∃ p, rescalePlan2 h w sx sy r = .ok p := by
  unfold rescalePlan2
  have h1 : ¬ (sx ≤ 0 ∨ sy ≤ 0) := by
    intro h; rcases h with h | h <;> linarith
  rw [if_neg h1]
  have hh' : ((h : Rat) - 1) ≠ 0 := by
    have : (2 : Rat) ≤ (h : Rat) := by exact_mod_cast hh
    intro e; linarith
  have hw' : ((w : Rat) - 1) ≠ 0 := by
    have : (2 : Rat) ≤ (w : Rat) := by exact_mod_cast hw
    intro e; linarith
  have h2 : ¬ (h < 2 ∨ w < 2 ∨ scaleFactor h sx = 0 ∨ scaleFactor w sy = 0) := by
    intro hc
    rcases hc with hc | hc | hc | hc
    · omega
    · omega
    · unfold scaleFactor at hc
      rcases div_eq_zero_iff.mp hc with e | e
      · exact hcx (by linarith)
      · exact hh' e
    · unfold scaleFactor at hc
      rcases div_eq_zero_iff.mp hc with e | e
      · exact hcy (by linarith)
      · exact hw' e
  rw [if_neg h2]
  exact ⟨_, rfl⟩

/-- index-space scaling (pixel centres, not extents): the template index `0` samples source index `0` and
the (fractional) last template index `scale·len − 1` samples the last source index `len − 1` -/
theorem rescale_index_space {h w : Nat} {sx sy : Rat} {r : Rounding} {p : Plan2}
    (hp : rescalePlan2 h w sx sy r = .ok p) :
    p.T.apply ⟨0, 0⟩ = ⟨0, 0⟩ ∧ p.T.apply ⟨sx * h - 1, sy * w - 1⟩ = ⟨(h : Rat) - 1, (w : Rat) - 1⟩ := by
  unfold rescalePlan2 at hp
  simp only at hp
  split at hp
  · cases hp
  · split at hp
    · cases hp
    · rename_i hdeg
      have := Except.ok_inj' hp
      subst this
      have hfx : scaleFactor h sx ≠ 0 := fun e => hdeg (Or.inr (Or.inr (Or.inl e)))
      have hfy : scaleFactor w sy ≠ 0 := fun e => hdeg (Or.inr (Or.inr (Or.inr e)))
      unfold scaleFactor at hfx hfy
      have hx1 : sx * (h : Rat) - 1 ≠ 0 := fun e => hfx (by rw [e]; simp)
      have hy1 : sy * (w : Rat) - 1 ≠ 0 := fun e => hfy (by rw [e]; simp)
      have hx2 : (h : Rat) - 1 ≠ 0 := fun e => hfx (by rw [e]; simp)
      have hy2 : (w : Rat) - 1 ≠ 0 := fun e => hfy (by rw [e]; simp)
      constructor
      · ext <;> simp [scale2, Aff2.apply]
      · ext <;> simp only [scale2, Aff2.apply, scaleFactor] <;> field_simp <;> ring

theorem zoom_plan_invertible {h w : Nat} {s : Rat} {p : Plan2} (hp : zoomPlan2 h w s = .ok p) : p.T.det ≠ 0 := by
  unfold zoomPlan2 at hp
  split at hp
  · cases hp
  · rename_i hs
    have := Except.ok_inj' hp
    subst this
    simp only [aboutCentre2_det, scale2_det]
    exact mul_ne_zero (one_div_ne_zero hs) (one_div_ne_zero hs)

/-- zooming keeps the image centre where it is -/
theorem zoom_fixes_centre {h w : Nat} {s : Rat} {p : Plan2} (hp : zoomPlan2 h w s = .ok p) :
    p.T.apply (centre2 h w) = centre2 h w := by
  unfold zoomPlan2 at hp
  split at hp
  · cases hp
  · have := Except.ok_inj' hp
    subst this
    ext <;> simp only [aboutCentre2, Aff2.comp, Aff2.apply, transl2, scale2, V2.neg, centre2] <;> ring

theorem constrainPt_int (n : Nat) (z : Int) : ∃ r : Int, constrainPt n (z : Rat) = (r : Rat) ∧ 0 ≤ r := by
  unfold constrainPt
  split
  · exact ⟨0, by simp, le_refl _⟩
  · rename_i h0
    split
    · exact ⟨(n : Int), by simp, by omega⟩
    · refine ⟨z, rfl, ?_⟩
      have : (0 : Rat) ≤ (z : Rat) := not_lt.mp h0
      exact_mod_cast this

/-- `crop` hands an integer translation by the (constrained) minimum to the funnel and forces order 0 -/
theorem crop_plan_translation {h w : Nat} {mn mx : V2} {constrain : Bool} {p : Plan2}
    (hp : cropPlan2 h w mn mx constrain = .ok p) :
    ∃ r s : Int, 0 ≤ r ∧ 0 ≤ s ∧ p.T = transl2 ⟨(r : Rat), (s : Rat)⟩ ∧ p.order = some .nearest := by
  unfold cropPlan2 at hp
  simp only at hp
  split at hp
  · cases hp
  · split at hp
    · cases hp
    · have := Except.ok_inj' hp
      subst this
      obtain ⟨r, hr, hr0⟩ := constrainPt_int h mn.x.floor
      obtain ⟨s, hs, hs0⟩ := constrainPt_int w mn.y.floor
      exact ⟨r, s, hr0, hs0, by rw [hr, hs], rfl⟩

theorem crop_plan_invertible {h w : Nat} {mn mx : V2} {constrain : Bool} {p : Plan2}
    (hp : cropPlan2 h w mn mx constrain = .ok p) : p.T.det ≠ 0 := by
  obtain ⟨r, s, _, _, hT, _⟩ := crop_plan_translation hp
  rw [hT, transl2_det]; exact one_ne_zero

/-- a warp by an integer translation copies pixels: result pixel `(i, j)` is source pixel `(i + r, j + s)`
(any order, any mode), as long as that pixel exists -/
theorem translation_warp_exact (o : Interp) (m : Mode) (im : Img2) (h w : Nat) (r s i j : Int)
    (hi0 : 0 ≤ i + r) (hi1 : i + r ≤ (im.h : Int) - 1) (hj0 : 0 ≤ j + s) (hj1 : j + s ≤ (im.w : Int) - 1) :
    (warp2 o m im h w (transl2 ⟨(r : Rat), (s : Rat)⟩)).px i j = im.px (i + r) (j + s) := by
  show im.sample o m ((transl2 ⟨(r : Rat), (s : Rat)⟩).apply (gridPt2 i j)) = _
  have : (transl2 ⟨(r : Rat), (s : Rat)⟩).apply (gridPt2 i j) = gridPt2 (i + r) (j + s) := by
    ext <;> simp [transl2, Aff2.apply, gridPt2]
  rw [this, sample2_grid o m im hi0 hi1 hj0 hj1]

/-- crop: pixel-exact and landmarks shifted by the same integer offset -/
theorem crop_registration {h w : Nat} {mn mx : V2} {constrain : Bool} {p : Plan2}
    (hp : cropPlan2 h w mn mx constrain = .ok p) :
    ∃ r s : Int, 0 ≤ r ∧ 0 ≤ s ∧
      (∀ (o : Interp) (im : Img2) (i j : Int), 0 ≤ i + r → i + r ≤ (im.h : Int) - 1 → 0 ≤ j + s →
        j + s ≤ (im.w : Int) - 1 → (p.run o im).px i j = im.px (i + r) (j + s)) ∧
      (∀ l : V2, p.landmark l = ⟨l.x - (r : Rat), l.y - (s : Rat)⟩) := by
  obtain ⟨r, s, hr0, hs0, hT, ho⟩ := crop_plan_translation hp
  refine ⟨r, s, hr0, hs0, ?_, ?_⟩
  · intro o im i j hi0 hi1 hj0 hj1
    unfold Plan2.run; rw [hT]
    exact translation_warp_exact _ _ im p.h p.w r s i j hi0 hi1 hj0 hj1
  · intro l
    unfold Plan2.landmark; rw [hT]
    ext <;> simp [transl2, Aff2.inv, Aff2.det, Aff2.apply] <;> ring

/-- one axis: reading a window `[r, r+n)` of a longer axis at `x` is reading the long axis at `x + r` -/
theorem axis1_shift (o : Interp) {n m : Nat} {f g : Int → Rat} {r : Int} {x : Rat} (hr : 0 ≤ r)
    (hfit : r + (n : Int) ≤ (m : Int)) (hx : inR n x)
    (hfg : ∀ i : Int, 0 ≤ i → i ≤ (n : Int) - 1 → f i = g (i + r)) :
    axis1 o n f x = axis1 o m g (x + (r : Rat)) := by
  have hx' : inR m (x + (r : Rat)) := by
    obtain ⟨h0, h1⟩ := hx
    have hr' : (0 : Rat) ≤ (r : Rat) := by exact_mod_cast hr
    refine ⟨by linarith, ?_⟩
    rw [top_eq] at h1 ⊢
    have : ((r : Int) : Rat) + ((n : Int) : Rat) ≤ ((m : Int) : Rat) := by exact_mod_cast hfit
    push_cast at this
    linarith
  unfold axis1
  rw [clampR_of_inR hx, clampR_of_inR hx']
  cases o with
  | nearest =>
    obtain ⟨a0, a1⟩ := round_in_range hx
    obtain ⟨b0, b1⟩ := round_in_range hx'
    have e : (x + (r : Rat) + 1 / 2).floor = (x + 1 / 2).floor + r := by
      have : x + (r : Rat) + 1 / 2 = (x + 1 / 2) + (r : Rat) := by ring
      rw [this, Rat.floor_add_intCast]
    simp only [clampI_of_range a0 a1, clampI_of_range b0 b1]
    rw [e, hfg _ a0 a1]
  | linear =>
    obtain ⟨h0, h1⟩ := hx
    obtain ⟨h0', h1'⟩ := hx'
    have hi0 : 0 ≤ x.floor := floor_nonneg_of h0
    have hi1 : x.floor ≤ (n : Int) - 1 := floor_le_top h1
    have e : (x + (r : Rat)).floor = x.floor + r := Rat.floor_add_intCast
    have hk0 : 0 ≤ x.floor + r := by omega
    have hk1 : x.floor + r ≤ (m : Int) - 1 := by omega
    simp only [e, clampI_of_range hi0 hi1, clampI_of_range hk0 hk1]
    have et : x + (r : Rat) - ((x.floor + r : Int) : Rat) = x - (x.floor : Rat) := by push_cast; ring
    rw [et, hfg _ hi0 hi1]
    by_cases ht : x - (x.floor : Rat) = 0
    · rw [ht]; ring
    · have hfl : (x.floor : Rat) ≤ x := Rat.floor_le x
      have hlt : (x.floor : Rat) < x := lt_of_le_of_ne hfl (fun h => ht (by linarith))
      have hi2 : x.floor + 1 ≤ (n : Int) - 1 := by
        have : (x.floor : Rat) < top n := lt_of_lt_of_le hlt h1
        unfold top at this
        have : x.floor < (n : Int) - 1 := by exact_mod_cast this
        omega
      have hi2' : 0 ≤ x.floor + 1 := by omega
      have hk2 : x.floor + r + 1 ≤ (m : Int) - 1 := by omega
      have hk2' : 0 ≤ x.floor + r + 1 := by omega
      simp only [clampI_of_range hi2' hi2, clampI_of_range hk2' hk2]
      rw [hfg _ hi2' hi2]
      have : x.floor + 1 + r = x.floor + r + 1 := by ring
      rw [this]

/-- sampling a crop at `p` (either order) is sampling the original at `p + (r, s)`: arbitrary content,
arbitrary sub-pixel position -/
theorem translation_warp_sampling (o o' : Interp) (m : Mode) (im : Img2) (h w : Nat) (r s : Int) (hr : 0 ≤ r) (hs : 0 ≤ s)
    (hfh : r + (h : Int) ≤ (im.h : Int)) (hfw : s + (w : Int) ≤ (im.w : Int)) (p : V2)
    (hp : inR h p.x ∧ inR w p.y) :
    (warp2 o' m im h w (transl2 ⟨(r : Rat), (s : Rat)⟩)).core o p = im.core o ⟨p.x + (r : Rat), p.y + (s : Rat)⟩ := by
  unfold Img2.core
  show axis1 o h _ p.x = _
  apply axis1_shift o hr hfh hp.1
  intro i hi0 hi1
  show axis1 o w _ p.y = _
  apply axis1_shift o hs hfw hp.2
  intro j hj0 hj1
  exact translation_warp_exact o' m im h w r s i j (by omega) (by omega) (by omega) (by omega)
theorem constrainPt_int' (n : Nat) (z : Int) :
    ∃ r : Int, constrainPt n (z : Rat) = (r : Rat) ∧ 0 ≤ r ∧ r ≤ (n : Int) := by
  unfold constrainPt
  split
  · exact ⟨0, by simp, le_refl _, by omega⟩
  · rename_i h0
    split
    · exact ⟨(n : Int), by simp, by omega, le_refl _⟩
    · rename_i h1
      refine ⟨z, rfl, ?_, ?_⟩
      · have : (0 : Rat) ≤ (z : Rat) := not_lt.mp h0
        exact_mod_cast this
      · have : (0 : Rat) ≤ (n : Rat) - (z : Rat) := not_lt.mp h1
        have : (z : Rat) ≤ ((n : Int) : Rat) := by push_cast; linarith
        exact_mod_cast this

/-- the cropped region always lies inside the image (both bounds are constrained before the shape is taken) -/
theorem crop_region_inside {h w : Nat} {mn mx : V2} {constrain : Bool} {p : Plan2}
    (hp : cropPlan2 h w mn mx constrain = .ok p) :
    ∃ r s : Int, 0 ≤ r ∧ 0 ≤ s ∧ p.T = transl2 ⟨(r : Rat), (s : Rat)⟩ ∧ p.order = some .nearest ∧
      r + (p.h : Int) ≤ (h : Int) ∧ s + (p.w : Int) ≤ (w : Int) := by
  unfold cropPlan2 at hp
  simp only at hp
  split at hp
  · cases hp
  · split at hp
    · cases hp
    · have := Except.ok_inj' hp
      subst this
      obtain ⟨r, hr, hr0, hr1⟩ := constrainPt_int' h mn.x.floor
      obtain ⟨s, hs, hs0, hs1⟩ := constrainPt_int' w mn.y.floor
      obtain ⟨R, hR, hR0, hR1⟩ := constrainPt_int' h mx.x.ceil
      obtain ⟨S, hS, hS0, hS1⟩ := constrainPt_int' w mx.y.ceil
      refine ⟨r, s, hr0, hs0, by rw [hr, hs], rfl, ?_, ?_⟩
      · show r + (((constrainPt h (mx.x.ceil : Rat) - constrainPt h (mn.x.floor : Rat)).floor.toNat : Nat) : Int) ≤ _
        rw [hr, hR]
        have : ((R : Rat) - (r : Rat)).floor = R - r := by
          have : (R : Rat) - (r : Rat) = ((R - r : Int) : Rat) := by push_cast; ring
          rw [this, Rat.floor_intCast]
        rw [this]; omega
      · show s + (((constrainPt w (mx.y.ceil : Rat) - constrainPt w (mn.y.floor : Rat)).floor.toNat : Nat) : Int) ≤ _
        rw [hs, hS]
        have : ((S : Rat) - (s : Rat)).floor = S - s := by
          have : (S : Rat) - (s : Rat) = ((S - s : Int) : Rat) := by push_cast; ring
          rw [this, Rat.floor_intCast]
        rw [this]; omega

/-- **crop family: exact registration for arbitrary content, arbitrary (sub-pixel) landmarks, both orders.**
Sampling the cropped image at the returned landmark is sampling the original at the original landmark. -/
theorem crop_exact_registration (im : Img2) {mn mx : V2} {constrain : Bool} {p : Plan2}
    (hp : cropPlan2 im.h im.w mn mx constrain = .ok p) (o o' : Interp) (m₂ : Mode) (l : V2)
    (hl' : inR p.h (p.landmark l).x ∧ inR p.w (p.landmark l).y) :
    (p.run o' im).sample o m₂ (p.landmark l) = im.core o l := by
  obtain ⟨r, s, hr0, hs0, hT, ho, hfh, hfw⟩ := crop_region_inside hp
  have hin : (p.run o' im).inside (p.landmark l) := hl'
  rw [sample2_of_inside _ _ _ hin]
  have hl : p.landmark l = ⟨l.x - (r : Rat), l.y - (s : Rat)⟩ := by
    unfold Plan2.landmark; rw [hT]
    ext <;> simp [transl2, Aff2.inv, Aff2.det, Aff2.apply] <;> ring
  unfold Plan2.run
  rw [hT]
  rw [translation_warp_sampling o _ p.mode im p.h p.w r s hr0 hs0 hfh hfw (p.landmark l) hl', hl]
  congr 1
  ext <;> simp
theorem about_plan_invertible {h w : Nat} {A : Aff2} {retain : Bool} {m : Mode} {r : Rounding} {p : Plan2}
    (hp : aboutPlan2 h w A retain m r = .ok p) : p.T.det ≠ 0 := by
  unfold aboutPlan2 at hp
  split at hp
  · cases hp
  · rename_i hA
    split at hp
    · have := Except.ok_inj' hp
      subst this
      apply Aff2.det_inv_ne
      rw [aboutCentre2_det]; exact hA
    · have := Except.ok_inj' hp
      subst this
      apply Aff2.det_inv_ne
      simp only [aboutForward2, Aff2.det_comp, transl2_det]
      simpa using hA

/-- any angle: the rotation matrix of a point of the unit circle has determinant 1 -/
theorem rotate_plan_defined (h w : Nat) (c s : Rat) (hcs : c * c + s * s = 1) (retain : Bool) (m : Mode) (r : Rounding) :
    ∃ p, rotatePlan2 h w c s retain m r = .ok p ∧ p.T.det ≠ 0 := by
  have hdet : (rot2 c s).det ≠ 0 := by
    have : (rot2 c s).det = 1 := by simp only [rot2, Aff2.det]; linarith
    rw [this]; exact one_ne_zero
  unfold rotatePlan2
  have hex : ∃ p, aboutPlan2 h w (rot2 c s) retain m r = .ok p := by
    unfold aboutPlan2
    rw [if_neg hdet]
    split <;> exact ⟨_, rfl⟩
  obtain ⟨p, hp⟩ := hex
  exact ⟨p, hp, about_plan_invertible hp⟩

theorem minL4_le (a b c d : Rat) :
    min4 a b c d ≤ a ∧ min4 a b c d ≤ b ∧ min4 a b c d ≤ c ∧ min4 a b c d ≤ d := by
  simp only [min4, minL, List.foldl]
  refine ⟨?_, ?_, ?_, ?_⟩ <;> split_ifs <;> linarith

theorem le_maxL4 (a b c d : Rat) :
    a ≤ max4 a b c d ∧ b ≤ max4 a b c d ∧ c ≤ max4 a b c d ∧ d ≤ max4 a b c d := by
  simp only [max4, maxL, List.foldl]
  refine ⟨?_, ?_, ?_, ?_⟩ <;> split_ifs <;> linarith

/-- re-origin of `transform_about_centre(retain_shape=False)`: the four corners of the source pixel box are
mapped into `[0, extent − 1]` on both axes (`extent` = the pre-rounding shape `range + 1`), so the whole
source box lands inside the template frame -/
theorem about_corners_in_frame (h w : Nat) (A : Aff2) (q : V2)
    (hq : q = ⟨0, 0⟩ ∨ q = ⟨top h, 0⟩ ∨ q = ⟨top h, top w⟩ ∨ q = ⟨0, top w⟩) :
    0 ≤ ((aboutForward2 h w A).1.apply q).x ∧ ((aboutForward2 h w A).1.apply q).x ≤ (aboutForward2 h w A).2.x - 1 ∧
    0 ≤ ((aboutForward2 h w A).1.apply q).y ∧ ((aboutForward2 h w A).1.apply q).y ≤ (aboutForward2 h w A).2.y - 1 := by
  simp only [aboutForward2]
  generalize (A.comp (transl2 (centre2 h w).neg)) = tr
  generalize hc0 : tr.apply ⟨0, 0⟩ = c0
  generalize hc1 : tr.apply ⟨top h, 0⟩ = c1
  generalize hc2 : tr.apply ⟨top h, top w⟩ = c2
  generalize hc3 : tr.apply ⟨0, top w⟩ = c3
  obtain ⟨x0, x1, x2, x3⟩ := minL4_le c0.x c1.x c2.x c3.x
  obtain ⟨X0, X1, X2, X3⟩ := le_maxL4 c0.x c1.x c2.x c3.x
  obtain ⟨y0, y1, y2, y3⟩ := minL4_le c0.y c1.y c2.y c3.y
  obtain ⟨Y0, Y1, Y2, Y3⟩ := le_maxL4 c0.y c1.y c2.y c3.y
  rcases hq with rfl | rfl | rfl | rfl
  · rw [Aff2.comp_apply, hc0]; simp only [transl2, Aff2.apply]; refine ⟨?_, ?_, ?_, ?_⟩ <;> linarith
  · rw [Aff2.comp_apply, hc1]; simp only [transl2, Aff2.apply]; refine ⟨?_, ?_, ?_, ?_⟩ <;> linarith
  · rw [Aff2.comp_apply, hc2]; simp only [transl2, Aff2.apply]; refine ⟨?_, ?_, ?_, ?_⟩ <;> linarith
  · rw [Aff2.comp_apply, hc3]; simp only [transl2, Aff2.apply]; refine ⟨?_, ?_, ?_, ?_⟩ <;> linarith

theorem mirrorMap2_det (h w axis : Nat) : (mirrorMap2 h w axis).det = -1 := by
  unfold mirrorMap2; split <;> simp [Aff2.det]

theorem mirror_plan_invertible {h w axis : Nat} {p : Plan2} (hp : mirrorPlan2 h w axis = .ok p) : p.T.det ≠ 0 := by
  unfold mirrorPlan2 at hp
  split at hp
  · cases hp
  · have := Except.ok_inj' hp
    subst this
    apply Aff2.det_inv_ne
    rw [mirrorMap2_det]; norm_num

/-- the mirror map is its own inverse, so `T` of the plan is the flip itself -/
theorem mirrorMap2_inv (h w axis : Nat) : (mirrorMap2 h w axis).inv = mirrorMap2 h w axis := by
  unfold mirrorMap2; split <;> (ext <;> simp [Aff2.inv, Aff2.det])

/-- mirroring twice returns every pixel and every landmark -/
theorem mirror_involution {h w axis : Nat} {p : Plan2} (hp : mirrorPlan2 h w axis = .ok p) (l : V2) (q : V2) :
    p.landmark (p.landmark l) = l ∧ p.T.apply (p.T.apply q) = q := by
  unfold mirrorPlan2 at hp
  split at hp
  · cases hp
  · have := Except.ok_inj' hp
    subst this
    unfold Plan2.landmark
    simp only [mirrorMap2_inv]
    unfold mirrorMap2
    constructor <;> split <;> (ext <;> simp [Aff2.apply])

/-- pixels of a mirrored image: column `j` of the result is column `w − 1 − j` of the source (axis 1),
row `i` is row `h − 1 − i` (axis 0) -/
theorem mirror_pixels (o : Interp) (im : Img2) (axis : Nat) {p : Plan2}
    (hp : mirrorPlan2 im.h im.w axis = .ok p) (i j : Int)
    (hi0 : 0 ≤ i) (hi1 : i ≤ (im.h : Int) - 1) (hj0 : 0 ≤ j) (hj1 : j ≤ (im.w : Int) - 1) :
    (p.run o im).px i j = if axis = 0 then im.px ((im.h : Int) - 1 - i) j else im.px i ((im.w : Int) - 1 - j) := by
  unfold mirrorPlan2 at hp
  split at hp
  · cases hp
  · have := Except.ok_inj' hp
    subst this
    simp only [Plan2.run, warp2, warpF2]
    rw [mirrorMap2_inv]
    unfold mirrorMap2
    split
    · have : (Aff2.mk (-1) 0 (top im.h) 0 1 0).apply (gridPt2 i j) = gridPt2 ((im.h : Int) - 1 - i) j := by
        ext
        · simp [Aff2.apply, gridPt2, top]; try ring
        · simp [Aff2.apply, gridPt2, top]; try ring
      rw [this, sample2_grid _ _ im (by omega) (by omega) hj0 hj1]
    · have : (Aff2.mk 1 0 0 0 (-1) (top im.w)).apply (gridPt2 i j) = gridPt2 i ((im.w : Int) - 1 - j) := by
        ext
        · simp [Aff2.apply, gridPt2, top]; try ring
        · simp [Aff2.apply, gridPt2, top]; try ring
      rw [this, sample2_grid _ _ im hi0 hi1 (by omega) (by omega)]

theorem warp_plan_invertible {h w : Nat} {T : Aff2} {m : Mode} {p : Plan2} (hp : warpPlan2 h w T m = .ok p) :
    p.T.det ≠ 0 := by
  unfold warpPlan2 at hp
  split at hp
  · cases hp
  · rename_i hT
    have := Except.ok_inj' hp
    subst this
    exact hT

/-- a pyramid step is `rescale(1/downscale, round='ceil')` with the order fixed to 1 -/
theorem pyramid_step_is_rescale {h w : Nat} {ds : Rat} {p : Plan2} (hp : pyramidStep2 h w ds = .ok p) :
    ∃ q, rescalePlan2 h w (1 / ds) (1 / ds) .ceil = .ok q ∧ p = q.withOrder .linear := by
  unfold pyramidStep2 at hp
  split at hp
  · cases hp
  · cases hq : rescalePlan2 h w (1 / ds) (1 / ds) .ceil with
    | error e => rw [hq] at hp; cases hp
    | ok q =>
      rw [hq] at hp
      exact ⟨q, rfl, (Except.ok_inj' hp).symm⟩

/-- pyramid level `k + 1` is one `rescale(1/downscale)` of level `k`; its landmarks map back onto the
landmarks of level `k` under the transform of that step -/
theorem pyramid_step_registered (ds : Rat) (o : Interp) (k : Nat) (s : Img2 × Img2 × List V2)
    (im mk : Img2) (lms : List V2) (p : Plan2)
    (hk : pyramid2 ds o k s = .ok (im, mk, lms)) (hp : pyramidStep2 im.h im.w ds = .ok p) :
    pyramid2 ds o (k + 1) s = .ok (p.run o im, p.runMask mk, lms.map p.landmark) ∧
    p.T.det ≠ 0 ∧ ∀ l ∈ lms, p.T.apply (p.landmark l) = l := by
  have hdet : p.T.det ≠ 0 := by
    obtain ⟨q, hq, rfl⟩ := pyramid_step_is_rescale hp
    exact (rescale_plan_invertible hq : q.T.det ≠ 0)
  refine ⟨?_, hdet, fun l _ => Aff2.apply_inv_apply hdet l⟩
  simp only [pyramid2, hk, hp]

/-- all 2-D operations at once: whatever plan an operation produces, its transform is invertible, hence
`returned_transform_consistent2` and the registration theorems apply to it -/
theorem plan2_T_invertible (h w : Nat) (p : Plan2)
    (hp : (∃ sx sy r, rescalePlan2 h w sx sy r = .ok p) ∨ (∃ nh nw, resizePlan2 h w nh nw = .ok p) ∨
          (∃ mn mx cb, cropPlan2 h w mn mx cb = .ok p) ∨ (∃ pts b cb, cropToPointsPlan2 h w pts b cb = .ok p) ∨
          (∃ pts pr mi cb, cropToPointsProportionPlan2 h w pts pr mi cb = .ok p) ∨
          (∃ s, zoomPlan2 h w s = .ok p) ∨ (∃ A rt m r, aboutPlan2 h w A rt m r = .ok p) ∨
          (∃ c s rt m r, rotatePlan2 h w c s rt m r = .ok p) ∨ (∃ ax, mirrorPlan2 h w ax = .ok p) ∨
          (∃ T m, warpPlan2 h w T m = .ok p) ∨ (∃ ds, pyramidStep2 h w ds = .ok p)) :
    p.T.det ≠ 0 := by
  rcases hp with ⟨_, _, _, h1⟩ | ⟨_, _, h1⟩ | ⟨_, _, _, h1⟩ | ⟨_, _, _, h1⟩ | ⟨_, _, _, _, h1⟩ | ⟨_, h1⟩ |
    ⟨_, _, _, _, h1⟩ | ⟨_, _, _, _, _, h1⟩ | ⟨_, h1⟩ | ⟨_, _, h1⟩ | ⟨_, h1⟩
  · exact rescale_plan_invertible h1
  · unfold resizePlan2 at h1
    split at h1
    · cases h1
    · exact rescale_plan_invertible h1
  · exact crop_plan_invertible h1
  · exact crop_plan_invertible h1
  · exact crop_plan_invertible h1
  · exact zoom_plan_invertible h1
  · exact about_plan_invertible h1
  · exact about_plan_invertible h1
  · exact mirror_plan_invertible h1
  · exact warp_plan_invertible h1
  · obtain ⟨q, hq, rfl⟩ := pyramid_step_is_rescale h1
    exact (rescale_plan_invertible hq : q.T.det ≠ 0)

/-! ### 3-D operations -/

theorem scale3_det (kx ky kz : Rat) : (scale3 kx ky kz).det = kx * ky * kz := by simp only [scale3, Aff3.det]; ring
theorem transl3_det (t : V3) : (transl3 t).det = 1 := by simp only [transl3, Aff3.det]; ring
theorem aboutCentre3_det (ctr : V3) (A : Aff3) : (aboutCentre3 ctr A).det = A.det := by
  simp only [aboutCentre3, Aff3.det_comp, transl3_det]; ring

theorem mirrorMap3_det (n0 n1 n2 axis : Nat) : (mirrorMap3 n0 n1 n2 axis).det = -1 := by
  unfold mirrorMap3; split
  · simp [Aff3.det]
  · split <;> simp [Aff3.det]

theorem plan3_T_invertible (n0 n1 n2 : Nat) (p : Plan3)
    (hp : (∃ s r, rescalePlan3 n0 n1 n2 s r = .ok p) ∨ (∃ m, resizePlan3 n0 n1 n2 m = .ok p) ∨
          (∃ mn mx cb, cropPlan3 n0 n1 n2 mn mx cb = .ok p) ∨ (∃ s, zoomPlan3 n0 n1 n2 s = .ok p) ∨
          (∃ ax, mirrorPlan3 n0 n1 n2 ax = .ok p) ∨ (∃ T m, warpPlan3 n0 n1 n2 T m = .ok p)) :
    p.T.det ≠ 0 := by
  have hres : ∀ s r, rescalePlan3 n0 n1 n2 s r = .ok p → p.T.det ≠ 0 := by
    intro s r h1
    unfold rescalePlan3 at h1
    simp only at h1
    split at h1
    · cases h1
    · split at h1
      · cases h1
      · rename_i hdeg
        have := Except.ok_inj' h1
        subst this
        simp only [scale3_det]
        have h0 : scaleFactor n0 s.x ≠ 0 := fun e => hdeg (Or.inr (Or.inr (Or.inr (Or.inl e))))
        have h1' : scaleFactor n1 s.y ≠ 0 := fun e => hdeg (Or.inr (Or.inr (Or.inr (Or.inr (Or.inl e)))))
        have h2 : scaleFactor n2 s.z ≠ 0 := fun e => hdeg (Or.inr (Or.inr (Or.inr (Or.inr (Or.inr e)))))
        exact mul_ne_zero (mul_ne_zero (one_div_ne_zero h0) (one_div_ne_zero h1')) (one_div_ne_zero h2)
  rcases hp with ⟨s, r, h1⟩ | ⟨_, h1⟩ | ⟨_, _, _, h1⟩ | ⟨_, h1⟩ | ⟨_, h1⟩ | ⟨_, _, h1⟩
  · exact hres s r h1
  · unfold resizePlan3 at h1
    split at h1
    · cases h1
    · exact hres _ _ h1
  · unfold cropPlan3 at h1
    simp only at h1
    split at h1
    · cases h1
    · split at h1
      · cases h1
      · have := Except.ok_inj' h1
        subst this
        rw [transl3_det]; exact one_ne_zero
  · unfold zoomPlan3 at h1
    split at h1
    · cases h1
    · rename_i hs
      have := Except.ok_inj' h1
      subst this
      simp only [aboutCentre3_det, scale3_det]
      exact mul_ne_zero (mul_ne_zero (one_div_ne_zero hs) (one_div_ne_zero hs)) (one_div_ne_zero hs)
  · unfold mirrorPlan3 at h1
    split at h1
    · cases h1
    · have := Except.ok_inj' h1
      subst this
      apply Aff3.det_inv_ne
      rw [mirrorMap3_det]; norm_num
  · unfold warpPlan3 at h1
    split at h1
    · cases h1
    · rename_i hT
      have := Except.ok_inj' h1
      subst this
      exact hT

/-! ### non-vacuity: the hypotheses are satisfiable on concrete values and the statements compute -/

/-- a 6×7 ramp image `1 + 2 i + 3 j` and a 5×5 image with non-affine content -/
def exIm : Img2 := ⟨6, 7, fun i j => 1 + 2 * (i : Rat) + 3 * (j : Rat)⟩
def exHash : Img2 := ⟨5, 5, fun i j => (((i * i + 3 * j) % 7 : Int) : Rat)⟩
/-- a rotation-shear-translation, determinant 5/16 -/
def exT : Aff2 := ⟨1/2, 1/4, 1, -1/4, 1/2, 2⟩

example : exT.det = 5 / 16 := by decide +kernel
example : exT.inv.apply ⟨2, 3⟩ = ⟨4/5, 12/5⟩ := by decide +kernel
-- registration, affine content, a fractional returned landmark (4/5, 12/5): both sides computed
example : (warp2 .linear .nearest exIm 5 5 exT).sample .linear (.constant 0) (exT.inv.apply ⟨2, 3⟩)
    = 1 + 2 * 2 + 3 * 3 := by decide +kernel
-- the same through the theorem, all hypotheses discharged (translation by (1, 2), landmark (5/2, 7/2))
example : (warp2 .linear (.constant 0) exIm 4 4 (transl2 ⟨1, 2⟩)).sample .linear (.constant 0)
    ((transl2 ⟨1, 2⟩).inv.apply ⟨5/2, 7/2⟩) = 1 + 2 * (5/2) + 3 * (7/2) := by
  apply warp_registration_affine2
  · decide +kernel
  · intro i j _ _ _ _; rfl
  · decide +kernel
  · intro i j hi0 hi1 hj0 hj1 _ _ _ _
    have a0 : (0:Rat) ≤ (i:Rat) := by exact_mod_cast hi0
    have a1 : (i:Rat) ≤ 3 := by exact_mod_cast hi1
    have b0 : (0:Rat) ≤ (j:Rat) := by exact_mod_cast hj0
    have b1 : (j:Rat) ≤ 3 := by exact_mod_cast hj1
    simp only [Img2.inside, inR, top, transl2, Aff2.apply, gridPt2, exIm]
    norm_num
    refine ⟨⟨?_, ?_⟩, ?_, ?_⟩ <;> linarith
-- registration on a grid point, non-affine content, nearest-neighbour warp, bilinear read-back
example : (warp2 .nearest (.constant 0) exHash 3 3 (transl2 ⟨1, 2⟩)).sample .linear .nearest
    ((transl2 ⟨1, 2⟩).inv.apply ⟨2, 3⟩) = exHash.px 2 3 := by decide +kernel
example : exHash.px 2 3 = 6 := by decide +kernel
-- outside the hypotheses the conclusion really fails: the last column of a rescaled image is clamped
example : (rescalePlan2 4 9 (1/2) (1/2) .ceil).toOption.map (fun p => (p.h, p.w, p.T))
    = some (2, 5, scale2 3 (16/7)) := by decide +kernel
example : (rescalePlan2 4 9 (1/2) (1/2) .ceil).toOption.map
      (fun p => ((p.run .linear ⟨4, 9, fun _ j => (j : Rat)⟩).sample .linear .nearest (p.landmark ⟨3, 8⟩), p.landmark ⟨3, 8⟩))
    = some (52/7, ⟨1, 7/2⟩) := by decide +kernel
-- error branches and the degenerate corner of rescale
example : (rescalePlan2 4 9 (-1) 1 .ceil).toOption.isNone = true := by decide +kernel
example : (rescalePlan2 4 9 (1/4) 1 .ceil).toOption.isNone = true := by decide +kernel
-- rounding of template shapes (numpy half-to-even)
example : roundHalfEven (5/2) = 2 ∧ roundHalfEven (7/2) = 4 ∧ roundHalfEven (-1/2) = 0 ∧ roundHalfEven (13/5) = 3 := by decide +kernel
-- crop: fractional bounds are floored / ceiled, landmarks shift by the integer minimum
example : (cropPlan2 6 7 ⟨3/2, 11/5⟩ ⟨51/10, 6⟩ true).toOption.map (fun p => (p.h, p.w, p.T, p.landmark ⟨3, 4⟩))
    = some (5, 4, transl2 ⟨1, 2⟩, ⟨2, 2⟩) := by decide +kernel
example : (cropPlan2 6 7 ⟨-2, 1⟩ ⟨9, 5⟩ true).toOption.map (fun p => (p.h, p.w, p.T))
    = some (6, 4, transl2 ⟨0, 1⟩) := by decide +kernel
example : (cropPlan2 6 7 ⟨-2, -1⟩ ⟨9, 5⟩ false).toOption.isNone = true := by decide +kernel
example : (cropPlan2 6 7 ⟨1, 1⟩ ⟨9, 5⟩ false).toOption.isNone = true := by decide +kernel   -- one side out: refused
-- crop: arbitrary content, sub-pixel landmark, bilinear read-back: exact (crop_exact_registration)
example : (cropPlan2 5 5 ⟨1/2, 3/2⟩ ⟨4, 9/2⟩ true).toOption.map
      (fun p => (p.h, p.w, p.landmark ⟨3/2, 9/4⟩, (p.run .linear exHash).sample .linear .nearest (p.landmark ⟨3/2, 9/4⟩)))
    = some (4, 4, ⟨3/2, 5/4⟩, exHash.core .linear ⟨3/2, 9/4⟩) := by decide +kernel
example : exHash.core .linear ⟨3/2, 9/4⟩ = 9 / 4 := by decide +kernel
-- mirror, zoom, rotation by a quarter turn (the frame is re-originated: 6×7 becomes 7×6)
example : (mirrorPlan2 6 7 1).toOption.map (fun p => (p.T, p.landmark ⟨2, 1⟩)) = some (⟨1, 0, 0, 0, -1, 6⟩, ⟨2, 5⟩) := by
  decide +kernel
example : (zoomPlan2 6 8 2).toOption.map (fun p => p.T.apply ⟨3, 4⟩) = some ⟨3, 4⟩ := by decide +kernel
example : (rotatePlan2 6 7 0 1 false (.constant 0) .round).toOption.map (fun p => (p.h, p.w, p.landmark ⟨0, 0⟩))
    = some (7, 6, ⟨6, 0⟩) := by decide +kernel
example : (rotatePlan2 6 7 (3/5) (4/5) false (.constant 0) .round).toOption.map (fun p => (p.h, p.w, p.pre))
    = some (9, 9, ⟨44/5, 43/5⟩) := by decide +kernel
-- mask: same transform, order 0; the boolean output casts cval
example : maskMode (.constant (1/2)) = .constant 0 ∧ maskMode (.constant (-1)) = .constant 1 ∧ maskMode .nearest = .nearest := by
  decide +kernel
example : (mirrorPlan2 5 5 0).toOption.map (fun p => (p.runMask ⟨5, 5, fun i _ => if i ≤ 1 then 1 else 0⟩).px 4 2)
    = some 1 := by decide +kernel
-- pyramid: level 2 of a 12×17 image is 3×5 and the landmark (3, 4) is at (6/11, 105/128)
example : (pyramid2 2 .linear 2 (⟨12, 17, fun i _ => (i : Rat)⟩, ⟨12, 17, fun _ _ => 1⟩, [⟨3, 4⟩])).toOption.map
      (fun s => (s.1.h, s.1.w, s.2.2)) = some (3, 5, [⟨6/11, 105/128⟩]) := by decide +kernel
-- 3-D
def exT3 : Aff3 := ⟨1, 1/4, 0, 1/2, 0, 1, 1/2, 1/4, 1/4, 0, 1, 1⟩
example : exT3.det = 33 / 32 := by decide +kernel
example : (warp3 .linear (.constant 0) ⟨6, 7, 8, fun i j k => 1 + (i : Rat) + 2 * (j : Rat) - (k : Rat)⟩ 4 4 4 exT3).sample
      .linear .nearest (exT3.inv.apply ⟨2, 3, 7/2⟩) = 1 + 2 + 2 * 3 - 7 / 2 := by decide +kernel
example : (rescalePlan3 6 7 8 ⟨3/2, 2, 5/4⟩ .ceil).toOption.map (fun p => (p.n0, p.n1, p.n2, p.landmark ⟨1, 2, 3⟩))
    = some (9, 14, 10, ⟨8/5, 13/3, 27/7⟩) := by decide +kernel

end MenpoModel.C01
