/-
C07 — extension: degenerate sizes, exact recovery of affine maps by thin-plate splines, generalized Procrustes.

`Props/C07Base.lean` holds the theorems about the single alignment constructors; this file adds

* degenerate sizes ........................ `norm2_eq_zero_iff`, `fitScaleE_none_iff`, `fitScaleE_some`, `simFitE_none_iff`,
    `simFitE_some`, `zero_size_target_collapses` (which inputs have no finite answer — exactly the zero-size sources —
    and what a zero-size target gives)
* uniqueness of the size/centroid fits ..... `scale_unique`, `similarity_norot_unique`
* TPS recovers affine maps exactly ......... `tpsL_mul_affineCoef`, `tps_affine_recovery`, `tps_affine_no_bending`,
    `tps_affine_exact`
* TPS as coded (truncated SVD) ............. `tps_svd_product`, `tps_svd_interpolates`, `tps_svd_miss`, `tpsL_symm`,
    `tpsKeep_full`, `tps_interp_of_solves`
* PWA from an executable certificate ....... `pwa_single_valued`, `pwa_affine_on_closed_triangle`,
    `pwa_interpolates_cert`, `pwa_on_edge_cert` (the conformity of the triangulation is *checked* by `pwaCertB` on
    the triangle list of every generated alignment, no longer assumed)
* PWA recovers affine maps exactly ......... `triMap_recovers_affine`, `pwa_recovers_affine`
* generalized Procrustes ................... `gpa_none_iff` (the `ValueError`), `gpaRec_inv`,
    `gpa_transforms_are_alignments` (on *every* exit path each transform is the similarity alignment of its source to
    the common final target), `gpa_reproduces_centroid`, `gpa_reproduces_size`, `gpa_uses_ls_rotation_{mirror,2d,3d}`,
    `gpa_no_reflection_{2d,3d}`, `gpa_reported_target_none`, `gpa_reported_target_some`, `gpa_converged_spec`,
    `gpa_not_converged_spec`, `gpa_nIter_le`, `gpaNewTarget_centroid`, `gpaNewTarget_size` (mean, rescale, convergence
    test, iteration bound)
-/
import MenpoModel.Props.C07Base

open Matrix
namespace MenpoModel.C07

/-! ### degenerate sizes -/

/-- a point set has zero size exactly when all its points coincide (with the centroid) -/
theorem norm2_eq_zero_iff {n d : ℕ} (P : Mat n d) : norm2 P = 0 ↔ ∀ i j, P i j = centroid P j := by
  constructor
  · intro h i j
    have := frob2_eq_zero h i j
    simp only [centred] at this
    linarith
  · intro h
    simp only [norm2, frob2_sum, centred]
    apply Finset.sum_eq_zero; intro i _
    apply Finset.sum_eq_zero; intro j _
    rw [h i j]; ring

/-- **the uniform-scale alignment has no finite answer exactly for zero-size sources** (given the `norm` contract) -/
theorem fitScaleE_none_iff {n d : ℕ} (S : Mat n d) (rT rS : ℚ) (hS : rS * rS = norm2 S) :
    (fitScaleE rT rS : Option (HMat d)) = none ↔ ∀ i j, S i j = centroid S j := by
  rw [← norm2_eq_zero_iff, ← hS]
  unfold fitScaleE normRatio
  by_cases h : rS = 0
  · simp [h]
  · simp [h]

theorem fitScaleE_some {d : ℕ} (rT rS : ℚ) (h : rS ≠ 0) : (fitScaleE rT rS : Option (HMat d)) = some (fitScale rT rS) := by
  simp [fitScaleE, normRatio, h, fitScale]

/-- **the similarity alignment has no finite answer exactly for zero-size sources** -/
theorem simFitE_none_iff {n d : ℕ} (rotation : Bool) (rT rS : ℚ) (R : Mat d d) (S T : Mat n d)
    (hS : rS * rS = norm2 S) : simFitE rotation rT rS R S T = none ↔ ∀ i j, S i j = centroid S j := by
  rw [← norm2_eq_zero_iff, ← hS]
  unfold simFitE normRatio
  by_cases h : rS = 0
  · simp [h]
  · simp [h]

theorem simFitE_some {n d : ℕ} (rotation : Bool) (rT rS : ℚ) (R : Mat d d) (S T : Mat n d) (h : rS ≠ 0) :
    simFitE rotation rT rS R S T = some (simFit rotation rT rS R S T) := by
  simp [simFitE, normRatio, h]

/-- **zero-size target**: the similarity alignment (either variant, any rotation witness) sends every source point
onto the single target point — the target is reproduced exactly -/
theorem zero_size_target_collapses {n d : ℕ} (rotation : Bool) (rT rS : ℚ) (R : Mat d d) (S T : Mat n d)
    (hT : rT * rT = norm2 T) (hT0 : norm2 T = 0) : applyH (simFit rotation rT rS R S T) S = T := by
  have hr : rT = 0 := by
    have : rT * rT = 0 := by rw [hT, hT0]
    exact mul_self_eq_zero.1 this
  have hpt := (norm2_eq_zero_iff T).1 hT0
  funext i j
  cases rotation
  · rw [applyH_simFit_norot, hr, hpt i j]; simp
  · rw [applyH_simFit_rot, hr, hpt i j]
    simp [mul, sumF_eq, simAlignedSrc, applyH_simP0]

/-! ### uniqueness: the scale / translate∘scale fits are the only family members that reproduce size (and centroid) -/

theorem nonneg_sq_eq {a b : ℚ} (ha : 0 ≤ a) (hb : 0 ≤ b) (h : a * a = b * b) : a = b := by
  have h1 : (a - b) * (a + b) = 0 := by linear_combination h
  rcases mul_eq_zero.1 h1 with h2 | h2
  · linarith
  · have : a = 0 := by linarith
    have : b = 0 := by linarith
    linarith

/-- **the uniform-scale alignment is the only non-negative uniform scale that reproduces the target's size** -/
theorem scale_unique {n d : ℕ} (S T : Mat n d) (rT rS σ : ℚ) (hT0 : 0 ≤ rT) (hT : rT * rT = norm2 T)
    (hS0 : 0 < rS) (hS : rS * rS = norm2 S) (hσ : 0 ≤ σ) (hsz : norm2 (applyH (scaleH σ) S) = norm2 T) :
    (scaleH σ : HMat d) = fitScale rT rS := by
  rw [norm2_smul σ S (applyH (scaleH σ) S) (fun i j => applyH_scale _ S i j), ← hS, ← hT] at hsz
  have h1 : σ * rS = rT := nonneg_sq_eq (mul_nonneg hσ hS0.le) hT0 (by linear_combination hsz)
  unfold fitScale
  rw [← h1]; congr 1; field_simp

/-- **the similarity alignment without rotation is the only map `x ↦ σ·x + t` (σ ≥ 0) that reproduces the target's
centroid and size**: any such map acts on the source exactly as the fitted one -/
theorem similarity_norot_unique {n d : ℕ} (hn : n ≠ 0) (S T : Mat n d) (rT rS σ : ℚ) (t : Vec d) (R : Mat d d)
    (hT0 : 0 ≤ rT) (hT : rT * rT = norm2 T) (hS0 : 0 < rS) (hS : rS * rS = norm2 S) (hσ : 0 ≤ σ)
    (hc : centroid (applyH (simMember σ one t) S) = centroid T)
    (hsz : norm2 (applyH (simMember σ one t) S) = norm2 T) :
    applyH (simMember σ one t) S = applyH (simFit false rT rS R S T) S := by
  have hI : IsOrth (one : Mat d d) := by
    constructor <;> (apply toM_inj; simp [toM_mul, toM_tr, toM_one])
  rw [norm2_simMember hn σ hI, ← hS, ← hT] at hsz
  have h1 : σ * rS = rT := nonneg_sq_eq (mul_nonneg hσ hS0.le) hT0 (by linear_combination hsz)
  have hs : rT / rS = σ := by rw [← h1]; field_simp
  funext i j
  have hcj := congrFun hc j
  rw [centroid_simMember hn] at hcj
  rw [applyH_simFit_norot, hs, applyH_simMember, ← hcj]
  simp only [one, mul_ite, mul_one, mul_zero, Finset.sum_ite_eq, Finset.mem_univ, if_true]
  ring

/-! ### thin-plate splines recover affine maps exactly -/

/-- the purely affine coefficient block solves the TPS system whose target is the affine image of the source -/
theorem tpsL_mul_affineCoef {n : ℕ} (K : Mat n n) (S : Mat n 2) (H0 : HMat 2) :
    mul (tpsL K S) (tpsAffineCoef H0) = tpsY (applyH H0 S) := by
  funext r c
  simp only [mul, sumF_eq, Fin.sum_univ_add, Fin.sum_univ_three]
  refine Fin.addCases (fun i => ?_) (fun j => ?_) r
  · simp [tpsL, tpsY, tpsAffineCoef, pcol, applyH, linPart, transPart, sumF_eq, Fin.sum_univ_two]
    ring
  · simp [tpsL, tpsY, tpsAffineCoef]

/-- a square system with a right inverse has at most one solution -/
theorem solve_unique {k p : ℕ} (G Gi : Mat k k) (hGi : mul G Gi = one) (X X' : Mat k p)
    (h : mul G X = mul G X') : X = X' := by
  have e := congrArg toM h
  have eG := congrArg toM hGi
  simp only [toM_mul, toM_one] at e eG
  have eG' : toM Gi * toM G = 1 := mul_eq_one_comm.1 eG
  apply toM_inj
  calc toM X = (toM Gi * toM G) * toM X := by rw [eG', Matrix.one_mul]
    _ = toM Gi * (toM G * toM X') := by rw [Matrix.mul_assoc, e]
    _ = toM X' := by rw [← Matrix.mul_assoc, eG', Matrix.one_mul]

/-- **exact recovery of affine maps**: when the target is an affine image of the source and the TPS system is
invertible (`Li` is a right inverse, e.g. the checked solve of `L·X = 1`), the fitted coefficients are exactly the
affine ones -/
theorem tps_affine_recovery {n : ℕ} (K : Mat n n) (S : Mat n 2) (H0 : HMat 2) (coef : Mat (n + 3) 2)
    (h : tpsFit K S (applyH H0 S) = some coef) (Li : Mat (n + 3) (n + 3)) (hLi : mul (tpsL K S) Li = one) :
    coef = tpsAffineCoef H0 := by
  have h1 := solveChecked_spec h
  exact solve_unique _ Li hLi _ _ (by rw [h1, tpsL_mul_affineCoef])

/-- … so the non-affine (bending) part of the spline is zero … -/
theorem tps_affine_no_bending {n : ℕ} (K : Mat n n) (S : Mat n 2) (H0 : HMat 2) (coef : Mat (n + 3) 2)
    (h : tpsFit K S (applyH H0 S) = some coef) (Li : Mat (n + 3) (n + 3)) (hLi : mul (tpsL K S) Li = one)
    (i : Fin n) (c : Fin 2) : coef (Fin.castAdd 3 i) c = 0 := by
  rw [tps_affine_recovery K S H0 coef h Li hLi]
  simp [tpsAffineCoef]

/-- … and the spline *is* the affine map, at every point and whatever the kernel values there -/
theorem tps_affine_exact {n : ℕ} (K : Mat n n) (S : Mat n 2) (H0 : HMat 2) (coef : Mat (n + 3) 2)
    (h : tpsFit K S (applyH H0 S) = some coef) (Li : Mat (n + 3) (n + 3)) (hLi : mul (tpsL K S) Li = one)
    (kern : Vec n) (x y : ℚ) (c : Fin 2) :
    tpsApply coef kern x y c = H0 c.castSucc 0 * x + H0 c.castSucc 1 * y + H0 c.castSucc 2 := by
  rw [tps_affine_recovery K S H0 coef h Li hLi]
  simp [tpsApply, tpsAffineCoef, sumF_eq]
  ring

/-! ### thin-plate splines as coded: the truncated-SVD branch -/

theorem toM_diagV {m : ℕ} (v : Vec m) : toM (diagV v) = diagonal v := by
  ext i j; simp [diagV, diagonal_apply]

/-- the spline interpolates as soon as its coefficients solve the TPS system -/
theorem tps_interp_of_solves {n : ℕ} (K : Mat n n) (S T : Mat n 2) (coef : Mat (n + 3) 2)
    (hL : mul (tpsL K S) coef = tpsY T) (i : Fin n) : tpsApply coef (K i) (S i 0) (S i 1) = T i := by
  funext c
  have := congrFun (congrFun hL (Fin.castAdd 3 i)) c
  simp only [mul, sumF_eq, Fin.sum_univ_add, Fin.sum_univ_three, tpsL, tpsY] at this
  simp only [tpsApply, sumF_eq]
  simp [pcol] at this
  linarith

/-- mask of the kept directions -/
def keepMask {m : ℕ} (keep : ℕ) : Vec m := fun i => if i.val < keep then 1 else 0

/-- **what the coded "inverse" does**: with the SVD contract for a *symmetric* system `L` (the kernel matrix of a
radial basis function is symmetric) and non-zero kept singular values, `L · coefficients` is the data projected onto
the kept right singular directions -/
theorem tps_svd_product {n : ℕ} (K : Mat n n) (S T : Mat n 2) (U Vt : Mat (n + 3) (n + 3)) (s : Vec (n + 3))
    (minSing : ℚ) (hsvd : SvdOK (tpsL K S) U s Vt) (hsym : tr (tpsL K S) = tpsL K S)
    (hkept : ∀ i : Fin (n + 3), i.val < tpsKeep s minSing → s i ≠ 0) :
    mul (tpsL K S) (tpsFitSvd U s Vt minSing T) =
      mul (tr Vt) (mul (diagV (keepMask (tpsKeep s minSing))) (mul Vt (tpsY T))) := by
  apply toM_inj
  have hL := hsvd.toM_fact
  rw [transpose_transpose] at hL
  have hLt : toM (tpsL K S) = (toM Vt)ᵀ * diagonal s * (toM U)ᵀ := by
    have h1 := congrArg toM hsym
    rw [toM_tr] at h1
    rw [← h1, hL]
    simp only [transpose_mul, diagonal_transpose, Matrix.mul_assoc]
  have hd : diagonal s * diagonal (tpsInvS s (tpsKeep s minSing)) =
      (diagonal (keepMask (tpsKeep s minSing)) : Matrix (Fin (n + 3)) (Fin (n + 3)) ℚ) := by
    rw [diagonal_mul_diagonal]
    congr 1
    funext i
    unfold tpsInvS keepMask
    split_ifs with h
    · have := hkept i h
      field_simp
    · simp
  have hrow : toM (fun l j => tpsInvS s (tpsKeep s minSing) l * mul Vt (tpsY T) l j) =
      diagonal (tpsInvS s (tpsKeep s minSing)) * (toM Vt * toM (tpsY T)) := by
    ext l j
    simp [Matrix.diagonal_mul, ← toM_mul]
  simp only [tpsFitSvd, toM_mul, toM_tr, toM_diagV, hrow]
  conv_lhs => rw [hLt]
  calc (toM Vt)ᵀ * diagonal s * (toM U)ᵀ * (toM U * (diagonal (tpsInvS s (tpsKeep s minSing)) * (toM Vt * toM (tpsY T))))
      = (toM Vt)ᵀ * (diagonal s * (((toM U)ᵀ * toM U) * (diagonal (tpsInvS s (tpsKeep s minSing)) * (toM Vt * toM (tpsY T))))) := by
        simp only [Matrix.mul_assoc]
    _ = (toM Vt)ᵀ * ((diagonal s * diagonal (tpsInvS s (tpsKeep s minSing))) * (toM Vt * toM (tpsY T))) := by
        rw [hsvd.orthU.toM_left, Matrix.one_mul, Matrix.mul_assoc]
    _ = (toM Vt)ᵀ * (diagonal (keepMask (tpsKeep s minSing)) * (toM Vt * toM (tpsY T))) := by rw [hd]

theorem tpsKeep_full {m : ℕ} (s : Vec m) (minSing : ℚ) (h : ∀ i, minSing ≤ s i) : tpsKeep s minSing = m := by
  unfold tpsKeep
  have : ((List.finRange m).filter fun i => decide (s i < minSing)) = [] := by
    rw [List.filter_eq_nil_iff]
    intro i _
    simp only [decide_eq_true_eq, not_lt]
    exact h i
  rw [this]; simp

/-- **thin-plate splines as coded interpolate when no singular value is dropped**: SVD contract, symmetric system,
every singular value at least `min_singular_val > 0` ⇒ every source landmark is sent exactly onto its target landmark -/
theorem tps_svd_interpolates {n : ℕ} (K : Mat n n) (S T : Mat n 2) (U Vt : Mat (n + 3) (n + 3)) (s : Vec (n + 3))
    (minSing : ℚ) (hmin : 0 < minSing) (hsvd : SvdOK (tpsL K S) U s Vt) (hsym : tr (tpsL K S) = tpsL K S)
    (hall : ∀ i, minSing ≤ s i) (i : Fin n) :
    tpsApply (tpsFitSvd U s Vt minSing T) (K i) (S i 0) (S i 1) = T i := by
  apply tps_interp_of_solves
  rw [tps_svd_product K S T U Vt s minSing hsvd hsym (fun i _ => by have := hall i; intro h0; rw [h0] at this; linarith)]
  have hk := tpsKeep_full s minSing hall
  have hmask : diagV (keepMask (tpsKeep s minSing) : Vec (n + 3)) = one := by
    funext a b
    have := a.isLt
    simp only [diagV, keepMask, one, hk, this, if_true]
  rw [hmask]
  apply toM_inj
  simp only [toM_mul, toM_tr, toM_one, Matrix.one_mul]
  rw [← Matrix.mul_assoc, hsvd.orthV.toM_left, Matrix.one_mul]

/-- **…and otherwise the miss is exactly the dropped component of the data**: `L·coefficients − y` is minus the
projection of `y` onto the dropped right singular directions -/
theorem tps_svd_miss {n : ℕ} (K : Mat n n) (S T : Mat n 2) (U Vt : Mat (n + 3) (n + 3)) (s : Vec (n + 3))
    (minSing : ℚ) (hsvd : SvdOK (tpsL K S) U s Vt) (hsym : tr (tpsL K S) = tpsL K S)
    (hkept : ∀ i : Fin (n + 3), i.val < tpsKeep s minSing → s i ≠ 0) :
    msub (tpsY T) (mul (tpsL K S) (tpsFitSvd U s Vt minSing T)) =
      mul (tr Vt) (mul (diagV (fun i => 1 - keepMask (tpsKeep s minSing) i)) (mul Vt (tpsY T))) := by
  rw [tps_svd_product K S T U Vt s minSing hsvd hsym hkept]
  apply toM_inj
  simp only [toM_sub, toM_mul, toM_tr, toM_diagV]
  have hsplit : (diagonal (fun i => 1 - keepMask (tpsKeep s minSing) i) : Matrix (Fin (n + 3)) (Fin (n + 3)) ℚ) =
      1 - diagonal (keepMask (tpsKeep s minSing)) := by
    ext a b
    by_cases hab : a = b
    · subst hab; simp
    · simp [hab]
  rw [hsplit, Matrix.sub_mul, Matrix.one_mul, Matrix.mul_sub, ← Matrix.mul_assoc (toM Vt)ᵀ (toM Vt),
    hsvd.orthV.toM_left, Matrix.one_mul]

/-- a symmetric kernel matrix makes the TPS system symmetric -/
theorem tpsL_symm {n : ℕ} (K : Mat n n) (S : Mat n 2) (hK : ∀ i j, K i j = K j i) : tr (tpsL K S) = tpsL K S := by
  funext r c
  simp only [tr, tpsL]
  by_cases hr : r.val < n <;> by_cases hc : c.val < n <;> simp [hr, hc, hK]

/-! ### piecewise affine: single-valuedness from the executable conformity certificate -/

/-- affine combination of three points -/
def combo3 (w0 w1 w2 : ℚ) (a b c : V2) : V2 := V2.add (V2.smul w0 a) (V2.add (V2.smul w1 b) (V2.smul w2 c))

/-- the map of a triangle preserves affine combinations -/
theorem triMap_combo3 (src tgt : ℕ → V2) (s : Tri) (w0 w1 w2 : ℚ) (hw : w0 + w1 + w2 = 1) (a b c : V2) :
    triMap src tgt s (combo3 w0 w1 w2 a b c) =
      combo3 w0 w1 w2 (triMap src tgt s a) (triMap src tgt s b) (triMap src tgt s c) := by
  have : w0 = 1 - w1 - w2 := by linarith
  subst this
  simp only [triMap, triAB, alphaBeta, combo3, V2.sub, V2.add, V2.smul, V2.dot]
  ext <;> simp only <;> ring

theorem orient_combo3 (A B : V2) (w0 w1 w2 : ℚ) (hw : w0 + w1 + w2 = 1) (a b c : V2) :
    orient A B (combo3 w0 w1 w2 a b c) = w0 * orient A B a + w1 * orient A B b + w2 * orient A B c := by
  have : w0 = 1 - w1 - w2 := by linarith
  subst this
  simp only [orient, combo3, V2.add, V2.smul]
  ring

/-- a point a triangle contains is the convex combination of its vertices with the weights `alpha_beta` returns -/
theorem contains_combo (src : ℕ → V2) (t : Tri) (h : TriNonDeg src t) (p : V2)
    (hc : containsAB (triAB src t p) = true) :
    ∃ w0 w1 w2 : ℚ, 0 ≤ w0 ∧ 0 ≤ w1 ∧ 0 ≤ w2 ∧ w0 + w1 + w2 = 1 ∧
      p = combo3 w0 w1 w2 (src t.1) (src t.2.1) (src t.2.2) := by
  have hp := alpha_beta_reconstruct (src t.1) (V2.sub (src t.2.1) (src t.1)) (V2.sub (src t.2.2) (src t.1)) p h
  simp only [containsAB, Bool.and_eq_true, decide_eq_true_eq] at hc
  obtain ⟨⟨ha, hb⟩, hab⟩ := hc
  unfold triAB at ha hb hab
  generalize alphaBeta (src t.1) (V2.sub (src t.2.1) (src t.1)) (V2.sub (src t.2.2) (src t.1)) p = ab at hp ha hb hab
  refine ⟨1 - ab.1 - ab.2, ab.1, ab.2, by linarith, ha, hb, by ring, ?_⟩
  rw [← hp]
  simp only [combo3, V2.add, V2.sub, V2.smul]
  ext <;> simp only <;> ring

theorem isVertexB_iff (t : Tri) (u : ℕ) : isVertexB t u = true ↔ IsVertex t u := by
  simp [isVertexB, IsVertex, or_assoc]

theorem nondegB_iff (src : ℕ → V2) (t : Tri) : nondegB src t = true ↔ TriNonDeg src t := by
  simp [nondegB, TriNonDeg, NonDeg]

/-- three non-negative numbers with a non-positive sum are all zero -/
theorem three_nonneg_zero {a b c : ℚ} (ha : 0 ≤ a) (hb : 0 ≤ b) (hc : 0 ≤ c) (h : a + b + c ≤ 0) :
    a = 0 ∧ b = 0 ∧ c = 0 := ⟨by linarith, by linarith, by linarith⟩

/-- the heart of the certificate: if `pairOK` holds for `(t, t')`, a point in both triangles is a combination of
vertices of `t` in which every vertex that is *not* also a vertex of `t'` has weight zero -/
theorem pair_weights (src : ℕ → V2) (t t' : Tri) (h : TriNonDeg src t) (h' : TriNonDeg src t') (p : V2)
    (hc : containsAB (triAB src t p) = true) (hc' : containsAB (triAB src t' p) = true)
    (hp : pairOK src t t' = true) :
    ∃ w0 w1 w2 : ℚ, w0 + w1 + w2 = 1 ∧ p = combo3 w0 w1 w2 (src t.1) (src t.2.1) (src t.2.2) ∧
      (w0 = 0 ∨ IsVertex t' t.1) ∧ (w1 = 0 ∨ IsVertex t' t.2.1) ∧ (w2 = 0 ∨ IsVertex t' t.2.2) := by
  obtain ⟨w0, w1, w2, h0, h1, h2, hs, hpe⟩ := contains_combo src t h p hc
  refine ⟨w0, w1, w2, hs, hpe, ?_⟩
  simp only [pairOK, Bool.or_eq_true, List.any_eq_true, Bool.and_eq_true] at hp
  rcases hp with hsub | ⟨ab, _, hs1, cd, _, hs2⟩
  · simp only [triVerts, List.all_cons, List.all_nil, Bool.and_true, Bool.and_eq_true, isVertexB_iff] at hsub
    exact ⟨Or.inr hsub.1, Or.inr hsub.2.1, Or.inr hsub.2.2⟩
  · obtain ⟨v0, v1, v2, g0, g1, g2, gs, gpe⟩ := contains_combo src t' h' p hc'
    simp only [sep1, triVerts, List.all_cons, List.all_nil, Bool.and_true, Bool.and_eq_true, decide_eq_true_eq] at hs1
    simp only [sep2, triVerts, List.all_cons, List.all_nil, Bool.and_true, Bool.and_eq_true, decide_eq_true_eq,
      Bool.or_eq_true, bne_iff_ne, ne_eq, isVertexB_iff] at hs2
    obtain ⟨⟨a0, a1, a2⟩, c0, c1, c2⟩ := hs1
    obtain ⟨⟨b0, b1, b2⟩, d0, d1, d2⟩ := hs2
    set ℓ := orient (src ab.1) (src ab.2) with hℓ
    set m := orient (src cd.1) (src cd.2) with hm
    have e1 : ℓ p = w0 * ℓ (src t.1) + w1 * ℓ (src t.2.1) + w2 * ℓ (src t.2.2) := by
      rw [hpe]; exact orient_combo3 _ _ _ _ _ hs _ _ _
    have e2 : ℓ p = v0 * ℓ (src t'.1) + v1 * ℓ (src t'.2.1) + v2 * ℓ (src t'.2.2) := by
      conv_lhs => rw [gpe]
      exact orient_combo3 _ _ _ _ _ gs _ _ _
    have f1 : m p = w0 * m (src t.1) + w1 * m (src t.2.1) + w2 * m (src t.2.2) := by
      rw [hpe]; exact orient_combo3 _ _ _ _ _ hs _ _ _
    have f2 : m p = v0 * m (src t'.1) + v1 * m (src t'.2.1) + v2 * m (src t'.2.2) := by
      conv_lhs => rw [gpe]
      exact orient_combo3 _ _ _ _ _ gs _ _ _
    -- first level: ℓ p = 0, so every weighted ℓ-term vanishes, on both sides
    have n0 := mul_nonpos_of_nonneg_of_nonpos g0 c0
    have n1 := mul_nonpos_of_nonneg_of_nonpos g1 c1
    have n2 := mul_nonpos_of_nonneg_of_nonpos g2 c2
    have p0 := mul_nonneg h0 a0
    have p1 := mul_nonneg h1 a1
    have p2 := mul_nonneg h2 a2
    have hle : ℓ p ≤ 0 := by rw [e2]; linarith
    have hge : 0 ≤ ℓ p := by rw [e1]; linarith
    obtain ⟨z0, z1, z2⟩ := three_nonneg_zero p0 p1 p2 (by rw [← e1]; exact hle)
    have y0 : v0 * ℓ (src t'.1) = 0 := by rw [e2] at hge; linarith
    have y1 : v1 * ℓ (src t'.2.1) = 0 := by rw [e2] at hge; linarith
    have y2 : v2 * ℓ (src t'.2.2) = 0 := by rw [e2] at hge; linarith
    -- second level: every weighted m-term of `t` is ≥ 0, of `t'` is ≤ 0
    have tpos : ∀ (w lx mx : ℚ) (P : Prop), 0 ≤ w → w * lx = 0 → (¬lx = 0 ∨ 0 ≤ mx ∧ P) → 0 ≤ w * mx := by
      intro w lx mx P hw hz hb
      rcases mul_eq_zero.1 hz with z | z
      · rw [z]; simp
      · exact mul_nonneg hw (hb.resolve_left (fun hne => hne z)).1
    have tneg : ∀ (w lx mx : ℚ), 0 ≤ w → w * lx = 0 → (¬lx = 0 ∨ mx ≤ 0) → w * mx ≤ 0 := by
      intro w lx mx hw hz hb
      rcases mul_eq_zero.1 hz with z | z
      · rw [z]; simp
      · exact mul_nonpos_of_nonneg_of_nonpos hw (hb.resolve_left (fun hne => hne z))
    have q0 := tpos w0 _ _ _ h0 z0 b0
    have q1 := tpos w1 _ _ _ h1 z1 b1
    have q2 := tpos w2 _ _ _ h2 z2 b2
    have r0 := tneg v0 _ _ g0 y0 d0
    have r1 := tneg v1 _ _ g1 y1 d1
    have r2 := tneg v2 _ _ g2 y2 d2
    have hmle : m p ≤ 0 := by rw [f2]; linarith
    obtain ⟨u0, u1, u2⟩ := three_nonneg_zero q0 q1 q2 (by rw [← f1]; exact hmle)
    -- a vertex of `t` with non-zero weight lies on both lines, hence is shared
    have fin : ∀ (w lx mx : ℚ) (P : Prop), w * lx = 0 → w * mx = 0 → (¬lx = 0 ∨ 0 ≤ mx ∧ (¬mx = 0 ∨ P)) → w = 0 ∨ P := by
      intro w lx mx P hz hu hb
      by_cases hw : w = 0
      · exact Or.inl hw
      · have hl : lx = 0 := (mul_eq_zero.1 hz).resolve_left hw
        have hmx : mx = 0 := (mul_eq_zero.1 hu).resolve_left hw
        exact Or.inr (((hb.resolve_left (fun hne => hne hl)).2).resolve_left (fun hne => hne hmx))
    exact ⟨fin w0 _ _ _ z0 u0 b0, fin w1 _ _ _ z1 u1 b1, fin w2 _ _ _ z2 u2 b2⟩

theorem smul_eq_of (w : ℚ) (A B : V2) (h : w = 0 ∨ A = B) : V2.smul w A = V2.smul w B := by
  rcases h with h | h
  · subst h; simp [V2.smul]
  · rw [h]

/-- two triangles that pass the pair check agree on every point they both contain -/
theorem pair_agree (src tgt : ℕ → V2) (t t' : Tri) (h : TriNonDeg src t) (h' : TriNonDeg src t') (p : V2)
    (hc : containsAB (triAB src t p) = true) (hc' : containsAB (triAB src t' p) = true)
    (hp : pairOK src t t' = true) : triMap src tgt t p = triMap src tgt t' p := by
  obtain ⟨w0, w1, w2, hs, hpe, q0, q1, q2⟩ := pair_weights src t t' h h' p hc hc' hp
  rw [hpe, triMap_combo3 src tgt t _ _ _ hs, triMap_combo3 src tgt t' _ _ _ hs,
    triMap_vertex src tgt t h t.1 (Or.inl rfl), triMap_vertex src tgt t h t.2.1 (Or.inr (Or.inl rfl)),
    triMap_vertex src tgt t h t.2.2 (Or.inr (Or.inr rfl))]
  unfold combo3
  rw [smul_eq_of w0 (tgt t.1) (triMap src tgt t' (src t.1)) (q0.imp id fun hv => (triMap_vertex src tgt t' h' _ hv).symm),
    smul_eq_of w1 (tgt t.2.1) (triMap src tgt t' (src t.2.1)) (q1.imp id fun hv => (triMap_vertex src tgt t' h' _ hv).symm),
    smul_eq_of w2 (tgt t.2.2) (triMap src tgt t' (src t.2.2)) (q2.imp id fun hv => (triMap_vertex src tgt t' h' _ hv).symm)]

theorem pwaCert_nondeg {src : ℕ → V2} {tris : List Tri} (hcert : pwaCertB src tris = true) :
    ∀ t ∈ tris, TriNonDeg src t := by
  simp only [pwaCertB, Bool.and_eq_true, List.all_eq_true] at hcert
  exact fun t ht => (nondegB_iff src t).1 (hcert.1 t ht)

/-- **the piecewise-affine map is single-valued on a certified triangulation**: all triangles containing a point
send it to the same place (continuity across edges and at vertices, for every target) -/
theorem pwa_single_valued (src tgt : ℕ → V2) (tris : List Tri) (hcert : pwaCertB src tris = true)
    (t t' : Tri) (ht : t ∈ tris) (ht' : t' ∈ tris) (p : V2)
    (hc : containsAB (triAB src t p) = true) (hc' : containsAB (triAB src t' p) = true) :
    triMap src tgt t p = triMap src tgt t' p := by
  have hnd := pwaCert_nondeg hcert
  simp only [pwaCertB, Bool.and_eq_true, List.all_eq_true] at hcert
  have h2 := hcert.2 t ht t' ht'
  simp only [pairOK2, Bool.or_eq_true] at h2
  rcases h2 with h2 | h2
  · exact pair_agree src tgt t t' (hnd t ht) (hnd t' ht') p hc hc' h2
  · exact (pair_agree src tgt t' t (hnd t' ht') (hnd t ht) p hc' hc h2).symm

/-- **affine on every closed source triangle**: on a certified triangulation `_apply` at a point of triangle `t`
(interior, edge or vertex) is `t`'s affine map, whichever containing triangle the code picks -/
theorem pwa_affine_on_closed_triangle (src tgt : ℕ → V2) (tris : List Tri) (hcert : pwaCertB src tris = true)
    (t : Tri) (ht : t ∈ tris) (p : V2) (hc : containsAB (triAB src t p) = true) :
    pwaApply src tgt tris p = some (triMap src tgt t p) :=
  pwaApply_eq_of_agree src tgt tris p _ ⟨t, ht, hc⟩
    (fun t' ht' hc' => pwa_single_valued src tgt tris hcert t' t ht' ht p hc' hc)

/-- **interpolation from the certificate alone**: every landmark that is a vertex of some triangle is sent exactly
onto its target landmark (no conformity hypothesis left) -/
theorem pwa_interpolates_cert (src tgt : ℕ → V2) (tris : List Tri) (hcert : pwaCertB src tris = true) (v : ℕ)
    (hv : ∃ t ∈ tris, IsVertex t v) : pwaApply src tgt tris (src v) = some (tgt v) := by
  obtain ⟨t, ht, hvt⟩ := hv
  have hnd := pwaCert_nondeg hcert t ht
  rw [pwa_affine_on_closed_triangle src tgt tris hcert t ht (src v) (contains_vertex src t hnd v hvt),
    triMap_vertex src tgt t hnd v hvt]

/-- **edge values from the certificate alone**: a point of an edge `(u, v)` of some triangle is sent to the same
interpolation of the two target landmarks -/
theorem pwa_on_edge_cert (src tgt : ℕ → V2) (tris : List Tri) (hcert : pwaCertB src tris = true) (t : Tri)
    (ht : t ∈ tris) (u v : ℕ) (hu : IsVertex t u) (hv : IsVertex t v) (c : ℚ)
    (hc : containsAB (triAB src t (lerp c (src u) (src v))) = true) :
    pwaApply src tgt tris (lerp c (src u) (src v)) = some (lerp c (tgt u) (tgt v)) := by
  rw [pwa_affine_on_closed_triangle src tgt tris hcert t ht _ hc,
    triMap_edge src tgt t (pwaCert_nondeg hcert t ht) u v hu hv c]

/-! ### piecewise affine recovers affine maps exactly -/

/-- a 2-D affine map -/
def affV2 (a b c d e f : ℚ) (p : V2) : V2 := ⟨a * p.x + b * p.y + e, c * p.x + d * p.y + f⟩

/-- when the target vertices of a non-degenerate triangle are the affine image of its source vertices, the
triangle's map is that affine map — at every point of the plane -/
theorem triMap_recovers_affine (src tgt : ℕ → V2) (t : Tri) (h : TriNonDeg src t) (a b c d e f : ℚ)
    (hv : ∀ u, IsVertex t u → tgt u = affV2 a b c d e f (src u)) (p : V2) :
    triMap src tgt t p = affV2 a b c d e f p := by
  have hp := alpha_beta_reconstruct (src t.1) (V2.sub (src t.2.1) (src t.1)) (V2.sub (src t.2.2) (src t.1)) p h
  have h1 := hv t.1 (Or.inl rfl)
  have h2 := hv t.2.1 (Or.inr (Or.inl rfl))
  have h3 := hv t.2.2 (Or.inr (Or.inr rfl))
  unfold triMap triAB
  rw [h1, h2, h3]
  generalize alphaBeta (src t.1) (V2.sub (src t.2.1) (src t.1)) (V2.sub (src t.2.2) (src t.1)) p = ab at hp ⊢
  rw [← hp]
  simp only [affV2, V2.add, V2.sub, V2.smul]
  ext <;> simp only <;> ring

/-- **exact recovery of an affine map by the piecewise-affine alignment**: target = affine(source) on every
landmark ⇒ wherever `_apply` answers, it answers the affine image -/
theorem pwa_recovers_affine (src tgt : ℕ → V2) (tris : List Tri) (hnd : ∀ t ∈ tris, TriNonDeg src t)
    (a b c d e f : ℚ) (hv : ∀ t ∈ tris, ∀ u, IsVertex t u → tgt u = affV2 a b c d e f (src u)) (p q : V2)
    (h : pwaApply src tgt tris p = some q) : q = affV2 a b c d e f p := by
  obtain ⟨t, ht, _, rfl⟩ := pwaApply_some h
  exact triMap_recovers_affine src tgt t (hnd t ht) a b c d e f (hv t ht) p

/-! ### generalized Procrustes analysis -/

section Gpa
variable {k n d : ℕ}

/-- the contract of the externals consumed by one `procrustes_alignment(S, T)` -/
structure SimWitOK (w : SimWit d) (S T : Mat n d) : Prop where
  normT : w.rT * w.rT = norm2 T
  normS : w.rS * w.rS = norm2 S
  posS : w.rS ≠ 0
  svd : ∃ D, SvdOK (corr (simAlignedSrc (w.rT / w.rS) S) (simAlignedTgt T)) w.U D w.Vt

theorem getD_ofFn_tab (f : Fin k → Tab) (a : Fin k) : (Array.ofFn f).getD a.val #[] = f a := by
  simp [Array.getD]

theorem ofArr_simAlignTab (mirror : Bool) (w : SimWit d) (S T : Mat n d) :
    (ofArr (simAlignTab mirror w S T) : HMat d) = simAlign mirror w S T := by
  simp only [simAlignTab, ofArr_toArr, simAlign, simFit, if_true]

theorem transform_fitAll (mirror : Bool) (sources : Fin k → Mat n d) (sims : Fin k → SimWit d) (T : Mat n d)
    (tg : Tab) (it : ℕ) (cv : Bool) (sm : Fin k → SimWit d) (a : Fin k) :
    (GpaState.transform { transforms := gpaFitAll mirror sources sims T, target := tg, nIter := it, converged := cv,
                          sims := sm } a : HMat d) = simAlign mirror (sims a) (sources a) T := by
  simp only [GpaState.transform, gpaFitAll, getD_ofFn_tab, ofArr_simAlignTab]

/-- what `gpaNewTarget` tabulates: the mean aligned source, rescaled about its centre -/
theorem ofArr_gpaNewTarget (sources : Fin k → Mat n d) (s nn : ℚ) (trs : Fin k → HMat d) :
    (ofArr (gpaNewTarget sources s nn trs) : Mat n d) =
      applyH (scaleAboutCentreH (meanPts fun a => applyH (trs a) (sources a)) (s / nn))
        (meanPts fun a => applyH (trs a) (sources a)) := by
  simp only [gpaNewTarget, ofArr_toArr]

/-- the invariant of `_recursive_procrustes`: every transform is the similarity alignment of its source to the
current common target, computed from the recorded externals -/
def GpaInv (mirror : Bool) (sources : Fin k → Mat n d) (st : GpaState k d) : Prop :=
  ∀ a, st.transform a = simAlign mirror (st.sims a) (sources a) (st.tgt n)

theorem gpaRec_inv (mirror : Bool) (sources : Fin k → Mat n d) (initScale : ℚ) (ws : ℕ → GpaWit k d) :
    ∀ (fuel : ℕ) (st : GpaState k d), GpaInv mirror sources st →
      GpaInv mirror sources (gpaRec mirror sources initScale ws fuel st) := by
  intro fuel
  induction fuel with
  | zero => intro st h; exact h
  | succ f ih =>
    intro st h
    unfold gpaRec
    dsimp only
    split_ifs
    · exact h
    · apply ih
      intro a
      exact transform_fitAll ..

theorem gpa_none_iff (mirror : Bool) (sources : Fin k → Mat n d) (target : Option (Mat n d)) (w0 : Fin k → SimWit d)
    (initScale : ℚ) (maxIter : ℕ) (ws : ℕ → GpaWit k d) :
    gpa mirror sources target w0 initScale maxIter ws = none ↔ (k < 2 ∧ target = none) := by
  unfold gpa
  cases target <;> by_cases hk : k < 2 <;> simp [hk]

/-- **on every exit path (converged, or out of iterations) each transform GPA returns is the similarity alignment
of its source to the final common target** -/
theorem gpa_transforms_are_alignments {mirror : Bool} {sources : Fin k → Mat n d} {target : Option (Mat n d)}
    {w0 : Fin k → SimWit d} {initScale : ℚ} {maxIter : ℕ} {ws : ℕ → GpaWit k d} {r : GpaResult k d}
    (h : gpa mirror sources target w0 initScale maxIter ws = some r) (a : Fin k) :
    r.state.transform a = simAlign mirror (r.state.sims a) (sources a) (r.state.tgt n) := by
  unfold gpa at h
  split_ifs at h
  simp only [Option.some.injEq] at h
  subst h
  refine gpaRec_inv mirror sources initScale ws maxIter _ ?_ a
  intro a
  rw [transform_fitAll]
  simp [GpaState.tgt]

/-! #### what the alignments GPA returns satisfy (from the single-alignment theorems) -/

/-- **every GPA transform reproduces the centroid of the final target** (no contract needed) -/
theorem gpa_reproduces_centroid (hn : n ≠ 0) {mirror : Bool} {sources : Fin k → Mat n d} {target : Option (Mat n d)}
    {w0 : Fin k → SimWit d} {initScale : ℚ} {maxIter : ℕ} {ws : ℕ → GpaWit k d} {r : GpaResult k d}
    (h : gpa mirror sources target w0 initScale maxIter ws = some r) (a : Fin k) :
    centroid (applyH (r.state.transform a) (sources a)) = centroid (r.state.tgt n) := by
  rw [gpa_transforms_are_alignments h a]
  exact similarity_reproduces_centroid hn true _ _ _ _ _

/-- **every GPA transform reproduces the size of the final target** (norm contract, orthogonal SVD factors) -/
theorem gpa_reproduces_size (hn : n ≠ 0) {mirror : Bool} {sources : Fin k → Mat n d} {target : Option (Mat n d)}
    {w0 : Fin k → SimWit d} {initScale : ℚ} {maxIter : ℕ} {ws : ℕ → GpaWit k d} {r : GpaResult k d}
    (h : gpa mirror sources target w0 initScale maxIter ws = some r) (a : Fin k)
    (hw : SimWitOK (r.state.sims a) (sources a) (r.state.tgt n)) :
    norm2 (applyH (r.state.transform a) (sources a)) = norm2 (r.state.tgt n) := by
  rw [gpa_transforms_are_alignments h a]
  obtain ⟨D, hD⟩ := hw.svd
  exact similarity_reproduces_size hn true _ _ _ (fun _ => rotFit_isOrth mirror hD.orthU hD.orthV) _ _ hw.normT hw.normS
    hw.posS

/-- **every GPA transform uses the least-squares rotation** — mirroring allowed, every dimension -/
theorem gpa_uses_ls_rotation_mirror {sources : Fin k → Mat n d} {target : Option (Mat n d)}
    {w0 : Fin k → SimWit d} {initScale : ℚ} {maxIter : ℕ} {ws : ℕ → GpaWit k d} {r : GpaResult k d}
    (h : gpa true sources target w0 initScale maxIter ws = some r) (a : Fin k)
    (hw : SimWitOK (r.state.sims a) (sources a) (r.state.tgt n)) (Q : Mat d d) (hQ : IsOrth Q) :
    err2 (applyH (r.state.transform a) (sources a)) (r.state.tgt n) ≤
      err2 (applyH (simFit true (r.state.sims a).rT (r.state.sims a).rS Q (sources a) (r.state.tgt n)) (sources a))
        (r.state.tgt n) := by
  rw [gpa_transforms_are_alignments h a]
  obtain ⟨D, hD⟩ := hw.svd
  exact similarity_uses_ls_rotation_mirror _ _ _ _ hD Q hQ

theorem gpa_uses_ls_rotation_2d {n : ℕ} {sources : Fin k → Mat n 2} {target : Option (Mat n 2)}
    {w0 : Fin k → SimWit 2} {initScale : ℚ} {maxIter : ℕ} {ws : ℕ → GpaWit k 2} {r : GpaResult k 2}
    (h : gpa false sources target w0 initScale maxIter ws = some r) (a : Fin k)
    (hw : SimWitOK (r.state.sims a) (sources a) (r.state.tgt n)) (Q : Mat 2 2) (hQ : IsOrth Q) (hQd : det Q = 1) :
    err2 (applyH (r.state.transform a) (sources a)) (r.state.tgt n) ≤
      err2 (applyH (simFit true (r.state.sims a).rT (r.state.sims a).rS Q (sources a) (r.state.tgt n)) (sources a))
        (r.state.tgt n) := by
  rw [gpa_transforms_are_alignments h a]
  obtain ⟨D, hD⟩ := hw.svd
  exact similarity_uses_ls_rotation_2d _ _ _ _ hD Q hQ hQd

theorem gpa_uses_ls_rotation_3d {n : ℕ} {sources : Fin k → Mat n 3} {target : Option (Mat n 3)}
    {w0 : Fin k → SimWit 3} {initScale : ℚ} {maxIter : ℕ} {ws : ℕ → GpaWit k 3} {r : GpaResult k 3}
    (h : gpa false sources target w0 initScale maxIter ws = some r) (a : Fin k)
    (hw : SimWitOK (r.state.sims a) (sources a) (r.state.tgt n)) (Q : Mat 3 3) (hQ : IsOrth Q) (hQd : det Q = 1) :
    err2 (applyH (r.state.transform a) (sources a)) (r.state.tgt n) ≤
      err2 (applyH (simFit true (r.state.sims a).rT (r.state.sims a).rS Q (sources a) (r.state.tgt n)) (sources a))
        (r.state.tgt n) := by
  rw [gpa_transforms_are_alignments h a]
  obtain ⟨D, hD⟩ := hw.svd
  exact similarity_uses_ls_rotation_3d _ _ _ _ hD Q hQ hQd

/-- the linear part of a similarity alignment is `(rT/rS) · R` -/
theorem linPart_simFit_rot (rT rS : ℚ) (R : Mat d d) (S T : Mat n d) :
    linPart (simFit true rT rS R S T) = smul (rT / rS) R := by
  funext i j
  -- probe the map with the identity's columns: apply to the two point sets `0` and `e_j`
  have key : ∀ (P : Mat 1 d), applyH (simFit true rT rS R S T) P 0 i =
      (∑ l, (rT / rS * (P 0 l - centroid S l)) * R i l) + centroid T i := by
    intro P
    unfold simFit
    simp only [if_true]
    rw [applyH_mul _ _ (isAff_mul (isAff_rotationH _) (isAff_simP0 _ _)), applyH_mul _ _ (isAff_simP0 _ _),
      applyH_translation, applyH_rotation]
    simp only [mul, tr, sumF_eq]
    congr 1
    apply Finset.sum_congr rfl; intro l _
    unfold simP0
    rw [applyH_mul _ _ (isAff_mul (isAff_translationH _) isAff_one), applyH_mul _ _ isAff_one, applyH_one, applyH_scale,
      applyH_translation]
    simp only [negV]; ring
  have h0 := key (fun _ _ => 0)
  have h1 := key (fun _ l => if l = j then 1 else 0)
  simp only [applyH, sumF_eq] at h0 h1
  have e : (∑ l, (if l = j then (1 : ℚ) else 0) * linPart (simFit true rT rS R S T) i l) =
      linPart (simFit true rT rS R S T) i j := by simp
  have e0 : (∑ l : Fin d, (0 : ℚ) * linPart (simFit true rT rS R S T) i l) = 0 := by simp
  rw [e] at h1; rw [e0] at h0
  have e2 : (∑ l, (rT / rS * ((if l = j then (1 : ℚ) else 0) - centroid S l)) * R i l) =
      (∑ l, (rT / rS * ((0 : ℚ) - centroid S l)) * R i l) + rT / rS * R i j := by
    have : ∀ l, (rT / rS * ((if l = j then (1 : ℚ) else 0) - centroid S l)) * R i l =
        (rT / rS * ((0 : ℚ) - centroid S l)) * R i l + (if l = j then rT / rS * R i l else 0) := by
      intro l; split_ifs <;> ring
    simp only [this, Finset.sum_add_distrib, Finset.sum_ite_eq', Finset.mem_univ, if_true]
  rw [e2] at h1
  simp only [smul]
  linarith

/-- **no GPA transform is a reflection unless mirroring was allowed** (2-D): its linear part is a non-negative
multiple of a proper rotation -/
theorem gpa_no_reflection_2d {n : ℕ} {sources : Fin k → Mat n 2} {target : Option (Mat n 2)}
    {w0 : Fin k → SimWit 2} {initScale : ℚ} {maxIter : ℕ} {ws : ℕ → GpaWit k 2} {r : GpaResult k 2}
    (h : gpa false sources target w0 initScale maxIter ws = some r) (a : Fin k)
    (hw : SimWitOK (r.state.sims a) (sources a) (r.state.tgt n)) :
    ∃ R : Mat 2 2, IsOrth R ∧ det R = 1 ∧
      linPart (r.state.transform a) = smul ((r.state.sims a).rT / (r.state.sims a).rS) R := by
  obtain ⟨D, hD⟩ := hw.svd
  refine ⟨rotFit false (r.state.sims a).U (r.state.sims a).Vt, rotFit_isOrth _ hD.orthU hD.orthV,
    rotation_no_reflection_2d hD.orthU hD.orthV, ?_⟩
  rw [gpa_transforms_are_alignments h a]
  exact linPart_simFit_rot ..

theorem gpa_no_reflection_3d {n : ℕ} {sources : Fin k → Mat n 3} {target : Option (Mat n 3)}
    {w0 : Fin k → SimWit 3} {initScale : ℚ} {maxIter : ℕ} {ws : ℕ → GpaWit k 3} {r : GpaResult k 3}
    (h : gpa false sources target w0 initScale maxIter ws = some r) (a : Fin k)
    (hw : SimWitOK (r.state.sims a) (sources a) (r.state.tgt n)) :
    ∃ R : Mat 3 3, IsOrth R ∧ det R = 1 ∧
      linPart (r.state.transform a) = smul ((r.state.sims a).rT / (r.state.sims a).rS) R := by
  obtain ⟨D, hD⟩ := hw.svd
  refine ⟨rotFit false (r.state.sims a).U (r.state.sims a).Vt, rotFit_isOrth _ hD.orthU hD.orthV,
    rotation_no_reflection_3d hD.orthU hD.orthV, ?_⟩
  rw [gpa_transforms_are_alignments h a]
  exact linPart_simFit_rot ..

/-! #### the iteration itself: reported target, convergence test, iteration bound, mean and rescale -/

/-- without a given target GPA reports the common target of its transforms -/
theorem gpa_reported_target_none {mirror : Bool} {sources : Fin k → Mat n d}
    {w0 : Fin k → SimWit d} {initScale : ℚ} {maxIter : ℕ} {ws : ℕ → GpaWit k d} {r : GpaResult k d}
    (h : gpa mirror sources none w0 initScale maxIter ws = some r) : r.reported = r.state.target := by
  unfold gpa at h
  split_ifs at h
  simp only [Option.some.injEq] at h
  subst h; rfl

/-- with a given target GPA reports *that* target (the transforms are aligned to `r.state.target`, which in general
is a different point set: the last rescaled mean) -/
theorem gpa_reported_target_some {mirror : Bool} {sources : Fin k → Mat n d} (t : Mat n d)
    {w0 : Fin k → SimWit d} {initScale : ℚ} {maxIter : ℕ} {ws : ℕ → GpaWit k d} {r : GpaResult k d}
    (h : gpa mirror sources (some t) w0 initScale maxIter ws = some r) : (ofArr r.reported : Mat n d) = t := by
  unfold gpa at h
  split_ifs at h
  simp only [Option.some.injEq] at h
  subst h
  simp only [ofArr_toArr]

/-- `converged = True` means what it says: the rescaled mean of the aligned sources is within `1e-6` of the target
the transforms are aligned to -/
theorem gpaRec_converged_spec (mirror : Bool) (sources : Fin k → Mat n d) (initScale : ℚ) (ws : ℕ → GpaWit k d) :
    ∀ (fuel : ℕ) (st : GpaState k d),
      (gpaRec mirror sources initScale ws fuel st).converged = true →
      err2 ((gpaRec mirror sources initScale ws fuel st).tgt n)
        (ofArr (gpaNewTarget sources initScale (ws (gpaRec mirror sources initScale ws fuel st).nIter).newNorm
          (gpaRec mirror sources initScale ws fuel st).transform) : Mat n d) < gpaTol2 := by
  intro fuel
  induction fuel with
  | zero => intro st h; simp [gpaRec] at h
  | succ f ih =>
    intro st
    unfold gpaRec
    dsimp only
    split_ifs with hc
    · intro _; exact hc
    · intro h; exact ih _ h

/-- `converged = False` only on the `n_iterations > max_iterations` exit -/
theorem gpaRec_not_converged_spec (mirror : Bool) (sources : Fin k → Mat n d) (initScale : ℚ) (ws : ℕ → GpaWit k d) :
    ∀ (fuel : ℕ) (st : GpaState k d),
      (gpaRec mirror sources initScale ws fuel st).converged = false →
      (gpaRec mirror sources initScale ws fuel st).nIter = st.nIter + fuel := by
  intro fuel
  induction fuel with
  | zero => intro st _; simp [gpaRec]
  | succ f ih =>
    intro st
    unfold gpaRec
    dsimp only
    split_ifs with hc
    · intro h; simp at h
    · intro h; rw [ih _ h]; simp only []; omega

theorem gpaRec_nIter_le (mirror : Bool) (sources : Fin k → Mat n d) (initScale : ℚ) (ws : ℕ → GpaWit k d) :
    ∀ (fuel : ℕ) (st : GpaState k d),
      st.nIter ≤ (gpaRec mirror sources initScale ws fuel st).nIter ∧
      (gpaRec mirror sources initScale ws fuel st).nIter ≤ st.nIter + fuel := by
  intro fuel
  induction fuel with
  | zero => intro st; simp [gpaRec]
  | succ f ih =>
    intro st
    unfold gpaRec
    dsimp only
    split_ifs with hc
    · simp
    · have := ih { transforms := gpaFitAll mirror sources (ws st.nIter).sims
                      (ofArr (gpaNewTarget sources initScale (ws st.nIter).newNorm st.transform) : Mat n d)
                   target := gpaNewTarget sources initScale (ws st.nIter).newNorm st.transform
                   nIter := st.nIter + 1, converged := false, sims := (ws st.nIter).sims }
      dsimp only at this
      omega

theorem gpa_converged_spec {mirror : Bool} {sources : Fin k → Mat n d} {target : Option (Mat n d)}
    {w0 : Fin k → SimWit d} {initScale : ℚ} {maxIter : ℕ} {ws : ℕ → GpaWit k d} {r : GpaResult k d}
    (h : gpa mirror sources target w0 initScale maxIter ws = some r) (hc : r.state.converged = true) :
    err2 (r.state.tgt n)
      (ofArr (gpaNewTarget sources initScale (ws r.state.nIter).newNorm r.state.transform) : Mat n d) < gpaTol2 := by
  unfold gpa at h
  split_ifs at h
  simp only [Option.some.injEq] at h
  subst h
  exact gpaRec_converged_spec mirror sources initScale ws maxIter _ hc

theorem gpa_not_converged_spec {mirror : Bool} {sources : Fin k → Mat n d} {target : Option (Mat n d)}
    {w0 : Fin k → SimWit d} {initScale : ℚ} {maxIter : ℕ} {ws : ℕ → GpaWit k d} {r : GpaResult k d}
    (h : gpa mirror sources target w0 initScale maxIter ws = some r) (hc : r.state.converged = false) :
    r.state.nIter = maxIter + 1 := by
  unfold gpa at h
  split_ifs at h
  simp only [Option.some.injEq] at h
  subst h
  rw [gpaRec_not_converged_spec mirror sources initScale ws maxIter _ hc]
  show 1 + maxIter = maxIter + 1
  omega

theorem gpaRec_nIter_from_one (mirror : Bool) (sources : Fin k → Mat n d) (initScale : ℚ) (ws : ℕ → GpaWit k d)
    (fuel : ℕ) (st : GpaState k d) (h1 : st.nIter = 1) :
    1 ≤ (gpaRec mirror sources initScale ws fuel st).nIter ∧
      (gpaRec mirror sources initScale ws fuel st).nIter ≤ fuel + 1 := by
  have := gpaRec_nIter_le mirror sources initScale ws fuel st
  omega

theorem gpa_nIter_le {mirror : Bool} {sources : Fin k → Mat n d} {target : Option (Mat n d)}
    {w0 : Fin k → SimWit d} {initScale : ℚ} {maxIter : ℕ} {ws : ℕ → GpaWit k d} {r : GpaResult k d}
    (h : gpa mirror sources target w0 initScale maxIter ws = some r) :
    1 ≤ r.state.nIter ∧ r.state.nIter ≤ maxIter + 1 := by
  unfold gpa at h
  split_ifs at h
  simp only [Option.some.injEq] at h
  subst h
  exact gpaRec_nIter_from_one mirror sources initScale ws maxIter _ rfl

theorem applyH_scaleAboutCentre (P : Mat n d) (s : ℚ) (i : Fin n) (j : Fin d) :
    applyH (scaleAboutCentreH P s) P i j = s * (P i j - centroid P j) + centroid P j := by
  unfold scaleAboutCentreH
  rw [applyH_mul _ _ (isAff_mul (isAff_scaleH _) (isAff_translationH _)), applyH_mul _ _ (isAff_translationH _),
    applyH_translation, applyH_scale, applyH_translation]
  simp only [negV]; ring

/-- the rescaling step keeps the centroid of the mean shape … -/
theorem scaleAboutCentre_centroid (hn : n ≠ 0) (P : Mat n d) (s : ℚ) :
    centroid (applyH (scaleAboutCentreH P s) P) = centroid P := by
  have hn' : (n : ℚ) ≠ 0 := Nat.cast_ne_zero.2 hn
  funext j
  rw [centroid_eq]
  simp only [applyH_scaleAboutCentre, Finset.sum_add_distrib, ← Finset.mul_sum, centroid_centred hn P j,
    Finset.sum_const, Finset.card_univ, Fintype.card_fin, nsmul_eq_mul]
  field_simp
  ring

/-- … and multiplies its size by the factor -/
theorem scaleAboutCentre_norm2 (hn : n ≠ 0) (P : Mat n d) (s : ℚ) :
    norm2 (applyH (scaleAboutCentreH P s) P) = s * s * norm2 P := by
  simp only [norm2, frob2_sum, centred, scaleAboutCentre_centroid hn, applyH_scaleAboutCentre, Finset.mul_sum]
  exact Finset.sum_congr rfl fun i _ => Finset.sum_congr rfl fun j _ => by ring

/-- **the new target of every pass has the centroid of the mean aligned source** -/
theorem gpaNewTarget_centroid (hn : n ≠ 0) (sources : Fin k → Mat n d) (s nn : ℚ) (trs : Fin k → HMat d) :
    centroid (ofArr (gpaNewTarget sources s nn trs) : Mat n d) =
      centroid (meanPts fun a => applyH (trs a) (sources a)) := by
  rw [ofArr_gpaNewTarget, scaleAboutCentre_centroid hn]

/-- **the new target of every pass has the size of the initial target** (`norm` contract for the two norms) -/
theorem gpaNewTarget_size (hn : n ≠ 0) (sources : Fin k → Mat n d) (t0 : Mat n d) (s nn : ℚ) (trs : Fin k → HMat d)
    (hs : s * s = norm2 t0) (hnn : nn * nn = norm2 (meanPts fun a => applyH (trs a) (sources a))) (hnn0 : nn ≠ 0) :
    norm2 (ofArr (gpaNewTarget sources s nn trs) : Mat n d) = norm2 t0 := by
  rw [ofArr_gpaNewTarget, scaleAboutCentre_norm2 hn, ← hnn, ← hs]
  field_simp

end Gpa

/-! ### non-vacuity of the extension theorems -/

section ExamplesExt

/-- a zero-size source (three coinciding points): no finite uniform scale / similarity -/
def exS0 : Mat 3 2 := fun _ j => if j = 0 then 1 else 2
example : norm2 exS0 = 0 := by decide +kernel
example : (fitScaleE 5 0 : Option (HMat 2)) = none := by decide +kernel
example : (fitScaleE 4 2 : Option (HMat 2)).isSome = true := by decide +kernel
/-- a zero-size target with a proper source is fine: everything is sent to the target point -/
example : applyH (simFit true 0 2 one exS3 (fun _ j => if j = 0 then 1 else 2)) exS3 = fun _ j => if j = 0 then 1 else 2 :=
  zero_size_target_collapses true 0 2 one exS3 _ (by decide +kernel) (by decide +kernel)

/-- TPS: the 4-point system of `exK`/`exS4` is invertible, and an affine image of the source is fitted -/
def exH0 : HMat 2 := fun i j => ((#[#[(2:Rat),-1,3],#[1/2,3,-4],#[0,0,1]] : Array (Array Rat)).getD i.val #[]).getD j.val 0
example : (solveChecked (tpsL exK exS4) (one : Mat 7 7)).isSome = true := by decide +kernel
example : (tpsFit exK exS4 (applyH exH0 exS4)).isSome = true := by decide +kernel
example : ∃ coef Li, tpsFit exK exS4 (applyH exH0 exS4) = some coef ∧ mul (tpsL exK exS4) Li = one ∧
    ∀ i : Fin 4, ∀ c, coef (Fin.castAdd 3 i) c = 0 := by
  have h1 : (tpsFit exK exS4 (applyH exH0 exS4)).isSome = true := by decide +kernel
  have h2 : (solveChecked (tpsL exK exS4) (one : Mat 7 7)).isSome = true := by decide +kernel
  obtain ⟨coef, hc⟩ := Option.isSome_iff_exists.1 h1
  obtain ⟨Li, hL⟩ := Option.isSome_iff_exists.1 h2
  exact ⟨coef, Li, hc, solveChecked_spec hL, fun i c => tps_affine_no_bending exK exS4 exH0 coef hc Li (solveChecked_spec hL) i c⟩

/-- TPS as coded, nothing dropped: three landmarks whose rows `(1, x, y)` are orthogonal with rational lengths and
a zero kernel block give a 6×6 system with an exact rational SVD (singular values 3, 3, 3/2, 3/2, 3/2, 3/2) -/
def exS5 : Mat 3 2 := fun i j => ((#[#[(2:Rat),2],#[1/2,-1],#[-1,1/2]] : Array (Array Rat)).getD i.val #[]).getD j.val 0
def exK0 : Mat 3 3 := fun _ _ => 0
def exU6 : Mat 6 6 := fun i j => ((#[#[(1:Rat),0,0,0,0,0],#[(0:Rat),0,1,0,0,0],#[(0:Rat),0,0,1,0,0],#[(0:Rat),1/3,0,0,2/3,2/3],#[(0:Rat),2/3,0,0,1/3,-2/3],#[(0:Rat),2/3,0,0,-2/3,1/3]] : Array (Array Rat)).getD i.val #[]).getD j.val 0
def exVt6 : Mat 6 6 := fun i j => ((#[#[(0:Rat),0,0,1/3,2/3,2/3],#[(1:Rat),0,0,0,0,0],#[(0:Rat),0,0,2/3,1/3,-2/3],#[(0:Rat),0,0,2/3,-2/3,1/3],#[(0:Rat),1,0,0,0,0],#[(0:Rat),0,1,0,0,0]] : Array (Array Rat)).getD i.val #[]).getD j.val 0
def exs6 : Vec 6 := fun i => (#[(3:Rat),3,3/2,3/2,3/2,3/2] : Array Rat).getD i.val 0
def exT5 : Mat 3 2 := fun i j => ((#[#[(5:Rat),-1],#[0,7],#[2,2]] : Array (Array Rat)).getD i.val #[]).getD j.val 0

example : SvdOK (tpsL exK0 exS5) exU6 exs6 exVt6 := svdContractB_sound (by decide +kernel)
example : ∀ i : Fin 3, tpsApply (tpsFitSvd exU6 exs6 exVt6 (1/10000) exT5) (exK0 i) (exS5 i 0) (exS5 i 1) = exT5 i :=
  tps_svd_interpolates exK0 exS5 exT5 exU6 exVt6 exs6 (1/10000) (by norm_num) (svdContractB_sound (by decide +kernel))
    (tpsL_symm exK0 exS5 (fun _ _ => rfl)) (by decide +kernel)
/-- …and with a (much) larger threshold the four directions of size 3/2 are dropped: `keep = 2`, the kept values
are non-zero, and `tps_svd_miss` describes what is lost -/
example : tpsKeep exs6 2 = 2 := by decide +kernel
example : msub (tpsY exT5) (mul (tpsL exK0 exS5) (tpsFitSvd exU6 exs6 exVt6 2 exT5)) =
    mul (tr exVt6) (mul (diagV (fun i => 1 - keepMask (tpsKeep exs6 2) i)) (mul exVt6 (tpsY exT5))) :=
  tps_svd_miss exK0 exS5 exT5 exU6 exVt6 exs6 2 (svdContractB_sound (by decide +kernel))
    (tpsL_symm exK0 exS5 (fun _ _ => rfl)) (by decide +kernel)

/-- the conformity certificate holds on the two-triangle square, and fails when a third triangle overlaps them -/
example : pwaCertB exSrc exTris = true := by decide +kernel
example : pwaCertB exSrc ((0, 1, 3) :: exTris) = false := by decide +kernel
/-- … so on that square every point of the closed triangle `(0,1,2)` — here a point of the shared diagonal — is mapped
by that triangle's affine map -/
example : pwaApply exSrc exTgt exTris (lerp (1/4) (exSrc 1) (exSrc 2)) =
    some (triMap exSrc exTgt (0, 1, 2) (lerp (1/4) (exSrc 1) (exSrc 2))) :=
  pwa_affine_on_closed_triangle exSrc exTgt exTris (by decide +kernel) (0, 1, 2) (by simp [exTris]) _ (by decide +kernel)

/-- PWA recovery is applicable: `exTgt'` is an affine image of `exSrc` on the two-triangle square -/
def exTgtA : ℕ → V2 := fun i => affV2 2 (-1) (1/2) 3 5 (-4) (exSrc i)
example : pwaApply exSrc exTgtA exTris ⟨1/4, 1/2⟩ = some (affV2 2 (-1) (1/2) 3 5 (-4) ⟨1/4, 1/2⟩) := by decide +kernel

/-- GPA: two sources, `exT3` is the image of `exS3` under "rotate by 90°, scale by 2, translate by (5,1)"; with
`exT3` as the given target both first alignments are exact, the rescaled mean *is* the target and the very first
convergence test succeeds.  All externals' answers are exact rationals. -/
def exRot90 : Mat 2 2 := fun i j => ((#[#[(0:Rat),-1],#[1,0]] : Array (Array Rat)).getD i.val #[]).getD j.val 0
def exGpaSources : Fin 2 → Mat 4 2 := fun a => if a.val = 0 then exS3 else exT3
def exGpaW0 : Fin 2 → SimWit 2 := fun a => if a.val = 0 then ⟨4, 2, exRot90, one⟩ else ⟨4, 4, one, one⟩
def exGpaWs : ℕ → GpaWit 2 2 := fun _ => ⟨4, exGpaW0⟩
def exD8 : Vec 2 := fun _ => 8

example : ((gpa false exGpaSources (some exT3) exGpaW0 4 100 exGpaWs).map fun r => (r.state.converged, r.state.nIter)) =
    some (true, 1) := by decide +kernel
/-- the contract hypothesis `SimWitOK` is satisfiable: these are the externals' exact answers for both sources -/
example : SimWitOK (exGpaW0 0) (exGpaSources 0) exT3 :=
  ⟨by decide +kernel, by decide +kernel, by decide +kernel, exD8, svdContractB_sound (by decide +kernel)⟩
example : SimWitOK (exGpaW0 1) (exGpaSources 1) exT3 :=
  ⟨by decide +kernel, by decide +kernel, by decide +kernel, exD8, svdContractB_sound (by decide +kernel)⟩
/-- the other exit: no given target and `max_iterations = 1`: the plain mean of the two sources is not yet the
rescaled mean of the aligned sources, the first test fails, the transforms are re-targeted, and the second pass hits
`n_iterations > max_iterations`: not converged, `n_iterations = 2` (with one more pass allowed it converges) -/
example : ((gpa false exGpaSources none exGpaW0 3 1 exGpaWs).map fun r => (r.state.converged, r.state.nIter)) =
    some (false, 2) := by decide +kernel
example : ((gpa false exGpaSources none exGpaW0 3 2 exGpaWs).map fun r => (r.state.converged, r.state.nIter)) =
    some (true, 2) := by decide +kernel
/-- the `ValueError`: one source and no target -/
example : (gpa false (fun _ : Fin 1 => exS3) none (fun _ => default) 1 100 (fun _ => default)).isNone = true := by
  decide +kernel

end ExamplesExt

end MenpoModel.C07
