/-
C03 — `TransformChain._apply` as coded (a `reduce` over the members, each of which applies itself,
recursively through nested chains) is the application of the flattened leaves in order — the
denotation all composition laws of `Props/C03Base.lean` are stated in.
-/
import MenpoModel.Props.C03Base

namespace MenpoModel.C03

theorem applyMembers_eq (tbl : ClassTable) (env : Nat → Pt → Option Pt)
    (g : Nat → Pt → Option Pt) (h : Nat → Option (List Leaf))
    (ms : List Nat) (hm : ∀ m ∈ ms, ∀ x, g m x = (h m).bind fun ls => applyLeaves tbl env ls x) :
    ∀ x, applyMembers g ms x = (flatMembers h ms).bind fun ls => applyLeaves tbl env ls x := by
  induction ms with
  | nil => intro x; simp [applyMembers, flatMembers, applyLeaves]
  | cons m ms ih =>
    intro x
    have ih' := ih (fun m' hm' => hm m' (by simp [hm']))
    simp only [applyMembers, flatMembers, hm m (by simp)]
    cases h1 : h m with
    | none => simp
    | some l =>
      cases h2 : flatMembers h ms with
      | none =>
        simp only [Option.bind_some]
        cases applyLeaves tbl env l x with
        | none => rfl
        | some y => simp [ih' y, h2]
      | some ls =>
        simp only [Option.bind_some, applyLeaves_append]
        cases applyLeaves tbl env l x with
        | none => rfl
        | some y => simp [ih' y, h2]

/-- PROPERTY (a chain applies its members in order, nested chains included): for every store, every
object and every fuel, `_apply` as coded — `reduce` over `self.transforms`, recursively — equals
applying the flattened list of leaves one after the other; both are undefined together (a member
that raises, a reference that dangles, nesting deeper than the fuel, a chain that contains
itself). -/
theorem applyRef_eq_flat (env : Nat → Pt → Option Pt) (st : Store) :
    ∀ (f r : Nat) (x : Pt),
      applyRef E env st f r x = (flat st f r).bind fun ls => applyLeaves E env ls x := by
  intro f
  induction f with
  | zero => intro r x; rfl
  | succ f ih =>
    intro r x
    simp only [applyRef, flat]
    cases hc : st[r]? with
    | none => rfl
    | some c =>
      cases c with
      | fam d t =>
        simp only [Option.bind_some, applyLeaves, applyLeaf]
        cases applyFam E t x <;> rfl
      | leaf p =>
        simp only [Option.bind_some, applyLeaves]
        cases applyLeaf E env (.plain p) x <;> rfl
      | chain ms =>
        exact applyMembers_eq E env _ _ ms (fun m _ y => ih m y) x

/-- a chain holding the same member twice applies it twice; an in-place edit of the member is seen
at both positions -/
example :
    let st : Store := [.fam 2 exTrans, .chain [0, 0], .chain [1, 0]]
    applyRef E (fun _ _ => none) st 3 2 [0, 0] = some [3, -6] ∧
    (let st' := runStmts E st [.inplace .before 0 0]
     applyRef E (fun _ _ => none) st' 3 2 [0, 0] = some [6, -12]) := by
  decide +kernel

end MenpoModel.C03
