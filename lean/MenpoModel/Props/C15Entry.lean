/-
C15 — the public entry points: `labeller_func`'s wrapper (every input kind takes the same path; what
`return_mapping` changes) and `labeller()` (the group-relabelling entry point on a landmark manager): it leaves
the source group and every other group untouched and writes exactly the new group.  Core Lean only.
-/
import MenpoModel.Core.C15Entry
import MenpoModel.Props.C15Lab

namespace MenpoModel.C15

/-! ### `labeller_func.wrapper` -/

/-- (a restatement of the DEFINITION of `LabFunc.call`, which reads only `x.pts` — it holds by `rfl` and is not a
property theorem; that the real wrapper treats every input kind alike is `GenProps.Src.wrapper_eq`, about the translated
source, and the regenerated `resolution_ok` rows) an array, a point cloud, a labelled graph and a manager group with the
same points are labelled identically by the model -/
theorem call_kind_independent {α} (f : LabFunc) (x y : LabIn α) (rm : Bool) (h : x.pts = y.pts) :
    f.call x rm = f.call y rm := by
  unfold LabFunc.call
  cases hx : x.kind <;> cases hy : y.kind <;> simp only [h]

theorem call_eq {α} (f : LabFunc) (x : LabIn α) (rm : Bool) :
    f.call x rm = (f.table.apply x.pts).map fun g =>
      { cls := f.cls, g := g, mapping := if rm then some f.table.labels else none } := by
  unfold LabFunc.call
  cases x.kind <;> (simp only; cases f.table.apply x.pts <;> rfl)

/-- **size validation and result of the wrapper, per option**: an input of another size than the table's is
refused with `LabellingError` before anything is built; an input of the expected size is accepted; the labelled
object is the same with and without `return_mapping`, its class is the labeller's, and the mapping returned is the
table's label → index lists -/
theorem call_spec {α} (f : LabFunc) (x : LabIn α) (rm : Bool) :
    (x.pts.length ≠ f.table.nExpected → f.call x rm = .error .labelling) ∧
    (x.pts.length = f.table.nExpected → ∃ g, f.table.apply x.pts = .ok g ∧
      f.call x rm = .ok { cls := f.cls, g := g, mapping := if rm then some f.table.labels else none }) ∧
    (f.call x true).map (fun o => (o.cls, o.g)) = (f.call x false).map (fun o => (o.cls, o.g)) := by
  refine ⟨?_, ?_, ?_⟩
  · intro h
    rw [call_eq, (labeller_size f.table x.pts).1 h]; rfl
  · intro h
    obtain ⟨g, hg⟩ := (labeller_size f.table x.pts).2 h
    exact ⟨g, hg, by rw [call_eq, hg]; rfl⟩
  · rw [call_eq, call_eq]
    cases f.table.apply x.pts <;> rfl

/-! ### the manager's ordered dict -/

theorem getGroup_setGroup {α} (gs : List (String × Shape α)) (k k' : String) (v : Shape α) :
    getGroup (setGroup gs k v) k' = if k' = k then some v else getGroup gs k' := by
  induction gs with
  | nil =>
    simp only [setGroup, getGroup]
    by_cases h : k' = k
    · subst h; simp
    · have : ¬ k = k' := fun hc => h hc.symm
      simp [h, this]
  | cons p ps ih =>
    obtain ⟨a, b⟩ := p
    simp only [setGroup]
    by_cases hak : a = k
    · subst hak
      simp only [beq_self_eq_true, if_true, getGroup]
      by_cases h : k' = a
      · subst h; simp
      · have : ¬ a = k' := fun hc => h hc.symm
        simp [h, this]
    · simp only [beq_iff_eq, hak, if_false, getGroup, ih]
      by_cases h : a = k'
      · subst h; simp [hak]
      · simp [h]

theorem keys_setGroup {α} (gs : List (String × Shape α)) (k : String) (v : Shape α) :
    (setGroup gs k v).map Prod.fst = if k ∈ gs.map Prod.fst then gs.map Prod.fst else gs.map Prod.fst ++ [k] := by
  induction gs with
  | nil => simp [setGroup]
  | cons p ps ih =>
    obtain ⟨a, b⟩ := p
    simp only [setGroup]
    by_cases hak : a = k
    · subst hak; simp
    · have hka : ¬ k = a := fun hc => hak hc.symm
      simp only [beq_iff_eq, hak, if_false, List.map_cons, ih, List.mem_cons, hka, false_or]
      split <;> simp

theorem mem_setGroup {α} {gs : List (String × Shape α)} {k : String} {v : Shape α} {p : String × Shape α}
    (h : p ∈ setGroup gs k v) : p = (k, v) ∨ p ∈ gs := by
  induction gs with
  | nil => simp only [setGroup, List.mem_singleton] at h; exact Or.inl h
  | cons q qs ih =>
    obtain ⟨a, b⟩ := q
    simp only [setGroup] at h
    split at h
    · rename_i hak
      simp only [beq_iff_eq] at hak
      subst hak
      rcases List.mem_cons.mp h with h | h
      · exact Or.inl h
      · exact Or.inr (List.mem_cons_of_mem _ h)
    · rcases List.mem_cons.mp h with h | h
      · exact Or.inr (h ▸ List.mem_cons_self)
      · rcases ih h with h | h
        · exact Or.inl h
        · exact Or.inr (List.mem_cons_of_mem _ h)

theorem getGroup_mem {α} {gs : List (String × Shape α)} {k : String} {v : Shape α} (h : getGroup gs k = some v) :
    (k, v) ∈ gs := by
  induction gs with
  | nil => cases h
  | cons p ps ih =>
    obtain ⟨a, b⟩ := p
    simp only [getGroup] at h
    split at h
    · rename_i hak
      simp only [beq_iff_eq] at hak
      injection h with h
      subst hak; subst h
      exact List.mem_cons_self
    · exact List.mem_cons_of_mem _ (ih h)

theorem getItem_mem {α} {m : Manager α} {grp : Option String} {s : Shape α} (h : m.getItem grp = .ok s) :
    ∃ k, (k, s) ∈ m.groups ∧ m.get k = some s ∧ (∀ k', grp = some k' → k' = k) := by
  cases grp with
  | none =>
    simp only [Manager.getItem] at h
    cases hg : m.groups with
    | nil => rw [hg] at h; cases h
    | cons p ps =>
      cases ps with
      | nil =>
        obtain ⟨k, v⟩ := p
        rw [hg] at h
        injection h with h
        subst h
        exact ⟨k, List.mem_cons_self, by simp [Manager.get, hg, getGroup], fun _ hc => by cases hc⟩
      | cons q qs => rw [hg] at h; cases h
  | some k =>
    simp only [Manager.getItem] at h
    cases hv : m.get k with
    | none => rw [hv] at h; cases h
    | some v =>
      rw [hv] at h
      injection h with h
      subst h
      exact ⟨k, getGroup_mem hv, hv, fun k' hk' => by injection hk' with hk'; exact hk'.symm⟩

/-- under `ManagerWF` the dimensionality check of `__setitem__` cannot fire for a group derived from a group of
the manager (the labellers only re-index: the points keep their dimensionality) -/
theorem setItem_ok {α} (m : Manager α) (_hwf : ManagerWF m) (k : String) (v : Shape α)
    (hd : ∀ p ∈ m.groups, v.dim = p.2.dim) (hc : v.cls ≠ .other) :
    m.setItem k v = .ok { groups := setGroup m.groups k v } := by
  unfold Manager.setItem Manager.nDims
  have hcb : (v.cls == OutCls.other) = false := by
    cases hv : v.cls <;> simp_all
  cases hg : m.groups with
  | nil => simp [hcb]
  | cons p ps =>
    have := hd p (by rw [hg]; exact List.mem_cons_self)
    simp [this, hcb]

/-! ### `labeller()` -/

/-- **what a successful `labeller()` call does**: it read a group `s` of the manager (the named one, or the only
one for `None`), labelled its points with the table — input of the expected size — and the manager afterwards
differs from the one before in exactly one key, the labeller's `group_label`, which now holds the labelled result;
every other key holds what it held, the keys keep their order, a new key is appended -/
theorem relabel_spec {α} {m m' : Manager α} {grp : Option String} {f : LabFunc}
    (h : relabel m grp f = .ok m') :
    ∃ s g, m.getItem grp = .ok s ∧ s.g.pts.length = f.table.nExpected ∧ f.table.apply s.g.pts = .ok g ∧
      m'.get f.groupLabel = some { dim := s.dim, cls := f.cls, g := storedGraph f.cls g } ∧
      (∀ k, k ≠ f.groupLabel → m'.get k = m.get k) ∧
      m'.keys = (if f.groupLabel ∈ m.keys then m.keys else m.keys ++ [f.groupLabel]) := by
  unfold relabel at h
  split at h
  · cases h
  · rename_i s hs
    rw [call_eq] at h
    cases hg : f.table.apply s.g.pts with
    | error e => simp [hg, Except.map] at h
    | ok g =>
      simp only [hg, Except.map] at h
      unfold Manager.setItem at h
      have hlen : s.g.pts.length = f.table.nExpected := by
        apply Classical.byContradiction
        intro hne
        rw [(labeller_size f.table s.g.pts).1 hne] at hg
        cases hg
      have fin : ∀ {r : Except Err (Manager α)}, r = .ok m' →
          r = .ok { groups := setGroup m.groups f.groupLabel { dim := s.dim, cls := f.cls, g := storedGraph f.cls g } } →
          m'.get f.groupLabel = some { dim := s.dim, cls := f.cls, g := storedGraph f.cls g } ∧
          (∀ k, k ≠ f.groupLabel → m'.get k = m.get k) ∧
          m'.keys = (if f.groupLabel ∈ m.keys then m.keys else m.keys ++ [f.groupLabel]) := by
        intro r h1 h2
        rw [h1] at h2
        injection h2 with h2
        subst h2
        refine ⟨by simp [Manager.get, getGroup_setGroup], ?_, keys_setGroup _ _ _⟩
        intro k hk
        simp [Manager.get, getGroup_setGroup, hk]
      refine ⟨s, g, hs, hlen, hg, ?_⟩
      split at h
      · split at h
        · cases h
        · split at h
          · cases h
          · exact fin h rfl
      · split at h
        · cases h
        · exact fin h rfl

/-- **the source group is left untouched**, as is every group other than the one named by the labeller's
`group_label` -/
theorem relabel_source_untouched {α} {m m' : Manager α} {src : String} {f : LabFunc}
    (h : relabel m (some src) f = .ok m') (hne : src ≠ f.groupLabel) :
    m'.get src = m.get src ∧ ∀ k, k ≠ f.groupLabel → m'.get k = m.get k := by
  obtain ⟨_, _, _, _, _, _, hk, _⟩ := relabel_spec h
  exact ⟨hk src hne, hk⟩

/-- when the labeller's `group_label` *is* the key of the source group (`labeller(x, 'face_ibug_68',
face_ibug_68_to_face_ibug_68)`), the call replaces the group under that key by its labelled version — in place in
the key order — as it was asked to -/
theorem relabel_same_key {α} {m m' : Manager α} {f : LabFunc}
    (h : relabel m (some f.groupLabel) f = .ok m') :
    ∃ s g, m.get f.groupLabel = some s ∧ f.table.apply s.g.pts = .ok g ∧
      m'.get f.groupLabel = some { dim := s.dim, cls := f.cls, g := storedGraph f.cls g } ∧ m'.keys = m.keys := by
  obtain ⟨s, g, hs, _, hg, hnew, _, hkeys⟩ := relabel_spec h
  obtain ⟨k, hmem, hget, hk⟩ := getItem_mem hs
  have := hk _ rfl
  subst this
  refine ⟨s, g, hget, hg, hnew, ?_⟩
  rw [hkeys]
  have : f.groupLabel ∈ m.keys := List.mem_map.mpr ⟨_, hmem, rfl⟩
  simp [this]

/-- **every way `labeller()` raises** on a well-formed manager whose labeller builds a point-cloud class: the
group does not exist (`KeyError`), `None` is given for a manager that has not exactly one group (`ValueError`), the
group has the wrong number of points (`LabellingError`) — and nothing else; in particular `__setitem__`'s
dimensionality check never fires -/
theorem relabel_error_iff {α} (m : Manager α) (hwf : ManagerWF m) (grp : Option String) (f : LabFunc)
    (hcls : f.cls ≠ .other) (e : Err) :
    relabel m grp f = .error e ↔
      (m.getItem grp = .error e) ∨
      (∃ s, m.getItem grp = .ok s ∧ s.g.pts.length ≠ f.table.nExpected ∧ e = .labelling) := by
  unfold relabel
  cases hs : m.getItem grp with
  | error e' =>
    simp only
    constructor
    · intro h; injection h with h; subst h; exact Or.inl rfl
    · rintro (h | ⟨s, h, _⟩)
      · injection h with h; rw [h]
      · cases h
  | ok s =>
    simp only [call_eq]
    by_cases hlen : s.g.pts.length = f.table.nExpected
    · obtain ⟨g, hg⟩ := (labeller_size f.table s.g.pts).2 hlen
      obtain ⟨k, hmem, _, _⟩ := getItem_mem hs
      have hset := setItem_ok m hwf f.groupLabel { dim := s.dim, cls := f.cls, g := storedGraph f.cls g }
        (fun p hp => hwf.dims (k, s) hmem p hp) hcls
      simp only [hg, Except.map, hset]
      constructor
      · intro h; cases h
      · rintro (h | ⟨s', h, hne, _⟩)
        · cases h
        · injection h with h; subst h; exact absurd hlen hne
    · have hg := (labeller_size f.table s.g.pts).1 hlen
      simp only [hg, Except.map]
      constructor
      · intro h; injection h with h; subst h; exact Or.inr ⟨s, rfl, hlen, rfl⟩
      · rintro (h | ⟨s', _, _, rfl⟩)
        · cases h
        · rfl

/-- `labeller()` keeps the manager well formed -/
theorem relabel_wf {α} {m m' : Manager α} (hwf : ManagerWF m) {grp : Option String} {f : LabFunc}
    (hcls : f.cls ≠ .other) (h : relabel m grp f = .ok m') : ManagerWF m' := by
  obtain ⟨s, g, hs, hlen, hg, _, _, hkeys⟩ := relabel_spec h
  obtain ⟨k, hmem, _, _⟩ := getItem_mem hs
  have hm' : m' = { groups := setGroup m.groups f.groupLabel { dim := s.dim, cls := f.cls, g := storedGraph f.cls g } } := by
    have hset := setItem_ok m hwf f.groupLabel { dim := s.dim, cls := f.cls, g := storedGraph f.cls g }
      (fun p hp => hwf.dims (k, s) hmem p hp) hcls
    unfold relabel at h
    simp only [hs, call_eq, hg, Except.map, hset] at h
    injection h with h
    exact h.symm
  have hdim : ∀ p ∈ m'.groups, p.2.dim = s.dim := by
    intro p hp
    rw [hm'] at hp
    rcases mem_setGroup hp with rfl | hp
    · rfl
    · exact hwf.dims p hp (k, s) hmem
  refine ⟨?_, fun p hp q hq => by rw [hdim p hp, hdim q hq], ?_⟩
  · rw [hkeys]
    split
    · exact hwf.keys
    · rename_i hnot
      exact List.nodup_append.mpr ⟨hwf.keys, by simp, by
        intro a ha b hb; simp at hb; subst hb; rintro rfl; exact hnot ha⟩
  · intro p hp
    rw [hm'] at hp
    rcases mem_setGroup hp with rfl | hp
    · exact hcls
    · exact hwf.clss p hp

/-- **over any sequence of `labeller()` calls** (the history of a landmarkable): the manager stays well formed, a
key that is not the `group_label` of one of the labellers applied still holds exactly what it held at the start —
so the group a chain of re-labellings started from survives the whole chain untouched —, and no key is ever lost -/
theorem relabelMany_invariant {α} (ops : List (Option String × LabFunc)) :
    ∀ {m m' : Manager α}, ManagerWF m → (∀ p ∈ ops, p.2.cls ≠ .other) → relabelMany m ops = .ok m' →
      ManagerWF m' ∧ (∀ k, (∀ p ∈ ops, p.2.groupLabel ≠ k) → m'.get k = m.get k) ∧
      (∀ k ∈ m.keys, k ∈ m'.keys) := by
  induction ops with
  | nil =>
    intro m m' hwf _ h
    simp only [relabelMany] at h
    injection h with h
    subst h
    exact ⟨hwf, fun _ _ => rfl, fun _ hk => hk⟩
  | cons o os ih =>
    intro m m' hwf hcls h
    obtain ⟨grp, f⟩ := o
    simp only [relabelMany] at h
    split at h
    · cases h
    · rename_i m₁ hm₁
      have hf : f.cls ≠ .other := hcls (grp, f) List.mem_cons_self
      have hwf₁ := relabel_wf hwf hf hm₁
      obtain ⟨_, _, _, _, _, _, hk₁, hkeys₁⟩ := relabel_spec hm₁
      obtain ⟨hwf', hk', hkeys'⟩ := ih hwf₁ (fun p hp => hcls p (List.mem_cons_of_mem _ hp)) h
      refine ⟨hwf', ?_, ?_⟩
      · intro k hk
        rw [hk' k (fun p hp => hk p (List.mem_cons_of_mem _ hp))]
        exact hk₁ k (fun hc => hk (grp, f) List.mem_cons_self hc.symm)
      · intro k hk
        apply hkeys'
        rw [hkeys₁]
        split
        · exact hk
        · exact List.mem_append_left _ hk

/-! ### non-vacuity -/

def demoFunc : LabFunc := { name := "demo_5_to_demo_3", groupLabel := "demo_3", cls := .lgraph, table := demoLabeller }
def demoFunc2 : LabFunc :=
  { name := "demo_3_to_demo_2", groupLabel := "demo_2", cls := .trimesh,
    table := { nExpected := 3, ind := [2, 0], labels := [("z", [0, 1])], edges := [(0, 1)] } }

def demoMgr : Manager Nat :=
  { groups := [("PTS", { dim := 2, cls := .pointcloud, g := { pts := [10, 11, 12, 13, 14], edges := [], labels := [] } }),
               ("other", { dim := 2, cls := .pointcloud, g := { pts := [7], edges := [], labels := [] } })] }

theorem demoMgr_wf : ManagerWF demoMgr := ⟨by decide, by decide, by decide⟩

example : (relabel demoMgr (some "PTS") demoFunc).map (fun m => (m.keys, (m.get "demo_3").map fun s => s.g.pts)) =
    .ok (["PTS", "other", "demo_3"], some [14, 10, 12]) := by decide
example : (relabel demoMgr (some "PTS") demoFunc).map (fun m => m.get "PTS") = .ok (demoMgr.get "PTS") := by decide
example : relabel demoMgr (some "nope") demoFunc = .error .key := by decide
example : relabel demoMgr none demoFunc = .error .value := by decide
example : relabel demoMgr (some "other") demoFunc = .error .labelling := by decide
example : (relabelMany demoMgr [(some "PTS", demoFunc), (some "demo_3", demoFunc2)]).map
    (fun m => (m.keys, (m.get "demo_2").map fun s => (s.cls, s.g.pts), m.get "PTS" == demoMgr.get "PTS")) =
    .ok (["PTS", "other", "demo_3", "demo_2"], some (.trimesh, [12, 14]), true) := by decide
example : (demoFunc.call { kind := .ndarray, pts := [10, 11, 12, 13, 14] } true).map (fun o => o.mapping) =
    .ok (some [("x", [0, 1]), ("y", [1, 2])]) := by decide
example : demoFunc.call { kind := .lgraph, pts := [10, 11, 12, 13], edges := [(0, 1)], labels := [("all", [true, true, true, true])] } false
    = .error .labelling := by decide

end MenpoModel.C15
