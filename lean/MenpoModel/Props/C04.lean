/-
C04 — pseudoinverse really inverts; alignment inverses swap source and target.

The property theorems live in
  Props/C04Base.lean   the inverse of one object: homogeneous family (every class, every dimension), tcoords,
                       piecewise affine, thin plate splines
  Props/C04Ops.lean    objects with a previous life: operation sequences (mutators and queries in any order),
                       closure of every class under in-place composition, the inverse of the inverse
  Props/C04Mesh.lean   the executable triangulation certificate is sound: the hypotheses of the piecewise-affine round
                       trip are decided on every generated mesh; `index_alpha_beta`
  Props/C04Tps.lean    what the SVD-based solve of the spline computes (from numpy's raw SVD contract); the two
                       kernel classes define the same warp
  Props/C04Chain.lean  chains of any length: the reversed chain of pseudoinverses inverts the chain
and the obligations over the tables regenerated from the live classes in GenProps/C04.lean, over the pseudoinverse code
TRANSLATED FROM SOURCE on every run in GenProps/C04Src.lean (vocabulary: Core/C04Src.lean, lemmas: Lemmas/C04Src.lean).
-/
import MenpoModel.Props.C04Base
import MenpoModel.Props.C04Ops
import MenpoModel.Props.C04Mesh
import MenpoModel.Props.C04Tps
import MenpoModel.Props.C04Chain
