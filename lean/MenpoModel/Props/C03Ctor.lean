/-
C03 — where the operands of a composition come from: the constructors of the homogeneous family and
`init_identity` (model: `Core/C03Ctor.lean`; tie to the source: `GenProps/C03Src.lean`, which proves every
definition used here equal to the body translated from the source text of the working tree).

* `ctor_refusals`            exactly which arguments each constructor refuses
* `bottomClose_of_isAffine`, `ctor_tolerance_witness`   the bottom-row check is a tolerance: it lets through every exactly
                             affine matrix — and some that are not
* `ctor_honest_discrete`     what a constructor accepts really is of the class, exactly when … (Translation: always;
                             the scales: iff no factor is zero; Rotation: iff the matrix is orthogonal)
* `ctor_unchecked_witness`   … which the constructors do not check: honesty of the atoms is an assumption of the
                             composition theorems, not something the constructors provide
* `identity_neutral`         every `init_identity` really is the identity of its class, invertible, and neutral for
                             `compose_before` / `compose_after` on both sides
* `ladder_ctor_justified`, `ladder_ctor_refuses_other_dims`, `ana_ctor_justified`
                             the constructor calls inside `_compose_before/_after` and `as_non_alignment`, taken with
                             their checks, are the plain words the ladder model uses — in 2-D and 3-D on honest operands;
                             in other dimensions the checked calls raise
-/
import MenpoModel.Props.C03Base
import MenpoModel.Core.C03Ctor

namespace MenpoModel.C03
open MenpoModel.C03.Src
open Matrix

variable {d : Nat}

theorem closeTo_zero : closeTo 0 0 = true := by decide +kernel
theorem closeTo_one : closeTo 1 1 = true := by decide +kernel

/-- the tolerance check lets every exactly affine matrix through -/
theorem bottomClose_of_isAffine {M : Mat (d + 1)} (h : IsAffine M) : bottomClose M = true := by
  unfold bottomClose
  simp [h.1, h.2, closeTo_zero, closeTo_one]

/-- PROPERTY (which arguments the constructors refuse — nothing else is ever refused):
`Homogeneous(M)` never; `Affine(M)` / `Similarity(M)` exactly when checks are on and the matrix is not 2-D / 3-D or
its bottom row is not `[0 … 0 1]` within numpy's tolerances; `Rotation(R)` never, whatever square matrix it is given;
`Translation(t)`, `UniformScale(s, n)`, `NonUniformScale(v)` exactly when checks are on and the dimension is not 2 or
3.  What is accepted holds exactly the matrix the arguments describe. -/
theorem ctor_refusals (M : Mat (d + 1)) (R : Mat d) (t v : Vec d) (s : Rat) (skip : Bool) :
    ctorMat .Homogeneous M skip = .ok ⟨.Homogeneous, M⟩ ∧
    (∀ c, c = .Affine ∨ c = .Similarity →
      ctorMat c M skip = if skip = true ∨ ((d = 2 ∨ d = 3) ∧ bottomClose M = true) then .ok ⟨c, M⟩ else .error .shape) ∧
    (ctorRotation R).M = mkAffine R (zeroVec d) ∧
    (ctorTranslation t skip =
      if skip = true ∨ d = 2 ∨ d = 3 then .ok ⟨.Translation, mkAffine (Mat.one d) t⟩ else .error .shape) ∧
    (ctorUniformScale s d skip =
      if skip = true ∨ d = 2 ∨ d = 3 then .ok ⟨.UniformScale, mkAffine (scalarMat d s) (zeroVec d)⟩ else .error .shape) ∧
    (ctorNonUniformScale v skip =
      if skip = true ∨ d = 2 ∨ d = 3 then .ok ⟨.NonUniformScale, mkAffine (diagMat v) (zeroVec d)⟩ else .error .shape) := by
  refine ⟨rfl, ?_, rfl, ?_, ?_, ?_⟩
  · rintro c (rfl | rfl) <;> simp [ctorMat, affineChecks]
  · simp [ctorTranslation, or_assoc]
  · simp [ctorUniformScale, or_assoc]
  · simp [ctorNonUniformScale, or_assoc]

/-- a matrix that is not affine and passes the bottom-row check -/
def nearAffine : Mat 3 := Mat.ofList 3 [1, 0, 0, 0, 1, 0, 1 / 1000000000, 0, 1]

/-- WITNESS (the check is a tolerance): `Affine(nearAffine)` is accepted with checks on although its bottom row is not
`[0 0 1]` — "is an `Affine`" for an atom is up to 1e-8, which is why the honesty of atoms is an explicit hypothesis of
the composition theorems and the generators use exact bottom rows. -/
theorem ctor_tolerance_witness :
    ctorMat .Affine nearAffine false = .ok ⟨.Affine, nearAffine⟩ ∧ ¬ IsAffine nearAffine := by
  constructor
  · have : affineChecks nearAffine = true := by decide +kernel
    simp [ctorMat, this]
  · intro h
    have := h.1 (0 : Fin 2)
    revert this
    decide +kernel

theorem inv_translation (t : Vec d) : Inv .Translation (mkAffine (Mat.one d) t) :=
  ⟨isAffine_mkAffine _ _, by simp only [linM, lin_mkAffine]; exact toM_one⟩

theorem inv_uniformScale_iff (s : Rat) (hd : 0 < d) :
    Inv .UniformScale (mkAffine (scalarMat d s) (zeroVec d)) ↔ s ≠ 0 := by
  constructor
  · rintro ⟨_, _, s', hs', hl⟩
    simp only [linM, lin_mkAffine, toM_scalar] at hl
    have := congrFun (congrFun hl ⟨0, hd⟩) ⟨0, hd⟩
    simp at this
    rw [this]; exact hs'
  · intro hs
    refine ⟨isAffine_mkAffine _ _, by simp only [trans_mkAffine]; rfl, s, hs, ?_⟩
    simp only [linM, lin_mkAffine, toM_scalar]

theorem inv_nonUniformScale_iff (v : Vec d) :
    Inv .NonUniformScale (mkAffine (diagMat v) (zeroVec d)) ↔ ∀ i, v i ≠ 0 := by
  constructor
  · rintro ⟨_, _, w, hw, hl⟩ i
    simp only [linM, lin_mkAffine, toM_diag] at hl
    have := congrFun (congrFun hl i) i
    simp at this
    rw [this]; exact hw i
  · intro hv
    refine ⟨isAffine_mkAffine _ _, by simp only [trans_mkAffine]; rfl, v.get, hv, ?_⟩
    simp only [linM, lin_mkAffine]; exact toM_diag v

theorem inv_rotation_iff (R : Mat d) :
    Inv .Rotation (mkAffine R (zeroVec d)) ↔ (toM R)ᵀ * toM R = 1 := by
  constructor
  · rintro ⟨_, _, h⟩; simpa only [linM, lin_mkAffine] using h
  · exact inv_mkAffine_orth

/-- PROPERTY (what the constructors of the discrete classes guarantee): whatever `Translation(t)` accepts really is a
translation; what `UniformScale(s, n)` / `NonUniformScale(v)` accept really is a scale of that kind exactly when no
factor is zero (the constructors do not look); what `Rotation(R)` builds really is a rotation exactly when `R` is
orthogonal (the constructor does not look either). -/
theorem ctor_honest_discrete (R : Mat d) (t v : Vec d) (s : Rat) (skip : Bool) (hd : 0 < d) :
    (∀ r, ctorTranslation t skip = .ok r → r.cls = .Translation ∧ Inv r.cls r.M) ∧
    (∀ r, ctorUniformScale s d skip = .ok r → r.cls = .UniformScale ∧ (Inv r.cls r.M ↔ s ≠ 0)) ∧
    (∀ r, ctorNonUniformScale v skip = .ok r → r.cls = .NonUniformScale ∧ (Inv r.cls r.M ↔ ∀ i, v i ≠ 0)) ∧
    ((ctorRotation R).cls = .Rotation ∧ (Inv (ctorRotation R).cls (ctorRotation R).M ↔ (toM R)ᵀ * toM R = 1)) := by
  refine ⟨?_, ?_, ?_, rfl, inv_rotation_iff R⟩
  · intro r h
    simp only [ctorTranslation] at h
    split at h
    · cases h; exact ⟨rfl, inv_translation t⟩
    · cases h
  · intro r h
    simp only [ctorUniformScale] at h
    split at h
    · cases h; exact ⟨rfl, inv_uniformScale_iff s hd⟩
    · cases h
  · intro r h
    simp only [ctorNonUniformScale] at h
    split at h
    · cases h; exact ⟨rfl, inv_nonUniformScale_iff v⟩
    · cases h

/-- twice the identity: accepted as a `Rotation` -/
def twoI : Mat 2 := Mat.ofList 2 [2, 0, 0, 2]
/-- a shear: accepted as a `Similarity` -/
def shearM : Mat 3 := Mat.ofList 3 [1, 1, 0, 0, 1, 0, 0, 0, 1]

/-- WITNESS (what the constructors do not check): with all checks on, `Rotation(2·1)` is accepted and is no rotation,
`Similarity(shear)` is accepted and is no similarity, `UniformScale(0, 2)` is accepted and is not invertible.  Honest
atoms are a hypothesis (`Good`) of the composition theorems; the harness checks it on every atom it builds. -/
theorem ctor_unchecked_witness :
    ¬ Inv (ctorRotation twoI).cls (ctorRotation twoI).M ∧
    (ctorMat .Similarity shearM false = .ok ⟨.Similarity, shearM⟩ ∧ ¬ Inv .Similarity shearM) ∧
    (ctorUniformScale 0 2 false = .ok ⟨.UniformScale, mkAffine (scalarMat 2 0) (zeroVec 2)⟩ ∧
      ¬ Inv .UniformScale (mkAffine (scalarMat 2 0) (zeroVec 2))) := by
  refine ⟨?_, ⟨?_, ?_⟩, rfl, ?_⟩
  · intro h
    have h' := (inv_rotation_iff twoI).mp h
    have := congrFun (congrFun h' 0) 0
    simp [Matrix.mul_apply, Fin.sum_univ_two, toM, twoI, Mat.ofList] at this
    norm_num at this
  · have : affineChecks shearM = true := by decide +kernel
    simp [ctorMat, this]
  · rintro ⟨_, l, hl, h⟩
    have h00 := congrFun (congrFun h 0) 0
    have h01 := congrFun (congrFun h 0) 1
    simp [Matrix.mul_apply, Fin.sum_univ_two, toM, linM, lin, shearM, Mat.ofList] at h00 h01
  · intro h
    exact ((inv_uniformScale_iff (d := 2) 0 (by decide)).mp h) rfl

theorem mul_one' (M : Mat (d + 1)) : Mat.mul M (Mat.one (d + 1)) = M := by
  apply toM_inj; rw [toM_mul, toM_one, Matrix.mul_one]

theorem one_mul' (M : Mat (d + 1)) : Mat.mul (Mat.one (d + 1)) M = M := by
  apply toM_inj; rw [toM_mul, toM_one, Matrix.one_mul]

theorem mkAffine_one : mkAffine (Mat.one d) (zeroVec d) = Mat.one (d + 1) := by
  apply Mat.ext; intro i j
  simp only [mkAffine, Mat.one, zeroVec]
  by_cases hi : i.val < d <;> by_cases hj : j.val < d
  · simp [hi, hj, Fin.ext_iff]
  · have : i ≠ j := fun h => hj (h ▸ hi)
    simp [hi, hj, this]
  · have : i ≠ j := fun h => hi (h ▸ hj)
    simp [hi, hj, this]
  · have : i = j := Fin.ext (by have := i.isLt; have := j.isLt; omega)
    simp [hi, hj, this]

theorem scalarMat_one : scalarMat d 1 = Mat.one d := rfl
theorem diagMat_one : diagMat (⟨fun _ => 1⟩ : Vec d) = Mat.one d := rfl

/-- what `init_identity` hands back, when it hands back anything: the identity matrix, as a non-alignment object of
the base class -/
theorem identityOf_ok {c : HCls} {e : HT d} (h : identityOf c d = .ok e) :
    e.M = Mat.one (d + 1) ∧ e.cls = baseOf c := by
  cases c <;> simp only [identityOf, ctorMat, ctorTranslation, ctorUniformScale, ctorNonUniformScale, ctorRotation,
    Bool.true_or, if_true] at h
  all_goals first
    | (cases h; exact ⟨rfl, rfl⟩)
    | (cases h; exact ⟨mkAffine_one, rfl⟩)
    | (split at h
       · cases h; first | exact ⟨mkAffine_one, rfl⟩ | exact ⟨by rw [scalarMat_one]; exact mkAffine_one, rfl⟩
                        | exact ⟨by rw [diagMat_one]; exact mkAffine_one, rfl⟩
       · cases h)
    | cases h

theorem inv_one (c : HCls) : Inv c (Mat.one (d + 1)) := by
  have ha : IsAffine (Mat.one (d + 1)) := by rw [← mkAffine_one]; exact isAffine_mkAffine _ _
  have hl : linM (Mat.one (d + 1)) = 1 := by
    rw [← mkAffine_one]; simp only [linM, lin_mkAffine]; exact toM_one
  have ht : (trans (Mat.one (d + 1))).get = 0 := by
    rw [← mkAffine_one (d := d)]; simp only [trans_mkAffine]; rfl
  have hsim : InvBase .Similarity (Mat.one (d + 1)) := ⟨ha, 1, one_pos, by rw [hl]; simp⟩
  have hrot : InvBase .Rotation (Mat.one (d + 1)) := ⟨ha, ht, by rw [hl]; simp⟩
  have htr : InvBase .Translation (Mat.one (d + 1)) := ⟨ha, hl⟩
  have hus : InvBase .UniformScale (Mat.one (d + 1)) := ⟨ha, ht, 1, one_ne_zero, by rw [hl]; simp⟩
  have hns : InvBase .NonUniformScale (Mat.one (d + 1)) := by
    refine ⟨ha, ht, fun _ => 1, fun _ => one_ne_zero, ?_⟩
    rw [hl]; ext i j; by_cases h : i = j <;> simp [Matrix.diagonal, h, Matrix.one_apply]
  cases c <;> first | trivial | exact ha | exact hsim | exact hrot | exact htr | exact hus | exact hns

theorem det_one' : det (Mat.one (d + 1)) ≠ 0 := by
  simp [det, toM_one]

/-- PROPERTY (`init_identity`): whenever `C.init_identity(d)` hands back an object, it holds the identity matrix, is a
non-alignment object of the base class of `C`, really is of that class, is invertible — and it is neutral for
composition: `a.compose_before(e)`, `a.compose_after(e)`, `e.compose_before(a)`, `e.compose_after(a)` with an honest
`a` all hold exactly the matrix of `a` (and report the join of the two classes). -/
theorem identity_neutral (c : HCls) (e : HT d) (h : identityOf c d = .ok e) :
    e.M = Mat.one (d + 1) ∧ e.cls = baseOf c ∧ isAlign E e.cls = false ∧ Inv e.cls e.M ∧ det e.M ≠ 0 ∧
    ∀ (a : HT d), Inv a.cls a.M → ∀ dir,
      (∃ r, ladder E ladderFuel dir a e = some r ∧ r.M = a.M ∧ r.cls = resultCls a.cls e.cls) ∧
      (∃ r, ladder E ladderFuel dir e a = some r ∧ r.M = a.M ∧ r.cls = resultCls e.cls a.cls) := by
  obtain ⟨hM, hc⟩ := identityOf_ok h
  have hinv : Inv e.cls e.M := by rw [hM]; exact inv_one e.cls
  refine ⟨hM, hc, by rw [hc]; exact isAlign_baseOf c, hinv, by rw [hM]; exact det_one', ?_⟩
  intro a ha dir
  constructor
  · obtain ⟨r, hr, hrM, hrc⟩ := ladder_spec dir a e ha hinv
    refine ⟨r, hr, ?_, hrc⟩
    rw [hrM, hM]; cases dir <;> simp [rawCompose, mul_one', one_mul']
  · obtain ⟨r, hr, hrM, hrc⟩ := ladder_spec dir e a hinv ha
    refine ⟨r, hr, ?_, hrc⟩
    rw [hrM, hM]; cases dir <;> simp [rawCompose, mul_one', one_mul']

/-- PROPERTY (the constructor calls inside the ladder, with their checks): on a 2-D or 3-D operand whose matrix is
affine — in particular on every honest member of the affine family — `Similarity(self.h_matrix)`,
`Affine(self.h_matrix)` and `Homogeneous(self.h_matrix)` (all with the default `skip_checks=False`) succeed and hold
exactly that matrix: the plain words `⟨.Similarity, M⟩`, … of the ladder model are what the constructors do. -/
theorem ladder_ctor_justified (s : HT d) (hs : Inv s.cls s.M) (hd : d = 2 ∨ d = 3) :
    ctorMat .Homogeneous s.M false = .ok ⟨.Homogeneous, s.M⟩ ∧
    (isSub E s.cls .Affine = true →
      ctorMat .Affine s.M false = .ok ⟨.Affine, s.M⟩ ∧ ctorMat .Similarity s.M false = .ok ⟨.Similarity, s.M⟩) := by
  refine ⟨rfl, fun hc => ?_⟩
  have hb := bottomClose_of_isAffine (inv_isAffine hs hc)
  have hd' : (d == 2 || d == 3) = true := by rcases hd with rfl | rfl <;> rfl
  simp [ctorMat, affineChecks, hb, hd']

/-- … and in any other dimension the checked constructor calls of the ladder's `Similarity` / `Affine` branches
raise `ValueError` ("Affine Transforms can only be 2D or 3D"): composition of two affine-family members of different
classes is a 2-D / 3-D affair in menpo, as the property's quantifier says. -/
theorem ladder_ctor_refuses_other_dims (M : Mat (d + 1)) (hd : ¬ (d = 2 ∨ d = 3)) :
    ctorMat .Affine M false = .error .shape ∧ ctorMat .Similarity M false = .error .shape := by
  have : (d == 2 || d == 3) = false := by
    cases h : (d == 2 || d == 3)
    · rfl
    · exfalso; apply hd; simpa using h
  simp [ctorMat, affineChecks, this]

/-- PROPERTY (`as_non_alignment` through the constructors): in 2-D and 3-D, `x.as_non_alignment()` of an honest
alignment object `x` — which runs `Affine(h, skip_checks=True)`, `Similarity(h, skip_checks=True)`,
`Rotation(x.rotation_matrix, skip_checks=True)`, `Translation(x.translation_component)`,
`UniformScale(x.scale, x.n_dims)` with their checks — succeeds, strips the alignment nature and holds the same
matrix. -/
theorem ana_ctor_justified (c : HCls) (M : Mat (d + 1)) (hal : isAlign E c = true) (hd : d = 2 ∨ d = 3) :
    anaCtor c M = .ok ⟨stripCls E c, nonAlignmentMatrix c M⟩ ∧
    (Inv c M → anaCtor c M = .ok ⟨baseOf c, M⟩) := by
  have hd' : (d == 2 || d == 3) = true := by rcases hd with rfl | rfl <;> rfl
  have key : anaCtor c M = .ok ⟨stripCls E c, nonAlignmentMatrix c M⟩ := by
    cases c <;> first
      | exact absurd hal (by decide)
      | rfl
      | (simp [anaCtor, ctorTranslation, ctorUniformScale, hd', stripCls, rowOf, E, expectedClassTable,
          nonAlignmentMatrix, Bool.or_assoc])
  refine ⟨key, fun hinv => ?_⟩
  rw [key, nonAlignmentMatrix_of_inv hinv, strip_eq_baseOf]

/-! ### the hypotheses are satisfiable -/

example : ∃ e : HT 2, identityOf .Rotation 2 = .ok e := ⟨_, rfl⟩
example : ∃ e : HT 3, identityOf .AlignmentTranslation 3 = .ok e := ⟨_, rfl⟩
example : identityOf .AlignmentAffine 2 = .error .noMethod := rfl
example : identityOf .Translation 4 = .error .shape := rfl
example : Inv exRot.cls exRot.M ∧ isAlign E exRot.cls = true := ⟨exRot_inv, rfl⟩
example : anaCtor exRot.cls exRot.M = .ok ⟨.Rotation, exRot.M⟩ :=
  (ana_ctor_justified exRot.cls exRot.M rfl (Or.inl rfl)).2 exRot_inv
example : ctorMat .Similarity exTrans.M false = .ok ⟨.Similarity, exTrans.M⟩ :=
  ((ladder_ctor_justified exTrans exTrans_inv (Or.inl rfl)).2 rfl).2

end MenpoModel.C03
