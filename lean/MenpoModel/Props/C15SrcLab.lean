/-
C15 — from the SOURCE TEXT of a labelling function to its behaviour on every input (hand-written, no dependence on
generated files).  The translated body of a labelling function (Generated/C15SrcLab.lean) is a polymorphic function of the
input points built from operations each of which commutes with every map of the points (`…_map`), so it commutes with
every map of the points itself (proved per labeller by unfolding, GenProps/C15SrcLab.lean); a function that commutes with
every map of the points, refuses every other size and returns on the index-encoding probe what the PROBED table says
returns what the probed table says on EVERY input (`lab_from_probe`).
-/
import MenpoModel.Core.C15Src
import MenpoModel.Props.C15Src
import MenpoModel.Props.C15Entry

set_option linter.unusedSimpArgs false

namespace MenpoModel.C15.Src
open MenpoModel.C15

/-! ### `Except`: maps through binds -/

theorem bind_ok {ε α β} (a : α) (k : α → Except ε β) : Except.bind (.ok a) k = k a := rfl
theorem bind_error {ε α β} (e : ε) (k : α → Except ε β) : Except.bind (.error e) k = .error e := rfl
theorem map_ok {ε α β} (a : α) (g : α → β) : (Except.ok a : Except ε α).map g = .ok (g a) := rfl
theorem map_error {ε α β} (e : ε) (g : α → β) : (Except.error e : Except ε α).map g = .error e := rfl
theorem map_bind {ε α β γ} (m : Except ε α) (k : α → Except ε β) (g : β → γ) :
    (Except.bind m k).map g = Except.bind m fun x => (k x).map g := by cases m <;> rfl
theorem bind_map {ε α β γ} (m : Except ε α) (f : α → β) (k : β → Except ε γ) :
    Except.bind (m.map f) k = Except.bind m fun x => k (f x) := by cases m <;> rfl
theorem map_map' {ε α β γ} (m : Except ε α) (f : α → β) (g : β → γ) : (m.map f).map g = m.map fun x => g (f x) := by
  cases m <;> rfl

/-! ### maps of the points -/

def mapObj {α β} (h : α → β) (o : Obj α) : Obj β := ⟨o.cls, mapPts h o.g⟩
def mapOut {α β} (h : α → β) (r : Obj α × ODict (List Int)) : Obj β × ODict (List Int) := (mapObj h r.1, r.2)

theorem mapOut_fst {α β} (h : α → β) (r : Obj α × ODict (List Int)) : (mapOut h r).1 = mapObj h r.1 := rfl
theorem mapOut_snd {α β} (h : α → β) (r : Obj α × ODict (List Int)) : (mapOut h r).2 = r.2 := rfl
theorem mapOut_mk {α β} (h : α → β) (o : Obj α) (m : ODict (List Int)) : mapOut h (o, m) = (mapObj h o, m) := rfl
theorem points_list_map {α β} (h : α → β) (l : List α) :
    HasPoints.points (List.map h l) = List.map h (HasPoints.points l) := rfl
theorem points_mapObj {α β} (h : α → β) (o : Obj α) : HasPoints.points (mapObj h o) = (HasPoints.points o).map h := rfl
theorem points_list {α} (l : List α) : HasPoints.points l = l := rfl
theorem objEdges_mapObj {α β} (h : α → β) (o : Obj α) : objEdges (mapObj h o) = objEdges o := rfl
theorem triMesh_map {α β} (h : α → β) (l : List α) (t : List (List Int)) :
    triMesh (l.map h) t = mapObj h (triMesh l t) := rfl

theorem validated_map {α β} (h : α → β) (r : Except Err Unit) (l : List α) :
    validated r (l.map h) = (validated r l).map (List.map h) := by
  cases r <;> rfl

theorem takePts_map {α β} (h : α → β) (l : List α) (ind : List Int) :
    takePts (l.map h) ind = (takePts l ind).map (List.map h) := by
  unfold takePts
  simp only [List.length_map]
  cases normAll l.length ind with
  | none => rfl
  | some js => simp [Except.map, gather_map]

theorem objFromVector_map {α β} (h : α → β) (o : Obj α) (l : List α) :
    objFromVector (mapObj h o) (l.map h) = (objFromVector o l).map (mapObj h) := by
  unfold objFromVector
  simp only [List.length_map, mapObj, mapPts]
  split <;> rfl

theorem dropLastN_map {α β} (h : α → β) (k : Nat) (l : List α) : dropLastN k (l.map h) = (dropLastN k l).map h := by
  simp [dropLastN, List.map_take]

theorem lgraphObj_map {α β} (h : α → β) (r : Except Err (LGraph α)) :
    lgraphObj (r.map (mapPts h)) = (lgraphObj r).map (mapObj h) := by cases r <;> rfl

theorem rangesObj_map {α β} (h : α → β) (r : Except Err (LGraph α × ODict (List Int))) :
    rangesObj (r.map fun p => (mapPts h p.1, p.2)) = (rangesObj r).map (mapOut h) := by
  cases r with
  | error e => rfl
  | ok p => obtain ⟨g, m⟩ := p; rfl

/-! ### the constructors commute with maps of the points -/

theorem puInit_map {α β} (h : α → β) (pts : List α) (adj : Adj) (skip : Bool) :
    puInit (pts.map h) adj skip = (puInit pts adj skip).map (mapPts h) := by
  unfold puInit
  cases adj with
  | matrix n es => simp only [List.length_map]; repeat' split <;> try rfl
  | edgeList es => simp only [List.length_map]; repeat' split <;> try rfl

theorem verifyCovered_map {α β} (h : α → β) (g : LGraph α) :
    verifyCovered (mapPts h g) = (verifyCovered g).map (mapPts h) := by
  unfold verifyCovered
  simp only [mapPts]
  by_cases hc : (npSumEq0 (List.map Prod.snd g.labels)).any = true
  · simp only [hc, if_true]; rfl
  · simp only [hc, if_false]; rfl

theorem constructC_map {α β} (h : α → β) (pts : List α) (adj : Adj) (d : ODict (List Bool)) (c k : Bool) :
    constructC (pts.map h) adj d c k = (constructC pts adj d c k).map (mapPts h) := by
  unfold constructC
  rw [puInit_map]
  cases puInit pts adj k with
  | error e => rfl
  | ok g0 =>
    simp only [Except.map, List.length_map]
    split
    · rfl
    · split
      · rfl
      · split
        · rfl
        · have := verifyCovered_map h { g0 with labels := d.items }
          simp only [mapPts] at this
          simp only [mapPts]
          rw [this]
          cases verifyCovered { g0 with labels := d.items } with
          | error e => rfl
          | ok g1 => cases c <;> rfl

theorem initFromIndicesC_map {α β} (h : α → β) (pts : List α) (adj : Adj) (d : ODict (List Int)) (c : Bool) :
    initFromIndicesC (pts.map h) adj d c = (initFromIndicesC pts adj d c).map (mapPts h) := by
  unfold initFromIndicesC
  simp only [List.length_map]
  split
  · rfl
  · split
    · rfl
    · exact constructC_map h pts _ _ c false

theorem fromRangesC_map {α β} (h : α → β) (pts : List α) (d : ODict (Int × Int × Bool)) :
    fromRangesC (pts.map h) d = (fromRangesC pts d).map fun p => (mapPts h p.1, p.2) := by
  unfold fromRangesC
  split
  · rfl
  · rw [initFromIndicesC_map]
    rename_i st _
    cases initFromIndicesC pts (.edgeList st.1.flatten) st.2 true <;> rfl


/-! ### from the probe to every input -/

/-- what the probed table of a labelling function says it returns on `xs` -/
def expectedObj {α} (f : LabFunc) (xs : List α) : Except Err (Obj α) :=
  (f.table.apply xs).map fun g => ⟨f.cls, storedGraph f.cls g⟩

/-- the result of a translated labelling function, with its mapping in the normal form the extraction records -/
def normOut {α} (r : Obj α × ODict (List Int)) : Obj α × List (String × List Nat) :=
  (r.1, normMapping r.2 r.1.g.pts.length)

/-- on the index-encoding probe (point `i` is the number `i`) the translated source returns what the probed table says:
two independent extractions — one from the source text, one from running the live function — agree -/
def probeOK (m : List Nat → Except Err (Obj Nat × ODict (List Int))) (f : LabFunc) : Bool :=
  decide ((m (List.range f.table.nExpected)).map normOut =
    (expectedObj f (List.range f.table.nExpected)).map fun o => (o, f.table.labels))

/-- **the translated source of a labelling function is its probed table, on every input**: object (class, points,
connectivity, label masks) and mapping, errors included -/
def LabAgrees (m : ∀ {α : Type}, List α → Except Err (Obj α × ODict (List Int))) (f : LabFunc) : Prop :=
  ∀ {α : Type} (xs : List α), (m xs).map normOut = (expectedObj f xs).map fun o => (o, f.table.labels)

theorem storedGraph_map {α β} (h : α → β) (c : OutCls) (g : LGraph α) :
    storedGraph c (mapPts h g) = mapPts h (storedGraph c g) := by
  unfold storedGraph; split <;> rfl

theorem expectedObj_map {α β} (f : LabFunc) (h : α → β) (xs : List α) :
    expectedObj f (xs.map h) = (expectedObj f xs).map (mapObj h) := by
  unfold expectedObj
  rw [labeller_commutes]
  cases f.table.apply xs with
  | error e => rfl
  | ok g => simp only [Except.map, mapObj, storedGraph_map]

theorem list_eq_map_range {α} (xs : List α) (d : α) : xs = (List.range xs.length).map fun i => xs.getD i d := by
  apply List.ext_getElem
  · simp
  · intro i h1 h2
    simp [List.getD_eq_getElem?_getD, h1]

theorem lab_from_probe {m : ∀ {α : Type}, List α → Except Err (Obj α × ODict (List Int))} {f : LabFunc}
    (hnat : ∀ {α β : Type} (h : α → β) (xs : List α), m (xs.map h) = (m xs).map (mapOut h))
    (hwrong : ∀ {α : Type} (xs : List α), xs.length ≠ f.table.nExpected → m xs = .error .labelling)
    (hprobe : probeOK m f = true) (hpos : 0 < f.table.nExpected) : LabAgrees @m f := by
  intro α xs
  by_cases hlen : xs.length = f.table.nExpected
  · cases xs with
    | nil => simp at hlen; omega
    | cons d rest =>
      have hx := list_eq_map_range (d :: rest) d
      rw [hlen] at hx
      generalize (d :: rest) = ys at hx
      rw [hx, hnat, expectedObj_map]
      have hp : (m (List.range f.table.nExpected)).map normOut =
          (expectedObj f (List.range f.table.nExpected)).map fun o => (o, f.table.labels) := by
        simpa [probeOK] using hprobe
      cases hm : m (List.range f.table.nExpected) with
      | error e =>
        rw [hm] at hp
        cases he : expectedObj f (List.range f.table.nExpected) with
        | error e' => rw [he] at hp; simp only [Except.map, Except.error.injEq] at hp ⊢; exact hp
        | ok o => rw [he] at hp; simp [Except.map] at hp
      | ok r =>
        rw [hm] at hp
        cases he : expectedObj f (List.range f.table.nExpected) with
        | error e' => rw [he] at hp; simp [Except.map] at hp
        | ok o =>
          rw [he] at hp
          simp only [Except.map, Except.ok.injEq, normOut, Prod.mk.injEq] at hp ⊢
          obtain ⟨h1, h2⟩ := hp
          refine ⟨by rw [← h1]; rfl, ?_⟩
          rw [← h2]
          simp [mapOut, mapObj, mapPts]
  · rw [hwrong xs hlen]
    unfold expectedObj
    rw [(labeller_size f.table xs).1 hlen]
    rfl


/-- what agreement with the probed table says about the translated source on an arbitrary input: every other size is a
`LabellingError`; on the expected size the call succeeds and returns the class of the table and `Labeller.apply` of the
table (as the landmark manager would store it), with the table's mapping -/
theorem labAgrees_spec {m : ∀ {α : Type}, List α → Except Err (Obj α × ODict (List Int))} {f : LabFunc}
    (h : LabAgrees @m f) {α : Type} (xs : List α) :
    (xs.length ≠ f.table.nExpected → m xs = .error .labelling) ∧
    (xs.length = f.table.nExpected → ∃ r g, m xs = .ok r ∧ f.table.apply xs = .ok g ∧
      r.1 = ⟨f.cls, storedGraph f.cls g⟩ ∧ normMapping r.2 r.1.g.pts.length = f.table.labels) := by
  have hx := h xs
  unfold expectedObj at hx
  constructor
  · intro hlen
    rw [(labeller_size f.table xs).1 hlen] at hx
    cases hm : m xs with
    | error e => rw [hm] at hx; simp only [Except.map, Except.error.injEq] at hx; rw [hx]
    | ok r => rw [hm] at hx; simp [Except.map] at hx
  · intro hlen
    obtain ⟨g, hg⟩ := (labeller_size f.table xs).2 hlen
    rw [hg] at hx
    cases hm : m xs with
    | error e => rw [hm] at hx; simp [Except.map] at hx
    | ok r =>
      rw [hm] at hx
      simp only [Except.map, Except.ok.injEq, normOut, Prod.mk.injEq] at hx
      exact ⟨r, g, rfl, hg, hx.1, hx.2⟩

/-- **the labeller clause of the property, for the TRANSLATED SOURCE of a labelling function**: it rejects input of
the wrong size; it commutes with any transform of the input; on an input of the expected size it succeeds, its output
points are distinct input points (`ind` has no repetition, output `j` is input `ind[j]`), every output point is labelled
(by a mask of the returned labelled graph; for a mesh: by the returned mapping); and, being a function of its argument, it
leaves its input untouched -/
def LabellerClause (m : ∀ {α : Type}, List α → Except Err (Obj α × ODict (List Int))) (f : LabFunc) : Prop :=
  ∀ {α : Type} (xs : List α),
    (xs.length ≠ f.table.nExpected → m xs = .error .labelling) ∧
    (∀ {β : Type} (h : α → β), m (xs.map h) = (m xs).map (mapOut h)) ∧
    (xs.length = f.table.nExpected → ∃ r, m xs = .ok r ∧ r.1.cls = f.cls ∧
      r.1.g.pts.length = f.table.ind.length ∧
      (∀ j, j < f.table.ind.length → f.table.ind[j]! < xs.length ∧ r.1.g.pts[j]? = xs[f.table.ind[j]!]?) ∧
      f.table.ind.Nodup ∧
      (f.cls = .lgraph → Covered r.1.g) ∧
      (∀ j, j < r.1.g.pts.length → ∃ p ∈ normMapping r.2 r.1.g.pts.length, j ∈ p.2))

/-- the clause holds for every translated labelling function that agrees with a well-formed probed table -/
theorem src_labeller_clause {m : ∀ {α : Type}, List α → Except Err (Obj α × ODict (List Int))} {f : LabFunc}
    (hag : LabAgrees @m f) (hwf : labellerWF f.table = true)
    (hnat : ∀ {α β : Type} (h : α → β) (xs : List α), m (xs.map h) = (m xs).map (mapOut h)) :
    LabellerClause @m f := by
  intro α xs
  obtain ⟨h1, h2⟩ := labAgrees_spec hag xs
  refine ⟨h1, fun h => hnat h xs, ?_⟩
  intro hlen
  obtain ⟨r, g, hr, hg, hobj, hmap⟩ := h2 hlen
  have hre := labeller_reindexes f.table hwf xs g hg
  have hcov := labeller_all_labelled f.table hwf xs g hg
  have hpts : r.1.g.pts = g.pts := by rw [hobj]; unfold storedGraph; split <;> rfl
  refine ⟨r, hr, by rw [hobj], by rw [hpts]; exact hre.1, ?_, hre.2.2, ?_, ?_⟩
  · intro j hj; rw [hpts]; exact hre.2.1 j hj
  · intro hc
    rw [hobj]
    simp only [storedGraph, hc]
    exact hcov.1
  · intro j hj
    rw [hmap]
    rw [hpts, hre.1] at hj
    simp only [labellerWF, Bool.and_eq_true] at hwf
    obtain ⟨⟨⟨⟨⟨_, _⟩, hc⟩, _⟩, _⟩, _⟩ := hwf
    have := List.all_eq_true.mp hc j (List.mem_range.mpr hj)
    obtain ⟨p, hp, hpj⟩ := List.any_eq_true.mp this
    exact ⟨p, hp, by simpa using hpj⟩

end MenpoModel.C15.Src
