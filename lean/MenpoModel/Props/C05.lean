/-
C05 — vectorisation round-trips the whole object and never mutates it.

Property theorems (marked PROPERTY) over the executable model `Core/Vectorize.lean`, helper lemmas in
between.  The model is assembled per class through `expectedDispatch`; `GenProps/C05.lean` proves that the
table regenerated from the live classes equals it.  Two variants of the model are quantified over:
`coded` (the tree as found) and `fixed` (with notes/fixes/C05-*.diff applied); where the coded behaviour
violates the property the refutation-by-witness and the theorem for the patched behaviour stand side by side.

Clauses of the property and where they are proved
  as_vector holds exactly n_parameters numbers ........ shape_nparams, img_length_eq_nparams, xf_length_eq_nparams
  as_vector is 1-D ..................................... uscale_ndim (0-d as coded, refuted; 1-d patched)
  from_vector(as_vector()) reproduces the state ........ shape_from_as, img_from_as, xf_from_as
                                                          (textured_landmarks_coded_refuted)
  from_vector(v).as_vector() = v ....................... shape_as_from, img_as_from, xf_as_from, rotation_as_from
  carried state (mask, connectivity, labels, …) ........ shape_carried, img_carried, xf_wrong_length_fixed (class)
  masked layout, zero elsewhere ........................ masked_vector_layout, masked_zero_elsewhere
  alignment target re-synced ........................... alignment_target_resynced
  every vector of n_parameters entries is accepted ..... shape_right_length_accepted, img_right_length_accepted,
                                                          xf_right_length_accepted
  wrong length: raises or well formed .................. shape_wrong_length_fixed, img_from_vector_wellformed,
                                                          xf_wrong_length_fixed (+ three coded refutations)
  from_vector never changes the receiver ............... from_vector_pure_heap + expected_rows_pure
  quaternions .......................................... quat_matrix_orthogonal, K_of_rotation, rotation_as_from,
                                                          rotation_from_as
  … over histories of calls ............................ from_vector_program_pure (any sequence of from_vector calls),
                                                          from_vector_inplace_local / from_vector_inplace_effect
                                                          (the deprecated mutator changes its receiver only)
  from_vector = copy() + in-place update ............... shape_inplace_agrees, xf_inplace_agrees, image_inplace_agrees;
                                                          in place: img_fvi_as_from, img_fvi_carried,
                                                          masked_fvi_keeps_outside, boolean_inplace_not_coerced,
                                                          failed_inplace_keeps_receiver (+ the AlignmentAffine witness)
  dimensions that are not vectorizable ................. similarity3d_not_vectorizable, rotation2d_not_vectorizable
  boundary images ...................................... masked_all_false (+ examples: 1-D, 3-D, all-false BooleanImage)
  options: from_vector(v, n_channels=k), keep_channels . fromVecN_eq_blank, fromVecN_self, fromVecN_spec, asVecKeep_flatten
  dtype of the result follows the vector ............... from_vector_dtype, as_from_dtype, masked_inplace_dtype
  the eigh contract is satisfiable everywhere .......... eigh_contract_satisfiable
-/
import MenpoModel.Lemmas.C05Lists
import MenpoModel.Lemmas.C05Heap
import Mathlib.Tactic.Ring
import Mathlib.Tactic.Linarith
import Mathlib.Tactic.LinearCombination
import Mathlib.Algebra.Order.Field.Rat

set_option linter.unusedTactic false
set_option linter.unreachableTactic false

namespace MenpoModel.C05


/-! ## shapes -/

theorem shape_fromVec_eq (V : Variant) (s : Shape) (v : Vec) (hc : isShapeCls s.cls = true) :
    s.fromVec V v = if s.cls = .TexturedTriMesh then texturedFromVector V s v else pointCloudFvi V s v := by
  obtain ⟨cls, d, pts, nv, tris, ex, lms⟩ := s
  cases cls <;> first | rfl | (simp [isShapeCls, isGraphCls, isMeshCls] at hc)

theorem pointCloudFvi_ok (V : Variant) (s s' : Shape) (v : Vec) (h : pointCloudFvi V s v = .ok s') :
    s' = { s with points := v } ∧ s.d ≠ 0 ∧ v.length % s.d = 0 ∧
    (V.shapeLenCheck = true → v.length = s.points.length) := by
  unfold pointCloudFvi at h
  repeat' split at h
  all_goals first | (cases h; done) | skip
  injection h with h
  simp_all

theorem texturedFromVector_ok (V : Variant) (s s' : Shape) (v : Vec) (h : texturedFromVector V s v = .ok s') :
    s' = { s with points := v, lms := if V.texturedKeepsLms then s.lms else [] } ∧ s.d ≠ 0 ∧
    v.length % s.d = 0 ∧ (V.shapeLenCheck = true → v.length = s.points.length) := by
  unfold texturedFromVector at h
  repeat' split at h
  all_goals first | (cases h; done) | skip
  all_goals (injection h with h; simp_all)

theorem shape_fromVec_ok (V : Variant) (s s' : Shape) (v : Vec) (hc : isShapeCls s.cls = true)
    (h : s.fromVec V v = .ok s') :
    s' = { s with points := v,
                  lms := if s.cls = .TexturedTriMesh ∧ V.texturedKeepsLms = false then [] else s.lms } ∧
    s.d ≠ 0 ∧ v.length % s.d = 0 ∧ (V.shapeLenCheck = true → v.length = s.points.length) := by
  rw [shape_fromVec_eq V s v hc] at h
  split at h
  · obtain ⟨h1, h2⟩ := texturedFromVector_ok V s s' v h
    refine ⟨?_, h2⟩
    rw [h1]; cases hk : V.texturedKeepsLms <;> simp_all
  · obtain ⟨h1, h2⟩ := pointCloudFvi_ok V s s' v h
    refine ⟨?_, h2⟩
    rw [h1]; simp_all

/-- PROPERTY (shapes): `from_vector(v).as_vector()` returns `v` — both variants, every class, every
accepted `v` -/
theorem shape_as_from (V : Variant) (s s' : Shape) (v : Vec) (hc : isShapeCls s.cls = true)
    (h : s.fromVec V v = .ok s') : s'.asVec = v := by
  rw [(shape_fromVec_ok V s s' v hc h).1]; rfl

/-- PROPERTY (shapes): everything but the coordinates is carried over: class, dimension, connectivity /
per-vertex state, labels, texture; the landmarks too unless this is the coded `TexturedTriMesh.from_vector` -/
theorem shape_carried (V : Variant) (s s' : Shape) (v : Vec) (hc : isShapeCls s.cls = true)
    (h : s.fromVec V v = .ok s') :
    s'.cls = s.cls ∧ s'.d = s.d ∧ s'.nVert = s.nVert ∧ s'.tris = s.tris ∧ s'.extra = s.extra ∧
    ((V.texturedKeepsLms = true ∨ s.cls ≠ .TexturedTriMesh) → s'.lms = s.lms) := by
  rw [(shape_fromVec_ok V s s' v hc h).1]
  refine ⟨rfl, rfl, rfl, rfl, rfl, ?_⟩
  intro hk
  rcases hk with hk | hk <;> simp [hk]

/-- PROPERTY (shapes): `from_vector(as_vector())` reproduces the complete state (patched behaviour: every
shape class; coded behaviour: every class except a TexturedTriMesh that has landmarks) -/
theorem shape_from_as (V : Variant) (s : Shape) (hc : isShapeCls s.cls = true) (hw : s.wf = true)
    (hk : V.texturedKeepsLms = true ∨ s.cls ≠ .TexturedTriMesh ∨ s.lms = []) :
    s.fromVec V s.asVec = .ok s := by
  obtain ⟨cls, d, pts, nv, tris, ex, lms⟩ := s
  simp only [Shape.wf, Bool.and_eq_true, decide_eq_true_eq, beq_iff_eq] at hw
  obtain ⟨⟨⟨hd, hm⟩, _⟩, _⟩ := hw
  rw [shape_fromVec_eq V _ _ hc]
  simp only [Shape.asVec, texturedFromVector, pointCloudFvi]
  have hd' : ¬ d = 0 := by omega
  split <;> simp_all
  intro hf
  rcases hk with hk | hk <;> simp_all

/-- the coded `TexturedTriMesh.from_vector` drops the landmarks (DESIGN §7 #4): refutation by witness -/
theorem textured_landmarks_coded_refuted :
    ∃ s s' : Shape, s.cls = .TexturedTriMesh ∧ s.wf = true ∧ s.fromVec coded s.asVec = .ok s' ∧
      s.lms ≠ [] ∧ s'.lms = [] :=
  ⟨⟨.TexturedTriMesh, 2, [0, 0, 1, 0, 0, 1], 3, [0, 1, 2], 0, [(0, [0, 0])]⟩,
   ⟨.TexturedTriMesh, 2, [0, 0, 1, 0, 0, 1], 3, [0, 1, 2], 0, []⟩, rfl, by decide, rfl, by simp, rfl⟩

/-- PROPERTY (shapes, wrong lengths, patched behaviour): `from_vector` accepts exactly the vectors of
`n_parameters` entries, and what it returns is well formed -/
theorem shape_wrong_length_fixed (s s' : Shape) (v : Vec) (hc : isShapeCls s.cls = true) (hw : s.wf = true)
    (h : s.fromVec fixed v = .ok s') : v.length = s.nParams ∧ s'.wf = true := by
  obtain ⟨h1, _, _, h4⟩ := shape_fromVec_ok fixed s s' v hc h
  have hl : v.length = s.points.length := h4 rfl
  refine ⟨hl, ?_⟩
  rw [h1]
  simp only [Shape.wf, Shape.nPoints, hl] at hw ⊢
  exact hw

/-- the coded `PointCloud._from_vector_inplace` accepts a wrong length and returns a mesh whose triangle
list points past its vertices (DESIGN §7 #5): refutation by witness -/
theorem shape_wrong_length_coded_refuted :
    ∃ (s s' : Shape) (v : Vec), s.cls = .TriMesh ∧ s.wf = true ∧ v.length ≠ s.nParams ∧
      s.fromVec coded v = .ok s' ∧ s'.wf = false :=
  ⟨⟨.TriMesh, 2, [0, 0, 1, 0, 0, 1], 0, [0, 1, 2], 0, []⟩,
   ⟨.TriMesh, 2, [5, 5, 6, 6], 0, [0, 1, 2], 0, []⟩, [5, 5, 6, 6], rfl, by decide, by decide, rfl, by decide⟩

theorem shape_nparams (s : Shape) (hw : s.wf = true) : s.nParams = s.nPoints * s.d := by
  simp only [Shape.wf, Bool.and_eq_true, decide_eq_true_eq, beq_iff_eq] at hw
  obtain ⟨⟨⟨hd, hm⟩, _⟩, _⟩ := hw
  simp only [Shape.nParams, Shape.asVec, Shape.nPoints]
  exact (Nat.div_mul_cancel (Nat.dvd_of_mod_eq_zero hm)).symm



/-! ## images -/

def isImgCls (c : Cls) : Bool := c == .Image || c == .MaskedImage || c == .BooleanImage


theorem img_asVec_eq (x : Img) (hc : isImgCls x.cls = true) :
    x.asVec = if x.cls = .MaskedImage then maskedAsVec x else imageAsVec x := by
  obtain ⟨cls, shape, chans, mask, lms⟩ := x
  cases cls <;> first | rfl | (simp [isImgCls] at hc)

theorem img_fromVec_eq (x : Img) (v : Vec) (hc : isImgCls x.cls = true) :
    x.fromVec v = if x.cls = .MaskedImage then maskedFromVector x v
      else if x.cls = .BooleanImage then booleanFromVector x v else imageFromVector x v := by
  obtain ⟨cls, shape, chans, mask, lms⟩ := x
  cases cls <;> first | rfl | (simp [isImgCls] at hc)

/-- what the well-formedness predicate says -/
theorem img_wf_iff (x : Img) : x.wf = true ↔
    (∀ c ∈ x.chans, c.length = x.nPix) ∧ (x.cls = .MaskedImage → x.mask.length = x.nPix) ∧
    (x.cls = .BooleanImage → x.nCh = 1 ∧ ∀ c ∈ x.chans, ∀ p ∈ c, p = 0 ∨ p = 1) := by
  simp only [Img.wf, Bool.and_eq_true, List.all_eq_true, beq_iff_eq, Bool.or_eq_true, bne_iff_ne, ne_eq]
  constructor
  · rintro ⟨⟨h1, h2⟩, h3⟩
    refine ⟨h1, fun hm => ?_, fun hb => ?_⟩
    · rcases h2 with h2 | h2
      · exact absurd hm h2
      · exact h2
    · rcases h3 with h3 | h3
      · exact absurd hb h3
      · exact h3
  · rintro ⟨h1, h2, h3⟩
    refine ⟨⟨h1, ?_⟩, ?_⟩
    · by_cases hm : x.cls = .MaskedImage
      · exact Or.inr (h2 hm)
      · exact Or.inl hm
    · by_cases hb : x.cls = .BooleanImage
      · exact Or.inr (h3 hb)
      · exact Or.inl hb

/-- `masked_pixels()` without the all-true shortcut: the same list -/
theorem maskedAsVec_uniform (x : Img) (h1 : ∀ c ∈ x.chans, c.length = x.mask.length) :
    maskedAsVec x = (x.chans.map (fun c => maskFilter c x.mask)).flatten := by
  unfold maskedAsVec
  split
  · rename_i ht
    have : x.chans.map (fun c => maskFilter c x.mask) = x.chans := by
      conv => rhs; rw [← List.map_id x.chans]
      exact List.map_congr_left (fun c hc => maskFilter_allTrue c x.mask (h1 c hc) ht)
    rw [this]
  · rfl

theorem imageFromVector_ok (x x' : Img) (v : Vec) (h : imageFromVector x v = .ok x') :
    x' = { x with chans := chunks x.nPix x.nCh v } ∧ v.length = x.nCh * x.nPix := by
  unfold imageFromVector at h
  split at h
  · injection h with h; exact ⟨h.symm, by assumption⟩
  · cases h

theorem booleanFromVector_ok (x x' : Img) (v : Vec) (h : booleanFromVector x v = .ok x') :
    x' = { x with chans := [v.map toBool] } ∧ v.length = x.nPix := by
  unfold booleanFromVector at h
  split at h
  · injection h with h; exact ⟨h.symm, by assumption⟩
  · cases h

theorem maskedFromVector_ok (x x' : Img) (v : Vec) (h : maskedFromVector x v = .ok x') :
    (allTrue x.mask = true ∧ x' = { x with chans := chunks x.nPix x.nCh v } ∧ v.length = x.nCh * x.nPix) ∨
    (allTrue x.mask = false ∧ x.nCh ≠ 0 ∧ v.length % x.nCh = 0 ∧
      ((v.length / x.nCh = countTrue x.mask ∧
          x' = { x with chans := List.map (scatter 0 x.mask) (chunks (v.length / x.nCh) x.nCh v) }) ∨
       (v.length / x.nCh ≠ countTrue x.mask ∧ v.length / x.nCh = 1 ∧
          x' = { x with chans := List.map
                                   (fun r => scatter 0 x.mask (List.replicate (countTrue x.mask) (r.headD 0)))
                                   (chunks (v.length / x.nCh) x.nCh v) }))) := by
  unfold maskedFromVector at h
  dsimp only at h
  repeat' split at h
  all_goals first | (cases h; done) | skip
  all_goals (injection h with h; simp_all)

/-- PROPERTY (images): mask, shape, class and landmarks are carried over by `from_vector` -/
theorem img_carried (x x' : Img) (v : Vec) (hc : isImgCls x.cls = true) (h : x.fromVec v = .ok x') :
    x'.cls = x.cls ∧ x'.shape = x.shape ∧ x'.mask = x.mask ∧ x'.lms = x.lms := by
  rw [img_fromVec_eq x v hc] at h
  repeat' split at h
  · rcases maskedFromVector_ok x x' v h with ⟨_, rfl, _⟩ | ⟨_, _, _, ⟨_, rfl⟩ | ⟨_, _, rfl⟩⟩ <;> simp
  · rw [(booleanFromVector_ok x x' v h).1]; simp
  · rw [(imageFromVector_ok x x' v h).1]; simp

theorem toBool_01 (r : Rat) : toBool r = 0 ∨ toBool r = 1 := by
  unfold toBool; split <;> simp

theorem toBool_id (r : Rat) (h : r = 0 ∨ r = 1) : toBool r = r := by
  unfold toBool; rcases h with rfl | rfl <;> simp

/-- PROPERTY (images, every length): whatever `from_vector` accepts yields a well-formed image of the same
class; in particular a wrong-length vector is rejected or (MaskedImage: one value per channel, which numpy
broadcasts under the mask) gives a well-formed image -/
theorem img_from_vector_wellformed (x x' : Img) (v : Vec) (hc : isImgCls x.cls = true) (hw : x.wf = true)
    (h : x.fromVec v = .ok x') : x'.wf = true := by
  obtain ⟨hcar, hsh, hmask, _⟩ := img_carried x x' v hc h
  obtain ⟨h1, h2, h3⟩ := (img_wf_iff x).1 hw
  rw [img_wf_iff]
  have hpix : x'.nPix = x.nPix := by simp [Img.nPix, hsh]
  rw [img_fromVec_eq x v hc] at h
  repeat' split at h
  · rename_i hm
    have hml : x.mask.length = x.nPix := h2 hm
    refine ⟨?_, fun _ => by rw [hmask, hpix]; exact hml, fun hb => by rw [hcar, hm] at hb; cases hb⟩
    rw [hpix]
    rcases maskedFromVector_ok x x' v h with ⟨_, rfl, hl⟩ | ⟨_, _, _, ⟨_, rfl⟩ | ⟨_, _, rfl⟩⟩
    · exact chunks_row_length _ _ _ (by rw [hl, Nat.mul_comm])
    · intro c hcm
      simp only [List.mem_map] at hcm
      obtain ⟨r, _, rfl⟩ := hcm
      rw [scatter_length, hml]
    · intro c hcm
      simp only [List.mem_map] at hcm
      obtain ⟨r, _, rfl⟩ := hcm
      rw [scatter_length, hml]
  · rename_i hm hb
    obtain ⟨rfl, hl⟩ := booleanFromVector_ok x x' v h
    refine ⟨by simpa [Img.nPix] using hl, fun hm' => absurd (hcar ▸ hm') hm, fun _ => ⟨rfl, ?_⟩⟩
    intro c hcm p hp
    simp only [List.mem_singleton] at hcm
    subst hcm
    simp only [List.mem_map] at hp
    obtain ⟨r, _, rfl⟩ := hp
    exact toBool_01 r
  · rename_i hm hb
    obtain ⟨rfl, hl⟩ := imageFromVector_ok x x' v h
    refine ⟨?_, fun hm' => absurd hm' hm, fun hb' => absurd hb' hb⟩
    exact chunks_row_length _ _ _ (by rw [hl, Nat.mul_comm])

theorem masked_rows_length (x : Img) (h1 : ∀ c ∈ x.chans, c.length = x.mask.length) :
    ∀ r ∈ x.chans.map (fun c => maskFilter c x.mask), r.length = countTrue x.mask := by
  intro r hr
  simp only [List.mem_map] at hr
  obtain ⟨c, hc, rfl⟩ := hr
  exact maskFilter_length c x.mask (h1 c hc)

/-- PROPERTY (images): `as_vector()` holds exactly `n_parameters` numbers: all pixels of every channel
for Image / BooleanImage, the pixels under the mask of every channel for MaskedImage -/
theorem img_length_eq_nparams (x : Img) (hc : isImgCls x.cls = true) (hw : x.wf = true) :
    x.asVec.length = x.nParams ∧
    x.nParams = x.nCh * (if x.cls = .MaskedImage then countTrue x.mask else x.nPix) := by
  refine ⟨rfl, ?_⟩
  obtain ⟨h1, h2, _⟩ := (img_wf_iff x).1 hw
  unfold Img.nParams
  rw [img_asVec_eq x hc]
  split
  · rename_i hm
    have h1' : ∀ c ∈ x.chans, c.length = x.mask.length := fun c hcm => by rw [h1 c hcm, h2 hm]
    rw [maskedAsVec_uniform x h1', flatten_length_uniform _ _ (masked_rows_length x h1')]
    simp [Img.nCh]
  · rw [imageAsVec, flatten_length_uniform _ _ h1]; rfl

/-- PROPERTY (images): `from_vector(v).as_vector()` returns `v` for every `v` of `n_parameters` entries
(boolean images: boolean `v`) -/
theorem img_as_from (x x' : Img) (v : Vec) (hc : isImgCls x.cls = true) (hw : x.wf = true)
    (hn : v.length = x.nParams) (hb : x.cls = .BooleanImage → ∀ e ∈ v, e = 0 ∨ e = 1)
    (h : x.fromVec v = .ok x') : x'.asVec = v := by
  obtain ⟨hcar, hsh, hmask, _⟩ := img_carried x x' v hc h
  have hc' : isImgCls x'.cls = true := by rw [hcar]; exact hc
  obtain ⟨h1, h2, _⟩ := (img_wf_iff x).1 hw
  obtain ⟨_, hnp⟩ := img_length_eq_nparams x hc hw
  rw [img_asVec_eq x' hc', hcar]
  rw [img_fromVec_eq x v hc] at h
  repeat' split at h
  · rename_i hm
    simp only [hm, if_true] at hnp ⊢
    have hml : x.mask.length = x.nPix := h2 hm
    rcases maskedFromVector_ok x x' v h with ⟨ht, rfl, hl⟩ | ⟨ht, hn0, _, ⟨hk, rfl⟩ | ⟨hk, _, _⟩⟩
    · simp only [maskedAsVec, ht, if_true]
      exact flatten_chunks _ _ _ (by rw [hl])
    · simp only [maskedAsVec, ht, Bool.false_eq_true, if_false, List.map_map]
      have hrows := chunks_row_length (v.length / x.nCh) x.nCh v
        (by rw [Nat.mul_comm]; exact (Nat.div_mul_cancel (Nat.dvd_of_mod_eq_zero (by assumption))).symm)
      have : List.map ((fun c => maskFilter c x.mask) ∘ scatter 0 x.mask) (chunks (v.length / x.nCh) x.nCh v)
          = chunks (v.length / x.nCh) x.nCh v := by
        conv => rhs; rw [← List.map_id (chunks (v.length / x.nCh) x.nCh v)]
        apply List.map_congr_left
        intro r hr
        simp only [Function.comp, id]
        exact maskFilter_scatter 0 x.mask r (by rw [hrows r hr, hk])
      rw [this]
      exact flatten_chunks _ _ _
        (by rw [Nat.mul_comm]; exact (Nat.div_mul_cancel (Nat.dvd_of_mod_eq_zero (by assumption))).symm)
    · exfalso
      apply hk
      rw [hn, hnp, Nat.mul_comm]
      exact Nat.mul_div_cancel _ (Nat.pos_of_ne_zero hn0)
  · rename_i hm hb'
    obtain ⟨rfl, hl⟩ := booleanFromVector_ok x x' v h
    simp only [hm, if_false, imageAsVec, List.flatten_cons, List.flatten_nil, List.append_nil]
    conv => rhs; rw [← List.map_id v]
    exact List.map_congr_left (fun e he => toBool_id e (hb hb' e he))
  · rename_i hm hb'
    obtain ⟨rfl, hl⟩ := imageFromVector_ok x x' v h
    simp only [hm, if_false, imageAsVec]
    exact flatten_chunks _ _ _ (by rw [hl])

/-- PROPERTY (images): `from_vector(as_vector())` reproduces the complete observable state: Image and
BooleanImage come back identical; a MaskedImage comes back with the same mask, shape, landmarks and the
same pixels under the mask (`as_vector` equal, channel by channel) -/
theorem img_from_as (x : Img) (hc : isImgCls x.cls = true) (hw : x.wf = true) (hch : x.nCh ≠ 0) :
    ∃ x', x.fromVec x.asVec = .ok x' ∧ x'.cls = x.cls ∧ x'.shape = x.shape ∧ x'.mask = x.mask ∧
      x'.lms = x.lms ∧ x'.asVec = x.asVec ∧
      x'.chans.map (fun c => maskFilter c x.mask) = x.chans.map (fun c => maskFilter c x.mask) ∧
      (x.cls ≠ .MaskedImage → x' = x) := by
  obtain ⟨h1, h2, h3⟩ := (img_wf_iff x).1 hw
  have key : ∃ x', x.fromVec x.asVec = .ok x' ∧
      x'.chans.map (fun c => maskFilter c x.mask) = x.chans.map (fun c => maskFilter c x.mask) ∧
      (x.cls ≠ .MaskedImage → x' = x) := by
    rw [img_fromVec_eq x _ hc, img_asVec_eq x hc]
    split
    · rename_i hm
      have hml : x.mask.length = x.nPix := h2 hm
      have h1' : ∀ c ∈ x.chans, c.length = x.mask.length := fun c hcm => by rw [h1 c hcm, hml]
      have hrows := masked_rows_length x h1'
      have hlen := flatten_length_uniform _ _ hrows
      simp only [List.length_map] at hlen
      unfold maskedFromVector
      split
      · rename_i ht
        simp only [maskedAsVec, ht, if_true]
        have hl : x.chans.flatten.length = x.nCh * x.nPix := flatten_length_uniform _ _ h1
        rw [if_pos hl, show x.nCh = x.chans.length from rfl, chunks_flatten _ _ h1]
        exact ⟨_, rfl, rfl, fun h => absurd hm h⟩
      · rename_i ht
        rw [maskedAsVec_uniform x h1']
        have hdiv : (x.chans.map (fun c => maskFilter c x.mask)).flatten.length / x.nCh = countTrue x.mask := by
          rw [hlen, show x.nCh = x.chans.length from rfl, Nat.mul_comm]
          exact Nat.mul_div_cancel _ (Nat.pos_of_ne_zero hch)
        have hmod : (x.chans.map (fun c => maskFilter c x.mask)).flatten.length % x.nCh = 0 := by
          rw [hlen, show x.nCh = x.chans.length from rfl]; exact Nat.mul_mod_right _ _
        rw [if_neg (by rw [hmod]; simp)]
        simp only [hdiv, if_true]
        have hchunks : chunks (countTrue x.mask) x.nCh (x.chans.map (fun c => maskFilter c x.mask)).flatten
            = x.chans.map (fun c => maskFilter c x.mask) := by
          have := chunks_flatten _ _ hrows
          simpa [Img.nCh] using this
        rw [hchunks]
        refine ⟨_, rfl, ?_, fun h => absurd hm h⟩
        simp only [List.map_map]
        apply List.map_congr_left
        intro c hcm
        simp only [Function.comp]
        exact maskFilter_scatter 0 x.mask _ (maskFilter_length c x.mask (h1' c hcm))
    · rename_i hm
      split
      · rename_i hb
        obtain ⟨hn1, h01⟩ := h3 hb
        obtain ⟨cls, shape, chans, mask, lms⟩ := x
        simp only [Img.nCh] at hn1
        match chans, hn1 with
        | [c], _ =>
          have hcl : c.length = prod shape := h1 c (by simp)
          have : c.map toBool = c := by
            conv => rhs; rw [← List.map_id c]
            exact List.map_congr_left (fun e he => toBool_id e (h01 c (by simp) e he))
          simp [booleanFromVector, imageAsVec, Img.nPix, hcl, this]
      · unfold imageFromVector imageAsVec
        have hl : x.chans.flatten.length = x.nCh * x.nPix := flatten_length_uniform _ _ h1
        rw [if_pos hl, show x.nCh = x.chans.length from rfl, chunks_flatten _ _ h1]
        exact ⟨_, rfl, rfl, fun _ => rfl⟩
  obtain ⟨x', hx, hpix, hid⟩ := key
  obtain ⟨hcar, hsh, hmask, hlms⟩ := img_carried x x' _ hc hx
  refine ⟨x', hx, hcar, hsh, hmask, hlms, ?_, hpix, hid⟩
  by_cases hm : x.cls = .MaskedImage
  · have hc' : isImgCls x'.cls = true := by rw [hcar]; exact hc
    obtain ⟨h1x, h2x, _⟩ := (img_wf_iff x').1 (img_from_vector_wellformed x x' _ hc hw hx)
    have hml : x.mask.length = x.nPix := h2 hm
    have hpix' : x'.nPix = x.nPix := by simp [Img.nPix, hsh]
    rw [img_asVec_eq x' hc', img_asVec_eq x hc, hcar, if_pos hm, if_pos hm,
      maskedAsVec_uniform x (fun c hcm => by rw [h1 c hcm, hml]),
      maskedAsVec_uniform x' (fun c hcm => by rw [h1x c hcm, hmask, hml, hpix']), hmask, hpix]
  · rw [hid hm]

theorem allTrue_getElem (m : List Bool) (p : Nat) (h : allTrue m = true) : m[p]? ≠ some false := by
  intro hp
  have hm : false ∈ m := List.mem_of_getElem? hp
  simp only [allTrue, List.all_eq_true] at h
  exact absurd (h false hm) (by simp)

/-- PROPERTY (masked images, layout of the vector): channel-major, raster order under the mask — entry
`c * n_true + (number of true pixels before p)` of `as_vector()` is pixel `p` of channel `c`, for every
pixel `p` under the mask -/
theorem masked_vector_layout (x : Img) (hm : x.cls = .MaskedImage) (hw : x.wf = true) (c p : Nat)
    (hp : x.mask[p]? = some true) :
    x.asVec[c * countTrue x.mask + rank x.mask p]? = (x.chans[c]?).bind (fun ch => ch[p]?) := by
  obtain ⟨h1, h2, _⟩ := (img_wf_iff x).1 hw
  have hml : x.mask.length = x.nPix := h2 hm
  have h1' : ∀ c ∈ x.chans, c.length = x.mask.length := fun c hcm => by rw [h1 c hcm, hml]
  rw [img_asVec_eq x (by simp [isImgCls, hm]), if_pos hm, maskedAsVec_uniform x h1',
    flatten_getElem_uniform _ _ (masked_rows_length x h1') c _ (rank_lt_countTrue x.mask p hp)]
  simp only [List.getElem?_map]
  cases hcc : x.chans[c]? with
  | none => rfl
  | some ch =>
    simp only [Option.map_some, Option.bind_some]
    exact maskFilter_rank ch x.mask p (h1' ch (List.mem_of_getElem? hcc)) hp

/-- PROPERTY (masked images): `from_vector` leaves zero at every pixel outside the mask, in every channel -/
theorem masked_zero_elsewhere (x x' : Img) (v : Vec) (hm : x.cls = .MaskedImage)
    (h : x.fromVec v = .ok x') (p : Nat) (hp : x.mask[p]? = some false) :
    ∀ ch ∈ x'.chans, ch[p]? = some 0 := by
  rw [img_fromVec_eq x v (by simp [isImgCls, hm]), if_pos hm] at h
  rcases maskedFromVector_ok x x' v h with ⟨ht, _, _⟩ | ⟨_, _, _, ⟨_, rfl⟩ | ⟨_, _, rfl⟩⟩
  · exact absurd hp (allTrue_getElem x.mask p ht)
  · intro ch hch
    simp only [List.mem_map] at hch
    obtain ⟨r, _, rfl⟩ := hch
    exact scatter_false 0 x.mask r p hp
  · intro ch hch
    simp only [List.mem_map] at hch
    obtain ⟨r, _, rfl⟩ := hch
    exact scatter_false 0 x.mask _ p hp


/-! ## transforms -/

def isXfCls (c : Cls) : Bool :=
  match c with
  | .Homogeneous | .Affine | .Similarity | .Translation | .UniformScale | .NonUniformScale | .Rotation
  | .AlignmentAffine | .AlignmentSimilarity | .AlignmentTranslation | .AlignmentUniformScale
  | .AlignmentRotation => true
  | _ => false

theorem sq3 (h : Mat) (hs : isSquare h 3 = true) :
    ∃ a b c d e f g i j : Rat, h = [[a, b, c], [d, e, f], [g, i, j]] := by
  simp only [isSquare, Bool.and_eq_true, beq_iff_eq, List.all_eq_true] at hs
  obtain ⟨hl, hr⟩ := hs
  match h, hl, hr with
  | [r0, r1, r2], _, hr =>
    have h0 := hr r0 (by simp); have h1 := hr r1 (by simp); have h2 := hr r2 (by simp)
    match r0, r1, r2, h0, h1, h2 with
    | [a, b, c], [d, e, f], [g, i, j], _, _, _ => exact ⟨a, b, c, d, e, f, g, i, j, rfl⟩

theorem sq4 (h : Mat) (hs : isSquare h 4 = true) :
    ∃ a b c t d e f u g i j w k l m n : Rat,
      h = [[a, b, c, t], [d, e, f, u], [g, i, j, w], [k, l, m, n]] := by
  simp only [isSquare, Bool.and_eq_true, beq_iff_eq, List.all_eq_true] at hs
  obtain ⟨hl, hr⟩ := hs
  match h, hl, hr with
  | [r0, r1, r2, r3], _, hr =>
    have h0 := hr r0 (by simp); have h1 := hr r1 (by simp); have h2 := hr r2 (by simp)
    have h3 := hr r3 (by simp)
    match r0, r1, r2, r3, h0, h1, h2, h3 with
    | [a, b, c, t], [d, e, f, u], [g, i, j, w], [k, l, m, n], _, _, _, _ =>
      exact ⟨a, b, c, t, d, e, f, u, g, i, j, w, k, l, m, n, rfl⟩

/-- an affine-family matrix is a literal 3×3 or 4×4 matrix with bottom row `[0 … 0 1]` -/
theorem affineWF_lit (h : Mat) (hw : affineWF h = true) :
    (∃ a b c d e f : Rat, h = [[a, b, c], [d, e, f], [0, 0, 1]]) ∨
    (∃ a b c t d e f u g i j w : Rat, h = [[a, b, c, t], [d, e, f, u], [g, i, j, w], [0, 0, 0, 1]]) := by
  simp only [affineWF, Bool.and_eq_true, Bool.or_eq_true] at hw
  obtain ⟨hs, hl⟩ := hw
  rcases hs with hs | hs
  · obtain ⟨a, b, c, d, e, f, g, i, j, rfl⟩ := sq3 h hs
    left
    simp [unitLast, List.replicate] at hl
    obtain ⟨rfl, rfl, rfl⟩ := hl
    exact ⟨a, b, c, d, e, f, rfl⟩
  · obtain ⟨a, b, c, t, d, e, f, u, g, i, j, w, k, l, m, n, rfl⟩ := sq4 h hs
    right
    simp [unitLast, List.replicate] at hl
    obtain ⟨rfl, rfl, rfl, rfl⟩ := hl
    exact ⟨a, b, c, t, d, e, f, u, g, i, j, w, rfl⟩

/-! ### dispatch equations (each by evaluation of the method-resolution table) -/
section dispatch
variable (V : Variant) (h s t : Mat) (v : Vec)
theorem fromVec_Homogeneous : Xf.fromVec V ⟨.Homogeneous, h, s, t⟩ v = homogFvi (rowOf .Homogeneous) ⟨.Homogeneous, h, s, t⟩ v := rfl
theorem fromVec_Affine : Xf.fromVec V ⟨.Affine, h, s, t⟩ v = affineFvi V (rowOf .Affine) ⟨.Affine, h, s, t⟩ v := rfl
theorem fromVec_Similarity : Xf.fromVec V ⟨.Similarity, h, s, t⟩ v = similarityFvi (rowOf .Similarity) ⟨.Similarity, h, s, t⟩ v := rfl
theorem fromVec_Translation : Xf.fromVec V ⟨.Translation, h, s, t⟩ v = translationFvi ⟨.Translation, h, s, t⟩ v := rfl
theorem fromVec_UniformScale : Xf.fromVec V ⟨.UniformScale, h, s, t⟩ v = uniformScaleFvi V ⟨.UniformScale, h, s, t⟩ v := rfl
theorem fromVec_NonUniformScale : Xf.fromVec V ⟨.NonUniformScale, h, s, t⟩ v = nonUniformScaleFvi ⟨.NonUniformScale, h, s, t⟩ v := rfl
theorem fromVec_Rotation : Xf.fromVec V ⟨.Rotation, h, s, t⟩ v = rotationFvi (rowOf .Rotation) ⟨.Rotation, h, s, t⟩ v := rfl
theorem fromVec_AlignmentAffine : Xf.fromVec V ⟨.AlignmentAffine, h, s, t⟩ v = affineFvi V (rowOf .AlignmentAffine) ⟨.AlignmentAffine, h, s, t⟩ v := rfl
theorem fromVec_AlignmentSimilarity : Xf.fromVec V ⟨.AlignmentSimilarity, h, s, t⟩ v = bindSync (similarityFvi (rowOf .AlignmentSimilarity) ⟨.AlignmentSimilarity, h, s, t⟩ v) := rfl
theorem fromVec_AlignmentTranslation : Xf.fromVec V ⟨.AlignmentTranslation, h, s, t⟩ v = bindSync (translationFvi ⟨.AlignmentTranslation, h, s, t⟩ v) := rfl
theorem fromVec_AlignmentUniformScale : Xf.fromVec V ⟨.AlignmentUniformScale, h, s, t⟩ v = bindSync (uniformScaleFvi V ⟨.AlignmentUniformScale, h, s, t⟩ v) := rfl
theorem fromVec_AlignmentRotation : Xf.fromVec V ⟨.AlignmentRotation, h, s, t⟩ v = rotationFvi (rowOf .AlignmentRotation) ⟨.AlignmentRotation, h, s, t⟩ v := rfl
end dispatch

theorem syncTarget_ok (y x' : Xf) (h : syncTarget y = .ok x') :
    x'.cls = y.cls ∧ x'.h = y.h ∧ x'.src = y.src ∧ applyAff x'.h x'.src = .ok x'.tgt := by
  unfold syncTarget at h
  split at h
  · rename_i t ht
    injection h with h; subst h; exact ⟨rfl, rfl, rfl, ht⟩
  · cases h

theorem bindSync_ok (e : Except Err Xf) (x' : Xf) (h : bindSync e = .ok x') :
    ∃ y, e = .ok y ∧ syncTarget y = .ok x' := by
  unfold bindSync at h
  split at h
  · exact ⟨_, rfl, h⟩
  · cases h

theorem setH_ok (r : Row) (x x' : Xf) (hn : Mat) (h : setH r x hn = .ok x') :
    x'.cls = x.cls ∧ x'.h = hn ∧ x'.src = x.src ∧
    ((r.setH = .AlignmentAffine ∧ applyAff x'.h x'.src = .ok x'.tgt) ∨
     (r.setH ≠ .AlignmentAffine ∧ x'.tgt = x.tgt)) := by
  unfold setH at h
  split at h
  · rename_i hr
    obtain ⟨h1, h2, h3, h4⟩ := syncTarget_ok _ _ h
    exact ⟨h1, h2, h3, Or.inl ⟨hr, h4⟩⟩
  · rename_i hr
    injection h with h; subst h
    exact ⟨rfl, rfl, rfl, Or.inr ⟨by rw [hr]; simp, rfl⟩⟩
  · rename_i hr
    injection h with h; subst h
    exact ⟨rfl, rfl, rfl, Or.inr ⟨by rw [hr]; simp, rfl⟩⟩
  · cases h

theorem setRot_ok (r : Row) (x x' : Xf) (R : Mat) (h : setRot r x R = .ok x') :
    x'.cls = x.cls ∧ x'.h = setRotBase x.h R ∧ x'.src = x.src ∧
    ((r.setRot = .AlignmentRotation ∧ applyAff x'.h x'.src = .ok x'.tgt) ∨
     (r.setRot ≠ .AlignmentRotation ∧ x'.tgt = x.tgt)) := by
  unfold setRot at h
  split at h
  · rename_i hr
    obtain ⟨h1, h2, h3, h4⟩ := syncTarget_ok _ _ h
    exact ⟨h1, h2, h3, Or.inl ⟨hr, h4⟩⟩
  · rename_i hr
    injection h with h; subst h
    exact ⟨rfl, rfl, rfl, Or.inr ⟨by rw [hr]; simp, rfl⟩⟩
  · cases h

theorem xf_wf_align (x : Xf) (ha : isAlignCls x.cls = true) (hw : x.wf = true) :
    applyAff x.h x.src = .ok x.tgt := by
  simp only [Xf.wf, Bool.and_eq_true, Bool.or_eq_true, ha, Bool.not_true, Bool.false_eq_true, false_or] at hw
  obtain ⟨_, hw⟩ := hw
  split at hw
  · rename_i t ht; rw [ht]; simp at hw; rw [hw]
  · cases hw

/-- PROPERTY (alignment transforms), for receivers whose target was ALREADY the aligned source (`x.wf`; not true of a
freshly constructed alignment — see `alignment_target_resynced_any` for the statement without that hypothesis, which
covers every receiver but cannot speak about a sub-eps quaternion): after a parameter update the target equals the
aligned source, and the source is the receiver's -/
theorem alignment_target_resynced (V : Variant) (x x' : Xf) (v : Vec) (ha : isAlignCls x.cls = true)
    (hw : x.wf = true) (h : x.fromVec V v = .ok x') :
    applyAff x'.h x'.src = .ok x'.tgt ∧ x'.src = x.src ∧ x'.cls = x.cls := by
  have hx := xf_wf_align x ha hw
  obtain ⟨cls, hm, s, t⟩ := x
  cases cls <;> simp [isAlignCls] at ha
  · -- AlignmentAffine
    rw [fromVec_AlignmentAffine] at h
    unfold affineFvi at h
    repeat' split at h
    all_goals first | (cases h; done) | skip
    all_goals
      obtain ⟨h1, _, h3, h4⟩ := setH_ok _ _ _ _ h
      rcases h4 with ⟨_, h4⟩ | ⟨h4, _⟩
      · exact ⟨h4, h3, h1⟩
      · exact absurd rfl h4
  · -- AlignmentSimilarity
    rw [fromVec_AlignmentSimilarity] at h
    obtain ⟨y, hy, hs⟩ := bindSync_ok _ _ h
    obtain ⟨h1, _, h3, h4⟩ := syncTarget_ok _ _ hs
    unfold similarityFvi at hy
    repeat' split at hy
    all_goals first | (cases hy; done) | skip
    obtain ⟨g1, _, g3, _⟩ := setH_ok _ _ _ _ hy
    exact ⟨h4, h3.trans g3, h1.trans g1⟩
  · -- AlignmentTranslation
    rw [fromVec_AlignmentTranslation] at h
    obtain ⟨y, hy, hs⟩ := bindSync_ok _ _ h
    obtain ⟨h1, _, h3, h4⟩ := syncTarget_ok _ _ hs
    unfold translationFvi at hy
    dsimp only at hy
    repeat' split at hy
    all_goals first | (cases hy; done) | skip
    all_goals (injection hy with hy; subst hy; exact ⟨h4, h3, h1⟩)
  · -- AlignmentUniformScale
    rw [fromVec_AlignmentUniformScale] at h
    obtain ⟨y, hy, hs⟩ := bindSync_ok _ _ h
    obtain ⟨h1, _, h3, h4⟩ := syncTarget_ok _ _ hs
    unfold uniformScaleFvi at hy
    repeat' split at hy
    all_goals first | (cases hy; done) | skip
    all_goals (injection hy with hy; subst hy; exact ⟨h4, h3, h1⟩)
  · -- AlignmentRotation
    rw [fromVec_AlignmentRotation] at h
    unfold rotationFvi at h
    repeat' split at h
    all_goals first | (cases h; done) | skip
    · injection h with h; subst h; exact ⟨hx, rfl, rfl⟩
    · obtain ⟨h1, _, h3, h4⟩ := setRot_ok _ _ _ _ h
      rcases h4 with ⟨_, h4⟩ | ⟨h4, _⟩
      · exact ⟨h4, h3, h1⟩
      · exact absurd rfl h4

/-- PROPERTY (alignment transforms), WITHOUT any assumption on the receiver's target: whatever target the alignment was
built with (the constructors keep the caller's target, which is in general NOT the aligned source), after a parameter
update through `from_vector` the target IS the aligned source.  The only proviso is the one the code itself makes: a
quaternion of squared norm below `4 eps` makes `Rotation._from_vector_inplace` return without touching the object
(outside the property's quantifier: unit quaternions). -/
theorem alignment_target_resynced_any (V : Variant) (x x' : Xf) (v : Vec) (ha : isAlignCls x.cls = true)
    (hq : x.cls = .AlignmentRotation → ∀ w a b c : Rat, v = [w, a, b, c] → ¬ (w * w + a * a + b * b + c * c < eps4))
    (h : x.fromVec V v = .ok x') :
    applyAff x'.h x'.src = .ok x'.tgt ∧ x'.src = x.src ∧ x'.cls = x.cls := by
  obtain ⟨cls, hm, s, t⟩ := x
  cases cls <;> simp [isAlignCls] at ha
  · -- AlignmentAffine
    rw [fromVec_AlignmentAffine] at h
    unfold affineFvi at h
    repeat' split at h
    all_goals first | (cases h; done) | skip
    all_goals
      obtain ⟨h1, _, h3, h4⟩ := setH_ok _ _ _ _ h
      rcases h4 with ⟨_, h4⟩ | ⟨h4, _⟩
      · exact ⟨h4, h3, h1⟩
      · exact absurd rfl h4
  · -- AlignmentSimilarity
    rw [fromVec_AlignmentSimilarity] at h
    obtain ⟨y, hy, hs⟩ := bindSync_ok _ _ h
    obtain ⟨h1, _, h3, h4⟩ := syncTarget_ok _ _ hs
    unfold similarityFvi at hy
    repeat' split at hy
    all_goals first | (cases hy; done) | skip
    obtain ⟨g1, _, g3, _⟩ := setH_ok _ _ _ _ hy
    exact ⟨h4, h3.trans g3, h1.trans g1⟩
  · -- AlignmentTranslation
    rw [fromVec_AlignmentTranslation] at h
    obtain ⟨y, hy, hs⟩ := bindSync_ok _ _ h
    obtain ⟨h1, _, h3, h4⟩ := syncTarget_ok _ _ hs
    unfold translationFvi at hy
    dsimp only at hy
    repeat' split at hy
    all_goals first | (cases hy; done) | skip
    all_goals (injection hy with hy; subst hy; exact ⟨h4, h3, h1⟩)
  · -- AlignmentUniformScale
    rw [fromVec_AlignmentUniformScale] at h
    obtain ⟨y, hy, hs⟩ := bindSync_ok _ _ h
    obtain ⟨h1, _, h3, h4⟩ := syncTarget_ok _ _ hs
    unfold uniformScaleFvi at hy
    repeat' split at hy
    all_goals first | (cases hy; done) | skip
    all_goals (injection hy with hy; subst hy; exact ⟨h4, h3, h1⟩)
  · -- AlignmentRotation
    rw [fromVec_AlignmentRotation] at h
    unfold rotationFvi at h
    repeat' split at h
    all_goals first | (cases h; done) | skip
    · rename_i w a b c hlt
      exact absurd hlt (hq rfl w a b c rfl)
    · obtain ⟨h1, _, h3, h4⟩ := setRot_ok _ _ _ _ h
      rcases h4 with ⟨_, h4⟩ | ⟨h4, _⟩
      · exact ⟨h4, h3, h1⟩
      · exact absurd rfl h4

/-- non-vacuity of `alignment_target_resynced_any`: an alignment whose target is NOT the aligned source (as every
freshly constructed one) -/
def exAlignU : Xf := ⟨.AlignmentTranslation, [[1, 0, 2], [0, 1, 3], [0, 0, 1]], [[0, 0], [1, 0], [0, 1]],
  [[7, -1], [4, 4], [0, 9]]⟩
example : exAlignU.wf = false := by decide +kernel
example : exAlignU.fromVec fixed [10, 20] =
    .ok ⟨.AlignmentTranslation, [[1, 0, 10], [0, 1, 20], [0, 0, 1]], [[0, 0], [1, 0], [0, 1]],
      [[10, 20], [11, 20], [10, 21]]⟩ := by decide +kernel

/-! ### well-formedness of whatever the patched `from_vector` accepts, supplier by supplier -/

theorem affineFvi_wf (r : Row) (x x' : Xf) (p : Vec) (h : affineFvi fixed r x p = .ok x') :
    affineWF x'.h = true ∧ (p.length = 6 ∨ p.length = 12) ∧ x'.cls = x.cls := by
  unfold affineFvi at h
  repeat' split at h
  all_goals first | (cases h; done) | skip
  all_goals first
    | (exfalso; rename_i hf; exact hf rfl)
    | (obtain ⟨h1, h2, _, _⟩ := setH_ok _ _ _ _ h
       rw [h2]
       simp [affineWF, isSquare, unitLast, List.replicate, h1])

theorem similarityFvi_wf (r : Row) (x x' : Xf) (p : Vec) (h : similarityFvi r x p = .ok x') :
    ∃ a b tx ty, p = [a, b, tx, ty] ∧ x'.h = [[1 + a, -b, tx], [b, 1 + a, ty], [0, 0, 1]] ∧ x'.cls = x.cls := by
  unfold similarityFvi at h
  repeat' split at h
  all_goals first | (cases h; done) | skip
  obtain ⟨h1, h2, _, _⟩ := setH_ok _ _ _ _ h
  exact ⟨_, _, _, _, rfl, h2, h1⟩

theorem translationFvi_wf (x x' : Xf) (p : Vec) (hw : Xf.wfH .Translation x.h = true)
    (h : translationFvi x p = .ok x') : Xf.wfH .Translation x'.h = true := by
  obtain ⟨cls, hm, s, t⟩ := x
  have haff : affineWF hm = true := by
    simp only [Xf.wfH, Bool.and_eq_true] at hw; exact hw.1.1
  rcases affineWF_lit _ haff with ⟨a, b, c, d, e, f, rfl⟩ | ⟨a, b, c, t', d, e, f, u, g, i, j, w, rfl⟩
  · simp [Xf.wfH, affineWF, isSquare, unitLast, offDiagZeroAux, diag, diagAux, List.replicate] at hw
    obtain ⟨⟨rfl, rfl⟩, rfl, rfl⟩ := hw
    unfold translationFvi at h
    simp at h
    split at h
    · rename_i hp
      match p, hp with
      | [t1, t2], _ =>
        injection h with h; subst h
        simp [Xf.wfH, affineWF, isSquare, unitLast, offDiagZeroAux, diag, diagAux, List.replicate]
    · split at h
      · injection h with h; subst h
        simp [Xf.wfH, affineWF, isSquare, unitLast, offDiagZeroAux, diag, diagAux, List.replicate]
      · cases h
  · simp [Xf.wfH, affineWF, isSquare, unitLast, offDiagZeroAux, diag, diagAux, List.replicate] at hw
    obtain ⟨⟨⟨rfl, rfl⟩, ⟨rfl, rfl⟩, rfl, rfl⟩, rfl, rfl, rfl⟩ := hw
    unfold translationFvi at h
    simp at h
    split at h
    · rename_i hp
      match p, hp with
      | [t1, t2, t3], _ =>
        injection h with h; subst h
        simp [Xf.wfH, affineWF, isSquare, unitLast, offDiagZeroAux, diag, diagAux, List.replicate]
    · split at h
      · injection h with h; subst h
        simp [Xf.wfH, affineWF, isSquare, unitLast, offDiagZeroAux, diag, diagAux, List.replicate]
      · cases h

theorem uniformScaleFvi_wf (x x' : Xf) (p : Vec) (hw : Xf.wfH .UniformScale x.h = true)
    (h : uniformScaleFvi fixed x p = .ok x') : Xf.wfH .UniformScale x'.h = true ∧ p.length = 1 := by
  obtain ⟨cls, hm, s, t⟩ := x
  have haff : affineWF hm = true := by
    simp only [Xf.wfH, Bool.and_eq_true] at hw; exact hw.1.1
  unfold uniformScaleFvi at h
  split at h
  · cases h
  · rename_i hp
    simp [fixed] at hp
    match p, hp with
    | [k], _ =>
      injection h with h; subst h
      refine ⟨?_, rfl⟩
      rcases affineWF_lit _ haff with ⟨a, b, c, d, e, f, rfl⟩ | ⟨a, b, c, t', d, e, f, u, g, i, j, w, rfl⟩
      · simp [Xf.wfH, affineWF, isSquare, unitLast, linearDiagonal, offDiagZeroAux, diag, diagAux, allEq,
          List.replicate] at hw
        simp [Xf.wfH, affineWF, isSquare, unitLast, linearDiagonal, offDiagZeroAux, diag, diagAux, allEq,
          List.replicate, fillDiagOne, fillDiagAux, cyc, hw]
      · simp [Xf.wfH, affineWF, isSquare, unitLast, linearDiagonal, offDiagZeroAux, diag, diagAux, allEq,
          List.replicate] at hw
        simp [Xf.wfH, affineWF, isSquare, unitLast, linearDiagonal, offDiagZeroAux, diag, diagAux, allEq,
          List.replicate, fillDiagOne, fillDiagAux, cyc, hw]

theorem nonUniformScaleFvi_wf (x x' : Xf) (p : Vec) (hw : Xf.wfH .NonUniformScale x.h = true)
    (h : nonUniformScaleFvi x p = .ok x') : Xf.wfH .NonUniformScale x'.h = true := by
  obtain ⟨cls, hm, s, t⟩ := x
  have haff : affineWF hm = true := by
    simp only [Xf.wfH, Bool.and_eq_true] at hw; exact hw.1
  unfold nonUniformScaleFvi at h
  injection h with h; subst h
  rcases affineWF_lit _ haff with ⟨a, b, c, d, e, f, rfl⟩ | ⟨a, b, c, t', d, e, f, u, g, i, j, w, rfl⟩
  · simp [Xf.wfH, affineWF, isSquare, unitLast, linearDiagonal, offDiagZeroAux, List.replicate] at hw
    simp [Xf.wfH, affineWF, isSquare, unitLast, linearDiagonal, offDiagZeroAux,
      List.replicate, fillDiagOne, fillDiagAux, hw]
  · simp [Xf.wfH, affineWF, isSquare, unitLast, linearDiagonal, offDiagZeroAux, List.replicate] at hw
    simp [Xf.wfH, affineWF, isSquare, unitLast, linearDiagonal, offDiagZeroAux,
      List.replicate, fillDiagOne, fillDiagAux, hw]

theorem rotationFvi_wf (r : Row) (x x' : Xf) (p : Vec) (hw : Xf.wfH .Rotation x.h = true)
    (h : rotationFvi r x p = .ok x') : Xf.wfH .Rotation x'.h = true ∧ p.length = 4 := by
  obtain ⟨cls, hm, s, t⟩ := x
  have haff : affineWF hm = true := by
    simp only [Xf.wfH, Bool.and_eq_true] at hw; exact hw.1
  rcases affineWF_lit _ haff with ⟨a, b, c, d, e, f, rfl⟩ | ⟨a, b, c, t', d, e, f, u, g, i, j, w, rfl⟩
  · simp [rotationFvi] at h
  · unfold rotationFvi at h
    repeat' split at h
    all_goals first | (cases h; done) | skip
    · injection h with h; subst h; exact ⟨hw, rfl⟩
    · refine ⟨?_, rfl⟩
      obtain ⟨_, h2, _, _⟩ := setRot_ok _ _ _ _ h
      rw [h2]
      simp [Xf.wfH, affineWF, isSquare, unitLast, List.replicate] at hw
      simp [Xf.wfH, affineWF, isSquare, unitLast, List.replicate, setRotBase, quatMatrix, hw]

theorem xf_cls_preserved (V : Variant) (x x' : Xf) (v : Vec) (h : x.fromVec V v = .ok x') : x'.cls = x.cls := by
  obtain ⟨cls, hm, s, t⟩ := x
  cases cls
  all_goals first | (cases h; done) | skip
  · rw [fromVec_Homogeneous] at h
    unfold homogFvi at h; dsimp only at h
    split at h
    · exact (setH_ok _ _ _ _ h).1
    · cases h
  · rw [fromVec_Affine] at h
    unfold affineFvi at h
    repeat' split at h
    all_goals first | (cases h; done) | exact (setH_ok _ _ _ _ h).1
  · rw [fromVec_Similarity] at h
    unfold similarityFvi at h
    repeat' split at h
    all_goals first | (cases h; done) | exact (setH_ok _ _ _ _ h).1
  · rw [fromVec_Translation] at h
    unfold translationFvi at h; dsimp only at h
    repeat' split at h
    all_goals first | (cases h; done) | (injection h with h; subst h; rfl)
  · rw [fromVec_UniformScale] at h
    unfold uniformScaleFvi at h
    repeat' split at h
    all_goals first | (cases h; done) | (injection h with h; subst h; rfl)
  · rw [fromVec_NonUniformScale] at h
    unfold nonUniformScaleFvi at h
    injection h with h; subst h; rfl
  · rw [fromVec_Rotation] at h
    unfold rotationFvi at h
    repeat' split at h
    all_goals first | (cases h; done) | (injection h with h; subst h; rfl) | exact (setRot_ok _ _ _ _ h).1
  · rw [fromVec_AlignmentAffine] at h
    unfold affineFvi at h
    repeat' split at h
    all_goals first | (cases h; done) | exact (setH_ok _ _ _ _ h).1
  · rw [fromVec_AlignmentSimilarity] at h
    obtain ⟨y, hy, hs⟩ := bindSync_ok _ _ h
    unfold similarityFvi at hy
    repeat' split at hy
    all_goals first | (cases hy; done) | exact (syncTarget_ok _ _ hs).1.trans (setH_ok _ _ _ _ hy).1
  · rw [fromVec_AlignmentTranslation] at h
    obtain ⟨y, hy, hs⟩ := bindSync_ok _ _ h
    unfold translationFvi at hy; dsimp only at hy
    repeat' split at hy
    all_goals first | (cases hy; done) | (injection hy with hy; subst hy; exact (syncTarget_ok _ _ hs).1)
  · rw [fromVec_AlignmentUniformScale] at h
    obtain ⟨y, hy, hs⟩ := bindSync_ok _ _ h
    unfold uniformScaleFvi at hy
    repeat' split at hy
    all_goals first | (cases hy; done) | (injection hy with hy; subst hy; exact (syncTarget_ok _ _ hs).1)
  · rw [fromVec_AlignmentRotation] at h
    unfold rotationFvi at h
    repeat' split at h
    all_goals first | (cases h; done) | (injection h with h; subst h; rfl) | exact (setRot_ok _ _ _ _ h).1

theorem homogFvi_wf (r : Row) (x x' : Xf) (p : Vec) (hw : Xf.wfH .Homogeneous x.h = true)
    (h : homogFvi r x p = .ok x') : Xf.wfH .Homogeneous x'.h = true := by
  simp only [Xf.wfH, Bool.and_eq_true, decide_eq_true_eq, beq_iff_eq, List.all_eq_true] at hw
  obtain ⟨⟨h2, hc2⟩, _⟩ := hw
  unfold homogFvi at h; dsimp only at h
  split at h
  · rename_i hl
    obtain ⟨_, hh, _, _⟩ := setH_ok _ _ _ _ h
    have hrows := chunks_row_length (x.h.headD []).length x.h.length p hl
    have hlen : (chunks (x.h.headD []).length x.h.length p).length = x.h.length := chunks_length _ _ _
    have hhead : ((chunks (x.h.headD []).length x.h.length p).headD []).length = (x.h.headD []).length := by
      cases hc : chunks (x.h.headD []).length x.h.length p with
      | nil => rw [hc] at hlen; simp at hlen; omega
      | cons r0 rs => rw [hc] at hrows; simpa using hrows r0 (by simp)
    rw [hh]
    simp only [Xf.wfH, Bool.and_eq_true, decide_eq_true_eq, beq_iff_eq, List.all_eq_true, hlen, hhead]
    exact ⟨⟨h2, hc2⟩, hrows⟩
  · cases h

/-- PROPERTY (transforms, every length, patched behaviour): whatever `from_vector` accepts is a well-formed
transform of the same class — wrong lengths are rejected or (Translation / NonUniformScale: numpy
broadcasting of the assignment) give a matrix satisfying the class invariant -/
theorem xf_wrong_length_fixed (x x' : Xf) (v : Vec) (hc : isXfCls x.cls = true)
    (hw : Xf.wfH x.cls x.h = true) (h : x.fromVec fixed v = .ok x') :
    x'.cls = x.cls ∧ Xf.wfH x'.cls x'.h = true := by
  have hcls := xf_cls_preserved fixed x x' v h
  refine ⟨hcls, ?_⟩
  rw [hcls]
  obtain ⟨cls, hm, s, t⟩ := x
  cases cls <;> simp [isXfCls] at hc
  · rw [fromVec_Homogeneous] at h; exact homogFvi_wf _ _ _ _ hw h
  · rw [fromVec_Affine] at h; exact (affineFvi_wf _ _ _ _ h).1
  · rw [fromVec_Similarity] at h
    obtain ⟨a, b, tx, ty, _, hh, _⟩ := similarityFvi_wf _ _ _ _ h
    rw [hh]; simp [Xf.wfH, affineWF, isSquare, unitLast, List.replicate]
  · rw [fromVec_Translation] at h; exact translationFvi_wf _ _ _ hw h
  · rw [fromVec_UniformScale] at h; exact (uniformScaleFvi_wf _ _ _ hw h).1
  · rw [fromVec_NonUniformScale] at h; exact nonUniformScaleFvi_wf _ _ _ hw h
  · rw [fromVec_Rotation] at h; exact (rotationFvi_wf _ _ _ _ hw h).1
  · rw [fromVec_AlignmentAffine] at h; exact (affineFvi_wf _ _ _ _ h).1
  · rw [fromVec_AlignmentSimilarity] at h
    obtain ⟨y, hy, hs⟩ := bindSync_ok _ _ h
    obtain ⟨a, b, tx, ty, _, hh, _⟩ := similarityFvi_wf _ _ _ _ hy
    rw [(syncTarget_ok _ _ hs).2.1, hh]; simp [Xf.wfH, affineWF, isSquare, unitLast, List.replicate]
  · rw [fromVec_AlignmentTranslation] at h
    obtain ⟨y, hy, hs⟩ := bindSync_ok _ _ h
    rw [(syncTarget_ok _ _ hs).2.1]; exact translationFvi_wf _ _ _ hw hy
  · rw [fromVec_AlignmentUniformScale] at h
    obtain ⟨y, hy, hs⟩ := bindSync_ok _ _ h
    rw [(syncTarget_ok _ _ hs).2.1]; exact (uniformScaleFvi_wf _ _ _ hw hy).1
  · rw [fromVec_AlignmentRotation] at h; exact (rotationFvi_wf _ _ _ _ hw h).1

/-- the coded `Affine._from_vector_inplace` forgets `raise` (DESIGN §7 #2): a wrong length is accepted and
the result has no matrix -/
theorem affine_wrong_length_coded_refuted :
    ∃ (x x' : Xf) (v : Vec), x.cls = .Affine ∧ Xf.wfH x.cls x.h = true ∧ x.fromVec coded v = .ok x' ∧
      x'.h = [] ∧ Xf.wfH x'.cls x'.h = false :=
  ⟨⟨.Affine, [[1, 0, 0], [0, 1, 0], [0, 0, 1]], [], []⟩, ⟨.Affine, [], [], []⟩, [1, 2, 3, 4, 5],
   rfl, by decide, rfl, rfl, by decide⟩

/-- the coded `UniformScale._from_vector_inplace` has no length check: `np.fill_diagonal` cycles through a
longer vector and a UniformScale with a non-uniform diagonal comes back -/
theorem uscale_wrong_length_coded_refuted :
    ∃ (x x' : Xf) (v : Vec), x.cls = .UniformScale ∧ Xf.wfH x.cls x.h = true ∧ x.fromVec coded v = .ok x' ∧
      x'.h = [[3, 0, 0], [0, 5, 0], [0, 0, 1]] ∧ Xf.wfH x'.cls x'.h = false :=
  ⟨⟨.UniformScale, [[2, 0, 0], [0, 2, 0], [0, 0, 1]], [], []⟩,
   ⟨.UniformScale, [[3, 0, 0], [0, 5, 0], [0, 0, 1]], [], []⟩, [3, 5],
   rfl, by decide, by decide, rfl, by decide⟩

/-- `_as_vector` of the uniform scales is 0-dimensional as coded (DESIGN §7 #3) and 1-dimensional, like
every other class, once patched -/
theorem uscale_ndim : (∀ x : Xf, x.asVecNdim fixed = 1) ∧
    (∃ x : Xf, x.cls = .UniformScale ∧ x.asVecNdim coded = 0) := by
  refine ⟨fun x => ?_, ⟨⟨.UniformScale, [], [], []⟩, rfl, rfl⟩⟩
  unfold Xf.asVecNdim
  split <;> rfl

theorem asVecWith_eq (eig : Mat → Vec) (x : Xf) : x.asVecWith eig =
    match x.cls with
    | .Homogeneous => homogAsVec x.h
    | .Affine | .AlignmentAffine => affineAsVec x.h
    | .Similarity | .AlignmentSimilarity => similarityAsVec x.h
    | .Translation | .AlignmentTranslation => translationAsVec x.h
    | .UniformScale | .AlignmentUniformScale => uniformScaleAsVec x.h
    | .NonUniformScale => nonUniformScaleAsVec x.h
    | .Rotation | .AlignmentRotation => rotationAsVec eig x.h
    | _ => .error .other := by
  obtain ⟨cls, hm, s, t⟩ := x
  cases cls <;> rfl

theorem nParams_eq (x : Xf) (hc : isXfCls x.cls = true) : x.nParams =
    match x.cls with
    | .Homogeneous => .ok x.h.flatten.length
    | .Affine | .AlignmentAffine => .ok ((x.h.length - 1) * (x.h.length - 1 + 1))
    | .Similarity | .AlignmentSimilarity =>
        if x.h.length - 1 = 2 then .ok 4 else if x.h.length - 1 = 3 then .error .notImpl else .error .value
    | .Translation | .AlignmentTranslation => .ok (x.h.length - 1)
    | .UniformScale | .AlignmentUniformScale => .ok 1
    | .NonUniformScale => .ok (x.h.length - 1)
    | .Rotation | .AlignmentRotation => if x.h.length - 1 = 3 then .ok 4 else .error .notImpl
    | _ => .error .other := by
  obtain ⟨cls, hm, s, t⟩ := x
  cases cls <;> first | rfl | (simp [isXfCls] at hc)

/-! ### `from_vector(v).as_vector() = v`, supplier by supplier -/

theorem affine_as_from (V : Variant) (r : Row) (x x' : Xf) (p : Vec) (hl : p.length = 6 ∨ p.length = 12)
    (h : affineFvi V r x p = .ok x') : affineAsVec x'.h = .ok p := by
  unfold affineFvi at h
  split at h
  · obtain ⟨_, h2, _, _⟩ := setH_ok _ _ _ _ h
    rw [h2]; simp [affineAsVec]
  · obtain ⟨_, h2, _, _⟩ := setH_ok _ _ _ _ h
    rw [h2]; simp [affineAsVec]
  · rename_i h6 h12
    exfalso
    rcases hl with hl | hl
    · match p, hl with
      | [p1, p2, p3, p4, p5, p6], _ => exact h6 _ _ _ _ _ _ rfl
    · match p, hl with
      | [p1, p2, p3, p4, p5, p6, p7, p8, p9, p10, p11, p12], _ => exact h12 _ _ _ _ _ _ _ _ _ _ _ _ rfl

theorem similarity_as_from (r : Row) (x x' : Xf) (p : Vec) (h : similarityFvi r x p = .ok x') :
    similarityAsVec x'.h = .ok p := by
  obtain ⟨a, b, tx, ty, rfl, hh, _⟩ := similarityFvi_wf _ _ _ _ h
  rw [hh]; simp [similarityAsVec]

theorem translation_as_from (x x' : Xf) (p : Vec) (hw : affineWF x.h = true) (hl : p.length = x.h.length - 1)
    (h : translationFvi x p = .ok x') : translationAsVec x'.h = .ok p := by
  obtain ⟨cls, hm, s, t⟩ := x
  rcases affineWF_lit _ hw with ⟨a, b, c, d, e, f, rfl⟩ | ⟨a, b, c, t', d, e, f, u, g, i, j, w, rfl⟩
  · simp at hl
    match p, hl with
    | [t1, t2], _ =>
      simp [translationFvi] at h
      subst h
      simp [translationAsVec]
  · simp at hl
    match p, hl with
    | [t1, t2, t3], _ =>
      simp [translationFvi] at h
      subst h
      simp [translationAsVec]

theorem uniformScale_as_from (V : Variant) (x x' : Xf) (p : Vec) (hw : affineWF x.h = true) (hl : p.length = 1)
    (h : uniformScaleFvi V x p = .ok x') : uniformScaleAsVec x'.h = .ok p := by
  obtain ⟨cls, hm, s, t⟩ := x
  match p, hl with
  | [k], _ =>
    simp [uniformScaleFvi] at h
    subst h
    rcases affineWF_lit _ hw with ⟨a, b, c, d, e, f, rfl⟩ | ⟨a, b, c, t', d, e, f, u, g, i, j, w, rfl⟩
    · simp [uniformScaleAsVec, fillDiagOne, fillDiagAux, cyc]
    · simp [uniformScaleAsVec, fillDiagOne, fillDiagAux, cyc]

theorem nonUniformScale_as_from (x x' : Xf) (p : Vec) (hw : affineWF x.h = true) (hl : p.length = x.h.length - 1)
    (h : nonUniformScaleFvi x p = .ok x') : nonUniformScaleAsVec x'.h = .ok p := by
  obtain ⟨cls, hm, s, t⟩ := x
  simp [nonUniformScaleFvi] at h
  subst h
  rcases affineWF_lit _ hw with ⟨a, b, c, d, e, f, rfl⟩ | ⟨a, b, c, t', d, e, f, u, g, i, j, w, rfl⟩
  · simp at hl
    match p, hl with
    | [s1, s2], _ => simp [nonUniformScaleAsVec, fillDiagOne, fillDiagAux, cyc, diag, diagAux]
  · simp at hl
    match p, hl with
    | [s1, s2, s3], _ => simp [nonUniformScaleAsVec, fillDiagOne, fillDiagAux, cyc, diag, diagAux]

theorem homog_as_from (r : Row) (x x' : Xf) (p : Vec) (h : homogFvi r x p = .ok x') :
    homogAsVec x'.h = .ok p := by
  unfold homogFvi at h; dsimp only at h
  split at h
  · rename_i hl
    obtain ⟨_, hh, _, _⟩ := setH_ok _ _ _ _ h
    rw [hh, homogAsVec, flatten_chunks _ _ _ hl]
  · cases h

theorem wfH_affine (c : Cls) (h : Mat) (hc : isXfCls c = true) (hne : c ≠ .Homogeneous)
    (hw : Xf.wfH c h = true) : affineWF h = true := by
  cases c <;> simp [isXfCls] at hc <;> first
    | exact absurd rfl hne
    | (simp only [Xf.wfH, Bool.and_eq_true] at hw; first | exact hw | exact hw.1 | exact hw.1.1)

/-- PROPERTY (transforms): `from_vector(v).as_vector()` returns `v` for every `v` of `n_parameters`
entries — every vectorizable transform class except the rotations (see `rotation_as_from`), both variants -/
theorem xf_as_from (V : Variant) (eig : Mat → Vec) (x x' : Xf) (v : Vec) (hc : isXfCls x.cls = true)
    (hr : x.cls ≠ .Rotation ∧ x.cls ≠ .AlignmentRotation) (hw : Xf.wfH x.cls x.h = true)
    (hn : x.nParams = .ok v.length) (h : x.fromVec V v = .ok x') : x'.asVecWith eig = .ok v := by
  have hcls := xf_cls_preserved V x x' v h
  rw [asVecWith_eq, hcls]
  rw [nParams_eq x hc] at hn
  obtain ⟨cls, hm, s, t⟩ := x
  obtain ⟨hr1, hr2⟩ := hr
  cases cls <;> simp [isXfCls] at hc
  · rw [fromVec_Homogeneous] at h; exact homog_as_from _ _ _ _ h
  · rw [fromVec_Affine] at h
    have haff := wfH_affine _ _ rfl (by simp) hw
    refine affine_as_from V _ _ _ _ ?_ h
    rcases affineWF_lit _ haff with ⟨a, b, c, d, e, f, rfl⟩ | ⟨a, b, c, t', d, e, f, u, g, i, j, w, rfl⟩
    · simp at hn; exact Or.inl hn.symm
    · simp at hn; exact Or.inr hn.symm
  · rw [fromVec_Similarity] at h; exact similarity_as_from _ _ _ _ h
  · rw [fromVec_Translation] at h
    have haff := wfH_affine _ _ rfl (by simp) hw
    simp at hn
    exact translation_as_from _ _ _ haff hn.symm h
  · rw [fromVec_UniformScale] at h
    have haff := wfH_affine _ _ rfl (by simp) hw
    simp at hn
    exact uniformScale_as_from V _ _ _ haff hn.symm h
  · rw [fromVec_NonUniformScale] at h
    have haff := wfH_affine _ _ rfl (by simp) hw
    simp at hn
    exact nonUniformScale_as_from _ _ _ haff hn.symm h
  · exact absurd rfl hr1
  · rw [fromVec_AlignmentAffine] at h
    have haff := wfH_affine _ _ rfl (by simp) hw
    refine affine_as_from V _ _ _ _ ?_ h
    rcases affineWF_lit _ haff with ⟨a, b, c, d, e, f, rfl⟩ | ⟨a, b, c, t', d, e, f, u, g, i, j, w, rfl⟩
    · simp at hn; exact Or.inl hn.symm
    · simp at hn; exact Or.inr hn.symm
  · rw [fromVec_AlignmentSimilarity] at h
    obtain ⟨y, hy, hs⟩ := bindSync_ok _ _ h
    rw [(syncTarget_ok _ _ hs).2.1]; exact similarity_as_from _ _ _ _ hy
  · rw [fromVec_AlignmentTranslation] at h
    obtain ⟨y, hy, hs⟩ := bindSync_ok _ _ h
    have haff := wfH_affine _ _ rfl (by simp) hw
    simp at hn
    rw [(syncTarget_ok _ _ hs).2.1]; exact translation_as_from _ _ _ haff hn.symm hy
  · rw [fromVec_AlignmentUniformScale] at h
    obtain ⟨y, hy, hs⟩ := bindSync_ok _ _ h
    have haff := wfH_affine _ _ rfl (by simp) hw
    simp at hn
    rw [(syncTarget_ok _ _ hs).2.1]; exact uniformScale_as_from V _ _ _ haff hn.symm hy
  · exact absurd rfl hr2

theorem xf_wf_parts (x : Xf) (hw : x.wf = true) :
    Xf.wfH x.cls x.h = true ∧ (isAlignCls x.cls = true → applyAff x.h x.src = .ok x.tgt) := by
  refine ⟨?_, fun ha => xf_wf_align x ha hw⟩
  simp only [Xf.wf, Bool.and_eq_true] at hw
  exact hw.1

theorem syncTarget_fix (x : Xf) (h : applyAff x.h x.src = .ok x.tgt) : syncTarget x = .ok x := by
  unfold syncTarget; rw [h]

/-- PROPERTY (transforms): `from_vector(as_vector())` reproduces the transform — matrix, source and target —
for every vectorizable non-rotation class, both variants -/
theorem xf_from_as (V : Variant) (eig : Mat → Vec) (x : Xf) (v : Vec) (hc : isXfCls x.cls = true)
    (hr : x.cls ≠ .Rotation ∧ x.cls ≠ .AlignmentRotation) (hw : x.wf = true)
    (hv : x.asVecWith eig = .ok v) : x.fromVec V v = .ok x := by
  obtain ⟨hwH, hal⟩ := xf_wf_parts x hw
  rw [asVecWith_eq] at hv
  obtain ⟨cls, hm, s, t⟩ := x
  obtain ⟨hr1, hr2⟩ := hr
  cases cls <;> simp [isXfCls] at hc
  · -- Homogeneous
    simp only [homogAsVec, Except.ok.injEq] at hv
    subst hv
    simp only [Xf.wfH, Bool.and_eq_true, decide_eq_true_eq, beq_iff_eq, List.all_eq_true] at hwH
    obtain ⟨_, hsq⟩ := hwH
    rw [fromVec_Homogeneous]
    unfold homogFvi; dsimp only
    rw [if_pos (flatten_length_uniform _ _ hsq), chunks_flatten _ _ hsq]
    rfl
  · -- Affine
    have haff := wfH_affine _ _ rfl (by simp) hwH
    rw [fromVec_Affine]
    rcases affineWF_lit _ haff with ⟨a, b, c, d, e, f, rfl⟩ | ⟨a, b, c, t', d, e, f, u, g, i, j, w, rfl⟩
    · simp [affineAsVec] at hv; subst hv; simp [affineFvi, setH, rowOf, expectedDispatch]
    · simp [affineAsVec] at hv; subst hv; simp [affineFvi, setH, rowOf, expectedDispatch]
  · -- Similarity
    have haff := wfH_affine _ _ rfl (by simp) hwH
    rw [fromVec_Similarity]
    rcases affineWF_lit _ haff with ⟨a, b, c, d, e, f, rfl⟩ | ⟨a, b, c, t', d, e, f, u, g, i, j, w, rfl⟩
    · simp [Xf.wfH] at hwH
      obtain ⟨_, rfl, rfl⟩ := hwH
      simp [similarityAsVec] at hv; subst hv; simp [similarityFvi, setH, rowOf, expectedDispatch]
    · simp [similarityAsVec] at hv
  · -- Translation
    have haff := wfH_affine _ _ rfl (by simp) hwH
    rw [fromVec_Translation]
    rcases affineWF_lit _ haff with ⟨a, b, c, d, e, f, rfl⟩ | ⟨a, b, c, t', d, e, f, u, g, i, j, w, rfl⟩
    · simp [translationAsVec] at hv; subst hv; simp [translationFvi]
    · simp [translationAsVec] at hv; subst hv; simp [translationFvi]
  · -- UniformScale
    have haff := wfH_affine _ _ rfl (by simp) hwH
    rw [fromVec_UniformScale]
    rcases affineWF_lit _ haff with ⟨a, b, c, d, e, f, rfl⟩ | ⟨a, b, c, t', d, e, f, u, g, i, j, w, rfl⟩
    · simp [Xf.wfH, affineWF, isSquare, unitLast, linearDiagonal, offDiagZeroAux, diag, diagAux, allEq,
        List.replicate] at hwH
      simp [uniformScaleAsVec] at hv; subst hv
      simp [uniformScaleFvi, fillDiagOne, fillDiagAux, cyc, hwH]
    · simp [Xf.wfH, affineWF, isSquare, unitLast, linearDiagonal, offDiagZeroAux, diag, diagAux, allEq,
        List.replicate] at hwH
      simp [uniformScaleAsVec] at hv; subst hv
      simp [uniformScaleFvi, fillDiagOne, fillDiagAux, cyc, hwH]
  · -- NonUniformScale
    have haff := wfH_affine _ _ rfl (by simp) hwH
    rw [fromVec_NonUniformScale]
    rcases affineWF_lit _ haff with ⟨a, b, c, d, e, f, rfl⟩ | ⟨a, b, c, t', d, e, f, u, g, i, j, w, rfl⟩
    · simp [nonUniformScaleAsVec, diag, diagAux] at hv; subst hv
      simp [nonUniformScaleFvi, fillDiagOne, fillDiagAux, cyc]
    · simp [nonUniformScaleAsVec, diag, diagAux] at hv; subst hv
      simp [nonUniformScaleFvi, fillDiagOne, fillDiagAux, cyc]
  · exact absurd rfl hr1
  · -- AlignmentAffine
    have haff := wfH_affine _ _ rfl (by simp) hwH
    have hsync := syncTarget_fix _ (hal rfl)
    rw [fromVec_AlignmentAffine]
    rcases affineWF_lit _ haff with ⟨a, b, c, d, e, f, rfl⟩ | ⟨a, b, c, t', d, e, f, u, g, i, j, w, rfl⟩
    · simp [affineAsVec] at hv; subst hv; simpa [affineFvi, setH, rowOf, expectedDispatch] using hsync
    · simp [affineAsVec] at hv; subst hv; simpa [affineFvi, setH, rowOf, expectedDispatch] using hsync
  · -- AlignmentSimilarity
    have haff := wfH_affine _ _ rfl (by simp) hwH
    have hsync := syncTarget_fix _ (hal rfl)
    rw [fromVec_AlignmentSimilarity]
    rcases affineWF_lit _ haff with ⟨a, b, c, d, e, f, rfl⟩ | ⟨a, b, c, t', d, e, f, u, g, i, j, w, rfl⟩
    · simp [Xf.wfH] at hwH
      obtain ⟨_, rfl, rfl⟩ := hwH
      simp [similarityAsVec] at hv; subst hv
      simpa [similarityFvi, setH, rowOf, expectedDispatch, bindSync] using hsync
    · simp [similarityAsVec] at hv
  · -- AlignmentTranslation
    have haff := wfH_affine _ _ rfl (by simp) hwH
    have hsync := syncTarget_fix _ (hal rfl)
    rw [fromVec_AlignmentTranslation]
    rcases affineWF_lit _ haff with ⟨a, b, c, d, e, f, rfl⟩ | ⟨a, b, c, t', d, e, f, u, g, i, j, w, rfl⟩
    · simp [translationAsVec] at hv; subst hv; simpa [translationFvi, bindSync] using hsync
    · simp [translationAsVec] at hv; subst hv; simpa [translationFvi, bindSync] using hsync
  · -- AlignmentUniformScale
    have haff := wfH_affine _ _ rfl (by simp) hwH
    have hsync := syncTarget_fix _ (hal rfl)
    rw [fromVec_AlignmentUniformScale]
    rcases affineWF_lit _ haff with ⟨a, b, c, d, e, f, rfl⟩ | ⟨a, b, c, t', d, e, f, u, g, i, j, w, rfl⟩
    · simp [Xf.wfH, affineWF, isSquare, unitLast, linearDiagonal, offDiagZeroAux, diag, diagAux, allEq,
        List.replicate] at hwH
      simp [uniformScaleAsVec] at hv; subst hv
      simpa [uniformScaleFvi, fillDiagOne, fillDiagAux, cyc, hwH, bindSync] using hsync
    · simp [Xf.wfH, affineWF, isSquare, unitLast, linearDiagonal, offDiagZeroAux, diag, diagAux, allEq,
        List.replicate] at hwH
      simp [uniformScaleAsVec] at hv; subst hv
      simpa [uniformScaleFvi, fillDiagOne, fillDiagAux, cyc, hwH, bindSync] using hsync
  · exact absurd rfl hr2

/-- PROPERTY (transforms): `as_vector()` holds exactly `n_parameters` numbers (all 12 classes; for the
rotations whatever eigen-solver is plugged in) -/
theorem xf_length_eq_nparams (eig : Mat → Vec) (x : Xf) (v : Vec) (hc : isXfCls x.cls = true)
    (hw : Xf.wfH x.cls x.h = true) (hv : x.asVecWith eig = .ok v) : x.nParams = .ok v.length := by
  rw [asVecWith_eq] at hv
  rw [nParams_eq x hc]
  obtain ⟨cls, hm, s, t⟩ := x
  cases cls <;> simp [isXfCls] at hc
  · simp only [homogAsVec, Except.ok.injEq] at hv; subst hv; rfl
  all_goals
    have haff := wfH_affine _ _ rfl (by simp) hw
    rcases affineWF_lit _ haff with ⟨a, b, c, d, e, f, rfl⟩ | ⟨a, b, c, t', d, e, f, u, g, i, j, w, rfl⟩
  all_goals
    simp [affineAsVec, similarityAsVec, translationAsVec, uniformScaleAsVec, nonUniformScaleAsVec, diag,
      diagAux, rotationAsVec, rotK] at hv
  all_goals first
    | (subst hv; rfl)
    | (split at hv
       · split at hv <;> (simp at hv; subst hv; rfl)
       · cases hv)


theorem quat_orth_aux (w a b c s : Rat) (hs : s * (w * w + a * a + b * b + c * c) = 2) :
    let r0 := [1 - s * (b * b) - s * (c * c), s * (a * b) - s * (c * w), s * (a * c) + s * (b * w)]
    let r1 := [s * (a * b) + s * (c * w), 1 - s * (a * a) - s * (c * c), s * (b * c) - s * (a * w)]
    let r2 := [s * (a * c) - s * (b * w), s * (b * c) + s * (a * w), 1 - s * (a * a) - s * (b * b)]
    dot r0 r0 = 1 ∧ dot r1 r1 = 1 ∧ dot r2 r2 = 1 ∧ dot r0 r1 = 0 ∧ dot r0 r2 = 0 ∧ dot r1 r2 = 0 := by
  simp only [dot]
  refine ⟨?_, ?_, ?_, ?_, ?_, ?_⟩
  · linear_combination (s * (b * b + c * c)) * hs
  · linear_combination (s * (a * a + c * c)) * hs
  · linear_combination (s * (a * a + b * b)) * hs
  · linear_combination (-s * a * b) * hs
  · linear_combination (-s * a * c) * hs
  · linear_combination (-s * b * c) * hs

/-- PROPERTY (rotations): the matrix `from_vector` builds from any non-zero quaternion is orthogonal
(rows orthonormal) -/
theorem quat_matrix_orthogonal (w a b c : Rat) (hn : w * w + a * a + b * b + c * c ≠ 0) :
    ∃ r0 r1 r2, quatMatrix w a b c = [r0, r1, r2] ∧
      dot r0 r0 = 1 ∧ dot r1 r1 = 1 ∧ dot r2 r2 = 1 ∧ dot r0 r1 = 0 ∧ dot r0 r2 = 0 ∧ dot r1 r2 = 0 := by
  have hs : (2 / (w * w + a * a + b * b + c * c)) * (w * w + a * a + b * b + c * c) = 2 :=
    div_mul_cancel₀ 2 hn
  exact ⟨_, _, _, rfl, quat_orth_aux w a b c _ hs⟩

theorem top_eigvec (w a b c lam e0 e1 e2 e3 : Rat) (hu : w * w + a * a + b * b + c * c = 1)
    (hunit : e0 * e0 + e1 * e1 + e2 * e2 + e3 * e3 = 1)
    (h0 : (4 * a * a - 1) / 3 * e0 + 4 * a * b / 3 * e1 + 4 * a * c / 3 * e2 + 4 * a * w / 3 * e3 = lam * e0)
    (h1 : 4 * a * b / 3 * e0 + (4 * b * b - 1) / 3 * e1 + 4 * b * c / 3 * e2 + 4 * b * w / 3 * e3 = lam * e1)
    (h2 : 4 * a * c / 3 * e0 + 4 * b * c / 3 * e1 + (4 * c * c - 1) / 3 * e2 + 4 * c * w / 3 * e3 = lam * e2)
    (h3 : 4 * a * w / 3 * e0 + 4 * b * w / 3 * e1 + 4 * c * w / 3 * e2 + (4 * w * w - 1) / 3 * e3 = lam * e3)
    (hmax : 1 ≤ lam) :
    (e0 = a ∧ e1 = b ∧ e2 = c ∧ e3 = w) ∨ (e0 = -a ∧ e1 = -b ∧ e2 = -c ∧ e3 = -w) := by
  have k0 : 4 * a * (a * e0 + b * e1 + c * e2 + w * e3) - e0 = 3 * lam * e0 := by linear_combination 3 * h0
  have k1 : 4 * b * (a * e0 + b * e1 + c * e2 + w * e3) - e1 = 3 * lam * e1 := by linear_combination 3 * h1
  have k2 : 4 * c * (a * e0 + b * e1 + c * e2 + w * e3) - e2 = 3 * lam * e2 := by linear_combination 3 * h2
  have k3 : 4 * w * (a * e0 + b * e1 + c * e2 + w * e3) - e3 = 3 * lam * e3 := by linear_combination 3 * h3
  generalize hm : a * e0 + b * e1 + c * e2 + w * e3 = m at k0 k1 k2 k3
  have hml : m * (1 - lam) = 0 := by
    linear_combination (1 / 3 : Rat) * (a * k0 + b * k1 + c * k2 + w * k3) - (4 / 3 : Rat) * m * hu
      + (1 / 3 + lam) * hm
  rcases mul_eq_zero.mp hml with hm0 | hl
  · exfalso
    have hp : (3 * lam + 1) ≠ 0 := by linarith
    have z0 : e0 = 0 := by
      have : (3 * lam + 1) * e0 = 0 := by rw [hm0] at k0; linear_combination -k0
      exact (mul_eq_zero.mp this).resolve_left hp
    have z1 : e1 = 0 := by
      have : (3 * lam + 1) * e1 = 0 := by rw [hm0] at k1; linear_combination -k1
      exact (mul_eq_zero.mp this).resolve_left hp
    have z2 : e2 = 0 := by
      have : (3 * lam + 1) * e2 = 0 := by rw [hm0] at k2; linear_combination -k2
      exact (mul_eq_zero.mp this).resolve_left hp
    have z3 : e3 = 0 := by
      have : (3 * lam + 1) * e3 = 0 := by rw [hm0] at k3; linear_combination -k3
      exact (mul_eq_zero.mp this).resolve_left hp
    rw [z0, z1, z2, z3] at hunit
    norm_num at hunit
  · have hl1 : lam = 1 := by linarith
    subst hl1
    have g0 : e0 = m * a := by linear_combination (-1 / 4 : Rat) * k0
    have g1 : e1 = m * b := by linear_combination (-1 / 4 : Rat) * k1
    have g2 : e2 = m * c := by linear_combination (-1 / 4 : Rat) * k2
    have g3 : e3 = m * w := by linear_combination (-1 / 4 : Rat) * k3
    have hmm : (m - 1) * (m + 1) = 0 := by
      rw [g0, g1, g2, g3] at hunit
      linear_combination hunit - m * m * hu
    rcases mul_eq_zero.mp hmm with hm1 | hm1
    · left
      have : m = 1 := by linarith
      subst this
      exact ⟨by rw [g0]; ring, by rw [g1]; ring, by rw [g2]; ring, by rw [g3]; ring⟩
    · right
      have : m = -1 := by linarith
      subst this
      exact ⟨by rw [g0]; ring, by rw [g1]; ring, by rw [g2]; ring, by rw [g3]; ring⟩

/-- the symmetric matrix `(4 e eᵀ - 1)/3` for `e = (a, b, c, w)` -/
def Kq (w a b c : Rat) : Mat :=
  [[(4 * a * a - 1) / 3, 4 * a * b / 3, 4 * a * c / 3, 4 * a * w / 3],
   [4 * a * b / 3, (4 * b * b - 1) / 3, 4 * b * c / 3, 4 * b * w / 3],
   [4 * a * c / 3, 4 * b * c / 3, (4 * c * c - 1) / 3, 4 * c * w / 3],
   [4 * a * w / 3, 4 * b * w / 3, 4 * c * w / 3, (4 * w * w - 1) / 3]]

/-- PROPERTY (rotations): for a unit quaternion `q = (w, a, b, c)`, after `from_vector(q)` the matrix `K`
that `Rotation._as_vector` hands to `eigh` is `(4 e eᵀ - 1)/3` with `e = (a, b, c, w)`; hence `e` is an
eigenvector of eigenvalue 1 and every vector orthogonal to it has eigenvalue `-1/3` -/
theorem K_of_rotation (w a b c : Rat) (hu : w * w + a * a + b * b + c * c = 1)
    (h00 h01 h02 t0 h10 h11 h12 t1 h20 h21 h22 t2 l0 l1 l2 l3 : Rat) :
    rotK (setRotBase [[h00, h01, h02, t0], [h10, h11, h12, t1], [h20, h21, h22, t2], [l0, l1, l2, l3]]
      (quatMatrix w a b c)) = some (Kq w a b c) := by
  simp only [quatMatrix, hu, setRotBase, List.dropLast, List.zipWith, List.length_cons, List.length_nil,
    List.drop, List.cons_append, List.nil_append, rotK, Kq, Option.some.injEq]
  norm_num
  refine ⟨⟨?_, ?_, ?_, ?_⟩, ⟨?_, ?_, ?_, ?_⟩, ⟨?_, ?_, ?_, ?_⟩, ?_, ?_, ?_, ?_⟩ <;>
    first | ring1 | linear_combination (-(4:Rat)) * hu

/-- what the model assumes of `np.linalg.eigh` + `argmax` on the symmetric matrix `K`: a unit eigenvector
`e` of an eigenvalue `lam` that dominates every Rayleigh quotient.  (Checked numerically by the harness on
every rotation case.) -/
structure EighContract (eig : Mat → Vec) (K : Mat) (lam e0 e1 e2 e3 : Rat) : Prop where
  out : eig K = [e0, e1, e2, e3]
  unit : e0 * e0 + e1 * e1 + e2 * e2 + e3 * e3 = 1
  eigen : K.map (fun row => dot row [e0, e1, e2, e3]) = [lam * e0, lam * e1, lam * e2, lam * e3]
  top : ∀ u0 u1 u2 u3 : Rat, u0 * u0 + u1 * u1 + u2 * u2 + u3 * u3 = 1 →
    dot [u0, u1, u2, u3] (K.map (fun row => dot row [u0, u1, u2, u3])) ≤ lam

theorem eps4_lt_one : ¬ ((1 : Rat) < eps4) := by
  unfold eps4
  rw [Rat.mkRat_eq_div]
  norm_num

/-- PROPERTY (rotations): `from_vector(q).as_vector()` returns `q` for every canonical unit quaternion
(`w > 0`), for any eigen-solver meeting the `eigh` contract — Rotation and AlignmentRotation, both variants -/
theorem rotation_as_from (V : Variant) (eig : Mat → Vec) (x x' : Xf) (w a b c lam e0 e1 e2 e3 : Rat)
    (hcls : x.cls = .Rotation ∨ x.cls = .AlignmentRotation) (hw : Xf.wfH x.cls x.h = true)
    (h4 : x.h.length = 4) (hu : w * w + a * a + b * b + c * c = 1) (hpos : 0 < w)
    (h : x.fromVec V [w, a, b, c] = .ok x') (hc : EighContract eig (Kq w a b c) lam e0 e1 e2 e3) :
    x'.asVecWith eig = .ok [w, a, b, c] := by
  have hcl := xf_cls_preserved V x x' _ h
  have hR : rotationFvi (rowOf x.cls) x [w, a, b, c] = .ok x' := by
    obtain ⟨cls, hm, s, t⟩ := x
    rcases hcls with hcls | hcls <;> (simp only at hcls; subst hcls)
    · rw [fromVec_Rotation] at h; exact h
    · rw [fromVec_AlignmentRotation] at h; exact h
  have haff : affineWF x.h = true := by
    rcases hcls with hcls | hcls <;> (rw [hcls] at hw; simp only [Xf.wfH, Bool.and_eq_true] at hw; exact hw.1)
  rw [asVecWith_eq, hcl]
  have hrot : (match x.cls with
      | .Homogeneous => homogAsVec x'.h
      | .Affine | .AlignmentAffine => affineAsVec x'.h
      | .Similarity | .AlignmentSimilarity => similarityAsVec x'.h
      | .Translation | .AlignmentTranslation => translationAsVec x'.h
      | .UniformScale | .AlignmentUniformScale => uniformScaleAsVec x'.h
      | .NonUniformScale => nonUniformScaleAsVec x'.h
      | .Rotation | .AlignmentRotation => rotationAsVec eig x'.h
      | _ => .error .other) = rotationAsVec eig x'.h := by
    rcases hcls with hcls | hcls <;> rw [hcls]
  rw [hrot]
  rcases affineWF_lit _ haff with ⟨a', b', c', d', e', f', hx⟩ |
      ⟨h00, h01, h02, t0, h10, h11, h12, t1, h20, h21, h22, t2, hx⟩
  · rw [hx] at h4; simp at h4
  · unfold rotationFvi at hR
    rw [if_neg (by rw [h4]; simp)] at hR
    simp only at hR
    rw [hu, if_neg eps4_lt_one] at hR
    obtain ⟨_, hh, _, _⟩ := setRot_ok _ _ _ _ hR
    rw [hh, hx]
    unfold rotationAsVec
    rw [K_of_rotation w a b c hu]
    simp only [hc.out]
    have heig := hc.eigen
    simp only [Kq, List.map, dot, List.cons.injEq, and_true] at heig
    obtain ⟨g0, g1, g2, g3⟩ := heig
    have hmax : 1 ≤ lam := by
      have ht := hc.top a b c w (by linear_combination hu)
      have hq : a * a + b * b + c * c + w * w = 1 := by linear_combination hu
      have : dot [a, b, c, w] ((Kq w a b c).map (fun row => dot row [a, b, c, w])) = 1 := by
        simp only [Kq, List.map, dot]
        linear_combination ((4 * (a * a + b * b + c * c + w * w) + 3) / 3) * hq
      rw [this] at ht; exact ht
    rcases top_eigvec w a b c lam e0 e1 e2 e3 hu hc.unit
        (by linear_combination g0) (by linear_combination g1) (by linear_combination g2)
        (by linear_combination g3) hmax with ⟨rfl, rfl, rfl, rfl⟩ | ⟨rfl, rfl, rfl, rfl⟩
    · rw [if_neg (by linarith)]
    · rw [if_pos (by linarith)]; simp


theorem setRotBase_idem (h00 h01 h02 t0 h10 h11 h12 t1 h20 h21 h22 t2 l0 l1 l2 l3 : Rat) (w a b c : Rat) :
    setRotBase (setRotBase [[h00, h01, h02, t0], [h10, h11, h12, t1], [h20, h21, h22, t2], [l0, l1, l2, l3]]
      (quatMatrix w a b c)) (quatMatrix w a b c) =
    setRotBase [[h00, h01, h02, t0], [h10, h11, h12, t1], [h20, h21, h22, t2], [l0, l1, l2, l3]]
      (quatMatrix w a b c) := by
  simp [setRotBase, quatMatrix]

/-- PROPERTY (rotations): `from_vector(as_vector())` reproduces a rotation that was itself built from a
canonical unit quaternion (which is every rotation, up to float rounding): matrix, class, source and — for
AlignmentRotation — target -/
theorem rotation_from_as (V : Variant) (eig : Mat → Vec) (x x' : Xf) (w a b c lam e0 e1 e2 e3 : Rat)
    (hcls : x.cls = .Rotation ∨ x.cls = .AlignmentRotation) (hw : x.wf = true)
    (h4 : x.h.length = 4) (hu : w * w + a * a + b * b + c * c = 1) (hpos : 0 < w)
    (h : x.fromVec V [w, a, b, c] = .ok x') (hc : EighContract eig (Kq w a b c) lam e0 e1 e2 e3) :
    ∃ v, x'.asVecWith eig = .ok v ∧ x'.fromVec V v = .ok x' := by
  obtain ⟨hwH, hal⟩ := xf_wf_parts x hw
  refine ⟨[w, a, b, c], rotation_as_from V eig x x' w a b c lam e0 e1 e2 e3 hcls hwH h4 hu hpos h hc, ?_⟩
  have hcl := xf_cls_preserved V x x' _ h
  have haff : affineWF x.h = true := by
    rcases hcls with hcls | hcls <;> (rw [hcls] at hwH; simp only [Xf.wfH, Bool.and_eq_true] at hwH; exact hwH.1)
  rcases affineWF_lit _ haff with ⟨a', b', c', d', e', f', hx⟩ |
      ⟨h00, h01, h02, t0, h10, h11, h12, t1, h20, h21, h22, t2, hx⟩
  · rw [hx] at h4; simp at h4
  · obtain ⟨cls, hm, s, t⟩ := x
    obtain ⟨cls', hm', s', t'⟩ := x'
    simp only at hcl hx hcls
    subst hcl hx
    have hlen : (setRotBase [[h00, h01, h02, t0], [h10, h11, h12, t1], [h20, h21, h22, t2], [0, 0, 0, 1]]
        (quatMatrix w a b c)).length = 4 := by simp [setRotBase, quatMatrix]
    rcases hcls with hcls | hcls <;> subst hcls
    · rw [fromVec_Rotation] at h ⊢
      unfold rotationFvi at h ⊢
      simp only [List.length_cons, List.length_nil, ne_eq, not_true_eq_false, if_false, hu,
        if_neg eps4_lt_one, Nat.reduceAdd] at h ⊢
      obtain ⟨_, hh, hs, hrest⟩ := setRot_ok _ _ _ _ h
      simp only at hh hs
      subst hh hs
      have hr : (rowOf Cls.Rotation).setRot = .Rotation := rfl
      rcases hrest with ⟨hbad, _⟩ | ⟨_, ht⟩
      · rw [hr] at hbad; cases hbad
      · simp only at ht; subst ht
        rw [if_neg (by rw [hlen]; simp)]
        unfold setRot
        rw [hr]
        simp only [setRotBase_idem]
    · rw [fromVec_AlignmentRotation] at h ⊢
      unfold rotationFvi at h ⊢
      simp only [List.length_cons, List.length_nil, ne_eq, not_true_eq_false, if_false, hu,
        if_neg eps4_lt_one, Nat.reduceAdd] at h ⊢
      obtain ⟨_, hh, hs, hrest⟩ := setRot_ok _ _ _ _ h
      simp only at hh hs
      subst hh hs
      have hr : (rowOf Cls.AlignmentRotation).setRot = .AlignmentRotation := rfl
      rcases hrest with ⟨_, happ⟩ | ⟨hbad, _⟩
      · simp only at happ
        rw [if_neg (by rw [hlen]; simp)]
        unfold setRot
        rw [hr]
        simp only [setRotBase_idem]
        exact syncTarget_fix _ happ
      · exact absurd hr hbad

/-! ## receiver purity -/

/-- every row of the (expected = regenerated, see `GenProps.dispatch_ok`) method-resolution table is pure:
`from_vector` is a constructor rebuild, or `copy()` followed by an in-place update that writes only into
buffers the resolved `copy` makes fresh -/
theorem expected_rows_pure : ∀ r ∈ expectedDispatch, rowPure r = true := by decide

/-- PROPERTY (`from_vector` never changes the object it is called on), heap form: `copy()` as resolved for
the class, then the attribute rebindings, then the in-place writes through the copy's references leave every
buffer of the receiver as it was, provided every buffer written in place is fresh in the copy (`rowPure`,
discharged for every class by `expected_rows_pure` / `GenProps.dispatch_pure`; which buffers are written,
rebound and fresh is measured on the live objects, `GenProps.effects_sound` / `effects_pure`); and the copy starts out equal to
the receiver -/
theorem from_vector_pure_heap (fresh : Buf → Bool) (rebinds writes : List Buf) (hw : writes.all fresh = true)
    (H : Heap) (o : Obj) (hv : ∀ b, o b < H.next) (new : Buf → List Rat) :
    let C := heapCopy fresh H o
    let R := heapRebind rebinds new C.1 C.2
    (∀ b, (heapUpdate writes new R.1 R.2).cell (o b) = H.cell (o b)) ∧
    (∀ b, C.1.cell (C.2 b) = H.cell (o b)) := by
  intro C R
  constructor
  · intro b
    have hb := hv b
    rw [heapUpdate_other]
    · rw [heapRebind_old _ _ _ _ _ (by simp [C]; omega)]
      exact heapCopy_old _ _ _ _ hb
    · intro w hwm
      have hf : fresh w = true := (List.all_eq_true.mp hw) w hwm
      simp only [R, C, heapRebind_ref, heapCopy_ref, heapCopy_next, hf, if_true]
      split <;> omega
  · exact heapCopy_val fresh H o hv

/-! ## programs of `from_vector` / `from_vector_inplace` calls (history and aliasing) -/

def stepPureB (s : Step) : Bool := !s.inplace && s.writes.all (fun b => s.fresh b || s.rebinds.contains b)

theorem stepPureB_iff (s : Step) (h : stepPureB s = true) : s.Pure := by
  simp only [stepPureB, Bool.and_eq_true, Bool.not_eq_true', List.all_eq_true, Bool.or_eq_true] at h
  exact ⟨h.1, h.2⟩

def stepAdmB (Wr : Buf → Bool) (s : Step) : Bool :=
  s.writes.all Wr && (s.inplace || allBufs.all (fun b => !Wr b || s.fresh b))

theorem stepAdmB_iff (Wr : Buf → Bool) (s : Step) (h : stepAdmB Wr s = true) : s.Adm Wr := by
  simp only [stepAdmB, Bool.and_eq_true, List.all_eq_true, Bool.or_eq_true, Bool.not_eq_true'] at h
  refine ⟨h.1, fun hi b hw => ?_⟩
  rcases h.2 with h2 | h2
  · rw [hi] at h2; cases h2
  · rcases h2 b (by cases b <;> simp [allBufs]) with h3 | h3
    · rw [hw] at h3; cases h3
    · exact h3

theorem stepOfRow_flags (r : Row) (recv : Nat) (ip : Bool) (new : Buf → List Rat) :
    stepPureB (stepOfRow r recv ip new) = stepPureB (stepOfRow r 0 ip (fun _ => [])) ∧
    stepAdmB writable (stepOfRow r recv ip new) = stepAdmB writable (stepOfRow r 0 ip (fun _ => [])) := by
  unfold stepOfRow; split <;> exact ⟨rfl, rfl⟩

theorem expected_steps_ok : ∀ r ∈ expectedDispatch,
    stepPureB (stepOfRow r 0 false (fun _ => [])) = true ∧
    stepAdmB writable (stepOfRow r 0 false (fun _ => [])) = true ∧
    stepAdmB writable (stepOfRow r 0 true (fun _ => [])) = true := by decide


/-- a call: (row of the receiver's class, index of the receiver, from_vector_inplace?, the new contents) -/
abbrev Call := Row × Nat × Bool × (Buf → List Rat)

def Call.step (c : Call) : Step := stepOfRow c.1 c.2.1 c.2.2.1 c.2.2.2

theorem stepOfRow_inplace (r : Row) (recv : Nat) (ip : Bool) (new : Buf → List Rat) :
    (stepOfRow r recv ip new).inplace = ip ∧ (stepOfRow r recv ip new).recv = recv := by
  unfold stepOfRow; split
  · rename_i h; simp only [Bool.and_eq_true, Bool.not_eq_true'] at h; exact ⟨h.2.symm, rfl⟩
  · exact ⟨rfl, rfl⟩

theorem call_pure (c : Call) (hr : c.1 ∈ expectedDispatch) (hi : c.2.2.1 = false) : c.step.Pure := by
  apply stepPureB_iff
  obtain ⟨r, recv, ip, new⟩ := c
  simp only at hr hi; subst hi
  rw [Call.step, (stepOfRow_flags r recv false new).1]
  exact (expected_steps_ok r hr).1

theorem call_adm (c : Call) (hr : c.1 ∈ expectedDispatch) : c.step.Adm writable := by
  apply stepAdmB_iff
  obtain ⟨r, recv, ip, new⟩ := c
  simp only at hr
  rw [Call.step, (stepOfRow_flags r recv ip new).2]
  cases ip
  · exact (expected_steps_ok r hr).2.1
  · exact (expected_steps_ok r hr).2.2

/-- PROPERTY (`from_vector` never changes the object it is called on), over histories: whatever sequence of
`from_vector` calls is made — on objects of any of the 23 classes, on the original objects or on results of
earlier calls, with any vectors — every object that existed before still refers to the same arrays and
holds the same values afterwards; the only effect is that new objects appear -/
theorem from_vector_program_pure (W : World) (hv : W.Valid) (calls : List Call)
    (hc : ∀ c ∈ calls, c.1 ∈ expectedDispatch ∧ c.2.2.1 = false) :
    (∀ i, i < W.n → (W.run (calls.map Call.step)).objs i = W.objs i ∧
        ∀ b, (W.run (calls.map Call.step)).val i b = W.val i b) ∧
    W.n ≤ (W.run (calls.map Call.step)).n := by
  have hp : ∀ s ∈ calls.map Call.step, s.Pure := by
    intro s hs
    obtain ⟨c, hcm, rfl⟩ := List.mem_map.mp hs
    exact call_pure c (hc c hcm).1 (hc c hcm).2
  obtain ⟨h1, h2, h3⟩ := run_pure_frame W _ hp
  refine ⟨fun i hi => ⟨h2 i hi, fun b => ?_⟩, h3⟩
  unfold World.val
  rw [h2 i hi, h1 _ (hv i hi b)]

/-- PROPERTY (the deprecated mutator `from_vector_inplace` changes its receiver and nothing else), over
histories: in any sequence of `from_vector` and `from_vector_inplace` calls on a population in which no
writable buffer (`pixels`, `h_matrix`: the only ones some `_from_vector_inplace` writes in place) is shared,
an object that is never itself the receiver of an in-place call keeps its value — even when the in-place
calls hit its own copies or `from_vector` results, which share its source / target arrays — and the
population stays free of shared writable buffers (so the statement applies again) -/
theorem from_vector_inplace_local (W : World) (hv : W.Valid) (ho : W.Owns writable) (calls : List Call)
    (hc : ∀ c ∈ calls, c.1 ∈ expectedDispatch) (j : Nat) (hj : j < W.n)
    (hne : ∀ c ∈ calls, c.2.2.1 = true → j ≠ c.2.1) :
    (∀ b, (W.run (calls.map Call.step)).val j b = W.val j b) ∧
    (W.run (calls.map Call.step)).Owns writable ∧ (W.run (calls.map Call.step)).Valid := by
  have ha : ∀ s ∈ calls.map Call.step, s.Adm writable := by
    intro s hs
    obtain ⟨c, hcm, rfl⟩ := List.mem_map.mp hs
    exact call_adm c (hc c hcm)
  have hn : ∀ s ∈ calls.map Call.step, s.inplace = true → j ≠ s.recv := by
    intro s hs hi
    obtain ⟨c, hcm, rfl⟩ := List.mem_map.mp hs
    obtain ⟨h1, h2⟩ := stepOfRow_inplace c.1 c.2.1 c.2.2.1 c.2.2.2
    simp only [Call.step] at hi ⊢
    rw [h2]; rw [h1] at hi
    exact hne c hcm hi
  refine ⟨fun b => (run_adm_frame writable W _ hv ho ha j hj hn b).1, ?_, ?_⟩
  · exact (run_adm_frame writable W _ hv ho ha j hj hn .points).2.1
  · exact (run_adm_frame writable W _ hv ho ha j hj hn .points).2.2

/-- PROPERTY (what `from_vector_inplace` does to its receiver): the buffers the class's
`_from_vector_inplace` writes or rebinds hold the new contents afterwards, every other buffer of the receiver
(mask, source, connectivity, landmarks, …) what it held before -/
theorem from_vector_inplace_effect (W : World) (hv : W.Valid) (ho : W.Owns writable) (r : Row)
    (hr : r ∈ expectedDispatch) (recv : Nat) (hlt : recv < W.n) (new : Buf → List Rat) (b : Buf) :
    (W.exec (stepOfRow r recv true new)).val recv b =
      if b ∈ (writesInto r.fvi).getD allBufs ∨ (rowRebinds r).contains b = true then new b else W.val recv b := by
  have ha := call_adm (r, recv, true, new) hr
  have h := exec_inplace_effect writable W (stepOfRow r recv true new) hv ho ha
    (stepOfRow_inplace r recv true new).1 (by rw [(stepOfRow_inplace r recv true new).2]; exact hlt) b
  rw [(stepOfRow_inplace r recv true new).2] at h
  rw [h]
  unfold stepOfRow
  simp

/-! ## `from_vector_inplace` at the value level -/

/-- PROPERTY (shapes): `from_vector(v)` is `copy()` followed by the in-place update — for every shape class,
except that the coded `TexturedTriMesh.from_vector` (a constructor rebuild) loses the landmarks which the
in-place update keeps -/
theorem shape_inplace_agrees (V : Variant) (s : Shape) (v : Vec) (hc : isShapeCls s.cls = true)
    (hk : V.texturedKeepsLms = true ∨ s.cls ≠ .TexturedTriMesh ∨ s.lms = []) :
    s.fromVec V v = s.fvi V v := by
  have hf : s.fvi V v = pointCloudFvi V s v := by
    obtain ⟨cls, d, pts, nv, tris, ex, lms⟩ := s
    cases cls <;> first | rfl | (simp [isShapeCls, isGraphCls, isMeshCls] at hc)
  rw [hf, shape_fromVec_eq V s v hc]
  split
  · rename_i ht
    unfold texturedFromVector pointCloudFvi
    rcases hk with hk | hk | hk
    · simp [hk]
    · exact absurd ht hk
    · simp [hk]
  · rfl

/-- PROPERTY (transforms): `Homogeneous.from_vector(v)` is `copy()` followed by the in-place update, for all
twelve classes -/
theorem xf_inplace_agrees (V : Variant) (x : Xf) (v : Vec) (hc : isXfCls x.cls = true) :
    x.fromVec V v = x.fvi V v := by
  obtain ⟨cls, hm, s, t⟩ := x
  cases cls <;> first | rfl | (simp [isXfCls] at hc)

theorem img_fvi_eq (x : Img) (v : Vec) (hc : isImgCls x.cls = true) :
    x.fvi v = if x.cls = .MaskedImage then maskedFvi x v else imageFvi x v := by
  obtain ⟨cls, shape, chans, mask, lms⟩ := x
  cases cls <;> first | rfl | (simp [isImgCls] at hc)

/-- PROPERTY (Image): `from_vector(v)` and the in-place update compute the same image -/
theorem image_inplace_agrees (x : Img) (v : Vec) (hc : x.cls = .Image) : x.fromVec v = x.fvi v := by
  rw [img_fromVec_eq x v (by simp [isImgCls, hc]), img_fvi_eq x v (by simp [isImgCls, hc])]
  simp [hc, imageFromVector, imageFvi]

theorem maskedFvi_ok (x x' : Img) (v : Vec) (h : maskedFvi x v = .ok x') :
    x.nCh ≠ 0 ∧ v.length % x.nCh = 0 ∧
    ((allTrue x.mask = true ∧ x' = { x with chans := chunks x.nPix x.nCh v } ∧ v.length = x.nCh * x.nPix) ∨
     (allTrue x.mask = false ∧
      ((v.length / x.nCh = countTrue x.mask ∧
          x' = { x with chans := List.zipWith (overlay x.mask) x.chans (chunks (v.length / x.nCh) x.nCh v) }) ∨
       (v.length / x.nCh ≠ countTrue x.mask ∧ v.length / x.nCh = 1 ∧
          x' = { x with chans := List.zipWith (overlay x.mask) x.chans (broadcastRows (countTrue x.mask) (chunks (v.length / x.nCh) x.nCh v)) })))) := by
  unfold maskedFvi at h
  dsimp only at h
  repeat' split at h
  all_goals first | (cases h; done) | skip
  all_goals (injection h with h; simp_all)

/-- PROPERTY (images, in place): mask, shape, class and landmarks are untouched by the in-place update -/
theorem img_fvi_carried (x x' : Img) (v : Vec) (hc : isImgCls x.cls = true) (h : x.fvi v = .ok x') :
    x'.cls = x.cls ∧ x'.shape = x.shape ∧ x'.mask = x.mask ∧ x'.lms = x.lms := by
  rw [img_fvi_eq x v hc] at h
  split at h
  · obtain ⟨_, _, ⟨_, rfl, _⟩ | ⟨_, ⟨_, rfl⟩ | ⟨_, _, rfl⟩⟩⟩ := maskedFvi_ok x x' v h <;> simp
  · unfold imageFvi at h
    split at h
    · injection h with h; subst h; simp
    · cases h

/-- PROPERTY (images, in place): after `from_vector_inplace(v)` with `n_parameters` entries the receiver's
`as_vector()` is `v` — all three image classes (a BooleanImage is *not* coerced: see
`boolean_inplace_not_coerced`) -/
theorem img_fvi_as_from (x x' : Img) (v : Vec) (hc : isImgCls x.cls = true) (hw : x.wf = true)
    (hn : v.length = x.nParams) (h : x.fvi v = .ok x') : x'.asVec = v := by
  obtain ⟨hcar, hsh, hmask, _⟩ := img_fvi_carried x x' v hc h
  have hc' : isImgCls x'.cls = true := by rw [hcar]; exact hc
  obtain ⟨h1, h2, _⟩ := (img_wf_iff x).1 hw
  obtain ⟨_, hnp⟩ := img_length_eq_nparams x hc hw
  rw [img_asVec_eq x' hc', hcar]
  rw [img_fvi_eq x v hc] at h
  split at h
  · rename_i hm
    simp only [hm, if_true] at hnp ⊢
    have hml : x.mask.length = x.nPix := h2 hm
    obtain ⟨hn0, hmod, hcases⟩ := maskedFvi_ok x x' v h
    have hdiv : v.length = x.nCh * (v.length / x.nCh) := by
      rw [Nat.mul_comm]; exact (Nat.div_mul_cancel (Nat.dvd_of_mod_eq_zero hmod)).symm
    rcases hcases with ⟨ht, rfl, hl⟩ | ⟨ht, ⟨hk, rfl⟩ | ⟨hk, _, _⟩⟩
    · simp only [maskedAsVec, ht, if_true]
      exact flatten_chunks _ _ _ (by rw [hl])
    · simp only [maskedAsVec, ht, Bool.false_eq_true, if_false]
      have hrows := chunks_row_length (v.length / x.nCh) x.nCh v hdiv
      have hcl : (chunks (v.length / x.nCh) x.nCh v).length = x.chans.length := chunks_length _ _ _
      have : List.map (fun c => maskFilter c x.mask)
            (List.zipWith (overlay x.mask) x.chans (chunks (v.length / x.nCh) x.nCh v))
          = chunks (v.length / x.nCh) x.nCh v := by
        apply List.ext_getElem?
        intro i
        simp only [List.getElem?_map, List.getElem?_zipWith]
        cases hci : x.chans[i]? with
        | none =>
          have : (chunks (v.length / x.nCh) x.nCh v)[i]? = none := by
            rw [List.getElem?_eq_none_iff] at hci ⊢; omega
          simp [this]
        | some c =>
          cases hri : (chunks (v.length / x.nCh) x.nCh v)[i]? with
          | none => simp
          | some r =>
            simp only [Option.map_some, Option.some.injEq]
            exact maskFilter_overlay x.mask c r (by rw [h1 c (List.mem_of_getElem? hci), hml])
              (by rw [hrows r (List.mem_of_getElem? hri), hk])
      rw [this]
      exact flatten_chunks _ _ _ hdiv
    · exfalso
      apply hk
      rw [hn, hnp, Nat.mul_comm]
      exact Nat.mul_div_cancel _ (Nat.pos_of_ne_zero hn0)
  · rename_i hm
    simp only [hm, if_false, imageAsVec]
    unfold imageFvi at h
    split at h
    · rename_i hl
      injection h with h; subst h
      exact flatten_chunks _ _ _ (by rw [hl])
    · cases h

/-- PROPERTY (masked images, in place — the contrast with `masked_zero_elsewhere`): the in-place update
assigns under the mask only; a pixel outside the mask keeps the value it had, in every channel -/
theorem masked_fvi_keeps_outside (x x' : Img) (v : Vec) (hm : x.cls = .MaskedImage) (hw : x.wf = true)
    (hn : v.length = x.nParams) (hnf : allTrue x.mask = false)
    (h : x.fvi v = .ok x') (p : Nat) (hp : x.mask[p]? = some false) (c : Nat) :
    (x'.chans[c]?).bind (fun ch => ch[p]?) = (x.chans[c]?).bind (fun ch => ch[p]?) := by
  have hc : isImgCls x.cls = true := by simp [isImgCls, hm]
  obtain ⟨h1, h2, _⟩ := (img_wf_iff x).1 hw
  have hml : x.mask.length = x.nPix := h2 hm
  obtain ⟨_, hnp⟩ := img_length_eq_nparams x hc hw
  simp only [hm, if_true] at hnp
  rw [img_fvi_eq x v hc, if_pos hm] at h
  obtain ⟨hn0, hmod, hcases⟩ := maskedFvi_ok x x' v h
  rcases hcases with ⟨ht, _, _⟩ | ⟨_, ⟨hk, rfl⟩ | ⟨hk, _, _⟩⟩
  · rw [ht] at hnf; cases hnf
  · have hcl : (chunks (v.length / x.nCh) x.nCh v).length = x.chans.length := chunks_length _ _ _
    simp only [List.getElem?_zipWith]
    cases hci : x.chans[c]? with
    | none => simp
    | some ch =>
      have hlt : c < (chunks (v.length / x.nCh) x.nCh v).length := by
        rw [hcl]; exact (List.getElem?_eq_some_iff.mp hci).1
      obtain ⟨r, hr⟩ : ∃ r, (chunks (v.length / x.nCh) x.nCh v)[c]? = some r :=
        ⟨_, List.getElem?_eq_getElem hlt⟩
      simp only [hr, Option.bind_some]
      exact overlay_false x.mask ch r p (by rw [h1 ch (List.mem_of_getElem? hci), hml]) hp
  · exfalso
    apply hk
    rw [hn, hnp, Nat.mul_comm]
    exact Nat.mul_div_cancel _ (Nat.pos_of_ne_zero hn0)

/-- `BooleanImage` inherits `Image._from_vector_inplace`, which stores the reshaped vector as it is: updated in
place with non-boolean values a BooleanImage holds non-boolean pixels, whereas `BooleanImage.from_vector`
coerces (witness; the deprecated mutator is outside the property's `from_vector` clause) -/
theorem boolean_inplace_not_coerced :
    ∃ (x xi xf : Img) (v : Vec), x.cls = .BooleanImage ∧ x.wf = true ∧ v.length = x.nParams ∧
      x.fvi v = .ok xi ∧ xi.wf = false ∧ x.fromVec v = .ok xf ∧ xf.wf = true :=
  ⟨⟨.BooleanImage, [2], [[1, 0]], [], []⟩, ⟨.BooleanImage, [2], [[3, 0]], [], []⟩,
   ⟨.BooleanImage, [2], [[1, 0]], [], []⟩, [3, 0], rfl, by decide +kernel, by decide +kernel, by decide +kernel,
   by decide +kernel, by decide +kernel, by decide +kernel⟩

/-- PROPERTY (a failed `from_vector_inplace` leaves the receiver as it was) — for every transform class but
AlignmentAffine: each supplier raises before it touches the object -/
theorem failed_inplace_keeps_receiver (x : Xf) (v : Vec)
    (hne : x.cls ≠ .AlignmentAffine) : x.afterFailedFvi v = x := by
  obtain ⟨cls, hm, s, t⟩ := x
  cases cls <;> first | rfl | (exfalso; exact hne rfl)

/-- … and AlignmentAffine is the exception (witness): `_set_h_matrix` stores the matrix of the other dimension
before the re-sync of the target raises, so the failed update leaves a 2-D alignment holding a 4×4 matrix.
`from_vector` is not affected (the half-updated object is its private copy). -/
theorem alignment_affine_failed_inplace_half_updated :
    ∃ (x : Xf) (v : Vec) (e : Err), x.cls = .AlignmentAffine ∧ x.wf = true ∧ x.fvi fixed v = .error e ∧
      x.fromVec fixed v = .error e ∧ (x.afterFailedFvi v).h.length = 4 ∧ x.h.length = 3 :=
  ⟨⟨.AlignmentAffine, [[1, 0, 2], [0, 1, 3], [0, 0, 1]], [[0, 0], [1, 0], [0, 1]], [[2, 3], [3, 3], [2, 4]]⟩,
   [1, 2, 3, 4, 5, 6, 7, 8, 9, 10, 11, 12], .value, rfl, by decide +kernel, by decide +kernel, by decide +kernel,
   by decide +kernel, rfl⟩

/-! ## every vector of `n_parameters` entries is accepted -/

/-- PROPERTY (shapes): `from_vector` accepts every vector of `n_parameters` entries -/
theorem shape_right_length_accepted (V : Variant) (s : Shape) (v : Vec) (hc : isShapeCls s.cls = true)
    (hw : s.wf = true) (hn : v.length = s.nParams) : ∃ s', s.fromVec V v = .ok s' := by
  simp only [Shape.wf, Bool.and_eq_true, decide_eq_true_eq, beq_iff_eq] at hw
  obtain ⟨⟨⟨hd, hm⟩, _⟩, _⟩ := hw
  have hd' : ¬ s.d = 0 := by omega
  have hl : v.length = s.points.length := hn
  rw [shape_fromVec_eq V s v hc]
  unfold texturedFromVector pointCloudFvi
  split <;> simp [hl, hm]

theorem countTrue_allTrue (m : List Bool) (h : allTrue m = true) : countTrue m = m.length := by
  induction m with
  | nil => rfl
  | cons b bs ih =>
    simp only [allTrue, List.all_cons, Bool.and_eq_true, id] at h
    obtain ⟨hb, hbs⟩ := h
    subst hb
    simp [countTrue, ih (by simpa [allTrue] using hbs)]; omega

/-- PROPERTY (images): `from_vector` accepts every vector of `n_parameters` entries -/
theorem img_right_length_accepted (x : Img) (v : Vec) (hc : isImgCls x.cls = true) (hw : x.wf = true)
    (hch : x.nCh ≠ 0) (hn : v.length = x.nParams) : ∃ x', x.fromVec v = .ok x' := by
  obtain ⟨h1, h2, h3⟩ := (img_wf_iff x).1 hw
  obtain ⟨_, hnp⟩ := img_length_eq_nparams x hc hw
  rw [hnp] at hn
  rw [img_fromVec_eq x v hc]
  split
  · rename_i hm
    simp only [hm, if_true] at hn
    unfold maskedFromVector
    split
    · rename_i ht
      rw [countTrue_allTrue _ ht, h2 hm] at hn
      simp [hn]
    · have hmod : v.length % x.nCh = 0 := by rw [hn]; exact Nat.mul_mod_right _ _
      have hdiv : v.length / x.nCh = countTrue x.mask := by
        rw [hn]; exact Nat.mul_div_cancel_left _ (Nat.pos_of_ne_zero hch)
      simp [hmod, hdiv]
  · rename_i hm
    simp only [hm, if_false] at hn
    split
    · rename_i hb
      obtain ⟨hone, _⟩ := h3 hb
      rw [hone, Nat.one_mul] at hn
      simp [booleanFromVector, hn]
    · simp [imageFromVector, hn]

theorem applyAff_retarget (h h' src tgt : Mat) (h0 : applyAff h src = .ok tgt) (hl : h'.length = h.length) :
    ∃ t, applyAff h' src = .ok t := by
  unfold applyAff at h0 ⊢
  split at h0
  · cases h0
  · rename_i hne
    split at h0
    · rename_i hall
      have hne' : ¬ h' = [] := by
        intro e; rw [e] at hl; exact hne (List.length_eq_zero_iff.mp hl.symm)
      rw [if_neg hne', hl, if_pos hall]
      exact ⟨_, rfl⟩
    · cases h0

theorem syncTarget_retarget (x : Xf) (h' : Mat) (h0 : applyAff x.h x.src = .ok x.tgt) (hl : h'.length = x.h.length) :
    ∃ x', syncTarget { x with h := h' } = .ok x' := by
  obtain ⟨t, ht⟩ := applyAff_retarget x.h h' x.src x.tgt h0 hl
  unfold syncTarget
  simp only [ht]
  exact ⟨_, rfl⟩

/-- PROPERTY (transforms): `from_vector` accepts every vector of `n_parameters` entries — all twelve classes
(a quaternion too short to normalise is accepted as "no change", as the code does), both variants -/
theorem xf_right_length_accepted (V : Variant) (x : Xf) (v : Vec) (hc : isXfCls x.cls = true) (hw : x.wf = true)
    (hn : x.nParams = .ok v.length) : ∃ x', x.fromVec V v = .ok x' := by
  obtain ⟨hwH, hal⟩ := xf_wf_parts x hw
  rw [nParams_eq x hc] at hn
  obtain ⟨cls, hm, s, t⟩ := x
  cases cls <;> simp [isXfCls] at hc
  · -- Homogeneous
    simp only [Except.ok.injEq] at hn
    simp only [Xf.wfH, Bool.and_eq_true, decide_eq_true_eq, beq_iff_eq, List.all_eq_true] at hwH
    obtain ⟨_, hsq⟩ := hwH
    rw [fromVec_Homogeneous]
    unfold homogFvi; dsimp only
    rw [if_pos (by rw [← hn]; exact flatten_length_uniform _ _ hsq)]
    exact ⟨_, rfl⟩
  all_goals
    have haff := wfH_affine _ _ rfl (by simp) hwH
    rcases affineWF_lit _ haff with ⟨a, b, c, d, e, f, rfl⟩ | ⟨a, b, c, t', d, e, f, u, g, i, j, w, rfl⟩
  -- Affine 2-D / 3-D
  · simp at hn
    match v, hn with
    | [p1, p2, p3, p4, p5, p6], _ => exact ⟨_, rfl⟩
  · simp at hn
    match v, hn with
    | [p1, p2, p3, p4, p5, p6, p7, p8, p9, p10, p11, p12], _ => exact ⟨_, rfl⟩
  -- Similarity
  · simp at hn
    match v, hn with
    | [p1, p2, p3, p4], _ => exact ⟨_, rfl⟩
  · simp at hn
  -- Translation
  · simp at hn
    match v, hn with
    | [p1, p2], _ => exact ⟨_, rfl⟩
  · simp at hn
    match v, hn with
    | [p1, p2, p3], _ => exact ⟨_, rfl⟩
  -- UniformScale
  · simp at hn
    match v, hn with
    | [p1], _ => rw [fromVec_UniformScale]; unfold uniformScaleFvi; simp
  · simp at hn
    match v, hn with
    | [p1], _ => rw [fromVec_UniformScale]; unfold uniformScaleFvi; simp
  -- NonUniformScale
  · exact ⟨_, rfl⟩
  · exact ⟨_, rfl⟩
  -- Rotation
  · simp at hn
  · simp at hn
    match v, hn with
    | [p1, p2, p3, p4], _ =>
      rw [fromVec_Rotation]; unfold rotationFvi
      simp only [List.length_cons, List.length_nil, ne_eq, not_true_eq_false, if_false, Nat.reduceAdd]
      split
      · exact ⟨_, rfl⟩
      · exact ⟨_, rfl⟩
  -- AlignmentAffine
  · simp at hn
    match v, hn with
    | [p1, p2, p3, p4, p5, p6], _ =>
      rw [fromVec_AlignmentAffine]
      exact syncTarget_retarget ⟨.AlignmentAffine, _, s, t⟩ [[1 + p1, p3, p5], [p2, 1 + p4, p6], [0, 0, 1]] (hal rfl) rfl
  · simp at hn
    match v, hn with
    | [p1, p2, p3, p4, p5, p6, p7, p8, p9, p10, p11, p12], _ =>
      rw [fromVec_AlignmentAffine]
      exact syncTarget_retarget ⟨.AlignmentAffine, _, s, t⟩
        [[1 + p1, p4, p7, p10], [p2, 1 + p5, p8, p11], [p3, p6, 1 + p9, p12], [0, 0, 0, 1]] (hal rfl) rfl
  -- AlignmentSimilarity
  · simp at hn
    match v, hn with
    | [p1, p2, p3, p4], _ =>
      rw [fromVec_AlignmentSimilarity]
      exact syncTarget_retarget ⟨.AlignmentSimilarity, _, s, t⟩ [[1 + p1, -p2, p3], [p2, 1 + p1, p4], [0, 0, 1]] (hal rfl) rfl
  · simp at hn
  -- AlignmentTranslation
  · simp at hn
    match v, hn with
    | [p1, p2], _ =>
      rw [fromVec_AlignmentTranslation]
      exact syncTarget_retarget ⟨.AlignmentTranslation, _, s, t⟩ [[a, b, p1], [d, e, p2], [0, 0, 1]] (hal rfl) rfl
  · simp at hn
    match v, hn with
    | [p1, p2, p3], _ =>
      rw [fromVec_AlignmentTranslation]
      exact syncTarget_retarget ⟨.AlignmentTranslation, _, s, t⟩
        [[a, b, c, p1], [d, e, f, p2], [g, i, j, p3], [0, 0, 0, 1]] (hal rfl) rfl
  -- AlignmentUniformScale
  · simp at hn
    match v, hn with
    | [p1], _ =>
      rw [fromVec_AlignmentUniformScale]
      have : uniformScaleFvi V ⟨.AlignmentUniformScale, [[a, b, c], [d, e, f], [0, 0, 1]], s, t⟩ [p1] =
          .ok ⟨.AlignmentUniformScale, [[p1, b, c], [d, p1, f], [0, 0, 1]], s, t⟩ := by
        unfold uniformScaleFvi; simp [fillDiagOne, fillDiagAux, cyc]
      rw [this]
      exact syncTarget_retarget ⟨.AlignmentUniformScale, _, s, t⟩ [[p1, b, c], [d, p1, f], [0, 0, 1]] (hal rfl) rfl
  · simp at hn
    match v, hn with
    | [p1], _ =>
      rw [fromVec_AlignmentUniformScale]
      have : uniformScaleFvi V ⟨.AlignmentUniformScale, [[a, b, c, t'], [d, e, f, u], [g, i, j, w], [0, 0, 0, 1]], s, t⟩ [p1] =
          .ok ⟨.AlignmentUniformScale, [[p1, b, c, t'], [d, p1, f, u], [g, i, p1, w], [0, 0, 0, 1]], s, t⟩ := by
        unfold uniformScaleFvi; simp [fillDiagOne, fillDiagAux, cyc]
      rw [this]
      exact syncTarget_retarget ⟨.AlignmentUniformScale, _, s, t⟩
        [[p1, b, c, t'], [d, p1, f, u], [g, i, p1, w], [0, 0, 0, 1]] (hal rfl) rfl
  -- AlignmentRotation
  · simp at hn
  · simp at hn
    match v, hn with
    | [p1, p2, p3, p4], _ =>
      rw [fromVec_AlignmentRotation]; unfold rotationFvi
      simp only [List.length_cons, List.length_nil, ne_eq, not_true_eq_false, if_false, Nat.reduceAdd]
      split
      · exact ⟨_, rfl⟩
      · exact syncTarget_retarget ⟨.AlignmentRotation, _, s, t⟩ _ (hal rfl) (by simp [setRotBase, quatMatrix])

/-! ## the dimensions in which a class is not vectorizable: what happens instead -/

/-- PROPERTY (3-D Similarity / AlignmentSimilarity: outside the quantifier, "not vectorizable" is a
NotImplementedError from `as_vector`, `n_parameters` and — for the 7-parameter vector a 3-D similarity would
have — `from_vector`; every other length but 4 is a ValueError).  Both variants. -/
theorem similarity3d_not_vectorizable (V : Variant) (eig : Mat → Vec) (x : Xf) (v : Vec)
    (hc : x.cls = .Similarity ∨ x.cls = .AlignmentSimilarity) (hw : affineWF x.h = true) (h4 : x.h.length = 4) :
    x.asVecWith eig = .error .notImpl ∧ x.nParams = .error .notImpl ∧
    (v.length = 7 → x.fromVec V v = .error .notImpl) ∧
    (v.length ≠ 4 → v.length ≠ 7 → x.fromVec V v = .error .value) := by
  obtain ⟨cls, hm, s, t⟩ := x
  rcases affineWF_lit _ hw with ⟨a, b, c, d, e, f, rfl⟩ | ⟨a, b, c, t', d, e, f, u, g, i, j, w, rfl⟩
  · simp at h4
  · have key : ∀ (r : Row) (y : Xf), (v.length = 7 → similarityFvi r y v = .error .notImpl) ∧
        (v.length ≠ 4 → v.length ≠ 7 → similarityFvi r y v = .error .value) := by
      intro r y
      constructor
      · intro hl
        match v, hl with
        | [_, _, _, _, _, _, _], _ => rfl
      · intro h4' h7
        unfold similarityFvi
        split
        · simp at h4'
        · simp at h7
        · rfl
    rcases hc with hc | hc <;> (simp only at hc; subst hc)
    · exact ⟨rfl, rfl, fun hl => by rw [fromVec_Similarity]; exact (key _ _).1 hl,
        fun h4' h7 => by rw [fromVec_Similarity]; exact (key _ _).2 h4' h7⟩
    · refine ⟨rfl, rfl, fun hl => ?_, fun h4' h7 => ?_⟩
      · rw [fromVec_AlignmentSimilarity, (key _ _).1 hl]; rfl
      · rw [fromVec_AlignmentSimilarity, (key _ _).2 h4' h7]; rfl

/-- the remaining length: a 4-vector handed to a 3-D Similarity is read as 2-D parameters — the result is a
well-formed *2-D* Similarity (witness; 3-D similarities are outside the property's quantifier) -/
theorem similarity3d_four_params_become_2d :
    ∃ x x' : Xf, x.cls = .Similarity ∧ x.h.length = 4 ∧ Xf.wfH x.cls x.h = true ∧
      x.fromVec fixed [1, 2, 3, 4] = .ok x' ∧ x'.h.length = 3 ∧ Xf.wfH x'.cls x'.h = true :=
  ⟨⟨.Similarity, [[2, 0, 0, 1], [0, 2, 0, 1], [0, 0, 2, 1], [0, 0, 0, 1]], [], []⟩,
   ⟨.Similarity, [[2, -2, 3], [2, 2, 4], [0, 0, 1]], [], []⟩, rfl, rfl, by decide +kernel, by decide +kernel,
   rfl, by decide +kernel⟩

/-- PROPERTY (2-D Rotation / AlignmentRotation: not vectorizable): `as_vector`, `n_parameters` and
`from_vector` with a vector of any length raise NotImplementedError.  Both variants, any eigen-solver. -/
theorem rotation2d_not_vectorizable (V : Variant) (eig : Mat → Vec) (x : Xf) (v : Vec)
    (hc : x.cls = .Rotation ∨ x.cls = .AlignmentRotation) (hw : affineWF x.h = true) (h3 : x.h.length = 3) :
    x.asVecWith eig = .error .notImpl ∧ x.nParams = .error .notImpl ∧ x.fromVec V v = .error .notImpl := by
  obtain ⟨cls, hm, s, t⟩ := x
  rcases affineWF_lit _ hw with ⟨a, b, c, d, e, f, rfl⟩ | ⟨a, b, c, t', d, e, f, u, g, i, j, w, rfl⟩
  · rcases hc with hc | hc <;> (simp only at hc; subst hc) <;> exact ⟨rfl, rfl, rfl⟩
  · simp at h3

/-! ## boundary images -/

theorem countTrue_zero_scatter (m : List Bool) (h : countTrue m = 0) (xs : List Rat) :
    scatter (0 : Rat) m xs = List.replicate m.length 0 := by
  induction m generalizing xs with
  | nil => rfl
  | cons b bs ih =>
    cases b
    · simp [countTrue] at h
      simp [scatter, ih h, List.replicate_succ]
    · simp [countTrue] at h

theorem countTrue_zero_filter {α} (m : List Bool) (h : countTrue m = 0) (c : List α) : maskFilter c m = [] := by
  induction m generalizing c with
  | nil => cases c <;> rfl
  | cons b bs ih =>
    cases b
    · simp [countTrue] at h
      cases c with
      | nil => rfl
      | cons x xs => simp [maskFilter, ih h]
    · simp [countTrue] at h

theorem flatten_nils {α} (l : List (List α)) (h : ∀ r ∈ l, r = []) : l.flatten = [] := by
  induction l with
  | nil => rfl
  | cons r rs ih =>
    rw [List.flatten_cons, h r (by simp), ih (fun x hx => h x (List.mem_cons_of_mem _ hx))]; rfl

theorem chunks_zero_nil {α} (n : Nat) : ∀ r ∈ chunks 0 n ([] : List α), r = [] := by
  induction n with
  | zero => intro r hr; cases hr
  | succ n ih =>
    intro r hr
    simp only [chunks, List.take_nil, List.drop_nil, List.mem_cons] at hr
    rcases hr with rfl | hr
    · rfl
    · exact ih r hr

/-- PROPERTY (MaskedImage whose mask is all false): `n_parameters` is 0, `as_vector()` is empty, and
`from_vector` of the empty vector is accepted and returns the same mask, shape and landmarks over pixels that
are zero everywhere — whose `as_vector()` is again empty -/
theorem masked_all_false (x : Img) (hm : x.cls = .MaskedImage) (hw : x.wf = true) (hch : x.nCh ≠ 0)
    (hpix : x.nPix ≠ 0) (hf : countTrue x.mask = 0) :
    x.nParams = 0 ∧ x.asVec = [] ∧
    ∃ x', x.fromVec [] = .ok x' ∧ x'.mask = x.mask ∧ x'.shape = x.shape ∧ x'.lms = x.lms ∧ x'.wf = true ∧
      x'.chans = List.replicate x.nCh (List.replicate x.nPix 0) ∧ x'.asVec = [] := by
  have hc : isImgCls x.cls = true := by simp [isImgCls, hm]
  obtain ⟨h1, h2, _⟩ := (img_wf_iff x).1 hw
  have hml : x.mask.length = x.nPix := h2 hm
  have hav : x.asVec = [] := by
    rw [img_asVec_eq x hc, if_pos hm,
      maskedAsVec_uniform x (fun c hcm => by rw [h1 c hcm, hml])]
    apply flatten_nils
    intro r hr
    obtain ⟨c, _, rfl⟩ := List.mem_map.mp hr
    exact countTrue_zero_filter x.mask hf c
  have hnt : allTrue x.mask = false := by
    cases hmk : x.mask with
    | nil => rw [hmk] at hml; exact absurd hml.symm hpix
    | cons b bs =>
      cases b
      · simp [allTrue]
      · rw [hmk] at hf; simp [countTrue] at hf
  have hfv : x.fromVec [] = .ok { x with chans := List.map (scatter 0 x.mask) (chunks 0 x.nCh []) } := by
    rw [img_fromVec_eq x [] hc, if_pos hm]
    unfold maskedFromVector
    simp [hnt, hch, hf]
  refine ⟨by rw [Img.nParams, hav]; rfl, hav, _, hfv, rfl, rfl, rfl, ?_, ?_, ?_⟩
  · exact img_from_vector_wellformed x _ [] hc hw hfv
  · simp only
    apply List.ext_getElem
    · simp [chunks_length, Img.nCh]
    · intro i h1' h2'
      simp only [List.getElem_map, List.getElem_replicate]
      rw [countTrue_zero_scatter x.mask hf, hml]
  · have hw' := img_from_vector_wellformed x _ [] hc hw hfv
    have := img_as_from x _ [] hc hw (by simp [Img.nParams, hav]) (fun hb => by rw [hm] at hb; cases hb) hfv
    exact this

/-! ## options of the image entry points -/

theorem blank_facts (x : Img) (k : Nat) :
    (x.blank k).nCh = k ∧ (x.blank k).nPix = x.nPix ∧ (x.blank k).mask = x.mask ∧ (x.blank k).cls = x.cls ∧
    (x.blank k).shape = x.shape ∧ (x.blank k).lms = x.lms := by
  simp [Img.blank, Img.nCh, Img.nPix]

theorem blank_wf (x : Img) (k : Nat) (hw : x.wf = true) (hb : x.cls ≠ .BooleanImage) : (x.blank k).wf = true := by
  obtain ⟨_, h2, _⟩ := (img_wf_iff x).1 hw
  rw [img_wf_iff]
  obtain ⟨_, hp, hm, hc, _, _⟩ := blank_facts x k
  refine ⟨fun c hcm => ?_, fun hcl => by rw [hm, hp]; exact h2 (hc ▸ hcl), fun hcl => absurd (hc ▸ hcl) hb⟩
  simp only [Img.blank, List.mem_replicate] at hcm
  rw [hcm.2, hp]; simp

/-- PROPERTY (`from_vector(v, n_channels=k)`): it is `from_vector(v)` of the same image with `k` blank channels —
so every `from_vector` theorem (round trip, layout, zero elsewhere, carried state, well-formedness) holds for it
with `k` in the place of `n_channels` -/
theorem fromVecN_eq_blank (x : Img) (k : Nat) (v : Vec) (hc : x.cls = .Image ∨ x.cls = .MaskedImage) :
    x.fromVecN k v = (x.blank k).fromVec v := by
  obtain ⟨cls, shape, chans, mask, lms⟩ := x
  rcases hc with hc | hc <;> (simp only at hc; subst hc)
  · show imageFromVectorN _ k v = imageFromVector _ v
    have e1 : (Img.blank ⟨.Image, shape, chans, mask, lms⟩ k).nCh = k := (blank_facts _ k).1
    unfold imageFromVectorN imageFromVector
    rw [e1]
    rfl
  · show maskedFromVectorN _ k v = maskedFromVector _ v
    have e1 : (Img.blank ⟨.MaskedImage, shape, chans, mask, lms⟩ k).nCh = k := (blank_facts _ k).1
    unfold maskedFromVectorN maskedFromVector
    rw [e1]
    rfl

/-- with `k = n_channels` the option changes nothing -/
theorem fromVecN_self (x : Img) (v : Vec) (hc : x.cls = .Image ∨ x.cls = .MaskedImage) :
    x.fromVecN x.nCh v = x.fromVec v := by
  obtain ⟨cls, shape, chans, mask, lms⟩ := x
  rcases hc with hc | hc <;> (simp only at hc; subst hc) <;> rfl

/-- PROPERTY (`from_vector(v, n_channels=k)`, spelled out): whatever is accepted is a well-formed image of the
same class, shape, mask and landmarks with `k` channels, and for `v` of `k * (pixels under the mask)` entries its
`as_vector()` is `v` -/
theorem fromVecN_spec (x x' : Img) (k : Nat) (v : Vec) (hc : x.cls = .Image ∨ x.cls = .MaskedImage)
    (hw : x.wf = true) (h : x.fromVecN k v = .ok x') :
    x'.wf = true ∧ x'.nCh = k ∧ x'.cls = x.cls ∧ x'.shape = x.shape ∧ x'.mask = x.mask ∧ x'.lms = x.lms ∧
    (v.length = k * (if x.cls = .MaskedImage then countTrue x.mask else x.nPix) → x'.asVec = v) := by
  have hb : x.cls ≠ .BooleanImage := by rcases hc with hc | hc <;> rw [hc] <;> simp
  have hci : isImgCls x.cls = true := by rcases hc with hc | hc <;> simp [isImgCls, hc]
  rw [fromVecN_eq_blank x k v hc] at h
  obtain ⟨hn, hp, hm, hcl, hs, hl⟩ := blank_facts x k
  have hwb := blank_wf x k hw hb
  have hcb : isImgCls (x.blank k).cls = true := by rw [hcl]; exact hci
  obtain ⟨c1, c2, c3, c4⟩ := img_carried _ _ _ hcb h
  have hwf := img_from_vector_wellformed _ _ _ hcb hwb h
  refine ⟨hwf, ?_, c1.trans hcl, c2.trans hs, c3.trans hm, c4.trans hl, fun hlen => ?_⟩
  · -- the number of channels
    rw [img_fromVec_eq _ _ hcb, hcl] at h
    rcases hc with hc | hc
    · rw [hc] at h
      have h' : imageFromVector (x.blank k) v = .ok x' := by simpa using h
      obtain ⟨rfl, _⟩ := imageFromVector_ok _ _ _ h'
      show (chunks _ _ v).length = k
      rw [chunks_length]; exact hn
    · rw [hc] at h
      have h' : maskedFromVector (x.blank k) v = .ok x' := by simpa using h
      rcases maskedFromVector_ok _ _ _ h' with ⟨_, rfl, _⟩ | ⟨_, _, _, ⟨_, rfl⟩ | ⟨_, _, rfl⟩⟩
      · show (chunks _ _ v).length = k
        rw [chunks_length]; exact hn
      · show (List.map _ (chunks _ _ v)).length = k
        rw [List.length_map, chunks_length]; exact hn
      · show (List.map _ (chunks _ _ v)).length = k
        rw [List.length_map, chunks_length]; exact hn
  · apply img_as_from _ _ _ hcb hwb _ (fun hbb => absurd (hcl ▸ hbb) hb) h
    obtain ⟨_, hnp⟩ := img_length_eq_nparams _ hcb hwb
    rw [hnp, hn, hcl, hm, hp, hlen]

/-- PROPERTY (`as_vector(keep_channels=True)`): one row per channel whose concatenation is `as_vector()` -/
theorem asVecKeep_flatten (x : Img) (hc : isImgCls x.cls = true) :
    x.asVecKeep.flatten = x.asVec ∧ x.asVecKeep.length = x.nCh := by
  obtain ⟨cls, shape, chans, mask, lms⟩ := x
  cases cls <;> simp [isImgCls] at hc
  · exact ⟨rfl, rfl⟩
  · unfold Img.asVecKeep Img.asVec
    simp only [show (rowOf Cls.MaskedImage).asVector = .MaskedImage from rfl]
    unfold maskedAsVec
    constructor <;> split <;> simp [Img.nCh]
  · exact ⟨rfl, rfl⟩

/-! ## dtypes -/

/-- PROPERTY (the result's dtype follows the vector): the coordinate array of every shape class and the pixel
array of Image and MaskedImage (whatever the mask) have the dtype of the vector handed to `from_vector`,
whatever the receiver stores; a BooleanImage stays boolean; a Homogeneous matrix takes the vector's dtype, Affine
and Similarity (and their alignments) build a float64 matrix, the classes that assign into their matrix
(Translation, the scales, Rotation and their alignments) keep the matrix dtype -/
theorem from_vector_dtype (c : Cls) (full : Bool) (own vec : Dt) :
    ((isShapeCls c = true ∨ c = .Image ∨ c = .MaskedImage ∨ c = .Homogeneous) →
        fromVecDtype (rowOf c) full own vec = vec) ∧
    (c = .BooleanImage → fromVecDtype (rowOf c) full own vec = .bool) ∧
    ((c = .Affine ∨ c = .Similarity ∨ c = .AlignmentAffine ∨ c = .AlignmentSimilarity) →
        fromVecDtype (rowOf c) full own vec = .float64) ∧
    ((c = .Translation ∨ c = .UniformScale ∨ c = .NonUniformScale ∨ c = .Rotation ∨ c = .AlignmentTranslation ∨
      c = .AlignmentUniformScale ∨ c = .AlignmentRotation) → fromVecDtype (rowOf c) full own vec = own) := by
  cases c <;> simp [isShapeCls, isGraphCls, isMeshCls]
  all_goals (try rfl)

/-- PROPERTY (`from_vector(v).as_vector()` returns `v`, dtype included): for the shape and image classes the
vector read back has the dtype of the vector put in (a boolean one for BooleanImage) -/
theorem as_from_dtype (c : Cls) (full : Bool) (own vec : Dt)
    (hc : isShapeCls c = true ∨ c = .Image ∨ c = .MaskedImage ∨ c = .Homogeneous ∨ (c = .BooleanImage ∧ vec = .bool)) :
    asVecDtype (rowOf c) (fromVecDtype (rowOf c) full own vec) = vec := by
  cases c <;> simp [isShapeCls, isGraphCls, isMeshCls] at hc <;> first | rfl | (subst hc; rfl)

/-- the in-place update differs exactly at a MaskedImage whose mask is not all true: the assignment
`pixels[..., mask] = rows` casts to the dtype the image has, whereas `from_vector` allocates the canvas with the
vector's dtype -/
theorem masked_inplace_dtype (own vec : Dt) :
    fviDtype (rowOf .MaskedImage).fvi false own vec = own ∧ fviDtype (rowOf .MaskedImage).fvi true own vec = vec ∧
    fromVecDtype (rowOf .MaskedImage) false own vec = vec := ⟨rfl, rfl, rfl⟩

/-! ## the `eigh` contract is satisfiable at every unit quaternion -/

/-- for every unit quaternion `q = (w, a, b, c)` the vector `(a, b, c, w)` meets the `eigh` contract for `K(q)`
with eigenvalue 1 (Cauchy–Schwarz bounds every Rayleigh quotient by 1): `rotation_as_from` and
`rotation_from_as` are not vacuous for any rotation -/
theorem eigh_contract_satisfiable (w a b c : Rat) (hu : w * w + a * a + b * b + c * c = 1) :
    EighContract (fun _ => [a, b, c, w]) (Kq w a b c) 1 a b c w where
  out := rfl
  unit := by linear_combination hu
  eigen := by
    simp only [Kq, List.map, dot, List.cons.injEq, and_true]
    refine ⟨?_, ?_, ?_, ?_⟩
    · linear_combination (4 * a / 3) * hu
    · linear_combination (4 * b / 3) * hu
    · linear_combination (4 * c / 3) * hu
    · linear_combination (4 * w / 3) * hu
  top := by
    intro u0 u1 u2 u3 huu
    simp only [Kq, List.map, dot]
    have h1 : (a * a + b * b + c * c + w * w) * (u0 * u0 + u1 * u1 + u2 * u2 + u3 * u3) = 1 := by
      rw [huu, show a * a + b * b + c * c + w * w = 1 by linear_combination hu]; norm_num
    have cs : (a * u0 + b * u1 + c * u2 + w * u3) * (a * u0 + b * u1 + c * u2 + w * u3) ≤ 1 := by
      nlinarith [sq_nonneg (a * u1 - b * u0), sq_nonneg (a * u2 - c * u0), sq_nonneg (a * u3 - w * u0),
        sq_nonneg (b * u2 - c * u1), sq_nonneg (b * u3 - w * u1), sq_nonneg (c * u3 - w * u2), h1]
    nlinarith [cs, huu]

/-! ## non-vacuity: every hypothesis set above is satisfiable on a concrete, non-trivial value -/
section examples

def exMesh : Shape := ⟨.TexturedTriMesh, 2, [0, 0, 1, 0, 0, 1, 1, 1], 4, [0, 1, 2, 1, 3, 2], 7, [(0, [1, 1, 2, 2])]⟩
example : exMesh.fromVec fixed exMesh.asVec = .ok exMesh := shape_from_as fixed exMesh rfl (by decide) (Or.inl rfl)
def exMesh' : Shape := { exMesh with points := [5, 5, 6, 5, 5, 6, 7, 7] }
example : exMesh.fromVec fixed [5, 5, 6, 5, 5, 6, 7, 7] = .ok exMesh' := rfl
example : exMesh'.asVec = [5, 5, 6, 5, 5, 6, 7, 7] ∧ exMesh'.lms = exMesh.lms ∧ exMesh'.wf = true :=
  ⟨shape_as_from fixed exMesh exMesh' _ rfl rfl,
   (shape_carried fixed exMesh exMesh' [5, 5, 6, 5, 5, 6, 7, 7] rfl rfl).2.2.2.2.2 (Or.inl rfl),
   (shape_wrong_length_fixed exMesh exMesh' [5, 5, 6, 5, 5, 6, 7, 7] rfl (by decide) rfl).2⟩
example : ∃ e, exMesh.fromVec fixed [1, 2, 3, 4] = .error e := ⟨_, rfl⟩
example : exMesh.nParams = 8 := by decide

def exMasked : Img := ⟨.MaskedImage, [2, 2], [[1, 2, 3, 4], [5, 6, 7, 8]], [true, false, false, true], [(0, [1, 1])]⟩
def exMasked' : Img := ⟨.MaskedImage, [2, 2], [[9, 0, 0, 8], [7, 0, 0, 6]], [true, false, false, true], [(0, [1, 1])]⟩
example : exMasked.fromVec [9, 8, 7, 6] = .ok exMasked' := rfl
example : exMasked'.asVec = [9, 8, 7, 6] :=
  img_as_from exMasked exMasked' [9, 8, 7, 6] rfl (by decide) (by decide) (by intro h; cases h) rfl
example : exMasked.asVec[1 * countTrue exMasked.mask + rank exMasked.mask 3]? = some 8 :=
  masked_vector_layout exMasked rfl (by decide) 1 3 (by decide)
example : ∀ ch ∈ exMasked'.chans, ch[1]? = some 0 :=
  masked_zero_elsewhere exMasked exMasked' [9, 8, 7, 6] rfl rfl 1 (by decide)
example : ∃ x', exMasked.fromVec exMasked.asVec = .ok x' ∧ x'.mask = exMasked.mask ∧ x'.asVec = exMasked.asVec := by
  obtain ⟨x', h1, _, _, h2, _, h3, _⟩ := img_from_as exMasked rfl (by decide) (by decide)
  exact ⟨x', h1, h2, h3⟩
-- one value per channel is broadcast under the mask by numpy: accepted, and well formed
example : ∃ x', exMasked.fromVec [3, 4] = .ok x' ∧ x'.wf = true :=
  ⟨_, rfl, img_from_vector_wellformed exMasked _ [3, 4] rfl (by decide) rfl⟩
example : ∃ e, exMasked.fromVec [1, 2, 3, 4, 5, 6] = .error e := ⟨_, rfl⟩
example : exMasked.nParams = exMasked.nCh * countTrue exMasked.mask := by
  have := (img_length_eq_nparams exMasked rfl (by decide)).2
  simpa [exMasked] using this

def exAffine : Xf := ⟨.Affine, [[2, 1, 5], [0, 3, 7], [0, 0, 1]], [], []⟩
def exAffine' : Xf := ⟨.Affine, [[2, 3, 5], [2, 5, 6], [0, 0, 1]], [], []⟩
example : exAffine.fromVec coded [1, 2, 3, 4, 5, 6] = .ok exAffine' := by decide +kernel
example : exAffine'.asVecWith (fun _ => []) = .ok [1, 2, 3, 4, 5, 6] :=
  xf_as_from coded _ exAffine exAffine' [1, 2, 3, 4, 5, 6] rfl (by decide) (by decide) rfl (by decide +kernel)
example : exAffine.asVecWith (fun _ => []) = .ok [1, 0, 1, 2, 5, 7] := by decide +kernel
example : exAffine.fromVec fixed [1, 0, 1, 2, 5, 7] = .ok exAffine :=
  xf_from_as fixed (fun _ => []) exAffine _ rfl (by decide) (by decide) (by decide +kernel)
example : exAffine.nParams = .ok 6 :=
  xf_length_eq_nparams (fun _ => []) exAffine [1, 0, 1, 2, 5, 7] rfl (by decide) (by decide +kernel)
example : ∃ e, exAffine.fromVec fixed [1, 2, 3, 4, 5] = .error e := ⟨_, rfl⟩

def exAlign : Xf := ⟨.AlignmentTranslation, [[1, 0, 2], [0, 1, 3], [0, 0, 1]], [[0, 0], [1, 0], [0, 1]],
  [[2, 3], [3, 3], [2, 4]]⟩
def exAlign' : Xf := ⟨.AlignmentTranslation, [[1, 0, 10], [0, 1, 20], [0, 0, 1]], [[0, 0], [1, 0], [0, 1]],
  [[10, 20], [11, 20], [10, 21]]⟩
example : exAlign.wf = true := by decide +kernel
example : exAlign.fromVec coded [10, 20] = .ok exAlign' := by decide +kernel
example : applyAff exAlign'.h exAlign'.src = .ok exAlign'.tgt :=
  (alignment_target_resynced coded exAlign exAlign' [10, 20] rfl (by decide +kernel) (by decide +kernel)).1
-- a length-1 vector is broadcast by numpy into the translation column: accepted, and well formed
def exAlign4 : Xf := ⟨.AlignmentTranslation, [[1, 0, 4], [0, 1, 4], [0, 0, 1]], [[0, 0], [1, 0], [0, 1]],
  [[4, 4], [5, 4], [4, 5]]⟩
example : exAlign.fromVec fixed [4] = .ok exAlign4 := by decide +kernel
example : Xf.wfH exAlign4.cls exAlign4.h = true :=
  (xf_wrong_length_fixed exAlign exAlign4 [4] rfl (by decide) (by decide +kernel)).2

/-- a NON-SQUARE plain Homogeneous (a 2×3 projection matrix: n_dims = 2, n_dims_output = 1): well formed, and both round
trips keep its 2×3 shape -/
def exProj : Xf := ⟨.Homogeneous, [[1, 2, 3], [4, 5, 6]], [], []⟩
example : exProj.wf = true := by decide +kernel
example : exProj.asVecWith (fun _ => []) = .ok [1, 2, 3, 4, 5, 6] ∧ exProj.nParams = .ok 6 := by decide +kernel
example : exProj.fromVec fixed [1, 2, 3, 4, 5, 6] = .ok exProj :=
  xf_from_as fixed (fun _ => []) exProj _ rfl (by decide) (by decide +kernel) (by decide +kernel)
example : exProj.fromVec fixed [6, 5, 4, 3, 2, 1] = .ok ⟨.Homogeneous, [[6, 5, 4], [3, 2, 1]], [], []⟩ := by decide +kernel
example : ∃ e, exProj.fromVec fixed [1, 2, 3, 4] = .error e := ⟨_, rfl⟩

def exRot : Xf := ⟨.Rotation, [[1, 0, 0, 0], [0, 1, 0, 0], [0, 0, 1, 0], [0, 0, 0, 1]], [], []⟩
/-- the `eigh` contract is satisfiable: for `q = (1/2, 1/2, 1/2, 1/2)` the vector `(1/2, 1/2, 1/2, 1/2)` is a unit
eigenvector of `K` with eigenvalue 1 and no Rayleigh quotient exceeds 1 -/
theorem exContract : EighContract (fun _ => [1/2, 1/2, 1/2, 1/2]) (Kq (1/2) (1/2) (1/2) (1/2)) 1 (1/2) (1/2) (1/2) (1/2) where
  out := rfl
  unit := by norm_num
  eigen := by simp only [Kq, List.map, dot]; norm_num
  top := by
    intro u0 u1 u2 u3 hu
    simp only [Kq, List.map, dot]
    nlinarith [sq_nonneg (u0 - u1), sq_nonneg (u0 - u2), sq_nonneg (u0 - u3), sq_nonneg (u1 - u2),
      sq_nonneg (u1 - u3), sq_nonneg (u2 - u3)]
example : ∃ x', exRot.fromVec coded [1/2, 1/2, 1/2, 1/2] = .ok x' ∧
    x'.asVecWith (fun _ => [1/2, 1/2, 1/2, 1/2]) = .ok [1/2, 1/2, 1/2, 1/2] := by
  have hx : exRot.fromVec coded [1/2, 1/2, 1/2, 1/2] =
      .ok ⟨.Rotation, [[0, 0, 1, 0], [1, 0, 0, 0], [0, 1, 0, 0], [0, 0, 0, 1]], [], []⟩ := by decide +kernel
  exact ⟨_, hx, rotation_as_from coded _ exRot _ (1/2) (1/2) (1/2) (1/2) 1 (1/2) (1/2) (1/2) (1/2)
    (Or.inl rfl) (by decide) rfl (by norm_num) (by norm_num) hx exContract⟩
example : ∃ x' v, exRot.fromVec coded [1/2, 1/2, 1/2, 1/2] = .ok x' ∧
    x'.asVecWith (fun _ => [1/2, 1/2, 1/2, 1/2]) = .ok v ∧ x'.fromVec coded v = .ok x' := by
  have hx : exRot.fromVec coded [1/2, 1/2, 1/2, 1/2] =
      .ok ⟨.Rotation, [[0, 0, 1, 0], [1, 0, 0, 0], [0, 1, 0, 0], [0, 0, 0, 1]], [], []⟩ := by decide +kernel
  obtain ⟨v, h1, h2⟩ := rotation_from_as coded _ exRot _ (1/2) (1/2) (1/2) (1/2) 1 (1/2) (1/2) (1/2) (1/2)
    (Or.inl rfl) (by decide) rfl (by norm_num) (by norm_num) hx exContract
  exact ⟨_, v, hx, h1, h2⟩

/-- the heap theorem at the shallowest copy menpo has (`HomogFamilyAlignment.copy`) and the in-place
writer `AlignmentTranslation._from_vector_inplace`: source and target cells are shared, the matrix cell is
fresh and written, the target is rebound -/
example : let H : Heap := ⟨fun a => if a = 0 then [1, 0, 2, 0, 1, 3, 0, 0, 1] else if a = 1 then [0, 0] else [], 4⟩
    let o : Obj := fun b => match b with | .hMatrix => 0 | .target => 1 | _ => 2
    let C := heapCopy (copyFresh .HomogFamilyAlignment) H o
    let R := heapRebind [.target] (fun _ => [9]) C.1 C.2
    ∀ b, (heapUpdate [.hMatrix] (fun _ => [9]) R.1 R.2).cell (o b) = H.cell (o b) := by
  intro H o
  exact (from_vector_pure_heap (copyFresh .HomogFamilyAlignment) [.target] [.hMatrix] rfl H o
    (by intro b; cases b <;> decide) _).1

/-- a population of two objects, each with its own seven cells: valid, and no writable buffer is shared -/
def exWorld : World := ⟨⟨fun a => [(a : Rat)], 14⟩, fun i b => 7 * i + bufIndex b, 2⟩

theorem exWorld_ok : exWorld.Valid ∧ exWorld.Owns writable := by
  constructor
  · intro i hi b
    have := bufIndex_lt b
    simp only [exWorld, nBufs] at *
    omega
  · intro i j hi hj b b' _ hd
    have h1 := bufIndex_lt b
    have h2 := bufIndex_lt b'
    simp only [exWorld, nBufs] at *
    rcases hd with hd | hd
    · omega
    · have : bufIndex b ≠ bufIndex b' := fun e => hd (bufIndex_inj b b' e)
      omega

/-- object 0 an AlignmentTranslation, object 1 a MaskedImage: `from_vector` on 0, `from_vector_inplace` on the
result (object 2, which shares source and target cells with 0), `from_vector_inplace` on the image, then
`from_vector` on the updated result — object 0 still holds what it held -/
example : ∀ b, (exWorld.run ([(rowOf .AlignmentTranslation, 0, false, fun _ => [5]),
      (rowOf .AlignmentTranslation, 2, true, fun _ => [6]), (rowOf .MaskedImage, 1, true, fun _ => [7]),
      (rowOf .AlignmentTranslation, 2, false, fun _ => [8])].map Call.step)).val 0 b = exWorld.val 0 b :=
  (from_vector_inplace_local exWorld exWorld_ok.1 exWorld_ok.2 _
    (by intro c hc; simp only [List.mem_cons, List.not_mem_nil, or_false] at hc
        rcases hc with rfl | rfl | rfl | rfl <;> decide) 0 (by decide)
    (by intro c hc hi; simp only [List.mem_cons, List.not_mem_nil, or_false] at hc
        rcases hc with rfl | rfl | rfl | rfl <;> simp_all)).1
example : ∀ i, i < exWorld.n → ∀ b, (exWorld.run ([(rowOf .TexturedTriMesh, 0, false, fun _ => [5]),
      (rowOf .AlignmentRotation, 1, false, fun _ => [6]), (rowOf .TexturedTriMesh, 2, false, fun _ => [7])].map
      Call.step)).val i b = exWorld.val i b :=
  fun i hi b => ((from_vector_program_pure exWorld exWorld_ok.1 _
    (by intro c hc; simp only [List.mem_cons, List.not_mem_nil, or_false] at hc
        rcases hc with rfl | rfl | rfl <;> exact ⟨by decide, rfl⟩)).1 i hi).2 b
/-- the in-place update of an AlignmentTranslation: matrix written, target rebound, source untouched -/
example : (exWorld.exec (stepOfRow (rowOf .AlignmentTranslation) 0 true (fun _ => [9]))).val 0 .hMatrix = [9] ∧
    (exWorld.exec (stepOfRow (rowOf .AlignmentTranslation) 0 true (fun _ => [9]))).val 0 .target = [9] ∧
    (exWorld.exec (stepOfRow (rowOf .AlignmentTranslation) 0 true (fun _ => [9]))).val 0 .source = exWorld.val 0 .source := by
  refine ⟨?_, ?_, ?_⟩ <;>
    (rw [from_vector_inplace_effect exWorld exWorld_ok.1 exWorld_ok.2 _ (by decide) 0 (by decide)]; rfl)

/-- images of one, two (degenerate 1×5) and three dimensions: the theorems do not care about `shape` -/
def exImg1 : Img := ⟨.Image, [5], [[1, 2, 3, 4, 5], [6, 7, 8, 9, 10]], [], [(0, [2])]⟩
def exImg3 : Img := ⟨.Image, [2, 1, 2], [[1, 2, 3, 4]], [], []⟩
example : exImg1.fromVec exImg1.asVec = .ok exImg1 ∧ exImg1.nParams = 10 := by
  obtain ⟨x', h1, _, _, _, _, _, _, h2⟩ := img_from_as exImg1 rfl (by decide) (by decide)
  rw [h2 (by decide)] at h1
  exact ⟨h1, by decide⟩
example : exImg3.fromVec exImg3.asVec = .ok exImg3 := by
  obtain ⟨x', h1, _, _, _, _, _, _, h2⟩ := img_from_as exImg3 rfl (by decide) (by decide)
  rw [h2 (by decide)] at h1
  exact h1
def exBoolFalse : Img := ⟨.BooleanImage, [1, 3], [[0, 0, 0]], [], []⟩
example : exBoolFalse.fromVec exBoolFalse.asVec = .ok exBoolFalse := by
  obtain ⟨x', h1, _, _, _, _, _, _, h2⟩ := img_from_as exBoolFalse rfl (by decide +kernel) (by decide)
  rw [h2 (by decide)] at h1
  exact h1
def exMaskedNone : Img := ⟨.MaskedImage, [2, 2], [[1, 2, 3, 4], [5, 6, 7, 8]], [false, false, false, false], [(0, [1, 1])]⟩
example : exMaskedNone.nParams = 0 ∧ ∃ x', exMaskedNone.fromVec [] = .ok x' ∧
    x'.chans = [[0, 0, 0, 0], [0, 0, 0, 0]] ∧ x'.asVec = [] := by
  obtain ⟨h0, _, x', h1, _, _, _, _, h2, h3⟩ := masked_all_false exMaskedNone rfl (by decide) (by decide) (by decide) rfl
  exact ⟨h0, x', h1, h2, h3⟩
/-- in place the pixels outside the mask survive, through `from_vector` they are zero -/
def exMaskedIn : Img := ⟨.MaskedImage, [2, 2], [[9, 2, 3, 8], [7, 6, 7, 6]], [true, false, false, true], [(0, [1, 1])]⟩
example : exMasked.fvi [9, 8, 7, 6] = .ok exMaskedIn := by decide +kernel
example : exMaskedIn.asVec = [9, 8, 7, 6] :=
  img_fvi_as_from exMasked exMaskedIn [9, 8, 7, 6] rfl (by decide) (by decide) (by decide +kernel)
example : (exMaskedIn.chans[1]?).bind (fun ch => ch[2]?) = some 7 :=
  (masked_fvi_keeps_outside exMasked exMaskedIn [9, 8, 7, 6] rfl (by decide) (by decide) (by decide)
    (by decide +kernel) 2 (by decide) 1).trans (by decide +kernel)
example : exMesh.fromVec coded [5, 5, 6, 5, 5, 6, 7, 7] ≠ exMesh.fvi coded [5, 5, 6, 5, 5, 6, 7, 7] := by decide +kernel
example : exMesh.fromVec fixed [5, 5, 6, 5, 5, 6, 7, 7] = exMesh.fvi fixed [5, 5, 6, 5, 5, 6, 7, 7] :=
  shape_inplace_agrees fixed exMesh _ rfl (Or.inl rfl)
def exSim3 : Xf := ⟨.AlignmentSimilarity, [[2, 0, 0, 1], [0, 2, 0, 1], [0, 0, 2, 1], [0, 0, 0, 1]],
  [[0, 0, 0], [1, 0, 0]], [[1, 1, 1], [3, 1, 1]]⟩
example : exSim3.nParams = .error .notImpl ∧ exSim3.fromVec coded [1, 2, 3, 4, 5, 6, 7] = .error .notImpl := by
  obtain ⟨_, h2, h3, _⟩ := similarity3d_not_vectorizable coded (fun _ => []) exSim3 [1, 2, 3, 4, 5, 6, 7]
    (Or.inr rfl) (by decide +kernel) rfl
  exact ⟨h2, h3 rfl⟩
def exRot2 : Xf := ⟨.Rotation, [[0, -1, 0], [1, 0, 0], [0, 0, 1]], [], []⟩
example : exRot2.fromVec fixed [1, 0, 0, 0] = .error .notImpl :=
  (rotation2d_not_vectorizable fixed (fun _ => []) exRot2 [1, 0, 0, 0] (Or.inl rfl) (by decide +kernel) rfl).2.2
example : EighContract (fun _ => [2/7, 3/7, 6/7, 0]) (Kq 0 (2/7) (3/7) (6/7)) 1 (2/7) (3/7) (6/7) 0 :=
  eigh_contract_satisfiable 0 (2/7) (3/7) (6/7) (by norm_num)

/-- `from_vector(v, n_channels=3)` on a two-channel masked image: three channels, same mask, and `v` comes back -/
example : ∃ x', exMasked.fromVecN 3 [1, 2, 3, 4, 5, 6] = .ok x' ∧ x'.nCh = 3 ∧ x'.mask = exMasked.mask ∧
    x'.asVec = [1, 2, 3, 4, 5, 6] ∧ x'.chans = [[1, 0, 0, 2], [3, 0, 0, 4], [5, 0, 0, 6]] := by
  have h : exMasked.fromVecN 3 [1, 2, 3, 4, 5, 6] =
      .ok ⟨.MaskedImage, [2, 2], [[1, 0, 0, 2], [3, 0, 0, 4], [5, 0, 0, 6]], [true, false, false, true], [(0, [1, 1])]⟩ := by
    decide +kernel
  obtain ⟨_, h2, _, _, h5, _, h7⟩ := fromVecN_spec exMasked _ 3 _ (Or.inr rfl) (by decide) h
  exact ⟨_, h, h2, h5, h7 (by decide), rfl⟩
example : exMasked.asVecKeep = [[1, 4], [5, 8]] ∧ exMasked.asVecKeep.flatten = exMasked.asVec :=
  ⟨by decide +kernel, (asVecKeep_flatten exMasked rfl).1⟩

example : ∃ x', exAlign.fromVec fixed [7, 8] = .ok x' :=
  xf_right_length_accepted fixed exAlign [7, 8] rfl (by decide +kernel) (by decide +kernel)
example : ∃ x', exMasked.fromVec [4, 3, 2, 1] = .ok x' :=
  img_right_length_accepted exMasked [4, 3, 2, 1] rfl (by decide) (by decide) (by decide)
example : ∃ s', exMesh.fromVec coded [1, 2, 3, 4, 5, 6, 7, 8] = .ok s' :=
  shape_right_length_accepted coded exMesh _ rfl (by decide) (by decide)

end examples

end MenpoModel.C05
