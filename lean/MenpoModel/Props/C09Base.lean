/-
C09 — apply() is pure: no history, aliasing or batch-size effects.  Property theorems.
Core Lean only.
-/
import MenpoModel.Core.C09

namespace MenpoModel.C09

/-! ### helper lemmas -/

theorem chunks_flatten {α} (k : Nat) (hk : 0 < k) :
    ∀ (fuel : Nat) (xs : List α), xs.length < fuel → (chunks k fuel xs).flatten = xs := by
  intro fuel
  induction fuel with
  | zero => intro xs h; omega
  | succ n ih =>
    intro xs h
    cases xs with
    | nil => simp [chunks]
    | cons x t =>
      have hlen : ((x :: t).drop k).length < n := by
        simp only [List.length_drop, List.length_cons] at *; omega
      simp only [chunks, List.flatten_cons, ih _ hlen, List.take_append_drop]

theorem batches_flatten {α} (k : Nat) (hk : 0 < k) (xs : List α) : (batches k xs).flatten = xs :=
  chunks_flatten k hk _ xs (by omega)

theorem flatMap_hom {α β} (f : List α → List β) (hnil : f [] = [])
    (hf : ∀ a b, f (a ++ b) = f a ++ f b) (cs : List (List α)) : cs.flatMap f = f cs.flatten := by
  induction cs with
  | nil => simp [hnil]
  | cons c cs ih => simp [List.flatMap_cons, ih, hf]

/-! ### PROPERTY: batching.  For every transform whose `_apply` acts point by point (more generally:
commutes with concatenation), every batch size k ≥ 1 — dividing n or not, larger than n or not —
gives the unbatched result. -/

theorem batched_eq_unbatched_hom {α β} (f : List α → List β) (hnil : f [] = [])
    (hf : ∀ a b, f (a ++ b) = f a ++ f b) (k : Nat) (hk : 0 < k) (xs : List α) :
    applyBatched f k xs = f xs := by
  unfold applyBatched
  rw [flatMap_hom f hnil hf, batches_flatten k hk]

theorem batched_eq_unbatched {α β} (g : α → β) (k : Nat) (hk : 0 < k) (xs : List α) :
    applyBatched (List.map g) k xs = xs.map g :=
  batched_eq_unbatched_hom (List.map g) rfl (fun _ _ => List.map_append) k hk xs

/-! ### PROPERTY: the piecewise-affine failure mask. -/

/-- unbatched: the error marks exactly the out-of-domain points, once per input point;
success iff every point is in the domain -/
theorem pwa_mask_exact_unbatched {α β} (d : Pwa α β) (xs : List α) :
    (∀ m, d.apply xs = .error m → m.length = xs.length ∧ ∀ i : Nat, m[i]? = xs[i]?.map (fun x => !d.inDom x)) ∧
    (∀ r, d.apply xs = .ok r → xs.all d.inDom = true ∧ r = xs.map d.f) := by
  unfold Pwa.apply
  constructor
  · intro m h
    split at h
    · simp at h
    · simp only [Except.error.injEq] at h; subst h; simp
  · intro r h
    split at h
    · rename_i hall; simp only [Except.ok.injEq] at h; exact ⟨hall, h.symm⟩
    · simp at h

theorem foldBatches_length_spec {α β} (d : Pwa α β) (cs : List (List α)) :
    (foldBatches d List.length cs).2.1 = cs.flatten.map (fun x => !d.inDom x) ∧
    (foldBatches d List.length cs).2.2 = !(cs.flatten.all d.inDom) ∧
    ((foldBatches d List.length cs).2.2 = false → (foldBatches d List.length cs).1 = cs.flatten.map d.f) := by
  induction cs with
  | nil => simp [foldBatches]
  | cons c cs ih =>
    obtain ⟨h1, h2, h3⟩ := ih
    simp only [foldBatches]
    by_cases hc : c.all d.inDom = true
    · have hrep : List.replicate c.length false = c.map (fun x => !d.inDom x) := by
        apply List.ext_getElem (by simp)
        intro i hi1 hi2
        simp only [List.getElem_replicate, List.getElem_map]
        have hi : i < c.length := by simpa using hi1
        have := List.all_eq_true.mp hc (c[i]'hi) (List.getElem_mem _)
        simp [this]
      simp only [Pwa.apply, hc, if_true, List.flatten_cons, List.map_append, List.all_append,
        Bool.true_and]
      refine ⟨by rw [hrep, h1], h2, ?_⟩
      intro ht
      rw [h3 ht]
    · simp only [Pwa.apply, hc, List.flatten_cons, List.map_append, List.all_append]
      simp only [Bool.not_eq_true] at hc
      simp [h1]

/-- PROPERTY (repaired `_apply_batched`): for every batch size k ≥ 1 and every mix of in- and
out-of-domain points the batched application is *the same* as the unbatched one — same points on
success, and on failure the same mask: one entry per input point, marking exactly the outside points. -/
theorem pwa_batched_fixed_eq {α β} (d : Pwa α β) (k : Nat) (hk : 0 < k) (xs : List α) :
    batchedFixed d k xs = d.apply xs := by
  unfold batchedFixed
  obtain ⟨h1, h2, h3⟩ := foldBatches_length_spec d (batches k xs)
  rw [batches_flatten k hk] at h1 h2 h3
  generalize hfb : foldBatches d List.length (batches k xs) = r at *
  obtain ⟨o, m, t⟩ := r
  simp only at h1 h2 h3
  unfold finishBatches Pwa.apply
  by_cases hall : xs.all d.inDom = true
  · have ht : t = false := by rw [h2, hall]; rfl
    simp [ht, hall, h3 ht]
  · simp only [Bool.not_eq_true] at hall
    have ht : t = true := by rw [h2, hall]; rfl
    simp [ht, hall, h1]

/-- the behaviour coded before the repair is refuted: 5 points, batch size 2, the first point
outside the domain — the mask has 6 entries for 5 points. -/
def dEven : Pwa Nat Nat := { inDom := fun x => x != 0, f := id }
theorem pwa_batched_coded_refuted :
    batchedCoded dEven 2 [0, 1, 2, 3, 4] = .error [true, false, false, false, false, false] ∧
    dEven.apply [0, 1, 2, 3, 4] = .error [true, false, false, false, false] := by
  constructor <;> rfl

/-! ### PROPERTY: no history or aliasing effects (the CachedPWA memo). -/

def MemoOk {Val Res Err} (compute : Val → Except Err Res) (s : StFixed Val Res) : Prop :=
  ∀ v res, s.memo = some (v, res) → compute v = .ok res

theorem stepFixed_spec {Val Res Err} [DecidableEq Val] (compute : Val → Except Err Res)
    (s : StFixed Val Res) (h : MemoOk compute s) (op : Op Val) :
    MemoOk compute (stepFixed compute s op).1 ∧
    (∀ a, op = .apply a → (stepFixed compute s op).2 = some (compute (s.heap a))) := by
  cases op with
  | write a v => exact ⟨fun v' res hm => h v' res (by simpa [stepFixed] using hm), by simp⟩
  | apply a =>
    simp only [stepFixed]
    cases hm : s.memo with
    | none =>
      simp only
      cases hc : compute (s.heap a) with
      | error e => exact ⟨fun v res hm' => h v res (by simpa using hm'), by simp [hc]⟩
      | ok res =>
        refine ⟨?_, by simp [hc]⟩
        intro v res' hm'
        simp only [Option.some.injEq, Prod.mk.injEq] at hm'
        rw [← hm'.1, ← hm'.2]; exact hc
    | some p =>
      obtain ⟨v, res⟩ := p
      simp only
      by_cases heq : s.heap a = v
      · have hv := h v res hm
        simp only [heq, if_true]
        exact ⟨fun v' res' hm' => h v' res' (by simpa using hm'), by intro b hb; cases hb; simp [heq, hv]⟩
      · simp only [heq, if_false]
        cases hc : compute (s.heap a) with
        | error e => exact ⟨fun v' res' hm' => h v' res' (by simpa using hm'), by simp [hc]⟩
        | ok res2 =>
          refine ⟨?_, by simp [hc]⟩
          intro v' res' hm'
          simp only [Option.some.injEq, Prod.mk.injEq] at hm'
          rw [← hm'.1, ← hm'.2]; exact hc

/-- PROPERTY (repaired memo): over *every* finite interleaving of applies and in-place edits of any
arrays — including re-use of an array passed before, and inputs that differ arbitrarily little —
every `apply` returns exactly what the stateless computation gives for the array's current values. -/
theorem apply_pure_fixed {Val Res Err} [DecidableEq Val] (compute : Val → Except Err Res)
    (ops : List (Op Val)) (s : StFixed Val Res) (h : MemoOk compute s) :
    ∀ p ∈ runFixed compute s ops, p.2 = compute p.1 := by
  induction ops generalizing s with
  | nil => simp [runFixed]
  | cons op ops ih =>
    obtain ⟨hinv, hout⟩ := stepFixed_spec compute s h op
    intro p hp
    cases op with
    | write a v =>
      simp only [runFixed, stepFixed] at hp
      exact ih _ (by simpa [stepFixed] using hinv) p hp
    | apply a =>
      have ho := hout a rfl
      simp only [runFixed] at hp
      rw [ho] at hp
      simp only [List.mem_cons] at hp
      rcases hp with rfl | hp
      · rfl
      · exact ih _ hinv p hp

/-- a fresh transform satisfies the invariant -/
theorem fresh_memoOk {Val Res Err} (compute : Val → Except Err Res) (heap : Nat → Val) :
    MemoOk compute ({ heap := heap, memo := none } : StFixed Val Res) := by
  intro v res h; simp at h

/-- the memo coded before the repair is refuted, even with *exact* comparison, by aliasing alone:
apply to array 0, overwrite array 0 in place, apply again — the second answer is the first one. -/
theorem apply_pure_coded_refuted_aliasing :
    runCoded (Val := Nat) (Res := Nat) (Err := Unit) (fun a b => a == b) (fun v => .ok (v + 100))
      { heap := fun _ => 1, memo := none } [.apply 0, .write 0 5, .apply 0]
      = [(1, .ok 101), (5, .ok 101)] := by rfl

/-- … and by tolerance alone: two different arrays whose values are `close` -/
theorem apply_pure_coded_refuted_tolerance :
    runCoded (Val := Nat) (Res := Nat) (Err := Unit) (fun a b => a ≤ b + 1 && b ≤ a + 1)
      (fun v => .ok (v + 100))
      { heap := fun a => a + 1, memo := none } [.apply 0, .apply 1]
      = [(1, .ok 101), (2, .ok 101)] := by rfl

/-! ### non-vacuity -/
example : applyBatched (List.map (· + 1)) 2 [1, 2, 3, 4, 5] = [2, 3, 4, 5, 6] := by rfl
example : batches 2 [1, 2, 3, 4, 5] = [[1, 2], [3, 4], [5]] := by rfl
example : batches 7 [1, 2, 3] = [[1, 2, 3]] := by rfl
example : batchedFixed dEven 2 [0, 1, 2, 3, 4] = .error [true, false, false, false, false] := by rfl
example : batchedFixed dEven 2 [1, 2, 3, 4, 5] = .ok [1, 2, 3, 4, 5] := by rfl
example : runFixed (Val := Nat) (Res := Nat) (Err := Unit) (fun v => .ok (v + 100))
    { heap := fun _ => 1, memo := none } [.apply 0, .write 0 5, .apply 0, .apply 0]
    = [(1, .ok 101), (5, .ok 105), (5, .ok 105)] := by rfl

end MenpoModel.C09

namespace MenpoModel.C09

/-! ### PROPERTY: a transform whose `apply` writes none of its attributes is history independent -/

/-- frame condition ⇒ purity: if applying never changes the instance state then, over every finite
sequence of applications, each result is the stateless function of that call's input alone. -/
theorem pure_of_no_writes {S I O} (m : Machine S I O) (hframe : ∀ s x, (m.step s x).1 = s)
    (s : S) (xs : List I) : m.run s xs = xs.map (fun x => (m.step s x).2) := by
  induction xs generalizing s with
  | nil => rfl
  | cons x xs ih => simp [Machine.run, hframe, ih]

/-- … in particular calling again, or calling with other inputs in between, never changes an answer -/
theorem pure_of_no_writes_interleaved {S I O} (m : Machine S I O) (hframe : ∀ s x, (m.step s x).1 = s)
    (s : S) (pre mid : List I) (x : I) :
    (m.run s (pre ++ x :: mid ++ [x])).getLast? = some (m.step s x).2 ∧
    (m.run s (pre ++ [x]))[pre.length]? = some (m.step s x).2 := by
  rw [pure_of_no_writes m hframe, pure_of_no_writes m hframe]
  constructor
  · rw [List.map_append, List.map_cons, List.map_nil]
    exact List.getLast?_concat
  · simp

example : (⟨fun (s : Nat) (x : Nat) => (s, s + x)⟩ : Machine Nat Nat Nat).run 10 [1, 2, 1] = [11, 12, 11] := by rfl

end MenpoModel.C09
