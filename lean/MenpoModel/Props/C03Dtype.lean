/-
C03 — the composition law for typed matrices: integer-typed and single-precision `h_matrix` operands
(model: `Core/C03Dtype.lean`).

* `promote_semilattice`        numpy's promotion on {int64, float32, float64} is a join: commutative, associative,
                               idempotent, float64 on top
* `dot_exact`                  `np.dot` of two arrays that hold what their dtype can hold (an integer array holds
                               integers) stores the exact product, in the promoted dtype, and the result again holds
                               what its dtype can hold
* `inplace_dtype_law`          `_compose_before_inplace` / `_compose_after_inplace` on typed matrices: the exact product in
                               the order the direction prescribes, dtype promoted — never narrowed — and the composed map
                               is the sequential one
* `cast_to_receiver_breaks_law`  casting the product back to the receiver's dtype (a change that was seeded into the
                               code and caught by the oracle) breaks the law: witness with an integer-typed receiver
* `stepT_sound`, `prog_dtype_total`   the dtype calculus the driver executes (`runT`, compared with the real
                               `h_matrix.dtype` of every object after a program): it runs exactly the untyped program,
                               every family object has a dtype and nothing else has one, an object no statement receives
                               keeps its dtype, the receiver of an in-place call keeps its dtype or becomes float64
* `stepT_typed`, `prog_dtype_exact`   … and along every program an object whose array is integer-typed holds an integer
                               matrix (so `inplace_dtype_law` applies to the operands of every statement) and the objects
                               of the classes that build their own matrix stay float64
-/
import MenpoModel.Props.C03Base
import MenpoModel.Core.C03Dtype

namespace MenpoModel.C03

variable {d : Nat}

/-- the rational is an integer -/
def IsIntQ (x : Rat) : Prop := ∃ k : Int, x = (k : Rat)

/-- the array holds what its dtype can hold: an integer array holds integers -/
def TMat.Repr {n : Nat} (a : TMat n) : Prop := a.dt = .int64 → ∀ i j, IsIntQ (a.M i j)

/-- PROPERTY (promotion is a join): commutative, associative, idempotent, `float64` absorbs, and the result is one of
the operands' dtypes or `float64` -/
theorem promote_semilattice :
    (∀ a b : DT, a.promote b = b.promote a) ∧
    (∀ a b c : DT, (a.promote b).promote c = a.promote (b.promote c)) ∧
    (∀ a : DT, a.promote a = a) ∧
    (∀ a : DT, a.promote .float64 = .float64) ∧
    (∀ a b : DT, a.promote b = a ∨ a.promote b = .float64) := by
  refine ⟨fun a b => ?_, fun a b c => ?_, fun a => ?_, fun a => ?_, fun a b => ?_⟩
  · cases a <;> cases b <;> rfl
  · cases a <;> cases b <;> cases c <;> rfl
  · cases a <;> rfl
  · cases a <;> rfl
  · cases a <;> cases b <;> simp [DT.promote]

theorem ratTrunc_int (k : Int) : ratTrunc (k : Rat) = (k : Rat) := by
  unfold ratTrunc
  split
  · have : (-(k : Rat)) = ((-k : Int) : Rat) := by simp
    rw [this, Rat.floor_intCast]; simp
  · rw [Rat.floor_intCast]

theorem storeAs_of_repr {dt : DT} {x : Rat} (h : dt = .int64 → IsIntQ x) : storeAs dt x = x := by
  cases dt
  · obtain ⟨k, rfl⟩ := h rfl; exact ratTrunc_int k
  · rfl
  · rfl

theorem isIntQ_add {x y : Rat} (hx : IsIntQ x) (hy : IsIntQ y) : IsIntQ (x + y) := by
  obtain ⟨a, rfl⟩ := hx; obtain ⟨b, rfl⟩ := hy; exact ⟨a + b, by simp⟩

theorem isIntQ_mul {x y : Rat} (hx : IsIntQ x) (hy : IsIntQ y) : IsIntQ (x * y) := by
  obtain ⟨a, rfl⟩ := hx; obtain ⟨b, rfl⟩ := hy; exact ⟨a * b, by simp⟩

theorem isIntQ_list_sum {l : List Rat} (h : ∀ x ∈ l, IsIntQ x) : IsIntQ l.sum := by
  induction l with
  | nil => exact ⟨0, by simp⟩
  | cons x xs ih =>
    rw [List.sum_cons]
    exact isIntQ_add (h x (List.mem_cons_self ..)) (ih fun y hy => h y (List.mem_cons_of_mem _ hy))

theorem isIntQ_mul_entry {n : Nat} {A B : Mat n} (hA : ∀ i j, IsIntQ (A i j)) (hB : ∀ i j, IsIntQ (B i j)) (i j : Fin n) :
    IsIntQ (Mat.mul A B i j) := by
  have : Mat.mul A B i j = sumFin fun k => A i k * B k j := by
    simp [Mat.mul, Mat.freeze_eq]
  rw [this]
  unfold sumFin
  apply isIntQ_list_sum
  intro x hx
  obtain ⟨k, _, rfl⟩ := List.mem_map.mp hx
  exact isIntQ_mul (hA i k) (hB k j)

theorem promote_int64 {a b : DT} (h : a.promote b = .int64) : a = .int64 ∧ b = .int64 := by
  cases a <;> cases b <;> simp [DT.promote] at h ⊢

/-- PROPERTY (`np.dot` under promotion loses nothing): for operands that hold what their dtype can hold, the stored
product is the exact matrix product, its dtype is the promoted one, and it holds what its dtype can hold. -/
theorem dot_exact {n : Nat} (a b : TMat n) (ha : a.Repr) (hb : b.Repr) :
    (a.dot b).M = Mat.mul a.M b.M ∧ (a.dot b).dt = a.dt.promote b.dt ∧ (a.dot b).Repr := by
  have hint : a.dt.promote b.dt = .int64 → ∀ i j, IsIntQ (Mat.mul a.M b.M i j) := by
    intro h i j
    obtain ⟨h1, h2⟩ := promote_int64 h
    exact isIntQ_mul_entry (ha h1) (hb h2) i j
  have hM : (a.dot b).M = Mat.mul a.M b.M := by
    apply Mat.ext; intro i j
    exact storeAs_of_repr (fun h => hint h i j)
  refine ⟨hM, rfl, fun h => ?_⟩
  rw [hM]; exact hint h

/-- PROPERTY (the in-place composition of typed matrices, as coded): the receiver afterwards holds the exact product
in the order the direction prescribes; its dtype is the promoted dtype of the two operands — the receiver's own dtype
or `float64`, never anything narrower —; it again holds what its dtype can hold; and the composed map is the
sequential one wherever that is defined. -/
theorem inplace_dtype_law (dir : Dir) (s t : TMat (d + 1)) (hs : s.Repr) (ht : t.Repr) :
    (rawComposeT dir s t).M = rawCompose dir s.M t.M ∧
    (rawComposeT dir s t).dt = s.dt.promote t.dt ∧
    ((rawComposeT dir s t).dt = s.dt ∨ (rawComposeT dir s t).dt = .float64) ∧
    (rawComposeT dir s t).Repr ∧
    ∀ x y z : Vec d,
      (dir = .before → projApply s.M x = some y ∧ projApply t.M y = some z) →
      (dir = .after → projApply t.M x = some y ∧ projApply s.M y = some z) →
      projApply (rawComposeT dir s t).M x = some z := by
  have hM : (rawComposeT dir s t).M = rawCompose dir s.M t.M := by
    cases dir
    · exact (dot_exact t s ht hs).1
    · exact (dot_exact s t hs ht).1
  have hdt : (rawComposeT dir s t).dt = s.dt.promote t.dt := by
    cases dir
    · exact ((dot_exact t s ht hs).2.1).trans (promote_semilattice.1 _ _)
    · exact (dot_exact s t hs ht).2.1
  refine ⟨hM, hdt, ?_, ?_, fun x y z hb ha => ?_⟩
  · rw [hdt]; exact promote_semilattice.2.2.2.2 _ _
  · cases dir
    · exact (dot_exact t s ht hs).2.2
    · exact (dot_exact s t hs ht).2.2
  · rw [hM]; exact proj_rawCompose dir hb ha

/-- the identity held in an integer array -/
def wIntId : TMat 3 := ⟨.int64, Mat.one 3⟩
/-- a uniform scale by one half, float64 -/
def wHalf : TMat 3 := ⟨.float64, mkAffine (scalarMat 2 (1 / 2)) (zeroVec 2)⟩

/-- WITNESS (casting the product back to the receiver's dtype breaks the law): an integer-typed identity composed in
place with a scale by one half.  As coded (promotion) the receiver becomes a float64 scale by one half and maps
`(2, 4)` to `(1, 2)`, as the law prescribes; with the product cast back to int64 the matrix is truncated to
`diag(0, 0, 1)` and the point goes to `(0, 0)`. -/
theorem cast_to_receiver_breaks_law :
    wIntId.Repr ∧ wHalf.Repr ∧
    (projApply wIntId.M (Vec.ofList 2 [2, 4])).map Vec.toList = some [2, 4] ∧
    (projApply wHalf.M (Vec.ofList 2 [2, 4])).map Vec.toList = some [1, 2] ∧
    (projApply (rawComposeT .before wIntId wHalf).M (Vec.ofList 2 [2, 4])).map Vec.toList = some [1, 2] ∧
    (rawComposeT .before wIntId wHalf).dt = .float64 ∧
    (projApply (rawComposeCast .before wIntId wHalf).M (Vec.ofList 2 [2, 4])).map Vec.toList = some [0, 0] := by
  refine ⟨?_, ?_, ?_, ?_, ?_, rfl, ?_⟩
  · intro _ i j
    by_cases h : i = j
    · exact ⟨1, by simp [wIntId, Mat.one, h]⟩
    · exact ⟨0, by simp [wIntId, Mat.one, h]⟩
  · intro h; cases h
  · decide +kernel
  · decide +kernel
  · decide +kernel
  · decide +kernel

def Cell.isFam : Cell → Bool
  | .fam _ _ => true
  | _ => false

/-- tags and store fit: one tag per cell, a dtype exactly on the family objects -/
def TagsOK (p : Store × Tags) : Prop :=
  p.2.length = p.1.length ∧ ∀ i c, p.1[i]? = some c → (tagOf p.2 i).isSome = c.isFam

theorem tagOf_set_self {ts : Tags} {a : Nat} (h : a < ts.length) (x : Option DT) : tagOf (ts.set a x) a = x := by
  simp [tagOf, h]

theorem tagOf_set_ne {ts : Tags} {a i : Nat} (h : a ≠ i) (x : Option DT) : tagOf (ts.set a x) i = tagOf ts i := by
  simp [tagOf, List.getElem?_set_ne h]

theorem tagOf_append_left {ts : Tags} {i : Nat} (h : i < ts.length) (x : Option DT) :
    tagOf (ts ++ [x]) i = tagOf ts i := by
  simp [tagOf, List.getElem?_append_left h]

theorem tagOf_append_self (ts : Tags) (x : Option DT) : tagOf (ts ++ [x]) ts.length = x := by
  simp [tagOf]

theorem tag_some_of_fam {p : Store × Tags} (h : TagsOK p) {i dd : Nat} {t : HT dd} (hi : p.1[i]? = some (.fam dd t)) :
    ∃ x, tagOf p.2 i = some x := by
  have := h.2 i _ hi
  simp only [Cell.isFam] at this
  exact Option.isSome_iff_exists.mp this

/-- PROPERTY (the dtype of every object along every program): `stepT` runs the very statement `step` runs (a refused
statement changes nothing); afterwards tags and store still fit — every family object, old or new, has a dtype and
nothing else has one; an object the statement does not receive keeps its dtype; and the receiver of an in-place call
keeps its dtype or becomes `float64`: no statement ever narrows a dtype. -/
theorem stepT_sound (p : Store × Tags) (h : TagsOK p) (s : Stmt) :
    TagsOK (stepT E p s) ∧ (stepT E p s).1 = stepKeep E p.1 s ∧
    (∀ i, i < p.1.length → s.receiver ≠ some i → tagOf (stepT E p s).2 i = tagOf p.2 i) ∧
    (∀ i x, s.receiver = some i → tagOf p.2 i = some x →
      tagOf (stepT E p s).2 i = some x ∨ tagOf (stepT E p s).2 i = some .float64) := by
  obtain ⟨st, ts⟩ := p
  obtain ⟨hlen, hfit⟩ := h
  simp only at hlen hfit
  unfold stepT stepKeep
  cases hs : step E st s with
  | error e => exact ⟨⟨hlen, hfit⟩, rfl, fun _ _ _ => rfl, fun i x _ hx => Or.inl hx⟩
  | ok r =>
    obtain ⟨st', res⟩ := r
    cases s with
    | compose dir a b =>
      obtain ⟨c, hc, rfl, _⟩ := step_compose_ok hs
      simp only
      refine ⟨⟨by simp [hlen], ?_⟩, (by first | rfl | trivial), fun i hi _ => tagOf_append_left (by omega) _, fun i x hr => by cases hr⟩
      intro i c' hi
      by_cases hlt : i < st.length
      · rw [List.getElem?_append_left hlt] at hi
        rw [tagOf_append_left (by omega)]
        exact hfit i c' hi
      · have hi' : i = st.length := by
          have := lt_of_getElem?_some hi
          simp at this; omega
        subst hi'
        have hcc : c' = c := by simpa using hi.symm
        subst hcc
        rw [← hlen, tagOf_append_self]
        have hget : (st ++ [c'])[ts.length]? = some c' := by rw [hlen]; simp
        rw [hget]
        cases c' with
        | fam dd r =>
          obtain ⟨s1, t1, ha, hb, _⟩ := composeCell_fam hc
          obtain ⟨x, hx⟩ := tag_some_of_fam (p := (st, ts)) ⟨hlen, hfit⟩ ha
          obtain ⟨y, hy⟩ := tag_some_of_fam (p := (st, ts)) ⟨hlen, hfit⟩ hb
          simp [hx, hy, promote?, Cell.isFam]
        | chain ms => simp [Cell.isFam]
        | leaf q => simp [Cell.isFam]
    | inplace dir a b =>
      obtain ⟨c, hc, rfl, _⟩ := step_inplace_ok hs
      obtain ⟨hla, _⟩ := inplaceCell_refs hc
      simp only
      rcases inplaceCell_cases hc with ⟨dd, s1, t1, ha, hb, _, rfl⟩ | ⟨ms, ha, rfl⟩
      · obtain ⟨x, hx⟩ := tag_some_of_fam (p := (st, ts)) ⟨hlen, hfit⟩ ha
        obtain ⟨y, hy⟩ := tag_some_of_fam (p := (st, ts)) ⟨hlen, hfit⟩ hb
        simp only [ha, hx, hy, promote?]
        refine ⟨⟨by simp [hlen], ?_⟩, (by first | rfl | trivial), ?_, ?_⟩
        · intro i c' hi
          by_cases hia : a = i
          · subst hia
            rw [List.getElem?_set_self hla] at hi
            cases hi
            rw [tagOf_set_self (by omega)]; rfl
          · rw [List.getElem?_set_ne hia] at hi
            rw [tagOf_set_ne hia]; exact hfit i c' hi
        · intro i _ hr
          have : a ≠ i := fun e => hr (by simp [Stmt.receiver, e])
          exact tagOf_set_ne this _
        · intro i x' hr hx'
          have : a = i := by simpa [Stmt.receiver] using hr
          subst this
          rw [tagOf_set_self (by omega)]
          rw [hx] at hx'; cases hx'
          rcases promote_semilattice.2.2.2.2 x y with e | e <;> simp [e]
      · simp only [ha]
        refine ⟨⟨by simp [hlen], ?_⟩, (by first | rfl | trivial), (by intros; first | rfl | trivial), fun i x _ hx => Or.inl hx⟩
        intro i c' hi
        by_cases hia : a = i
        · subst hia
          rw [List.getElem?_set_self hla] at hi
          cases hi
          have := hfit a _ ha
          simpa [Cell.isFam] using this
        · rw [List.getElem?_set_ne hia] at hi
          exact hfit i c' hi
    | fromVector a v =>
      obtain ⟨c, hc, rfl, _⟩ := step_fromVector_ok hs
      obtain ⟨dd, s1, Mv, ha, _, rfl⟩ := fromVectorCell_cases hc
      have hla : a < st.length := lt_of_getElem?_some ha
      obtain ⟨x, hx⟩ := tag_some_of_fam (p := (st, ts)) ⟨hlen, hfit⟩ ha
      simp only [ha, hx, Option.map_some]
      refine ⟨⟨by simp [hlen], ?_⟩, (by first | rfl | trivial), ?_, ?_⟩
      · intro i c' hi
        by_cases hia : a = i
        · subst hia
          rw [List.getElem?_set_self hla] at hi
          cases hi
          rw [tagOf_set_self (by omega)]; rfl
        · rw [List.getElem?_set_ne hia] at hi
          rw [tagOf_set_ne hia]; exact hfit i c' hi
      · intro i _ hr
        have : a ≠ i := fun e => hr (by simp [Stmt.receiver, e])
        exact tagOf_set_ne this _
      · intro i x' hr hx'
        have : a = i := by simpa [Stmt.receiver] using hr
        subst this
        rw [tagOf_set_self (by omega)]
        rw [hx] at hx'; cases hx'
        rcases promote_semilattice.2.2.2.2 x (fvTag s1.cls x) with e | e <;> simp [e]

/-- PROPERTY (`prog_dtype_total`, induction over programs): along every finite program of compose calls the typed run
executes exactly the untyped one (`runStmts`), and at the end every family object — atoms, results, receivers — has a
dtype and nothing else has one. -/
theorem prog_dtype_total (p : Store × Tags) (h : TagsOK p) (ss : List Stmt) :
    TagsOK (runT E p ss) ∧ (runT E p ss).1 = runStmts E p.1 ss := by
  induction ss generalizing p with
  | nil => exact ⟨h, rfl⟩
  | cons s ss ih =>
    obtain ⟨h1, h2, _⟩ := stepT_sound p h s
    obtain ⟨h3, h4⟩ := ih (stepT E p s) h1
    refine ⟨h3, ?_⟩
    show (runT E (stepT E p s) ss).1 = runStmts E (stepKeep E p.1 s) ss
    rw [h4, h2]

/-- every entry is an integer -/
def IntMat {n : Nat} (M : Mat n) : Prop := ∀ i j, IsIntQ (M i j)

theorem intMat_mul {n : Nat} {A B : Mat n} (hA : IntMat A) (hB : IntMat B) : IntMat (Mat.mul A B) :=
  fun i j => isIntQ_mul_entry hA hB i j

theorem intMat_rawCompose (dir : Dir) {A B : Mat (d + 1)} (hA : IntMat A) (hB : IntMat B) :
    IntMat (rawCompose dir A B) := by
  cases dir
  · exact intMat_mul hB hA
  · exact intMat_mul hA hB

theorem isIntQ_zero : IsIntQ 0 := ⟨0, by simp⟩
theorem isIntQ_one : IsIntQ 1 := ⟨1, by simp⟩

theorem intMat_mkAffine {L : Mat d} {t : Vec d} (hL : IntMat L) (ht : ∀ i, IsIntQ (t i)) : IntMat (mkAffine L t) := by
  intro i j
  simp only [mkAffine]
  split
  · split
    · exact hL _ _
    · exact ht _
  · split
    · exact isIntQ_zero
    · exact isIntQ_one

theorem intMat_nonAlign (c : HCls) {M : Mat (d + 1)} (h : IntMat M) : IntMat (nonAlignmentMatrix c M) := by
  cases c <;> simp only [nonAlignmentMatrix] <;> first
    | exact h
    | (apply intMat_mkAffine
       · intro i j; first | exact h _ _ | (simp only [Mat.one, scalarMat]; split <;> first | exact isIntQ_one | exact isIntQ_zero | exact h _ _)
       · intro i; first | exact h _ _ | exact isIntQ_zero)

/-- the ladder multiplies the operands' matrices (after `as_non_alignment`), whatever the classes: integer matrices
in, integer matrix out -/
theorem ladder_int (tbl : ClassTable) : ∀ (fuel : Nat) (dir : Dir) (s t r : HT d),
    ladder tbl fuel dir s t = some r → IntMat s.M → IntMat t.M → IntMat r.M := by
  intro fuel
  induction fuel with
  | zero => intro dir s t r h; simp [ladder] at h
  | succ n ih =>
    intro dir s t r h hs ht
    simp only [ladder] at h
    split at h
    · cases h
      split
      · exact intMat_rawCompose dir (intMat_nonAlign _ hs) ht
      · exact intMat_rawCompose dir hs ht
    · split at h
      · exact ih _ _ _ _ h ht hs
      · split at h
        · cases h; exact intMat_rawCompose dir hs ht
        · split at h
          · cases h; exact intMat_rawCompose dir hs ht
          · cases h; exact intMat_rawCompose dir hs ht


/-- the class the ladder reports, whatever the matrices (no honesty needed) -/
theorem ladder_cls (dir : Dir) (s t r : HT d) (h : ladder E ladderFuel dir s t = some r) :
    r.cls = resultCls s.cls t.cls := by
  have swallow : ∀ (dir : Dir) (s t r : HT d) fuel, isSub E t.cls s.cls = true →
      ladder E (fuel + 1) dir s t = some r → r.cls = baseOf s.cls := by
    intro dir s t r fuel hsub h
    simp only [ladder, hsub, if_true] at h
    cases h
    by_cases ha : isAlign E s.cls = true
    · simp only [ha, if_true, strip_eq_baseOf]
    · simp only [ha, Bool.false_eq_true, if_false]
      exact (strip_of_not_align s.cls (by simpa using ha)).symm
  unfold resultCls
  by_cases h1 : isSub E t.cls s.cls = true
  · rw [if_pos h1]; exact swallow dir s t r 1 h1 h
  · rw [if_neg h1]
    by_cases h2 : isSub E s.cls t.cls = true
    · rw [if_pos h2]
      have h' : ladder E (0 + 1) dir.flip t s = some r := by
        simpa only [ladderFuel, ladder, h1, h2, Bool.false_eq_true, if_false, if_true] using h
      exact swallow dir.flip t s r 0 h2 h'
    · rw [if_neg h2]
      simp only [ladderFuel, ladder, h1, h2, Bool.false_eq_true, if_false] at h
      by_cases h3 : (isSub E s.cls .Similarity && isSub E t.cls .Similarity) = true
      · simp only [h3, if_true] at h ⊢; cases h; rfl
      · simp only [h3, Bool.false_eq_true, if_false] at h ⊢
        by_cases h4 : (isSub E s.cls .Affine && isSub E t.cls .Affine) = true
        · simp only [h4, if_true] at h ⊢; cases h; rfl
        · simp only [h4, Bool.false_eq_true, if_false] at h ⊢; cases h; rfl

/-- the classes whose constructors build their own float64 matrix -/
def discreteCls (c : HCls) : Bool :=
  match baseOf c with
  | .Homogeneous | .Affine | .Similarity => false
  | _ => true

theorem resultCls_discrete (a b : HCls) (h : discreteCls (resultCls a b) = true) :
    discreteCls a = true ∧ discreteCls b = true := by
  cases a <;> cases b <;> revert h <;> decide

/-- the typed store is well formed: tags fit, an integer-typed object holds an integer matrix, and the objects of the
classes that build their own matrix (`Rotation`, `Translation`, the scales and their alignment variants) are float64 -/
def TypedOK (p : Store × Tags) : Prop :=
  TagsOK p ∧
  (∀ i dd (t : HT dd), p.1[i]? = some (.fam dd t) → tagOf p.2 i = some .int64 → IntMat t.M) ∧
  (∀ i dd (t : HT dd), p.1[i]? = some (.fam dd t) → discreteCls t.cls = true → tagOf p.2 i = some .float64)

theorem promote_f64_left (y : DT) : DT.float64.promote y = .float64 := by cases y <;> rfl

/-- what `stepT` does, case by case -/
theorem stepT_cases (st : Store) (ts : Tags) (hok : TagsOK (st, ts)) (s : Stmt) :
    stepT E (st, ts) s = (st, ts) ∨
    (∃ dir a b c x, s = .compose dir a b ∧ stepT E (st, ts) s = (st ++ [c], ts ++ [x]) ∧
      ((∃ (dd : Nat) (r s1 t1 : HT dd) (x1 y1 : DT), c = .fam dd r ∧ st[a]? = some (.fam dd s1) ∧
          st[b]? = some (.fam dd t1) ∧ ladder E ladderFuel dir s1 t1 = some r ∧ tagOf ts a = some x1 ∧
          tagOf ts b = some y1 ∧ x = some (x1.promote y1)) ∨
       (c.isFam = false ∧ x = none))) ∨
    (∃ (dir : Dir) (a b : Nat) (dd : Nat) (s1 t1 : HT dd) (x1 y1 : DT), s = .inplace dir a b ∧ a < st.length ∧
      st[a]? = some (.fam dd s1) ∧ st[b]? = some (.fam dd t1) ∧ tagOf ts a = some x1 ∧ tagOf ts b = some y1 ∧
      stepT E (st, ts) s = (st.set a (.fam dd ⟨s1.cls, rawCompose dir s1.M t1.M⟩), ts.set a (some (x1.promote y1)))) ∨
    (∃ dir a b ms, s = .inplace dir a b ∧ a < st.length ∧ st[a]? = some (.chain ms) ∧
      stepT E (st, ts) s = (st.set a (.chain (chainAdd dir ms b)), ts)) ∨
    (∃ (a : Nat) (v : List Rat) (dd : Nat) (s1 : HT dd) (Mv : Mat (dd + 1)) (x1 : DT), s = .fromVector a v ∧ a < st.length ∧
      st[a]? = some (.fam dd s1) ∧ tagOf ts a = some x1 ∧
      stepT E (st, ts) s = (st.set a (.fam dd ⟨s1.cls, rawCompose .after s1.M Mv⟩),
        ts.set a (some (x1.promote (fvTag s1.cls x1))))) := by
  unfold stepT
  cases hs : step E st s with
  | error e => exact Or.inl rfl
  | ok r =>
    obtain ⟨st', res⟩ := r
    right
    cases s with
    | compose dir a b =>
      left
      obtain ⟨c, hc, rfl, _⟩ := step_compose_ok hs
      have hget : (st ++ [c])[st.length]? = some c := by simp
      cases c with
      | fam dd r =>
        obtain ⟨s1, t1, ha, hb, hl⟩ := composeCell_fam hc
        obtain ⟨x, hx⟩ := tag_some_of_fam (p := (st, ts)) hok ha
        obtain ⟨y, hy⟩ := tag_some_of_fam (p := (st, ts)) hok hb
        refine ⟨dir, a, b, .fam dd r, some (x.promote y), rfl, ?_, Or.inl ⟨dd, r, s1, t1, x, y, rfl, ha, hb, hl, hx, hy, rfl⟩⟩
        simp [hget, hx, hy, promote?]
      | chain ms => exact ⟨dir, a, b, .chain ms, none, rfl, by simp [hget], Or.inr ⟨rfl, rfl⟩⟩
      | leaf q => exact ⟨dir, a, b, .leaf q, none, rfl, by simp [hget], Or.inr ⟨rfl, rfl⟩⟩
    | inplace dir a b =>
      right
      obtain ⟨c, hc, rfl, _⟩ := step_inplace_ok hs
      obtain ⟨hla, _⟩ := inplaceCell_refs hc
      rcases inplaceCell_cases hc with ⟨dd, s1, t1, ha, hb, _, rfl⟩ | ⟨ms, ha, rfl⟩
      · left
        obtain ⟨x, hx⟩ := tag_some_of_fam (p := (st, ts)) hok ha
        obtain ⟨y, hy⟩ := tag_some_of_fam (p := (st, ts)) hok hb
        exact ⟨dir, a, b, dd, s1, t1, x, y, rfl, hla, ha, hb, hx, hy, by simp [ha, hx, hy, promote?]⟩
      · right; left
        exact ⟨dir, a, b, ms, rfl, hla, ha, by simp [ha]⟩
    | fromVector a v =>
      right; right; right
      obtain ⟨c, hc, rfl, _⟩ := step_fromVector_ok hs
      obtain ⟨dd, s1, Mv, ha, _, rfl⟩ := fromVectorCell_cases hc
      have hla : a < st.length := lt_of_getElem?_some ha
      obtain ⟨x, hx⟩ := tag_some_of_fam (p := (st, ts)) hok ha
      exact ⟨a, v, dd, s1, Mv, x, rfl, hla, ha, hx, by simp [ha, hx]⟩

theorem discrete_of_cls_eq {a b : HCls} (h : a = b) : discreteCls a = discreteCls b := by rw [h]

/-- PROPERTY (`stepT_typed`): every statement keeps the typed store well formed — in particular an object whose array
is integer-typed afterwards holds an integer matrix, so `inplace_dtype_law` (nothing is lost under promotion) applies
to the operands of every later statement. -/
theorem stepT_typed (p : Store × Tags) (h : TypedOK p) (s : Stmt) : TypedOK (stepT E p s) := by
  obtain ⟨st, ts⟩ := p
  obtain ⟨hok, hint, hdisc⟩ := h
  have hok' := (stepT_sound (st, ts) hok s).1
  have hlen : ts.length = st.length := hok.1
  rcases stepT_cases st ts hok s with e | ⟨dir, a, b, c, x, rfl, e, hcx⟩ |
      ⟨dir, a, b, dd, s1, t1, x1, y1, rfl, hla, ha, hb, hx, hy, e⟩ | ⟨dir, a, b, ms, rfl, hla, ha, e⟩ |
      ⟨a, v, dd, s1, Mv, x1, rfl, hla, ha, hx, e⟩
  · rw [e]; exact ⟨hok, hint, hdisc⟩
  · -- a non-in-place call: one new cell
    rw [e] at hok' ⊢
    have old : ∀ i, i < st.length → (st ++ [c])[i]? = st[i]? ∧ tagOf (ts ++ [x]) i = tagOf ts i :=
      fun i hi => ⟨List.getElem?_append_left hi, tagOf_append_left (by omega) _⟩
    have new : ∀ i dd' (t : HT dd'), (st ++ [c])[i]? = some (.fam dd' t) → ¬ i < st.length →
        i = st.length ∧ c = .fam dd' t := by
      intro i dd' t hi hlt
      have := lt_of_getElem?_some hi
      simp at this
      have hi' : i = st.length := by omega
      subst hi'
      exact ⟨rfl, by simpa using hi⟩
    refine ⟨hok', ?_, ?_⟩
    · intro i dd' t hi htag
      by_cases hlt : i < st.length
      · rw [(old i hlt).1] at hi; rw [(old i hlt).2] at htag; exact hint i dd' t hi htag
      · obtain ⟨rfl, hc⟩ := new i dd' t hi hlt
        rw [← hlen, tagOf_append_self] at htag
        rcases hcx with ⟨d2, r, s2, t2, x2, y2, hc2, ha, hb, hl, hx, hy, rfl⟩ | ⟨hnf, rfl⟩
        · rw [hc2] at hc; cases hc
          obtain ⟨e1, e2⟩ := promote_int64 (Option.some.inj htag)
          exact ladder_int E _ dir s2 t2 _ hl (hint a _ _ ha (by rw [hx, e1])) (hint b _ _ hb (by rw [hy, e2]))
        · cases htag
    · intro i dd' t hi hd
      by_cases hlt : i < st.length
      · rw [(old i hlt).1] at hi; rw [(old i hlt).2]; exact hdisc i dd' t hi hd
      · obtain ⟨rfl, hc⟩ := new i dd' t hi hlt
        rw [← hlen, tagOf_append_self]
        rcases hcx with ⟨d2, r, s2, t2, x2, y2, hc2, ha, hb, hl, hx, hy, rfl⟩ | ⟨hnf, rfl⟩
        · rw [hc2] at hc; cases hc
          rw [ladder_cls dir s2 t2 _ hl] at hd
          obtain ⟨d1, d2'⟩ := resultCls_discrete _ _ hd
          have e1 := hdisc a _ _ ha d1
          have e2 := hdisc b _ _ hb d2'
          rw [hx] at e1; rw [hy] at e2; cases e1; cases e2; rfl
        · rw [hc] at hnf; cases hnf
  · -- an accepted in-place call on a family object
    rw [e] at hok' ⊢
    refine ⟨hok', ?_, ?_⟩
    · intro i dd' t hi htag
      by_cases hia : a = i
      · subst hia
        rw [List.getElem?_set_self hla] at hi
        cases hi
        rw [tagOf_set_self (by omega)] at htag
        obtain ⟨e1, e2⟩ := promote_int64 (Option.some.inj htag)
        exact intMat_rawCompose dir (hint a _ _ ha (by rw [hx, e1])) (hint b _ _ hb (by rw [hy, e2]))
      · rw [List.getElem?_set_ne hia] at hi; rw [tagOf_set_ne hia] at htag; exact hint i dd' t hi htag
    · intro i dd' t hi hd
      by_cases hia : a = i
      · subst hia
        rw [List.getElem?_set_self hla] at hi
        cases hi
        rw [tagOf_set_self (by omega)]
        have e1 := hdisc a _ _ ha hd
        rw [hx] at e1; cases e1
        rw [promote_f64_left]
      · rw [List.getElem?_set_ne hia] at hi; rw [tagOf_set_ne hia]; exact hdisc i dd' t hi hd
  · -- an in-place call on a chain: no family cell and no tag changes
    rw [e] at hok' ⊢
    refine ⟨hok', ?_, ?_⟩
    · intro i dd' t hi htag
      by_cases hia : a = i
      · subst hia; rw [List.getElem?_set_self hla] at hi; cases hi
      · rw [List.getElem?_set_ne hia] at hi; exact hint i dd' t hi htag
    · intro i dd' t hi hd
      by_cases hia : a = i
      · subst hia; rw [List.getElem?_set_self hla] at hi; cases hi
      · rw [List.getElem?_set_ne hia] at hi; exact hdisc i dd' t hi hd
  · -- compose_after_from_vector_inplace
    rw [e] at hok' ⊢
    refine ⟨hok', ?_, ?_⟩
    · intro i dd' t hi htag
      by_cases hia : a = i
      · subst hia
        rw [List.getElem?_set_self hla] at hi
        cases hi
        rw [tagOf_set_self (by omega)] at htag
        obtain ⟨e1, e2⟩ := promote_int64 (Option.some.inj htag)
        -- the receiver would have to be integer-typed and of a class that writes into its own matrix: those are float64
        exfalso
        subst e1
        have hdc : discreteCls s1.cls = true := by
          unfold fvTag at e2
          unfold discreteCls
          split at e2 <;> simp_all
        have := hdisc a _ _ ha hdc
        rw [hx] at this; cases this
      · rw [List.getElem?_set_ne hia] at hi; rw [tagOf_set_ne hia] at htag; exact hint i dd' t hi htag
    · intro i dd' t hi hd
      by_cases hia : a = i
      · subst hia
        rw [List.getElem?_set_self hla] at hi
        cases hi
        rw [tagOf_set_self (by omega)]
        have e1 := hdisc a _ _ ha hd
        rw [hx] at e1; cases e1
        rw [promote_f64_left]
      · rw [List.getElem?_set_ne hia] at hi; rw [tagOf_set_ne hia]; exact hdisc i dd' t hi hd

/-- PROPERTY (`prog_dtype_exact`, induction over programs): from a well-formed typed store, after any finite program
of compose calls the typed store is well formed: every family object has a dtype, every object whose array is
integer-typed holds an integer matrix, the objects of the discrete classes are float64. -/
theorem prog_dtype_exact (p : Store × Tags) (h : TypedOK p) (ss : List Stmt) : TypedOK (runT E p ss) := by
  induction ss generalizing p with
  | nil => exact h
  | cons s ss ih => exact ih (stepT E p s) (stepT_typed p h s)

/-! ### the hypotheses are satisfiable -/

/-- an integer-typed affine object, a float64 translation and a chain of the two -/
def exTyped : Store × Tags :=
  ([.fam 2 ⟨.Affine, Mat.ofList 3 [2, 1, 0, 0, 1, 3, 0, 0, 1]⟩, .fam 2 exTrans, .chain [0, 1]],
   [some .int64, some .float64, none])

example : TagsOK exTyped := by
  refine ⟨rfl, fun i c h => ?_⟩
  match i, h with
  | 0, h => cases h; rfl
  | 1, h => cases h; rfl
  | 2, h => cases h; rfl

/-- in place with the float64 translation the integer-typed receiver becomes float64; composed with itself, not in
place, it stays int64 -/
example : (runT E exTyped [.inplace .before 0 1, .compose .before 0 0, .compose .after 1 1]).2 =
    [some .float64, some .float64, none, some .float64, some .float64] := by decide +kernel
example : (runT E exTyped [.compose .before 0 0]).2 = [some .int64, some .float64, none, some .int64] := by decide +kernel

example : (⟨.int64, Mat.ofList 3 [2, 1, 0, 0, 1, 3, 0, 0, 1]⟩ : TMat 3).Repr := by
  intro _ i j
  have h : ∀ i j : Fin 3, ∃ k : Int, (Mat.ofList 3 [2, 1, 0, 0, 1, 3, 0, 0, 1]) i j = (k : Rat) := by
    intro i j
    refine ⟨((Mat.ofList 3 [2, 1, 0, 0, 1, 3, 0, 0, 1]) i j).floor, ?_⟩
    revert i j; decide +kernel
  exact h i j

example : TypedOK exTyped := by
  refine ⟨?_, ?_, ?_⟩
  · refine ⟨rfl, fun i c h => ?_⟩
    match i, h with
    | 0, h => cases h; rfl
    | 1, h => cases h; rfl
    | 2, h => cases h; rfl
  · intro i dd t h ht
    match i, h, ht with
    | 0, h, _ =>
      cases h
      intro a b
      refine ⟨((Mat.ofList 3 [2, 1, 0, 0, 1, 3, 0, 0, 1]) a b).floor, ?_⟩
      revert a b; decide +kernel
    | 1, _, ht => cases ht
    | 2, h, _ => cases h
  · intro i dd t h hd
    match i, h, hd with
    | 0, h, hd => cases h; cases hd
    | 1, h, _ => cases h; rfl
    | 2, h, _ => cases h

end MenpoModel.C03
