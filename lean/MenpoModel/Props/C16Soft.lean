/-
C16 — integer image data of ANY bit depth up to 48 (menpo supports 8 and 16) survives normalise → denormalise, by an error analysis of the
three binary64 operations involved (no enumeration of the 65 536 sixteen-bit values).

  rn53_err                         rounding to 53 significant bits moves a number by at most 2⁻⁵³ of its magnitude
  range_roundtrip_of_rounding      for ANY rounding operator with that relative accuracy, any range 0 … N with
                                   N ≤ 2⁴⁸ (so every integer depth up to 48 bits) and any k ≤ N:   round(fl(fl(k · fl(1/N)) · N)) = k
  range_roundtrip_round            … instantiated at `rn53`: `denormRoundQ N (normQ N k) = k`
  u16_roundtrip_round              uint16 (N = 65 535), all 65 536 values
  u8_roundtrip_round_arith         uint8 (N = 255) once more, this time without kernel evaluation of `Float`
  u16_trunc_refuted                the originally coded truncating cast loses sixteen-bit values too (33 ↦ 32)
  roundHalfEven_near               a number within half a unit of an integer rounds to it
-/
import MenpoModel.Core.C16Soft
import MenpoModel.Lemmas.C16Num
import Mathlib.Tactic.NormNum
import Mathlib.Tactic.FieldSimp
import Mathlib.Tactic.Positivity

namespace MenpoModel.C16

theorem roundHalfEven_near (q : ℚ) (n : ℤ) (h : |q - n| < 1 / 2) : roundHalfEven q = n := by
  rw [abs_lt] at h
  have e := roundHalfEven_err q
  rw [abs_le] at e
  have h1 : ((roundHalfEven q - n : ℤ) : ℚ) < 1 := by push_cast; linarith [h.1, h.2, e.1, e.2]
  have h2 : (-1 : ℚ) < ((roundHalfEven q - n : ℤ) : ℚ) := by push_cast; linarith [h.1, h.2, e.1, e.2]
  have h1' : roundHalfEven q - n < 1 := by exact_mod_cast h1
  have h2' : -1 < roundHalfEven q - n := by exact_mod_cast h2
  omega

/-! ### powers of two and the checked exponent -/

theorem pow2_eq_zpow (e : ℤ) : pow2 e = (2 : ℚ) ^ e := by
  unfold pow2
  split
  · rename_i h
    rw [Nat.cast_pow, Nat.cast_ofNat, ← zpow_natCast, Int.toNat_of_nonneg h]
  · rename_i h
    have h' : 0 ≤ -e := by omega
    rw [Nat.cast_pow, Nat.cast_ofNat, ← zpow_natCast, Int.toNat_of_nonneg h', one_div, ← zpow_neg, neg_neg]

theorem pow2_pos (e : ℤ) : 0 < pow2 e := by
  rw [pow2_eq_zpow]; exact zpow_pos (by norm_num) e

theorem pow2_sub (e : ℤ) (m : ℕ) : pow2 (e - m) * 2 ^ m = pow2 e := by
  rw [pow2_eq_zpow, pow2_eq_zpow, zpow_sub₀ (by norm_num : (2 : ℚ) ≠ 0), zpow_natCast]
  field_simp

theorem absQ_eq_abs (z : ℚ) : absQ z = |z| := by
  unfold absQ
  split
  · rename_i h; rw [abs_of_neg h]
  · rename_i h; rw [abs_of_nonneg (not_lt.1 h)]

theorem expo_le (a : ℚ) (e : ℤ) (h : expo a = some e) : pow2 e ≤ a := by
  unfold expo at h
  simp only at h
  split at h
  · rename_i h1; simp only [Option.some.injEq] at h; rw [← h]; exact h1
  · split at h
    · rename_i h2; simp only [Option.some.injEq] at h; rw [← h]; exact h2
    · simp at h

/-- rounding to 53 significant bits: relative error at most 2⁻⁵³ -/
theorem rn53_err (z : ℚ) : |rn53 z - z| ≤ |z| / 2 ^ 53 := by
  unfold rn53
  split
  · rename_i h0; subst h0; simp
  · split
    · simp only [sub_self, abs_zero]; positivity
    · rename_i e he
      have hle : pow2 e ≤ |z| := by rw [← absQ_eq_abs]; exact expo_le _ _ he
      have hU : 0 < pow2 (e - 52) := pow2_pos _
      have hUe : pow2 (e - 52) * 2 ^ 52 = pow2 e := by
        have := pow2_sub e 52
        simpa using this
      have hr := roundHalfEven_err (z / pow2 (e - 52))
      have heq : ((roundHalfEven (z / pow2 (e - 52)) : ℤ) : ℚ) * pow2 (e - 52) - z =
          (((roundHalfEven (z / pow2 (e - 52)) : ℤ) : ℚ) - z / pow2 (e - 52)) * pow2 (e - 52) := by
        field_simp
      rw [heq, abs_mul, abs_of_pos hU]
      have h1 : |((roundHalfEven (z / pow2 (e - 52)) : ℤ) : ℚ) - z / pow2 (e - 52)| * pow2 (e - 52) ≤
          1 / 2 * pow2 (e - 52) := mul_le_mul_of_nonneg_right hr (le_of_lt hU)
      have h2 : 1 / 2 * pow2 (e - 52) = pow2 e / 2 ^ 53 := by
        rw [← hUe]; ring
      have h3 : pow2 e / 2 ^ 53 ≤ |z| / 2 ^ 53 := by
        apply div_le_div_of_nonneg_right hle; positivity
      linarith

/-! ### the error analysis -/

/-- PROPERTY (integer image data, any bit depth ≤ 48).  Let `fl` be ANY rounding operator with relative accuracy
2⁻⁵³ (IEEE binary64 round-to-nearest in the normal range is one).  For every range `0 … N`, `N ≤ 2⁴⁸`, and every
level `k ≤ N`: normalising (`k · fl(1/N)`, rounded) and denormalising (`· N`, rounded, then rounded to the nearest
integer) returns `k`. -/
theorem range_roundtrip_of_rounding (fl : ℚ → ℚ) (hfl : ∀ z, |fl z - z| ≤ |z| / 2 ^ 53)
    (N k : ℕ) (hN : 0 < N) (hN16 : N ≤ 2 ^ 48) (hk : k ≤ N) :
    roundHalfEven (fl (fl ((k : ℚ) * fl (1 / (N : ℚ))) * (N : ℚ))) = (k : ℤ) := by
  apply roundHalfEven_near
  have hn : (0 : ℚ) < (N : ℚ) := by exact_mod_cast hN
  have hK0 : (0 : ℚ) ≤ (k : ℚ) := by positivity
  have hK : (k : ℚ) ≤ 2 ^ 48 := by
    have : k ≤ 2 ^ 48 := le_trans hk hN16
    exact_mod_cast this
  have hu0 : (0 : ℚ) < 1 / 2 ^ 53 := by positivity
  have hu1 : (1 : ℚ) / 2 ^ 53 < 1 := by norm_num
  -- c = fl (1/N)
  have ha : (0 : ℚ) < 1 / (N : ℚ) := by positivity
  have hc := hfl (1 / (N : ℚ))
  rw [abs_of_pos ha, abs_le] at hc
  have hc_lo : 1 / (N : ℚ) * (1 - 1 / 2 ^ 53) ≤ fl (1 / (N : ℚ)) := by
    have : 1 / (N : ℚ) * (1 - 1 / 2 ^ 53) = 1 / (N : ℚ) - 1 / (N : ℚ) / 2 ^ 53 := by ring
    linarith [hc.1]
  have hc_hi : fl (1 / (N : ℚ)) ≤ 1 / (N : ℚ) * (1 + 1 / 2 ^ 53) := by
    have : 1 / (N : ℚ) * (1 + 1 / 2 ^ 53) = 1 / (N : ℚ) + 1 / (N : ℚ) / 2 ^ 53 := by ring
    linarith [hc.2]
  have hc0 : 0 ≤ fl (1 / (N : ℚ)) := le_trans (mul_nonneg (le_of_lt ha) (by linarith)) hc_lo
  -- kc = k * c
  have hkc0 : 0 ≤ (k : ℚ) * fl (1 / (N : ℚ)) := mul_nonneg hK0 hc0
  have hkc_lo : (k : ℚ) * (1 / (N : ℚ) * (1 - 1 / 2 ^ 53)) ≤ (k : ℚ) * fl (1 / (N : ℚ)) :=
    mul_le_mul_of_nonneg_left hc_lo hK0
  have hkc_hi : (k : ℚ) * fl (1 / (N : ℚ)) ≤ (k : ℚ) * (1 / (N : ℚ) * (1 + 1 / 2 ^ 53)) :=
    mul_le_mul_of_nonneg_left hc_hi hK0
  -- x = fl kc
  have hx := hfl ((k : ℚ) * fl (1 / (N : ℚ)))
  rw [abs_of_nonneg hkc0, abs_le] at hx
  have hx_lo : (k : ℚ) * fl (1 / (N : ℚ)) * (1 - 1 / 2 ^ 53) ≤ fl ((k : ℚ) * fl (1 / (N : ℚ))) := by
    have : (k : ℚ) * fl (1 / (N : ℚ)) * (1 - 1 / 2 ^ 53) =
        (k : ℚ) * fl (1 / (N : ℚ)) - (k : ℚ) * fl (1 / (N : ℚ)) / 2 ^ 53 := by ring
    linarith [hx.1]
  have hx_hi : fl ((k : ℚ) * fl (1 / (N : ℚ))) ≤ (k : ℚ) * fl (1 / (N : ℚ)) * (1 + 1 / 2 ^ 53) := by
    have : (k : ℚ) * fl (1 / (N : ℚ)) * (1 + 1 / 2 ^ 53) =
        (k : ℚ) * fl (1 / (N : ℚ)) + (k : ℚ) * fl (1 / (N : ℚ)) / 2 ^ 53 := by ring
    linarith [hx.2]
  have hx0 : 0 ≤ fl ((k : ℚ) * fl (1 / (N : ℚ))) := le_trans (mul_nonneg hkc0 (by linarith)) hx_lo
  -- w = x * N
  have hw0 : 0 ≤ fl ((k : ℚ) * fl (1 / (N : ℚ))) * (N : ℚ) := mul_nonneg hx0 (le_of_lt hn)
  have hy := hfl (fl ((k : ℚ) * fl (1 / (N : ℚ))) * (N : ℚ))
  rw [abs_of_nonneg hw0, abs_le] at hy
  -- bounds on w in terms of k
  have hnn : (1 / (N : ℚ)) * (N : ℚ) = 1 := by field_simp
  have hw_hi : fl ((k : ℚ) * fl (1 / (N : ℚ))) * (N : ℚ) ≤ (k : ℚ) * ((1 + 1 / 2 ^ 53) * (1 + 1 / 2 ^ 53)) := by
    have s1 : fl ((k : ℚ) * fl (1 / (N : ℚ))) * (N : ℚ) ≤
        (k : ℚ) * fl (1 / (N : ℚ)) * (1 + 1 / 2 ^ 53) * (N : ℚ) := mul_le_mul_of_nonneg_right hx_hi (le_of_lt hn)
    have s2 : (k : ℚ) * fl (1 / (N : ℚ)) * (1 + 1 / 2 ^ 53) * (N : ℚ) ≤
        (k : ℚ) * (1 / (N : ℚ) * (1 + 1 / 2 ^ 53)) * (1 + 1 / 2 ^ 53) * (N : ℚ) :=
      mul_le_mul_of_nonneg_right (mul_le_mul_of_nonneg_right hkc_hi (by linarith)) (le_of_lt hn)
    have s3 : (k : ℚ) * (1 / (N : ℚ) * (1 + 1 / 2 ^ 53)) * (1 + 1 / 2 ^ 53) * (N : ℚ) =
        (k : ℚ) * ((1 + 1 / 2 ^ 53) * (1 + 1 / 2 ^ 53)) * (1 / (N : ℚ) * (N : ℚ)) := by ring
    rw [s3, hnn, mul_one] at s2
    linarith
  have hw_lo : (k : ℚ) * ((1 - 1 / 2 ^ 53) * (1 - 1 / 2 ^ 53)) ≤ fl ((k : ℚ) * fl (1 / (N : ℚ))) * (N : ℚ) := by
    have s1 : (k : ℚ) * fl (1 / (N : ℚ)) * (1 - 1 / 2 ^ 53) * (N : ℚ) ≤
        fl ((k : ℚ) * fl (1 / (N : ℚ))) * (N : ℚ) := mul_le_mul_of_nonneg_right hx_lo (le_of_lt hn)
    have s2 : (k : ℚ) * (1 / (N : ℚ) * (1 - 1 / 2 ^ 53)) * (1 - 1 / 2 ^ 53) * (N : ℚ) ≤
        (k : ℚ) * fl (1 / (N : ℚ)) * (1 - 1 / 2 ^ 53) * (N : ℚ) :=
      mul_le_mul_of_nonneg_right (mul_le_mul_of_nonneg_right hkc_lo (by linarith)) (le_of_lt hn)
    have s3 : (k : ℚ) * (1 / (N : ℚ) * (1 - 1 / 2 ^ 53)) * (1 - 1 / 2 ^ 53) * (N : ℚ) =
        (k : ℚ) * ((1 - 1 / 2 ^ 53) * (1 - 1 / 2 ^ 53)) * (1 / (N : ℚ) * (N : ℚ)) := by ring
    rw [s3, hnn, mul_one] at s2
    linarith
  -- y = fl w
  have hy_hi : fl (fl ((k : ℚ) * fl (1 / (N : ℚ))) * (N : ℚ)) ≤
      (k : ℚ) * ((1 + 1 / 2 ^ 53) * (1 + 1 / 2 ^ 53)) * (1 + 1 / 2 ^ 53) := by
    have : fl (fl ((k : ℚ) * fl (1 / (N : ℚ))) * (N : ℚ)) ≤
        fl ((k : ℚ) * fl (1 / (N : ℚ))) * (N : ℚ) * (1 + 1 / 2 ^ 53) := by
      have e : fl ((k : ℚ) * fl (1 / (N : ℚ))) * (N : ℚ) * (1 + 1 / 2 ^ 53) =
          fl ((k : ℚ) * fl (1 / (N : ℚ))) * (N : ℚ) + fl ((k : ℚ) * fl (1 / (N : ℚ))) * (N : ℚ) / 2 ^ 53 := by ring
      linarith [hy.2]
    exact le_trans this (mul_le_mul_of_nonneg_right hw_hi (by linarith))
  have hy_lo : (k : ℚ) * ((1 - 1 / 2 ^ 53) * (1 - 1 / 2 ^ 53)) * (1 - 1 / 2 ^ 53) ≤
      fl (fl ((k : ℚ) * fl (1 / (N : ℚ))) * (N : ℚ)) := by
    have : fl ((k : ℚ) * fl (1 / (N : ℚ))) * (N : ℚ) * (1 - 1 / 2 ^ 53) ≤
        fl (fl ((k : ℚ) * fl (1 / (N : ℚ))) * (N : ℚ)) := by
      have e : fl ((k : ℚ) * fl (1 / (N : ℚ))) * (N : ℚ) * (1 - 1 / 2 ^ 53) =
          fl ((k : ℚ) * fl (1 / (N : ℚ))) * (N : ℚ) - fl ((k : ℚ) * fl (1 / (N : ℚ))) * (N : ℚ) / 2 ^ 53 := by ring
      linarith [hy.1]
    exact le_trans (mul_le_mul_of_nonneg_right hw_lo (by linarith)) this
  -- the cube of (1 ± u) against 1 ± 4u, then k ≤ 65535
  have cube_hi : ((1 : ℚ) + 1 / 2 ^ 53) * (1 + 1 / 2 ^ 53) * (1 + 1 / 2 ^ 53) ≤ 1 + 4 / 2 ^ 53 := by norm_num
  have cube_lo : (1 : ℚ) - 4 / 2 ^ 53 ≤ (1 - 1 / 2 ^ 53) * (1 - 1 / 2 ^ 53) * (1 - 1 / 2 ^ 53) := by norm_num
  have hi2 : (k : ℚ) * ((1 + 1 / 2 ^ 53) * (1 + 1 / 2 ^ 53)) * (1 + 1 / 2 ^ 53) ≤ (k : ℚ) * (1 + 4 / 2 ^ 53) := by
    have := mul_le_mul_of_nonneg_left cube_hi hK0
    calc (k : ℚ) * ((1 + 1 / 2 ^ 53) * (1 + 1 / 2 ^ 53)) * (1 + 1 / 2 ^ 53)
        = (k : ℚ) * ((1 + 1 / 2 ^ 53) * (1 + 1 / 2 ^ 53) * (1 + 1 / 2 ^ 53)) := by ring
      _ ≤ (k : ℚ) * (1 + 4 / 2 ^ 53) := this
  have lo2 : (k : ℚ) * (1 - 4 / 2 ^ 53) ≤ (k : ℚ) * ((1 - 1 / 2 ^ 53) * (1 - 1 / 2 ^ 53)) * (1 - 1 / 2 ^ 53) := by
    have := mul_le_mul_of_nonneg_left cube_lo hK0
    calc (k : ℚ) * (1 - 4 / 2 ^ 53) ≤ (k : ℚ) * ((1 - 1 / 2 ^ 53) * (1 - 1 / 2 ^ 53) * (1 - 1 / 2 ^ 53)) := this
      _ = (k : ℚ) * ((1 - 1 / 2 ^ 53) * (1 - 1 / 2 ^ 53)) * (1 - 1 / 2 ^ 53) := by ring
  have small : (2 ^ 48 : ℚ) * (4 / 2 ^ 53) < 1 / 2 := by norm_num
  have hk4 : (k : ℚ) * (4 / 2 ^ 53) ≤ 2 ^ 48 * (4 / 2 ^ 53) := mul_le_mul_of_nonneg_right hK (by positivity)
  rw [abs_lt]
  push_cast
  constructor
  · have : (k : ℚ) * (1 - 4 / 2 ^ 53) = (k : ℚ) - (k : ℚ) * (4 / 2 ^ 53) := by ring
    linarith
  · have : (k : ℚ) * (1 + 4 / 2 ^ 53) = (k : ℚ) + (k : ℚ) * (4 / 2 ^ 53) := by ring
    linarith

/-- the model's conversion (53-bit round-to-nearest-even at each of the three operations) returns every level of every
range up to 2⁴⁸ -/
theorem range_roundtrip_round (N k : ℕ) (hN : 0 < N) (hN16 : N ≤ 2 ^ 48) (hk : k ≤ N) :
    denormRoundQ N (normQ N k) = (k : ℤ) := by
  unfold denormRoundQ normQ
  exact range_roundtrip_of_rounding rn53 rn53_err N k hN hN16 hk

/-- PROPERTY (sixteen-bit data).  All 65 536 uint16 values survive normalise → denormalise. -/
theorem u16_roundtrip_round (k : ℕ) (hk : k ≤ 65535) : denormRoundQ 65535 (normQ 65535 k) = (k : ℤ) :=
  range_roundtrip_round 65535 k (by norm_num) (by norm_num) hk

/-- PROPERTY (eight-bit data), by arithmetic instead of kernel evaluation of `Float` -/
theorem u8_roundtrip_round_arith (k : ℕ) (hk : k ≤ 255) : denormRoundQ 255 (normQ 255 k) = (k : ℤ) :=
  range_roundtrip_round 255 k (by norm_num) (by norm_num) hk

/-- the originally coded truncating cast loses sixteen-bit values as well (refutation by witness) -/
theorem u16_trunc_refuted : ¬ ∀ k : ℕ, k ≤ 65535 → denormTruncQ 65535 (normQ 65535 k) = (k : ℤ) := by
  intro h
  exact absurd (h 33 (by norm_num)) (by decide +kernel)

/-! ### non-vacuity -/

/-- `rn53` really rounds: one third is not representable, its neighbour with a 53-bit significand is returned -/
example : rn53 (1 / 3) = 6004799503160661 / 18014398509481984 ∧ rn53 (1 / 2) = 1 / 2 ∧ rn53 0 = 0 := by
  decide +kernel

example : denormTruncQ 255 (normQ 255 33) = 32 ∧ denormRoundQ 255 (normQ 255 33) = 33 ∧
    denormTruncQ 65535 (normQ 65535 33) = 32 ∧ denormRoundQ 65535 (normQ 65535 65535) = 65535 := by decide +kernel

/-- the hypothesis of `range_roundtrip_of_rounding` is satisfiable by a rounding that does move numbers (`rn53`,
see above) and, trivially, by exact arithmetic -/
example : ∀ z : ℚ, |id z - z| ≤ |z| / 2 ^ 53 := by intro z; simp; positivity

end MenpoModel.C16
