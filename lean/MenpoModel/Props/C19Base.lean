/-
C19 — lazy lists are faithful and truly lazy under every combination of operations.
Property theorems (helper lemmas first, property theorems marked PROPERTY).
Core Lean only.
-/
import MenpoModel.Core.LazyList

namespace MenpoModel.LazyList
open MenpoModel.PyData

/-! ### helper lemmas -/

theorem gather_map {α β} (g : α → β) (l : List α) (idx : List Nat) :
    (gather l idx).map g = gather (l.map g) idx := by
  induction idx with
  | nil => simp [gather]
  | cons i t ih =>
    simp only [gather, List.filterMap_cons] at *
    cases h : l[i]? <;> simp [h, ih]

theorem zipWith_app_eval (e : Env) (fs : List Nat) (ts : List LThunk) :
    (List.zipWith LThunk.app fs ts).map (LThunk.eval e)
      = List.zipWith (fun f v => e.fn f v) fs (ts.map (LThunk.eval e)) := by
  induction fs generalizing ts with
  | nil => simp
  | cons f fs ih => cases ts with
    | nil => simp
    | cons t ts => simp [LThunk.eval, ih]

theorem evalLog_fst (e : Env) (t : LThunk) : (t.evalLog e).1 = t.eval e := by
  induction t with
  | base b i => rfl
  | const v => rfl
  | app f t ih => simp [LThunk.evalLog, LThunk.eval, ih]

/-! ### PROPERTY: faithfulness — every program, any nesting depth, any base lengths,
errors included: evaluating the lazy result element-wise is the ordinary-list result. -/

theorem lazy_refines_list (e : Env) (p : Prog) :
    mapE (List.map (LThunk.eval e)) p.lazy = p.ref e := by
  induction p with
  | base b n => simp [Prog.lazy, Prog.ref, mapE, LThunk.eval, Function.comp_def]
  | map f p ih =>
    simp only [Prog.lazy, Prog.ref, ← ih]
    cases p.lazy <;> simp [mapE, LThunk.eval, Function.comp_def]
  | mapEach fs p ih =>
    simp only [Prog.lazy, Prog.ref, ← ih]
    cases p.lazy with
    | error x => simp [mapE, bindE]
    | ok ts =>
      simp only [mapE, bindE, List.length_map]
      by_cases h : fs.length = ts.length
      · simp only [h, if_true]; rw [zipWith_app_eval]
      · simp [h]
  | select s p ih =>
    simp only [Prog.lazy, Prog.ref, ← ih]
    cases p.lazy with
    | error x => simp [mapE, bindE]
    | ok ts =>
      simp only [mapE, bindE, List.length_map]
      cases s.resolve ts.length <;> simp [gather_map]
  | rep n p ih =>
    simp only [Prog.lazy, Prog.ref, ← ih]
    cases p.lazy <;> simp [mapE, List.map_flatMap, List.flatMap_map]
  | add p q ihp ihq =>
    simp only [Prog.lazy, Prog.ref, ← ihp, ← ihq]
    cases p.lazy <;> cases q.lazy <;> simp [mapE, bindE]
  | addPlain p vs ih =>
    simp only [Prog.lazy, Prog.ref, ← ih]
    cases p.lazy <;> simp [mapE, LThunk.eval, Function.comp_def]
  | copy p ih => simpa [Prog.lazy, Prog.ref] using ih
  | iter f vs =>
    cases f <;> simp [Prog.lazy, Prog.ref, mapE, iterThunk, LThunk.eval, Function.comp_def]
  | glob r known files max =>
    simp only [Prog.lazy, Prog.ref]
    cases optE (globPaths known files max) with
    | error x => simp [mapE]
    | ok fp => cases r <;> simp [mapE, importThunk, LThunk.eval, Function.comp_def]

/-- PROPERTY (length clause): lengths agree, and the lazy program fails iff the list program fails. -/
theorem lazy_length_eq (e : Env) (p : Prog) :
    mapE List.length p.lazy = mapE List.length (p.ref e) := by
  rw [← lazy_refines_list e p]
  cases p.lazy <;> simp [mapE]

/-- PROPERTY (read value): reading element `i` (negative allowed) of the lazy result gives
exactly the element of the ordinary list, with the same IndexError behaviour. -/
theorem getInt_value (e : Env) (p : Prog) (i : Int) :
    mapE Prod.fst (p.getInt e i) =
      bindE (p.ref e) fun vs => match normIndex vs.length i with
        | none => .error .index
        | some j => match vs[j]? with
          | some v => .ok v
          | none => .error .index := by
  rw [← lazy_refines_list e p]
  unfold Prog.getInt
  cases p.lazy with
  | error x => simp [mapE, bindE]
  | ok ts =>
    simp only [mapE, bindE, List.length_map]
    cases normIndex ts.length i with
    | none => simp
    | some j =>
      simp only [List.getElem?_map]
      cases ts[j]? <;> simp [evalLog_fst]

/-! ### PROPERTY: laziness.
(1) Construction evaluates nothing: `Prog.lazy` does not take an `Env` at all, so no
    callable can have been invoked while building any program (stated as independence).
(2) Reading evaluates only the element's own dependency chain, each callable once. -/

/-- (not a property theorem: `rfl` — the content is the TYPE of `Prog.lazy`, which takes no `Env`) -/
theorem construction_evaluates_nothing (p : Prog) (e₁ e₂ : Env) :
    (fun (_ : Env) => p.lazy) e₁ = (fun (_ : Env) => p.lazy) e₂ := rfl

def evIsAcc : Ev → Bool | .acc _ _ => true | _ => false
def evFn : Ev → Option Nat | .call f _ => some f | _ => none

theorem evalLog_chain (e : Env) (t : LThunk) :
    ((t.evalLog e).2.filterMap (fun ev => match ev with | .acc b i => some (b, i) | _ => none)
        = t.baseOf.toList) ∧
    ((t.evalLog e).2.filterMap evFn = t.fns) := by
  induction t with
  | base b i => simp [LThunk.evalLog, LThunk.baseOf, LThunk.fns, evFn]
  | const v => simp [LThunk.evalLog, LThunk.baseOf, LThunk.fns]
  | app f t ih =>
    obtain ⟨h1, h2⟩ := ih
    constructor
    · simp [LThunk.evalLog, LThunk.baseOf, List.filterMap_append, h1]
    · simp [LThunk.evalLog, LThunk.fns, List.filterMap_append, h2, evFn]

/-- PROPERTY: the read log has exactly one entry per dependency: at most one base access
(the element's own) and one call per mapped function. -/
theorem read_log_length (e : Env) (t : LThunk) :
    (t.evalLog e).2.length = t.baseOf.toList.length + t.fns.length := by
  induction t with
  | base b i => simp [LThunk.evalLog, LThunk.baseOf, LThunk.fns]
  | const v => simp [LThunk.evalLog, LThunk.baseOf, LThunk.fns]
  | app f t ih => simp [LThunk.evalLog, LThunk.baseOf, LThunk.fns, ih]; omega

/-- PROPERTY: the chain seen when reading element `j` of `p.map f` is the chain of element
`j` of `p` followed by one call of `f` — mapping adds exactly one evaluation, of this element only. -/
theorem map_read_log (e : Env) (f : Nat) (ts : List LThunk) (j : Nat) (t : LThunk)
    (h : ts[j]? = some t) :
    ((ts.map (LThunk.app f))[j]?.map (fun u => (u.evalLog e).2))
      = some ((t.evalLog e).2 ++ [Ev.call f (t.eval e)]) := by
  simp [List.getElem?_map, h, LThunk.evalLog, evalLog_fst]

/-- PROPERTY (slicing picks, never evaluates): every element of a selected list is, as a
thunk, an element of the receiver; its read log is therefore the receiver's read log. -/
theorem select_elements (ts : List LThunk) (idx : List Nat) (t : LThunk)
    (h : t ∈ gather ts idx) : t ∈ ts := by
  simp only [gather, List.mem_filterMap] at h
  obtain ⟨i, _, hi⟩ := h
  exact List.mem_of_getElem? hi

theorem repeat_elements (ts : List LThunk) (n : Nat) (t : LThunk)
    (h : t ∈ ts.flatMap (List.replicate n)) : t ∈ ts := by
  simp only [List.mem_flatMap, List.mem_replicate] at h
  obtain ⟨a, ha, _, rfl⟩ := h
  exact ha

/-! ### Python slices stay in range (so slicing a lazy list can only fail for step = 0) -/

theorem arith_bounds (s st : Int) (n : Nat) (lo hi : Int)
    (h0 : lo ≤ s ∧ s ≤ hi) (hlast : n ≠ 0 → lo ≤ s + st * ((n : Int) - 1) ∧ s + st * ((n : Int) - 1) ≤ hi) :
    ∀ x ∈ arith s st n, lo ≤ x ∧ x ≤ hi := by
  induction n generalizing s with
  | zero => simp [arith]
  | succ k ih =>
    intro x hx
    simp only [arith, List.mem_cons] at hx
    rcases hx with rfl | hx
    · exact h0
    · cases k with
      | zero => simp [arith] at hx
      | succ m =>
        have hl := hlast (by omega)
        have e1 : s + st * (((m + 1 + 1 : Nat) : Int) - 1) = s + st + st * (((m + 1 : Nat) : Int) - 1) := by
          push_cast; rw [Int.mul_sub, Int.mul_add, Int.mul_sub]; omega
        rw [e1] at hl
        refine ih (s + st) ?_ (fun _ => hl) x hx
        -- s + st lies between s and the last element
        rcases Int.le_total 0 st with hst | hst
        · have : 0 ≤ st * (((m + 1 : Nat) : Int) - 1) := Int.mul_nonneg hst (by omega)
          omega
        · have : st * (((m + 1 : Nat) : Int) - 1) ≤ 0 := Int.mul_nonpos_of_nonpos_of_nonneg hst (by omega)
          omega

theorem adjBound_range (len : Nat) (neg : Bool) (v : Int) :
    (if neg then -1 else 0) ≤ adjBound len neg v ∧ adjBound len neg v ≤ (if neg then (len:Int) - 1 else len) := by
  unfold adjBound
  cases neg <;> simp <;> split <;> (try split) <;> (try split) <;> omega

theorem sliceStart_range (a : Option Int) (len : Nat) (neg : Bool) :
    (if neg then -1 else 0) ≤ sliceStart a len neg ∧ sliceStart a len neg ≤ (if neg then (len:Int) - 1 else len) := by
  cases a with
  | none => cases neg <;> simp [sliceStart] <;> omega
  | some v => exact adjBound_range len neg v

theorem sliceStop_range (a : Option Int) (len : Nat) (neg : Bool) :
    (if neg then -1 else 0) ≤ sliceStop a len neg ∧ sliceStop a len neg ≤ (if neg then (len:Int) - 1 else len) := by
  cases a with
  | none => cases neg <;> simp [sliceStop] <;> omega
  | some v => exact adjBound_range len neg v

theorem arith_slice_bounds (s e st : Int) (len : Nat) (hst : st ≠ 0)
    (hs : (if st < 0 then -1 else 0) ≤ s ∧ s ≤ (if st < 0 then (len:Int) - 1 else len))
    (he : (if st < 0 then -1 else 0) ≤ e ∧ e ≤ (if st < 0 then (len:Int) - 1 else len)) :
    ∀ x ∈ arith s st (sliceCount s e st), 0 ≤ x ∧ x ≤ (len:Int) - 1 := by
  unfold sliceCount
  by_cases hn : st < 0
  · simp only [hn, if_true] at hs he ⊢
    by_cases hlt : e < s
    · simp only [hlt, if_true]
      have hq : (-st) * ((s - e - 1) / (-st)) ≤ s - e - 1 := Int.mul_ediv_self_le (by omega)
      have hq0 : 0 ≤ (s - e - 1) / (-st) := Int.ediv_nonneg (by omega) (by omega)
      apply arith_bounds s st _ 0 ((len:Int) - 1) (by omega)
      intro _
      have e1 : (((((s - e - 1) / (-st)).toNat + 1 : Nat) : Int) - 1) = (s - e - 1) / (-st) := by
        push_cast; omega
      rw [e1]
      have e2 : st * ((s - e - 1) / (-st)) = - ((-st) * ((s - e - 1) / (-st))) := by
        rw [Int.neg_mul, Int.neg_neg]
      rw [e2]
      have : 0 ≤ (-st) * ((s - e - 1) / (-st)) := Int.mul_nonneg (by omega) hq0
      omega
    · simp [hlt, arith]
  · have hpos : 0 < st := by omega
    simp only [hn, if_false] at hs he ⊢
    by_cases hlt : s < e
    · simp only [hlt, if_true]
      have hq : st * ((e - s - 1) / st) ≤ e - s - 1 := Int.mul_ediv_self_le (by omega)
      have hq0 : 0 ≤ (e - s - 1) / st := Int.ediv_nonneg (by omega) (by omega)
      apply arith_bounds s st _ 0 ((len:Int) - 1) (by omega)
      intro _
      have e1 : (((((e - s - 1) / st).toNat + 1 : Nat) : Int) - 1) = (e - s - 1) / st := by
        push_cast; omega
      rw [e1]
      have : 0 ≤ st * ((e - s - 1) / st) := Int.mul_nonneg (by omega) hq0
      omega
    · simp [hlt, arith]

theorem sliceIndices_in_range (a b c : Option Int) (len : Nat) (l : List Nat)
    (h : sliceIndices a b c len = some l) : ∀ i ∈ l, i < len := by
  unfold sliceIndices at h
  simp only at h
  split at h
  · simp at h
  · rename_i hst
    simp only [Option.some.injEq] at h
    subst h
    intro i hi
    simp only [List.mem_map] at hi
    obtain ⟨x, hx, rfl⟩ := hi
    have hs := sliceStart_range a len (decide (c.getD 1 < 0))
    have he := sliceStop_range b len (decide (c.getD 1 < 0))
    have := arith_slice_bounds _ _ _ len hst (by simpa using hs) (by simpa using he) x hx
    omega

/-- PROPERTY corollary: slicing a lazy list fails only for step 0 and always yields in-range picks -/
theorem slice_select_total (a b c : Option Int) (hc : c.getD 1 ≠ 0) (len : Nat) :
    ∃ l, (Sel.slice a b c).resolve len = .ok l ∧ ∀ i ∈ l, i < len := by
  have : ∃ l, sliceIndices a b c len = some l := by
    unfold sliceIndices; simp [hc]
  obtain ⟨l, hl⟩ := this
  exact ⟨l, by simp [Sel.resolve, hl], sliceIndices_in_range a b c len l hl⟩

/-! ### PROPERTY: the lists an operation was applied to behave afterwards exactly as before (heap level) -/

/-- one operation never writes an existing list object: every cell that existed keeps its contents -/
theorem hstep_frame (h : Heap) (op : HOp) (a : Nat) (ha : a < h.length) : (hstep h op)[a]? = h[a]? := by
  unfold hstep
  cases opValue h op with
  | error e => rfl
  | ok ts => simp [List.getElem?_append_left ha]

theorem hstep_length_le (h : Heap) (op : HOp) : h.length ≤ (hstep h op).length := by
  unfold hstep
  cases opValue h op <;> simp

/-- … and neither does any finite sequence of operations, whatever aliasing the operands have
(the same list used twice, results fed back as operands, refused operations in between) -/
theorem hrun_frame (ops : List HOp) (h : Heap) (a : Nat) (ha : a < h.length) : (hrun h ops)[a]? = h[a]? := by
  induction ops generalizing h with
  | nil => rfl
  | cons op ops ih =>
    have hl := hstep_length_le h op
    simp only [hrun, List.foldl_cons] at ih ⊢
    rw [ih (hstep h op) (by omega), hstep_frame h op a ha]

/-- a successful operation allocates exactly one new list holding the value-level result -/
theorem hstep_result (h : Heap) (op : HOp) (ts : List LThunk) (hv : opValue h op = .ok ts) :
    hstep h op = h ++ [ts] ∧ (hstep h op)[h.length]? = some ts := by
  unfold hstep; rw [hv]; simp

/-- reading any element of an operand after any later operations gives the same value and the same
evaluation log as before them -/
theorem read_after_ops_unchanged (e : Env) (ops : List HOp) (h : Heap) (a : Nat) (ha : a < h.length) (j : Nat) :
    ((hrun h ops)[a]?.bind (·[j]?)).map (LThunk.evalLog e) = (h[a]?.bind (·[j]?)).map (LThunk.evalLog e) := by
  rw [hrun_frame ops h a ha]

/-! ### non-vacuity: concrete programs exercising every constructor and both error kinds -/

def env0 : Env := { baseVal := fun b i => 100 * b + i, fn := fun f v => (f + 2) * v + 1 }
def prog0 : Prog :=
  .add (.rep 2 (.select (.slice (some (-1)) none (some (-2))) (.map 1 (.base 0 5))))
       (.addPlain (.mapEach [0, 1] (.select (.ints [-1, 0]) (.copy (.base 1 3)))) [7])

example : prog0.ref env0 = .ok [13, 13, 7, 7, 1, 1, 205, 301, 7] := by rfl
example : mapE (List.map (LThunk.eval env0)) prog0.lazy = .ok [13, 13, 7, 7, 1, 1, 205, 301, 7] := by rfl
example : (Prog.select (.slice none none (some 0)) (.base 0 3)).lazy = .error .value := by rfl
example : (Prog.select (.ints [3]) (.base 0 3)).lazy = .error .index := by rfl
example : (Prog.mapEach [1] (.base 0 3)).lazy = .error .value := by rfl
example : prog0.getInt env0 (-3) = .ok (205, [.acc 1 2, .call 0 102]) := by rfl
example : hrun [] [.base 0 2, .map 1 0, .add 0 1, .rep 2 0, .select (.ints [5]) 0, .copy 2]
    = [[.base 0 0, .base 0 1], [.app 1 (.base 0 0), .app 1 (.base 0 1)],
       [.base 0 0, .base 0 1, .app 1 (.base 0 0), .app 1 (.base 0 1)],
       [.base 0 0, .base 0 0, .base 0 1, .base 0 1],
       [.base 0 0, .base 0 1, .app 1 (.base 0 0), .app 1 (.base 0 1)]] := by rfl

end MenpoModel.LazyList
