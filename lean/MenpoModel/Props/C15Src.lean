/-
C15 — the code-shaped definitions of Core/C15Src.lean (what the SOURCE TEXT of menpo/shape/labelled.py says, operation by
operation, with numpy's 0-d arrays, `vstack`, `OrderedDict(zip(..))`, the graph constructor's checks) are the definitions
of Core/C15.lean the property theorems are about, on every well-formed group with at least one point.

Together with `GenProps/C15Src.lean` (translated source = code-shaped definition, for all arguments, re-checked on every
run) this makes `select_iff`, `run_invariant`, `addLabel_spec`, … theorems about the translated source.
-/
import MenpoModel.Core.C15Src
import MenpoModel.Props.C15Sel

set_option linter.unusedSimpArgs false

namespace MenpoModel.C15.Src
open MenpoModel.C15

theorem any_map_not (l : List Bool) : (l.map (!·)).any id = !(l.all id) := by
  induction l with
  | nil => rfl
  | cons b bs ih => simp only [List.map_cons, List.any_cons, List.all_cons, ih, id]; cases b <;> simp

theorem orMasks_nil_all (n : Nat) : (orMasks n []).all id = (n == 0) := by
  cases n with
  | zero => rfl
  | succ k => simp [orMasks, List.range_succ]

/-- `_verify_all_labels_masked` decides coverage: on a group whose masks have the length of the points (and that has a
point or a label) the code-shaped check is `coveredB` -/
theorem verifyCovered_eq {α} (g : LGraph α) (hlen : ∀ p ∈ g.labels, p.2.length = g.pts.length)
    (hne : g.labels ≠ [] ∨ 0 < g.pts.length) :
    verifyCovered g = if coveredB g.pts.length g.labels then .ok g else .error .value := by
  unfold verifyCovered coveredB
  cases hl : g.labels with
  | nil =>
    have hpos : 0 < g.pts.length := by
      rcases hne with h | h
      · exact absurd hl h
      · exact h
    have : (g.pts.length == 0) = false := by cases hn : g.pts.length with | zero => omega | succ k => rfl
    simp [npSumEq0, NpMask.any, orMasks_nil_all, this]
  | cons p ps =>
    have hp : p.2.length = g.pts.length := hlen p (by rw [hl]; exact List.mem_cons_self)
    simp only [List.map_cons, npSumEq0, NpMask.any, any_map_not, hp]
    cases (orMasks g.pts.length (p.2 :: List.map Prod.snd ps)).all id <;> simp


theorem maskFilter_isEmpty {α} (l : List α) (m : List Bool) (hlen : l.length = m.length) :
    (maskFilter l m).isEmpty = !m.any id := by
  induction l generalizing m with
  | nil => cases m with
    | nil => rfl
    | cons b bs => simp at hlen
  | cons x xs ih => cases m with
    | nil => simp at hlen
    | cons b bs =>
      simp only [List.length_cons, Nat.add_right_cancel_iff] at hlen
      cases b
      · simp [maskFilter, ih bs hlen]
      · simp [maskFilter]

theorem all_imp_any (m : List Bool) (h : m.all id = true) (hpos : 0 < m.length) : m.any id = true := by
  cases m with
  | nil => simp at hpos
  | cons b bs => simp only [List.all_cons, id, Bool.and_eq_true] at h; simp [h.1]

/-- `from_mask` on a mask of the right length: refused iff it selects no point, else Core's `fromMask` -/
theorem fromMaskC_eq {α} (g : LGraph α) (m : List Bool) (hlen : m.length = g.pts.length) (hpos : 0 < g.pts.length) :
    fromMaskC g (.arr m) = if !m.any id then .error .empty
      else .ok { pts := (fromMask g.pts g.edges m).1, edges := (fromMask g.pts g.edges m).2, labels := [] } := by
  unfold fromMaskC fromMask
  simp only [hlen, bne_self_eq_false, Bool.false_eq_true, if_false]
  by_cases hall : m.all id = true
  · have := all_imp_any m hall (by omega)
    simp [hall, this]
  · simp only [hall, if_false, maskFilter_isEmpty g.pts m hlen.symm]
    cases m.any id <;> simp


theorem setG_append_fresh {β} (acc : List (String × β)) (k : String) (v : β) (h : k ∉ acc.map Prod.fst) :
    setG acc k v = acc ++ [(k, v)] := by
  induction acc with
  | nil => rfl
  | cons p rest ih =>
    obtain ⟨k', v'⟩ := p
    simp only [List.map_cons, List.mem_cons, not_or] at h
    have hk : (k' == k) = false := by simp; exact fun e => h.1 e.symm
    simp only [setG, hk, Bool.false_eq_true, if_false, List.cons_append, ih h.2]

theorem foldl_set_nodup {β} (ls acc : List (String × β)) (h : ((acc ++ ls).map Prod.fst).Nodup) :
    List.foldl (fun (d : ODict β) p => d.set p.1 p.2) ⟨acc⟩ ls = ⟨acc ++ ls⟩ := by
  induction ls generalizing acc with
  | nil => simp
  | cons p ps ih =>
    have hfresh : p.1 ∉ acc.map Prod.fst := by
      simp only [List.map_append, List.map_cons] at h
      have := (List.nodup_append.mp h).2.2
      intro hm
      exact this _ hm _ List.mem_cons_self rfl
    have hstep : (ODict.mk acc).set p.1 p.2 = ⟨acc ++ [p]⟩ := by
      simp only [ODict.set, setG_append_fresh acc p.1 p.2 hfresh]
    rw [List.foldl_cons, hstep, ih (acc ++ [p]) (by simpa using h)]
    simp

/-- `OrderedDict(pairs)` of pairs with distinct keys holds exactly the pairs, in order -/
theorem ofPairs_nodup {β} (ls : List (String × β)) (h : (ls.map Prod.fst).Nodup) : (ODict.ofPairs ls).items = ls := by
  unfold ODict.ofPairs ODict.empty
  rw [foldl_set_nodup ls [] (by simpa using h)]
  simp

theorem vstackWidth_ok {ms : List (List Bool)} {w : Nat} (h : vstackWidth ms = .ok w) : ∀ m ∈ ms, m.length = w := by
  cases ms with
  | nil => simp [vstackWidth] at h
  | cons m rest =>
    simp only [vstackWidth] at h
    split at h
    · rename_i hall
      injection h with h
      subst h
      intro x hx
      rcases List.mem_cons.mp hx with rfl | hx
      · rfl
      · simpa using List.all_eq_true.mp hall x hx
    · cases h

theorem vstackWidth_err {ms : List (List Bool)} {e : Err} (h : vstackWidth ms = .error e) (hne : ms ≠ []) (n : Nat) :
    e = .value ∧ ∃ m ∈ ms, m.length ≠ n := by
  cases ms with
  | nil => exact absurd rfl hne
  | cons m rest =>
    simp only [vstackWidth] at h
    split at h
    · cases h
    · rename_i hall
      injection h with h
      refine ⟨h.symm, ?_⟩
      have hall' : ∃ r ∈ rest, r.length ≠ m.length := by
        apply Classical.byContradiction
        intro hc
        apply hall
        apply List.all_eq_true.mpr
        intro r hr
        simp only [beq_iff_eq]
        apply Classical.byContradiction
        intro hne'
        exact hc ⟨r, hr, hne'⟩
      obtain ⟨r, hr, hne'⟩ := hall'
      by_cases hm : m.length = n
      · exact ⟨r, List.mem_cons_of_mem _ hr, by omega⟩
      · exact ⟨m, List.mem_cons_self, hm⟩

/-- the constructor as coded (graph constructor, empty label set, `vstack` width, coverage, copy of the masks) on an
adjacency matrix of the right size and a label dictionary: the graph constructor's "at least one vertex", then Core's
`construct` -/
theorem constructC_eq {α} (pts : List α) (es : List (Nat × Nat)) (labels : List (String × List Bool)) (copy : Bool)
    (hn : (labels.map Prod.fst).Nodup) :
    constructC pts (.matrix pts.length es) ⟨labels⟩ copy false =
      if pts.isEmpty then .error .empty else construct pts es labels := by
  unfold constructC puInit construct
  simp only [Bool.not_false, Bool.true_and, bne_self_eq_false, Bool.false_eq_true, if_false]
  cases pts with
  | nil => simp
  | cons x xs =>
    simp only [List.length_cons, Nat.add_one_ne_zero, beq_iff_eq, if_false, List.isEmpty_cons, Bool.false_eq_true]
    by_cases hemp : labels = []
    · subst hemp; simp
    · have hemp' : labels.isEmpty = false := by cases labels <;> simp_all
      simp only [hemp', Bool.false_eq_true, if_false, ODict.values]
      cases hv : vstackWidth (labels.map Prod.snd) with
      | error e =>
        obtain ⟨he, m, hm, hne⟩ := vstackWidth_err hv (by simpa using hemp) (xs.length + 1)
        obtain ⟨p, hp, rfl⟩ := List.mem_map.mp hm
        have : labels.any (fun p => p.2.length != xs.length + 1) = true :=
          List.any_eq_true.mpr ⟨p, hp, by simpa using hne⟩
        simp [this, he]
      | ok w =>
        have hw := vstackWidth_ok hv
        by_cases hwn : w = xs.length + 1
        · subst hwn
          have hall : labels.any (fun p => p.2.length != xs.length + 1) = false := by
            apply Bool.eq_false_iff.mpr
            intro h
            obtain ⟨p, hp, hne⟩ := List.any_eq_true.mp h
            have := hw p.2 (List.mem_map_of_mem hp)
            simp [this] at hne
          simp only [bne_self_eq_false, Bool.false_eq_true, if_false, hall]
          rw [verifyCovered_eq _ (by intro p hp; exact hw p.2 (List.mem_map_of_mem hp)) (Or.inl hemp)]
          simp only [List.length_cons]
          cases coveredB (xs.length + 1) labels
          · simp
          · simp [ofPairs_nodup labels hn]
        · have hall : labels.any (fun p => p.2.length != xs.length + 1) = true := by
            obtain ⟨p, hp⟩ := List.exists_mem_of_ne_nil _ hemp
            exact List.any_eq_true.mpr ⟨p, hp, by simpa [hw p.2 (List.mem_map_of_mem hp)] using hwn⟩
          simp [hwn, hall]


theorem lookupG_eq_lookup (ls : List (String × List Bool)) (l : String) : lookupG ls l = lookup ls l := by
  induction ls with
  | nil => rfl
  | cons p ps ih => obtain ⟨k, v⟩ := p; simp only [lookupG, lookup, ih]

theorem setG_self {β} {ls : List (String × β)} {k : String} {v : β} (h : lookupG ls k = some v) : setG ls k v = ls := by
  induction ls with
  | nil => simp [lookupG] at h
  | cons p rest ih =>
    obtain ⟨k', v'⟩ := p
    simp only [lookupG] at h
    simp only [setG]
    split
    · rename_i hk; simp only [hk, if_true, Option.some.injEq] at h; rw [h]
    · rename_i hk; simp only [hk] at h; rw [ih h]

theorem lookupG_map_mk {β} (ks : List String) (f : String → β) (l : String) (h : l ∈ ks) :
    lookupG (ks.map fun k => (k, f k)) l = some (f l) := by
  induction ks with
  | nil => simp at h
  | cons k rest ih =>
    simp only [List.map_cons, lookupG]
    by_cases hk : k = l
    · subst hk; simp
    · have : (k == l) = false := by simpa using hk
      simp only [this, Bool.false_eq_true, if_false]
      rcases List.mem_cons.mp h with h | h
      · exact absurd h.symm hk
      · exact ih h

/-- `OrderedDict(zip(keys, values))` when the value is a function of the key: first occurrences, in order -/
theorem zip_fun_items {β} (f : String → β) (req ks : List String) (hks : ks.Nodup) :
    (List.foldl (fun (d : ODict β) p => d.set p.1 p.2) ⟨ks.map fun l => (l, f l)⟩ (req.zip (req.map f))).items =
      (ks ++ (dedup req).filter fun l => !ks.contains l).map fun l => (l, f l) := by
  induction req generalizing ks with
  | nil => simp [dedup]
  | cons l rest ih =>
    simp only [List.map_cons, List.zip_cons_cons, List.foldl_cons, dedup]
    by_cases hl : l ∈ ks
    · have h1 : (ODict.mk (ks.map fun l => (l, f l))).set l (f l) = ⟨ks.map fun l => (l, f l)⟩ := by
        simp only [ODict.set, setG_self (lookupG_map_mk ks f l hl)]
      rw [h1, ih ks hks]
      congr 2
      have hc : ks.contains l = true := by simpa using hl
      simp only [List.filter_cons, hc, Bool.not_true, Bool.false_eq_true, if_false, List.filter_filter]
      apply List.filter_congr
      intro x _
      by_cases hx : x = l
      · subst hx; simp [hc]; exact hl
      · simp [hx]
    · have hfresh : l ∉ (ks.map fun l => (l, f l)).map Prod.fst := by simpa [List.map_map, Function.comp_def] using hl
      have h1 : (ODict.mk (ks.map fun l => (l, f l))).set l (f l) = ⟨(ks ++ [l]).map fun l => (l, f l)⟩ := by
        simp only [ODict.set, setG_append_fresh _ l (f l) hfresh, List.map_append, List.map_cons, List.map_nil]
      have hks' : (ks ++ [l]).Nodup := by
        apply List.nodup_append.mpr
        refine ⟨hks, by simp, ?_⟩
        intro a ha b hb
        simp only [List.mem_singleton] at hb
        subst hb
        intro e; subst e; exact hl ha
      rw [h1, ih (ks ++ [l]) hks']
      have hc : ks.contains l = false := by simpa using hl
      simp only [List.filter_cons, hc, Bool.not_false, if_true, List.append_assoc, List.singleton_append,
        List.filter_filter]
      congr 3
      apply List.filter_congr
      intro x _
      by_cases hx : x = l
      · subst hx; simp
      · simp [hx]

theorem zip_fun {β} (f : String → β) (req : List String) :
    (ODict.zip req (req.map f)).items = (dedup req).map fun l => (l, f l) := by
  unfold ODict.zip ODict.ofPairs ODict.empty
  have := zip_fun_items f req [] List.nodup_nil
  simp only [List.map_nil, List.nil_append, List.contains_nil, Bool.not_false] at this
  rw [this]
  congr 1
  induction dedup req with
  | nil => rfl
  | cons x xs ih => simp [List.filter_cons, ih]


theorem setDiff_pos_iff (req names : List String) :
    ((dedup req).filter fun l => !names.contains l).length > 0 ↔ (req.any fun l => !names.contains l) = true := by
  simp only [gt_iff_lt, List.any_eq_true, List.length_pos_iff]
  constructor
  · intro h
    obtain ⟨x, hx⟩ := List.exists_mem_of_ne_nil _ h
    obtain ⟨h1, h2⟩ := List.mem_filter.mp hx
    exact ⟨x, (mem_dedup x req).mp h1, h2⟩
  · rintro ⟨x, h1, h2⟩
    exact List.ne_nil_of_mem (List.mem_filter.mpr ⟨(mem_dedup x req).mpr h1, h2⟩)

theorem filterMap_lookup_all {ls : List (String × List Bool)} {req : List String}
    (h : ∀ l ∈ req, (lookup ls l).isSome = true) :
    req.filterMap (lookup ls) = req.map fun l => (lookup ls l).getD [] := by
  induction req with
  | nil => rfl
  | cons l rest ih =>
    have hl := h l List.mem_cons_self
    cases hlk : lookup ls l with
    | none => simp [hlk] at hl
    | some m =>
      simp only [List.filterMap_cons, hlk, List.map_cons, Option.getD_some]
      rw [ih fun x hx => h x (List.mem_cons_of_mem _ hx)]

theorem selectC_list {α} (g : LGraph α) (req : List String) :
    selectC g (.list req) =
      if ((dedup req).filter fun l => !g.names.contains l).length > 0 then .error .value
      else match fromMaskC g (npSumGt0 (req.filterMap (lookup g.labels))) with
        | .error e => .error e
        | .ok ng => constructC ng.pts (adjOf ng)
            (ODict.zip req ((req.filterMap (lookup g.labels)).map fun m =>
              maskIndex m (npSumGt0 (req.filterMap (lookup g.labels))))) true false := rfl

/-- **`_new_group_with_only_labels` as coded is Core's `select`** on every well-formed group with at least one point -/
theorem selectC_eq {α} (g : LGraph α) (hwf : WF g) (hpos : 0 < g.pts.length) (req : List String) :
    selectC g (.list req) = select g req := by
  rw [selectC_list]
  unfold select
  have hany : (req.any fun l => !g.names.contains l) = req.any fun l => (lookup g.labels l).isNone := by
    congr 1; funext l
    rw [Bool.eq_iff_iff]
    simp only [Bool.not_eq_true', List.contains_eq_mem, decide_eq_false_iff_not]
    exact (lookup_isNone_iff g.labels l).symm
  have hd := setDiff_pos_iff req g.names
  rw [hany] at hd
  by_cases hunk : (req.any fun l => (lookup g.labels l).isNone) = true
  · have := hd.mpr hunk
    rw [if_pos this, if_pos hunk]
  · have hnot : ¬ ((dedup req).filter fun l => !g.names.contains l).length > 0 := fun h => hunk (hd.mp h)
    simp only [hnot, if_false, hunk]
    have hall : ∀ l ∈ req, (lookup g.labels l).isSome = true := by
      intro l hl
      cases hlk : lookup g.labels l with
      | some m => rfl
      | none => exact absurd (List.any_eq_true.mpr ⟨l, hl, by simp [hlk]⟩) hunk
    cases req with
    | nil => simp [npSumGt0, fromMaskC]
    | cons l rest =>
      simp only [List.isEmpty_cons, Bool.false_eq_true, if_false]
      have hl := hall l List.mem_cons_self
      cases hlk : lookup g.labels l with
      | none => simp [hlk] at hl
      | some m =>
        have hm : m.length = g.pts.length := hwf.maskLen _ (lookup_eq_some_mem hlk)
        have hov : npSumGt0 ((l :: rest).filterMap (lookup g.labels)) = .arr (selMask g (l :: rest)) := by
          simp only [selMask, List.filterMap_cons, hlk, npSumGt0, hm]
        rw [hov, fromMaskC_eq g _ (by simp [selMask, orMasks_length]) hpos]
        by_cases hsel : (selMask g (l :: rest)).any id = true
        · simp only [hsel, Bool.not_true, Bool.false_eq_true, if_false, adjOf]
          have hz : ODict.zip (l :: rest) (((l :: rest).filterMap (lookup g.labels)).map fun m =>
              maskIndex m (.arr (selMask g (l :: rest)))) = ⟨restrictLabels g (l :: rest) (selMask g (l :: rest))⟩ := by
            rw [filterMap_lookup_all hall, List.map_map]
            have := zip_fun (fun k => maskFilter ((lookup g.labels k).getD []) (selMask g (l :: rest))) (l :: rest)
            simp only [Function.comp_def, maskIndex] at this ⊢
            cases hzz : ODict.zip (l :: rest) (List.map (fun x => maskFilter ((lookup g.labels x).getD [])
                (selMask g (l :: rest))) (l :: rest)) with
            | mk items => rw [hzz] at this; simp only at this; rw [this]; rfl
          rw [hz, constructC_eq _ _ _ _ (by
            simp only [restrictLabels, List.map_map, Function.comp_def, List.map_id']
            exact dedup_nodup _)]
          have hne : (fromMask g.pts g.edges (selMask g (l :: rest))).1.isEmpty = false := by
            unfold fromMask
            split
            · cases hp : g.pts with
              | nil => simp [hp] at hpos
              | cons _ _ => rfl
            · rw [maskFilter_isEmpty _ _ (by simp [selMask, orMasks_length]), hsel]; rfl
          simp only [hne, Bool.false_eq_true, if_false]
        · simp [hsel]


/-- `with_labels` with the documented `str`-or-list argument -/
theorem withLabelsC_eq {α} (g : LGraph α) (hwf : WF g) (hpos : 0 < g.pts.length) (a : LabelsArg) :
    withLabelsC g (.ofArg a) = withLabelsA g a := by
  cases a with
  | str s => exact selectC_eq g hwf hpos [s]
  | list ls => exact selectC_eq g hwf hpos ls

/-- `without_labels` with the documented `str`-or-list argument -/
theorem withoutLabelsC_eq {α} (g : LGraph α) (hwf : WF g) (hpos : 0 < g.pts.length) (a : LabelsArg) :
    withoutLabelsC g (.ofArg a) = withoutLabelsA g a := by
  cases a with
  | str s => exact selectC_eq g hwf hpos _
  | list ls => exact selectC_eq g hwf hpos _

/-- `get_label` -/
theorem getLabelC_eq {α} (g : LGraph α) (hwf : WF g) (hpos : 0 < g.pts.length) (l : String) :
    (getLabelC g l).map (fun r => (r.pts, r.edges)) = getLabel g l := by
  unfold getLabelC getLabel
  cases hlk : lookup g.labels l with
  | none => rfl
  | some m =>
    have hm : m.length = g.pts.length := hwf.maskLen _ (lookup_eq_some_mem hlk)
    simp only [fromMaskC_eq g m hm hpos]
    cases m.any id <;> rfl

theorem setTrueAt_zeros (n : Nat) (idx : List Int) :
    setTrueAt (List.replicate n false) idx =
      match normAll n idx with
      | none => .error .index
      | some js => .ok (indexMask n js) := by
  unfold setTrueAt indexMask
  simp only [List.length_replicate]
  cases normAll n idx with
  | none => rfl
  | some js =>
    simp only [Except.ok.injEq]
    apply List.map_congr_left
    intro i hi
    have hi' : i < n := List.mem_range.mp hi
    simp [List.getD_eq_getElem?_getD, List.getElem?_replicate, hi']

theorem setLabel_ne_nil (ls : List (String × List Bool)) (l : String) (m : List Bool) : setLabel ls l m ≠ [] := by
  cases ls with
  | nil => simp [setLabel]
  | cons p rest => obtain ⟨k, v⟩ := p; simp only [setLabel]; split <;> simp

/-- `add_label` (with the coverage check of the repaired code) -/
theorem addLabelC_eq {α} (g : LGraph α) (hwf : WF g) (l : String) (idx : List Int) :
    addLabelC g l idx = addLabel g l idx := by
  unfold addLabelC addLabel addLabelCoded
  rw [setTrueAt_zeros]
  cases hn : normAll g.pts.length idx with
  | none => rfl
  | some js =>
    simp only []
    rw [verifyCovered_eq _ (by
      intro p hp
      rcases mem_setLabel hp with h | h
      · rw [h]; exact indexMask_length _ _
      · exact hwf.maskLen p h) (Or.inl (setLabel_ne_nil _ _ _))]

theorem popLabel_eq {α} (g : LGraph α) (l : String) :
    popLabel g l = match lookup g.labels l with
      | none => .error .key
      | some _ => .ok { g with labels := g.labels.filter fun p => p.1 != l } := by
  unfold popLabel ODict.pop
  simp only [lookupG_eq_lookup]
  cases lookup g.labels l <;> rfl

/-- `remove_label` -/
theorem removeLabelC_eq {α} (g : LGraph α) (hwf : WF g) (hpos : 0 < g.pts.length) (l : String) :
    removeLabelC g l = removeLabel g l := by
  unfold removeLabelC removeLabel
  rw [popLabel_eq]
  cases lookup g.labels l with
  | none => rfl
  | some m =>
    simp only []
    have := verifyCovered_eq { g with labels := g.labels.filter fun p => p.1 != l } (by
      intro p hp
      exact hwf.maskLen p (List.mem_filter.mp hp).1) (Or.inr hpos)
    rw [this]


theorem lookupG_of_mem_nodup {β} {ls : List (String × β)} (hn : (ls.map Prod.fst).Nodup) {p : String × β}
    (h : p ∈ ls) : lookupG ls p.1 = some p.2 := by
  induction ls with
  | nil => simp at h
  | cons q rest ih =>
    obtain ⟨k, v⟩ := q
    simp only [List.map_cons, List.nodup_cons] at hn
    simp only [lookupG]
    rcases List.mem_cons.mp h with h | h
    · subst h; simp
    · split
      · rename_i hk
        simp only [beq_iff_eq] at hk
        have : p.1 ∈ rest.map Prod.fst := List.mem_map_of_mem (f := Prod.fst) h
        rw [← hk] at this
        exact absurd this hn.1
      · exact ih hn.2 h

theorem foldlM_masks (d : ODict (List Int)) (n : Nat) (rest : List (String × List Int))
    (acc : List (String × List Bool)) (hget : ∀ p ∈ rest, d.getD p.1 [] = p.2)
    (hnd : (acc.map Prod.fst ++ rest.map Prod.fst).Nodup) :
    (rest.map Prod.fst).foldlM (indicesToMasksStep d n) ⟨acc⟩ =
      match masksOfIndices n rest with
      | .error e => .error e
      | .ok ms => .ok ⟨acc ++ ms⟩ := by
  induction rest generalizing acc with
  | nil => simp [masksOfIndices]; rfl
  | cons q qs ih =>
    obtain ⟨l, idx⟩ := q
    simp only [List.map_cons, List.foldlM_cons, masksOfIndices]
    have hg : d.getD l [] = idx := hget (l, idx) List.mem_cons_self
    have hstep : indicesToMasksStep d n ⟨acc⟩ l = match normAll n idx with
        | none => .error .index
        | some js => .ok ⟨acc ++ [(l, indexMask n js)]⟩ := by
      unfold indicesToMasksStep
      rw [hg, setTrueAt_zeros]
      cases normAll n idx with
      | none => rfl
      | some js =>
        have hfresh : l ∉ acc.map Prod.fst := by
          intro hm
          have := (List.nodup_append.mp hnd).2.2 l hm l (by simp)
          exact this rfl
        simp only [ODict.set, setG_append_fresh acc l _ hfresh]
    rw [hstep]
    cases hn : normAll n idx with
    | none => rfl
    | some js =>
      simp only []
      have hnd' : ((acc ++ [(l, indexMask n js)]).map Prod.fst ++ qs.map Prod.fst).Nodup := by
        simpa [List.append_assoc] using hnd
      have := ih (acc ++ [(l, indexMask n js)]) (fun p hp => hget p (List.mem_cons_of_mem _ hp)) hnd'
      simp only [bind, Except.bind] at this ⊢
      rw [this]
      cases masksOfIndices n qs with
      | error e => rfl
      | ok ms => simp

/-- `indices_to_masks` on a dictionary (distinct keys) is Core's `masksOfIndices` -/
theorem indicesToMasksC_eq (mapping : List (String × List Int)) (n : Nat) (hn : (mapping.map Prod.fst).Nodup) :
    indicesToMasksC ⟨mapping⟩ n = (masksOfIndices n mapping).map ODict.mk := by
  unfold indicesToMasksC ODict.keys ODict.empty
  have := foldlM_masks ⟨mapping⟩ n mapping [] (fun p hp => by
    simp only [ODict.getD, lookupG_of_mem_nodup hn hp, Option.getD_some]) (by simpa using hn)
  rw [this]
  cases masksOfIndices n mapping <;> simp [Except.map]


/-- `init_from_indices_mapping` on an edge array with `k ≠ 2` in-range edges and a dictionary: Core's `initFromIndices`
over the upper triangle of the symmetric matrix of the edges -/
theorem initFromIndicesC_eq {α} (pts : List α) (es : List (Int × Int)) (mapping : List (String × List Int)) (copy : Bool)
    (hk : es.length ≠ 2) (hin : ∀ e ∈ es, 0 ≤ e.1 ∧ 0 ≤ e.2 ∧ e.1 < pts.length ∧ e.2 < pts.length)
    (hn : (mapping.map Prod.fst).Nodup) (hpts : pts ≠ []) :
    initFromIndicesC pts (.edgeList es) ⟨mapping⟩ copy = initFromIndices pts (canonEdges es) mapping := by
  unfold initFromIndicesC initFromIndices convertEdges
  have hany : es.any (fun e => e.1 < 0 || e.2 < 0 || e.1 ≥ pts.length || e.2 ≥ pts.length) = false := by
    apply Bool.eq_false_iff.mpr
    intro h
    obtain ⟨e, he, hb⟩ := List.any_eq_true.mp h
    obtain ⟨h1, h2, h3, h4⟩ := hin e he
    simp only [Bool.or_eq_true, decide_eq_true_eq] at hb
    omega
  have hsh : (Adj.shape0 (.edgeList es) != Adj.shape1 (.edgeList es) && Adj.shape1 (.edgeList es) == 2) = true := by
    simp [Adj.shape0, Adj.shape1, hk]
  simp only [hsh, if_true, hany, Bool.false_eq_true, if_false]
  rw [indicesToMasksC_eq mapping pts.length hn]
  cases hm : masksOfIndices pts.length mapping with
  | error e => rfl
  | ok ms =>
    simp only [Except.map]
    rw [constructC_eq pts _ ms copy (by rw [(masksOfIndices_ok hm).1]; exact hn)]
    have : pts.isEmpty = false := by cases pts <;> simp_all
    simp [this]

/-- a side finding (outside the property text): an edge array with exactly TWO edges is square, so
`init_from_indices_mapping` hands it to the graph constructor as a 2 × 2 adjacency matrix — refused for any number of
points other than two (probed on the real code: `ValueError: A point for each graph vertex needs to be passed`) -/
theorem initFromIndicesC_two_edges_refused :
    initFromIndicesC [10, 11, 12] (.edgeList [(0, 1), (1, 2)]) ⟨[("x", [0, 1, 2])]⟩ true = .error .value ∧
    (initFromIndices [10, 11, 12] (canonEdges [(0, 1), (1, 2)]) [("x", [0, 1, 2])]).map LGraph.edges
      = .ok [(0, 1), (1, 2)] := by
  decide

/-- `init_with_all_label` -/
theorem initWithAllLabelC_eq {α} (pts : List α) (es : List (Nat × Nat)) (copy : Bool) (hpts : pts ≠ []) :
    initWithAllLabelC pts (.matrix pts.length es) copy = initWithAllLabel pts es := by
  unfold initWithAllLabelC initWithAllLabel
  have : ODict.ofPairs [("all", List.replicate pts.length true)] = ⟨[("all", List.replicate pts.length true)]⟩ := rfl
  rw [this, constructC_eq pts es _ copy (by simp)]
  have : pts.isEmpty = false := by cases pts <;> simp_all
  simp [this]

end MenpoModel.C15.Src
