/-
C03 — composition obeys its law, is closed and type-sound, leaves operands intact.

Property theorems over the executable model `Core/C03Compose.lean` (PROPERTY marks the theorems
listed in `harness/c03.py`).  All theorems are dimension generic (`d` arbitrary; menpo's affine
family is restricted to d = 2, 3), the store holds objects of different dimensions side by side
(`WithDims` changes the dimension of the points), and everything is stated over
`expectedClassTable` / `expectedMethodTable`; the obligations of `GenProps/C03.lean` tie those
tables to the live classes on every run.
-/
import MenpoModel.Lemmas.C03Inv
import MenpoModel.Lemmas.C03Store
import MenpoModel.Lemmas.C03FromVec
import MenpoModel.Lemmas.C03Slices
import Mathlib.Tactic.FinCases
import Mathlib.Tactic.NormNum

namespace MenpoModel.C03

/-- the class structure all theorems are about -/
abbrev E : ClassTable := expectedClassTable

variable {d : Nat}

/-! ## class-level facts (finite: decided over all 12 resp. 12×12 classes) -/

theorem HCls.mem_all (c : HCls) : c ∈ HCls.all := by cases c <;> decide

/-- the class `_compose_before/_after` report for operand classes `a` (self) and `b` -/
def resultCls (a b : HCls) : HCls :=
  if isSub E b a then baseOf a
  else if isSub E a b then baseOf b
  else if isSub E a .Similarity && isSub E b .Similarity then .Similarity
  else if isSub E a .Affine && isSub E b .Affine then .Affine
  else .Homogeneous

theorem strip_eq_baseOf (c : HCls) : stripCls E c = baseOf c := by cases c <;> rfl

theorem strip_of_not_align (c : HCls) (h : isAlign E c = false) : baseOf c = c := by
  cases c <;> first | rfl | exact absurd h (by decide)

theorem isAlign_baseOf (c : HCls) : isAlign E (baseOf c) = false := by cases c <;> rfl

theorem baseLe_refl_base (c : HCls) : baseLe (baseOf c) (baseOf c) = true := by cases c <;> rfl

private theorem isSub_baseLe_all :
    ∀ a ∈ HCls.all, ∀ b ∈ HCls.all, isSub E a b = true → baseLe (baseOf a) (baseOf b) = true := by
  decide +kernel

/-- `isinstance` between family classes implies the subclass order of the base classes -/
theorem isSub_baseLe {a b : HCls} (h : isSub E a b = true) : baseLe (baseOf a) (baseOf b) = true :=
  isSub_baseLe_all a (HCls.mem_all a) b (HCls.mem_all b) h

private theorem resultCls_facts_all :
    ∀ a ∈ HCls.all, ∀ b ∈ HCls.all,
      isAlign E (resultCls a b) = false ∧ baseOf (resultCls a b) = resultCls a b ∧
      baseLe (baseOf a) (resultCls a b) = true ∧ baseLe (baseOf b) (resultCls a b) = true ∧
      resultCls a b = resultCls b a := by
  decide +kernel

/-- PROPERTY (type soundness, class level; all 12 × 12 ordered pairs, both directions — the
direction does not enter the class): the reported class is never an alignment class, and it is
an upper bound, in the subclass order, of the (de-aligned) classes of both operands. -/
theorem resultCls_sound (a b : HCls) :
    isAlign E (resultCls a b) = false ∧ baseOf (resultCls a b) = resultCls a b ∧
    baseLe (baseOf a) (resultCls a b) = true ∧ baseLe (baseOf b) (resultCls a b) = true ∧
    resultCls a b = resultCls b a :=
  resultCls_facts_all a (HCls.mem_all a) b (HCls.mem_all b)

private theorem composesWith_all :
    ∀ a ∈ HCls.all, ∀ b ∈ HCls.all, accepts E (composesWith E a) b = true := by decide +kernel

/-- every family member composes natively with every family member (`composes_with = Homogeneous`) -/
theorem composesWith_family (a b : HCls) : accepts E (composesWith E a) b = true :=
  composesWith_all a (HCls.mem_all a) b (HCls.mem_all b)

private theorem inplace_accepts_all :
    ∀ a ∈ HCls.all, ∀ b ∈ HCls.all, accepts E (inplaceWith E a) b = true →
      baseLe (baseOf b) (baseOf a) = true ∨
      (baseOf a = .NonUniformScale ∧ baseOf b = .UniformScale) := by decide +kernel

/-- the in-place gate only lets through operands whose class invariant implies the receiver's -/
theorem inplace_accepts {a b : HCls} (h : accepts E (inplaceWith E a) b = true) :
    baseLe (baseOf b) (baseOf a) = true ∨ (baseOf a = .NonUniformScale ∧ baseOf b = .UniformScale) :=
  inplace_accepts_all a (HCls.mem_all a) b (HCls.mem_all b) h

private theorem isSub_affine_all :
    ∀ c ∈ HCls.all, isSub E c .Affine = true → baseOf c ≠ .Homogeneous := by decide +kernel

theorem isSub_affine {c : HCls} (h : isSub E c .Affine = true) : baseOf c ≠ .Homogeneous :=
  isSub_affine_all c (HCls.mem_all c) h

/-! ## a family object -/

theorem inv_isAffine {t : HT d} (h : Inv t.cls t.M) (hc : isSub E t.cls .Affine = true) :
    IsAffine t.M :=
  invBase_affine h (isSub_affine hc)

/-- on an honest object, whichever `_apply` method resolution picks is the projective action of
the matrix -/
theorem applyHT_eq_proj {t : HT d} (h : Inv t.cls t.M) (x : Vec d) :
    applyHT E t x = projApply t.M x := by
  unfold applyHT
  by_cases hc : isSub E t.cls .Affine = true
  · rw [if_pos hc, projApply_affine (inv_isAffine h hc)]
  · rw [if_neg hc]

theorem rawCompose_flip (dir : Dir) (A B : Mat (d + 1)) :
    rawCompose dir.flip A B = rawCompose dir B A := by cases dir <;> rfl

theorem inv_rawCompose {c : HCls} (dir : Dir) {A B : Mat (d + 1)} (hA : InvBase c A) (hB : InvBase c B) :
    InvBase c (rawCompose dir A B) := by
  cases dir
  · exact invBase_mul hB hA
  · exact invBase_mul hA hB

theorem det_rawCompose (dir : Dir) {A B : Mat (d + 1)} (hA : det A ≠ 0) (hB : det B ≠ 0) :
    det (rawCompose dir A B) ≠ 0 := by
  cases dir <;> simp only [rawCompose, det_mul'] <;> exact mul_ne_zero (by assumption) (by assumption)

/-- the map of the raw product: first `s` then `t` for `before`, first `t` then `s` for `after` -/
theorem proj_rawCompose (dir : Dir) {A B : Mat (d + 1)} {x y z : Vec d} :
    (dir = .before → projApply A x = some y ∧ projApply B y = some z) →
    (dir = .after → projApply B x = some y ∧ projApply A y = some z) →
    projApply (rawCompose dir A B) x = some z := by
  intro hb ha
  cases dir
  · obtain ⟨h1, h2⟩ := hb rfl; exact projApply_mul h1 h2
  · obtain ⟨h1, h2⟩ := ha rfl; exact projApply_mul h1 h2

/-! ## the isinstance ladder -/

/-- the ladder never runs out of fuel, multiplies the matrices in the order the direction asks
for, and reports `resultCls` -/
theorem ladder_spec (dir : Dir) (s t : HT d) (hs : Inv s.cls s.M) (ht : Inv t.cls t.M) :
    ∃ r, ladder E ladderFuel dir s t = some r ∧ r.M = rawCompose dir s.M t.M ∧
      r.cls = resultCls s.cls t.cls := by
  have swallow : ∀ (dir : Dir) (s t : HT d), Inv s.cls s.M → isSub E t.cls s.cls = true →
      ∀ fuel, ladder E (fuel + 1) dir s t = some ⟨baseOf s.cls, rawCompose dir s.M t.M⟩ := by
    intro dir s t hs h fuel
    simp only [ladder, h, if_true]
    by_cases ha : isAlign E s.cls = true
    · simp only [ha, if_true, strip_eq_baseOf, nonAlignmentMatrix_of_inv hs]
    · simp only [ha, Bool.false_eq_true, if_false]
      rw [strip_of_not_align s.cls (by simpa using ha)]
  by_cases h1 : isSub E t.cls s.cls = true
  · exact ⟨_, swallow dir s t hs h1 1, rfl, by simp [resultCls, h1]⟩
  · by_cases h2 : isSub E s.cls t.cls = true
    · refine ⟨⟨baseOf t.cls, rawCompose dir s.M t.M⟩, ?_, rfl, by simp [resultCls, h1, h2]⟩
      have := swallow dir.flip t s ht h2 0
      simp only [ladderFuel, ladder, h1, h2, Bool.false_eq_true, if_false, if_true] at this ⊢
      rw [this, rawCompose_flip]
    · by_cases h3 : (isSub E s.cls .Similarity && isSub E t.cls .Similarity) = true
      · exact ⟨⟨.Similarity, rawCompose dir s.M t.M⟩,
          by simp only [ladderFuel, ladder, h1, h2, h3, Bool.false_eq_true, if_false, if_true],
          rfl, by simp only [resultCls, h1, h2, h3, Bool.false_eq_true, if_false, if_true]⟩
      · by_cases h4 : (isSub E s.cls .Affine && isSub E t.cls .Affine) = true
        · exact ⟨⟨.Affine, rawCompose dir s.M t.M⟩,
            by simp only [ladderFuel, ladder, h1, h2, h3, h4, Bool.false_eq_true, if_false, if_true],
            rfl, by simp only [resultCls, h1, h2, h3, h4, Bool.false_eq_true, if_false, if_true]⟩
        · exact ⟨⟨.Homogeneous, rawCompose dir s.M t.M⟩,
            by simp only [ladderFuel, ladder, h1, h2, h3, h4, Bool.false_eq_true, if_false],
            rfl, by simp only [resultCls, h1, h2, h3, h4, Bool.false_eq_true, if_false]⟩

/-- PROPERTY (`_compose_before/_after` are total: the mutual recursion
`t._compose_after(self)` / `t._compose_before(self)` always ends after one hop). -/
theorem ladder_total (dir : Dir) (s t : HT d) (hs : Inv s.cls s.M) (ht : Inv t.cls t.M) :
    (ladder E ladderFuel dir s t).isSome = true := by
  obtain ⟨r, hr, _⟩ := ladder_spec dir s t hs ht
  simp [hr]

/-- PROPERTY (closed and type-sound, all 12×12×2 ordered class pairs): composing two honest
family members natively yields one family member (`ladder` returns an `HT`, never a chain) whose
class is not an alignment class, whose matrix *really is* of the reported class (`Inv`), and which
is invertible when both operands are. -/
theorem compose_closed_sound (dir : Dir) (s t : HT d) (hs : Inv s.cls s.M) (ht : Inv t.cls t.M) :
    ∃ r, ladder E ladderFuel dir s t = some r ∧
      isAlign E r.cls = false ∧ Inv r.cls r.M ∧
      (det s.M ≠ 0 → det t.M ≠ 0 → det r.M ≠ 0) := by
  obtain ⟨r, hr, hM, hc⟩ := ladder_spec dir s t hs ht
  obtain ⟨hal, hbase, hle_s, hle_t, _⟩ := resultCls_sound s.cls t.cls
  refine ⟨r, hr, by rw [hc]; exact hal, ?_, fun ds dt => by rw [hM]; exact det_rawCompose dir ds dt⟩
  unfold Inv
  rw [hc, hbase, hM]
  exact inv_rawCompose dir (invBase_mono hle_s hs) (invBase_mono hle_t ht)

/-- PROPERTY (law, `compose_before`): `a.compose_before(b)` maps `x` to `b(a(x))` — for every pair
of honest family members, wherever the two applications are defined (always, in the affine family;
wherever the projective denominators are non-zero for `Homogeneous`). -/
theorem compose_before_law (a b : HT d) (ha : Inv a.cls a.M) (hb : Inv b.cls b.M) :
    ∃ r, ladder E ladderFuel .before a b = some r ∧
      ∀ x y z, applyHT E a x = some y → applyHT E b y = some z → applyHT E r x = some z := by
  obtain ⟨r, hr, _, hinv, _⟩ := compose_closed_sound .before a b ha hb
  obtain ⟨r', hr', hM, _⟩ := ladder_spec .before a b ha hb
  rw [hr] at hr'; cases hr'
  refine ⟨r, hr, fun x y z h1 h2 => ?_⟩
  rw [applyHT_eq_proj ha] at h1
  rw [applyHT_eq_proj hb] at h2
  rw [applyHT_eq_proj hinv, hM]
  exact proj_rawCompose .before (fun _ => ⟨h1, h2⟩) (fun h => by cases h)

/-- PROPERTY (law, `compose_after`): `a.compose_after(b)` maps `x` to `a(b(x))`. -/
theorem compose_after_law (a b : HT d) (ha : Inv a.cls a.M) (hb : Inv b.cls b.M) :
    ∃ r, ladder E ladderFuel .after a b = some r ∧
      ∀ x y z, applyHT E b x = some y → applyHT E a y = some z → applyHT E r x = some z := by
  obtain ⟨r, hr, _, hinv, _⟩ := compose_closed_sound .after a b ha hb
  obtain ⟨r', hr', hM, _⟩ := ladder_spec .after a b ha hb
  rw [hr] at hr'; cases hr'
  refine ⟨r, hr, fun x y z h1 h2 => ?_⟩
  rw [applyHT_eq_proj hb] at h1
  rw [applyHT_eq_proj ha] at h2
  rw [applyHT_eq_proj hinv, hM]
  exact proj_rawCompose .after (fun h => by cases h) (fun _ => ⟨h1, h2⟩)

/-- PROPERTY (law in the affine family, as an equation): when both operands are affine-family
members every application is defined, so the composite *equals* the sequential application at
every point, in both directions. -/
theorem compose_law_affine (a b : HT d) (ha : Inv a.cls a.M) (hb : Inv b.cls b.M)
    (ca : isSub E a.cls .Affine = true) (cb : isSub E b.cls .Affine = true) :
    (∃ r, ladder E ladderFuel .before a b = some r ∧
      ∀ x, applyHT E r x = (applyHT E a x).bind (applyHT E b) ∧ (applyHT E r x).isSome = true) ∧
    (∃ r, ladder E ladderFuel .after a b = some r ∧
      ∀ x, applyHT E r x = (applyHT E b x).bind (applyHT E a) ∧ (applyHT E r x).isSome = true) := by
  have da : ∀ x, applyHT E a x = some (affApply a.M x) := fun x => by simp [applyHT, ca]
  have db : ∀ x, applyHT E b x = some (affApply b.M x) := fun x => by simp [applyHT, cb]
  constructor
  · obtain ⟨r, hr, law⟩ := compose_before_law a b ha hb
    refine ⟨r, hr, fun x => ?_⟩
    have := law x _ _ (da x) (db _)
    simp [this, da, db]
  · obtain ⟨r, hr, law⟩ := compose_after_law a b ha hb
    refine ⟨r, hr, fun x => ?_⟩
    have := law x _ _ (db x) (da _)
    simp [this, da, db]


/-! ## the store: operands intact, chains, in-place calls, programs

The store is heterogeneous in dimension: every family object carries its own `d`, `WithDims`
changes the dimension of the points, points are coordinate lists of any length. -/

/-- a store without dangling references in which every family object is honest -/
def Good (st : Store) : Prop := WF st ∧ ∀ d (t : HT d), Cell.fam d t ∈ st → Inv t.cls t.M

def AllInvertible (st : Store) : Prop := ∀ d (t : HT d), Cell.fam d t ∈ st → det t.M ≠ 0

/-- the operand applied first / second by `a.compose_before(b)` (`dir = before`) and
`a.compose_after(b)` (`dir = after`) -/
def firstOf (dir : Dir) (a b : Nat) : Nat := match dir with | .before => a | .after => b
def secondOf (dir : Dir) (a b : Nat) : Nat := match dir with | .before => b | .after => a

/-- `lr` denotes "first `l1`, then `l2`" -/
def SeqLaw (l1 l2 lr : List Leaf) : Prop :=
  ∀ (env : Nat → Pt → Option Pt) (x y z : Pt),
    applyLeaves E env l1 x = some y → applyLeaves E env l2 y = some z →
    applyLeaves E env lr x = some z

theorem seqLaw_append (l1 l2 : List Leaf) : SeqLaw l1 l2 (l1 ++ l2) := by
  intro env x y z h1 h2
  rw [applyLeaves_append, h1]; exact h2

theorem lt_of_getElem?_some {α} {l : List α} {i : Nat} {x : α} (h : l[i]? = some x) : i < l.length := by
  rcases Nat.lt_or_ge i l.length with h' | h'
  · exact h'
  · rw [List.getElem?_eq_none h'] at h; cases h

/-! ### a family object applied to a coordinate list -/

theorem applyFam_some {t : HT d} {x y : Pt} (h : applyFam E t x = some y) :
    x.length = d ∧ ∃ y', applyHT E t (Vec.ofList d x) = some y' ∧ y = y'.toList := by
  unfold applyFam at h
  by_cases hx : x.length = d
  · rw [if_pos hx] at h
    cases ha : applyHT E t (Vec.ofList d x) with
    | none => simp [ha] at h
    | some y' =>
      simp only [ha, Option.map_some, Option.some.injEq] at h
      exact ⟨hx, y', rfl, h.symm⟩
  · rw [if_neg hx] at h; cases h

/-- a law between family objects of one dimension, read on coordinate lists -/
theorem fam_law_pts {s t r : HT d}
    (law : ∀ x y z, applyHT E s x = some y → applyHT E t y = some z → applyHT E r x = some z)
    {x y z : Pt} (h1 : applyFam E s x = some y) (h2 : applyFam E t y = some z) :
    applyFam E r x = some z := by
  obtain ⟨hx, y', e1, rfl⟩ := applyFam_some h1
  obtain ⟨_, z', e2, rfl⟩ := applyFam_some h2
  rw [Vec.ofList_toList] at e2
  have := law _ _ _ e1 e2
  simp [applyFam, hx, this]

/-! ### inversion of the cell constructors -/

theorem nativeCompose_same {tbl : ClassTable} {dir : Dir} (s t : HT d) :
    nativeCompose tbl dir s t =
      (ladder tbl ladderFuel dir s t).elim (.error .fuel) (fun r => .ok (.fam d r)) := by
  simp only [nativeCompose, dif_pos]
  cases ladder tbl ladderFuel dir s t <;> rfl

theorem nativeCompose_ne {tbl : ClassTable} {dir : Dir} {d' : Nat} (s : HT d) (t : HT d') (h : d' ≠ d) :
    nativeCompose tbl dir s t = .error .shape := by
  simp [nativeCompose, h]

theorem nativeCompose_ok {tbl : ClassTable} {dir : Dir} {d' : Nat} {s : HT d} {t : HT d'} {c : Cell}
    (h : nativeCompose tbl dir s t = .ok c) :
    ∃ (e : d' = d) (r : HT d), c = .fam d r ∧ ladder tbl ladderFuel dir s (e ▸ t) = some r := by
  by_cases e : d' = d
  · subst e
    rw [nativeCompose_same] at h
    cases hl : ladder tbl ladderFuel dir s t with
    | none => simp [hl] at h
    | some r =>
      simp only [hl, Option.elim, Except.ok.injEq] at h
      exact ⟨rfl, r, h.symm, hl⟩
  · rw [nativeCompose_ne s t e] at h; cases h

theorem nativeInplace_same {dir : Dir} (s t : HT d) :
    nativeInplace dir s t = .ok (.fam d ⟨s.cls, rawCompose dir s.M t.M⟩) := by
  simp [nativeInplace]

theorem nativeInplace_ne {dir : Dir} {d' : Nat} (s : HT d) (t : HT d') (h : d' ≠ d) :
    nativeInplace dir s t = .error .shape := by
  simp [nativeInplace, h]

theorem composeCell_refs {tbl : ClassTable} {st : Store} {dir : Dir} {a b : Nat} {c : Cell}
    (h : composeCell tbl st dir a b = .ok c) : a < st.length ∧ b < st.length := by
  unfold composeCell at h
  cases ha : st[a]? with
  | none => simp [ha] at h
  | some ca =>
    cases hb : st[b]? with
    | none => cases ca <;> simp [ha, hb] at h
    | some cb => exact ⟨lt_of_getElem?_some ha, lt_of_getElem?_some hb⟩

theorem inplaceCell_refs {tbl : ClassTable} {st : Store} {dir : Dir} {a b : Nat} {c : Cell}
    (h : inplaceCell tbl st dir a b = .ok c) : a < st.length ∧ b < st.length := by
  unfold inplaceCell at h
  cases ha : st[a]? with
  | none => simp [ha] at h
  | some ca =>
    cases hb : st[b]? with
    | none => cases ca <;> simp [ha, hb] at h
    | some cb => exact ⟨lt_of_getElem?_some ha, lt_of_getElem?_some hb⟩

/-- the three shapes of a successful non-in-place call -/
theorem composeCell_cases {tbl : ClassTable} {st : Store} {dir : Dir} {a b : Nat} {c : Cell}
    (h : composeCell tbl st dir a b = .ok c) :
    (∃ (d : Nat) (s t r : HT d), st[a]? = some (.fam d s) ∧ st[b]? = some (.fam d t) ∧
        accepts tbl (composesWith tbl s.cls) t.cls = true ∧
        ladder tbl ladderFuel dir s t = some r ∧ c = .fam d r) ∨
    (∃ ms, st[a]? = some (.chain ms) ∧ c = .chain (chainAdd dir ms b)) ∨
    ((∀ ms, st[a]? ≠ some (.chain ms)) ∧ c = .chain (orderPair dir a b)) := by
  unfold composeCell at h
  cases ha : st[a]? with
  | none => simp [ha] at h
  | some ca =>
    cases hb : st[b]? with
    | none => cases ca <;> simp [ha, hb] at h
    | some cb =>
      cases ca with
      | fam d s =>
        cases cb with
        | fam d' t =>
          simp only [ha, hb] at h
          by_cases hacc : accepts tbl (composesWith tbl s.cls) t.cls = true
          · simp only [hacc, if_true] at h
            obtain ⟨e, r, hc, hl⟩ := nativeCompose_ok h
            subst e
            exact Or.inl ⟨_, s, t, r, rfl, rfl, hacc, hl, hc⟩
          · simp only [hacc, Bool.false_eq_true, if_false, Except.ok.injEq] at h
            exact Or.inr (Or.inr ⟨fun ms hms => (by cases hms), h.symm⟩)
        | chain ns =>
          simp only [ha, hb, Except.ok.injEq] at h
          exact Or.inr (Or.inr ⟨fun ms hms => (by cases hms), h.symm⟩)
        | leaf p =>
          simp only [ha, hb, Except.ok.injEq] at h
          exact Or.inr (Or.inr ⟨fun ms hms => (by cases hms), h.symm⟩)
      | leaf p =>
        simp only [ha, hb, Except.ok.injEq] at h
        exact Or.inr (Or.inr ⟨fun ms hms => (by cases hms), h.symm⟩)
      | chain ms0 =>
        simp only [ha, hb, Except.ok.injEq] at h
        exact Or.inr (Or.inl ⟨ms0, rfl, h.symm⟩)

/-- a chain produced by a non-in-place call lists existing objects, and flattens to the leaves of
the first operand followed by the leaves of the second -/
theorem composeCell_chain {tbl : ClassTable} {st : Store} {dir : Dir} {a b : Nat} {ms : List Nat}
    (h : composeCell tbl st dir a b = .ok (.chain ms)) (hwf : WF st) :
    (∀ m ∈ ms, m < st.length) ∧
    ∀ f l1 l2, flat st f (firstOf dir a b) = some l1 → flat st f (secondOf dir a b) = some l2 →
      flatMembers (flat st f) ms = some (l1 ++ l2) := by
  obtain ⟨hla, hlb⟩ := composeCell_refs h
  rcases composeCell_cases h with ⟨d, s, t, r, _, _, _, _, hc⟩ | ⟨ms0, ha, hc⟩ | ⟨_, hc⟩
  · cases hc
  · cases hc
    have hms0 : ∀ m ∈ ms0, m < st.length := by
      have := hwf _ (List.mem_of_getElem? ha); simpa [WFCell] using this
    have unfoldA : ∀ f l, flat st f a = some l → flatMembers (flat st f) ms0 = some l := by
      intro f l hl
      cases f with
      | zero => simp [flat] at hl
      | succ f =>
        rw [flat, ha] at hl
        exact flatMembers_mono (fun m _ l hm => flat_mono st f m l hm) hl
    cases dir
    · refine ⟨by intro m hm; simp only [chainAdd, List.mem_append, List.mem_singleton] at hm
                 rcases hm with hm | hm
                 · exact hms0 m hm
                 · rw [hm]; exact hlb, ?_⟩
      intro f l1 l2 h1 h2
      exact flatMembers_append (unfoldA f l1 h1) (flatMembers_single h2)
    · refine ⟨by intro m hm; simp only [chainAdd, List.mem_cons] at hm
                 rcases hm with hm | hm
                 · rw [hm]; exact hlb
                 · exact hms0 m hm, ?_⟩
      intro f l1 l2 h1 h2
      exact flatMembers_append (ms := [b]) (flatMembers_single h1) (unfoldA f l2 h2)
  · cases hc
    cases dir
    · exact ⟨by simp [orderPair, hla, hlb], fun f l1 l2 h1 h2 => flatMembers_pair h1 h2⟩
    · exact ⟨by simp [orderPair, hla, hlb], fun f l1 l2 h1 h2 => flatMembers_pair h1 h2⟩

theorem step_compose_ok {tbl : ClassTable} {st st' : Store} {dir : Dir} {a b : Nat} {r : Option Nat}
    (h : step tbl st (.compose dir a b) = .ok (st', r)) :
    ∃ c, composeCell tbl st dir a b = .ok c ∧ st' = st ++ [c] ∧ r = some st.length := by
  simp only [step] at h
  cases hc : composeCell tbl st dir a b with
  | error e => simp [hc, Except.map] at h
  | ok c =>
    simp only [hc, Except.map, Except.ok.injEq, Prod.mk.injEq] at h
    exact ⟨c, rfl, h.1.symm, h.2.symm⟩

theorem step_inplace_ok {tbl : ClassTable} {st st' : Store} {dir : Dir} {a b : Nat} {r : Option Nat}
    (h : step tbl st (.inplace dir a b) = .ok (st', r)) :
    ∃ c, inplaceCell tbl st dir a b = .ok c ∧ st' = st.set a c ∧ r = none := by
  simp only [step] at h
  cases hc : inplaceCell tbl st dir a b with
  | error e => simp [hc, Except.map] at h
  | ok c =>
    simp only [hc, Except.map, Except.ok.injEq, Prod.mk.injEq] at h
    exact ⟨c, rfl, h.1.symm, h.2.symm⟩

theorem step_fromVector_ok {tbl : ClassTable} {st st' : Store} {a : Nat} {v : List Rat} {r : Option Nat}
    (h : step tbl st (.fromVector a v) = .ok (st', r)) :
    ∃ c, fromVectorCell tbl st a v = .ok c ∧ st' = st.set a c ∧ r = none := by
  simp only [step] at h
  cases hc : fromVectorCell tbl st a v with
  | error e => simp [hc, Except.map] at h
  | ok c =>
    simp only [hc, Except.map, Except.ok.injEq, Prod.mk.injEq] at h
    exact ⟨c, rfl, h.1.symm, h.2.symm⟩

/-- PROPERTY (operands intact, `compose_frame`): a non-in-place call only *adds* one object to
the store.  Every object that existed before the call — both operands, and every member of every
chain — is the very same cell afterwards (dimension, class, matrix, member list), and denotes the
same map. -/
theorem compose_frame (st st' : Store) (dir : Dir) (a b : Nat) (r : Option Nat)
    (h : step E st (.compose dir a b) = .ok (st', r)) :
    (∃ c, st' = st ++ [c] ∧ r = some st.length) ∧
    (∀ i, i < st.length → st'[i]? = st[i]?) ∧
    (WF st → ∀ f i, i < st.length → flat st' f i = flat st f i) := by
  obtain ⟨c, _, rfl, rfl⟩ := step_compose_ok h
  exact ⟨⟨c, rfl, rfl⟩, fun i hi => List.getElem?_append_left hi,
    fun hwf f i hi => flat_append st c hwf f i hi⟩

/-- PROPERTY (in-place calls touch the receiver only): after `a.compose_*_inplace(b)` or
`a.compose_after_from_vector_inplace(v)` every object other than `a` — in particular the operand
`b` — is the very same cell. -/
theorem inplace_frame (st st' : Store) (s : Stmt) (r : Option Nat)
    (h : step E st s = .ok (st', r)) :
    (∀ dir a b, s = .inplace dir a b →
      r = none ∧ st'.length = st.length ∧ ∀ i, i ≠ a → st'[i]? = st[i]?) ∧
    (∀ a v, s = .fromVector a v →
      r = none ∧ st'.length = st.length ∧ ∀ i, i ≠ a → st'[i]? = st[i]?) := by
  constructor
  · rintro dir a b rfl
    obtain ⟨c, _, rfl, rfl⟩ := step_inplace_ok h
    exact ⟨rfl, by simp, fun i hi => List.getElem?_set_ne (Ne.symm hi)⟩
  · rintro a v rfl
    obtain ⟨c, _, rfl, rfl⟩ := step_fromVector_ok h
    exact ⟨rfl, by simp, fun i hi => List.getElem?_set_ne (Ne.symm hi)⟩

/-! ### native results and chain results of the non-in-place calls -/

theorem composeCell_fam {tbl : ClassTable} {st : Store} {dir : Dir} {a b : Nat} {r : HT d}
    (h : composeCell tbl st dir a b = .ok (.fam d r)) :
    ∃ s t : HT d, st[a]? = some (.fam d s) ∧ st[b]? = some (.fam d t) ∧
      ladder tbl ladderFuel dir s t = some r := by
  rcases composeCell_cases h with ⟨d', s, t, r', ha, hb, _, hl, hc⟩ | ⟨ms0, _, hc⟩ | ⟨_, hc⟩
  · cases hc; exact ⟨s, t, ha, hb, hl⟩
  · cases hc
  · cases hc

theorem composeCell_not_leaf {tbl : ClassTable} {st : Store} {dir : Dir} {a b : Nat} {p : Plain} :
    composeCell tbl st dir a b ≠ .ok (.leaf p) := by
  intro h
  rcases composeCell_cases h with ⟨d', s, t, r', _, _, _, _, hc⟩ | ⟨ms0, _, hc⟩ | ⟨_, hc⟩ <;> cases hc

/-- PROPERTY (single family member, never a chain): when both operands are family objects of one
dimension the non-in-place call produces a family object (natively composed), not a
`TransformChain`. -/
theorem compose_family_single (st : Store) (hg : Good st) (dir : Dir) (a b : Nat) (s t : HT d)
    (ha : st[a]? = some (.fam d s)) (hb : st[b]? = some (.fam d t)) :
    ∃ r, composeCell E st dir a b = .ok (.fam d r) ∧ ladder E ladderFuel dir s t = some r := by
  obtain ⟨r, hr, _⟩ := ladder_spec dir s t (hg.2 d s (List.mem_of_getElem? ha)) (hg.2 d t (List.mem_of_getElem? hb))
  exact ⟨r, by simp [composeCell, ha, hb, composesWith_family, nativeCompose_same, hr], hr⟩

/-- PROPERTY (operands of different dimension): two family objects whose matrices have different
sizes cannot be composed natively — `np.dot` raises `ValueError`, non-in-place and in-place alike,
and nothing is changed.  (The sequential application is undefined on every point as well.) -/
theorem compose_dim_mismatch (st : Store) (dir : Dir) (a b : Nat) {d' : Nat} (s : HT d) (t : HT d')
    (ha : st[a]? = some (.fam d s)) (hb : st[b]? = some (.fam d' t)) (hne : d' ≠ d) :
    step E st (.compose dir a b) = .error .shape ∧ stepKeep E st (.compose dir a b) = st ∧
    (accepts E (inplaceWith E s.cls) t.cls = true →
      step E st (.inplace dir a b) = .error .shape ∧ stepKeep E st (.inplace dir a b) = st) ∧
    ∀ env x y, applyLeaf E env (.fam d s) x = some y → applyLeaf E env (.fam d' t) y = none := by
  refine ⟨?_, ?_, fun hacc => ⟨?_, ?_⟩, ?_⟩
  · simp [step, composeCell, ha, hb, composesWith_family, nativeCompose_ne s t hne, Except.map]
  · simp [stepKeep, step, composeCell, ha, hb, composesWith_family, nativeCompose_ne s t hne, Except.map]
  · simp [step, inplaceCell, ha, hb, hacc, nativeInplace_ne s t hne, Except.map]
  · simp [stepKeep, step, inplaceCell, ha, hb, hacc, nativeInplace_ne s t hne, Except.map]
  · intro env x y h
    obtain ⟨_, y', _, rfl⟩ := applyFam_some h
    simp only [applyLeaf, applyFam, Vec.toList_length]
    rw [if_neg (Ne.symm hne)]

theorem flat_fam {st : Store} {f r : Nat} {t : HT d} {l : List Leaf}
    (hc : st[r]? = some (.fam d t)) (h : flat st f r = some l) : l = [.fam d t] := by
  cases f with
  | zero => simp [flat] at h
  | succ f => rw [flat, hc] at h; simpa using h.symm

/-- PROPERTY (the law for every kind of operand: family members of any dimension, chains,
thin-plate splines, piecewise affine, dimension slicing): the object returned by
`a.compose_before(b)` denotes "first `a`, then `b`", the object returned by `a.compose_after(b)`
denotes "first `b`, then `a`", whatever the (uninterpreted) leaves do and whatever the dimensions
of the points on the way. -/
theorem step_compose_law (st st' : Store) (hg : Good st) (dir : Dir) (a b r : Nat)
    (h : step E st (.compose dir a b) = .ok (st', some r)) :
    ∀ f l1 l2, flat st f (firstOf dir a b) = some l1 → flat st f (secondOf dir a b) = some l2 →
      ∃ lr, flat st' (f + 1) r = some lr ∧ SeqLaw l1 l2 lr := by
  obtain ⟨c, hc, rfl, hr⟩ := step_compose_ok h
  cases hr
  intro f l1 l2 h1 h2
  have hget : (st ++ [c])[st.length]? = some c := by simp
  cases c with
  | leaf p => exact absurd hc composeCell_not_leaf
  | chain ms =>
    obtain ⟨hlt, hfl⟩ := composeCell_chain hc hg.1
    refine ⟨l1 ++ l2, ?_, seqLaw_append l1 l2⟩
    rw [flat, hget]
    simp only
    rw [flatMembers_congr (fun m hm => flat_append st _ hg.1 f m (hlt m hm))]
    exact hfl f l1 l2 h1 h2
  | fam d rr =>
    obtain ⟨s, t, ha, hb, hl⟩ := composeCell_fam hc
    have is := hg.2 d s (List.mem_of_getElem? ha)
    have it := hg.2 d t (List.mem_of_getElem? hb)
    refine ⟨[.fam d rr], by rw [flat, hget], ?_⟩
    intro env x y z e1 e2
    cases dir
    · have := flat_fam ha h1; subst this
      have := flat_fam hb h2; subst this
      obtain ⟨r', hr', law⟩ := compose_before_law s t is it
      rw [hl] at hr'; cases hr'
      rw [applyLeaves_single] at e1 e2 ⊢
      exact fam_law_pts law e1 e2
    · have := flat_fam hb h1; subst this
      have := flat_fam ha h2; subst this
      obtain ⟨r', hr', law⟩ := compose_after_law s t is it
      rw [hl] at hr'; cases hr'
      rw [applyLeaves_single] at e1 e2 ⊢
      exact fam_law_pts law e1 e2

/-! ### in-place calls -/

theorem inplaceCell_family {tbl : ClassTable} {st : Store} {dir : Dir} {a b : Nat} {s t : HT d}
    (ha : st[a]? = some (.fam d s)) (hb : st[b]? = some (.fam d t)) :
    inplaceCell tbl st dir a b =
      if accepts tbl (inplaceWith tbl s.cls) t.cls then .ok (.fam d ⟨s.cls, rawCompose dir s.M t.M⟩)
      else .error .rejected := by
  simp [inplaceCell, ha, hb, nativeInplace_same]

/-- PROPERTY (in-place gate): `a.compose_*_inplace(b)` on family objects is accepted exactly when
`b` is an instance of `a.composes_inplace_with`; otherwise it raises (`ValueError`) and nothing
changes.  A chain or a plain transform is never accepted by a family object. -/
theorem inplace_gate (st : Store) (dir : Dir) (a b : Nat) (s : HT d) (ha : st[a]? = some (.fam d s)) :
    (∀ t : HT d, st[b]? = some (.fam d t) →
      (accepts E (inplaceWith E s.cls) t.cls = true →
        step E st (.inplace dir a b) = .ok (st.set a (.fam d ⟨s.cls, rawCompose dir s.M t.M⟩), none)) ∧
      (accepts E (inplaceWith E s.cls) t.cls = false →
        step E st (.inplace dir a b) = .error .rejected ∧ stepKeep E st (.inplace dir a b) = st)) ∧
    (∀ ms, st[b]? = some (.chain ms) → step E st (.inplace dir a b) = .error .rejected) ∧
    (∀ p, st[b]? = some (.leaf p) → step E st (.inplace dir a b) = .error .rejected) := by
  refine ⟨fun t hb => ⟨fun hacc => ?_, fun hrej => ?_⟩, fun ms hb => ?_, fun k hb => ?_⟩
  · simp [step, inplaceCell_family ha hb, hacc, Except.map]
  · simp [step, stepKeep, inplaceCell_family ha hb, hrej, Except.map]
  · simp [step, inplaceCell, ha, hb, Except.map]
  · simp [step, inplaceCell, ha, hb, Except.map]

/-- PROPERTY (accepted in-place calls produce the same map and keep the receiver honest):
the receiver keeps its class, its new matrix still really is of that class, it stays invertible,
and it maps `x` to `b(a_orig(x))` (`before`) resp. `a_orig(b(x))` (`after`). -/
theorem inplace_law (dir : Dir) (s t : HT d) (hs : Inv s.cls s.M) (ht : Inv t.cls t.M)
    (hacc : accepts E (inplaceWith E s.cls) t.cls = true) :
    let s' : HT d := ⟨s.cls, rawCompose dir s.M t.M⟩
    Inv s'.cls s'.M ∧ (det s.M ≠ 0 → det t.M ≠ 0 → det s'.M ≠ 0) ∧
    (dir = .before → ∀ x y z, applyHT E s x = some y → applyHT E t y = some z → applyHT E s' x = some z) ∧
    (dir = .after → ∀ x y z, applyHT E t x = some y → applyHT E s y = some z → applyHT E s' x = some z) := by
  intro s'
  have ht' : InvBase (baseOf s.cls) t.M := by
    rcases inplace_accepts hacc with h | ⟨h1, h2⟩
    · exact invBase_mono h ht
    · rw [h1]; apply nuscale_of_uscale; unfold Inv at ht; rwa [h2] at ht
  have hinv : Inv s'.cls s'.M := inv_rawCompose dir hs ht'
  refine ⟨hinv, fun ds dt => det_rawCompose dir ds dt, fun hd x y z e1 e2 => ?_, fun hd x y z e1 e2 => ?_⟩
  · rw [applyHT_eq_proj hs] at e1; rw [applyHT_eq_proj ht] at e2; rw [applyHT_eq_proj hinv]
    subst hd; exact proj_rawCompose .before (fun _ => ⟨e1, e2⟩) (fun h => by cases h)
  · rw [applyHT_eq_proj ht] at e1; rw [applyHT_eq_proj hs] at e2; rw [applyHT_eq_proj hinv]
    subst hd; exact proj_rawCompose .after (fun h => by cases h) (fun _ => ⟨e1, e2⟩)

/-- PROPERTY (in-place composition on a chain): the chain keeps its identity, gains `b` at the end
(`before`) or at the front (`after`) — `b` is *not* flattened when it is a chain itself — and
afterwards denotes the old chain followed / preceded by `b`, provided neither `b` nor a member
contains the chain itself. -/
theorem inplace_chain_law (st : Store) (dir : Dir) (a b : Nat) (ms : List Nat)
    (ha : st[a]? = some (.chain ms)) (hb : b < st.length) :
    step E st (.inplace dir a b) = .ok (st.set a (.chain (chainAdd dir ms b)), none) ∧
    ∀ f la lb, (∀ m ∈ chainAdd dir ms b, reaches st f m a = false) →
      flat st (f + 1) a = some la → flat st f b = some lb →
      flat (st.set a (.chain (chainAdd dir ms b))) (f + 1) a
        = some (match dir with | .before => la ++ lb | .after => lb ++ la) := by
  have hbs : ∃ cb, st[b]? = some cb := ⟨st[b], by simp [hb]⟩
  obtain ⟨cb, hcb⟩ := hbs
  refine ⟨by simp [step, inplaceCell, ha, hcb, Except.map], fun f la lb hnr hla hlb => ?_⟩
  have hlen : a < st.length := lt_of_getElem?_some ha
  rw [flat, List.getElem?_set_self hlen]
  simp only
  rw [flatMembers_congr (fun m hm => flat_set st a _ f m (hnr m hm))]
  rw [flat, ha] at hla
  cases dir
  · exact flatMembers_append hla (flatMembers_single hlb)
  · exact flatMembers_append (ms := [b]) (flatMembers_single hlb) hla

theorem mem_chainAdd {dir : Dir} {ms : List Nat} {b m : Nat} :
    m ∈ chainAdd dir ms b ↔ m ∈ ms ∨ m = b := by
  cases dir <;> simp [chainAdd, or_comm]

/-- PROPERTY (in-place composition on a chain, the side condition stated exactly): in a store in
which no chain contains itself (`Ranked`), `a.compose_*_inplace(b)` on a chain `a`
* if `b` does not contain `a`: leaves the store acyclic, every object keeps a denotation, and `a`
  denotes the old chain followed / preceded by `b` (at every sufficient fuel);
* if `b` contains `a` (in particular `b = a`): is *accepted all the same* (the code only appends
  to a list), but afterwards the store is no longer acyclic and neither `a` nor anything that
  contains `a` — `b` included — denotes a map any more: `TransformChain._apply` recurses until
  Python raises `RecursionError`.
So "the operand does not contain the receiver" is exactly the hypothesis the real code needs. -/
theorem inplace_chain_exact (st : Store) (hwf : WF st) (hr : Ranked st) (dir : Dir) (a b : Nat)
    (ms : List Nat) (ha : st[a]? = some (.chain ms)) (hb : b < st.length) :
    let st' := st.set a (.chain (chainAdd dir ms b))
    step E st (.inplace dir a b) = .ok (st', none) ∧
    ((∀ f, reaches st f b a = false) →
      Ranked st' ∧ (∀ r, r < st'.length → ∃ f l, flat st' f r = some l) ∧
      ∀ f la lb, flat st (f + 1) a = some la → flat st f b = some lb →
        flat st' (f + 1) a = some (match dir with | .before => la ++ lb | .after => lb ++ la)) ∧
    ((∃ f, reaches st f b a = true) →
      ¬ Ranked st' ∧ ∀ g r, (∃ f, reaches st' f r a = true) → flat st' g r = none) := by
  intro st'
  obtain ⟨hstep, hlaw⟩ := inplace_chain_law st dir a b ms ha hb
  have halt : a < st.length := lt_of_getElem?_some ha
  have hget' : st'[a]? = some (.chain (chainAdd dir ms b)) := List.getElem?_set_self halt
  refine ⟨hstep, fun hnb => ?_, fun ⟨f, hf⟩ => ?_⟩
  · have hr' : Ranked st' := ranked_chain_add hr dir ha hnb
    have hwf' : WF st' := by
      intro c hc
      rw [List.length_set]
      rcases List.mem_or_eq_of_mem_set hc with hc | hc
      · exact hwf c hc
      · rw [hc]; intro m hm
        rcases mem_chainAdd.mp hm with hm | hm
        · exact (hwf _ (List.mem_of_getElem? ha)) m hm
        · rw [hm]; exact hb
    refine ⟨hr', fun r hlt => ?_, fun f la lb hla hlb => ?_⟩
    · obtain ⟨rk, hrk⟩ := hr'
      exact ⟨rk r + 1, ranked_flat_total hwf' hrk (rk r) r (Nat.le_refl _) hlt⟩
    · apply hlaw f la lb _ hla hlb
      intro m hm
      rcases mem_chainAdd.mp hm with hm | hm
      · exact ranked_member_not_reaches hr ha hm f
      · rw [hm]; exact hnb f
  · have hb' : b ∈ chainAdd dir ms b := mem_chainAdd.mpr (Or.inr rfl)
    have hf' : reaches st' f b a = true := by rw [reaches_set]; exact hf
    exact ⟨not_ranked_of_cycle hget' hb' hf',
      flat_none_of_cycle st' a _ hget' ⟨b, hb', f, hf'⟩⟩

/-- PROPERTY (chains are not flattened, as coded): composing with a chain operand makes that chain
*one member* of the result (`TransformChain([a, b])`, `a.transforms + [b]`), so the result has
exactly one more member than the receiving chain (two for a non-chain receiver), while what it
denotes is the concatenation of the leaves (`step_compose_law`).  Later in-place edits of the
nested chain are therefore seen through the result. -/
theorem chain_compose_not_flattened (st : Store) (dir : Dir) (a b : Nat) (ns : List Nat)
    (hb : st[b]? = some (.chain ns)) :
    (∀ ms, st[a]? = some (.chain ms) →
      composeCell E st dir a b = .ok (.chain (chainAdd dir ms b)) ∧
      (chainAdd dir ms b).length = ms.length + 1 ∧ b ∈ chainAdd dir ms b) ∧
    (∀ d (s : HT d), st[a]? = some (.fam d s) →
      composeCell E st dir a b = .ok (.chain (orderPair dir a b))) ∧
    (∀ p, st[a]? = some (.leaf p) →
      composeCell E st dir a b = .ok (.chain (orderPair dir a b))) ∧
    (orderPair dir a b).length = 2 := by
  refine ⟨fun ms ha => ⟨by simp [composeCell, ha, hb], ?_, mem_chainAdd.mpr (Or.inr rfl)⟩,
    fun d s ha => by simp [composeCell, ha, hb], fun p ha => by simp [composeCell, ha, hb], ?_⟩
  · cases dir <;> simp [chainAdd]
  · cases dir <;> rfl

/-! ### `compose_after_from_vector_inplace` -/

private theorem own_class_accepted_all :
    ∀ c ∈ HCls.all, accepts E (inplaceWith E c) c = true := by decide +kernel

/-- an object of the receiver's own class always passes the receiver's in-place gate -/
theorem own_class_accepted (c : HCls) : accepts E (inplaceWith E c) c = true :=
  own_class_accepted_all c (HCls.mem_all c)

theorem fromVectorCell_family {st : Store} {a : Nat} {v : List Rat} {s : HT d}
    (ha : st[a]? = some (.fam d s)) :
    fromVectorCell E st a v =
      match fromVec s.cls s.M v with
      | .error e => .error e
      | .ok Mv => .ok (.fam d ⟨s.cls, rawCompose .after s.M Mv⟩) := by
  simp only [fromVectorCell, ha, own_class_accepted, if_true]
  cases fromVec s.cls s.M v <;> rfl

/-- PROPERTY (`compose_after_from_vector_inplace`, law and honesty): on a family receiver `a` the
call is `a.compose_after_inplace(a.from_vector(v))`; the operand is of the receiver's own class, so
the gate never refuses it.  If the vector has the documented length (`fromVec … = ok Mv`) and
`from_vector(v)` is an honest member of the class, then the receiver keeps its class, stays honest
(and invertible if both are), and afterwards maps `x` to `a_orig(from_vector(v)(x))`.  A vector of
another length raises and changes nothing; chains and plain transforms have no such method. -/
theorem fromVector_law (st : Store) (a : Nat) (v : List Rat) :
    (∀ d (s : HT d), st[a]? = some (.fam d s) →
      (∀ Mv, fromVec s.cls s.M v = .ok Mv →
        let s' : HT d := ⟨s.cls, rawCompose .after s.M Mv⟩
        step E st (.fromVector a v) = .ok (st.set a (.fam d s'), none) ∧
        (Inv s.cls s.M → Inv s.cls Mv →
          Inv s'.cls s'.M ∧ (det s.M ≠ 0 → det Mv ≠ 0 → det s'.M ≠ 0) ∧
          ∀ x y z, applyHT E (⟨s.cls, Mv⟩ : HT d) x = some y → applyHT E s y = some z →
            applyHT E s' x = some z)) ∧
      (∀ e, fromVec s.cls s.M v = .error e →
        step E st (.fromVector a v) = .error e ∧ stepKeep E st (.fromVector a v) = st)) ∧
    (∀ ms, st[a]? = some (.chain ms) → step E st (.fromVector a v) = .error .noMethod) ∧
    (∀ p, st[a]? = some (.leaf p) → step E st (.fromVector a v) = .error .noMethod) := by
  refine ⟨fun d s ha => ⟨fun Mv hv => ⟨?_, fun hs hMv => ?_⟩, fun e he => ⟨?_, ?_⟩⟩,
    fun ms ha => ?_, fun p ha => ?_⟩
  · simp [step, fromVectorCell_family ha, hv, Except.map]
  · obtain ⟨h1, h2, _, h4⟩ := inplace_law .after s (⟨s.cls, Mv⟩ : HT d) hs hMv (own_class_accepted s.cls)
    exact ⟨h1, h2, h4 rfl⟩
  · simp [step, fromVectorCell_family ha, he, Except.map]
  · simp [stepKeep, step, fromVectorCell_family ha, he, Except.map]
  · simp [step, fromVectorCell, ha, Except.map]
  · simp [step, fromVectorCell, ha, Except.map]

theorem fromVectorCell_cases {st : Store} {a : Nat} {v : List Rat} {c : Cell}
    (h : fromVectorCell E st a v = .ok c) :
    ∃ (d : Nat) (s : HT d) (Mv : Mat (d + 1)), st[a]? = some (.fam d s) ∧
      fromVec s.cls s.M v = .ok Mv ∧ c = .fam d ⟨s.cls, rawCompose .after s.M Mv⟩ := by
  cases ha : st[a]? with
  | none => simp [fromVectorCell, ha] at h
  | some ca =>
    cases ca with
    | fam d s =>
      rw [fromVectorCell_family ha] at h
      cases hv : fromVec s.cls s.M v with
      | error e => simp [hv] at h
      | ok Mv =>
        simp only [hv, Except.ok.injEq] at h
        exact ⟨d, s, Mv, rfl, hv, h.symm⟩
    | chain ms => simp [fromVectorCell, ha] at h
    | leaf p => simp [fromVectorCell, ha] at h

/-! ### programs -/

theorem good_append {st : Store} {c : Cell} (hg : Good st) (hw : WFCell st.length c)
    (hi : ∀ d (t : HT d), c = .fam d t → Inv t.cls t.M) : Good (st ++ [c]) := by
  constructor
  · intro x hx
    simp only [List.mem_append, List.mem_singleton, List.length_append, List.length_cons,
      List.length_nil] at hx ⊢
    rcases hx with hx | hx
    · exact (hg.1 x hx).mono (Nat.le_succ _)
    · rw [hx]; exact hw.mono (Nat.le_succ _)
  · intro d t ht
    simp only [List.mem_append, List.mem_singleton] at ht
    rcases ht with ht | ht
    · exact hg.2 d t ht
    · exact hi d t ht.symm

theorem good_set {st : Store} {a : Nat} {c : Cell} (hg : Good st) (hw : WFCell st.length c)
    (hi : ∀ d (t : HT d), c = .fam d t → Inv t.cls t.M) : Good (st.set a c) := by
  constructor
  · intro x hx
    rw [List.length_set]
    rcases List.mem_or_eq_of_mem_set hx with hx | hx
    · exact hg.1 x hx
    · rw [hx]; exact hw
  · intro d t ht
    rcases List.mem_or_eq_of_mem_set ht with ht | ht
    · exact hg.2 d t ht
    · exact hi d t ht.symm

theorem inplaceCell_cases {st : Store} {dir : Dir} {a b : Nat} {c : Cell}
    (h : inplaceCell E st dir a b = .ok c) :
    (∃ (d : Nat) (s t : HT d), st[a]? = some (.fam d s) ∧ st[b]? = some (.fam d t) ∧
      accepts E (inplaceWith E s.cls) t.cls = true ∧ c = .fam d ⟨s.cls, rawCompose dir s.M t.M⟩) ∨
    (∃ ms, st[a]? = some (.chain ms) ∧ c = .chain (chainAdd dir ms b)) := by
  unfold inplaceCell at h
  cases ha : st[a]? with
  | none => simp [ha] at h
  | some ca =>
    cases hb : st[b]? with
    | none => cases ca <;> simp [ha, hb] at h
    | some cb =>
      cases ca with
      | fam d s =>
        cases cb with
        | fam d' t =>
          simp only [ha, hb] at h
          by_cases hacc : accepts E (inplaceWith E s.cls) t.cls = true
          · simp only [hacc, if_true] at h
            by_cases e : d' = d
            · subst e
              rw [nativeInplace_same] at h
              simp only [Except.ok.injEq] at h
              exact Or.inl ⟨_, s, t, rfl, rfl, hacc, h.symm⟩
            · rw [nativeInplace_ne s t e] at h; cases h
          · simp [hacc] at h
        | chain ns => simp [ha, hb] at h
        | leaf p => simp [ha, hb] at h
      | leaf p => simp [ha, hb] at h
      | chain ms0 =>
        simp only [ha, hb, Except.ok.injEq] at h
        exact Or.inr ⟨ms0, rfl, h.symm⟩

/-- The side condition of a statement.  Non-in-place calls and in-place calls on family objects
have none.  `compose_after_from_vector_inplace` needs a parameter vector that describes an honest,
invertible member of the class (e.g. a non-zero scale factor); an in-place call on a chain needs
an operand that does not contain the chain. -/
def Proper (st : Store) : Stmt → Prop
  | .compose _ _ _ => True
  | .inplace _ a b => ∀ ms, st[a]? = some (.chain ms) → ∀ f, reaches st f b a = false
  | .fromVector a v => ∀ (d : Nat) (s : HT d) (Mv : Mat (d + 1)), st[a]? = some (.fam d s) →
      fromVec s.cls s.M v = .ok Mv → Inv s.cls Mv ∧ det Mv ≠ 0

/-- every statement meets its side condition in the state in which it is executed -/
def ProperRun (st : Store) : List Stmt → Prop
  | [] => True
  | s :: ss => Proper st s ∧ ProperRun (stepKeep E st s) ss

/-- every statement keeps the store good -/
theorem step_good (st st' : Store) (hg : Good st) (s : Stmt) (hp : Proper st s) (r : Option Nat)
    (h : step E st s = .ok (st', r)) : Good st' := by
  cases s with
  | compose dir a b =>
    obtain ⟨c, hc, rfl, _⟩ := step_compose_ok h
    apply good_append hg
    · cases c with
      | fam d t => trivial
      | leaf k => trivial
      | chain ms => exact (composeCell_chain hc hg.1).1
    · intro d t ht; subst ht
      obtain ⟨s, t', ha, hb, hl⟩ := composeCell_fam hc
      obtain ⟨r', hr', _, hinv, _⟩ := compose_closed_sound dir s t'
        (hg.2 d s (List.mem_of_getElem? ha)) (hg.2 d t' (List.mem_of_getElem? hb))
      rw [hl] at hr'; cases hr'; exact hinv
  | inplace dir a b =>
    obtain ⟨c, hc, rfl, _⟩ := step_inplace_ok h
    obtain ⟨_, hlb⟩ := inplaceCell_refs hc
    rcases inplaceCell_cases hc with ⟨d, s, t, ha, hb, hacc, rfl⟩ | ⟨ms, ha, rfl⟩
    · refine good_set hg (show WFCell st.length (Cell.fam _ _) from trivial) ?_
      intro d' t' ht'; cases ht'
      exact (inplace_law dir s t (hg.2 d s (List.mem_of_getElem? ha)) (hg.2 d t (List.mem_of_getElem? hb)) hacc).1
    · apply good_set hg _ (fun d t ht => by cases ht)
      have hms : ∀ m ∈ ms, m < st.length := by
        have := hg.1 _ (List.mem_of_getElem? ha); simpa [WFCell] using this
      intro m hm
      rcases mem_chainAdd.mp hm with hm | hm
      · exact hms m hm
      · rw [hm]; exact hlb
  | fromVector a v =>
    obtain ⟨c, hc, rfl, _⟩ := step_fromVector_ok h
    obtain ⟨d, s, Mv, ha, hv, rfl⟩ := fromVectorCell_cases hc
    refine good_set hg (show WFCell st.length (Cell.fam _ _) from trivial) ?_
    intro d' t' ht'; cases ht'
    have hs := hg.2 d s (List.mem_of_getElem? ha)
    exact (inplace_law .after s (⟨s.cls, Mv⟩ : HT d) hs (hp d s Mv ha hv).1 (own_class_accepted s.cls)).1

theorem step_invertible (st st' : Store) (hg : Good st) (hi : AllInvertible st) (s : Stmt)
    (hp : Proper st s) (r : Option Nat) (h : step E st s = .ok (st', r)) : AllInvertible st' := by
  cases s with
  | compose dir a b =>
    obtain ⟨c, hc, rfl, _⟩ := step_compose_ok h
    intro d t ht
    simp only [List.mem_append, List.mem_singleton] at ht
    rcases ht with ht | ht
    · exact hi d t ht
    · subst ht
      obtain ⟨s, t', ha, hb, hl⟩ := composeCell_fam hc
      obtain ⟨r', hr', _, _, hdet⟩ := compose_closed_sound dir s t'
        (hg.2 d s (List.mem_of_getElem? ha)) (hg.2 d t' (List.mem_of_getElem? hb))
      rw [hl] at hr'; cases hr'
      exact hdet (hi d s (List.mem_of_getElem? ha)) (hi d t' (List.mem_of_getElem? hb))
  | inplace dir a b =>
    obtain ⟨c, hc, rfl, _⟩ := step_inplace_ok h
    intro d t ht
    rcases List.mem_or_eq_of_mem_set ht with ht | ht
    · exact hi d t ht
    · rcases inplaceCell_cases hc with ⟨d', s, t', ha, hb, hacc, rfl⟩ | ⟨ms, ha, rfl⟩
      · cases ht
        exact det_rawCompose dir (hi _ s (List.mem_of_getElem? ha)) (hi _ t' (List.mem_of_getElem? hb))
      · cases ht
  | fromVector a v =>
    obtain ⟨c, hc, rfl, _⟩ := step_fromVector_ok h
    obtain ⟨d', s, Mv, ha, hv, rfl⟩ := fromVectorCell_cases hc
    intro d t ht
    rcases List.mem_or_eq_of_mem_set ht with ht | ht
    · exact hi d t ht
    · cases ht
      exact det_rawCompose .after (hi _ s (List.mem_of_getElem? ha)) (hp _ s Mv ha hv).2

/-- every statement keeps an acyclic store acyclic -/
theorem step_ranked (st st' : Store) (hwf : WF st) (hr : Ranked st) (s : Stmt) (hp : Proper st s)
    (r : Option Nat) (h : step E st s = .ok (st', r)) : Ranked st' := by
  cases s with
  | compose dir a b =>
    obtain ⟨c, hc, rfl, _⟩ := step_compose_ok h
    apply ranked_append hwf hr
    cases c with
    | fam d t => trivial
    | leaf k => trivial
    | chain ms => exact (composeCell_chain hc hwf).1
  | inplace dir a b =>
    obtain ⟨c, hc, rfl, _⟩ := step_inplace_ok h
    rcases inplaceCell_cases hc with ⟨d, s, t, ha, hb, hacc, rfl⟩ | ⟨ms, ha, rfl⟩
    · exact ranked_set_nonchain hr a (fun ms hms => by cases hms)
    · exact ranked_chain_add hr dir ha (hp ms ha)
  | fromVector a v =>
    obtain ⟨c, hc, rfl, _⟩ := step_fromVector_ok h
    obtain ⟨d, s, Mv, ha, hv, rfl⟩ := fromVectorCell_cases hc
    exact ranked_set_nonchain hr a (fun ms hms => by cases hms)

theorem stepKeep_good (st : Store) (hg : Good st) (s : Stmt) (hp : Proper st s) :
    Good (stepKeep E st s) := by
  unfold stepKeep
  cases h : step E st s with
  | error e => exact hg
  | ok p => exact step_good st p.1 hg s hp p.2 h

theorem stepKeep_invertible (st : Store) (hg : Good st) (hi : AllInvertible st) (s : Stmt)
    (hp : Proper st s) : AllInvertible (stepKeep E st s) := by
  unfold stepKeep
  cases h : step E st s with
  | error e => exact hi
  | ok p => exact step_invertible st p.1 hg hi s hp p.2 h

theorem stepKeep_ranked (st : Store) (hwf : WF st) (hr : Ranked st) (s : Stmt) (hp : Proper st s) :
    Ranked (stepKeep E st s) := by
  unfold stepKeep
  cases h : step E st s with
  | error e => exact hr
  | ok p => exact step_ranked st p.1 hwf hr s hp p.2 h

/-- PROPERTY (honesty along every program): starting from honest, invertible objects none of which
contains itself, after *any* finite sequence of compose calls (left/right, in-place or not, with an
object or with a parameter vector, accepted or refused) whose statements meet their side condition
(`Proper`: honest parameter vectors, no chain appended to itself) every family object in the
store — operands, results of non-in-place calls, receivers of in-place calls — still really is of
the class it reports, and is invertible; no reference dangles; no chain contains itself; and every
object denotes a map (its flattening terminates). -/
theorem prog_honest (st : Store) (hg : Good st) (hi : AllInvertible st) (hr : Ranked st)
    (ss : List Stmt) (hp : ProperRun st ss) :
    Good (runStmts E st ss) ∧ AllInvertible (runStmts E st ss) ∧ Ranked (runStmts E st ss) ∧
    ∀ r, r < (runStmts E st ss).length → ∃ f l, flat (runStmts E st ss) f r = some l := by
  induction ss generalizing st with
  | nil =>
    refine ⟨hg, hi, hr, fun r hlt => ?_⟩
    obtain ⟨rk, hrk⟩ := hr
    exact ⟨rk r + 1, ranked_flat_total hg.1 hrk (rk r) r (Nat.le_refl _) hlt⟩
  | cons s ss ih =>
    simp only [runStmts, List.foldl_cons]
    exact ih (stepKeep E st s) (stepKeep_good st hg s hp.1) (stepKeep_invertible st hg hi s hp.1)
      (stepKeep_ranked st hg.1 hr s hp.1) hp.2

/-- what each statement guarantees in the state in which it is executed -/
def StepLaw (st : Store) : Stmt → Prop
  | .compose dir a b => ∀ st' r, step E st (.compose dir a b) = .ok (st', some r) →
      (∀ i, i < st.length → st'[i]? = st[i]?) ∧
      (∀ f i, i < st.length → flat st' f i = flat st f i) ∧
      ∀ f l1 l2, flat st f (firstOf dir a b) = some l1 → flat st f (secondOf dir a b) = some l2 →
        ∃ lr, flat st' (f + 1) r = some lr ∧ SeqLaw l1 l2 lr
  | .inplace dir a b => ∀ st' r, step E st (.inplace dir a b) = .ok (st', r) →
      (∀ i, i ≠ a → st'[i]? = st[i]?) ∧
      ((∃ (d : Nat) (s t s' : HT d), st[a]? = some (.fam d s) ∧ st[b]? = some (.fam d t) ∧
          st'[a]? = some (.fam d s') ∧ s'.cls = s.cls ∧
          ∀ x y z, applyHT E (match dir with | .before => s | .after => t) x = some y →
            applyHT E (match dir with | .before => t | .after => s) y = some z →
            applyHT E s' x = some z) ∨
       (∃ ms, st[a]? = some (.chain ms) ∧ st'[a]? = some (.chain (chainAdd dir ms b)) ∧
          ∀ f la lb, (∀ m ∈ chainAdd dir ms b, reaches st f m a = false) →
            flat st (f + 1) a = some la → flat st f b = some lb →
            flat st' (f + 1) a = some (match dir with | .before => la ++ lb | .after => lb ++ la)))
  | .fromVector a v => ∀ st' r, step E st (.fromVector a v) = .ok (st', r) →
      (∀ i, i ≠ a → st'[i]? = st[i]?) ∧
      ∃ (d : Nat) (s s' : HT d) (Mv : Mat (d + 1)), st[a]? = some (.fam d s) ∧
        fromVec s.cls s.M v = .ok Mv ∧ st'[a]? = some (.fam d s') ∧ s'.cls = s.cls ∧
        (Inv s.cls Mv → ∀ x y z, applyHT E (⟨s.cls, Mv⟩ : HT d) x = some y →
          applyHT E s y = some z → applyHT E s' x = some z)

theorem step_law (st : Store) (hg : Good st) (s : Stmt) : StepLaw st s := by
  cases s with
  | compose dir a b =>
    intro st' r h
    obtain ⟨_, h2, h3⟩ := compose_frame st st' dir a b (some r) h
    exact ⟨h2, h3 hg.1, step_compose_law st st' hg dir a b r h⟩
  | inplace dir a b =>
    intro st' r h
    obtain ⟨_, _, hfr⟩ := (inplace_frame st st' _ r h).1 dir a b rfl
    refine ⟨hfr, ?_⟩
    obtain ⟨c, hc, rfl, _⟩ := step_inplace_ok h
    obtain ⟨hla, hlb⟩ := inplaceCell_refs hc
    rcases inplaceCell_cases hc with ⟨d, s, t, ha, hb, hacc, rfl⟩ | ⟨ms, ha, rfl⟩
    · left
      obtain ⟨_, _, lb, la⟩ := inplace_law dir s t (hg.2 d s (List.mem_of_getElem? ha))
        (hg.2 d t (List.mem_of_getElem? hb)) hacc
      refine ⟨d, s, t, _, ha, hb, List.getElem?_set_self hla, rfl, ?_⟩
      cases dir
      · exact lb rfl
      · exact la rfl
    · right
      exact ⟨ms, ha, List.getElem?_set_self hla, (inplace_chain_law st dir a b ms ha hlb).2⟩
  | fromVector a v =>
    intro st' r h
    obtain ⟨_, _, hfr⟩ := (inplace_frame st st' _ r h).2 a v rfl
    refine ⟨hfr, ?_⟩
    obtain ⟨c, hc, rfl, _⟩ := step_fromVector_ok h
    obtain ⟨d, s, Mv, ha, hv, rfl⟩ := fromVectorCell_cases hc
    have hla : a < st.length := lt_of_getElem?_some ha
    refine ⟨d, s, _, Mv, ha, hv, List.getElem?_set_self hla, rfl, fun hMv => ?_⟩
    obtain ⟨_, _, _, la⟩ := inplace_law .after s (⟨s.cls, Mv⟩ : HT d)
      (hg.2 d s (List.mem_of_getElem? ha)) hMv (own_class_accepted s.cls)
    exact la rfl

theorem runStmts_append (st : Store) (p q : List Stmt) :
    runStmts E st (p ++ q) = runStmts E (runStmts E st p) q := by
  simp [runStmts, List.foldl_append]

theorem properRun_append {st : Store} {p q : List Stmt} (h : ProperRun st (p ++ q)) :
    ProperRun st p ∧ ProperRun (runStmts E st p) q := by
  induction p generalizing st with
  | nil => exact ⟨trivial, h⟩
  | cons s ss ih =>
    obtain ⟨h1, h2⟩ := h
    obtain ⟨h3, h4⟩ := ih h2
    exact ⟨⟨h1, h3⟩, h4⟩

/-- PROPERTY (`prog_denotation`, induction over programs): in every finite program of compose
calls — left/right, in-place or not, with a parameter vector, on family members of any dimension,
chains, `WithDims` and opaque transforms alike — run from honest objects, *each* call obeys its
law in the state in which it is executed: the result of a non-in-place call denotes the
sequential composition of what its operands denote at that moment and all existing objects are
untouched; an accepted in-place call changes only its receiver, which then denotes the prescribed
composition. -/
theorem prog_denotation (st : Store) (hg : Good st) (pre : List Stmt) (s : Stmt) (post : List Stmt)
    (hp : ProperRun st pre) :
    Good (runStmts E st pre) ∧ StepLaw (runStmts E st pre) s ∧
    runStmts E st (pre ++ s :: post) = runStmts E (stepKeep E (runStmts E st pre) s) post := by
  have hgood : ∀ (ss : List Stmt) (st : Store), Good st → ProperRun st ss → Good (runStmts E st ss) := by
    intro ss
    induction ss with
    | nil => intro st h _; exact h
    | cons s ss ih => intro st h hp; exact ih _ (stepKeep_good st h s hp.1) hp.2
  refine ⟨hgood pre st hg hp, step_law _ (hgood pre st hg hp) s, ?_⟩
  rw [runStmts_append]; rfl

/-! ### aliasing and identity along whole programs -/

/-- the object a statement may change: the receiver of an in-place call -/
def Stmt.receiver : Stmt → Option Nat
  | .compose _ _ _ => none
  | .inplace _ a _ => some a
  | .fromVector a _ => some a

/-- what never changes about an object: its kind, and for a family object its dimension and class -/
def Cell.tag : Cell → Option (Option (Nat × HCls))
  | .fam d t => some (some (d, t.cls))
  | .chain _ => some none
  | .leaf _ => none

theorem stepKeep_frame (st : Store) (s : Stmt) (i : Nat) (hi : i < st.length)
    (hr : s.receiver ≠ some i) : (stepKeep E st s)[i]? = st[i]? := by
  unfold stepKeep
  cases h : step E st s with
  | error e => rfl
  | ok p =>
    obtain ⟨st', r⟩ := p
    cases s with
    | compose dir a b => exact (compose_frame st st' dir a b r h).2.1 i hi
    | inplace dir a b =>
      exact ((inplace_frame st st' _ r h).1 dir a b rfl).2.2 i (fun e => hr (by rw [e]; rfl))
    | fromVector a v =>
      exact ((inplace_frame st st' _ r h).2 a v rfl).2.2 i (fun e => hr (by rw [e]; rfl))

theorem stepKeep_length_le (st : Store) (s : Stmt) : st.length ≤ (stepKeep E st s).length := by
  unfold stepKeep
  cases h : step E st s with
  | error e => exact Nat.le_refl _
  | ok p =>
    obtain ⟨st', r⟩ := p
    cases s with
    | compose dir a b =>
      obtain ⟨⟨c, rfl, _⟩, _⟩ := compose_frame st st' dir a b r h
      simp
    | inplace dir a b =>
      have := ((inplace_frame st st' _ r h).1 dir a b rfl).2.1
      simp only; omega
    | fromVector a v =>
      have := ((inplace_frame st st' _ r h).2 a v rfl).2.1
      simp only; omega

/-- PROPERTY (operands intact along every program): an object that is never the receiver of an
in-place call is, after any finite sequence of compose calls — in which it may have been an operand
any number of times, a member of chains that were extended, the argument of refused calls — the
very same cell (dimension, class, matrix, member list) it was at the start. -/
theorem prog_frame (st : Store) (ss : List Stmt) (i : Nat) (hi : i < st.length)
    (hr : ∀ s ∈ ss, s.receiver ≠ some i) : (runStmts E st ss)[i]? = st[i]? := by
  induction ss generalizing st with
  | nil => rfl
  | cons s ss ih =>
    simp only [runStmts, List.foldl_cons]
    have h1 := stepKeep_frame st s i hi (hr s (by simp))
    have h2 := ih (stepKeep E st s) (Nat.lt_of_lt_of_le hi (stepKeep_length_le st s))
      (fun s' hs' => hr s' (by simp [hs']))
    simp only [runStmts] at h2
    rw [h2, h1]

theorem stepKeep_tag (st : Store) (s : Stmt) (i : Nat) (hi : i < st.length) :
    ((stepKeep E st s)[i]?).map Cell.tag = (st[i]?).map Cell.tag := by
  by_cases hr : s.receiver = some i
  · unfold stepKeep
    cases h : step E st s with
    | error e => rfl
    | ok p =>
      obtain ⟨st', r⟩ := p
      cases s with
      | compose dir a b => cases hr
      | inplace dir a b =>
        have : a = i := by simpa [Stmt.receiver] using hr
        subst this
        obtain ⟨c, hc, rfl, _⟩ := step_inplace_ok h
        simp only [List.getElem?_set_self hi]
        rcases inplaceCell_cases hc with ⟨d, s, t, ha, hb, hacc, rfl⟩ | ⟨ms, ha, rfl⟩ <;> simp [ha, Cell.tag]
      | fromVector a v =>
        have : a = i := by simpa [Stmt.receiver] using hr
        subst this
        obtain ⟨c, hc, rfl, _⟩ := step_fromVector_ok h
        obtain ⟨d, s, Mv, ha, hv, rfl⟩ := fromVectorCell_cases hc
        simp [List.getElem?_set_self hi, ha, Cell.tag]
  · rw [stepKeep_frame st s i hi hr]

/-- PROPERTY (identity is stable along every program): whatever is called on it, an object keeps
its kind (family member / chain / plain transform) and a family object keeps its dimension and its
class — an in-place call never turns a `Rotation` into a `Similarity`, a chain into a family
member, a 2-D object into a 3-D one. -/
theorem prog_class_stable (st : Store) (ss : List Stmt) (i : Nat) (hi : i < st.length) :
    ((runStmts E st ss)[i]?).map Cell.tag = (st[i]?).map Cell.tag := by
  induction ss generalizing st with
  | nil => rfl
  | cons s ss ih =>
    simp only [runStmts, List.foldl_cons]
    have h2 := ih (stepKeep E st s) (Nat.lt_of_lt_of_le hi (stepKeep_length_le st s))
    simp only [runStmts] at h2
    rw [h2, stepKeep_tag st s i hi]

/-! ## dimensions: every object is typed by the dimension it accepts and the dimension it returns -/

/-- the interpretation of the opaque transforms respects their declared typing -/
def EnvTyped (env : Nat → Pt → Option Pt) (envDim : Nat → Nat → Option Nat) : Prop :=
  ∀ k x y, env k x = some y → envDim k x.length = some y.length

theorem applyLeaf_dim {env : Nat → Pt → Option Pt} {envDim : Nat → Nat → Option Nat}
    (he : EnvTyped env envDim) {l : Leaf} {x y : Pt} (h : applyLeaf E env l x = some y) :
    leafDim envDim l x.length = some y.length := by
  cases l with
  | fam d t =>
    obtain ⟨hx, y', _, rfl⟩ := applyFam_some h
    simp [leafDim, hx, Vec.toList_length]
  | plain p =>
    cases p with
    | opq k => exact he k x y h
    | withDims ds =>
      simp only [applyLeaf] at h
      have hall := pick_some_iff.mp ⟨y, h⟩
      simp only [leafDim, hall, if_true, pick_length h]
    | withMask bs =>
      simp only [applyLeaf] at h
      by_cases hl : bs.length = x.length
      · simp only [hl, if_true, Option.some.injEq] at h
        subst h
        simp only [leafDim, hl, if_true, maskPick_length bs x hl]
      · simp [hl] at h
    | withIdx ds =>
      simp only [applyLeaf] at h
      cases hn : normAll x.length ds with
      | none => simp [hn] at h
      | some is =>
        simp only [hn, Option.bind_some] at h
        simp only [leafDim, hn, Option.map_some, pick_length h]
    | withSlice a b c =>
      simp only [applyLeaf] at h
      cases hn : PyData.sliceIndices a b c x.length with
      | none => simp [hn] at h
      | some is =>
        simp only [hn, Option.bind_some] at h
        simp only [leafDim, hn, Option.map_some, pick_length h]

/-- PROPERTY (dimension typing is sound): whenever a chain of leaves — family members of any
dimensions, `WithDims` slicers (index lists and Boolean masks), opaque transforms — maps a point `x` to `y`, the dimension
calculus `leavesDim` predicts the dimension of `y` from that of `x`; in particular an application
the calculus rejects (a 2-D transform after a 3-D one without a slicer in between, an index beyond
the dimension) raises on every point. -/
theorem apply_dim_sound {env : Nat → Pt → Option Pt} {envDim : Nat → Nat → Option Nat}
    (he : EnvTyped env envDim) (ls : List Leaf) (x y : Pt)
    (h : applyLeaves E env ls x = some y) : leavesDim envDim ls x.length = some y.length := by
  induction ls generalizing x with
  | nil => simp only [applyLeaves, Option.some.injEq] at h; subst h; rfl
  | cons l ls ih =>
    simp only [applyLeaves] at h
    cases hl : applyLeaf E env l x with
    | none => simp [hl] at h
    | some z =>
      simp only [hl, Option.bind_some] at h
      simp only [leavesDim, applyLeaf_dim he hl, Option.bind_some]
      exact ih z h

/-- leaves on which application never fails for a point of the right dimension: members of the
affine family and `WithDims` -/
def AffineLeaf : Leaf → Prop
  | .fam _ t => isSub E t.cls .Affine = true
  | .plain (.withDims _) => True
  | .plain (.withMask _) => True
  | .plain (.withIdx _) => True
  | .plain (.withSlice _ _ _) => True
  | .plain (.opq _) => False

theorem applyFam_affine {t : HT d} (hc : isSub E t.cls .Affine = true) {x : Pt} (hx : x.length = d) :
    applyFam E t x = some (affApply t.M (Vec.ofList d x)).toList := by
  simp [applyFam, hx, applyHT, hc]

/-- PROPERTY (well-typed affine chains are total): if the dimension calculus accepts a chain built
from affine-family members and `WithDims` slicers at input dimension `n` with output dimension
`m`, then the chain maps *every* `n`-dimensional point to an `m`-dimensional point. -/
theorem apply_total_affine (env : Nat → Pt → Option Pt) (envDim : Nat → Nat → Option Nat)
    (ls : List Leaf) (hl : ∀ l ∈ ls, AffineLeaf l) (n m : Nat)
    (hd : leavesDim envDim ls n = some m) (x : Pt) (hx : x.length = n) :
    ∃ y, applyLeaves E env ls x = some y ∧ y.length = m := by
  induction ls generalizing n x with
  | nil => simp only [leavesDim, Option.some.injEq] at hd; exact ⟨x, rfl, by omega⟩
  | cons l ls ih =>
    have hl0 := hl l (by simp)
    simp only [leavesDim] at hd
    cases hk : leafDim envDim l n with
    | none => simp [hk] at hd
    | some k =>
      simp only [hk, Option.bind_some] at hd
      have step1 : ∃ z, applyLeaf E env l x = some z ∧ z.length = k := by
        cases l with
        | fam d t =>
          simp only [leafDim] at hk
          by_cases hnd : n = d
          · simp only [hnd, if_true, Option.some.injEq] at hk
            refine ⟨_, applyFam_affine hl0 (by omega), ?_⟩
            rw [Vec.toList_length]; exact hk
          · simp [hnd] at hk
        | plain p =>
          cases p with
          | opq k' => exact hl0.elim
          | withDims ds =>
            simp only [leafDim] at hk
            by_cases hall : ds.all (· < n) = true
            · simp only [hall, if_true, Option.some.injEq] at hk
              obtain ⟨z, hz⟩ := pick_some_iff.mpr (by rw [hx]; exact hall)
              exact ⟨z, hz, by rw [pick_length hz]; exact hk⟩
            · simp [hall] at hk
          | withMask bs =>
            simp only [leafDim] at hk
            by_cases hlen : bs.length = n
            · simp only [hlen, if_true, Option.some.injEq] at hk
              have hlx : bs.length = x.length := by omega
              exact ⟨maskPick bs x, by simp [applyLeaf, hlx], by rw [maskPick_length bs x hlx]; exact hk⟩
            · simp [hlen] at hk
          | withIdx ds =>
            simp only [leafDim] at hk
            cases hn : normAll n ds with
            | none => simp [hn] at hk
            | some is =>
              simp only [hn, Option.map_some, Option.some.injEq] at hk
              obtain ⟨_, hb⟩ := normAll_spec hn
              obtain ⟨z, hz, hzl⟩ := pick_of_lt (is := is) (x := x) (by rw [hx]; exact hb)
              exact ⟨z, by simp [applyLeaf, hx, hn, hz], by omega⟩
          | withSlice a b c =>
            simp only [leafDim] at hk
            cases hn : PyData.sliceIndices a b c n with
            | none => simp [hn] at hk
            | some is =>
              simp only [hn, Option.map_some, Option.some.injEq] at hk
              have hb := sliceIndices_in_range a b c n is hn
              obtain ⟨z, hz, hzl⟩ := pick_of_lt (is := is) (x := x) (by rw [hx]; exact hb)
              exact ⟨z, by simp [applyLeaf, hx, hn, hz], by omega⟩
      obtain ⟨z, hz, hzl⟩ := step1
      obtain ⟨y, hy, hyl⟩ := ih (fun l' hl' => hl l' (by simp [hl'])) k hd z hzl
      exact ⟨y, by simp [applyLeaves, hz, hy], hyl⟩

/-- PROPERTY (composition composes the types): the object returned by a non-in-place call is typed
by the composition of the types of its operands — `n ↦ (type of first)(n) >>= type of second` — for
native results and chains alike; through a `WithDims` the dimension changes accordingly. -/
theorem step_compose_dims (st st' : Store) (hg : Good st) (dir : Dir) (a b r : Nat)
    (h : step E st (.compose dir a b) = .ok (st', some r)) :
    ∀ f l1 l2, flat st f (firstOf dir a b) = some l1 → flat st f (secondOf dir a b) = some l2 →
      ∃ lr, flat st' (f + 1) r = some lr ∧
        ∀ envDim n, leavesDim envDim lr n = (leavesDim envDim l1 n).bind (leavesDim envDim l2) := by
  obtain ⟨c, hc, rfl, hr⟩ := step_compose_ok h
  cases hr
  intro f l1 l2 h1 h2
  have hget : (st ++ [c])[st.length]? = some c := by simp
  cases c with
  | leaf p => exact absurd hc composeCell_not_leaf
  | chain ms =>
    obtain ⟨hlt, hfl⟩ := composeCell_chain hc hg.1
    refine ⟨l1 ++ l2, ?_, fun envDim n => leavesDim_append envDim l1 l2 n⟩
    rw [flat, hget]
    simp only
    rw [flatMembers_congr (fun m hm => flat_append st _ hg.1 f m (hlt m hm))]
    exact hfl f l1 l2 h1 h2
  | fam d rr =>
    obtain ⟨s, t, ha, hb, hl⟩ := composeCell_fam hc
    refine ⟨[.fam d rr], by rw [flat, hget], ?_⟩
    intro envDim n
    have e1 : l1 = [.fam d s] ∨ l1 = [.fam d t] := by
      cases dir
      · exact Or.inl (flat_fam ha h1)
      · exact Or.inr (flat_fam hb h1)
    have e2 : l2 = [.fam d s] ∨ l2 = [.fam d t] := by
      cases dir
      · exact Or.inr (flat_fam hb h2)
      · exact Or.inl (flat_fam ha h2)
    rcases e1 with rfl | rfl <;> rcases e2 with rfl | rfl <;>
      by_cases hn : n = d <;> simp [leavesDim, leafDim, hn]

/-! ## decomposition -/

open Matrix

theorem mkAffine_mul (L1 L2 : Mat d) (t1 t2 : Vec d) :
    Mat.mul (mkAffine L1 t1) (mkAffine L2 t2)
      = mkAffine (Mat.mul L1 L2) ⟨fun i => (∑ k, L1 i k * t2 k) + t1 i⟩ := by
  apply affine_ext (isAffine_mul (isAffine_mkAffine _ _) (isAffine_mkAffine _ _)) (isAffine_mkAffine _ _)
  · rw [lin_mul (isAffine_mkAffine _ _)]; simp
  · rw [trans_mul (isAffine_mkAffine _ _)]; simp

theorem affApply_mul {A B : Mat (d + 1)} (hA : IsAffine A) (hB : IsAffine B) (x : Vec d) :
    affApply (Mat.mul A B) x = affApply A (affApply B x) := by
  have h := projApply_mul (projApply_affine hB x) (projApply_affine hA (affApply B x))
  rw [projApply_affine (isAffine_mul hA hB)] at h
  exact Option.some.inj h

theorem Vec.head_eq (s : Vec (d + 1)) : s.head = s 0 := by
  simp [Vec.head]

/-- with all factors equal to `s[0]` the uniform scale matrix is the diagonal matrix -/
theorem scalarMat_head {s : Vec d} (hu : ∀ i, s i = s.head) : scalarMat d s.head = diagMat s := by
  apply Mat.ext; intro i j
  by_cases h : i = j
  · subst h; simp [scalarMat, diagMat, hu i]
  · simp [scalarMat, diagMat, h]

theorem scaleFactory_false (s : Vec d) :
    scaleFactory s false = ⟨.NonUniformScale, mkAffine (diagMat s) (zeroVec d)⟩ := rfl

theorem scaleFactory_true (s : Vec d) :
    scaleFactory s true = ⟨.UniformScale, mkAffine (scalarMat d s.head) (zeroVec d)⟩ := rfl

theorem scaleFactory_M {s : Vec d} {uniform : Bool} (hu : uniform = true → ∀ i, s i = s.head) :
    (scaleFactory s uniform).M = mkAffine (diagMat s) (zeroVec d) := by
  cases uniform
  · rfl
  · simp only [scaleFactory, if_true]; rw [scalarMat_head (hu rfl)]

theorem scaleFactory_affine (s : Vec d) (uniform : Bool) :
    isSub E (scaleFactory s uniform).cls .Affine = true := by
  cases uniform <;> rfl

/-- a family leaf of the affine family consumes a typed point -/
theorem applyLeaves_affine_cons (env : Nat → Pt → Option Pt) {t : HT d}
    (hc : isSub E t.cls .Affine = true) (ls : List Leaf) (X : Vec d) :
    applyLeaves E env (.fam d t :: ls) X.toList = applyLeaves E env ls (affApply t.M X).toList := by
  simp only [applyLeaves, applyLeaf, applyFam_affine hc (Vec.toList_length X), Vec.ofList_toList,
    Option.bind_some]

/-- PROPERTY (decomposition recomposes): if the factors numpy's SVD returned satisfy their contract
`L = U · diag(s) · V` and the `Scale` factory built a `UniformScale` only for factors that are
all equal to `s[0]`, then `Affine.decompose()` = `[Rotation V, Scale s, Rotation U, Translation t]`
(a) applied in order, as a `TransformChain` would, maps every point exactly as the affine transform
does, and (b) folded with `compose_before` gives back the very matrix. -/
theorem decompose_recomposes (M : Mat (d + 1)) (hM : IsAffine M) (U V : Mat d) (s : Vec d)
    (uniform : Bool) (hsvd : lin M = Mat.mul U (Mat.mul (diagMat s) V))
    (hu : uniform = true → ∀ i, s i = s.head) :
    (∀ env (X : Vec d), applyLeaves E env (decomposeLeaves U V s uniform (trans M)) X.toList
        = some (affApply M X).toList) ∧
    Mat.mul (mkAffine (Mat.one d) (trans M))
      (Mat.mul (mkAffine U (zeroVec d)) (Mat.mul (scaleFactory s uniform).M (mkAffine V (zeroVec d))))
      = M := by
  rw [scaleFactory_M hu]
  have hprod : Mat.mul (mkAffine (Mat.one d) (trans M))
      (Mat.mul (mkAffine U (zeroVec d)) (Mat.mul (mkAffine (diagMat s) (zeroVec d)) (mkAffine V (zeroVec d))))
      = M := by
    rw [mkAffine_mul, mkAffine_mul, mkAffine_mul]
    apply affine_ext (isAffine_mkAffine _ _) hM
    · rw [lin_mkAffine, hsvd]
      apply toM_inj; simp [toM_mul, toM_one]
    · rw [trans_mkAffine]; apply Vec.ext; intro i; simp [zeroVec]
  refine ⟨fun env X => ?_, hprod⟩
  have a1 := isAffine_mkAffine V (zeroVec d)
  have a2 := isAffine_mkAffine (diagMat s) (zeroVec d)
  have a3 := isAffine_mkAffine U (zeroVec d)
  have a4 := isAffine_mkAffine (Mat.one d) (trans M)
  have hrot : isSub E .Rotation .Affine = true := by decide
  have htr : isSub E .Translation .Affine = true := by decide
  conv_rhs => rw [← hprod]
  rw [affApply_mul a4 (isAffine_mul a3 (isAffine_mul a2 a1)), affApply_mul a3 (isAffine_mul a2 a1),
    affApply_mul a2 a1]
  unfold decomposeLeaves
  rw [applyLeaves_affine_cons env (t := ⟨.Rotation, _⟩) hrot,
    applyLeaves_affine_cons env (scaleFactory_affine s uniform), scaleFactory_M hu,
    applyLeaves_affine_cons env (t := ⟨.Rotation, _⟩) hrot,
    applyLeaves_affine_cons env (t := ⟨.Translation, _⟩) htr]
  rfl

theorem inv_mkAffine_orth {R : Mat d} (h : (toM R)ᵀ * toM R = 1) :
    Inv .Rotation (mkAffine R (zeroVec d)) := by
  refine ⟨isAffine_mkAffine _ _, by simp only [trans_mkAffine]; rfl, ?_⟩
  simp only [linM, lin_mkAffine]; exact h

/-- PROPERTY (the pieces of a decomposition are honest): under the full SVD contract — `U`, `V`
orthogonal, singular values positive (the affine map is invertible) — every transform
`Affine.decompose()` returns really is of the class it reports: the two `Rotation`s hold orthogonal
matrices and no translation, the scale piece holds a diagonal matrix with positive entries (`s[0]`
times the identity when the factory chose `UniformScale`), the `Translation` has the identity as
its linear part.  (`Rotation` here is what menpo's class admits — an orthogonal matrix;
`decompose_reflection` says when one of the two is improper.) -/
theorem decompose_pieces_honest (U V : Mat d) (s : Vec d) (uniform : Bool) (t : Vec d)
    (hU : (toM U)ᵀ * toM U = 1) (hV : (toM V)ᵀ * toM V = 1) (hs : ∀ i, 0 < s i) :
    ∀ l ∈ decomposeLeaves U V s uniform t, ∃ t' : HT d, l = .fam d t' ∧ Inv t'.cls t'.M ∧
      isAlign E t'.cls = false := by
  intro l hl
  simp only [decomposeLeaves, List.mem_cons, List.not_mem_nil, or_false] at hl
  rcases hl with rfl | rfl | rfl | rfl
  · exact ⟨_, rfl, inv_mkAffine_orth hV, rfl⟩
  · refine ⟨_, rfl, ?_, by cases uniform <;> rfl⟩
    cases uniform
    · rw [scaleFactory_false]
      refine ⟨isAffine_mkAffine _ _, by simp only [trans_mkAffine]; rfl, s.get,
        fun i => (hs i).ne', ?_⟩
      simp only [linM, lin_mkAffine]; exact toM_diag s
    · rw [scaleFactory_true]
      refine ⟨isAffine_mkAffine _ _, by simp only [trans_mkAffine]; rfl, ?_⟩
      simp only [linM, lin_mkAffine, toM_scalar]
      cases d with
      | zero => exact ⟨1, one_ne_zero, by ext i; exact i.elim0⟩
      | succ d' => exact ⟨s.head, by rw [Vec.head_eq]; exact (hs 0).ne', rfl⟩
  · exact ⟨_, rfl, inv_mkAffine_orth hU, rfl⟩
  · exact ⟨_, rfl, ⟨isAffine_mkAffine _ _, by simp only [linM, lin_mkAffine]; exact toM_one⟩, rfl⟩

/-- PROPERTY (when a piece is a reflection): with positive singular values the determinants of the
two orthogonal pieces multiply to the sign of `det L`: for an orientation-reversing affine map
(`det L < 0`) exactly one of `Rotation(U)`, `Rotation(V)` is a reflection, for an
orientation-preserving one they are both proper or both improper.  No choice of SVD factors can
make both pieces proper rotations when `det L < 0`. -/
theorem decompose_reflection (M : Mat (d + 1)) (U V : Mat d) (s : Vec d)
    (hsvd : lin M = Mat.mul U (Mat.mul (diagMat s) V)) (hs : ∀ i, 0 < s i) :
    (linM M).det = (toM U).det * (toM V).det * ∏ i, s i ∧
    ((linM M).det < 0 → (toM U).det * (toM V).det < 0) ∧
    (0 < (linM M).det → 0 < (toM U).det * (toM V).det) := by
  have hp : 0 < ∏ i, s i := Finset.prod_pos (fun i _ => hs i)
  have hdet : (linM M).det = (toM U).det * (toM V).det * ∏ i, s i := by
    simp only [linM, hsvd, toM_mul, Matrix.det_mul, toM_diag, Matrix.det_diagonal]; ring
  refine ⟨hdet, fun h => ?_, fun h => ?_⟩
  · rw [hdet] at h
    by_contra hc
    have := mul_nonneg (not_lt.mp hc) hp.le
    linarith
  · rw [hdet] at h
    by_contra hc
    have := mul_nonpos_of_nonpos_of_nonneg (not_lt.mp hc) hp.le
    linarith

/-- `DiscreteAffine.decompose()` (rotations, translations, scales and their alignment variants)
returns `[self.copy()]`: one piece, which is the transform -/
theorem decompose_discrete (env : Nat → Pt → Option Pt) (t : HT d) (x : Pt) :
    applyLeaves E env (decomposeDiscrete t) x = applyLeaf E env (.fam d t) x :=
  applyLeaves_single E env _ x

/-! ## method resolution: the function bodies the model transcribes are the ones Python runs

`GenProps/C03.lean` proves `Generated.C03.methodTable = expectedMethodTable` on every run; the
facts below are what the model takes from that table. -/

/-- the family class a supplier of `_from_vector_inplace` parametrises -/
def Sup.base : Sup → Option HCls
  | .Homogeneous => some .Homogeneous | .Affine => some .Affine | .Similarity => some .Similarity
  | .Rotation => some .Rotation | .Translation => some .Translation
  | .UniformScale => some .UniformScale | .NonUniformScale => some .NonUniformScale
  | .AlignmentAffine => some .Affine | .AlignmentSimilarity => some .Similarity
  | .AlignmentRotation => some .Rotation | .AlignmentTranslation => some .Translation
  | .AlignmentUniformScale => some .UniformScale
  | _ => none

abbrev MT : MethodTable := expectedMethodTable

private theorem method_resolution_all : ∀ c ∈ HCls.all,
    -- public entry points: `ComposableTransform`; the ladder and the matrix products: `Homogeneous`
    -- (no class of the family, in particular no alignment class, overrides any of them)
    supplier MT (.fam c) .compose_before = some .ComposableTransform ∧
    supplier MT (.fam c) .compose_after = some .ComposableTransform ∧
    supplier MT (.fam c) .compose_before_inplace = some .ComposableTransform ∧
    supplier MT (.fam c) .compose_after_inplace = some .ComposableTransform ∧
    supplier MT (.fam c) ._compose_before = some .Homogeneous ∧
    supplier MT (.fam c) ._compose_after = some .Homogeneous ∧
    supplier MT (.fam c) ._compose_before_inplace = some .Homogeneous ∧
    supplier MT (.fam c) ._compose_after_inplace = some .Homogeneous ∧
    supplier MT (.fam c) .compose_after_from_vector_inplace = some .Homogeneous ∧
    supplier MT (.fam c) .from_vector = some .Homogeneous ∧
    -- `applyHT`: `Affine._apply` exactly for the subclasses of `Affine`, else `Homogeneous._apply`
    (supplier MT (.fam c) ._apply = some (if isSub E c .Affine then .Affine else .Homogeneous)) ∧
    -- `fromVec`: the parametrisation is that of the base class
    ((supplier MT (.fam c) ._from_vector_inplace).bind Sup.base = some (baseOf c)) ∧
    -- `copy` of the ladder's swallow branch: alignment classes copy through `HomogFamilyAlignment`
    -- (and are stripped with their own `as_non_alignment`), the others through `Copyable`
    (supplier MT (.fam c) .copy = some (if isAlign E c then .HomogFamilyAlignment else .Copyable)) ∧
    ((supplier MT (.fam c) .as_non_alignment).isSome = isAlign E c) ∧
    -- `decompose`: SVD for `Affine`/`Similarity` and their alignments, `[copy]` for the discrete
    -- classes, absent on `Homogeneous`
    (supplier MT (.fam c) .decompose =
      if baseOf c = .Homogeneous then none
      else if baseOf c = .Affine ∨ baseOf c = .Similarity then some .Affine
      else some .DiscreteAffine) := by
  decide +kernel

/-- PROPERTY (the model follows Python's method resolution): for each of the twelve family
classes, every compose entry point, `_apply`, `copy`, `as_non_alignment`, `decompose` and
`_from_vector_inplace` resolves to the function body the model transcribes. -/
theorem method_resolution_family (c : HCls) :
    supplier MT (.fam c) .compose_before = some .ComposableTransform ∧
    supplier MT (.fam c) .compose_after = some .ComposableTransform ∧
    supplier MT (.fam c) .compose_before_inplace = some .ComposableTransform ∧
    supplier MT (.fam c) .compose_after_inplace = some .ComposableTransform ∧
    supplier MT (.fam c) ._compose_before = some .Homogeneous ∧
    supplier MT (.fam c) ._compose_after = some .Homogeneous ∧
    supplier MT (.fam c) ._compose_before_inplace = some .Homogeneous ∧
    supplier MT (.fam c) ._compose_after_inplace = some .Homogeneous ∧
    supplier MT (.fam c) .compose_after_from_vector_inplace = some .Homogeneous ∧
    supplier MT (.fam c) .from_vector = some .Homogeneous ∧
    (supplier MT (.fam c) ._apply = some (if isSub E c .Affine then .Affine else .Homogeneous)) ∧
    ((supplier MT (.fam c) ._from_vector_inplace).bind Sup.base = some (baseOf c)) ∧
    (supplier MT (.fam c) .copy = some (if isAlign E c then .HomogFamilyAlignment else .Copyable)) ∧
    ((supplier MT (.fam c) .as_non_alignment).isSome = isAlign E c) ∧
    (supplier MT (.fam c) .decompose =
      if baseOf c = .Homogeneous then none
      else if baseOf c = .Affine ∨ baseOf c = .Similarity then some .Affine
      else some .DiscreteAffine) :=
  method_resolution_all c (HCls.mem_all c)

/-- PROPERTY (chains and plain transforms): a `TransformChain` composes through
`ComposableTransform`'s naive `_compose_before/_after` (`copy()` — `Copyable.copy`, a fresh member
list — then its own `_compose_*_inplace`, append / insert) and has no vector entry point; `WithDims`,
thin-plate splines and piecewise affine transforms only have `Transform.compose_before/after`
(always a chain) and no in-place composition at all. -/
theorem method_resolution_others :
    supplier MT .TransformChain ._compose_before = some .ComposableTransform ∧
    supplier MT .TransformChain ._compose_after = some .ComposableTransform ∧
    supplier MT .TransformChain ._compose_before_inplace = some .TransformChain ∧
    supplier MT .TransformChain ._compose_after_inplace = some .TransformChain ∧
    supplier MT .TransformChain .copy = some .Copyable ∧
    supplier MT .TransformChain .compose_after_from_vector_inplace = none ∧
    (∀ k ∈ [Kls.WithDims, .ThinPlateSplines, .PiecewiseAffine],
      supplier MT k .compose_before = some .Transform ∧
      supplier MT k .compose_after = some .Transform ∧
      supplier MT k .compose_before_inplace = none ∧
      supplier MT k .compose_after_inplace = none ∧
      supplier MT k .compose_after_from_vector_inplace = none) := by
  decide +kernel

/-! ## the class structure as coded before the repair: refutation by witness

`codedClassTable` differs from `expectedClassTable` only in `composes_inplace_with` of `Similarity`,
`Translation` and their alignment variants, which inherit `Affine`.  With that gate
(1) an accepted in-place call turns an honest `Translation` into an object that reports
    `Translation` but holds a shear, and
(2) a two-call program breaks the composition *law*: `AlignmentTranslation.as_non_alignment()`
    rebuilds the object from its translation component only, dropping the linear part the in-place
    call put there.
The theorems `inplace_law`, `prog_honest`, `prog_denotation` above are the repaired behaviour. -/

def wTrans : HT 2 := ⟨.Translation, mkAffine (Mat.one 2) (Vec.ofList 2 [1, 0])⟩
def wATrans : HT 2 := ⟨.AlignmentTranslation, mkAffine (Mat.one 2) (Vec.ofList 2 [1, 0])⟩
def wATrans2 : HT 2 := ⟨.AlignmentTranslation, mkAffine (Mat.one 2) (Vec.ofList 2 [0, 1])⟩
def wAffine : HT 2 := ⟨.Affine, mkAffine (Mat.ofList 2 [2, 0, 0, 1]) (zeroVec 2)⟩

theorem wTrans_inv (v : Vec 2) (c : HCls) (hc : baseOf c = .Translation) :
    Inv c (mkAffine (Mat.one 2) v) := by
  unfold Inv; rw [hc]
  exact ⟨isAffine_mkAffine _ _, by simp [linM, toM_one]⟩

theorem coded_inplace_breaks_honesty :
    Inv wTrans.cls wTrans.M ∧ Inv wAffine.cls wAffine.M ∧
    accepts codedClassTable (inplaceWith codedClassTable wTrans.cls) wAffine.cls = true ∧
    accepts E (inplaceWith E wTrans.cls) wAffine.cls = false ∧
    ¬ Inv wTrans.cls (rawCompose .before wTrans.M wAffine.M) := by
  refine ⟨wTrans_inv _ _ rfl, (isAffine_mkAffine _ _ : IsAffine wAffine.M), by decide, by decide, ?_⟩
  intro h
  have h2 := congrFun (congrFun h.2 0) 0
  have h3 : rawCompose Dir.before wTrans.M wAffine.M 0 0 = 2 := by decide +kernel
  simp only [linM, toM, Matrix.of_apply, lin, Matrix.one_apply_eq] at h2
  rw [show (Fin.castSucc (0 : Fin 2) : Fin 3) = 0 from rfl, h3] at h2
  norm_num at h2

/-- the store `[AlignmentTranslation(1,0), Affine diag(2,1), AlignmentTranslation(0,1)]` -/
def wStore : Store := [.fam 2 wATrans, .fam 2 wAffine, .fam 2 wATrans2]

/-- `a.compose_before_inplace(A)` (accepted by the coded gate) then `r = a.compose_before(b)` -/
def wProg : List Stmt := [.inplace .before 0 1, .compose .before 0 2]

/-- what the object at reference `i` does to a point (`none`: no such family object / undefined) -/
def famApply (tbl : ClassTable) (st : Store) (i : Nat) (x : Pt) : Option Pt :=
  match st[i]? with
  | some (.fam _ t) => applyFam tbl t x
  | _ => none

theorem coded_program_breaks_law :
    let st' := runStmts codedClassTable wStore wProg
    -- what the law prescribes at the probe point (1, 1): b(a(x)) = (4, 2)
    (famApply codedClassTable st' 0 [1, 1]).bind (famApply codedClassTable st' 2) = some [4, 2] ∧
    -- what the returned object does: (3, 2)
    famApply codedClassTable st' 3 [1, 1] = some [3, 2] ∧
    -- with the repaired gate the in-place call is refused and the law holds: b(a(x)) = (2, 2)
    (let st'' := runStmts E wStore wProg
     famApply E st'' 3 [1, 1] = some [2, 2] ∧
     (famApply E st'' 0 [1, 1]).bind (famApply E st'' 2) = some [2, 2]) := by
  decide +kernel

/-- The `Scale` factory decides "uniform" with `np.allclose`; the decision is an input of the
model.  If it says "uniform" for factors that are merely close — here 2 and 2 + 1/1024 — the
`UniformScale(s[0])` piece does not reproduce the second factor and the pieces do *not* recompose
to the matrix: the hypothesis `hu` of `decompose_recomposes` cannot be dropped.  (The generator
keeps away from the tie, DESIGN.md §3 item 2.) -/
theorem decompose_near_tie_witness :
    let s : Vec 2 := Vec.ofList 2 [2, 2 + 1 / 1024]
    let M : Mat 3 := mkAffine (diagMat s) (zeroVec 2)
    lin M = Mat.mul (Mat.one 2) (Mat.mul (diagMat s) (Mat.one 2)) ∧
    (Mat.mul (mkAffine (Mat.one 2) (trans M))
      (Mat.mul (mkAffine (Mat.one 2) (zeroVec 2))
        (Mat.mul (scaleFactory s true).M (mkAffine (Mat.one 2) (zeroVec 2))))).toLists ≠ M.toLists ∧
    (Mat.mul (mkAffine (Mat.one 2) (trans M))
      (Mat.mul (mkAffine (Mat.one 2) (zeroVec 2))
        (Mat.mul (scaleFactory s false).M (mkAffine (Mat.one 2) (zeroVec 2))))).toLists = M.toLists := by
  refine ⟨?_, by decide +kernel, by decide +kernel⟩
  apply Mat.ext; intro i j
  fin_cases i <;> fin_cases j <;> decide +kernel

/-! ## non-vacuity: the hypotheses are satisfiable on concrete non-trivial values -/

def exR : Mat 2 := Mat.ofList 2 [3/5, -4/5, 4/5, 3/5]
def exRot : HT 2 := ⟨.AlignmentRotation, mkAffine exR (zeroVec 2)⟩
def exTrans : HT 2 := ⟨.Translation, mkAffine (Mat.one 2) (Vec.ofList 2 [1, -2])⟩
def exHom : HT 2 := ⟨.Homogeneous, Mat.ofList 3 [1, 2, 0, 0, 1, 1, 1/4, 0, 1]⟩
/-- a 3-D affine map (shear, scale, translation) -/
def exAff3 : HT 3 := ⟨.Affine, mkAffine (Mat.ofList 3 [2, 1, 0, 0, 1, 0, 0, 1/2, 3]) (Vec.ofList 3 [1, 0, -1])⟩

theorem exR_orth : (toM exR)ᵀ * toM exR = 1 := by
  ext i j
  fin_cases i <;> fin_cases j <;>
    simp [Matrix.mul_apply, Fin.sum_univ_two, exR, Mat.ofList] <;> norm_num

theorem exRot_inv : Inv exRot.cls exRot.M := by
  refine ⟨isAffine_mkAffine _ _, by simp [exRot]; rfl, ?_⟩
  simp only [exRot, linM, lin_mkAffine]
  exact exR_orth

theorem exTrans_inv : Inv exTrans.cls exTrans.M := wTrans_inv _ _ rfl
theorem exHom_inv : Inv exHom.cls exHom.M := trivial
theorem exAff3_inv : Inv exAff3.cls exAff3.M := isAffine_mkAffine _ _

/-- an alignment rotation composed before a translation: reported as `Similarity`, not as an
alignment, not as a chain; and the composite really maps `(1, 0)` to `(3/5 + 1, 4/5 − 2)` -/
example : (ladder E ladderFuel .before exRot exTrans).map (fun r => (r.cls, isAlign E r.cls))
    = some (.Similarity, false) := by decide +kernel
example : ((ladder E ladderFuel .before exRot exTrans).bind fun r =>
      (applyHT E r (Vec.ofList 2 [1, 0])).map Vec.toList) = some [8/5, -6/5] := by decide +kernel
/-- a projective operand: the law's hypotheses (non-zero denominators) hold at `(2, 1)` -/
example : ((applyHT E exHom (Vec.ofList 2 [2, 1])).bind (applyHT E exTrans)).map Vec.toList
      = some [11/3, -2/3] ∧
    ((ladder E ladderFuel .before exHom exTrans).bind fun r =>
      (applyHT E r (Vec.ofList 2 [2, 1])).map Vec.toList) = some [11/3, -2/3] := by decide +kernel

/-- a good store of mixed dimension: 2-D family members, a chain holding two references, an opaque
leaf, a 3-D affine map and the slicer `WithDims([0, 2])` (3-D → 2-D) -/
def exStore : Store :=
  [.fam 2 exRot, .fam 2 exTrans, .leaf (.opq 0), .chain [0, 2], .fam 2 exHom, .fam 3 exAff3,
   .leaf (.withDims [0, 2])]

theorem exStore_good : Good exStore := by
  constructor
  · intro c hc
    simp only [exStore, List.mem_cons, List.not_mem_nil, or_false] at hc
    rcases hc with rfl | rfl | rfl | rfl | rfl | rfl | rfl <;> simp [WFCell, exStore]
  · intro d t ht
    simp only [exStore, List.mem_cons, List.not_mem_nil, or_false, reduceCtorEq, false_or, or_false] at ht
    rcases ht with h | h | h | h <;> cases h
    · exact exRot_inv
    · exact exTrans_inv
    · exact exHom_inv
    · exact exAff3_inv

theorem exStore_ranked : Ranked exStore := by
  refine ⟨fun i => if i = 3 then 1 else 0, ?_⟩
  intro a ms ha m hm
  have h3 : a = 3 ∧ ms = [0, 2] := by
    have hlt : a < 7 := lt_of_getElem?_some ha
    match a, ha, hlt with
    | 0, ha, _ => simp [exStore] at ha
    | 1, ha, _ => simp [exStore] at ha
    | 2, ha, _ => simp [exStore] at ha
    | 3, ha, _ => exact ⟨rfl, by simpa [exStore] using ha.symm⟩
    | 4, ha, _ => simp [exStore] at ha
    | 5, ha, _ => simp [exStore] at ha
    | 6, ha, _ => simp [exStore] at ha
    | n + 7, _, hlt => omega
  obtain ⟨rfl, rfl⟩ := h3
  simp only [List.mem_cons, List.not_mem_nil, or_false] at hm
  rcases hm with rfl | rfl <;> simp

/-- `prog_denotation` applies to it; e.g. chain.compose_before(translation) then an in-place
append: the statements succeed and the in-place gate refuses Rotation ← Translation -/
example : (step E exStore (.compose .before 3 1)).toOption.map (fun p => (p.1.length, p.2))
    = some (8, some 7) := by decide +kernel
example : (step E exStore (.inplace .before 0 1)).toOption.isNone = true := by decide +kernel
example : (step E exStore (.inplace .after 3 4)).toOption.isSome = true := by decide +kernel
example : reaches exStore 3 4 3 = false := by decide +kernel

/-- dimension-changing composition: `affine3.compose_before(WithDims([0,2])).compose_before(translation2)`
is a chain typed 3 → 2 that maps `(1, 2, 3)` to `(5 + 1, 9 − 2)`; the ill-typed
`affine3.compose_before(translation2)` is refused (`np.dot` of a 3×3 and a 4×4 matrix) -/
example :
    let st := runStmts E exStore [.compose .before 5 6, .compose .before 7 1]
    (st[8]?.map fun c => match c with | .chain ms => ms | _ => []) = some [5, 6, 1] ∧
    ((flat st 3 8).bind fun ls => applyLeaves E (fun _ _ => none) ls [1, 2, 3]) = some [6, 7] ∧
    ((flat st 3 8).bind fun ls => leavesDim (fun _ _ => none) ls 3) = some 2 ∧
    ((flat st 3 8).bind fun ls => leavesDim (fun _ _ => none) ls 2) = none := by decide +kernel
example : (step E exStore (.compose .before 5 1)).toOption.isNone = true ∧
    (match step E exStore (.compose .before 5 1) with | .error .shape => true | _ => false) = true := by
  decide +kernel

/-- a Boolean mask slices like the index list of its true positions and refuses points of another
dimension; `np.fill_diagonal` cycles a short vector of scale factors, a single translation value
is broadcast -/
example :
    applyLeaf E (fun _ _ => none) (.plain (.withMask [true, false, true])) [5, 6, 7] = some [5, 7] ∧
    applyLeaf E (fun _ _ => none) (.plain (.withDims [0, 2])) [5, 6, 7] = some [5, 7] ∧
    applyLeaf E (fun _ _ => none) (.plain (.withMask [true, false, true])) [5, 6] = none := by
  decide +kernel
example : (fromVec .NonUniformScale (Mat.one 4) [2, 3]).toOption.map Mat.toLists
      = some [[2, 0, 0, 0], [0, 3, 0, 0], [0, 0, 2, 0], [0, 0, 0, 1]] ∧
    (fromVec .Translation (Mat.one 3) [7]).toOption.map Mat.toLists
      = some [[1, 0, 7], [0, 1, 7], [0, 0, 1]] ∧
    (fromVec .Translation (Mat.one 3) [7, 8, 9]).toOption.isNone = true := by decide +kernel

/-- a chain appended to itself: accepted, and afterwards it has no denotation at any fuel we try
(`inplace_chain_exact` proves it for every fuel) -/
example :
    let st := runStmts E exStore [.inplace .before 3 3]
    (st[3]?.map fun c => match c with | .chain ms => ms | _ => []) = some [0, 2, 3] ∧
    (flat st 50 3).isNone = true ∧ (flat exStore 3 3).isSome = true := by decide +kernel

/-- `compose_after_from_vector_inplace` on the translation with the vector `(3, 4)`: accepted, the
receiver stays a `Translation` and now translates by `(1, −2) + (3, 4)`; a vector of the wrong
length is refused; the side condition `Proper` holds -/
example :
    let st := runStmts E exStore [.fromVector 1 [3, 4], .fromVector 1 [1, 2, 3]]
    famApply E st 1 [0, 0] = some [4, 2] := by decide +kernel

example : Proper exStore (.fromVector 1 [3, 4]) := by
  intro d s Mv ha hv
  have hd : d = 2 := by
    simp only [exStore, List.getElem?_cons_succ, List.getElem?_cons_zero, Option.some.injEq,
      Cell.fam.injEq] at ha
    exact ha.1.symm
  subst hd
  have hs : s = exTrans := by
    simp only [exStore, List.getElem?_cons_succ, List.getElem?_cons_zero, Option.some.injEq,
      Cell.fam.injEq, heq_eq_eq, true_and] at ha
    exact ha.symm
  subst hs
  have hMv : Mv = setTrans exTrans.M (Vec.ofList 2 [3, 4]) := by
    simp [fromVec, exTrans, baseOf] at hv; exact hv.symm
  subst hMv
  refine ⟨⟨isAffine_setTrans (isAffine_mkAffine _ _) _, ?_⟩, ?_⟩
  · simp only [linM, lin_setTrans, exTrans, lin_mkAffine]; exact toM_one
  · have : det (setTrans exTrans.M (Vec.ofList 2 [3, 4])) = 1 := by
      simp only [det]
      decide +kernel
    rw [this]; exact one_ne_zero

/-- the SVD contract of `decompose_pieces_honest` / `decompose_recomposes` is satisfiable on a
non-trivial affine map: `L = exR · diag(2, 1/2) · 1` -/
example :
    let s : Vec 2 := Vec.ofList 2 [2, 1/2]
    let M : Mat 3 := mkAffine (Mat.mul exR (Mat.mul (diagMat s) (Mat.one 2))) (Vec.ofList 2 [1, -1])
    IsAffine M ∧ lin M = Mat.mul exR (Mat.mul (diagMat s) (Mat.one 2)) ∧
    (toM exR)ᵀ * toM exR = 1 ∧ (toM (Mat.one 2))ᵀ * toM (Mat.one 2) = 1 ∧ (∀ i, 0 < s i) ∧
    (false = true → ∀ i, s i = s.head) := by
  refine ⟨isAffine_mkAffine _ _, by simp, exR_orth, by simp [toM_one], ?_, fun h => by cases h⟩
  intro i; fin_cases i <;> decide +kernel

/-- a quaternion that is not a unit quaternion still gives an orthogonal matrix (`quatRot_orth`);
e.g. `(1, 2, 0, 2)` of squared norm 9 -/
example : (quatRot 1 2 0 2).toLists = [[1/9, -4/9, 8/9], [4/9, -7/9, -4/9], [8/9, 4/9, 1/9]] := by
  decide +kernel

end MenpoModel.C03
