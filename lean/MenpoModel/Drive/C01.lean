/-
Line-protocol driver for the C01 model (Core/C01Warp.lean).  Parsing glue only: every number that is
answered is computed by the Core definitions the theorems are about (`rescalePlan2 … warpPlan3`,
`Plan2.run / runMask / landmark`, `pyramid2`, `warpToMask2`).

Query based: the request names the image *content* (a formula or a small table), the operation, the
landmarks and the pixel indices whose values are wanted; whole images never cross the pipe.

request (2-D):
  c2 <cls> <h> <w> <nch> <content>^nch [<maskcontent> if cls = masked] <o0|o1> <op> LM n (x y)^n PIX k (i j)^k
  cls      := img | masked | bool            (bool: the single channel is the boolean image itself)
  content  := aff a b c | hash a b c m den | half a b c | tab n v^n | const v
  mode     := near | const cv
  round    := ceil | floor | round
  op       := rescale sx sy round | resize nh nw | crop mnx mny mxx mxy cb | croppts n (x y)^n boundary cb
            | cropprop n (x y)^n prop minimum cb | zoom s | rotate c s retain mode round
            | about a b tx c d ty retain mode round | mirror axis | warp h w a b tx c d ty mode
            | pyr level downscale | warpmask th tw <content> a b tx c d ty mode
            | rescalediag diagonal dg round | rescalepc ns nt round | rescalerange dr rg round
            | cropmask boundary cb          (the point set is computed from the mask content of the request)
            | gpyr level downscale nW w0 … w_r   (half weights of the symmetric blur kernel)
            | warpc <provider> h w a b tx c d ty mode   (landmarks moved by the closed form of that supplier)
            | constrainlm
            | constrainmask k (b)^k         (MaskedImage.constrain_mask_to_landmarks / BooleanImage.constrain_to_landmarks on the
                                             landmark points of the request; b = result of the containment test at the
                                             k-th pixel of the PIX list: contract parameter, computed by the harness)
            | chain n <stepop>^n            (stepop: rescale | resize | crop | croppts | cropprop | zoom | rotate | about
                                             | mirror | warp, each applied to the result of the previous one)
  provider := homogeneous | alignment | rotation | nonUniformScale | uniformScale | translation
reply:  ok h' w' T(6) pre(2) landmarks(2n) then per pixel query: nch values [mask value] sx sy
        (sx sy = the point of the source the pixel was sampled at)   |   err value|boundary|degenerate
request (sampling):  s2 <h> <w> <nch> <content>^nch <o0|o1> <mode> PTS k (x y)^k   → ok (nch values per point)
request (contract quantities, exact):  k2 diag h w → h² + w²  |  k2 ss n (x y)^n → centredSS  |  k2 range n (x y)^n → rx² + ry²
request (registration under a non-affine transform):
  w2 <h> <w> <nch> <content>^nch <mode> th tw x y CELL k (i j Tx Ty)^k
      → ok (nch values: the bilinear warp of the content, read back bilinearly at (x, y); the transform is the table) X Y
        (X Y = the transform interpolated bilinearly at (x, y): `interpT`)
request (3-D):  c3 <cls> n0 n1 n2 nch <content3>^nch [<mask>] <o0|o1> <op3> LM n (x y z)^n PIX k (i j k)^k
  content3 := aff a b c d | hash a b c e m den | half a b c d | const v
  op3      := rescale s0 s1 s2 round | resize m0 m1 m2 | crop (6) cb | zoom s | mirror axis | warp n0 n1 n2 T(12) mode
-/
import MenpoModel.Core.Codec
import MenpoModel.Core.C01Warp
import MenpoModel.Core.C01Ext
import MenpoModel.Core.C01Src

namespace MenpoModel.Drive.C01
open MenpoModel.Codec MenpoModel.C01 MenpoModel.C01.Src

/-! ### image contents -/

def hashVal (v : Int) (m den : Nat) : Rat := ((v % (m : Int) : Int) : Rat) / (den : Rat)

def pContent2 (h w : Nat) : P (Int → Int → Rat) := do
  let t ← tok
  match t with
  | "aff" => do
    let a ← pRat; let b ← pRat; let c ← pRat
    pure fun i j => a + b * (i : Rat) + c * (j : Rat)
  | "hash" => do
    let a ← pInt; let b ← pInt; let c ← pInt; let m ← pNat; let den ← pNat
    pure fun i j => hashVal (a * i + b * j + c * i * j) m den
  | "half" => do
    let a ← pInt; let b ← pInt; let c ← pInt
    pure fun i j => if 0 ≤ a * i + b * j + c then 1 else 0
  | "tab" => do
    let vs ← pList pRat
    let arr := vs.toArray
    if arr.size ≠ h * w then failure
    pure fun i j => arr.getD (i.toNat * w + j.toNat) 0
  | "const" => do let v ← pRat; pure fun _ _ => v
  | _ => failure

def pContent3 : P (Int → Int → Int → Rat) := do
  let t ← tok
  match t with
  | "aff" => do
    let a ← pRat; let b ← pRat; let c ← pRat; let d ← pRat
    pure fun i j k => a + b * (i : Rat) + c * (j : Rat) + d * (k : Rat)
  | "hash" => do
    let a ← pInt; let b ← pInt; let c ← pInt; let e ← pInt; let m ← pNat; let den ← pNat
    pure fun i j k => hashVal (a * i + b * j + c * k + e * i * j * k) m den
  | "half" => do
    let a ← pInt; let b ← pInt; let c ← pInt; let d ← pInt
    pure fun i j k => if 0 ≤ a * i + b * j + c * k + d then 1 else 0
  | "const" => do let v ← pRat; pure fun _ _ _ => v
  | _ => failure

def pMode : P Mode := do
  let t ← tok
  match t with
  | "near" => pure .nearest
  | "const" => do let cv ← pRat; pure (.constant cv)
  | _ => failure

def pRound : P Rounding := do
  let t ← tok
  match t with
  | "ceil" => pure .ceil
  | "floor" => pure .floor
  | "round" => pure .round
  | _ => failure

def pOrder : P Interp := do
  let t ← tok
  match t with
  | "o0" => pure .nearest
  | "o1" => pure .linear
  | _ => failure

def pV2 : P V2 := do let x ← pRat; let y ← pRat; pure ⟨x, y⟩
def pV3 : P V3 := do let x ← pRat; let y ← pRat; let z ← pRat; pure ⟨x, y, z⟩
def pAff2 : P Aff2 := do
  let a ← pRat; let b ← pRat; let tx ← pRat; let c ← pRat; let d ← pRat; let ty ← pRat
  pure ⟨a, b, tx, c, d, ty⟩
def pAff3 : P Aff3 := do
  let l ← pMany pRat 12
  match l with
  | [a, b, c, t0, d, e, f, t1, g, h, i, t2] => pure ⟨a, b, c, t0, d, e, f, t1, g, h, i, t2⟩
  | _ => failure
def pIdx2 : P (Int × Int) := do let i ← pInt; let j ← pInt; pure (i, j)
def pIdx3 : P (Int × Int × Int) := do let i ← pInt; let j ← pInt; let k ← pInt; pure (i, j, k)

def fErr : Err → String
  | .value => "err value"
  | .boundary => "err boundary"
  | .degenerate => "err degenerate"

def fA2 (m : Aff2) : String := fmtRats [m.a, m.b, m.tx, m.c, m.d, m.ty]
def fA3 (m : Aff3) : String :=
  fmtRats [m.a00, m.a01, m.a02, m.t0, m.a10, m.a11, m.a12, m.t1, m.a20, m.a21, m.a22, m.t2]

inductive Cls | img | masked | bool
deriving DecidableEq

def pCls : P Cls := do
  let t ← tok
  match t with
  | "img" => pure .img
  | "masked" => pure .masked
  | "bool" => pure .bool
  | _ => failure

/-! ### 2-D -/

/-- what a 2-D request asks for: either one plan (every operation but the pyramid and warp_to_mask), a
pyramid level, or a warp into a template mask -/
inductive Job2
  | plan (p : Except Err Plan2)
  | pyr (level : Nat) (ds : Rat)
  | wmask (tmpl : Img2) (T : Aff2) (m : Mode)
  | cropmask (boundary : Rat) (cb : Bool)
  | gpyr (level : Nat) (ds : Rat) (wts : List Rat)
  | warpc (pv : PinvProvider) (p : Except Err Plan2)
  | constrain
  | cmask (bits : List Bool)
  | chain (ops : List OpF)

def pProvider : P PinvProvider := do
  let t ← tok
  match t with
  | "homogeneous" => pure .homogeneous
  | "alignment" => pure .alignment
  | "rotation" => pure .rotation
  | "nonUniformScale" => pure .nonUniformScale
  | "uniformScale" => pure .uniformScale
  | "translation" => pure .translation
  | _ => failure

/-- one step of a chain: the plan is built from the shape of the image the step is applied to -/
def pStep : P OpF := do
  let t ← tok
  match t with
  | "rescale" => do let sx ← pRat; let sy ← pRat; let r ← pRound; pure fun h w => rescalePlan2 h w sx sy r
  | "resize" => do let nh ← pRat; let nw ← pRat; pure fun h w => resizePlan2 h w nh nw
  | "crop" => do let mn ← pV2; let mx ← pV2; let cb ← pBool; pure fun h w => cropPlan2 h w mn mx cb
  | "croppts" => do
    let pts ← pList pV2; let b ← pRat; let cb ← pBool
    pure fun h w => cropToPointsPlan2 h w pts b cb
  | "cropprop" => do
    let pts ← pList pV2; let pr ← pRat; let mi ← pBool; let cb ← pBool
    pure fun h w => cropToPointsProportionPlan2 h w pts pr mi cb
  | "zoom" => do let s ← pRat; pure fun h w => zoomPlan2 h w s
  | "rotate" => do
    let c ← pRat; let s ← pRat; let rt ← pBool; let m ← pMode; let r ← pRound
    pure fun h w => rotatePlan2 h w c s rt m r
  | "about" => do
    let A ← pAff2; let rt ← pBool; let m ← pMode; let r ← pRound
    pure fun h w => aboutPlan2 h w A rt m r
  | "mirror" => do let ax ← pNat; pure fun h w => mirrorPlan2 h w ax
  | "warp" => do
    let th ← pNat; let tw ← pNat; let T ← pAff2; let m ← pMode
    pure fun _ _ => warpPlan2 th tw T m
  | _ => failure

def pOp2 (h w : Nat) : P Job2 := do
  let t ← tok
  match t with
  | "rescale" => do let sx ← pRat; let sy ← pRat; let r ← pRound; pure (.plan (rescalePlan2 h w sx sy r))
  | "resize" => do let nh ← pRat; let nw ← pRat; pure (.plan (resizePlan2 h w nh nw))
  | "crop" => do let mn ← pV2; let mx ← pV2; let cb ← pBool; pure (.plan (cropPlan2 h w mn mx cb))
  | "croppts" => do
    let pts ← pList pV2; let b ← pRat; let cb ← pBool
    pure (.plan (cropToPointsPlan2 h w pts b cb))
  | "cropprop" => do
    let pts ← pList pV2; let pr ← pRat; let mi ← pBool; let cb ← pBool
    pure (.plan (cropToPointsProportionPlan2 h w pts pr mi cb))
  | "zoom" => do let s ← pRat; pure (.plan (zoomPlan2 h w s))
  | "rotate" => do
    let c ← pRat; let s ← pRat; let rt ← pBool; let m ← pMode; let r ← pRound
    pure (.plan (rotatePlan2 h w c s rt m r))
  | "about" => do
    let A ← pAff2; let rt ← pBool; let m ← pMode; let r ← pRound
    pure (.plan (aboutPlan2 h w A rt m r))
  | "mirror" => do let ax ← pNat; pure (.plan (mirrorPlan2 h w ax))
  | "warp" => do
    let th ← pNat; let tw ← pNat; let T ← pAff2; let m ← pMode
    pure (.plan (warpPlan2 th tw T m))
  | "pyr" => do let k ← pNat; let ds ← pRat; pure (.pyr k ds)
  | "rescalediag" => do let d ← pRat; let dg ← pRat; let r ← pRound; pure (.plan (rescaleToDiagonalPlan2 h w d dg r))
  | "rescalepc" => do let ns ← pRat; let nt ← pRat; let r ← pRound; pure (.plan (rescaleToPointcloudPlan2 h w ns nt r))
  | "rescalerange" => do
    let dr ← pRat; let rg ← pRat; let r ← pRound
    pure (.plan (rescaleLandmarksToDiagonalRangePlan2 h w dr rg r))
  | "cropmask" => do let b ← pRat; let cb ← pBool; pure (.cropmask b cb)
  | "gpyr" => do let k ← pNat; let ds ← pRat; let wts ← pList pRat; pure (.gpyr k ds wts)
  | "warpc" => do
    let pv ← pProvider; let th ← pNat; let tw ← pNat; let T ← pAff2; let m ← pMode
    pure (.warpc pv (warpPlan2 th tw T m))
  | "constrainlm" => pure .constrain
  | "constrainmask" => do let bits ← pList pBool; pure (.cmask bits)
  | "chain" => do let ops ← pList pStep; pure (.chain ops)
  | "warpmask" => do
    let th ← pNat; let tw ← pNat; let c ← pContent2 th tw; let T ← pAff2; let m ← pMode
    pure (.wmask ⟨th, tw, c⟩ T m)
  | _ => failure

structure Req2 where
  cls : Cls
  h : Nat
  w : Nat
  chans : List (Int → Int → Rat)
  mask : Int → Int → Rat
  o : Interp
  job : Job2
  lms : List V2
  pix : List (Int × Int)

def pReq2 : P Req2 := do
  let cls ← pCls
  let h ← pNat; let w ← pNat; let nch ← pNat
  let chans ← pMany (pContent2 h w) nch
  let mask ← if cls = .masked then pContent2 h w else pure (fun _ _ => (1 : Rat))
  let o ← pOrder
  let job ← pOp2 h w
  let t ← tok
  if t ≠ "LM" then failure
  let lms ← pList pV2
  let t ← tok
  if t ≠ "PIX" then failure
  let pix ← pList pIdx2
  pure ⟨cls, h, w, chans, mask, o, job, lms, pix⟩

def fV2s (l : List V2) : String := fmtRats (l.flatMap fun p => [p.x, p.y])

/-- answer of a single plan -/
def answerPlan2 (r : Req2) (p : Plan2) (mover : Option (V2 → V2) := none) : String :=
  let lms := r.lms.map (mover.getD p.landmark)
  let pixs := r.pix.flatMap fun (i, j) =>
    let vals := r.chans.map fun c =>
      if r.cls = .bool then (p.runMask ⟨r.h, r.w, c⟩).px i j else (p.run r.o ⟨r.h, r.w, c⟩).px i j
    let mk := if r.cls = .masked then [(p.runMask ⟨r.h, r.w, r.mask⟩).px i j] else []
    let s := p.T.apply (gridPt2 i j)
    vals ++ mk ++ [s.x, s.y]
  s!"ok {p.h} {p.w} {fA2 p.T} {fmtRats [p.pre.x, p.pre.y]} {fV2s lms} {fmtRats pixs}"

def answer2 (r : Req2) : String :=
  match r.job with
  | .plan (.error e) => fErr e
  | .plan (.ok p) => answerPlan2 r p
  | .cropmask b cb =>
    (match cropToTrueMaskPlan2 ⟨r.h, r.w, r.mask⟩ b cb with
     | .error e => fErr e
     | .ok p => answerPlan2 r p)
  | .warpc _ (.error e) => fErr e
  | .warpc pv (.ok p) => answerPlan2 r p (some (pinvBy pv p.T).apply)
  | .constrain =>
    let lms := r.lms.map (constrainLandmark r.h r.w)
    s!"ok {r.h} {r.w} {fA2 Aff2.one} {fmtRats [(r.h : Rat), (r.w : Rat)]} {fV2s lms} "
  | .cmask bits =>
    -- the containment test is a table over the queried pixels (contract parameter)
    let tbl := r.pix.zip bits
    let inside : PipFn → List V2 → V2 → Bool := fun _ _ p =>
      ((tbl.find? fun e => decide (((e.1.1 : Int) : Rat) = p.x ∧ ((e.1.2 : Int) : Rat) = p.y)).map (·.2)).getD false
    let zero : Int → Int → Rat := fun _ _ => 0
    let mobj : Obj := ⟨.boolean, ⟨r.h, r.w, [if r.cls = .bool then r.chans.headD zero else r.mask], true⟩, none, r.lms, none⟩
    let res := constrainToPointcloudObj inside .pwa mobj r.lms
    let newMask := res.pix.ch.headD zero
    let pixs := r.pix.flatMap fun (i, j) =>
      let vals := if r.cls = .bool then [newMask i j] else r.chans.map fun c => c i j
      let mk := if r.cls = .masked then [newMask i j] else []
      vals ++ mk ++ [((i : Int) : Rat), ((j : Int) : Rat)]
    s!"ok {r.h} {r.w} {fA2 Aff2.one} {fmtRats [(r.h : Rat), (r.w : Rat)]} {fV2s r.lms} {fmtRats pixs}"
  | .chain ops =>
    (match r.chans with
     | [] => "bad-op"
     | c0 :: _ =>
       let start (c : Int → Int → Rat) : ChainState :=
         ⟨⟨r.h, r.w, c⟩, ⟨r.h, r.w, if r.cls = .bool then c else r.mask⟩, r.lms, Aff2.one⟩
       match chainRun r.o ops (start c0) with
       | .error e => fErr e
       | .ok s0 =>
         let lastP := (chainPlans r.o ops (start c0)).getLast?
         let lastT : Aff2 := match lastP with
           | some p => p.T
           | none => Aff2.one
         let pre : V2 := match lastP with
           | some p => p.pre
           | none => ⟨(s0.im.h : Rat), (s0.im.w : Rat)⟩
         let pixs := r.pix.flatMap fun (i, j) =>
           let vals := r.chans.map fun c =>
             match chainRun r.o ops (start c) with
             | .ok s => if r.cls = .bool then s.msk.px i j else s.im.px i j
             | .error _ => 0
           let mk := if r.cls = .masked then [s0.msk.px i j] else []
           let sp := lastT.apply (gridPt2 i j)
           vals ++ mk ++ [sp.x, sp.y]
         -- the transform answered is the composition (final → first image); `pre` is that of the last step
         s!"ok {s0.im.h} {s0.im.w} {fA2 s0.back} {fmtRats [pre.x, pre.y]} {fV2s s0.lms} {fmtRats pixs}")
  | .gpyr k ds wts =>
    (match r.chans with
     | [] => "bad-op"
     | c0 :: _ =>
       let start (c : Int → Int → Rat) : Img2 × Img2 × List V2 := (⟨r.h, r.w, c⟩, ⟨r.h, r.w, r.mask⟩, r.lms)
       match gaussPyramid2 wts ds r.o k (start c0) with
       | .error e => fErr e
       | .ok (im0, _, lms) =>
         let lastT : Aff2 := match k with
           | 0 => Aff2.one
           | k' + 1 => match gaussPyramid2 wts ds r.o k' (start c0) with
             | .ok (imp, _, _) => match pyramidStep2 imp.h imp.w ds with
               | .ok p => p.T
               | .error _ => Aff2.one
             | .error _ => Aff2.one
         let pixs := r.pix.flatMap fun (i, j) =>
           let vals := r.chans.map fun c =>
             match gaussPyramid2 wts ds r.o k (start c) with
             | .ok (im, _, _) => im.px i j
             | .error _ => 0
           let mk := if r.cls = .masked then
               (match gaussPyramid2 wts ds r.o k (start c0) with
                | .ok (_, mk, _) => [mk.px i j]
                | .error _ => [0])
             else []
           let sp := lastT.apply (gridPt2 i j)
           vals ++ mk ++ [sp.x, sp.y]
         s!"ok {im0.h} {im0.w} {fA2 lastT} {fmtRats [(im0.h : Rat), (im0.w : Rat)]} {fV2s lms} {fmtRats pixs}")
  | .wmask tmpl T m =>
    if T.det = 0 then fErr .degenerate else
    let lms := r.lms.map T.inv.apply
    let pixs := r.pix.flatMap fun (i, j) =>
      let vals := r.chans.map fun c =>
        (warpToMask2 (if r.cls = .bool then .nearest else r.o) (if r.cls = .bool then maskMode m else m)
          ⟨r.h, r.w, c⟩ tmpl T).px i j
      let mk := if r.cls = .masked then [tmpl.px i j] else []
      let s := T.apply (gridPt2 i j)
      vals ++ mk ++ [s.x, s.y]
    s!"ok {tmpl.h} {tmpl.w} {fA2 T} {fmtRats [(tmpl.h : Rat), (tmpl.w : Rat)]} {fV2s lms} {fmtRats pixs}"
  | .pyr k ds =>
    match r.chans with
    | [] => "bad-op"
    | c0 :: _ =>
      let start (c : Int → Int → Rat) : Img2 × Img2 × List V2 :=
        (⟨r.h, r.w, c⟩, ⟨r.h, r.w, if r.cls = .bool then c else r.mask⟩, r.lms)
      match pyramid2 ds r.o k (start c0) with
      | .error e => fErr e
      | .ok (im0, _, lms) =>
        -- transform of the last step (identity for level 0)
        let lastT : Aff2 := match k with
          | 0 => Aff2.one
          | k' + 1 => match pyramid2 ds r.o k' (start c0) with
            | .ok (imp, _, _) => match pyramidStep2 imp.h imp.w ds with
              | .ok p => p.T
              | .error _ => Aff2.one
            | .error _ => Aff2.one
        let pixs := r.pix.flatMap fun (i, j) =>
          let vals := r.chans.map fun c =>
            match pyramid2 ds r.o k (start c) with
            | .ok (im, mk, _) => if r.cls = .bool then mk.px i j else im.px i j
            | .error _ => 0
          let mk := if r.cls = .masked then
              (match pyramid2 ds r.o k (start c0) with
               | .ok (_, mk, _) => [mk.px i j]
               | .error _ => [0])
            else []
          let s := lastT.apply (gridPt2 i j)
          vals ++ mk ++ [s.x, s.y]
        s!"ok {im0.h} {im0.w} {fA2 lastT} {fmtRats [(im0.h : Rat), (im0.w : Rat)]} {fV2s lms} {fmtRats pixs}"

/-! ### 3-D -/

def pOp3 (n0 n1 n2 : Nat) : P (Except Err Plan3) := do
  let t ← tok
  match t with
  | "rescale" => do let s ← pV3; let r ← pRound; pure (rescalePlan3 n0 n1 n2 s r)
  | "resize" => do let m ← pV3; pure (resizePlan3 n0 n1 n2 m)
  | "crop" => do let mn ← pV3; let mx ← pV3; let cb ← pBool; pure (cropPlan3 n0 n1 n2 mn mx cb)
  | "zoom" => do let s ← pRat; pure (zoomPlan3 n0 n1 n2 s)
  | "mirror" => do let ax ← pNat; pure (mirrorPlan3 n0 n1 n2 ax)
  | "warp" => do
    let m0 ← pNat; let m1 ← pNat; let m2 ← pNat; let T ← pAff3; let m ← pMode
    pure (warpPlan3 m0 m1 m2 T m)
  | _ => failure

structure Req3 where
  cls : Cls
  n0 : Nat
  n1 : Nat
  n2 : Nat
  chans : List (Int → Int → Int → Rat)
  mask : Int → Int → Int → Rat
  o : Interp
  plan : Except Err Plan3
  lms : List V3
  pix : List (Int × Int × Int)

def pReq3 : P Req3 := do
  let cls ← pCls
  let n0 ← pNat; let n1 ← pNat; let n2 ← pNat; let nch ← pNat
  let chans ← pMany pContent3 nch
  let mask ← if cls = .masked then pContent3 else pure (fun _ _ _ => (1 : Rat))
  let o ← pOrder
  let plan ← pOp3 n0 n1 n2
  let t ← tok
  if t ≠ "LM" then failure
  let lms ← pList pV3
  let t ← tok
  if t ≠ "PIX" then failure
  let pix ← pList pIdx3
  pure ⟨cls, n0, n1, n2, chans, mask, o, plan, lms, pix⟩

def answer3 (r : Req3) : String :=
  match r.plan with
  | .error e => fErr e
  | .ok p =>
    let lms := r.lms.map p.landmark
    let pixs := r.pix.flatMap fun (i, j, k) =>
      let vals := r.chans.map fun c =>
        if r.cls = .bool then (p.runMask ⟨r.n0, r.n1, r.n2, c⟩).px i j k
        else (p.run r.o ⟨r.n0, r.n1, r.n2, c⟩).px i j k
      let mk := if r.cls = .masked then [(p.runMask ⟨r.n0, r.n1, r.n2, r.mask⟩).px i j k] else []
      let s := p.T.apply (gridPt3 i j k)
      vals ++ mk ++ [s.x, s.y, s.z]
    let flms := fmtRats (lms.flatMap fun q => [q.x, q.y, q.z])
    s!"ok {p.n0} {p.n1} {p.n2} {fA3 p.T} {fmtRats [p.pre.x, p.pre.y, p.pre.z]} {flms} {fmtRats pixs}"

/-! ### `Image.sample` at arbitrary points (also used for the pixels of non-affine warps: the harness passes
the points `T p` the transform object produced, the model answers what the funnel stores there) -/

structure ReqS where
  h : Nat
  w : Nat
  chans : List (Int → Int → Rat)
  o : Interp
  m : Mode
  pts : List V2

def pReqS : P ReqS := do
  let h ← pNat; let w ← pNat; let nch ← pNat
  let chans ← pMany (pContent2 h w) nch
  let o ← pOrder
  let m ← pMode
  let t ← tok
  if t ≠ "PTS" then failure
  let pts ← pList pV2
  pure ⟨h, w, chans, o, m, pts⟩

def answerS (r : ReqS) : String :=
  "ok " ++ fmtRats (r.pts.flatMap fun q => r.chans.map fun c => (Img2.sample r.o r.m ⟨r.h, r.w, c⟩ q))

/-! ### exact contract quantities, and registration under a tabulated (non-affine) transform -/

def answerK (toks : List String) : String :=
  match toks with
  | "diag" :: rest => (match runP (do let h ← pNat; let w ← pNat; pure (h, w)) rest with
    | some (h, w) => "ok " ++ fmtRat ((h : Rat) * h + (w : Rat) * w)
    | none => "bad-op")
  | "ss" :: rest => (match runP (pList pV2) rest with
    | some pts => "ok " ++ fmtRat (centredSS pts)
    | none => "bad-op")
  | "range" :: rest => (match runP (pList pV2) rest with
    | some pts => let rg := rangeOf pts; "ok " ++ fmtRat (rg.x * rg.x + rg.y * rg.y)
    | none => "bad-op")
  | _ => "bad-op"

structure ReqW where
  h : Nat
  w : Nat
  chans : List (Int → Int → Rat)
  m : Mode
  th : Nat
  tw : Nat
  l : V2
  cell : List (Int × Int × V2)

def pReqW : P ReqW := do
  let h ← pNat; let w ← pNat; let nch ← pNat
  let chans ← pMany (pContent2 h w) nch
  let m ← pMode
  let th ← pNat; let tw ← pNat
  let l ← pV2
  let t ← tok
  if t ≠ "CELL" then failure
  let cell ← pList (do let i ← pInt; let j ← pInt; let v ← pV2; pure (i, j, v))
  pure ⟨h, w, chans, m, th, tw, l, cell⟩

def answerW (r : ReqW) : String :=
  let T : V2 → V2 := fun p =>
    match r.cell.find? (fun (i, j, _) => (i : Rat) = p.x ∧ (j : Rat) = p.y) with
    | some (_, _, v) => v
    | none => ⟨0, 0⟩
  let vals := r.chans.map fun c => (warpF2 .linear r.m ⟨r.h, r.w, c⟩ r.th r.tw T).sample .linear .nearest r.l
  let it := interpT r.th r.tw T r.l
  "ok " ++ fmtRats (vals ++ [it.x, it.y])

def step (toks : List String) : String :=
  match toks with
  | "k2" :: rest => answerK rest
  | "w2" :: rest => match runP pReqW rest with
    | some r => answerW r
    | none => "bad-op"
  | "s2" :: rest => match runP pReqS rest with
    | some r => answerS r
    | none => "bad-op"
  | "c2" :: rest => match runP pReq2 rest with
    | some r => answer2 r
    | none => "bad-op"
  | "c3" :: rest => match runP pReq3 rest with
    | some r => answer3 r
    | none => "bad-op"
  | _ => "bad-op"

end MenpoModel.Drive.C01
