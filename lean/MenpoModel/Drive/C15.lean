/-
Line-protocol driver for the C15 models (labelled groups, labellers).  Parsing glue only.

graph := n  ne u₁ v₁ …  nl (name bits)…        bits = one token of n characters 0/1; points are the ids 0..n-1
ops   := with G k names… | without G k names… | withoutrev G k names… (as coded, set order = reversed)
       | get G name | add G name k idx… | addc G name k idx… (as coded) | remove G name
       | seq G nops op…   op := W k names… | X k names… | A name k idx… | R name
       | construct G       (the constructor on a recipe whose masks may be too short / too long (`-` = empty) / not covering)
       | fromidx n ne u v … nl (name k idx…)…     (`init_from_indices_mapping`)
       | allLabel n ne u v …                      (`init_with_all_label`)
       | withstr G name | withoutstr G name     (the `str` argument form, `LabelsArg.str`)
       | lab fname n       (the regenerated table `Generated.all` applied to the ids 0..n-1)
       | call fname kind n rm    (`LabFunc.call` of `Generated.funcs` on an input of that kind with the ids 0..n-1;
                                  kind = ndarray|pointcloud|lgraph|group, rm = 0|1)
       | relabel ng (key dim n)… src|- nf fname…   (`relabelMany` on a manager of point clouds; group i holds the ids
                                  1000·i + 0..n-1; the same source key (or `-` = None) for every function)
reply := ok n id… ne u v … nl (name bits)… | err key|value|index|empty|labelling [at i]
         (get: ok n id… ne u v…)
         call:    <cls> <nmap> (name k idx…)… | <graph reply>     or   err …
         relabel: okm ng (key cls dim <graph reply without the leading ok>)…   or   err …
-/
import MenpoModel.Core.Codec
import MenpoModel.Core.C15Entry
import MenpoModel.Generated.C15Labellers

namespace MenpoModel.Drive.C15
open MenpoModel.Codec MenpoModel.C15

def pBits : P (List Bool) := do
  let t ← tok
  pure (if t == "-" then [] else t.toList.map (· == '1'))

def pEdge : P (Nat × Nat) := do let u ← pNat; let v ← pNat; pure (u, v)
def pLabel : P (String × List Bool) := do let l ← tok; let b ← pBits; pure (l, b)

def pGraph : P (LGraph Nat) := do
  let n ← pNat
  let es ← pList pEdge
  let ls ← pList pLabel
  pure { pts := List.range n, edges := es, labels := ls }

def pOp : P Op := do
  let t ← tok
  match t with
  | "W" => do let r ← pList tok; pure (.withL r)
  | "X" => do let r ← pList tok; pure (.withoutL r)
  | "A" => do let l ← tok; let i ← pList pInt; pure (.add l i)
  | "R" => do let l ← tok; pure (.remove l)
  | _ => failure

def fmtErr : Err → String
  | .key => "err key" | .value => "err value" | .index => "err index"
  | .empty => "err empty" | .labelling => "err labelling" | .type => "err type"

def fmtBits (m : List Bool) : String := String.ofList (m.map fun b => if b then '1' else '0')
def fmtEdges (es : List (Nat × Nat)) : String :=
  s!"{es.length}" ++ String.join (es.map fun e => s!" {e.1} {e.2}")
def fmtPts (ps : List Nat) : String := s!"{ps.length}" ++ String.join (ps.map fun p => s!" {p}")
def fmtName (l : String) : String := l.replace " " "~"
def fmtGraph (g : LGraph Nat) : String :=
  s!"ok {fmtPts g.pts} {fmtEdges g.edges} {g.labels.length}" ++
    String.join (g.labels.map fun p => s!" {fmtName p.1} {fmtBits p.2}")

def fmtRes : Except Err (LGraph Nat) → String
  | .ok g => fmtGraph g
  | .error e => fmtErr e

/-- index of the first raising operation, for `seq` -/
def runAt (st : LGraph Nat → Op → Except Err (LGraph Nat)) : Nat → LGraph Nat → List Op → String
  | _, g, [] => fmtGraph g
  | i, g, o :: os => match st g o with
    | .error e => s!"{fmtErr e} at {i}"
    | .ok g' => runAt st (i + 1) g' os

def pKind : P InKind := do
  let t ← tok
  match t with
  | "ndarray" => pure .ndarray
  | "pointcloud" => pure .pointcloud
  | "lgraph" => pure .lgraph
  | "group" => pure .group
  | _ => failure

def fmtCls : OutCls → String
  | .lgraph => "lgraph" | .trimesh => "trimesh" | .pugraph => "pugraph" | .pointcloud => "pointcloud"
  | .other => "other"

def fmtMapping : Option (List (String × List Nat)) → String
  | none => "0"
  | some m => s!"{m.length}" ++ String.join (m.map fun p => s!" {fmtName p.1} {fmtPts p.2}")

def lookupFunc (name : String) : Option LabFunc := Generated.funcs.find? fun f => f.name == name

def pGroup (i : Nat) : P (String × Shape Nat) := do
  let k ← tok
  let d ← pNat
  let n ← pNat
  pure (k, { dim := d, cls := .pointcloud,
             g := { pts := (List.range n).map (· + 1000 * i), edges := [], labels := [] } })

def pGroups : Nat → Nat → P (List (String × Shape Nat))
  | 0, _ => pure []
  | k+1, i => do let g ← pGroup i; let rest ← pGroups k (i + 1); pure (g :: rest)

def fmtManager (m : Manager Nat) : String :=
  s!"okm {m.groups.length}" ++ String.join (m.groups.map fun p =>
    s!" {fmtName p.1} {fmtCls p.2.cls} {p.2.dim} {(fmtGraph p.2.g).drop 3}")

def step (toks : List String) : String :=
  match toks with
  | "construct" :: rest => match runP pGraph rest with
    | some g => fmtRes (construct g.pts g.edges g.labels)
    | none => "bad-op"
  | "fromidx" :: rest => match runP (do
        let n ← pNat
        let es ← pList pEdge
        let ms ← pList (do let l ← tok; let ix ← pList pInt; pure (l, ix))
        pure (n, es, ms)) rest with
    | some (n, es, ms) => fmtRes (initFromIndices (List.range n) es ms)
    | none => "bad-op"
  | "allLabel" :: rest => match runP (do let n ← pNat; let es ← pList pEdge; pure (n, es)) rest with
    | some (n, es) => fmtRes (initWithAllLabel (List.range n) es)
    | none => "bad-op"
  | "withstr" :: rest => match runP (do let g ← pGraph; let l ← tok; pure (g, l)) rest with
    | some (g, l) => fmtRes (withLabelsA g (.str l))
    | none => "bad-op"
  | "withoutstr" :: rest => match runP (do let g ← pGraph; let l ← tok; pure (g, l)) rest with
    | some (g, l) => fmtRes (withoutLabelsA g (.str l))
    | none => "bad-op"
  | "call" :: fname :: rest => match runP (do let k ← pKind; let n ← pNat; let rm ← pNat; pure (k, n, rm)) rest,
                                     lookupFunc fname with
    | some (k, n, rm), some f =>
      match f.call { kind := k, pts := List.range n, edges := if n > 1 then [(0, 1)] else [],
                     labels := [("all", List.replicate n true)] } (rm != 0) with
      | .ok o => s!"{fmtCls o.cls} {fmtMapping o.mapping} | {fmtGraph o.g}"
      | .error e => fmtErr e
    | _, none => "err unknown-labeller"
    | none, _ => "bad-op"
  | "relabel" :: rest =>
    match runP (do
        let ng ← pNat
        let gs ← pGroups ng 0
        let src ← tok
        let fs ← pList tok
        pure (gs, src, fs)) rest with
    | some (gs, src, fs) =>
      match fs.mapM lookupFunc with
      | none => "err unknown-labeller"
      | some funcs =>
        let grp := if src == "-" then none else some src
        match relabelMany { groups := gs } (funcs.map fun f => (grp, f)) with
        | .ok m => fmtManager m
        | .error e => fmtErr e
    | none => "bad-op"
  | "with" :: rest => match runP (do let g ← pGraph; let r ← pList tok; pure (g, r)) rest with
    | some (g, r) => fmtRes (withLabels g r)
    | none => "bad-op"
  | "without" :: rest => match runP (do let g ← pGraph; let r ← pList tok; pure (g, r)) rest with
    | some (g, r) => fmtRes (withoutLabels g r)
    | none => "bad-op"
  | "withoutrev" :: rest => match runP (do let g ← pGraph; let r ← pList tok; pure (g, r)) rest with
    | some (g, r) => fmtRes (withoutLabelsCoded List.reverse g r)
    | none => "bad-op"
  | "get" :: rest => match runP (do let g ← pGraph; let l ← tok; pure (g, l)) rest with
    | some (g, l) => match getLabel g l with
      | .ok (ps, es) => s!"ok {fmtPts ps} {fmtEdges es}"
      | .error e => fmtErr e
    | none => "bad-op"
  | "add" :: rest => match runP (do let g ← pGraph; let l ← tok; let i ← pList pInt; pure (g, l, i)) rest with
    | some (g, l, i) => fmtRes (addLabel g l i)
    | none => "bad-op"
  | "addc" :: rest => match runP (do let g ← pGraph; let l ← tok; let i ← pList pInt; pure (g, l, i)) rest with
    | some (g, l, i) => fmtRes (addLabelCoded g l i)
    | none => "bad-op"
  | "remove" :: rest => match runP (do let g ← pGraph; let l ← tok; pure (g, l)) rest with
    | some (g, l) => fmtRes (removeLabel g l)
    | none => "bad-op"
  | "seq" :: rest => match runP (do let g ← pGraph; let os ← pList pOp; pure (g, os)) rest with
    | some (g, os) =>
      -- `run` is what `run_invariant` is about; `runAt` only adds the position of the failure
      match run MenpoModel.C15.step g os with
      | .ok g' => fmtGraph g'
      | .error _ => runAt MenpoModel.C15.step 0 g os
    | none => "bad-op"
  | ["lab", fname, n] => match n.toNat?, Generated.all.lookup fname with
    | some n, some t => fmtRes (t.apply (List.range n))
    | _, none => "err unknown-labeller"
    | none, _ => "bad-op"
  | _ => "bad-op"

end MenpoModel.Drive.C15
