/-
Line-protocol driver for the C10 models (PCA).  Parsing glue only; every number printed is the value
of a definition of `Core/C10Book.lean` / `Core/C10Linear.lean` (the ones the theorems are about).

val  := N | I k | F r | P k | G r tvr <k cum…>   (None / python int / python float / numpy int /
                                                  python float with the float values the code computed)
        | R r tvr <k cum…>                        (as G, the repaired setter: count clamped to n_components)
op   := S val | T val | O d k1                   (n_active_components = val / trim_components(val) /
                                                  orthonormalize_against_inplace, other has k1 components)
ops:
  book rows <k e₁…e_k> val <m op₁…op_m>
      → err value                                 (the constructor raised)
      | ok STATE (; ok|err STATE)*                 one STATE after the build and after every op
      STATE := rows nActive activeRows | k eig… | k trimmed… | k eigenvalues… | variance original
               noise varianceRatio noiseRatio | k cumulativeRatio… | k eigenvaluesRatio… | (E | inverseNoise)
  post eps inv <k v₁…v_k>   → ok <m idx…> <m val…>    (eigenvalue_decomposition post-processing)
  pca centre <n d X…> <k d U…> <k l…>
      → ok <d mean…> trC sumL maxOrth maxEig maxVar <k sampleVariance…> maxRecon
  lin <k d U…> <d m…> <d x…> <j w…>
      → ok <k project…> (<d instance…> | E) <d reconstruct…> <d project_out…> maxUres
  lvm hasMean <k d U…> <d m…> <d x…> <j w…>      (LinearVectorModel / MeanLinearVectorModel: exact weight count)
      → ok <k project…> (<d instance…> | E) <d reconstruct…> <d project_out…>
  obj (pc p dims | img c h w) tagT tagO <k d U…> <d m…> <d x…> <j w…> <k sd…> idx scale
      → ok <k project…> ; OBJ mean ; (OBJ | E) instance ; OBJ reconstruct ; OBJ project_out ; OBJ component
      OBJ := tag <d entries in the object's own nested index order>
  white rows <k eig…> <t trimmed…> nActive nSamples <k' d U…> <k' σ…> <k' sd…> <d m…> <d x…> idx scale <k' w…>
      → ok resσ ressd <k'·d W…> <k' project_whitened…> <d component…> <d instance(normalized)…>
-/
import MenpoModel.Core.Codec
import MenpoModel.Core.C10Book
import MenpoModel.Core.C10Linear
import MenpoModel.Core.C10Object

namespace MenpoModel.Drive.C10
open MenpoModel.Codec MenpoModel.C10 Matrix

def pVal : P (Option Val) := do
  let t ← tok
  match t with
  | "N" => pure none
  | "I" => do let k ← pInt; pure (some (.int k))
  | "F" => do let r ← pRat; pure (some (.float r))
  | "P" => do let k ← pInt; pure (some (.npint k))
  | "G" => do let r ← pRat; let tvr ← pRat; let cum ← pList pRat; pure (some (.floatObs r tvr cum))
  | "R" => do let r ← pRat; let tvr ← pRat; let cum ← pList pRat; pure (some (.floatObsClamped r tvr cum))
  | _ => failure

def pOp : P Op := do
  let t ← tok
  match t with
  | "S" => do
    let v ← pVal
    match v with
    | some v => pure (.set v)
    | none => failure
  | "T" => do let v ← pVal; pure (.trim v)
  | "O" => do let d ← pNat; let k1 ← pNat; pure (.ortho d k1)
  | _ => failure

def fmtL (l : List Rat) : String := s!"{l.length}" ++ String.join (l.map fun r => " " ++ fmtRat r)

def fmtSt (s : St) : String :=
  s!"{s.rows} {s.nActive} {s.activeRows} | {fmtL s.eig} | {fmtL s.trimmed} | {fmtL s.eigenvalues} | " ++
  s!"{fmtRat s.variance} {fmtRat s.originalVariance} {fmtRat s.noiseVariance} {fmtRat s.varianceRatio} " ++
  s!"{fmtRat s.noiseVarianceRatio} | {fmtL s.eigenvaluesCumulativeRatio} | {fmtL s.eigenvaluesRatio} | " ++
  (match s.inverseNoiseVariance with | .ok v => fmtRat v | .error _ => "E")

/-- run the history, printing the state after every operation (`St.step` semantics) -/
def runLog : St → List Op → List String
  | _, [] => []
  | s, o :: t =>
    match s.apply o with
    | .ok s' => ("ok " ++ fmtSt s') :: runLog s' t
    | .error _ => ("err " ++ fmtSt s) :: runLog s t

def rowsArr (rows : List (List Rat)) : Array (Array Rat) := (rows.map List.toArray).toArray

def vecL {n : Nat} (v : Fin n → ℚ) : List Rat := (List.finRange n).map v

/-- `Xa`, `Ua`, `la`: the parsed inputs as arrays -/
def pcaCheck (centre : Bool) (n d k : Nat) (Xa Ua : Array (Array Rat)) (la : Array Rat) : String :=
  let X := ofArr n d Xa
  let U := ofArr k d Ua
  let l := vofArr k la
  let ma := vtoArr (pcaMean centre X)
  let m := vofArr d ma
  let xca := toArr (centred X m)
  let Xc := ofArr n d xca
  let ca := toArr (symmetrize (cov Xc))
  let C := ofArr d d ca
  let sva := vtoArr (sampleVariance Xc U)
  let sv := vofArr k sva
  let reca := toArr (Matrix.of fun s => reconstruct U m (fun j => X s j) - fun j => X s j : Matrix (Fin n) (Fin d) ℚ)
  let sumL : ℚ := ∑ i, l i
  s!"ok {fmtL ma.toList} {fmtRat (trace C)} {fmtRat sumL} {fmtRat (maxAbsEntry (orthResidual U))} " ++
  s!"{fmtRat (maxAbsEntry (eigResidual C U l))} {fmtRat (maxAbsVec (fun i => l i - sv i))} {fmtL sva.toList} " ++
  s!"{fmtRat (maxAbsEntry (ofArr n d reca))}"

def linCheck (k d : Nat) (Ua : Array (Array Rat)) (ma xa : Array Rat) (w : List Rat) : String :=
  let U := ofArr k d Ua
  let m := vofArr d ma
  let x := vofArr d xa
  let pa := vtoArr (project U m x)
  let ins : String :=
    match instPadded U m w with
    | none => "E"
    | some v => fmtL (vtoArr v).toList
  let ra := vtoArr (inst U m (vofArr k pa))
  let oa := vtoArr ((x - m) - (vofArr k pa) ᵥ* U)
  s!"ok {fmtL pa.toList} {ins} {fmtL ra.toList} {fmtL oa.toList} {fmtRat (maxAbsVec (U *ᵥ (vofArr d oa)))}"

def wfun (k : Nat) (w : List Rat) : Fin k → ℚ := fun i => w.toArray.getD i.val 0

/-- `LinearVectorModel` (`hasMean = false`: the mean-free definitions) / `MeanLinearVectorModel` -/
def lvmCheck (hasMean : Bool) (k d : Nat) (Ua : Array (Array Rat)) (ma xa : Array Rat) (w : List Rat) : String :=
  let U := ofArr k d Ua
  let m := vofArr d ma
  let x := vofArr d xa
  let pa := vtoArr (if hasMean then project U m x else linProject U x)
  let ins : String :=
    match exactWeights k w with
    | none => "E"
    | some f => fmtL (vtoArr (if hasMean then inst U m f else linInstance U f)).toList
  let ra := vtoArr (if hasMean then inst U m (vofArr k pa) else linInstance U (vofArr k pa))
  let oa := vtoArr (if hasMean then (x - m) - (vofArr k pa) ᵥ* U else x - linInstance U (vofArr k pa))
  s!"ok {fmtL pa.toList} {ins} {fmtL ra.toList} {fmtL oa.toList}"

/-- the object-level operations of a `PCAModel` over a concrete class; `show` prints an object in its own
nested index order -/
def objCheck {α : Type} {d k : Nat} (M : ObjModel α d k) (o : α) (w : List Rat) (sd : Fin k → ℚ) (idx : Nat)
    (scale : ℚ) («show» : α → String) : String :=
  let pr := fmtL (vtoArr (M.project o)).toList
  let ins := match M.instPadded w with | none => "E" | some a => «show» a
  let comp := if h : idx < k then «show» (M.component sd ⟨idx, h⟩ true scale) else "E"
  s!"ok {pr} ; {«show» M.mean} ; {ins} ; {«show» (M.reconstruct o)} ; {«show» (M.projectOut o)} ; {comp}"

def showPC {p dims : Nat} (o : PC p dims) : String :=
  s!"{o.tag} " ++ fmtRats ((List.finRange p).flatMap fun i => (List.finRange dims).map fun j => o.points i j)

def showImg {c h w : Nat} (o : Img c h w) : String :=
  s!"{o.tag} " ++ fmtRats ((List.finRange c).flatMap fun ch => (List.finRange h).flatMap fun y =>
    (List.finRange w).map fun x => o.pixels ch y x)

def objPC (p dims k : Nat) (tagT tagO : Nat) (Ua : Array (Array Rat)) (ma xa : Array Rat) (w sd : List Rat)
    (idx : Nat) (scale : ℚ) : String :=
  let d := p * dims
  let ops := pcOps p dims
  let M : ObjModel (PC p dims) d k :=
    { ops := ops, template := freezePC (ops.fromVec ⟨0, tagT⟩ (vofArr d ma)), U := ofArr k d Ua, m := vofArr d ma }
  let o : PC p dims := freezePC (ops.fromVec ⟨0, tagO⟩ (vofArr d xa))
  objCheck M o w (wfun k sd) idx scale showPC

def objImg (c h w' k : Nat) (tagT tagO : Nat) (Ua : Array (Array Rat)) (ma xa : Array Rat) (w sd : List Rat)
    (idx : Nat) (scale : ℚ) : String :=
  let d := c * h * w'
  let ops := imgOps c h w'
  let M : ObjModel (Img c h w') d k :=
    { ops := ops, template := ops.fromVec ⟨fun _ _ _ => 0, tagT⟩ (vofArr d ma), U := ofArr k d Ua, m := vofArr d ma }
  let o : Img c h w' := ops.fromVec ⟨fun _ _ _ => 0, tagO⟩ (vofArr d xa)
  objCheck M o w (wfun k sd) idx scale showImg

def whiteCheck (st : St) (nS : ℚ) (k d : Nat) (Ua : Array (Array Rat)) (sga sda ma xa : Array Rat) (idx : Nat)
    (scale : ℚ) (w : List Rat) : String :=
  let U := ofArr k d Ua
  let σ := vofArr k sga
  let sd := vofArr k sda
  let m := vofArr d ma
  let x := vofArr d xa
  let l : Fin k → ℚ := fun i => st.eigenvalues.toArray.getD i.val 0
  let noise := st.noiseVariance
  let resσ := maxAbsVec (fun i => σ i ^ 2 - (l i * nS + noise))
  let ressd := maxAbsVec (fun i => sd i ^ 2 - l i)
  let Wa := toArr (whitened U σ)
  let pw := vtoArr (projectWhitened U σ x)
  let comp := if h : idx < k then fmtL (vtoArr (component U m sd ⟨idx, h⟩ true scale)).toList else "E"
  let insn := fmtL (vtoArr (instNormalized U m sd (wfun k w))).toList
  s!"ok {fmtRat resσ} {fmtRat ressd} {fmtL (Wa.toList.flatMap Array.toList)} {fmtL pw.toList} {comp} {insn}"

def step (toks : List String) : String :=
  match toks with
  | "book" :: rest =>
    match runP (do let rows ← pNat; let e ← pList pRat; let mx ← pVal; let ops ← pList pOp
                   pure (rows, e, mx, ops)) rest with
    | none => "bad-op"
    | some (rows, e, mx, ops) =>
      match build rows e mx with
      | .error _ => "err value"
      | .ok s => " ; ".intercalate (("ok " ++ fmtSt s) :: runLog s ops)
  | "post" :: rest =>
    match runP (do let eps ← pRat; let inv ← pBool; let vs ← pList pRat; pure (eps, inv, vs)) rest with
    | none => "bad-op"
    | some (eps, inv, vs) =>
      let out := postprocess eps inv (vs.zipIdx)
      s!"ok {out.length}" ++ String.join (out.map fun p => s!" {p.2}") ++ s!" {fmtL (out.map Prod.fst)}"
  | "pca" :: rest =>
    match runP (do let c ← pBool; let X ← pMat; let U ← pMat; let l ← pList pRat; pure (c, X, U, l)) rest with
    | none => "bad-op"
    | some (c, X, U, l) =>
      let n := X.length
      let d := (X.headD []).length
      let k := U.length
      pcaCheck c n d k (rowsArr X) (rowsArr U) l.toArray
  | "lin" :: rest =>
    match runP (do let U ← pMat; let m ← pList pRat; let x ← pList pRat; let w ← pList pRat
                   pure (U, m, x, w)) rest with
    | none => "bad-op"
    | some (U, m, x, w) =>
      let k := U.length
      let d := m.length
      linCheck k d (rowsArr U) m.toArray x.toArray w
  | "lvm" :: rest =>
    match runP (do let hm ← pBool; let U ← pMat; let m ← pList pRat; let x ← pList pRat; let w ← pList pRat
                   pure (hm, U, m, x, w)) rest with
    | none => "bad-op"
    | some (hm, U, m, x, w) => lvmCheck hm U.length m.length (rowsArr U) m.toArray x.toArray w
  | "obj" :: "pc" :: rest =>
    match runP (do let p ← pNat; let dims ← pNat; let tT ← pNat; let tO ← pNat; let U ← pMat; let m ← pList pRat
                   let x ← pList pRat; let w ← pList pRat; let sd ← pList pRat; let idx ← pNat; let sc ← pRat
                   pure (p, dims, tT, tO, U, m, x, w, sd, idx, sc)) rest with
    | none => "bad-op"
    | some (p, dims, tT, tO, U, m, x, w, sd, idx, sc) =>
      if m.length ≠ p * dims ∨ x.length ≠ p * dims then "bad-op"
      else objPC p dims U.length tT tO (rowsArr U) m.toArray x.toArray w sd idx sc
  | "obj" :: "img" :: rest =>
    match runP (do let c ← pNat; let h ← pNat; let w' ← pNat; let tT ← pNat; let tO ← pNat; let U ← pMat
                   let m ← pList pRat; let x ← pList pRat; let w ← pList pRat; let sd ← pList pRat; let idx ← pNat
                   let sc ← pRat; pure (c, h, w', tT, tO, U, m, x, w, sd, idx, sc)) rest with
    | none => "bad-op"
    | some (c, h, w', tT, tO, U, m, x, w, sd, idx, sc) =>
      if m.length ≠ c * h * w' ∨ x.length ≠ c * h * w' then "bad-op"
      else objImg c h w' U.length tT tO (rowsArr U) m.toArray x.toArray w sd idx sc
  | "white" :: rest =>
    match runP (do let rows ← pNat; let e ← pList pRat; let tr ← pList pRat; let na ← pNat; let nS ← pRat
                   let U ← pMat; let sg ← pList pRat; let sd ← pList pRat; let m ← pList pRat; let x ← pList pRat
                   let idx ← pNat; let sc ← pRat; let w ← pList pRat
                   pure (rows, e, tr, na, nS, U, sg, sd, m, x, idx, sc, w)) rest with
    | none => "bad-op"
    | some (rows, e, tr, na, nS, U, sg, sd, m, x, idx, sc, w) =>
      whiteCheck { rows := rows, eig := e, trimmed := tr, nActive := na } nS U.length m.length (rowsArr U)
        sg.toArray sd.toArray m.toArray x.toArray idx sc w
  | _ => "bad-op"

end MenpoModel.Drive.C10
