/-
Line-protocol driver for the C10 models (PCA).  Parsing glue only; every number printed is the value
of a definition of `Core/C10Book.lean` / `Core/C10Linear.lean` (the ones the theorems are about).

val  := N | I k | F r | P k                      (None / python int / python float / numpy int)
op   := S val | T val                            (n_active_components = val / trim_components(val))
ops:
  book rows <k e₁…e_k> val <m op₁…op_m>
      → err value                                 (the constructor raised)
      | ok STATE (; ok|err STATE)*                 one STATE after the build and after every op
      STATE := rows nActive activeRows | k eig… | k trimmed… | k eigenvalues… | variance original
               noise varianceRatio noiseRatio | k cumulativeRatio…
  post eps inv <k v₁…v_k>   → ok <m idx…> <m val…>    (eigenvalue_decomposition post-processing)
  pca centre <n d X…> <k d U…> <k l…>
      → ok <d mean…> trC sumL maxOrth maxEig maxVar <k sampleVariance…> maxRecon
  lin <k d U…> <d m…> <d x…> <j w…>
      → ok <k project…> (<d instance…> | E) <d reconstruct…> <d project_out…> maxUres
-/
import MenpoModel.Core.Codec
import MenpoModel.Core.C10Book
import MenpoModel.Core.C10Linear

namespace MenpoModel.Drive.C10
open MenpoModel.Codec MenpoModel.C10 Matrix

def pVal : P (Option Val) := do
  let t ← tok
  match t with
  | "N" => pure none
  | "I" => do let k ← pInt; pure (some (.int k))
  | "F" => do let r ← pRat; pure (some (.float r))
  | "P" => do let k ← pInt; pure (some (.npint k))
  | _ => failure

def pOp : P Op := do
  let t ← tok
  match t with
  | "S" => do
    let v ← pVal
    match v with
    | some v => pure (.set v)
    | none => failure
  | "T" => do let v ← pVal; pure (.trim v)
  | _ => failure

def fmtL (l : List Rat) : String := s!"{l.length}" ++ String.join (l.map fun r => " " ++ fmtRat r)

def fmtSt (s : St) : String :=
  s!"{s.rows} {s.nActive} {s.activeRows} | {fmtL s.eig} | {fmtL s.trimmed} | {fmtL s.eigenvalues} | " ++
  s!"{fmtRat s.variance} {fmtRat s.originalVariance} {fmtRat s.noiseVariance} {fmtRat s.varianceRatio} " ++
  s!"{fmtRat s.noiseVarianceRatio} | {fmtL s.eigenvaluesCumulativeRatio}"

/-- run the history, printing the state after every operation (`St.step` semantics) -/
def runLog : St → List Op → List String
  | _, [] => []
  | s, o :: t =>
    match s.apply o with
    | .ok s' => ("ok " ++ fmtSt s') :: runLog s' t
    | .error _ => ("err " ++ fmtSt s) :: runLog s t

def rowsArr (rows : List (List Rat)) : Array (Array Rat) := (rows.map List.toArray).toArray

def vecL {n : Nat} (v : Fin n → ℚ) : List Rat := (List.finRange n).map v

/-- `Xa`, `Ua`, `la`: the parsed inputs as arrays -/
def pcaCheck (centre : Bool) (n d k : Nat) (Xa Ua : Array (Array Rat)) (la : Array Rat) : String :=
  let X := ofArr n d Xa
  let U := ofArr k d Ua
  let l := vofArr k la
  let ma := vtoArr (pcaMean centre X)
  let m := vofArr d ma
  let xca := toArr (centred X m)
  let Xc := ofArr n d xca
  let ca := toArr (symmetrize (cov Xc))
  let C := ofArr d d ca
  let sva := vtoArr (sampleVariance Xc U)
  let sv := vofArr k sva
  let reca := toArr (Matrix.of fun s => reconstruct U m (fun j => X s j) - fun j => X s j : Matrix (Fin n) (Fin d) ℚ)
  let sumL : ℚ := ∑ i, l i
  s!"ok {fmtL ma.toList} {fmtRat (trace C)} {fmtRat sumL} {fmtRat (maxAbsEntry (orthResidual U))} " ++
  s!"{fmtRat (maxAbsEntry (eigResidual C U l))} {fmtRat (maxAbsVec (fun i => l i - sv i))} {fmtL sva.toList} " ++
  s!"{fmtRat (maxAbsEntry (ofArr n d reca))}"

def linCheck (k d : Nat) (Ua : Array (Array Rat)) (ma xa : Array Rat) (w : List Rat) : String :=
  let U := ofArr k d Ua
  let m := vofArr d ma
  let x := vofArr d xa
  let pa := vtoArr (project U m x)
  let wa := w.toArray
  let ins : String :=
    if w.length > k then "E" else fmtL (vtoArr (inst U m (fun i : Fin k => wa.getD i.val 0))).toList
  let ra := vtoArr (inst U m (vofArr k pa))
  let oa := vtoArr ((x - m) - (vofArr k pa) ᵥ* U)
  s!"ok {fmtL pa.toList} {ins} {fmtL ra.toList} {fmtL oa.toList} {fmtRat (maxAbsVec (U *ᵥ (vofArr d oa)))}"

def step (toks : List String) : String :=
  match toks with
  | "book" :: rest =>
    match runP (do let rows ← pNat; let e ← pList pRat; let mx ← pVal; let ops ← pList pOp
                   pure (rows, e, mx, ops)) rest with
    | none => "bad-op"
    | some (rows, e, mx, ops) =>
      match build rows e mx with
      | .error _ => "err value"
      | .ok s => " ; ".intercalate (("ok " ++ fmtSt s) :: runLog s ops)
  | "post" :: rest =>
    match runP (do let eps ← pRat; let inv ← pBool; let vs ← pList pRat; pure (eps, inv, vs)) rest with
    | none => "bad-op"
    | some (eps, inv, vs) =>
      let out := postprocess eps inv (vs.zipIdx)
      s!"ok {out.length}" ++ String.join (out.map fun p => s!" {p.2}") ++ s!" {fmtL (out.map Prod.fst)}"
  | "pca" :: rest =>
    match runP (do let c ← pBool; let X ← pMat; let U ← pMat; let l ← pList pRat; pure (c, X, U, l)) rest with
    | none => "bad-op"
    | some (c, X, U, l) =>
      let n := X.length
      let d := (X.headD []).length
      let k := U.length
      pcaCheck c n d k (rowsArr X) (rowsArr U) l.toArray
  | "lin" :: rest =>
    match runP (do let U ← pMat; let m ← pList pRat; let x ← pList pRat; let w ← pList pRat
                   pure (U, m, x, w)) rest with
    | none => "bad-op"
    | some (U, m, x, w) =>
      let k := U.length
      let d := m.length
      linCheck k d (rowsArr U) m.toArray x.toArray w
  | _ => "bad-op"

end MenpoModel.Drive.C10
