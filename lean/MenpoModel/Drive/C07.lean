/-
Line-protocol driver for the C07 model (alignments).  Parsing / printing glue only; every number it prints is
computed by the definitions of `Core/C07Align.lean` that `Props/C07.lean` proves theorems about.

mat  := r c x₁₁ … x_rc          (row major, exact rationals)
ops  := translation S T                         → ok H err2
        scale S T rT rS                         → ok norm2S norm2T H norm2Aligned
        affine S T                              → ok H err2                      | err singular
        rotation mirror S T U Vt                → ok R detUVt err2 CORR           | err dim
        rotx mirror S T U D Vt                  → ok contract R err2 detR         | err dim
        similarity rot mirror S T rT rS U Vt    → ok H CORR norm2S norm2T err2 cent… norm2Aligned | err dim
        construct resync S T H                  → ok TARGET ALIGNED alignmentError2
        tps K S T np (x y kern₁…kern_n)*        → ok COEF (u v)*                  | err singular
        pwa SRC TGT nt (i j k)* np (x y)*       → ok (1 u v ti | 0)*
`H`, `R`, `CORR`, … are printed row major without a shape prefix.
-/
import MenpoModel.Core.Codec
import MenpoModel.Core.C07Align

namespace MenpoModel.Drive.C07
open MenpoModel.Codec MenpoModel.C07

structure AMat where
  r : Nat
  c : Nat
  a : Array (Array Rat)

def pAMat : P AMat := do
  let r ← pNat; let c ← pNat
  let rows ← pMany (pMany pRat c) r
  pure ⟨r, c, (rows.map List.toArray).toArray⟩

def AMat.m (x : AMat) (n m : Nat) : Mat n m := ofArr x.a

def fmtM {n m : Nat} (A : Mat n m) : String :=
  " ".intercalate ((List.finRange n).map fun i => " ".intercalate ((List.finRange m).map fun j => fmtRat (A i j)))
def fmtV {n : Nat} (v : Vec n) : String := " ".intercalate ((List.finRange n).map fun i => fmtRat (v i))

/-- Tabulation.  `let a := tab X; let Y : Mat n m := ofArr a` evaluates `X` entry by entry exactly once (an
`Array` value is computed strictly where it is bound) and `Y` then only looks entries up; `ofArr (toArr X) = X`
(`Props/C07.lean: ofArr_toArr`).  Writing `ofArr (toArr X)` inline would re-tabulate on every access. -/
def tab {n m : Nat} (A : Mat n m) : Array (Array Rat) := toArr A

def pBit : P Bool := pBool

def doTranslation (S T : AMat) : String :=
  let n := S.r; let d := S.c
  let s : Mat n d := S.m n d; let t : Mat n d := T.m n d
  let Ha := tab (fitTranslation s t); let H : HMat d := ofArr Ha
  s!"ok {fmtM H} {fmtRat (err2 (applyH H s) t)}"

def doScale (S T : AMat) (rT rS : Rat) : String :=
  let n := S.r; let d := S.c
  let s : Mat n d := S.m n d; let t : Mat n d := T.m n d
  let Ha := tab (fitScale rT rS : HMat d); let H : HMat d := ofArr Ha
  let ala := tab (applyH H s); let al : Mat n d := ofArr ala
  s!"ok {fmtRat (norm2 s)} {fmtRat (norm2 t)} {fmtM H} {fmtRat (norm2 al)}"

def doAffine (S T : AMat) : String :=
  let n := S.r; let d := S.c
  let s : Mat n d := S.m n d; let t : Mat n d := T.m n d
  match affineFit s t with
  | none => "err singular"
  | some H0 =>
    let Ha := tab H0; let H : HMat d := ofArr Ha
    s!"ok {fmtM H} {fmtRat (err2 (applyH H s) t)}"

def doRotation (mirror : Bool) (S T U Vt : AMat) : String :=
  let n := S.r; let d := S.c
  if d != 2 && d != 3 then "err dim" else
  let s : Mat n d := S.m n d; let t : Mat n d := T.m n d
  let u : Mat d d := U.m d d; let vt : Mat d d := Vt.m d d
  let Ra := tab (rotFit mirror u vt); let R : Mat d d := ofArr Ra
  let uva := tab (mul u vt); let uv : Mat d d := ofArr uva
  s!"ok {fmtM R} {fmtRat (det uv)} {fmtRat (err2 (applyH (rotationH R) s) t)} {fmtM (corr s t)}"

def doRotX (mirror : Bool) (S T U : AMat) (D : List Rat) (Vt : AMat) : String :=
  let n := S.r; let d := S.c
  if d != 2 && d != 3 then "err dim" else
  let s : Mat n d := S.m n d; let t : Mat n d := T.m n d
  let u : Mat d d := U.m d d; let vt : Mat d d := Vt.m d d
  let dv : Vec d := fun i => D.getD i.val 0
  let ca := tab (corr s t); let c : Mat d d := ofArr ca
  let ok := svdContractB c u dv vt
  let Ra := tab (rotFit mirror u vt); let R : Mat d d := ofArr Ra
  s!"ok {if ok then 1 else 0} {fmtM R} {fmtRat (err2 (applyH (rotationH R) s) t)} {fmtRat (det R)}"

def doSimilarity (rot mirror : Bool) (S T : AMat) (rT rS : Rat) (U Vt : AMat) : String :=
  let n := S.r; let d := S.c
  if d != 2 && d != 3 then "err dim" else
  let s : Mat n d := S.m n d; let t : Mat n d := T.m n d
  let u : Mat d d := U.m d d; let vt : Mat d d := Vt.m d d
  let Ra := tab (rotFit mirror u vt); let R : Mat d d := ofArr Ra
  let Ha := tab (simFit rot rT rS R s t); let H : HMat d := ofArr Ha
  let ala := tab (applyH H s); let al : Mat n d := ofArr ala
  let xsa := tab (simAlignedSrc (rT / rS) s); let xs : Mat n d := ofArr xsa
  let xta := tab (simAlignedTgt t); let xt : Mat n d := ofArr xta
  s!"ok {fmtM H} {fmtM (corr xs xt)} {fmtRat (norm2 s)} {fmtRat (norm2 t)} {fmtRat (err2 al t)} {fmtV (centroid al)} {fmtV (centroid t)} {fmtRat (norm2 al)}"

def doConstruct (resync : Bool) (S T H : AMat) : String :=
  let n := S.r; let d := S.c
  let s : Mat n d := S.m n d; let t : Mat n d := T.m n d
  let h : HMat d := H.m (d + 1) (d + 1)
  let a := construct resync s t h
  let tga := tab a.target; let tg : Mat n d := ofArr tga
  let ala := tab a.alignedSource; let al : Mat n d := ofArr ala
  s!"ok {fmtM tg} {fmtM al} {fmtRat (err2 tg al)}"

def doTps (K S T : AMat) (probes : List (Rat × Rat × List Rat)) : String :=
  let n := S.r
  let k : Mat n n := K.m n n; let s : Mat n 2 := S.m n 2; let t : Mat n 2 := T.m n 2
  match tpsFit k s t with
  | none => "err singular"
  | some c0 =>
    let ca := tab c0; let c : Mat (n + 3) 2 := ofArr ca
    let outs := probes.map fun (x, y, kr) =>
      let v := tpsApply c (fun i => kr.getD i.val 0) x y
      s!"{fmtRat (v 0)} {fmtRat (v 1)}"
    s!"ok {fmtM c}" ++ String.join (outs.map fun o => " " ++ o)

def doPwa (SRC TGT : AMat) (tris : List Tri) (pts : List (Rat × Rat)) : String :=
  let src : Nat → V2 := fun i => ⟨(SRC.a.getD i #[]).getD 0 0, (SRC.a.getD i #[]).getD 1 0⟩
  let tgt : Nat → V2 := fun i => ⟨(TGT.a.getD i #[]).getD 0 0, (TGT.a.getD i #[]).getD 1 0⟩
  let outs := pts.map fun (x, y) =>
    let p : V2 := ⟨x, y⟩
    match pwaTri src tris p, pwaApply src tgt tris p with
    | some t, some q => s!" 1 {fmtRat q.x} {fmtRat q.y} {tris.idxOf t}"
    | _, _ => " 0"
  "ok" ++ String.join outs

def pTri : P Tri := do let i ← pNat; let j ← pNat; let k ← pNat; pure (i, j, k)
def pPt : P (Rat × Rat) := do let x ← pRat; let y ← pRat; pure (x, y)

def step (toks : List String) : String :=
  match toks with
  | "translation" :: rest => match runP (do let s ← pAMat; let t ← pAMat; pure (s, t)) rest with
    | some (s, t) => doTranslation s t
    | none => "bad-op"
  | "scale" :: rest => match runP (do let s ← pAMat; let t ← pAMat; let a ← pRat; let b ← pRat; pure (s, t, a, b)) rest with
    | some (s, t, a, b) => doScale s t a b
    | none => "bad-op"
  | "affine" :: rest => match runP (do let s ← pAMat; let t ← pAMat; pure (s, t)) rest with
    | some (s, t) => doAffine s t
    | none => "bad-op"
  | "rotation" :: rest => match runP (do let m ← pBit; let s ← pAMat; let t ← pAMat; let u ← pAMat; let v ← pAMat; pure (m, s, t, u, v)) rest with
    | some (m, s, t, u, v) => doRotation m s t u v
    | none => "bad-op"
  | "rotx" :: rest => match runP (do let m ← pBit; let s ← pAMat; let t ← pAMat; let u ← pAMat; let d ← pList pRat; let v ← pAMat; pure (m, s, t, u, d, v)) rest with
    | some (m, s, t, u, d, v) => doRotX m s t u d v
    | none => "bad-op"
  | "similarity" :: rest => match runP (do
        let r ← pBit; let m ← pBit; let s ← pAMat; let t ← pAMat; let a ← pRat; let b ← pRat
        let u ← pAMat; let v ← pAMat; pure (r, m, s, t, a, b, u, v)) rest with
    | some (r, m, s, t, a, b, u, v) => doSimilarity r m s t a b u v
    | none => "bad-op"
  | "construct" :: rest => match runP (do let r ← pBit; let s ← pAMat; let t ← pAMat; let h ← pAMat; pure (r, s, t, h)) rest with
    | some (r, s, t, h) => doConstruct r s t h
    | none => "bad-op"
  | "tps" :: rest => match runP (do
        let k ← pAMat; let s ← pAMat; let t ← pAMat
        let pr ← pList (do let x ← pRat; let y ← pRat; let kr ← pMany pRat s.r; pure (x, y, kr))
        pure (k, s, t, pr)) rest with
    | some (k, s, t, pr) => doTps k s t pr
    | none => "bad-op"
  | "pwa" :: rest => match runP (do
        let s ← pAMat; let t ← pAMat; let tris ← pList pTri; let pts ← pList pPt; pure (s, t, tris, pts)) rest with
    | some (s, t, tris, pts) => doPwa s t tris pts
    | none => "bad-op"
  | _ => "bad-op"

end MenpoModel.Drive.C07
