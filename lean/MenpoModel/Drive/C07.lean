/-
Line-protocol driver for the C07 model (alignments).  Parsing / printing glue only; every number it prints is
computed by the definitions of `Core/C07Align.lean` that `Props/C07.lean` proves theorems about.

mat  := r c x₁₁ … x_rc          (row major, exact rationals)
ops  := translation S T                         → ok H err2
        scale S T rT rS                         → ok norm2S norm2T H norm2Aligned
        affine S T                              → ok H err2                      | err singular
        rotation mirror S T U Vt                → ok R detUVt err2 CORR           | err dim
        rotx mirror S T U D Vt                  → ok contract R err2 detR         | err dim
        similarity rot mirror S T rT rS U Vt    → ok H CORR norm2S norm2T err2 cent… norm2Aligned | err dim
        construct resync S T H                  → ok TARGET ALIGNED alignmentError2
        tps K S T np (x y kern₁…kern_n)*        → ok COEF (u v)*                  | err singular
        pwa SRC TGT nt (i j k)* np (x y)*       → ok cert (1 u v ti alpha beta | 0)*   (cert = pwaCertB on the triangle list)
        tpsaff K S T                            → ok invertible bendingIsZero     | err singular
        tpssvd K S T U ns s₁…s_ns Vt minSing np (x y kern₁…kern_n)*
                                                → ok keep keptOK symmetricL COEF (u v)*   (the coded truncated-SVD branch)
        gpa mirror hasT k (S)^k [T] (SIMWIT)^k initScale maxIter nw (newNorm (SIMWIT)^k)^nw
                                                → ok converged nIter REPORTED ALIGNTARGET (H)^k (err2)^k | err too-few-sources
          SIMWIT := rT rS U Vt
        `scale` and `similarity` answer `err zero-size-source` when `source.norm()` is 0 (`fitScaleE`/`simFitE`).
`H`, `R`, `CORR`, … are printed row major without a shape prefix.
-/
import MenpoModel.Core.Codec
import MenpoModel.Core.C07Align

namespace MenpoModel.Drive.C07
open MenpoModel.Codec MenpoModel.C07

structure AMat where
  r : Nat
  c : Nat
  a : Array (Array Rat)

def pAMat : P AMat := do
  let r ← pNat; let c ← pNat
  let rows ← pMany (pMany pRat c) r
  pure ⟨r, c, (rows.map List.toArray).toArray⟩

def AMat.m (x : AMat) (n m : Nat) : Mat n m := ofArr x.a

def fmtM {n m : Nat} (A : Mat n m) : String :=
  " ".intercalate ((List.finRange n).map fun i => " ".intercalate ((List.finRange m).map fun j => fmtRat (A i j)))
def fmtV {n : Nat} (v : Vec n) : String := " ".intercalate ((List.finRange n).map fun i => fmtRat (v i))

/-- Tabulation.  `let a := tab X; let Y : Mat n m := ofArr a` evaluates `X` entry by entry exactly once (an
`Array` value is computed strictly where it is bound) and `Y` then only looks entries up; `ofArr (toArr X) = X`
(`Props/C07.lean: ofArr_toArr`).  Writing `ofArr (toArr X)` inline would re-tabulate on every access. -/
def tab {n m : Nat} (A : Mat n m) : Array (Array Rat) := toArr A

def pBit : P Bool := pBool

def doTranslation (S T : AMat) : String :=
  let n := S.r; let d := S.c
  let s : Mat n d := S.m n d; let t : Mat n d := T.m n d
  let Ha := tab (fitTranslation s t); let H : HMat d := ofArr Ha
  s!"ok {fmtM H} {fmtRat (err2 (applyH H s) t)}"

def doScale (S T : AMat) (rT rS : Rat) : String :=
  let n := S.r; let d := S.c
  let s : Mat n d := S.m n d; let t : Mat n d := T.m n d
  match (fitScaleE rT rS : Option (HMat d)) with
  | none => s!"err zero-size-source {fmtRat (norm2 s)} {fmtRat (norm2 t)}"
  | some H0 =>
    let Ha := tab H0; let H : HMat d := ofArr Ha
    let ala := tab (applyH H s); let al : Mat n d := ofArr ala
    s!"ok {fmtRat (norm2 s)} {fmtRat (norm2 t)} {fmtM H} {fmtRat (norm2 al)}"

def doAffine (S T : AMat) : String :=
  let n := S.r; let d := S.c
  let s : Mat n d := S.m n d; let t : Mat n d := T.m n d
  match affineFit s t with
  | none => "err singular"
  | some H0 =>
    let Ha := tab H0; let H : HMat d := ofArr Ha
    s!"ok {fmtM H} {fmtRat (err2 (applyH H s) t)}"

def doRotation (mirror : Bool) (S T U Vt : AMat) : String :=
  let n := S.r; let d := S.c
  if d != 2 && d != 3 then "err dim" else
  let s : Mat n d := S.m n d; let t : Mat n d := T.m n d
  let u : Mat d d := U.m d d; let vt : Mat d d := Vt.m d d
  let Ra := tab (rotFit mirror u vt); let R : Mat d d := ofArr Ra
  let uva := tab (mul u vt); let uv : Mat d d := ofArr uva
  s!"ok {fmtM R} {fmtRat (det uv)} {fmtRat (err2 (applyH (rotationH R) s) t)} {fmtM (corr s t)}"

def doRotX (mirror : Bool) (S T U : AMat) (D : List Rat) (Vt : AMat) : String :=
  let n := S.r; let d := S.c
  if d != 2 && d != 3 then "err dim" else
  let s : Mat n d := S.m n d; let t : Mat n d := T.m n d
  let u : Mat d d := U.m d d; let vt : Mat d d := Vt.m d d
  let dv : Vec d := fun i => D.getD i.val 0
  let ca := tab (corr s t); let c : Mat d d := ofArr ca
  let ok := svdContractB c u dv vt
  let Ra := tab (rotFit mirror u vt); let R : Mat d d := ofArr Ra
  s!"ok {if ok then 1 else 0} {fmtM R} {fmtRat (err2 (applyH (rotationH R) s) t)} {fmtRat (det R)}"

def doSimilarity (rot mirror : Bool) (S T : AMat) (rT rS : Rat) (U Vt : AMat) : String :=
  let n := S.r; let d := S.c
  if d != 2 && d != 3 then "err dim" else
  let s : Mat n d := S.m n d; let t : Mat n d := T.m n d
  let u : Mat d d := U.m d d; let vt : Mat d d := Vt.m d d
  let Ra := tab (rotFit mirror u vt); let R : Mat d d := ofArr Ra
  match simFitE rot rT rS R s t with
  | none => s!"err zero-size-source {fmtRat (norm2 s)} {fmtRat (norm2 t)}"
  | some H0 =>
    let Ha := tab H0; let H : HMat d := ofArr Ha
    let ala := tab (applyH H s); let al : Mat n d := ofArr ala
    let xsa := tab (simAlignedSrc (rT / rS) s); let xs : Mat n d := ofArr xsa
    let xta := tab (simAlignedTgt t); let xt : Mat n d := ofArr xta
    s!"ok {fmtM H} {fmtM (corr xs xt)} {fmtRat (norm2 s)} {fmtRat (norm2 t)} {fmtRat (err2 al t)} {fmtV (centroid al)} {fmtV (centroid t)} {fmtRat (norm2 al)}"

def doConstruct (resync : Bool) (S T H : AMat) : String :=
  let n := S.r; let d := S.c
  let s : Mat n d := S.m n d; let t : Mat n d := T.m n d
  let h : HMat d := H.m (d + 1) (d + 1)
  let a := construct resync s t h
  let tga := tab a.target; let tg : Mat n d := ofArr tga
  let ala := tab a.alignedSource; let al : Mat n d := ofArr ala
  s!"ok {fmtM tg} {fmtM al} {fmtRat (err2 tg al)}"

def doTps (K S T : AMat) (probes : List (Rat × Rat × List Rat)) : String :=
  let n := S.r
  let k : Mat n n := K.m n n; let s : Mat n 2 := S.m n 2; let t : Mat n 2 := T.m n 2
  match tpsFit k s t with
  | none => "err singular"
  | some c0 =>
    let ca := tab c0; let c : Mat (n + 3) 2 := ofArr ca
    let outs := probes.map fun (x, y, kr) =>
      let v := tpsApply c (fun i => kr.getD i.val 0) x y
      s!"{fmtRat (v 0)} {fmtRat (v 1)}"
    s!"ok {fmtM c}" ++ String.join (outs.map fun o => " " ++ o)

/-- affine-image targets: is the system invertible (checked right inverse) and is the bending block exactly zero? -/
def doTpsAff (K S T : AMat) : String :=
  let n := S.r
  let k : Mat n n := K.m n n; let s : Mat n 2 := S.m n 2; let t : Mat n 2 := T.m n 2
  match tpsFit k s t with
  | none => "err singular"
  | some c0 =>
    let ca := tab c0; let c : Mat (n + 3) 2 := ofArr ca
    let la := tab (tpsL k s); let l : Mat (n + 3) (n + 3) := ofArr la
    let inv := (solveChecked l (one : Mat (n + 3) (n + 3))).isSome
    let bend0 := (List.finRange n).all fun i => (List.finRange 2).all fun j => c (Fin.castAdd 3 i) j == 0
    s!"ok {if inv then 1 else 0} {if bend0 then 1 else 0}"

/-- `_build_coefficients` as coded, on what `np.linalg.svd(self.l)` returned -/
def doTpsSvd (K S T U : AMat) (sv : List Rat) (Vt : AMat) (minSing : Rat) (probes : List (Rat × Rat × List Rat)) : String :=
  let n := S.r
  let k : Mat n n := K.m n n; let s : Mat n 2 := S.m n 2; let t : Mat n 2 := T.m n 2
  let u : Mat (n + 3) (n + 3) := U.m (n + 3) (n + 3); let vt : Mat (n + 3) (n + 3) := Vt.m (n + 3) (n + 3)
  let sva := sv.toArray
  let svv : Vec (n + 3) := fun i => sva.getD i.val 0
  let ca := tab (tpsFitSvd u svv vt minSing t); let c : Mat (n + 3) 2 := ofArr ca
  let la := tab (tpsL k s); let l : Mat (n + 3) (n + 3) := ofArr la
  let sym := matEqB (tr l) l
  let outs := probes.map fun (x, y, kr) =>
    let v := tpsApply c (fun i => kr.getD i.val 0) x y
    s!"{fmtRat (v 0)} {fmtRat (v 1)}"
  s!"ok {tpsKeep svv minSing} {if tpsKeptOKB svv minSing then 1 else 0} {if sym then 1 else 0} {fmtM c}" ++
    String.join (outs.map fun o => " " ++ o)

structure SimWitA where
  rT : Rat
  rS : Rat
  U : AMat
  Vt : AMat

def SimWitA.w (x : SimWitA) (d : Nat) : SimWit d := ⟨x.rT, x.rS, x.U.m d d, x.Vt.m d d⟩

def pSimWit : P SimWitA := do
  let a ← pRat; let b ← pRat; let u ← pAMat; let v ← pAMat; pure ⟨a, b, u, v⟩

def doGpa (mirror : Bool) (srcs : List AMat) (tgt : Option AMat) (w0 : List SimWitA) (initScale : Rat)
    (maxIter : Nat) (ws : List (Rat × List SimWitA)) : String :=
  match srcs with
  | [] => "err too-few-sources"
  | s0 :: _ =>
    let k := srcs.length; let n := s0.r; let d := s0.c
    if d != 2 && d != 3 then "err dim" else
    let srcA := srcs.toArray
    let sources : Fin k → Mat n d := fun a => (srcA.getD a.val ⟨0, 0, #[]⟩).m n d
    let w0A := w0.toArray
    let dflt : SimWitA := ⟨1, 1, ⟨0, 0, #[]⟩, ⟨0, 0, #[]⟩⟩
    let w0f : Fin k → SimWit d := fun a => (w0A.getD a.val dflt).w d
    let wsA := ws.toArray.map fun (nn, l) => (nn, l.toArray)
    let wsf : Nat → GpaWit k d := fun it =>
      match wsA[it - 1]? with
      | some (nn, l) => ⟨nn, fun a => (l.getD a.val dflt).w d⟩
      | none => default
    match gpa mirror sources (tgt.map fun t => t.m n d) w0f initScale maxIter wsf with
    | none => "err too-few-sources"
    | some r =>
      let st := r.state
      let rep : Mat n d := ofArr r.reported
      let hs := String.join ((List.finRange k).map fun a => " " ++ fmtM (st.transform a : HMat d))
      let es := String.join ((List.finRange k).map fun a => " " ++ fmtRat (gpaErr2 sources st a))
      s!"ok {if st.converged then 1 else 0} {st.nIter} {fmtM rep} {fmtM (st.tgt n : Mat n d)}{hs}{es}"

def doPwa (SRC TGT : AMat) (tris : List Tri) (pts : List (Rat × Rat)) : String :=
  let src : Nat → V2 := fun i => ⟨(SRC.a.getD i #[]).getD 0 0, (SRC.a.getD i #[]).getD 1 0⟩
  let tgt : Nat → V2 := fun i => ⟨(TGT.a.getD i #[]).getD 0 0, (TGT.a.getD i #[]).getD 1 0⟩
  let outs := pts.map fun (x, y) =>
    let p : V2 := ⟨x, y⟩
    match pwaTri src tris p, pwaApply src tgt tris p with
    | some t, some q =>
      let ab := triAB src t p
      s!" 1 {fmtRat q.x} {fmtRat q.y} {tris.idxOf t} {fmtRat ab.1} {fmtRat ab.2}"
    | _, _ => " 0"
  s!"ok {if pwaCertB src tris then 1 else 0}" ++ String.join outs

def pTri : P Tri := do let i ← pNat; let j ← pNat; let k ← pNat; pure (i, j, k)
def pPt : P (Rat × Rat) := do let x ← pRat; let y ← pRat; pure (x, y)

def step (toks : List String) : String :=
  match toks with
  | "translation" :: rest => match runP (do let s ← pAMat; let t ← pAMat; pure (s, t)) rest with
    | some (s, t) => doTranslation s t
    | none => "bad-op"
  | "scale" :: rest => match runP (do let s ← pAMat; let t ← pAMat; let a ← pRat; let b ← pRat; pure (s, t, a, b)) rest with
    | some (s, t, a, b) => doScale s t a b
    | none => "bad-op"
  | "affine" :: rest => match runP (do let s ← pAMat; let t ← pAMat; pure (s, t)) rest with
    | some (s, t) => doAffine s t
    | none => "bad-op"
  | "rotation" :: rest => match runP (do let m ← pBit; let s ← pAMat; let t ← pAMat; let u ← pAMat; let v ← pAMat; pure (m, s, t, u, v)) rest with
    | some (m, s, t, u, v) => doRotation m s t u v
    | none => "bad-op"
  | "rotx" :: rest => match runP (do let m ← pBit; let s ← pAMat; let t ← pAMat; let u ← pAMat; let d ← pList pRat; let v ← pAMat; pure (m, s, t, u, d, v)) rest with
    | some (m, s, t, u, d, v) => doRotX m s t u d v
    | none => "bad-op"
  | "similarity" :: rest => match runP (do
        let r ← pBit; let m ← pBit; let s ← pAMat; let t ← pAMat; let a ← pRat; let b ← pRat
        let u ← pAMat; let v ← pAMat; pure (r, m, s, t, a, b, u, v)) rest with
    | some (r, m, s, t, a, b, u, v) => doSimilarity r m s t a b u v
    | none => "bad-op"
  | "construct" :: rest => match runP (do let r ← pBit; let s ← pAMat; let t ← pAMat; let h ← pAMat; pure (r, s, t, h)) rest with
    | some (r, s, t, h) => doConstruct r s t h
    | none => "bad-op"
  | "tps" :: rest => match runP (do
        let k ← pAMat; let s ← pAMat; let t ← pAMat
        let pr ← pList (do let x ← pRat; let y ← pRat; let kr ← pMany pRat s.r; pure (x, y, kr))
        pure (k, s, t, pr)) rest with
    | some (k, s, t, pr) => doTps k s t pr
    | none => "bad-op"
  | "tpsaff" :: rest => match runP (do let k ← pAMat; let s ← pAMat; let t ← pAMat; pure (k, s, t)) rest with
    | some (k, s, t) => doTpsAff k s t
    | none => "bad-op"
  | "tpssvd" :: rest => match runP (do
        let k ← pAMat; let s ← pAMat; let t ← pAMat; let u ← pAMat; let sv ← pList pRat; let vt ← pAMat
        let ms ← pRat
        let pr ← pList (do let x ← pRat; let y ← pRat; let kr ← pMany pRat s.r; pure (x, y, kr))
        pure (k, s, t, u, sv, vt, ms, pr)) rest with
    | some (k, s, t, u, sv, vt, ms, pr) => doTpsSvd k s t u sv vt ms pr
    | none => "bad-op"
  | "gpa" :: rest => match runP (do
        let m ← pBit; let ht ← pBit; let k ← pNat
        let srcs ← pMany pAMat k
        let tgt ← (if ht then (do let t ← pAMat; pure (some t)) else pure none : P (Option AMat))
        let w0 ← pMany pSimWit k
        let isc ← pRat; let mi ← pNat
        let ws ← pList (do let nn ← pRat; let l ← pMany pSimWit k; pure (nn, l))
        pure (m, srcs, tgt, w0, isc, mi, ws)) rest with
    | some (m, srcs, tgt, w0, isc, mi, ws) => doGpa m srcs tgt w0 isc mi ws
    | none => "bad-op"
  | "pwa" :: rest => match runP (do
        let s ← pAMat; let t ← pAMat; let tris ← pList pTri; let pts ← pList pPt; pure (s, t, tris, pts)) rest with
    | some (s, t, tris, pts) => doPwa s t tris pts
    | none => "bad-op"
  | _ => "bad-op"

end MenpoModel.Drive.C07
