/-
Line-protocol driver for the C06 models.  Parsing / printing glue only.

copy <fuel> <root> <ncells> cell*        (heap model, `copyCall` under the *regenerated* resolution table)
    cell := B | N <kind> <nslots> (<name> <val>)*     kind := D | L | F | O:<class>     val := i | r<addr>
  → ok wt=<0|1> closed=<0|1> ord=<0|1> pyd=<0|1> n0=<len before> n1=<len after> entry*
    (pyd: every dict / __dict__ cell of the heap before and after has distinct keys, `pyDictB`)
    entry := <path>=new:<lim> | <path>=old<addr>:<lim>      lim := F(ull) | S(hallow) | X (shared by design)
      one entry per cell reachable from the copy (old cells and by-design-shared ones are not entered)
  | err attr|fuel|unknown

hist <root> <ncells> cell* <nops> hop*   (heap histories, `stepH` of Core/C06Ops under the *regenerated* tables)
    hop  := C i | W i path | F i path x <n> cell* | T i path | I i path x | P i path x j path | D i path x
            (T = first access of `.landmarks`: putFresh with the model's own fragment `Src.lmFrag`)
    path := <len> name*        cells of a fragment refer to each other by `r<k>` = k-th cell of the fragment
  → one block per op, blocks separated by ` | `:  ok wt=<0|1>|err:<kind> # <canonical dump of everything reachable
    from the roots in order (slots by name, list members in order): first visit numbers a cell, later visits
    print #<number>>
    a refused op leaves the state unchanged

lm <nops> op*                            (landmark-manager state machine)
    op  := NM | NO d | NE cls dim n int* | S ref key arg | G ref key | D ref key | K ref | C ref | A o ref
         | CO o | ME i δ | MG ref key δ | X ref δ | IM ref <n> name-id* | N ref
    ref := m<i> | o<i>     key := N | <nat>     arg := e<i> | g<d> | w
  → one block per op, blocks separated by ` | `:  <reply> # <world dump>
-/
import MenpoModel.Core.Codec
import MenpoModel.Core.C06Heap
import MenpoModel.Lemmas.C06Total
import MenpoModel.Core.C06Ops
import MenpoModel.Core.C06Landmarks
import MenpoModel.Core.C06Src
import MenpoModel.Generated.C06AttrKinds

namespace MenpoModel.Drive.C06
open MenpoModel.Codec MenpoModel.C06

/-! ### heap part -/

def pVal : P Val := do
  let t ← tok
  if t == "i" then pure (.imm 0)
  else if t.startsWith "r" then
    match (t.drop 1).toNat? with
    | some a => pure (.ref a)
    | none => failure
  else failure

def pKind : P NodeKind := do
  let t ← tok
  if t == "D" then pure .dict
  else if t == "L" then pure .list
  else if t == "F" then pure .frozen
  else if t.startsWith "O:" then pure (.obj (t.drop 2).toString)
  else failure

def pSlot : P (String × Val) := do
  let x ← tok
  let v ← pVal
  pure (x, v)

def pCell : P Cell := do
  let t ← tok
  if t == "B" then pure (.buf [])
  else if t == "N" then do
    let k ← pKind
    let fs ← pList pSlot
    pure (.node k fs)
  else failure

def limTag : Lim → String
  | .full => "F"
  | .shallow => "S"
  | .stop => "X"

def dump (res : String → CopyImpl) (n0 : Nat) : Nat → Heap → Lim → String → Val → List String
  | _, _, _, _, .imm _ => []
  | 0, _, _, path, .ref _ => [path ++ "=cut"]
  | f + 1, h, lim, path, .ref a =>
    if a < n0 then [s!"{path}=old{a}:{limTag lim}"] else
    match lim with
    | .stop => [s!"{path}=new:X"]
    | _ =>
      match h[a]? with
      | none => [path ++ "=dangling"]
      | some (.buf _) => [s!"{path}=new:{limTag lim}"]
      | some (.node k fs) =>
        s!"{path}=new:{limTag lim}" ::
          fs.flatMap fun p =>
            dump res n0 f h (if lim == .shallow then .stop else childLim res k p.1) (path ++ "/" ++ p.1) p.2

def b01 (b : Bool) : String := if b then "1" else "0"

def stepCopy (rest : List String) : String :=
  match runP (do let fuel ← pNat; let root ← pNat; let cells ← pList pCell; pure (fuel, root, cells)) rest with
  | none => "bad-op"
  | some (fuel, root, h) =>
    let res := resOf Generated.copySupplier
    match copyCall res fuel h (.ref root) with
    | .error .attr => "err attr"
    | .error .fuel => "err fuel"
    | .error .unknown => "err unknown"
    | .ok (h', v') =>
      let entries := dump res h.length (h'.length + 1) h' .full "." v'
      s!"ok wt={b01 (wtHeap Generated.attrKinds Generated.copySupplier h)} closed={b01 (closedB h)} " ++
        s!"ord={b01 (orderedB h)} pyd={b01 (pyDictB h && pyDictB h')} " ++
        s!"n0={h.length} n1={h'.length} " ++ " ".intercalate entries

/-! ### heap histories -/

def pPath : P Path := pList tok

def relocVal (n : Nat) : Val → Val
  | .imm t => .imm t
  | .ref k => .ref (n + k)

def relocCell (n : Nat) : Cell → Cell
  | .buf d => .buf d
  | .node k fs => .node k (fs.map fun p => (p.1, relocVal n p.2))

/-- an op whose fragment is still relative to its own start -/
inductive ROp where
  | op (o : HOp)
  | fresh (i : Nat) (p : Path) (x : String) (frag : List Cell)
  | touch (i : Nat) (p : Path)   -- first access of `.landmarks`: the fragment is the model's (`Src.lmFrag`), not sent

def pHOp : P ROp := do
  let t ← tok
  match t with
  | "C" => do let i ← pNat; pure (.op (.copy i))
  | "W" => do let i ← pNat; let p ← pPath; pure (.op (.write i p [1]))
  | "F" => do let i ← pNat; let p ← pPath; let x ← tok; let frag ← pList pCell; pure (.fresh i p x frag)
  | "T" => do let i ← pNat; let p ← pPath; pure (.touch i p)
  | "I" => do let i ← pNat; let p ← pPath; let x ← tok; pure (.op (.putImm i p x))
  | "P" => do let i ← pNat; let p ← pPath; let x ← tok; let j ← pNat; let q ← pPath; pure (.op (.putCopy i p x j q))
  | "D" => do let i ← pNat; let p ← pPath; let x ← tok; pure (.op (.del i p x))
  | _ => failure

def kindTag : NodeKind → String
  | .dict => "D"
  | .list => "L"
  | .frozen => "F"
  | .obj C => "O:" ++ C

structure DumpSt where
  seen : List (Nat × Nat)
  out : List String

def dumpVal (h : Heap) : Nat → Val → DumpSt → DumpSt
  | _, .imm _, st => { st with out := "i" :: st.out }
  | 0, .ref _, st => { st with out := "cut" :: st.out }
  | f + 1, .ref a, st =>
    match st.seen.lookup a with
    | some n => { st with out := s!"#{n}" :: st.out }
    | none =>
      let n := st.seen.length
      let st := { st with seen := (a, n) :: st.seen }
      match h[a]? with
      | none => { st with out := "dangling" :: st.out }
      | some (.buf _) => { st with out := "B" :: st.out }
      | some (.node k fs) =>
        let st := { st with out := (kindTag k ++ "(") :: st.out }
        let fs := if k == .list then fs else fs.mergeSort (fun a b => !(decide (b.1 < a.1)))
        let st := fs.foldl (fun st p => dumpVal h f p.2 { st with out := (p.1 ++ "=") :: st.out }) st
        { st with out := ")" :: st.out }

def dumpWorld (w : HW) : String :=
  let st := w.roots.foldl (fun st r => dumpVal w.heap (w.heap.length + 1) (.ref r) { st with out := "/" :: st.out })
    ⟨[], []⟩
  String.join st.out.reverse

def fmtHErr : HErr → String
  | .badRoot => "bad-root"
  | .badPath => "bad-path"
  | .badCell => "bad-cell"
  | .badFrag => "bad-frag"
  | .missing => "missing-key"
  | .illTyped => "ill-typed"
  | .copyFailed .attr => "copy-attr"
  | .copyFailed .fuel => "copy-fuel"
  | .copyFailed .unknown => "copy-unknown"

def stepHist (rest : List String) : String :=
  match runP (do let root ← pNat; let cells ← pList pCell; let ops ← pList pHOp; pure (root, cells, ops)) rest with
  | none => "bad-op"
  | some (root, h, ops) =>
    let r := ops.foldl (fun (acc : HW × List String) rop =>
      let w := acc.1
      let op : HOp := match rop with
        | .op o => o
        | .fresh i p x frag => .putFresh i p x (frag.map (relocCell w.heap.length))
        | .touch i p => .putFresh i p "_landmarks" (Src.lmFrag w.heap.length)
      match stepH Generated.attrKinds Generated.copySupplier w op with
      | .ok w' => (w', (s!"ok wt={b01 (wtHeap Generated.attrKinds Generated.copySupplier w'.heap)} # " ++
          dumpWorld w') :: acc.2)
      | .error e => (w, ("err:" ++ fmtHErr e ++ " # " ++ dumpWorld w) :: acc.2)) (⟨h, [root]⟩, [])
    s!"closed={b01 (closedB h)} " ++ " | ".intercalate r.2.reverse

/-! ### landmark-manager part -/

open MenpoModel.C06.LM

def pRef : P MRef := do
  let t ← tok
  match (t.drop 1).toNat? with
  | some i => if t.startsWith "m" then pure (.mgr i) else if t.startsWith "o" then pure (.owner i) else failure
  | none => failure

def pKey : P (Option Nat) := do
  let t ← tok
  if t == "N" then pure none else match t.toNat? with
    | some k => pure (some k)
    | none => failure

def pArg : P Arg := do
  let t ← tok
  if t == "w" then pure .raw
  else match (t.drop 1).toNat? with
    | some i => if t.startsWith "e" then pure (.ext i) else if t.startsWith "g" then pure (.img i) else failure
    | none => failure

def pOp : P Op := do
  let t ← tok
  match t with
  | "NM" => pure .newMgr
  | "NO" => do let d ← pNat; pure (.newOwner d)
  | "NE" => do let c ← pNat; let d ← pNat; let data ← pList pInt; pure (.newExt ⟨c, d, data⟩)
  | "S" => do let r ← pRef; let k ← pKey; let a ← pArg; pure (.set r k a)
  | "G" => do let r ← pRef; let k ← pKey; pure (.get r k)
  | "D" => do let r ← pRef; let k ← pKey; pure (.del r k)
  | "K" => do let r ← pRef; pure (.keys r)
  | "C" => do let r ← pRef; pure (.copy r)
  | "A" => do let o ← pNat; let r ← pRef; pure (.assign o r)
  | "CO" => do let o ← pNat; pure (.copyOwner o)
  | "ME" => do let i ← pNat; let d ← pInt; pure (.mutExt i d)
  | "MG" => do let r ← pRef; let k ← pKey; let d ← pInt; pure (.mutGot r k d)
  | "X" => do let r ← pRef; let d ← pInt; pure (.xform r d)
  | "IM" => do let r ← pRef; let sel ← pList pNat; pure (.items r sel)
  | "N" => do let r ← pRef; pure (.count r)
  | _ => failure

def fmtErr : LM.Err → String
  | .noneKey => "none-key"
  | .dim => "dim-mismatch"
  | .notPC => "not-pointcloud"
  | .attr => "attr"
  | .ambiguous => "ambiguous-none"
  | .missing => "missing-key"
  | .bad => "bad-ref"

def fmtShape (s : Shape) : String := s!"{s.cls}:{s.dim}:" ++ ",".intercalate (s.data.map toString)

def fmtReply : Reply → String
  | .ok => "ok"
  | .err e => "err:" ++ fmtErr e
  | .shape s => "shape:" ++ fmtShape s
  | .keys ks => "keys:" ++ ",".intercalate (ks.map toString)
  | .idx i => s!"idx:{i}"
  | .items l => "items:" ++ ";".intercalate (l.map fun p => s!"{p.1}={fmtShape p.2}")
  | .count n has nd => s!"count:{n}:{b01 has}:" ++ (match nd with | some d => toString d | none => "-")

def fmtWorld (w : World) : String :=
  let ms := (List.range w.mgrs.length).map fun i =>
    s!"M{i}[" ++ ";".intercalate ((absM w i).map fun p => s!"{p.1}={fmtShape p.2}") ++ "]"
  let es := (List.range w.exts.length).map fun i =>
    s!"E{i}[" ++ (match absExt w i with | some s => fmtShape s | none => "?") ++ "]"
  let os := (List.range w.owners.length).map fun i =>
    s!"O{i}[" ++ (match w.owners[i]? with | some o => s!"{o.dim}:M{o.mgr}" | none => "?") ++ "]"
  " ".intercalate (ms ++ es ++ os)

def stepLM (rest : List String) : String :=
  match runP (pList pOp) rest with
  | none => "bad-op"
  | some ops =>
    let r := ops.foldl (fun (acc : World × List String) op =>
      let (w', rep) := LM.step acc.1 op
      (w', (fmtReply rep ++ " # " ++ fmtWorld w') :: acc.2)) (World.empty, [])
    " | ".intercalate r.2.reverse

def step (toks : List String) : String :=
  match toks with
  | "copy" :: rest => stepCopy rest
  | "lm" :: rest => stepLM rest
  | "hist" :: rest => stepHist rest
  | _ => "bad-op"

end MenpoModel.Drive.C06
