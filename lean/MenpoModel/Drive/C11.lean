/-
Line-protocol driver for the C11 models (Core/C11.lean).  Parsing glue only.

  gmrf <bias 0|1> <mode c|s> <nv> <k> <nE> (v1 v2)* <nchunks> (r c x…)*
      first chunk = initial batch (incremental=True), the others are fed to `increment` in order
      → ok <n> | <mean: d> | <dense-storage precision: d·d row major> | <block covariances: nBlocks·p·p>
           | <sparse-storage (BSR, duplicates summed) precision: d·d>                             (d = nv·k)
      → err singular     (a block covariance has no inverse)
  gmrfo <bias> <mode> <nv> <k> <nE> (v1 v2)* <nchunks> (<nsamples> (nv k x…)*)*
      object level (`GMRFModel`): every sample is a point cloud `nv × k`; same reply, the mean is `mean()` flattened
  pca <centred 0|1> <spec|coded> <nchunks> (r c x…)*
      → ok <n> | <mean: d> | <scatter/(n−1): d·d> | <exact rank of the scatter>     (d = columns of the first chunk)
  pcao <centred 0|1> <k> <nchunks> (<nsamples> (np k x…)*)*
      object level (`PCAModel`): every sample is a point cloud `np × k`; same reply as `pca … spec`
  pcaf <centred 0|1> (r c x…) <nsteps> (f (r c x…))*
      initial batch, then increments each with its forgetting factor → ok <n> | <mean: d> | <covariance: d·d>
  keep <eps> <nm1> <max(R.shape)> <precision> <n> s²…
      → ok <len(l)> | <l = (s²/nm1)[> max(eps, max(R.shape)·precision·max l)]>
-/
import MenpoModel.Core.Codec
import MenpoModel.Core.C11

namespace MenpoModel.Drive.C11
open MenpoModel.Codec MenpoModel.C11

def dataOf (m : List (List Rat)) : Data := m.map vecOfList

def fmtVec (d : Nat) (v : Vec) : String := fmtRats ((List.range d).map v)
def fmtSq (d : Nat) (m : Mat) : String :=
  fmtRats ((List.range d).flatMap fun i => (List.range d).map fun j => m i j)

def pEdges : P (List (Nat × Nat)) := do
  let n ← pNat
  pMany (do let a ← pNat; let b ← pNat; pure (a, b)) n

def cloudOf (m : List (List Rat)) : Cloud := fun p c => (m.getD p []).getD c 0

def reportGmrf (g : GSpec) (st : GState) (meanVec : Vec) : String :=
    let p := g.blockDim
    -- tabulate once: block covariances and their exact inverses (`precision g inv st.cov` with `inv` = exact
    -- inverse is `precisionOf g (fun e => inv (st.cov e))` by definition; the table only avoids recomputation)
    let covs := (List.range g.nBlocks).map fun e => toRows p (st.cov e)
    let invs := covs.map fun c => invExact p (ofRows c)
    if invs.any (·.isNone) then "err singular" else
    let d := g.nv * g.k
    let P := precisionOf g (fun e => ofRows ((invs.getD e none).getD []))
    let Ps := precisionOfSparse g (fun e => ofRows ((invs.getD e none).getD []))
    s!"ok {st.n} | {fmtVec d meanVec} | {fmtSq d P} | " ++
      " ".intercalate (covs.map fun c => fmtRats c.flatten) ++ s!" | {fmtSq d Ps}"

def runGmrf (b : Bool) (g : GSpec) (chunks : List (List (List Rat))) : String :=
  match chunks with
  | [] => "bad-op"
  | c0 :: rest =>
    let st := gmrfRun b g.feat (dataOf c0) (rest.map dataOf)
    reportGmrf g st st.mean

def runGmrfObj (b : Bool) (g : GSpec) (chunks : List (List (List (List Rat)))) : String :=
  match chunks with
  | [] => "bad-op"
  | c0 :: rest =>
    let st := gmrfObjRun b g (c0.map cloudOf) (rest.map (·.map cloudOf))
    let mc := gmrfObjMean g st
    -- `mean()` is a point cloud; it is reported flattened (`as_vector()`)
    reportGmrf g st (asVector g.k mc)

def reportPca (d : Nat) (st : PState) : String :=
  if st.n ≤ 1 then "err too-few" else
  let nm1 : Rat := (st.n : Rat) - 1
  s!"ok {st.n} | {fmtVec d st.mean} | {fmtSq d (fun i j => st.scat i j / nm1)} | {rankExact d st.scat}"

def runPcaObj (centred : Bool) (k : Nat) (chunks : List (List (List (List Rat)))) : String :=
  match chunks with
  | [] => "bad-op"
  | c0 :: rest =>
    let d := (c0.headD []).length * k
    reportPca d (pcaObjRun k centred (c0.map cloudOf) (rest.map (·.map cloudOf)))

def runPcaForget (centred : Bool) (c0 : List (List Rat)) (steps : List (Rat × List (List Rat))) : String :=
  let d := (c0.headD []).length
  if c0.length ≤ 1 then "err too-few" else
  let st := pcaRunForget centred (dataOf c0) (steps.map fun s => (s.1, dataOf s.2))
  s!"ok {st.n} | {fmtVec d st.mean} | {fmtSq d st.cov}"

def runPca (centred coded : Bool) (chunks : List (List (List Rat))) : String :=
  match chunks with
  | [] => "bad-op"
  | c0 :: rest =>
    let d := (c0.headD []).length
    let st := if coded then pcaRunCoded d centred (dataOf c0) (rest.map dataOf)
              else pcaRunSpec centred (dataOf c0) (rest.map dataOf)
    reportPca d st

def step (toks : List String) : String :=
  match toks with
  | "gmrf" :: r =>
    match runP (do
        let b ← pBool; let md ← tok; let nv ← pNat; let k ← pNat; let es ← pEdges
        let cs ← pList pMat
        pure (b, md, nv, k, es, cs)) r with
    | some (b, md, nv, k, es, cs) =>
      if md == "c" then runGmrf b ⟨nv, k, es, .concatenation⟩ cs
      else if md == "s" then runGmrf b ⟨nv, k, es, .subtraction⟩ cs
      else "bad-op"
    | none => "bad-op"
  | "gmrfo" :: r =>
    match runP (do
        let b ← pBool; let md ← tok; let nv ← pNat; let k ← pNat; let es ← pEdges
        let cs ← pList (pList pMat)
        pure (b, md, nv, k, es, cs)) r with
    | some (b, md, nv, k, es, cs) =>
      if md == "c" then runGmrfObj b ⟨nv, k, es, .concatenation⟩ cs
      else if md == "s" then runGmrfObj b ⟨nv, k, es, .subtraction⟩ cs
      else "bad-op"
    | none => "bad-op"
  | "pcao" :: r =>
    match runP (do let c ← pBool; let k ← pNat; let cs ← pList (pList pMat); pure (c, k, cs)) r with
    | some (c, k, cs) => runPcaObj c k cs
    | none => "bad-op"
  | "pcaf" :: r =>
    match runP (do
        let c ← pBool; let c0 ← pMat
        let steps ← pList (do let f ← pRat; let m ← pMat; pure (f, m))
        pure (c, c0, steps)) r with
    | some (c, c0, steps) => runPcaForget c c0 steps
    | none => "bad-op"
  | "keep" :: r =>
    match runP (do
        let eps ← pRat; let nm1 ← pRat; let shape ← pNat; let prec ← pRat; let s2 ← pList pRat
        pure (eps, nm1, shape, prec, s2)) r with
    | some (eps, nm1, shape, prec, s2) =>
      let l0 := ipcaEigs nm1 s2
      let l := ipcaKeep (ipcaThr eps shape prec l0) l0
      s!"ok {l.length} | {fmtRats l}"
    | none => "bad-op"
  | "pca" :: r =>
    match runP (do let c ← pBool; let v ← tok; let cs ← pList pMat; pure (c, v, cs)) r with
    | some (c, v, cs) =>
      if v == "spec" then runPca c false cs else if v == "coded" then runPca c true cs else "bad-op"
    | none => "bad-op"
  | _ => "bad-op"

end MenpoModel.Drive.C11
