/-
Line-protocol driver for the C11 models (Core/C11.lean).  Parsing glue only.

  gmrf <bias 0|1> <mode c|s> <nv> <k> <nE> (v1 v2)* <nchunks> (r c x…)*
      first chunk = initial batch (incremental=True), the others are fed to `increment` in order
      → ok <n> | <mean: d> | <precision: d·d row major> | <block covariances: nBlocks·p·p>      (d = nv·k)
      → err singular     (a block covariance has no inverse)
  pca <centred 0|1> <spec|coded> <nchunks> (r c x…)*
      → ok <n> | <mean: d> | <scatter/(n−1): d·d>         (d = columns of the first chunk)
-/
import MenpoModel.Core.Codec
import MenpoModel.Core.C11

namespace MenpoModel.Drive.C11
open MenpoModel.Codec MenpoModel.C11

def dataOf (m : List (List Rat)) : Data := m.map vecOfList

def fmtVec (d : Nat) (v : Vec) : String := fmtRats ((List.range d).map v)
def fmtSq (d : Nat) (m : Mat) : String :=
  fmtRats ((List.range d).flatMap fun i => (List.range d).map fun j => m i j)

def pEdges : P (List (Nat × Nat)) := do
  let n ← pNat
  pMany (do let a ← pNat; let b ← pNat; pure (a, b)) n

def runGmrf (b : Bool) (g : GSpec) (chunks : List (List (List Rat))) : String :=
  match chunks with
  | [] => "bad-op"
  | c0 :: rest =>
    let st := gmrfRun b g.feat (dataOf c0) (rest.map dataOf)
    let p := g.blockDim
    -- tabulate once: block covariances and their exact inverses (`precision g inv st.cov` with `inv` = exact
    -- inverse is `precisionOf g (fun e => inv (st.cov e))` by definition; the table only avoids recomputation)
    let covs := (List.range g.nBlocks).map fun e => toRows p (st.cov e)
    let invs := covs.map fun c => invExact p (ofRows c)
    if invs.any (·.isNone) then "err singular" else
    let d := g.nv * g.k
    let P := precisionOf g (fun e => ofRows ((invs.getD e none).getD []))
    s!"ok {st.n} | {fmtVec d st.mean} | {fmtSq d P} | " ++
      " ".intercalate (covs.map fun c => fmtRats c.flatten)

def runPca (centred coded : Bool) (chunks : List (List (List Rat))) : String :=
  match chunks with
  | [] => "bad-op"
  | c0 :: rest =>
    let d := (c0.headD []).length
    let st := if coded then pcaRunCoded d centred (dataOf c0) (rest.map dataOf)
              else pcaRunSpec centred (dataOf c0) (rest.map dataOf)
    if st.n ≤ 1 then "err too-few" else
    let nm1 : Rat := (st.n : Rat) - 1
    s!"ok {st.n} | {fmtVec d st.mean} | {fmtSq d (fun i j => st.scat i j / nm1)}"

def step (toks : List String) : String :=
  match toks with
  | "gmrf" :: r =>
    match runP (do
        let b ← pBool; let md ← tok; let nv ← pNat; let k ← pNat; let es ← pEdges
        let cs ← pList pMat
        pure (b, md, nv, k, es, cs)) r with
    | some (b, md, nv, k, es, cs) =>
      if md == "c" then runGmrf b ⟨nv, k, es, .concatenation⟩ cs
      else if md == "s" then runGmrf b ⟨nv, k, es, .subtraction⟩ cs
      else "bad-op"
    | none => "bad-op"
  | "pca" :: r =>
    match runP (do let c ← pBool; let v ← tok; let cs ← pList pMat; pure (c, v, cs)) r with
    | some (c, v, cs) =>
      if v == "spec" then runPca c false cs else if v == "coded" then runPca c true cs else "bad-op"
    | none => "bad-op"
  | _ => "bad-op"

end MenpoModel.Drive.C11
