/-
Line-protocol driver for the C02 models.  Parsing glue only.

  shape := <class> <arr> <n-extra> (<name> <xv>)* <n-groups> (<name> <shape>)*
  arr   := r c num*                      xv := i <int> | a <arr> | d <n> (<name> <arr>)*
  F     := tab <n> (<arr> <arr>)*        the transform as the table  input array ↦ `transform.apply(array)`
         | hom <arr>                     homogeneous matrix (d+1)×(d+1): x ↦ (H·[x;1])[:d] / (H·[x;1])[d]

ops:  apply <fuel> F <shape>   → ok rep=<0|1> changed=<n> intact=<0|1> fresh=<0|1> agree=<0|1> <shape>
          rep     the built heap satisfies the hypothesis of the heap theorems (`repB`)
          changed number of cells below the old heap top that differ after the call (`apply_no_write`: 0)
          intact  the input address still reads back as the input shape
          fresh   the returned address is above the old heap top
          agree   heap-level result read back = value-level result (`apply_refines`)
          <shape> the value-level result `applyV expectedDispatch f s`
      array F <arr>            → ok <arr>         (`Transform.apply` on a bare array)
-/
import MenpoModel.Core.Codec
import MenpoModel.Core.C02
import MenpoModel.Lemmas.C02Check

namespace MenpoModel.Drive.C02
open MenpoModel.Codec MenpoModel.C02

def pCls : P SCls := do
  let t ← tok
  match t with
  | "PointCloud" => pure .PointCloud
  | "TriMesh" => pure .TriMesh
  | "ColouredTriMesh" => pure .ColouredTriMesh
  | "TexturedTriMesh" => pure .TexturedTriMesh
  | "PointUndirectedGraph" => pure .PointUndirectedGraph
  | "PointDirectedGraph" => pure .PointDirectedGraph
  | "PointTree" => pure .PointTree
  | "LabelledPointUndirectedGraph" => pure .LabelledPointUndirectedGraph
  | _ => failure

def fCls : SCls → String
  | .PointCloud => "PointCloud" | .TriMesh => "TriMesh" | .ColouredTriMesh => "ColouredTriMesh"
  | .TexturedTriMesh => "TexturedTriMesh" | .PointUndirectedGraph => "PointUndirectedGraph"
  | .PointDirectedGraph => "PointDirectedGraph" | .PointTree => "PointTree"
  | .LabelledPointUndirectedGraph => "LabelledPointUndirectedGraph"

def pXV : P XV := do
  let t ← tok
  match t with
  | "i" => do let n ← pInt; pure (.imm n)
  | "a" => do let m ← pMat; pure (.arr m)
  | "d" => do
    let items ← pList (do let n ← tok; let m ← pMat; pure (n, m))
    pure (.dict items)
  | _ => failure

def groupsOfList : List (String × Shape) → Groups
  | [] => .nil
  | (n, s) :: t => .cons n s (groupsOfList t)

partial def pShape : P Shape := do
  let c ← pCls
  let pts ← pMat
  let ex ← pList (do let n ← tok; let x ← pXV; pure (n, x))
  let gs ← pList (do let n ← tok; let s ← pShape; pure (n, s))
  pure (.mk c pts (groupsOfList gs) ex)

def fArr (m : Arr) : String :=
  let c := match m with | [] => 0 | r :: _ => r.length
  s!"{m.length} {c}" ++ (if m.flatten.isEmpty then "" else " " ++ fmtRats m.flatten)

def fXV : XV → String
  | .imm t => s!"i {t}"
  | .arr m => "a " ++ fArr m
  | .dict items => s!"d {items.length}" ++ String.join (items.map fun p => " " ++ p.1 ++ " " ++ fArr p.2)

mutual
def fShape : Shape → String
  | .mk c p l e =>
    fCls c ++ " " ++ fArr p ++ s!" {e.length}" ++ String.join (e.map fun q => " " ++ q.1 ++ " " ++ fXV q.2) ++
      " " ++ toString (gCount l) ++ fGroups l
def fGroups : Groups → String
  | .nil => ""
  | .cons n g r => " " ++ n ++ " " ++ fShape g ++ fGroups r
def gCount : Groups → Nat
  | .nil => 0
  | .cons _ _ r => gCount r + 1
end

def dotRow (r x : List Rat) : Rat := (List.zipWith (· * ·) r x).foldl (· + ·) 0

/-- `Homogeneous._apply`: `h_y = [x, 1]·Hᵀ; return (h_y / h_y[:, -1])[:, :-1]` (division by 0 left as 0) -/
def homApply (H : Arr) (a : Arr) : Arr :=
  a.map fun x =>
    let hx := x ++ [1]
    let hy := H.map fun r => dotRow r hx
    let w := hy.getLastD 1
    (hy.dropLast).map fun y => y / w

def pF : P (Arr → Arr) := do
  let t ← tok
  match t with
  | "tab" => do
    let tbl ← pList (do let a ← pMat; let b ← pMat; pure (a, b))
    pure fun a => (tbl.lookup a).getD a
  | "hom" => do let H ← pMat; pure (homApply H)
  | _ => failure

def b01 (b : Bool) : String := if b then "1" else "0"

def step (toks : List String) : String :=
  match toks with
  | "apply" :: rest =>
    match runP (do let k ← pNat; let f ← pF; let s ← pShape; pure (k, f, s)) rest with
    | none => "bad-op"
    | some (k, f, s) =>
      let (h, v) := build [] s
      let rep := repB h s v
      match applyV expectedDispatch f s, applyH expectedDispatch f k h v with
      | .ok sv, .ok (h', v') =>
        let changed := (changedBelow h.length h h').length
        let intact := match readShape k h' v with
          | some s0 => fShape s0 == fShape s
          | none => false
        let fresh := match v' with
          | .ref a => decide (h.length ≤ a)
          | _ => false
        let agree := match readShape k h' v' with
          | some sh => fShape sh == fShape sv
          | none => false
        s!"ok rep={b01 rep} changed={changed} intact={b01 intact} fresh={b01 fresh} agree={b01 agree} " ++ fShape sv
      | .error e, _ => "err value " ++ reprStr e
      | _, .error e => "err heap " ++ reprStr e
  | "array" :: rest =>
    match runP (do let f ← pF; let a ← pMat; pure (f, a)) rest with
    | none => "bad-op"
    | some (f, a) =>
      match applyAny expectedDispatch f (.array a) with
      | .ok (.array b) => "ok " ++ fArr b
      | _ => "err"
  | _ => "bad-op"

end MenpoModel.Drive.C02
