/-
Line-protocol driver for the C02 models.  Parsing glue only.

  shape := <class> <arr> <n-extra> (<name> <xv>)* <n-groups> (<name> <shape>)*
  arr   := r c num*                      xv := i <int> | a <arr> | d <n> (<name> <arr>)* | t <n> tok*
  tok   := I <int> | A <arr> | D | F | O <class> | K <name> | C     (deep digest of an object-valued attribute)
  F     := tab <n> (<arr> <arr>)*        the transform as the table  input array ↦ `transform.apply(array)`
         | hom <arr>                     homogeneous matrix (d+1)×(d+1): x ↦ (H·[x;1])[:d] / (H·[x;1])[d]
         | aff <arr>                     the same matrix through `Affine._apply`: x ↦ L·x + t

         | dims <n> <j>*                 `WithDims(dims)`: x ↦ x[:, dims]
         | chain <n> F*                  `TransformChain`: the members one after the other
  batch := 0 (None) | k

ops:  apply <fuel> F <shape>   → ok rep=<0|1> repd=<0|1> tot=<0|1> changed=<n> intact=<0|1> fresh=<0|1> agree=<0|1> <shape>
      applyb <fuel> <batch> F <shape>   the same through `_apply_batched` (model: `applyBatched`)
      applym <fuel> <batch> F <shape>   `transform.apply(shape.landmarks)` → ok changed= intact= fresh= agree= <groups>
          rep     the built heap satisfies the hypothesis of the heap theorems (`repB`)
          repd    … and of the deep heap theorems (`repDB`: every attribute by deep digest)
          tot     … and of `apply_succeeds` (the whole object graph has a digest of known classes within the fuel)
          changed number of cells below the old heap top that differ after the call (`apply_no_write`: 0)
          intact  the input address still reads back as the input shape
          fresh   the returned address is above the old heap top
          agree   heap-level result read back = value-level result (`apply_refines`)
          <shape> the value-level result `applyV expectedDispatch f s`
      run <fuel> <heap> <n> (<addr> <shape>)* <n> (<batch> F <src>)*   a heap given cell by cell (sharing included),
          the objects under test, a sequence of calls on them or on earlier results (`runH` / `runV`, `run_refines`)
          heap := <n> cell*   cell := A <arr> | D <slots> | F <slots> | O <class> <slots>   slots := <n> (<name> (i <int> | r <addr>))*
          → ok rep= changed= repafter= fresh= <n> <shape>*
      array F <arr> | arrayb <batch> F <arr>   → ok <arr>         (`Transform.apply` on a bare array)
      applye <fuel> (n | k <int>) FE <shape>   the methods AS THE SOURCE STATES THEM (`coreMethods` / `coreHMethods`, what
          the translated methods are proved equal to), error branches included: value level `vApply`, heap level
          `hTransform` with the closure `_apply_batched(·, batch_size)`;  FE := tot F | dimsE <dims> |
          tabE <n> (<arr> (o <arr> | x))*   (a measured `_apply` that raises on some arrays)
          → ok changed=<n> intact=<0|1> agree=<0|1> <shape>  |  err <kind> heap=<kind> changed=<n> intact=<0|1>
      wdims <dims> <arr>   `WithDims._apply` with every kind of `dims`  → ok <arr> | err <kind>
          dims := l <n> <int>* | s <int> | m <n> <0|1>*
-/
import MenpoModel.Core.Codec
import MenpoModel.Core.C02
import MenpoModel.Core.C02Deep
import MenpoModel.Core.C02Batch
import MenpoModel.Lemmas.C02Check
import MenpoModel.Lemmas.C02CheckD
import MenpoModel.Props.C02Seq
import MenpoModel.Props.C02Total
import MenpoModel.Core.C02SrcH

namespace MenpoModel.Drive.C02
open MenpoModel.Codec MenpoModel.C02

def pCls : P SCls := do
  let t ← tok
  match t with
  | "PointCloud" => pure .PointCloud
  | "TriMesh" => pure .TriMesh
  | "ColouredTriMesh" => pure .ColouredTriMesh
  | "TexturedTriMesh" => pure .TexturedTriMesh
  | "PointUndirectedGraph" => pure .PointUndirectedGraph
  | "PointDirectedGraph" => pure .PointDirectedGraph
  | "PointTree" => pure .PointTree
  | "LabelledPointUndirectedGraph" => pure .LabelledPointUndirectedGraph
  | _ => failure

def fCls : SCls → String
  | .PointCloud => "PointCloud" | .TriMesh => "TriMesh" | .ColouredTriMesh => "ColouredTriMesh"
  | .TexturedTriMesh => "TexturedTriMesh" | .PointUndirectedGraph => "PointUndirectedGraph"
  | .PointDirectedGraph => "PointDirectedGraph" | .PointTree => "PointTree"
  | .LabelledPointUndirectedGraph => "LabelledPointUndirectedGraph"

def pAnyCls : P Cls := do
  let t ← tok
  match t with
  | "PointCloud" => pure (.shape .PointCloud)
  | "TriMesh" => pure (.shape .TriMesh)
  | "ColouredTriMesh" => pure (.shape .ColouredTriMesh)
  | "TexturedTriMesh" => pure (.shape .TexturedTriMesh)
  | "PointUndirectedGraph" => pure (.shape .PointUndirectedGraph)
  | "PointDirectedGraph" => pure (.shape .PointDirectedGraph)
  | "PointTree" => pure (.shape .PointTree)
  | "LabelledPointUndirectedGraph" => pure (.shape .LabelledPointUndirectedGraph)
  | "LandmarkManager" => pure .LandmarkManager
  | "Image" => pure .Image
  | _ => pure .other

def fAnyCls : Cls → String
  | .shape c => fCls c
  | .LandmarkManager => "LandmarkManager"
  | .Image => "Image"
  | .other => "other"

/-- tok := I <int> | A <arr> | D | F | O <class> | K <name> | C -/
def pTok : P Tok := do
  let t ← tok
  match t with
  | "I" => do let n ← pInt; pure (.imm n)
  | "A" => do let m ← pMat; pure (.arr m)
  | "D" => pure .dictO
  | "F" => pure .frozenO
  | "O" => do let c ← pAnyCls; pure (.objO c)
  | "K" => do let n ← tok; pure (.key n)
  | "C" => pure .close
  | _ => failure

def pXV : P XV := do
  let t ← tok
  match t with
  | "i" => do let n ← pInt; pure (.imm n)
  | "a" => do let m ← pMat; pure (.arr m)
  | "d" => do
    let items ← pList (do let n ← tok; let m ← pMat; pure (n, m))
    pure (.dict items)
  | "t" => do let ts ← pList pTok; pure (.deep ts)
  | _ => failure

def groupsOfList : List (String × Shape) → Groups
  | [] => .nil
  | (n, s) :: t => .cons n s (groupsOfList t)

partial def pShape : P Shape := do
  let c ← pCls
  let pts ← pMat
  let ex ← pList (do let n ← tok; let x ← pXV; pure (n, x))
  let gs ← pList (do let n ← tok; let s ← pShape; pure (n, s))
  pure (.mk c pts (groupsOfList gs) ex)

def fArr (m : Arr) : String :=
  let c := match m with | [] => 0 | r :: _ => r.length
  s!"{m.length} {c}" ++ (if m.flatten.isEmpty then "" else " " ++ fmtRats m.flatten)

def fTok : Tok → String
  | .imm t => s!"I {t}"
  | .arr m => "A " ++ fArr m
  | .dictO => "D"
  | .frozenO => "F"
  | .objO c => "O " ++ fAnyCls c
  | .key s => "K " ++ s
  | .close => "C"

def fXV : XV → String
  | .imm t => s!"i {t}"
  | .arr m => "a " ++ fArr m
  | .dict items => s!"d {items.length}" ++ String.join (items.map fun p => " " ++ p.1 ++ " " ++ fArr p.2)
  | .deep ts => s!"t {ts.length}" ++ String.join (ts.map fun t => " " ++ fTok t)

mutual
def fShape : Shape → String
  | .mk c p l e =>
    fCls c ++ " " ++ fArr p ++ s!" {e.length}" ++ String.join (e.map fun q => " " ++ q.1 ++ " " ++ fXV q.2) ++
      " " ++ toString (gCount l) ++ fGroups l
def fGroups : Groups → String
  | .nil => ""
  | .cons n g r => " " ++ n ++ " " ++ fShape g ++ fGroups r
def gCount : Groups → Nat
  | .nil => 0
  | .cons _ _ r => gCount r + 1
end

partial def pF : P (Arr → Arr) := do
  let t ← tok
  match t with
  | "tab" => do
    let tbl ← pList (do let a ← pMat; let b ← pMat; pure (a, b))
    pure fun a => (tbl.lookup a).getD a
  | "hom" => do let H ← pMat; pure (homApply H)
  | "aff" => do let H ← pMat; pure (affineApply H)
  | "dims" => do let ds ← pList pNat; pure (withDims ds)
  | "chain" => do let fs ← pList pF; pure (chainFn fs)
  | _ => failure

/-- `0` is `batch_size=None` -/
def pBatch : P (Option Nat) := do
  let k ← pNat
  pure (if k == 0 then none else some k)

def b01 (b : Bool) : String := if b then "1" else "0"

def runApply (k : Nat) (f : Arr → Arr) (s : Shape) : String :=
  let (h, v) := build [] s
  let rep := repB h s v
  let repd := repDB h s v
  -- the hypotheses of `apply_succeeds` (J = k): the whole object graph has a digest of classes the table lists
  let tot := (digest k h v).map knownToksB == some true && decide (s.depth ≤ k)
  match applyV expectedDispatch f s, applyH expectedDispatch f k h v with
  | .ok sv, .ok (h', v') =>
    let changed := (changedBelow h.length h h').length
    let intact := (match readShape k h' v with
      | some s0 => fShape s0 == fShape s
      | none => false) && repDB h' s v
    let fresh := match v' with
      | .ref a => decide (h.length ≤ a)
      | _ => false
    let agree := (match readShape k h' v' with
      | some sh => fShape sh == fShape sv
      | none => false) && repDB h' sv v'
    s!"ok rep={b01 rep} repd={b01 repd} tot={b01 tot} changed={changed} intact={b01 intact} fresh={b01 fresh} agree={b01 agree} " ++ fShape sv
  | .error e, _ => "err value " ++ reprStr e
  | _, .error e => s!"err heap tot={b01 tot} " ++ reprStr e

/-- `transform.apply(shape.landmarks)`: the manager of the built shape is the argument -/
def runManager (k : Nat) (f : Arr → Arr) (s : Shape) : String :=
  let (h, v) := build [] s
  let mv : Option Val := match v with
    | .ref a => match h[a]? with
      | some (.obj _ fs) => fs.lookup "_landmarks"
      | _ => none
    | _ => none
  match mv with
  | some (.ref l) =>
    match applyH expectedDispatch f k h (.ref l) with
    | .ok (h', v') =>
      let changed := (changedBelow h.length h h').length
      let fresh := match v' with
        | .ref a => decide (h.length ≤ a)
        | _ => false
      let want := mapGroups f s.lms
      -- read the groups of the returned manager back through a scratch host object
      let host : Heap := h' ++ [.arr [], .obj (.shape .PointCloud) [("_landmarks", v'), ("points", .ref h'.length)]]
      let got := (readShape (k + 1) host (.ref (h'.length + 1))).map Shape.lms
      let agree := match got with
        | some g => toString (gCount g) ++ fGroups g == toString (gCount want) ++ fGroups want
        | none => false
      let intact := match readShape k h' v with
        | some s0 => fShape s0 == fShape s
        | none => false
      s!"ok changed={changed} intact={b01 intact} fresh={b01 fresh} agree={b01 agree} " ++ toString (gCount want) ++ fGroups want
    | .error e => "err heap " ++ reprStr e
  | _ => "err no-manager"

/-! ### heaps given cell by cell (the image of a real object graph, sharing included) and call sequences -/

def pVal : P Val := do
  let t ← tok
  match t with
  | "i" => do let n ← pInt; pure (.imm n)
  | "r" => do let a ← pNat; pure (.ref a)
  | _ => failure

def pSlots : P Slots := pList (do let n ← tok; let v ← pVal; pure (n, v))

/-- cell := A <arr> | D <slots> | F <slots> | O <class> <slots> -/
def pCell : P Cell := do
  let t ← tok
  match t with
  | "A" => do let m ← pMat; pure (.arr m)
  | "D" => do let fs ← pSlots; pure (.dict fs)
  | "F" => do let fs ← pSlots; pure (.frozen fs)
  | "O" => do let c ← pAnyCls; let fs ← pSlots; pure (.obj c fs)
  | _ => failure

def pCall (k : Nat) : P Call := do
  let b ← pBatch
  let f ← pF
  let src ← pNat
  pure ⟨applyBatched f b, k, src⟩

/-- `run <fuel> <heap> <env: (addr shape)*> <calls: (batch F src)*>` -/
def runSeq (_k : Nat) (h : Heap) (env : List (Nat × Shape)) (calls : List Call) : String :=
  let vs : List Val := env.map fun e => .ref e.1
  let ss : List Shape := env.map Prod.snd
  let rep := allRepB h ss vs
  match runV expectedDispatch calls ss, runH expectedDispatch calls h vs with
  | .ok ss', .ok (h', vs') =>
    let changed := (changedBelow h.length h h').length
    let repafter := allRepB h' ss' vs'
    let fresh := (vs'.drop vs.length).all fun v => match v with
      | .ref a => decide (h.length ≤ a)
      | _ => false
    let res := ss'.drop ss.length
    s!"ok rep={b01 rep} changed={changed} repafter={b01 repafter} fresh={b01 fresh} {res.length}" ++
      String.join (res.map fun s => " " ++ fShape s)
  | .error e, _ => "err value " ++ reprStr e
  | _, .error e => "err heap " ++ reprStr e

def pDims : P Dims := do
  let t ← tok
  match t with
  | "l" => do let js ← pList pInt; pure (.list js)
  | "s" => do let j ← pInt; pure (.single j)
  | "m" => do let bs ← pList pNat; pure (.mask (bs.map fun b => b != 0))
  | _ => failure

def pFE : P Fn := do
  let t ← tok
  match t with
  | "tot" => do let f ← pF; pure (okFn f)
  | "dimsE" => do let d ← pDims; pure (withDimsE d)
  | "tabE" => do
    -- the table of what the real `_apply` does to each array it is handed: returns `o <arr>` or raises `x`
    let tbl ← pList (do
      let a ← pMat
      let t ← tok
      match t with
      | "o" => do let b ← pMat; pure (a, (Except.ok b : Except Err Arr))
      | "x" => pure (a, (Except.error Err.unknown : Except Err Arr))
      | _ => failure)
    pure fun a => (tbl.lookup a).getD (.ok a)
  | _ => failure

def pBatchI : P (Option Int) := do
  let t ← tok
  match t with
  | "n" => pure none
  | "k" => do let k ← pInt; pure (some k)
  | _ => failure

def fErr : Err → String
  | .attr => "attr" | .fuel => "fuel" | .notImpl => "notImpl" | .unknown => "unknown" | .value => "value"
  | .index => "index"

/-- the methods as the source states them, with a closure that may raise -/
def runApplyE (k : Nat) (ap : Fn) (b : Option Int) (s : Shape) : String :=
  let (h, v) := build [] s
  let vres := vApply coreMethods expectedDispatch k ap (.shape s) b
  let hp := hTransform coreHMethods expectedDispatch k v (fun a => applyBatchedE ap b a) h
  let h' := hp.1
  let changed := (changedBelow h.length h h').length
  let intact := (match readShape k h' v with
    | some s0 => fShape s0 == fShape s
    | none => false) && repDB h' s v
  match vres, hp.2 with
  | .ok (.shape sv), .ok v' =>
    let agree := (match readShape k h' v' with
      | some sh => fShape sh == fShape sv
      | none => false) && repDB h' sv v'
    s!"ok changed={changed} intact={b01 intact} agree={b01 agree} " ++ fShape sv
  | .error e, .error e' => s!"err {fErr e} heap={fErr e'} changed={changed} intact={b01 intact}"
  | .error e, .ok _ => s!"err {fErr e} heap=ok changed={changed} intact={b01 intact}"
  | .ok _, .error e' => s!"err ok heap={fErr e'} changed={changed} intact={b01 intact}"
  | .ok _, .ok _ => "err not-a-shape"

def step (toks : List String) : String :=
  match toks with
  | "applye" :: rest =>
    match runP (do let k ← pNat; let b ← pBatchI; let f ← pFE; let s ← pShape; pure (k, b, f, s)) rest with
    | none => "bad-op"
    | some (k, b, f, s) => runApplyE k f b s
  | "wdims" :: rest =>
    match runP (do let d ← pDims; let a ← pMat; pure (d, a)) rest with
    | none => "bad-op"
    | some (d, a) =>
      match withDimsE d a with
      | .ok r => "ok " ++ fArr r
      | .error e => "err " ++ fErr e
  | "apply" :: rest =>
    match runP (do let k ← pNat; let f ← pF; let s ← pShape; pure (k, f, s)) rest with
    | none => "bad-op"
    | some (k, f, s) => runApply k f s
  | "applyb" :: rest =>
    match runP (do let k ← pNat; let b ← pBatch; let f ← pF; let s ← pShape; pure (k, b, f, s)) rest with
    | none => "bad-op"
    | some (k, b, f, s) => runApply k (applyBatched f b) s
  | "applym" :: rest =>
    match runP (do let k ← pNat; let b ← pBatch; let f ← pF; let s ← pShape; pure (k, b, f, s)) rest with
    | none => "bad-op"
    | some (k, b, f, s) => runManager k (applyBatched f b) s
  | "run" :: rest =>
    match runP (do
        let k ← pNat
        let h ← pList pCell
        let env ← pList (do let a ← pNat; let s ← pShape; pure (a, s))
        let calls ← pList (pCall k)
        pure (k, h, env, calls)) rest with
    | none => "bad-op"
    | some (k, h, env, calls) => runSeq k h env calls
  | "array" :: rest =>
    match runP (do let f ← pF; let a ← pMat; pure (f, a)) rest with
    | none => "bad-op"
    | some (f, a) =>
      match applyAny expectedDispatch f (.array a) with
      | .ok (.array b) => "ok " ++ fArr b
      | _ => "err"
  | "arrayb" :: rest =>
    match runP (do let b ← pBatch; let f ← pF; let a ← pMat; pure (b, f, a)) rest with
    | none => "bad-op"
    | some (b, f, a) =>
      match applyT expectedDispatch f b (.array a) with
      | .ok (.array r) => "ok " ++ fArr r
      | _ => "err"
  | _ => "bad-op"

end MenpoModel.Drive.C02
