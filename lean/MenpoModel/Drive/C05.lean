/-
Line-protocol driver for the C05 model (vectorisation).  Parsing glue only.

requests
  shape <Cls> <d> <n> p₁…pₙ <nVert> <k> t₁…t_k <extra> <lms> <m> v₁…v_m
  img   <Cls> <nd> s₁…s_nd <nCh> (nCh·nPix pixel values, C order) <k> mask bits… <lms> <m> v₁…v_m
  xf    <Cls> <mat h> <mat src> <mat tgt> <m> v₁…v_m
  lms := <g> (<name id> <k> x₁…x_k)*          mat := <rows> <cols> entries…

replies
  shape/img:  np <n> av <k> vals… C <res> F <res>
      res := err <kind> | ok <wf 0/1> <n landmark groups> <k> as-vector of the result… <m> full state…
  xf:         np (<n> | err <kind>) nd <ndim coded> <ndim fixed> av (err <kind> | vec <k> vals… | K 16 entries) C <res> F <res>
      res := err <kind> | ok <wf 0/1> <mat h> <mat tgt> av (err <kind> | vec <k> vals… | K 16 entries)
  C = the behaviour of the code as found, F = with the proposed patches applied.
  shape/img replies end with  I <res> J <res>: the same two variants of the in-place update
  (`from_vector_inplace`, i.e. `Shape.fvi` / `Img.fvi`); for xf the in-place update is C / F itself and the
  reply ends with  X <mat h>: the receiver's matrix after a failed in-place update.
  imgn  = img with <k> before the vector:  N <res of from_vector(v, n_channels=k)> <n channels> K <rows> (<len> vals…)*
      (K = as_vector(keep_channels=True) of the receiver)
  dt <Cls> <mask all true 0/1> <own dtype> <vector dtype>
      -> fv <dtype of from_vector(v)'s array> av <dtype of its as_vector()> ip <dtype after from_vector_inplace(v)>
         own <dtype of the receiver's as_vector()>
-/
import MenpoModel.Core.Codec
import MenpoModel.Core.Vectorize

namespace MenpoModel.Drive.C05
open MenpoModel.Codec MenpoModel.C05

def clsOf : String → Cls
  | "PointCloud" => .PointCloud | "PointUndirectedGraph" => .PointUndirectedGraph
  | "PointDirectedGraph" => .PointDirectedGraph | "PointTree" => .PointTree
  | "LabelledPointUndirectedGraph" => .LabelledPointUndirectedGraph | "TriMesh" => .TriMesh
  | "ColouredTriMesh" => .ColouredTriMesh | "TexturedTriMesh" => .TexturedTriMesh
  | "Image" => .Image | "MaskedImage" => .MaskedImage | "BooleanImage" => .BooleanImage
  | "Homogeneous" => .Homogeneous | "Affine" => .Affine | "Similarity" => .Similarity
  | "Translation" => .Translation | "UniformScale" => .UniformScale
  | "NonUniformScale" => .NonUniformScale | "Rotation" => .Rotation
  | "AlignmentAffine" => .AlignmentAffine | "AlignmentSimilarity" => .AlignmentSimilarity
  | "AlignmentTranslation" => .AlignmentTranslation
  | "AlignmentUniformScale" => .AlignmentUniformScale | "AlignmentRotation" => .AlignmentRotation
  | _ => .unknown

def pCls : P Cls := do let t ← tok; pure (clsOf t)
def pLms : P Lms := pList (do let n ← pNat; let l ← pList pRat; pure (n, l))

def fmtErr : Err → String
  | .value => "err value" | .notImpl => "err notimpl" | .other => "err other"
def fmtVec (v : Vec) : String := s!"{v.length}" ++ String.join (v.map fun r => " " ++ fmtRat r)
def fmtB (b : Bool) : String := if b then "1" else "0"
def fmtMatD (m : Mat) : String :=
  s!"{m.length} {(m.headD []).length}" ++ String.join (m.flatten.map fun r => " " ++ fmtRat r)

def shapeRes (e : Except Err Shape) : String :=
  match e with
  | .error k => fmtErr k
  | .ok s => s!"ok {fmtB s.wf} {s.lms.length} {fmtVec s.asVec} {fmtVec s.points}"

def imgRes (e : Except Err Img) : String :=
  match e with
  | .error k => fmtErr k
  | .ok x => s!"ok {fmtB x.wf} {x.lms.length} {fmtVec x.asVec} {fmtVec x.chans.flatten}"

def xfAv (x : Xf) : String :=
  match (rowOf x.cls).asVector with
  | .Rotation => match rotK x.h with
    | some K => "K" ++ String.join (K.flatten.map fun r => " " ++ fmtRat r)
    | none => "err notimpl"
  | _ => match x.asVecWith (fun _ => []) with
    | .ok v => "vec " ++ fmtVec v
    | .error k => fmtErr k

def xfRes (e : Except Err Xf) : String :=
  match e with
  | .error k => fmtErr k
  | .ok x => s!"ok {fmtB x.wf} {fmtMatD x.h} {fmtMatD x.tgt} av {xfAv x}"

def dtOf : String → Dt
  | "bool" => .bool | "uint8" => .uint8 | "int64" => .int64 | "float32" => .float32 | "float64" => .float64
  | _ => .other
def fmtDt : Dt → String
  | .bool => "bool" | .uint8 => "uint8" | .int64 => "int64" | .float32 => "float32" | .float64 => "float64"
  | .other => "other"

def step (toks : List String) : String :=
  match toks with
  | "shape" :: rest =>
    match runP (do
        let c ← pCls; let d ← pNat; let pts ← pList pRat; let nv ← pNat; let tris ← pList pNat
        let ex ← pNat; let lms ← pLms; let v ← pList pRat
        pure ((⟨c, d, pts, nv, tris, ex, lms⟩ : Shape), v)) rest with
    | none => "bad-op"
    | some (s, v) =>
      s!"np {s.nParams} av {fmtVec s.asVec} C {shapeRes (s.fromVec coded v)} F {shapeRes (s.fromVec fixed v)} I {shapeRes (s.fvi coded v)} J {shapeRes (s.fvi fixed v)}"
  | "img" :: rest =>
    match runP (do
        let c ← pCls; let shape ← pList pNat; let nch ← pNat
        let flat ← pMany pRat (nch * prod shape)
        let mask ← pList pBool; let lms ← pLms; let v ← pList pRat
        pure ((⟨c, shape, chunks (prod shape) nch flat, mask, lms⟩ : Img), v)) rest with
    | none => "bad-op"
    | some (x, v) =>
      s!"np {x.nParams} av {fmtVec x.asVec} C {imgRes (x.fromVec v)} F {imgRes (x.fromVec v)} I {imgRes (x.fvi v)} J {imgRes (x.fvi v)}"
  | "xf" :: rest =>
    match runP (do
        let c ← pCls; let h ← pMat; let src ← pMat; let tgt ← pMat; let v ← pList pRat
        pure ((⟨c, h, src, tgt⟩ : Xf), v)) rest with
    | none => "bad-op"
    | some (x, v) =>
      let np := match x.nParams with
        | .ok n => toString n
        | .error k => fmtErr k
      s!"np {np} nd {x.asVecNdim coded} {x.asVecNdim fixed} av {xfAv x} C {xfRes (x.fromVec coded v)} F {xfRes (x.fromVec fixed v)} X {fmtMatD (x.afterFailedFvi v).h}"
  | "imgn" :: rest =>
    match runP (do
        let c ← pCls; let shape ← pList pNat; let nch ← pNat
        let flat ← pMany pRat (nch * prod shape)
        let mask ← pList pBool; let lms ← pLms; let kk ← pNat; let v ← pList pRat
        pure ((⟨c, shape, chunks (prod shape) nch flat, mask, lms⟩ : Img), kk, v)) rest with
    | none => "bad-op"
    | some (x, kk, v) =>
      let nres := match x.fromVecN kk v with
        | .error k => fmtErr k
        | .ok y => s!"ok {fmtB y.wf} {y.lms.length} {fmtVec y.asVec} {fmtVec y.chans.flatten} {y.nCh}"
      s!"N {nres} K {x.asVecKeep.length}" ++ String.join (x.asVecKeep.map fun r => " " ++ fmtVec r)
  | ["dt", c, full, own, vec] =>
    let r := rowOf (clsOf c)
    let fv := fromVecDtype r (full == "1") (dtOf own) (dtOf vec)
    s!"fv {fmtDt fv} av {fmtDt (asVecDtype r fv)} ip {fmtDt (fviDtype r.fvi (full == "1") (dtOf own) (dtOf vec))} own {fmtDt (asVecDtype r (dtOf own))}"
  | _ => "bad-op"

end MenpoModel.Drive.C05
