/-
Line-protocol driver for the C17 model (mesh masking, mesh geometry).  Parsing glue only; every
value printed is computed by the definitions of `Core/C17Mesh.lean` the theorems are about.

mat   := r c x₁₁ … x_rc                 (row major, exact rationals; `0 0` = array absent)
tris  := k  a₁ b₁ c₁ … a_k b_k c_k
bools := n  b₁ … b_n
ops:
  mask    <pts:mat> <cols:mat> <tcs:mat> <tris> <mask:bools>
  trimask <pts:mat> <cols:mat> <tcs:mat> <tris> <trimask:bools>
        → ok T k a b c … P r c … C r c … X r c … G m lo hi … B bits…     | err shape|empty|index
          (G = graphEdges, B = boundaryCount of the masked mesh)
  geom2   <pts:mat n×2> <tris> a11 a12 a21 a22 t1 t2      (geometry of the mesh moved by p ↦ A p + t)
        → ok O <A orthogonal 0/1> D <det A> A k areas… E 3k squared-edge-lengths… U m squared-unique-edge-lengths…
  geom3   <pts:mat n×3> <tris> a11 … a33 t1 t2 t3
        → ok O o D det A k squared-areas… E 3k squared-edge-lengths… N k raw-normals(3k numbers)… U m squared-unique-edge-lengths…
  vnorm   <pts-count n> <tris> <fn:mat k×3>   → ok n sums(3n numbers)     (the coded three-pass scatter-add)
  bound   <n> <tris>  → coded (ok bits… | err index) ; count bits… ; spec bits…
  uedges  <tris>      → ok m lo hi …
  grid    r c         → ok <tris>            (subsampled_grid_triangulation((r, c)))
  hist    <pts:mat> <cols:mat> <tcs:mat> <tris> <nops> (e i | b i | m i <bools> | t i <bools> | c i)…
        → one observation per call, separated by ` ; `:  E k a b … | B bits… | M <mesh reply> | err … | noobj
          (`runH false`: the history as coded, starting from one freshly built object)
-/
import MenpoModel.Core.Codec
import MenpoModel.Core.C17Mesh

namespace MenpoModel.Drive.C17
open MenpoModel.Codec MenpoModel.C17

def pTris : P (List Tri) := do
  let k ← pNat
  pMany (do let a ← pNat; let b ← pNat; let c ← pNat; pure ((a, b, c) : Tri)) k

def fmtTris (ts : List Tri) : String :=
  s!"{ts.length}" ++ String.join (ts.map fun t => s!" {t.1} {t.2.1} {t.2.2}")

def fmtRows (m : List (List Rat)) : String :=
  let c := match m with | [] => 0 | r :: _ => r.length
  s!"{m.length} {c}" ++ String.join (m.map fun r => String.join (r.map fun x => " " ++ fmtRat x))

def fmtErr : Err → String
  | .shape => "err shape" | .empty => "err empty" | .index => "err index"

def fmtMesh (r : Except Err (Mesh (List Rat) (List Rat) (List Rat))) : String :=
  match r with
  | .error e => fmtErr e
  | .ok R =>
    let es := graphEdges R.tris
    s!"ok T {fmtTris R.tris} P {fmtRows R.pts} C {fmtRows R.cols} X {fmtRows R.tcs} G {es.length}"
      ++ String.join (es.map fun e => s!" {e.1} {e.2}") ++ " B"
      ++ String.join ((boundaryCount R.pts.length R.tris).map fun b => if b then " 1" else " 0")

def pMesh : P (Mesh (List Rat) (List Rat) (List Rat)) := do
  let pts ← pMat; let cols ← pMat; let tcs ← pMat; let ts ← pTris
  pure { pts := pts, cols := cols, tcs := tcs, tris := ts }

def pOp : P HOp := do
  let t ← tok
  if t == "e" then (do let i ← pNat; pure (HOp.edges i))
  else if t == "b" then (do let i ← pNat; pure (HOp.bound i))
  else if t == "m" then (do let i ← pNat; let m ← pList pBool; pure (HOp.mask i m))
  else if t == "t" then (do let i ← pNat; let m ← pList pBool; pure (HOp.trimask i m))
  else if t == "c" then (do let i ← pNat; pure (HOp.copy i))
  else failure

def fmtObs : Obs (List Rat) (List Rat) (List Rat) → String
  | .edges l => s!"E {l.length}" ++ String.join (l.map fun e => s!" {e.1} {e.2}")
  | .bits l => "B" ++ String.join (l.map fun b => if b then " 1" else " 0")
  | .made M => "M " ++ fmtMesh (.ok M)
  | .err e => fmtErr e
  | .noobj => "noobj"

def toV2 (r : List Rat) : V2 := ⟨r.getD 0 0, r.getD 1 0⟩
def toV3 (r : List Rat) : V3 := ⟨r.getD 0 0, r.getD 1 0, r.getD 2 0⟩

def fmtBits (l : List Bool) : String := String.join (l.map fun b => if b then " 1" else " 0")
def fmtQs (l : List Rat) : String := String.join (l.map fun x => " " ++ fmtRat x)
def b01 (b : Bool) : String := if b then "1" else "0"

def step (toks : List String) : String :=
  match toks with
  | "mask" :: rest => match runP (do let M ← pMesh; let m ← pList pBool; pure (M, m)) rest with
    | none => "bad-op"
    | some (M, m) => fmtMesh (fromMask M m)
  | "trimask" :: rest => match runP (do let M ← pMesh; let m ← pList pBool; pure (M, m)) rest with
    | none => "bad-op"
    | some (M, m) => fmtMesh (fromTriMask M m)
  | "geom2" :: rest =>
    match runP (do let pts ← pMat; let ts ← pTris; let a ← pMany pRat 6; pure (pts, ts, a)) rest with
    | some (pts, ts, [a11, a12, a21, a22, t1, t2]) =>
      let A : M2 := ⟨a11, a12, a21, a22⟩
      let ps := (pts.map toV2).map (aff2 A ⟨t1, t2⟩)
      if (triCorners ps ts).length ≠ ts.length then "err index" else
      let ue := uniqueEdgeSq2 ps ts
      s!"ok O {b01 (decide A.IsOrtho)} D {fmtRat A.det} A {ts.length}"
        ++ fmtQs (meshAreas2 ps ts)
        ++ s!" E {3 * ts.length}" ++ fmtQs (meshEdgeSq2 ps ts)
        ++ s!" U {ue.length}" ++ fmtQs ue
    | _ => "bad-op"
  | "geom3" :: rest =>
    match runP (do let pts ← pMat; let ts ← pTris; let a ← pMany pRat 12; pure (pts, ts, a)) rest with
    | some (pts, ts, [a11, a12, a13, a21, a22, a23, a31, a32, a33, t1, t2, t3]) =>
      let A : M3 := ⟨a11, a12, a13, a21, a22, a23, a31, a32, a33⟩
      let ps := (pts.map toV3).map (aff3 A ⟨t1, t2, t3⟩)
      if (triCorners ps ts).length ≠ ts.length then "err index" else
      let ue := uniqueEdgeSq3 ps ts
      s!"ok O {b01 (decide A.IsOrtho)} D {fmtRat A.det} A {ts.length}"
        ++ fmtQs (meshAreasSq3 ps ts)
        ++ s!" E {3 * ts.length}" ++ fmtQs (meshEdgeSq3 ps ts)
        ++ s!" N {ts.length}" ++ fmtQs ((meshFaceNormalsRaw ps ts).flatMap fun n => [n.x, n.y, n.z])
        ++ s!" U {ue.length}" ++ fmtQs ue
    | _ => "bad-op"
  | "vnorm" :: rest => match runP (do let n ← pNat; let ts ← pTris; let fn ← pMat; pure (n, ts, fn)) rest with
    | none => "bad-op"
    | some (n, ts, fn) =>
      let sums := vertexNormalSumsCoded n ts (fn.map toV3)
      s!"ok {sums.length}" ++ fmtQs (sums.flatMap fun v => [v.x, v.y, v.z])
  | "bound" :: rest => match runP (do let n ← pNat; let ts ← pTris; pure (n, ts)) rest with
    | none => "bad-op"
    | some (n, ts) =>
      let coded := match boundaryCoded ts with
        | .error e => fmtErr e
        | .ok bits => "ok" ++ fmtBits bits
      s!"coded {coded} ; count{fmtBits (boundaryCount n ts)} ; spec{fmtBits (boundarySpec ts)}"
  | "hist" :: rest =>
    match runP (do let M ← pMesh; let ops ← pList pOp; pure (M, ops)) rest with
    | none => "bad-op"
    | some (M, ops) =>
      " ; ".intercalate ((runH false [Obj.fresh M] ops).2.map fmtObs)
  | "grid" :: rest => match runP (do let r ← pNat; let c ← pNat; pure (r, c)) rest with
    | none => "bad-op"
    | some (r, c) => "ok " ++ fmtTris (gridTriangulation r c)
  | "uedges" :: rest => match runP pTris rest with
    | none => "bad-op"
    | some ts =>
      let es := uniqueEdges ts
      s!"ok {es.length}" ++ String.join (es.map fun e => s!" {e.1} {e.2}")
  | _ => "bad-op"

end MenpoModel.Drive.C17
