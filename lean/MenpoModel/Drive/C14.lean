/-
Line-protocol driver for the C14 model (graphs, trees and their queries).  Parsing glue only; every
answer is computed by the definitions of `Core/C14Graph.lean` that the theorems are about.

graph := K n m (i j w)*          K ∈ U | D, m stored entries (for U both orientations are listed); w an INTEGER of any
                                 sign: the structural operations run on the graph of absolute values (same zero pattern,
                                 `signed_structural_ops`), `mask` / `tmask` echo the signed entries, `sym` compares them
onat  := number | N              (N = none: -9999 / inf / None)
ops:
  basic G                 → ok edges=…;adj=…;iso=…;par=…;cyc=b;tree=b;treeold=b;sym=b
  fe K n k (a b)*         → ok edges=…;w=…                      | err range
  mask G n b*             → ok n=…;keep=…;w=…                   | err maskLength|empty
  paths G s t             → ok p|p|…           (as coded, in order)
  tree G r                → ok pred=…;depth=…;leaves=…          | err <reason>
  treec G r k (a b)*      → ok | err <reason>                   (the comparison before fix f13d9a9, with scipy's listing)
  tmask G r n b*          → ok n=…;root=…;keep=…;w=…            | err <reason>
  sp G s t n onat* n onat* → ok path=…;cost=…;ref=…;contract=b   (scipy's distance and predecessor rows of s)
  fp G s t n onat*        → ok path=…                            (predecessor array of the csgraph search)
  dist G s                → ok onat*                             (reference distances; G may be the unweighted copy)
  mst G                   → ok weight count ncomp
  mste G                  → ok w:i-j,…                           (the edges the Kruskal reference chooses, in order)
  levels G r              → ok max=…;levels=…|…;counts=…;nleaves=… | err depth   (levels 0 … max+1)
  api G r u v skip d      → ok ie=…;row=…;col=…;leaf=…;par=…;dep=…;vad=…;nvad=…;nch=…;npar=…   (the public entry points as coded,
                             guards included: `Core/C14Src.lean`, proved equal to the translated source; X = ValueError)
-/
import MenpoModel.Core.Codec
import MenpoModel.Core.C14Graph
import MenpoModel.Core.C14Ext
import MenpoModel.Core.C14Kruskal
import MenpoModel.Core.C14Src
import MenpoModel.Core.C14Signed

namespace MenpoModel.Drive.C14
open MenpoModel.Codec MenpoModel.C14

def mkSGraph (n : Nat) (ents : List (Nat × Nat × Int)) : SGraph :=
  let empty : Array (Array Int) := Array.replicate n (Array.replicate n 0)
  let arr := ents.foldl (fun (a : Array (Array Int)) e =>
    if e.1 < n ∧ e.2.1 < n then a.modify e.1 (fun r => r.set! e.2.1 e.2.2) else a) empty
  ⟨n, fun i j => (arr.getD i #[]).getD j 0⟩

def pTriple : P (Nat × Nat × Int) := do let i ← pNat; let j ← pNat; let w ← pInt; pure (i, j, w)
def pPair : P (Nat × Nat) := do let i ← pNat; let j ← pNat; pure (i, j)

def pKind : P Bool := do
  let t ← tok
  if t == "D" then pure true else if t == "U" then pure false else failure

/-- (directed?, signed graph) -/
def pSGraph : P (Bool × SGraph) := do
  let k ← pKind; let n ← pNat; let ents ← pList pTriple
  pure (k, mkSGraph n ents)

/-- (directed?, the graph of absolute values: what the structural operations read) -/
def pGraph : P (Bool × Graph) := do
  let (k, sg) ← pSGraph
  pure (k, sg.abs)

def pONat : P (Option Nat) := do
  let t ← tok
  if t == "N" then pure none else match t.toNat? with
    | some i => pure (some i)
    | none => failure

def fL (l : List Nat) : String := if l.isEmpty then "-" else ",".intercalate (l.map toString)
def fLL (l : List (List Nat)) : String := "|".intercalate (l.map fL)
def fE (l : List (Nat × Nat)) : String :=
  if l.isEmpty then "-" else ",".intercalate (l.map fun e => s!"{e.1}-{e.2}")
def fO (o : Option Nat) : String := match o with | none => "N" | some x => toString x
def fOL (l : List (Option Nat)) : String := if l.isEmpty then "-" else ",".intercalate (l.map fO)
def fB (b : Bool) : String := if b then "1" else "0"
def fW (g : Graph) : String := fLL g.rows
def fWI (g : SGraph) : String :=
  "|".intercalate (g.rows.map fun r => if r.isEmpty then "-" else ",".intercalate (r.map toString))
def fErr : Err → String
  | .maskLength => "err maskLength" | .empty => "err empty" | .rootRemoved => "err rootRemoved"
  | .isolated => "err isolated" | .notTree => "err notTree" | .badRoot => "err badRoot"
  | .bfsDiffers => "err bfsDiffers"

def fX {α} (f : α → String) : Option α → String
  | none => "X"
  | some x => f x

def contractOk (g : Graph) (s : Nat) (d pred : List (Option Nat)) : Bool :=
  d == g.dist s &&
  (List.range g.n).all fun v =>
    v == s || match pred.getD v none with
      | none => (d.getD v none).isNone
      | some p => g.w p v != 0 && (match d.getD p none, d.getD v none with
          | some dp, some dv => dv == dp + g.w p v
          | _, _ => false)

def step (toks : List String) : String :=
  match toks with
  | "basic" :: rest => match runP pSGraph rest with
    | none => "bad-op"
    | some (k, sg) =>
      let g := sg.abs
      s!"ok edges={fE (g.edges k)};adj={fLL g.adjacencyList};iso={fL g.isolated};par={fLL ((List.range g.n).map g.parents)};cyc={fB (g.hasCycles k)};tree={fB (g.isTree k)};treeold={fB (g.isTreeCoded k)};sym={fB sg.symmetricB}"
  | "fe" :: rest => match runP (do let k ← pKind; let n ← pNat; let es ← pList pPair; pure (k, n, es)) rest with
    | none => "bad-op"
    | some (k, n, es) =>
      if !edgesInRange n es then "err range" else
      let g := if k then fromEdges n es else fromEdgesSym n es
      s!"ok edges={fE (g.edges k)};w={fW g}"
  | "mask" :: rest => match runP (do let g ← pSGraph; let m ← pList pBool; pure (g, m)) rest with
    | none => "bad-op"
    | some ((_, sg), m) => match sg.abs.fromMask m with
      | .error e => fErr e
      | .ok (g', keep) => s!"ok n={g'.n};keep={fL keep};w={fWI (sg.select keep)}"
  | "paths" :: rest => match runP (do let g ← pGraph; let s ← pNat; let t ← pNat; pure (g, s, t)) rest with
    | none => "bad-op"
    | some ((_, g), s, t) => s!"ok {fLL (g.allPaths s t)}"
  | "tree" :: rest => match runP (do let g ← pGraph; let r ← pNat; pure (g, r)) rest with
    | none => "bad-op"
    | some ((_, g), r) => match g.treeCtor r with
      | .error e => fErr e
      | .ok _ => s!"ok pred={fOL g.predList};depth={fOL ((List.range g.n).map (g.depth r))};leaves={fL g.leaves}"
  | "treec" :: rest => match runP (do let g ← pGraph; let r ← pNat; let l ← pList pPair; pure (g, r, l)) rest with
    | none => "bad-op"
    | some ((_, g), r, l) => match g.treeCtorCoded r l with
      | .error e => fErr e
      | .ok _ => "ok"
  | "tmask" :: rest => match runP (do let g ← pSGraph; let r ← pNat; let m ← pList pBool; pure (g, r, m)) rest with
    | none => "bad-op"
    | some ((_, sg), r, m) => match sg.abs.treeFromMask r m with
      | .error e => fErr e
      | .ok (g', r', keep) => s!"ok n={g'.n};root={r'};keep={fL keep};w={fWI (sg.select keep)}"
  | "sp" :: rest => match runP (do
        let g ← pGraph; let s ← pNat; let t ← pNat; let d ← pList pONat; let p ← pList pONat
        pure (g, s, t, d, p)) rest with
    | none => "bad-op"
    | some ((_, g), s, t, d, p) => match shortestPathCoded d p s t with
      | none => "err loop"
      | some (path, cost) =>
        s!"ok path={fL path};cost={fO cost};ref={fO ((g.dist s).getD t none)};contract={fB (contractOk g s d p)}"
  | "fp" :: rest => match runP (do let g ← pGraph; let s ← pNat; let t ← pNat; let p ← pList pONat; pure (g, s, t, p)) rest with
    | none => "bad-op"
    | some (_, s, t, p) => match pathFromPred p s t with
      | none => "err loop"
      | some path => s!"ok path={fL path}"
  | "dist" :: rest => match runP (do let g ← pGraph; let s ← pNat; pure (g, s)) rest with
    | none => "bad-op"
    | some ((_, g), s) => s!"ok {fOL (g.dist s)}"
  | "mst" :: rest => match runP pGraph rest with
    | none => "bad-op"
    | some (_, g) => let (w, c) := g.kruskal; s!"ok {w} {c} {g.nComponents}"
  | "mste" :: rest => match runP pGraph rest with
    | none => "bad-op"
    | some (_, g) =>
      let es := g.kruskalEdges
      if es.isEmpty then "ok -" else "ok " ++ ",".intercalate (es.map fun e => s!"{e.1}:{e.2.1}-{e.2.2}")
  | "levels" :: rest => match runP (do let g ← pGraph; let r ← pNat; pure (g, r)) rest with
    | none => "bad-op"
    | some ((_, g), r) => match g.maximumDepth r with
      | none => "err depth"
      | some M =>
        let ks := List.range (M + 2)
        s!"ok max={M};levels={fLL (ks.map (g.verticesAtDepth r))};counts={fL (ks.map (g.nVerticesAtDepth r))};nleaves={g.nLeaves}"
  | "api" :: rest => match runP (do
        let g ← pGraph; let r ← pNat; let u ← pNat; let v ← pNat; let s ← pBool; let d ← pNat
        pure (g, r, u, v, s, d)) rest with
    | none => "bad-op"
    | some ((_, g), r, u, v, s, d) =>
      s!"ok ie={fX fB (g.isEdgeApi u v s)};row={fX fL (g.rowApi v s)};col={fX fL (g.colApi v s)};leaf={fX fB (g.isLeafApi v s)};par={fX fO (g.parentApi v s)};dep={fX toString (g.depthApi r v s)};vad={fX fL (g.verticesAtDepthApi r d)};nvad={fX toString (g.nVerticesAtDepthApi r d)};nch={fX toString ((g.rowApi v s).map List.length)};npar={fX toString ((g.colApi v s).map List.length)}"
  | _ => "bad-op"

end MenpoModel.Drive.C14
