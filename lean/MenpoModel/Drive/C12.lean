/-
Line-protocol driver for the C12 model.  Parsing glue only.

ops:  build m k V bias  E (u v)*  X(r c …)  Q(r c …)
        m = c | s (concatenation | subtraction); E edges as listed by graph.edges; X the data matrix;
        Q the query matrix.  The model inverts the covariances itself (exact, checked).
      given m k V  E (u v)*  nB B₁(r c …) …  X(r c …)  Q(r c …)
        the inverted blocks are handed in (contract parameter: truncated-SVD inverse)
      build-coded …  (same arguments) the constructor as coded before the repair: err zerodim when the
        inverted covariance is 1 × 1
      build-ns m k V bias isArray ns  E (u v)*  X(r c …)  Q(r c …)
        `n_samples = ns` handed to the constructor together with a list (isArray = 0) or an array (1) of samples
      trunc m k V bias nc  E (u v)*  nS (nσ σ… W(r c …))*  X(r c …)  Q(r c …)
        `n_components = nc` with one rational eigen-decomposition certificate per edge / vertex (eigenvalues
        descending, rows of W the eigenvectors); the model verifies every certificate exactly (`checkSpec`)
      build-obj m k V bias  E (u v)*  nP P₁(V k …) …  nQ Q₁(V k …) …
        `GMRFModel`: samples and queries are V × k point sets; extra reply fields MO (mean() as V × k) and
        M1 (each query instance asked on its own, sparse storage)
      build-src m k V bias  E (u v)*  X(r c …)  Q(r c …)
        the same as `build`, computed by the definitions `GenProps/C12Src.lean` proves equal to the TRANSLATION of the
        current source text (`Core/C12Src.lean`: `vecInitCoded` with the coded `_covariance_matrix_inverse`, the four
        assembly routines, `mahalanobisCoreCoded`), sparse and dense storage built separately; `argsort` is the
        stable insertion argsort `argsortIns`
reply: ok D <n·n dense entries> S <n·n sparse entries> IP <indptr> MU <mean> MS <mahal sparse> MD <mahal dense>
          MR <mahal dense, subtract_mean=False>
       | err singular | err zerodim | err certificate
-/
import MenpoModel.Core.Codec
import MenpoModel.Core.C12GMRF
import MenpoModel.Core.C12Src

namespace MenpoModel.Drive.C12
open MenpoModel.Codec MenpoModel.C12

def pMode : P Mode := do
  let t ← tok
  match t with
  | "c" => pure .concat
  | "s" => pure .sub
  | _ => failure

def pEdge : P (Nat × Nat) := do let u ← pNat; let v ← pNat; pure (u, v)

def fmtModel (k V : Nat) (M : Model) (Q : Mat) : String :=
  let n := V * k
  let sp : Mat := tab n n (bsrEnt k M.sparseP)
  let q := subMean Q M.mean n
  "ok D " ++ fmtMat (tab n n (ent M.denseP)) ++ " S " ++ fmtMat sp ++
    " IP " ++ fmtNats M.sparseP.indptr ++ " MU " ++ fmtRats M.mean ++
    " MS " ++ fmtRats (mahalSparse n (ent sp) q) ++ " MD " ++ fmtRats (mahalDense n (ent M.denseP) q) ++
    " MR " ++ fmtRats (mahalDense n (ent M.denseP) (tab Q.length n (ent Q)))

def pSpec : P (List Rat × Mat) := do let sig ← pList pRat; let W ← pMat; pure (sig, W)

def step (toks : List String) : String :=
  match toks with
  | "build" :: rest =>
    match runP (do
        let m ← pMode; let k ← pNat; let V ← pNat; let b ← pBool
        let es ← pList pEdge; let X ← pMat; let Q ← pMat
        pure (m, k, V, b, es, X, Q)) rest with
    | some (m, k, V, b, es, X, Q) =>
      match build m k V X X.length b es with
      | some M => fmtModel k V M Q
      | none => "err singular"
    | none => "bad-op"
  | "build-src" :: rest =>
    match runP (do
        let m ← pMode; let k ← pNat; let V ← pNat; let b ← pBool
        let es ← pList pEdge; let X ← pMat; let Q ← pMat
        pure (m, k, V, b, es, X, Q)) rest with
    | some (m, k, V, b, es, X, Q) =>
      let run := fun (sparse : Bool) =>
        Src.vecInitCoded (Src.covInverseCoded fun _ => none) Src.argsortIns (.arr2 X) ⟨es, V⟩ none (Src.toS m) none
          .float64 sparse b false
      match run true, run false with
      | .ok Ms, .ok Md =>
        let n := V * k
        let Qm : Mat := tab Q.length n (ent Q)
        let ip := match Ms.precision with
          | .bsr _ _ B => B.indptr
          | .dense _ => []
        "ok D " ++ fmtMat (tab n n Md.precision.ent) ++ " S " ++ fmtMat (tab n n Ms.precision.ent) ++
          " IP " ++ fmtNats ip ++ " MU " ++ fmtRats Md.mean_vector ++
          " MS " ++ fmtRats (Src.mahalanobisCoreCoded id Ms Qm true false).toList ++
          " MD " ++ fmtRats (Src.mahalanobisCoreCoded id Md Qm true false).toList ++
          " MR " ++ fmtRats (Src.mahalanobisCoreCoded id Md Qm false false).toList
      | .error .linAlg0d, _ => "err zerodim"
      | .error .singular, _ => "err singular"
      | _, _ => "err other"
    | none => "bad-op"
  | "build-ns" :: rest =>
    match runP (do
        let m ← pMode; let k ← pNat; let V ← pNat; let b ← pBool; let isArr ← pBool; let ns ← pNat
        let es ← pList pEdge; let X ← pMat; let Q ← pMat
        pure (m, k, V, b, isArr, ns, es, X, Q)) rest with
    | some (m, k, V, b, isArr, ns, es, X, Q) =>
      match buildFrom m k V isArr X (some ns) b es with
      | some M => fmtModel k V M Q
      | none => "err singular"
    | none => "bad-op"
  | "build-coded" :: rest =>
    match runP (do
        let m ← pMode; let k ← pNat; let V ← pNat; let b ← pBool
        let es ← pList pEdge; let X ← pMat; let Q ← pMat
        pure (m, k, V, b, es, X, Q)) rest with
    | some (m, k, V, b, es, X, Q) =>
      match buildCoded m k V X X.length b es with
      | .ok M => fmtModel k V M Q
      | .error .zeroDim => "err zerodim"
      | .error .singular => "err singular"
    | none => "bad-op"
  | "trunc" :: rest =>
    match runP (do
        let m ← pMode; let k ← pNat; let V ← pNat; let b ← pBool; let nc ← pNat
        let es ← pList pEdge; let specs ← pList pSpec; let X ← pMat; let Q ← pMat
        pure (m, k, V, b, nc, es, specs, X, Q)) rest with
    | some (m, k, V, b, nc, es, specs, X, Q) =>
      match buildTrunc m k V X X.length b es nc specs with
      | some M => fmtModel k V M Q
      | none => "err certificate"
    | none => "bad-op"
  | "build-obj" :: rest =>
    match runP (do
        let m ← pMode; let k ← pNat; let V ← pNat; let b ← pBool
        let es ← pList pEdge; let ps ← pList pMat; let qs ← pList pMat
        pure (m, k, V, b, es, ps, qs)) rest with
    | some (m, k, V, b, es, ps, qs) =>
      match buildObj m k V ps b es with
      | some M =>
        let n := V * k
        let sp : Mat := tab n n (bsrEnt k M.sparseP)
        let singles := qs.map fun q =>
          (mahalSparse n (ent sp) (subMean (queryMatrix V k (.one q)) M.mean n)).getD 0 0
        fmtModel k V M (queryMatrix V k (.many qs)) ++ " MO " ++ fmtMat (meanObj V k M) ++
          " M1 " ++ fmtRats singles
      | none => "err singular"
    | none => "bad-op"
  | "given" :: rest =>
    match runP (do
        let m ← pMode; let k ← pNat; let V ← pNat
        let es ← pList pEdge; let Bs ← pList pMat; let X ← pMat; let Q ← pMat
        pure (m, k, V, es, Bs, X, Q)) rest with
    | some (m, k, V, es, Bs, X, Q) => fmtModel k V (buildGiven m k V X X.length es Bs) Q
    | none => "bad-op"
  | _ => "bad-op"

end MenpoModel.Drive.C12
