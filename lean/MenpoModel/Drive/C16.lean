/-
Line-protocol driver for the C16 models.  Parsing glue only; every reply is computed by the definitions of
`MenpoModel.Core.C16` the theorems are about.
ops:
  ljson G {name n d c₁…c_{n·d} (E | -1) [a b]… L {label b₁…b_n}}   export → JSON tree → import
        → ok G {name cls n d coords E [a b]… L {label bits}} | err kind
  pts n {y x}          → ok {y' x'}                 (points format round trip, exact rationals)
  u8 k                 → ok trunc round             (IEEE binary64: coded and repaired eight-bit conversion)
  q8 x                 → ok trunc round             (exact quantisation of a float pixel)
  mode channels dims   → ok L | ok RGB | err
  norm cwd spelling    → ok /a/b/c
  ext kind name        → ok .ext | err
  exts kind            → ok .e₁ .e₂ …
  guard cwd m {existing} n {kind spelling (userext | -) overwrite}  → ok o₁…o_n | {path content}
        (content = number of the export whose bytes the file holds, 1000+j for the j-th pre-existing file)
-/
import MenpoModel.Core.Codec
import MenpoModel.Core.C16

namespace MenpoModel.Drive.C16
open MenpoModel.Codec MenpoModel.C16

def pShape : P (String × Shape) := do
  let name ← tok
  let n ← pNat
  let d ← pNat
  let pts ← pMany (pMany pORat d) n
  let e ← pInt
  let conn ← if e < 0 then pure none else do
    let es ← pMany (do let a ← pNat; let b ← pNat; pure (a, b)) e.toNat
    pure (some es)
  let nl ← pNat
  let labels ← pMany (do let l ← tok; let m ← pMany pBool n; pure (l, m)) nl
  pure (name, { points := pts, conn := conn, labels := labels })

def fORat : Option Rat → String
  | none => "nan"
  | some q => fmtRat q

def fImported (g : String × Imported) : String :=
  let i := g.2
  let d := match i.points with
    | [] => 0
    | r :: _ => r.length
  let cls := match i.cls with
    | .pug => "PointUndirectedGraph"
    | .lpug => "LabelledPointUndirectedGraph"
  " ".intercalate ([g.1, cls, toString i.points.length, toString d] ++ i.points.flatten.map fORat ++
    [toString i.edges.length] ++ i.edges.flatMap (fun e => [toString e.1, toString e.2]) ++
    [toString i.labels.length] ++ i.labels.flatMap (fun l => l.1 :: l.2.map fun b => if b then "1" else "0"))

def fErr : Err → String
  | .unknownVersion => "unknown-version"
  | .legacyVersion => "legacy-version"
  | .emptyPoints => "empty-points"
  | .malformed => "malformed"

def pKind : P Kind := do
  let t ← tok
  match t with
  | "landmark" => pure .landmark
  | "image" => pure .image
  | "pickle" => pure .pickle
  | "video" => pure .video
  | _ => failure

def fPath (p : Path) : String := "/" ++ "/".intercalate (p.map String.ofList)

def cwdOf (s : String) : Path := normAbs (splitC '/' s.toList)

def pOp (i : Nat) : P Op := do
  let k ← pKind
  let sp ← tok
  let ue ← tok
  let ow ← pBool
  pure { kind := k, spelling := sp.toList, userExt := if ue == "-" then none else some ue.toList,
         overwrite := ow, content := i }

def pOps : Nat → Nat → P (List Op)
  | 0, _ => pure []
  | n+1, i => do let o ← pOp i; let r ← pOps n (i + 1); pure (o :: r)

def fOutcome : Outcome → String
  | .written => "w"
  | .overwriteError => "o"
  | .valueError => "v"

def step (toks : List String) : String :=
  match toks with
  | "ljson" :: r => match runP (pList pShape) r with
    | some gs => match decodeDoc (encodeDoc gs) with
      | .ok res => "ok " ++ toString res.length ++ " " ++ " ".intercalate (res.map fImported)
      | .error e => "err " ++ fErr e
    | none => "bad-op"
  | "pts" :: r => match runP (pList (do let y ← pRat; let x ← pRat; pure (y, x))) r with
    | some ps => "ok " ++ fmtRats ((ptsRoundTrip ps).flatMap fun p => [p.1, p.2])
    | none => "bad-op"
  | ["u8", k] => match k.toNat? with
    | some k => s!"ok {(denormTrunc (norm8 k)).toNat} {(denormRound (norm8 k)).toNat}"
    | none => "bad-op"
  | "q8" :: r => match runP pRat r with
    | some x => s!"ok {quantTrunc x} {quantRound x}"
    | none => "bad-op"
  | "mode" :: r => match runP (do let c ← pNat; let d ← pNat; pure (c, d)) r with
    | some (c, d) => match pilMode c d with
      | some .L => "ok L"
      | some .RGB => "ok RGB"
      | none => "err"
    | none => "bad-op"
  | ["norm", cwd, sp] => "ok " ++ fPath (normPath (cwdOf cwd) sp.toList)
  | "ext" :: r => match runP (do let k ← pKind; let n ← tok; pure (k, n)) r with
    | some (k, n) => match parseExt (knownExts k) n.toList with
      | some e => "ok " ++ String.ofList e
      | none => "err"
    | none => "bad-op"
  | "exts" :: r => match runP pKind r with
    | some k => "ok " ++ " ".intercalate (extTable k)
    | none => "bad-op"
  | "guard" :: cwd :: r => match runP (do let pre ← pList tok; let n ← pNat; let ops ← pOps n 0; pure (pre, ops)) r with
    | some (pre, ops) =>
      let c := cwdOf cwd
      let prePaths := pre.map fun s => normPath c s.toList
      let fs0 : FS := fun q => (prePaths.idxOf? q).map (· + 1000)
      let res := runHistory c fs0 ops
      let paths := (prePaths ++ ops.map fun o => normPath c o.spelling).eraseDups
      let listing := paths.filterMap fun p => (res.2 p).map fun v => fPath p ++ " " ++ toString v
      "ok " ++ "".intercalate (res.1.map fOutcome) ++ " | " ++ " ".intercalate listing
    | none => "bad-op"
  | _ => "bad-op"

end MenpoModel.Drive.C16
